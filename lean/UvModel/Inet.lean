/-
  Model of src/inet.c (inet_pton4/6, inet_ntop4/6, uv_inet_pton, uv_inet_ntop),
  src/uv-common.c:254-321 (uv_ip4_addr, uv_ip6_addr, uv_ip4_name, uv_ip6_name, uv_ip_name)
  and src/strscpy.c.

  Representation.  A C `char`/`unsigned char` is the `Nat` value of the byte (0..255).
  A C string argument is the list of its bytes *before* the terminating NUL (the driver
  cuts the memory image at the first 0 byte); `s.getD i 0` is then exactly `s[i]` for
  every index the C code may legally read (`i ≤ strlen s`).  Pointer walks (`*src++`)
  are walks down the list; `tp` (the write cursor into `tmp[]`) is the list of bytes
  written so far, `colonp` is an index into `tmp[]`.  Destination buffers are lists
  (the memory window starting at `dst`, at least `size` long); functions return the
  new window so that "nothing written past `size`" is a statement about the result.
  Arithmetic that the C code does in `unsigned int`/`unsigned char` is done in `Nat`;
  the guards of the C code (`nw > 255`, `++seen_xdigits > 4`) keep every value in range
  (proved: `pton4_value`, `pton6_value_bytes`).
-/
namespace UvModel.Inet

def UV_EINVAL : Int := -22
def UV_ENOSPC : Int := -28
def UV_E2BIG : Int := -7
def UV_EAFNOSUPPORT : Int := -97
def AF_INET : Nat := 2
def AF_INET6 : Nat := 10
def SSIZE_MAX : Nat := 2 ^ 63 - 1

/-- the C string stored in a memory image: bytes before the first NUL -/
def cstr (m : List Nat) : List Nat := m.takeWhile (· ≠ 0)

/-! ## src/strscpy.c:25-38 -/

/-- the `for (i = 0; i < n; i++) if ('\0' == (d[i] = s[i])) return …` loop, then lines 32-37 -/
def strscpyLoop (s : List Nat) (n : Nat) (i : Nat) (d : List Nat) : Int × List Nat :=
  if i < n then
    if s.getD i 0 = 0 then                                   -- '\0' == (d[i] = s[i])
      ((if i > SSIZE_MAX then UV_E2BIG else (i : Int)), d.set i (s.getD i 0))
    else strscpyLoop s n (i + 1) (d.set i (s.getD i 0))
  else if i = 0 then (0, d)
  else (UV_E2BIG, d.set (i - 1) 0)
termination_by n - i

/-- `uv__strscpy(d, s, n)`; returns (return value, new contents of the window at `d`) -/
def strscpy (d s : List Nat) (n : Nat) : Int × List Nat := strscpyLoop s n 0 d

/-! ## formatting primitives: snprintf "%u" of an unsigned char, "%x" of a 16-bit word -/

/-- `%u` for values < 1000 (the arguments are `unsigned char`) -/
def fmtU8 (n : Nat) : List Nat :=
  if n < 10 then [48 + n]
  else if n < 100 then [48 + n / 10, 48 + n % 10]
  else [48 + n / 100, 48 + n / 10 % 10, 48 + n % 10]

def hexDigit (d : Nat) : Nat := if d < 10 then 48 + d else 87 + d

/-- `%x` for values < 65536 (the words are two bytes) -/
def fmtX16 (w : Nat) : List Nat :=
  if w < 16 then [hexDigit w]
  else if w < 256 then [hexDigit (w / 16), hexDigit (w % 16)]
  else if w < 4096 then [hexDigit (w / 256), hexDigit (w / 16 % 16), hexDigit (w % 16)]
  else [hexDigit (w / 4096), hexDigit (w / 256 % 16), hexDigit (w / 16 % 16), hexDigit (w % 16)]

/-! ## inet_ntop4, src/inet.c:48-59 -/

/-- what `snprintf(tmp, sizeof tmp, "%u.%u.%u.%u", src[0..3])` would print, untruncated -/
def fmt4 (src : List Nat) : List Nat :=
  fmtU8 (src.getD 0 0) ++ 46 :: fmtU8 (src.getD 1 0) ++ 46 :: fmtU8 (src.getD 2 0) ++ 46 :: fmtU8 (src.getD 3 0)

def ntop4 (src dst : List Nat) (size : Nat) : Int × List Nat :=
  let full := fmt4 src
  let tmp := full.take 15      -- snprintf stores at most sizeof(tmp)-1 = 15 chars (+ NUL) …
  let l := full.length         -- … and returns the untruncated length
  if l ≤ 0 ∨ l ≥ size then (UV_ENOSPC, dst)
  else (0, (strscpy dst tmp size).2)

/-! ## inet_ntop6, src/inet.c:62-143 -/

/-- lines 80-82: bytes → eight 16-bit words -/
def words (src : List Nat) : List Nat :=
  (List.range 8).map fun i => src.getD (2 * i) 0 * 256 + src.getD (2 * i + 1) 0

structure Run where
  base : Int
  len : Int
deriving DecidableEq, Repr

/-- one iteration of the scan loop, lines 87-100; state = (best, cur) -/
def scanStep (ws : List Nat) (st : Run × Run) (i : Nat) : Run × Run :=
  let best := st.1
  let cur := st.2
  if ws.getD i 0 = 0 then
    if cur.base = -1 then (best, ⟨i, 1⟩) else (best, ⟨cur.base, cur.len + 1⟩)
  else if cur.base ≠ -1 then
    ((if best.base = -1 ∨ cur.len > best.len then cur else best), ⟨-1, cur.len⟩)
  else (best, cur)

/-- lines 101-106: account for a run that reaches the end; drop runs shorter than 2 -/
def finishScan (st : Run × Run) : Run :=
  let best := if st.2.base ≠ -1 then (if st.1.base = -1 ∨ st.2.len > st.1.len then st.2 else st.1) else st.1
  if best.base ≠ -1 ∧ best.len < 2 then ⟨-1, best.len⟩ else best

/-- lines 83-106 -/
def bestRun (ws : List Nat) : Run :=
  finishScan ((List.range 8).foldl (scanStep ws) (⟨-1, 0⟩, ⟨-1, 0⟩))

/-- lines 121-122: `if (i != 0) *tp++ = ':'` -/
def colon (i : Nat) (tp : List Nat) : List Nat := if i ≠ 0 then tp ++ [58] else tp

/-- lines 127-131: `inet_ntop4(src+12, tp, sizeof tmp - (tp - tmp))`, `tp += strlen(tp)`, `break`.
    `.error e` = early `return err` (line 129). -/
def embedV4 (src tp : List Nat) : Except Int (List Nat) :=
  let room := 46 - tp.length
  let r := ntop4 (src.drop 12) (List.replicate room 0) room
  if r.1 ≠ 0 then .error r.1 else .ok (tp ++ cstr r.2)

/-- the format loop, lines 112-134; `tp` = bytes written to `tmp` so far -/
def fmt6Loop (src ws : List Nat) (best : Run) (i : Nat) (tp : List Nat) : Except Int (List Nat) :=
  if i < 8 then
    if best.base ≠ -1 ∧ (i : Int) ≥ best.base ∧ (i : Int) < best.base + best.len then
      fmt6Loop src ws best (i + 1) (if (i : Int) = best.base then tp ++ [58] else tp)
    else if i = 6 ∧ best.base = 0 ∧ (best.len = 6 ∨ (best.len = 7 ∧ ws.getD 7 0 ≠ 1)
            ∨ (best.len = 5 ∧ ws.getD 5 0 = 0xffff)) then
      embedV4 src (colon i tp)
    else
      fmt6Loop src ws best (i + 1) (colon i tp ++ fmtX16 (ws.getD i 0))
  else .ok tp
termination_by 8 - i

/-- text produced in `tmp` (without the NUL), lines 62-138 -/
def ntop6Text (src : List Nat) : Except Int (List Nat) :=
  let ws := words src
  let best := bestRun ws
  match fmt6Loop src ws best 0 [] with
  | .error e => .error e
  | .ok tp => .ok (if best.base ≠ -1 ∧ best.base + best.len = 8 then tp ++ [58] else tp)

def ntop6 (src dst : List Nat) (size : Nat) : Int × List Nat :=
  match ntop6Text src with
  | .error e => (e, dst)
  | .ok tp =>
    let tmp := tp ++ [0]                     -- *tp++ = '\0'
    if tmp.length > size then (UV_ENOSPC, dst)
    else (0, (strscpy dst tmp size).2)

/-- `uv_inet_ntop`, lines 35-45 -/
def uvInetNtop (af : Nat) (src dst : List Nat) (size : Nat) : Int × List Nat :=
  if af = AF_INET then ntop4 src dst size
  else if af = AF_INET6 then ntop6 src dst size
  else (UV_EAFNOSUPPORT, dst)

/-! ## inet_pton4, src/inet.c:175-211 -/

/-- the `while` loop; `done` = tmp[0..tp), `cur` = `*tp`.  `none` = `return UV_EINVAL`. -/
def pton4Loop : List Nat → Bool → Nat → List Nat → Nat → Option (List Nat)
  | [], _, octets, done, cur => if octets < 4 then none else some (done ++ [cur])
  | ch :: rest, saw, octets, done, cur =>
    if 48 ≤ ch ∧ ch ≤ 57 then                      -- strchr(digits, ch)
      -- nw = *tp * 10 + (pch - digits)
      if saw = true ∧ cur = 0 then none
      else if cur * 10 + (ch - 48) > 255 then none
      else if saw = false then
        if octets + 1 > 4 then none else pton4Loop rest true (octets + 1) done (cur * 10 + (ch - 48))
      else pton4Loop rest true octets done (cur * 10 + (ch - 48))
    else if ch = 46 ∧ saw = true then
      if octets = 4 then none else pton4Loop rest false octets (done ++ [cur]) 0
    else none

def pton4 (src : List Nat) : Option (List Nat) := pton4Loop src false 0 [] 0

/-! ## inet_pton6, src/inet.c:214-298 -/

/-- strchr in "0123456789abcdef" then "0123456789ABCDEF" -/
def hexVal (ch : Nat) : Option Nat :=
  if 48 ≤ ch ∧ ch ≤ 57 then some (ch - 48)
  else if 97 ≤ ch ∧ ch ≤ 102 then some (ch - 87)
  else if 65 ≤ ch ∧ ch ≤ 70 then some (ch - 55)
  else none

/-- lines 288-291, for i = k, k+1, …, n (fuel = iterations left); `a` is the whole tmp[16],
    `c` = colonp - tmp, endp - tmp = 16 -/
def shiftLoop (c n : Nat) : Nat → Nat → List Nat → List Nat
  | 0, _, a => a
  | fuel + 1, i, a =>
    let a := a.set (16 - i) (a.getD (c + n - i) 0)   -- endp[-i] = colonp[n - i]
    let a := a.set (c + n - i) 0                     -- colonp[n - i] = 0
    shiftLoop c n fuel (i + 1) a

/-- the two bytes of a 16-bit group, network order:
    `*tp++ = (unsigned char) (val >> 8) & 0xff; *tp++ = (unsigned char) val & 0xff;` -/
def wbytes (w : Nat) : List Nat := [w / 256 % 256, w % 256]

/-- lines 278-297: expand "::" (shift by hand), then `tp != endp` check -/
def pton6Tail (tp : List Nat) (colonp : Option Nat) : Option (List Nat) :=
  match colonp with
  | some c =>
    if tp.length = 16 then none
    else
      let n := tp.length - c
      some (shiftLoop c n n 1 (tp ++ List.replicate (16 - tp.length) 0))
  | none => if tp.length ≠ 16 then none else some tp

/-- lines 272-277, then the tail -/
def pton6Finish (seen val : Nat) (tp : List Nat) (colonp : Option Nat) : Option (List Nat) :=
  if seen ≠ 0 then
    if tp.length + 2 > 16 then none else pton6Tail (tp ++ wbytes val) colonp
  else pton6Tail tp colonp

/-- the `while` loop, lines 232-271.  `curtok` is the text from the current token on. -/
def pton6Loop : List Nat → List Nat → Nat → Nat → List Nat → Option Nat → Option (List Nat)
  | [], _, seen, val, tp, colonp => pton6Finish seen val tp colonp
  | ch :: rest, curtok, seen, val, tp, colonp =>
    match hexVal ch with
    | some d =>
      let val := val * 16 + d              -- val <<= 4; val |= d  (val < 2^16 before: no carry, no overflow)
      if seen + 1 > 4 then none else pton6Loop rest curtok (seen + 1) val tp colonp
    | none =>
      if ch = 58 then
        if seen = 0 then
          if colonp.isSome then none else pton6Loop rest rest 0 val tp (some tp.length)
        else if rest = [] then none
        else if tp.length + 2 > 16 then none
        else pton6Loop rest rest 0 0 (tp ++ wbytes val) colonp
      else if ch = 46 ∧ tp.length + 4 ≤ 16 then
        match pton4 curtok with
        | some v4 => pton6Finish 0 val (tp ++ v4) colonp    -- break
        | none => none
      else none

/-- lines 222-231: a leading ':' must be followed by another ':' -/
def pton6 (src : List Nat) : Option (List Nat) :=
  match src with
  | 58 :: rest =>
    (match rest with
     | 58 :: _ => pton6Loop rest rest 0 0 [] none
     | _ => none)
  | _ => pton6Loop src src 0 0 [] none

/-! ## uv_inet_pton, src/inet.c:146-172.  Result: (return value, bytes stored to dst; [] if none) -/

def ofOpt : Option (List Nat) → Int × List Nat
  | some v => (0, v)
  | none => (UV_EINVAL, [])

def uvInetPton (af : Nat) (src : List Nat) : Int × List Nat :=
  if af = AF_INET then ofOpt (pton4 src)
  else if af = AF_INET6 then
    if 37 ∈ src then                                   -- p = strchr(src, '%')
      let pre := src.takeWhile (· ≠ 37)                -- len = p - src
      if pre.length > 45 then (UV_EINVAL, [])
      else ofOpt (pton6 pre)                           -- memcpy(tmp, src, len); tmp[len] = 0
    else ofOpt (pton6 src)
  else (UV_EAFNOSUPPORT, [])

/-! ## src/uv-common.c:254-321 -/

def uvIp4Addr (ip : List Nat) : Int × List Nat := uvInetPton AF_INET ip

/-- lines 265-297; `sin6_scope_id` (if_nametoindex of the zone) is an OS answer and is not modelled -/
def uvIp6Addr (ip : List Nat) : Int × List Nat :=
  if 37 ∈ ip then                                      -- zone_index = strchr(ip, '%')
    let part := ip.takeWhile (· ≠ 37)                  -- address_part_size = zone_index - ip
    if part.length ≥ 46 then (UV_EINVAL, [])           -- >= sizeof(address_part)
    else uvInetPton AF_INET6 part
  else uvInetPton AF_INET6 ip

def uvIp4Name (addr dst : List Nat) (size : Nat) := uvInetNtop AF_INET addr dst size
def uvIp6Name (addr dst : List Nat) (size : Nat) := uvInetNtop AF_INET6 addr dst size
/-- `uv_ip_name`: dispatch on `sa_family` -/
def uvIpName (family : Nat) (addr dst : List Nat) (size : Nat) : Int × List Nat :=
  if family = AF_INET then uvInetNtop AF_INET addr dst size
  else if family = AF_INET6 then uvInetNtop AF_INET6 addr dst size
  else (UV_EAFNOSUPPORT, dst)

/-! ## Specification: text grammars (independent of the parsers above)

  dotted quad (what glibc `inet_pton(AF_INET)` accepts):
      quad      = dec-octet "." dec-octet "." dec-octet "." dec-octet
      dec-octet = "0" / nz-digit *2DIGIT      ; value <= 255, no leading zero
  IPv6 text, RFC 4291 section 2.2 forms 1-3 as accepted by glibc `inet_pton(AF_INET6)`:
      h16       = 1*4HEXDIG
      hexseq    = h16 *( ":" h16 )
      groupseq  = hexseq / [ hexseq ":" ] quad        ; a quad may only be the last piece
      ipv6      = groupseq                            ; exactly 16 bytes
                / [ hexseq ] "::" [ groupseq ]        ; fewer than 16 bytes written out, zeros in between
-/

def decVal (t : List Nat) : Nat := t.foldl (fun a c => a * 10 + (c - 48)) 0

def IsOctet (t : List Nat) (n : Nat) : Prop :=
  t ≠ [] ∧ t.length ≤ 3 ∧ (∀ c ∈ t, 48 ≤ c ∧ c ≤ 57) ∧ (1 < t.length → t.head? ≠ some 48) ∧
  decVal t = n ∧ n ≤ 255

def DottedQuad (s v : List Nat) : Prop :=
  ∃ t1 t2 t3 t4 a b c d, IsOctet t1 a ∧ IsOctet t2 b ∧ IsOctet t3 c ∧ IsOctet t4 d ∧
    s = t1 ++ 46 :: (t2 ++ 46 :: (t3 ++ 46 :: t4)) ∧ v = [a, b, c, d]

def hexFold (t : List Nat) : Nat := t.foldl (fun a c => a * 16 + (hexVal c).getD 0) 0

/-- `t` is 1..4 hex digits with value `w` -/
def IsH16 (t : List Nat) (w : Nat) : Prop :=
  t ≠ [] ∧ t.length ≤ 4 ∧ (∀ c ∈ t, (hexVal c).isSome) ∧ hexFold t = w

/-- non-empty `h16 *( ":" h16 )` with its bytes -/
inductive HexSeq : List Nat → List Nat → Prop
  | one {t w} : IsH16 t w → HexSeq t (wbytes w)
  | cons {t w s bs} : IsH16 t w → HexSeq s bs → HexSeq (t ++ 58 :: s) (wbytes w ++ bs)

/-- non-empty sequence of groups whose last piece may be a dotted quad -/
inductive GroupSeq : List Nat → List Nat → Prop
  | one {t w} : IsH16 t w → GroupSeq t (wbytes w)
  | quad {t v} : DottedQuad t v → GroupSeq t v
  | cons {t w s bs} : IsH16 t w → GroupSeq s bs → GroupSeq (t ++ 58 :: s) (wbytes w ++ bs)

inductive Ipv6Text : List Nat → List Nat → Prop
  | full {s bs} : GroupSeq s bs → bs.length = 16 → Ipv6Text s bs
  | compressed {l lb r rb} :
      (l = [] ∧ lb = [] ∨ HexSeq l lb) → (r = [] ∧ rb = [] ∨ GroupSeq r rb) →
      lb.length + rb.length < 16 →
      Ipv6Text (l ++ 58 :: 58 :: r) (lb ++ List.replicate (16 - (lb.length + rb.length)) 0 ++ rb)

end UvModel.Inet
