import UvModel.Lemmas.FaultLemmas
import UvModel.Generated.RetryCensus
/-!
# C16 — resource exhaustion and interrupted system calls: property theorems

Statement (properties.jsonl C16): a single allocation failure or a system call failing with
EINTR / EAGAIN / ENOBUFS / EMFILE / ENFILE / ENOMEM leaves the API call either successful with the same
observable outcome (EINTR retried transparently, would-block retried on readiness) or returning the
corresponding UV_E* code, never unbalancing request/handle accounting or leaking memory/descriptors.
-/
namespace UvModel.Fault

/-! ## EINTR retry loops -/

/-- **retry_eintr_transparent**: whatever finite number `n` of EINTR answers precedes the kernel's real
answer stream `g`, the loop returns exactly what the uninterrupted call returns (`g 0`), after exactly
`n + 1` attempts, for every fuel that covers the prefix. -/
theorem retry_eintr_transparent (g : Nat → Outcome) (n fuel : Nat) (hg : (g 0).isEintr = false) (hfuel : n < fuel) :
    retryEintr (interrupt n g) fuel = some (n, g 0) ∧
    (retryEintr (interrupt n g) fuel).map (·.2) = (retryEintr g 1).map (·.2) := by
  have h := retryFrom_prefix (interrupt n g) n fuel 0
    (by intro j _ hj; simp [interrupt, show j < n by omega, Outcome.isEintr, EINTR])
    (by simp [interrupt, hg]) hfuel
  simp only [Nat.zero_add] at h
  have hn : interrupt n g n = g 0 := by simp [interrupt]
  refine ⟨by simpa [retryEintr, hn] using h, ?_⟩
  simp [retryEintr, h, hn, retryFrom, hg]

example : retryEintr (interrupt 3 (fun _ => .ok 42)) 10 = some (3, .ok 42) := by decide
example : retryEintr (interrupt 2 (fun _ => .err EAGAIN)) 5 = some (2, .err EAGAIN) := by decide

/-- the loop terminates (for some fuel) iff the EINTR prefix is finite -/
theorem retry_terminates_iff (f : Nat → Outcome) :
    (∃ fuel, (retryEintr f fuel).isSome = true) ↔ ∃ n, (f n).isEintr = false := by
  constructor
  · rintro ⟨fuel, h⟩
    cases hr : retryEintr f fuel with
    | none => simp [hr] at h
    | some p =>
      obtain ⟨k, o⟩ := p
      exact ⟨k, (retryFrom_some_not_eintr f fuel 0 k o hr).2.1⟩
  · rintro ⟨n, h⟩
    exact ⟨n + 1, by simpa [retryEintr] using retryFrom_terminates f n 0 (by simpa using h)⟩

/-- the value returned is never EINTR, and every attempt before the returned one was interrupted -/
theorem retry_never_surfaces_eintr (f : Nat → Outcome) (fuel k : Nat) (o : Outcome)
    (h : retryEintr f fuel = some (k, o)) : o.isEintr = false ∧ ∀ j, j < k → (f j).isEintr = true := by
  obtain ⟨h1, h2, _, h4⟩ := retryFrom_some_not_eintr f fuel 0 k o h
  exact ⟨h1 ▸ h2, fun j hj => h4 j (Nat.zero_le _) hj⟩

example : retryEintr (fun i => if i < 2 then .err EINTR else .ok 7) 5 = some (2, .ok 7) := by decide

/-- the retry loops the property is anchored on (properties.jsonl C16 `mechanism`: stream.c:808-815, 1063-1081,
core.c:566-572, udp.c:249-252, 1269-1271, fs.c:1687-1741) plus the other loops on the data and descriptor paths:
each is an instance of `retryEintr` -/
def anchoredRetrySites : List (String × String × String × String) := [
  ("unix/stream.c", "uv__try_write", "sendmsg", "loop"), ("unix/stream.c", "uv__try_write", "uv__writev", "loop"),
  ("unix/stream.c", "uv__read", "read", "loop"), ("unix/stream.c", "uv__read", "uv__recvmsg", "loop"),
  ("unix/core.c", "uv__accept", "accept", "loop"), ("unix/core.c", "uv__nonblock_ioctl", "ioctl", "loop"),
  ("unix/core.c", "uv__cloexec", "fcntl", "loop"), ("unix/core.c", "uv__slurp", "read", "loop"),
  ("unix/udp.c", "uv__udp_recvmsg", "recvmsg", "loop"), ("unix/udp.c", "uv__udp_recvmmsg", "recvmmsg", "loop"),
  ("unix/udp.c", "uv__udp_sendmsg1", "sendmsg", "loop"), ("unix/udp.c", "uv__udp_sendmsgv", "sendmmsg", "loop"),
  ("unix/udp.c", "uv__udp_connect", "connect", "loop"),
  ("unix/tcp.c", "uv__tcp_connect", "connect", "loop"), ("unix/pipe.c", "uv_pipe_connect2", "connect", "loop"),
  ("unix/fs.c", "uv__fs_work", "X", "loop"), ("unix/fs.c", "uv__fs_write_all", "uv__fs_write", "loop"),
  ("unix/process.c", "uv__wait_children", "waitpid", "loop"), ("unix/process.c", "uv__spawn_and_init_child", "read", "loop"),
  ("unix/signal.c", "uv__signal_handler", "write", "loop"), ("unix/signal.c", "uv__signal_event", "read", "continue"),
  ("unix/async.c", "uv__async_io", "read", "continue"), ("unix/async.c", "uv__async_send", "write", "loop"),
  ("unix/linux.c", "uv__inotify_read", "read", "loop")]

/-- Tie A: every anchored retry loop is still present in the working tree's sources (the census is regenerated from
/repo by checks/c16.py; a loop that loses its `while (… == -1 && errno == EINTR)` makes this fail) -/
theorem census_contains_anchored_sites :
    anchoredRetrySites.all (fun e => UvModel.Generated.retryCensus.contains e) = true := by decide

/-! ## would-block is deferred to readiness -/

/-- **eagain_defers**: the trace of completed requests and the remaining queue depend only on how many
attempts the kernel accepted, not on where EAGAIN/ENOBUFS answers are interleaved -/
theorem eagain_defers (s : WState) (rs : List Resp) :
    (runW s rs).done = s.done ++ s.queue.take (accepts rs) ∧ (runW s rs).queue = s.queue.drop (accepts rs) :=
  runW_spec rs s

/-- once readiness has arrived often enough, the final trace is that of the run without any would-block -/
theorem eagain_same_final_trace (s : WState) (rs : List Resp) (h : s.queue.length ≤ accepts rs) :
    (runW s rs).done = (runW s (List.replicate s.queue.length .accept)).done ∧ (runW s rs).queue = [] := by
  obtain ⟨h1, h2⟩ := runW_spec rs s
  obtain ⟨h3, _⟩ := runW_spec (List.replicate s.queue.length .accept) s
  rw [h1, h2, h3, accepts_replicate]
  simp [List.take_of_length_le h, List.drop_eq_nil_of_le h]

/-- a would-block answer never loses the wakeup: while requests are pending after an attempt, POLLOUT is armed -/
theorem pending_stays_armed (s : WState) (rs : List Resp) (r : Resp) :
    (runW s (rs ++ [r])).queue ≠ [] → (runW s (rs ++ [r])).pollout = true := by
  have : runW s (rs ++ [r]) = attempt (runW s rs) r := by simp [runW, List.foldl_append]
  rw [this]; exact attempt_pending_armed _ _

example : (runW ⟨[1, 2, 3], [], false⟩ [.wouldblock EAGAIN, .accept, .wouldblock ENOBUFS, .accept, .accept]).done = [1, 2, 3] := by decide
example : (runW ⟨[1, 2], [], false⟩ [.accept, .wouldblock EAGAIN]).pollout = true := by decide

/-! ## fault atomicity -/

/-- **fault_atomic** (generic form): for an operation whose every error exit undoes what preceded it
(`balanced`, a decidable property of the effect list mirrored from the C source), any single fault — whichever
fault point `k`, whichever errno `e > 0` — either does not stop the operation (return 0, the fault-free effect)
or makes it return the mapped negative UV_E* code with counters, queues and ledger exactly as before. -/
theorem fault_atomic (op : Op) (hb : balanced op = true) (st : D) (k e : Nat) (he : 0 < e) :
    ((runFrom op st (some (k, e))).2 = 0 ∧ (runFrom op st (some (k, e))).1 = st + total op) ∨
    ((runFrom op st (some (k, e))).1 = st ∧ (runFrom op st (some (k, e))).2 < 0 ∧
       ∃ kind, (runFrom op st (some (k, e))).2 = errCode kind e) := by
  have h := runFrom_atomic op D.zero st k e hb
  rw [D.add_zero] at h
  rcases h with ⟨h1, h2⟩ | ⟨h1, kind, h2⟩
  · left; exact ⟨h1, by rw [h2, runFrom_none_total]⟩
  · right; exact ⟨h1, by rw [h2]; exact errCode_neg kind e he, kind, h2⟩

/-- without a fault every operation has its `total` effect and returns 0 -/
theorem fault_free_effect (op : Op) (st : D) : runFrom op st none = (st + total op, 0) := runFrom_none_total op st

/-! ### every operation of the catalogue is balanced, for all parameter values -/

theorem uv_write2_balanced (nbufs : Nat) : balanced (uvWrite2 nbufs) = true := by
  unfold uvWrite2; split <;> decide
theorem udp_send_balanced (nbufs : Nat) (wasActive : Bool) : balanced (udpSend nbufs wasActive) = true := by
  unfold udpSend; cases wasActive <;> split <;> decide
theorem fs_op_balanced (async : Bool) (a : FsAlloc) : balanced (fsOp async a) = true := by
  cases async <;> cases a <;> decide
theorem queue_work_balanced : balanced queueWork = true := by decide
theorem getaddrinfo_balanced : balanced getaddrinfoAsync = true := by decide
theorem pipe_bind_balanced : balanced pipeBind = true := by decide
theorem fs_poll_start_balanced : balanced fsPollStart = true := by decide
theorem fs_event_start_balanced (newWd : Bool) : balanced (fsEventStart newWd) = true := by cases newWd <;> decide

/-- `uv_spawn` before the fork: for every number of stdio pipes and both array placements, each failing socketpair
(and the failing array allocation) leaves no descriptor and no allocation behind -/
theorem uv_spawn_pre_balanced (npipes : Nat) (heap : Bool) : balanced (uvSpawnPre npipes heap) = true := by
  have key := spawnPairs_balanced heap npipes 0 []
  cases heap with
  | false =>
    have hz : (⟨0, 0, 2 * ((0 : Nat) : Int), 0, 0, 0⟩ : D) = D.zero := by apply D.ext <;> simp
    simp only [Bool.false_eq_true, if_false, List.append_nil] at key
    rw [hz] at key
    simp only [balanced, uvSpawnPre, Bool.false_eq_true, if_false, List.nil_append]
    rw [key]; simp [balancedFrom]
  | true =>
    have hz : D.zero + net [Eff.alloc] = (⟨0, 1, 2 * ((0 : Nat) : Int), 0, 0, 0⟩ : D) := by
      apply D.ext <;> simp [net, Eff.delta]
    have hz0 : D.zero + net ([] : List Eff) = D.zero := by apply D.ext <;> simp [net]
    simp only [if_true, List.append_nil] at key
    simp only [balanced, uvSpawnPre, if_true, List.cons_append, List.nil_append, balancedFrom, hz, hz0]
    rw [key]; simp [balancedFrom]

/-- `uv_spawn` when the fork itself fails (fault point number `heap + npipes`): the code is returned, the handle is not
started, nothing is registered, the array is freed, and exactly the `npipes` parent ends remain — inside the caller's
stream handles (process.c:1046-1052: by design the streams are opened even then) -/
theorem uv_spawn_fork_failure (npipes : Nat) (heap : Bool) (st : D) (e : Nat) :
    runFrom (uvSpawn npipes heap) st (some ((if heap then 1 else 0) + npipes, e)) =
      (st + ⟨0, 0, (npipes : Int), 0, 0, 0⟩, -(e : Int)) := by
  obtain ⟨ht, hn⟩ := spawnPairs_total heap npipes 0
  have hnf : nFaultPoints (uvSpawnPre npipes heap) = (if heap then 1 else 0) + npipes := by
    cases heap <;> simp [uvSpawnPre, nFaultPoints, hn]
  have htot : total (uvSpawnPre npipes heap) = ⟨0, (if heap then 1 else 0), 2 * (npipes : Int), 0, 0, 0⟩ := by
    cases heap
    · simp [uvSpawnPre, ht]
    · simp only [uvSpawnPre, if_true, List.cons_append, List.nil_append, total, ht]
      apply D.ext <;> simp [net, Eff.delta]
  rw [uvSpawn, runFrom_append_skip _ _ _ _ _ (by rw [hnf]; exact Nat.le_refl _), hnf, htot, Nat.sub_self]
  simp only [runFrom, errCode]
  rw [net_append, net_rep_fdClose]
  cases heap <;> (simp; apply D.ext <;> simp [net, Eff.delta] <;> omega)

/-- `uv_os_environ`: for every environment size, a failing copy frees exactly the names copied so far and the array -/
theorem os_environ_balanced (n : Nat) : balanced (osEnviron n) = true := by
  have h := environCopies_balanced n 0
  have hz : D.zero + net [Eff.alloc] = (⟨0, 1 + ((0 : Nat) : Int), 0, 0, 0, 0⟩ : D) := by
    apply D.ext <;> simp [net, Eff.delta]
  have hz0 : D.zero + net ([] : List Eff) = D.zero := by apply D.ext <;> simp [net]
  simp only [balanced, osEnviron, balancedFrom, hz, hz0, h]
  simp
/-- **fault_atomic** for the catalogue: `uv_write2`, `uv__udp_send`, `uv_fs_*`, `uv_queue_work`, `uv_getaddrinfo`,
`uv_pipe_bind`, `uv_spawn` (up to the fork), `uv_fs_poll_start`, `uv_fs_event_start`, `uv_os_environ`, for all their parameters -/
theorem catalogue_fault_atomic (nbufs npipes nenv : Nat) (wasActive heap async newWd : Bool) (a : FsAlloc)
    (st : D) (k e : Nat) (he : 0 < e) :
    ∀ op ∈ [uvWrite2 nbufs, udpSend nbufs wasActive, fsOp async a, queueWork, getaddrinfoAsync, pipeBind,
            uvSpawnPre npipes heap, fsPollStart, fsEventStart newWd, osEnviron nenv],
      ((runFrom op st (some (k, e))).2 = 0 ∧ (runFrom op st (some (k, e))).1 = st + total op) ∨
      ((runFrom op st (some (k, e))).1 = st ∧ (runFrom op st (some (k, e))).2 < 0 ∧
         ∃ kind, (runFrom op st (some (k, e))).2 = errCode kind e) := by
  intro op hop
  apply fault_atomic _ _ st k e he
  simp only [List.mem_cons, List.not_mem_nil, or_false] at hop
  rcases hop with rfl | rfl | rfl | rfl | rfl | rfl | rfl | rfl | rfl | rfl
  · exact uv_write2_balanced _
  · exact udp_send_balanced _ _
  · exact fs_op_balanced _ _
  · exact queue_work_balanced
  · exact getaddrinfo_balanced
  · exact pipe_bind_balanced
  · exact uv_spawn_pre_balanced _ _
  · exact fs_poll_start_balanced
  · exact fs_event_start_balanced _
  · exact os_environ_balanced _

-- the hypotheses are met by non-trivial states, and faults do hit
example : runFrom (uvWrite2 6) ⟨3, 10, 7, 2, 1, 0⟩ (some (0, ENOMEM)) = (⟨3, 10, 7, 2, 1, 0⟩, -12) := by decide
example : runFrom (uvWrite2 6) ⟨3, 10, 7, 2, 1, 0⟩ none = (⟨4, 11, 7, 2, 2, 0⟩, 0) := by decide
example : runFrom (uvSpawn 3 true) ⟨0, 5, 9, 1, 1, 0⟩ (some (2, EMFILE)) = (⟨0, 5, 9, 1, 1, 0⟩, -24) := by decide
example : runFrom (uvSpawn 3 true) ⟨0, 5, 9, 1, 1, 0⟩ (some (4, ENOMEM)) = (⟨0, 5, 12, 1, 1, 0⟩, -12) := by decide
example : runFrom (uvSpawn 3 true) ⟨0, 5, 9, 1, 1, 0⟩ none = (⟨0, 5, 12, 2, 2, 0⟩, 0) := by decide
example : runFrom (osEnviron 4) ⟨0, 2, 3, 0, 0, 0⟩ (some (3, ENOMEM)) = (⟨0, 2, 3, 0, 0, 0⟩, -12) := by decide
example : runFrom pipeBind D.zero (some (2, ENOMEM)) = (D.zero, -12) := by decide

/-! ### what the model says about the code before the recorded fixes -/

/-- seeded revert L5: `uv_write2` before fix 78db063 is not fault-atomic — the ENOMEM return leaves
`active_reqs` incremented (the loop then stays alive for ever) -/
theorem uv_write2_old_not_atomic : runFrom (uvWrite2Old 5) D.zero (some (0, ENOMEM)) = (⟨1, 0, 0, 0, 0, 0⟩, -12) ∧
    balanced (uvWrite2Old 5) = false := by decide

/-- seeded revert L22: `uv_fs_poll_start` before fix 4ff8de0 leaves the freed context's timer in the handle queue -/
theorem fs_poll_start_old_not_atomic : runFrom fsPollStartOld D.zero (some (1, ENOMEM)) = (⟨0, 0, 0, 0, 1, 0⟩, -12) ∧
    balanced fsPollStartOld = false := by decide

/-- mutation "drop the uv__close on the uv_pipe_bind error path": a descriptor leaks -/
theorem pipe_bind_no_close_leaks : runFrom pipeBindNoClose D.zero (some (2, ENOMEM)) = (⟨0, 0, 1, 0, 0, 0⟩, -12) := by decide

/-- seeded revert L24: `uv_fs_event_start` before fix d34fc71 — when the path is new to the loop and the watcher_list
allocation fails, UV_ENOMEM is returned but the kernel watch created by inotify_add_watch stays -/
theorem fs_event_start_old_watch_leak : balanced (fsEventStartOld true) = false ∧
    runFrom (fsEventStartOld true) D.zero (some (1, ENOMEM)) = (⟨0, 0, 0, 0, 0, 1⟩, -12) := by decide

/-- `uv_pipe_connect2`: a failing socket()/connect() is never returned; the call returns 0, the request is
registered (exactly one callback is owed) and the callback carries the mapped code -/
theorem pipe_connect2_always_owes_callback (newSock : Bool) (st : D) (f : Fault) :
    (pipeConnect2 newSock st f).2.1 = 0 ∧ (pipeConnect2 newSock st f).1.reqs = st.reqs + 1 ∧
    (∀ k e, f = some (k, e) → k < (if newSock then 2 else 1) → (pipeConnect2 newSock st f).2.2 = -(e : Int)) := by
  cases newSock <;> (rcases f with _ | ⟨_ | _ | k, e⟩ <;> simp [pipeConnect2] <;> (try omega))

/-! ## accounting under arbitrary operation and fault sequences -/

/-- every submitted operation of the run is balanced, and injected errnos are real (positive) errnos -/
def allBalanced (acts : List Act) : Prop :=
  ∀ a ∈ acts, match a with
    | .submit op f => balanced op = true ∧ ∀ k e, f = some (k, e) → 0 < e
    | .complete _ => True

/-- **accounting_survives_faults**: for every sequence of (balanced) operations under every fault schedule —
any number of faults, any fault points, any errnos — interleaved with completions in any order, the accounting
state equals the initial state plus exactly what the successfully submitted, not yet completed operations hold.
Failed calls contribute nothing. -/
theorem accounting_survives_faults (acts : List Act) (hb : allBalanced acts) :
    ∀ (st0 st : D) (infl : List D), st = st0 + sumD infl →
      (runActs (st, infl) acts).1 = st0 + sumD (runActs (st, infl) acts).2 := by
  induction acts with
  | nil => intro st0 st infl h; simpa [runActs] using h
  | cons a rest ih =>
    intro st0 st infl h
    have hrest : allBalanced rest := fun a' ha' => hb a' (List.mem_cons_of_mem _ ha')
    have hstep : runActs (st, infl) (a :: rest) = runActs (stepAct (st, infl) a) rest := by simp [runActs]
    rw [hstep]
    have ha := hb a (List.mem_cons_self)
    cases a with
    | submit op f =>
      obtain ⟨hbal, hpos⟩ := ha
      cases f with
      | none =>
        have hr := runFrom_none_total op st
        simp only [stepAct, hr]
        exact ih hrest st0 _ _ (by simp only [sumD]; rw [h]; d_arith)
      | some p =>
        obtain ⟨k, e⟩ := p
        rcases fault_atomic op hbal st k e (hpos k e rfl) with ⟨h1, h2⟩ | ⟨h1, h2, _⟩
        · simp only [stepAct, h1, if_true]
          rw [h2]
          exact ih hrest st0 _ _ (by simp only [sumD]; rw [h]; d_arith)
        · have hz : ¬ (runFrom op st (some (k, e))).2 = 0 := by omega
          simp only [stepAct, hz, if_false]
          rw [h1]
          exact ih hrest st0 _ _ h
    | complete i =>
      cases hi : infl[i]? with
      | none => simp only [stepAct, hi]; exact ih hrest st0 _ _ h
      | some d =>
        simp only [stepAct, hi]
        exact ih hrest st0 _ _ (by rw [h, sumD_eraseIdx infl i d hi]; d_arith)

/-- consequences for the loop: `active_reqs` is the initial count plus the number of callbacks owed by in-flight
requests, hence never below the initial count when every operation registers 0 or 1 request; and once everything
in flight has completed, counters and ledger are exactly the initial ones (the loop can finish; nothing leaked). -/
theorem reqs_eq_owed_and_drained (acts : List Act) (hb : allBalanced acts) (st0 : D) :
    (runActs (st0, []) acts).1.reqs = st0.reqs + (sumD (runActs (st0, []) acts).2).reqs ∧
    ((runActs (st0, []) acts).2 = [] → (runActs (st0, []) acts).1 = st0) := by
  have h := accounting_survives_faults acts hb st0 st0 [] (by simp [sumD, D.add_zero])
  refine ⟨by rw [h]; simp, fun hnil => ?_⟩
  rw [h, hnil]; simp [sumD, D.add_zero]

theorem sumD_reqs_nonneg : ∀ (l : List D), (∀ d ∈ l, 0 ≤ d.reqs) → 0 ≤ (sumD l).reqs := by
  intro l
  induction l with
  | nil => intro _; simp [sumD]
  | cons d ds ih =>
    intro h
    have h1 := h d (List.mem_cons_self)
    have h2 := ih (fun d' hd' => h d' (List.mem_cons_of_mem _ hd'))
    simp [sumD]; omega

-- a schedule with two faults, a success and a completion: uv_write2(ENOMEM), uv_spawn(EMFILE at the 2nd pair),
-- uv_write2 ok, fs_poll_start(ENOMEM at the path copy), completion of the write
example : runActs (⟨0, 0, 3, 1, 0, 0⟩, []) [.submit (uvWrite2 6) (some (0, ENOMEM)), .submit (uvSpawnPre 2 false) (some (1, EMFILE)),
    .submit (uvWrite2 6) none, .submit fsPollStart (some (1, ENOMEM)), .complete 0] = (⟨0, 0, 3, 1, 0, 0⟩, []) := by decide
example : (runActs (⟨0, 0, 3, 1, 0, 0⟩, []) [.submit (uvWrite2 6) none, .submit getaddrinfoAsync (some (0, ENOMEM)),
    .submit queueWork none]).1.reqs = 2 := by decide

end UvModel.Fault
