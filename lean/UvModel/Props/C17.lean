import UvModel.Lemmas.FsWatchLemmas
/-!
  C17 — property theorems.  fs_poll half over `UvModel.FsPoll` (model of src/fs-poll.c), fs_event half
  over `UvModel.FsEvent` (model of the inotify part of src/unix/linux.c).

  Every theorem quantifies over all callback scripts `sc`, all input sequences `ins` (API calls,
  stat completions with arbitrary results, timer expiries, close callbacks, clock advances — in any
  order; inputs that libuv did not ask for are rejected by the model and change nothing).
-/
namespace UvModel.Props.C17
open UvModel.FsPoll

/-! ## fs_poll -/

/-- **poll_chain.**  For every context `c` of every reachable state, the user callbacks made by `c`
    are exactly `specCbs` of the results `c` saw while it was the handle's live context: a callback at
    a result iff it differs (status, or `statbufEq` on the metadata) from the immediately preceding one
    — the very first result is reported only when it is an error, so the first successful result is
    never reported and an error is reported once per distinct error — with arguments
    (status, metadata of the latest earlier success or zeroes, metadata of this result or zeroes). -/
theorem poll_chain (sc : Script) (ins : List In) (c : Nat) (hc : c < (run sc {} ins).nctx) :
    cbsOf c (run sc {} ins).trace = specCbs (histOf c (run sc {} ins).trace) :=
  ((pcat_run sc inv_init ins (pcat_init c)).1 hc).1

/-- **poll_chain (chaining).**  In the prescribed callback sequence, the `prev` of every callback is the
    `curr` of the latest earlier callback with status 0 (if there is one): consecutive successful
    callbacks chain, and an error callback in between does not break the chain. -/
theorem poll_chain_links (older : List Res) (r : Res) (cb : CbRec)
    (h : newestOkCb (specCbs older) = some cb) :
    (CbRec.mk r.status (lastOk older) r.curr).prev = cb.curr :=
  (lastOk_of_newestOkCb older cb h).symm

/-- `statbufEq` is equality on the compared fields, so "differ" means a compared field changed. -/
theorem statbufEq_spec (a b : Stat) : statbufEq a b = true ↔ a = b := statbufEq_iff a b

/-- the first successful result is never reported; a repeated identical error is not reported again;
    a different error, a recovery and a metadata change are. -/
theorem reported_cases (st st' : Stat) (e f : Nat) (t : List Res) :
    reported [] (.ok st) = false ∧ reported [] (.err e) = true ∧
    reported (.err e :: t) (.err e) = false ∧ (e ≠ f → reported (.err e :: t) (.err f) = true) ∧
    reported (.err e :: t) (.ok st) = true ∧ reported (.ok st :: t) (.err e) = true ∧
    reported (.ok st :: t) (.ok st) = false ∧ (st ≠ st' → reported (.ok st :: t) (.ok st') = true) := by
  refine ⟨rfl, rfl, by simp [reported, differ], fun h => by simp [reported, differ, h], rfl, rfl, ?_, ?_⟩
  · simp [reported, differ, (statbufEq_iff st st).2 rfl]
  · intro h
    have : statbufEq st st' = false := by
      cases hb : statbufEq st st' with
      | false => rfl
      | true => exact absurd ((statbufEq_iff _ _).1 hb) h
    simp [reported, differ, this]

/-- **old_ctx_dead_after_restart** (full strength; L3 is fixed).  Once a context is not the live one of
    its handle (the handle was stopped, is closing, or was restarted so that another context is
    `poll_ctx`), it never becomes live again, and from then on — whatever happens, including its
    in-flight stat completing with any result — it makes no callback, submits no stat request and
    arms no timer: its old path and callback are never used again. -/
theorem old_ctx_dead_after_restart (sc : Script) (ins1 ins2 : List In) (c : Nat)
    (hc : c < (run sc {} ins1).nctx) (hd : liveB (run sc {} ins1) c = false) :
    let s1 := run sc {} ins1
    let s2 := run sc s1 ins2
    liveB s2 c = false ∧ cbsOf c s2.trace = cbsOf c s1.trace ∧
    statsOf c s2.trace = statsOf c s1.trace ∧ armsOf c s2.trace = armsOf c s1.trace :=
  dead_run sc (inv_run sc inv_init ins1) ins2 hc hd

/-- uv_fs_poll_stop makes every context of the handle dead (so the theorem above applies to it) -/
theorem stop_makes_dead (sc : Script) (ins : List In) (h c : Nat)
    (hh : ((run sc {} ins).ctxs c).handle = h) (hnc : ((run sc {} ins).hs h).closed = false) :
    liveB (step sc (run sc {} ins) (.op (.stop h))) c = false := by
  have hi : Inv (run sc {} ins) := inv_run sc inv_init ins
  generalize run sc {} ins = s at *
  simp only [step, applyOp, apiStop, S.emit, hnc, Bool.false_eq_true, if_false]
  have fr := frame_stopCore (s := { s with trace := Obs.api (Op.stop h) :: s.trace }) h c
  have : ((stopCore { s with trace := Obs.api (Op.stop h) :: s.trace } h).hs h).active = false := by
    unfold stopCore
    by_cases ha : (s.hs h).active = true
    · obtain ⟨_, c0, tl, hch, _⟩ := hi.activeHead h ha
      simp only [ha, hch, Bool.not_true, Bool.false_eq_true, if_false]
      split <;> split <;> simp [S.setH, S.setCtx, S.emit, S.fail]
    · simp [ha]
  simp only [liveB]
  rw [fr.2.1, hh, this]; rfl

/-- a restart (start on an inactive handle) leaves every older context of that handle dead -/
theorem restart_makes_dead (sc : Script) (ins : List In) (h cb p iv c : Nat)
    (hc : c < (run sc {} ins).nctx) (hina : ((run sc {} ins).hs h).active = false)
    (hh : ((run sc {} ins).ctxs c).handle = h) :
    liveB (step sc (run sc {} ins) (.op (.start h cb p iv))) c = false := by
  generalize run sc {} ins = s at *
  have hne : c ≠ s.nctx := Nat.ne_of_lt hc
  simp only [step, applyOp, apiStart, S.emit, hina, Bool.false_eq_true, if_false]
  by_cases hcl : (s.hs h).closing = true
  · simp [hcl, liveB, hh, hina]
  · simp [hcl, liveB, upd_apply, hne, hh, Ne.symm hne]

/-- **close_waits_for_stat.**  In every reachable state the ownership discipline was never violated
    (`err = false`: no context or handle touched after it was freed, no failed assert), and
    `uv__make_close_pending` has been called for a handle only when every context it ever had has been
    freed by its own `timer_close_cb` — so the user's close_cb (which may free the handle) cannot run
    while a stat is in flight or a timer close is outstanding. -/
theorem close_waits_for_stat (sc : Script) (ins : List In) :
    let s := run sc {} ins
    s.err = false ∧
    ∀ h c, (s.hs h).closePending = true → c < s.nctx → (s.ctxs c).handle = h →
      (s.ctxs c).freed = true ∧ (s.ctxs c).statInFlight = false ∧
      (s.ctxs c).timerActive = false ∧ (s.ctxs c).timerClosing = false := by
  intro s
  have hi : Inv s := inv_run sc inv_init ins
  refine ⟨hi.noErr, fun h c hp hc hh => ?_⟩
  have hch := (hi.closeP h hp).1
  have hfr : (s.ctxs c).freed = true := by
    cases hf : (s.ctxs c).freed with
    | true => rfl
    | false =>
      have := hi.inChain c hc hf
      rw [hh, hch] at this; cases this
  exact ⟨hfr, hi.phaseFreed c hc hfr⟩

/-- the close_cb is delivered only after `uv__make_close_pending`: otherwise the event is rejected -/
theorem closeCb_needs_pending (s : S) (h : Nat) (hp : (s.hs h).closePending = false) :
    closeCb s h = s.emit .badEvent := by
  simp [closeCb, hp]

/-- **never_blocks_loop_close.**  A context that is not live and not yet freed always has exactly the
    pending event that retires it: its timer is not armed (nothing to wait for), and delivering its
    in-flight stat result (any result; no callback is made) and then its timer close callback frees it. -/
theorem never_blocks_loop_close (sc : Script) (ins : List In) (c : Nat) (r : Res)
    (hc : c < (run sc {} ins).nctx) (hd : liveB (run sc {} ins) c = false)
    (hf : ((run sc {} ins).ctxs c).freed = false) :
    let s := run sc {} ins
    (s.ctxs c).timerActive = false ∧
    ((run sc s ((if (s.ctxs c).statInFlight then [In.statDone c r] else []) ++ [In.timerClosed c])).ctxs c).freed = true := by
  intro s
  have hi : Inv s := inv_run sc inv_init ins
  have hp := dead_pending hi hc hd hf
  refine ⟨hp.1, ?_⟩
  by_cases hst : (s.ctxs c).statInFlight = true
  · have h1 := retire_stat sc hi hc hd hst r
    have hi1 := inv_statDone sc hi c r
    have hc1 : c < (statDone sc s c r).nctx := Nat.lt_of_lt_of_le hc (nctx_step sc s (.statDone c r))
    have h2 := retire_close hi1 hc1 h1.1
    simp only [hst, if_true, List.singleton_append, run, List.foldl, step]
    exact h2.1
  · have htc : (s.ctxs c).timerClosing = true := by
      rcases hp.2 with h | h
      · exact absurd h hst
      · exact h
    have h2 := retire_close hi hc htc
    simp only [hst, Bool.false_eq_true, if_false, List.nil_append, run, List.foldl, step]
    exact h2.1

/-- ... and once every context of a closing handle has retired, `uv__make_close_pending` has been
    called, i.e. the handle's close_cb is due and the handle no longer keeps the loop open. -/
theorem close_pending_when_retired (sc : Script) (ins : List In) (h : Nat)
    (hcl : ((run sc {} ins).hs h).closing = true)
    (hall : ∀ c, c < (run sc {} ins).nctx → ((run sc {} ins).ctxs c).handle = h →
      ((run sc {} ins).ctxs c).freed = true) :
    ((run sc {} ins).hs h).closePending = true := by
  have hi : Inv (run sc {} ins) := inv_run sc inv_init ins
  apply hi.closeQ h hcl
  cases hch : ((run sc {} ins).hs h).chain with
  | nil => rfl
  | cons c tl =>
    have hw := hi.chainWf h c (by simp [hch])
    have := hall c hw.1 hw.2.1
    rw [hw.2.2] at this; cases this

/-! ### non-vacuity: concrete runs satisfying the hypotheses -/

/-- the L3 shape: start, stop + restart on another path/callback while the first stat is in flight,
    then both stats complete with different results, the new context's timer fires, a changed result -/
def demoScript : Script := fun _ => []
def stA : Stat := { size := 1, mtimS := 10 }
def stB : Stat := { size := 2, mtimS := 11 }
def demoIns : List In :=
  [.op (.start 0 0 1 100), .op (.stop 0), .op (.start 0 1 2 50),
   .statDone 0 (.ok stA), .statDone 1 (.ok stA), .advance 50, .timerFire 1, .statDone 1 (.ok stB),
   .advance 50, .timerFire 1, .statDone 1 (.err 1), .timerClosed 0]

example : (run demoScript {} demoIns).nctx = 2 := by decide
example : liveB (run demoScript {} (demoIns.take 3)) 0 = false := by decide
example : liveB (run demoScript {} demoIns) 1 = true := by decide
example : cbsOf 1 (run demoScript {} demoIns).trace =
    [⟨-2, stB, Stat.zero⟩, ⟨0, stA, stB⟩] := by decide
example : cbsOf 0 (run demoScript {} demoIns).trace = [] := by decide
example : ((run demoScript {} demoIns).ctxs 0).freed = true := by decide
example : ((run demoScript {} (demoIns ++ [.op (.close 0)])).hs 0).closePending = false := by decide
example : ((run demoScript {} (demoIns ++ [.op (.close 0), .timerClosed 1])).hs 0).closePending = true := by decide

end UvModel.Props.C17

namespace UvModel.Props.C17.Event
open UvModel.FsEvent

/-! ## fs_event -/

/-- **event_reaches_all_watchers.**  In any reachable state (outside `uv__inotify_read`), dispatching an
    inotify record whose wd has the watcher list `w` calls, in list order, exactly the handles
    `specDeliver … w.watchers`: the head of the detached list, then — after removing whatever that
    callback stopped or closed — the rest; every call carries the record's name (or the basename of the
    list's path when the record has none) and `eventsOf mask` (UV_CHANGE iff IN_ATTRIB|IN_MODIFY bits,
    UV_RENAME iff any other bit).  Handles started on the same wd *during* this dispatch are appended to
    the list but not to the detached queue: they are not called for the current record. -/
theorem event_reaches_all_watchers (sc : Script) (ins : List In) (r : Rec) (w : WL)
    (hw : (run sc {} ins).lists r.wd = some w) :
    cbsOf (dispatchRec sc (run sc {} ins) r).trace =
      ((specDeliver sc w.watchers.length (run sc {} ins).ncb w.watchers).map
        (fun h => (h, r.name.getD w.path, eventsOf r.mask))).reverse ++ cbsOf (run sc {} ins).trace :=
  rec_cbs sc (inv_run sc inv_init idle_init ins).1 (inv_run sc inv_init idle_init ins).2 r hw

/-- a record for a wd without a list (stale event) calls nobody -/
theorem stale_record_ignored (sc : Script) (s : S) (r : Rec) (hw : s.lists r.wd = none) :
    dispatchRec sc s r = s := by
  simp [dispatchRec, find, hw]

/-- delivered exactly once, only to handles that were in the list at dispatch start, in list order -/
theorem delivered_at_most_once_in_order (sc : Script) (f k : Nat) (q : List Nat) :
    (specDeliver sc f k q).Sublist q := specDeliver_sublist sc f k q

/-- **none lost for the others**: a handle of the list that is not called was stopped or closed by one of
    the callbacks that ran for this very record (before its turn) -/
theorem skipped_only_if_stopped (sc : Script) (k : Nat) (q : List Nat) (h : Nat)
    (hm : h ∈ q) (hn : h ∉ specDeliver sc q.length k q) :
    ∃ j, j < (specDeliver sc q.length k q).length ∧ ∃ o ∈ sc (k + j), stopTarget o = some h :=
  specDeliver_skipped sc q.length k q h (Nat.le_refl _) hm hn

/-- **no event to the stopped handle**: after the j-th callback of this record stopped or closed `h`,
    `h` is not called again for this record (not even if it is restarted on the same path meanwhile) -/
theorem no_event_after_stop (sc : Script) (f k : Nat) (q : List Nat) (hnd : q.Nodup) (j : Nat) (o : Op) (h : Nat)
    (ho : o ∈ sc (k + j)) (hs : stopTarget o = some h) (hj : j < (specDeliver sc f k q).length) :
    h ∉ (specDeliver sc f k q).drop (j + 1) :=
  specDeliver_no_later sc f k q hnd j o h ho hs hj

/-- **stop_in_callback_safe.**  In every reachable state: the ownership discipline was never violated
    (`err = false`: no watcher list accessed after it was freed, on any path, with any callback script);
    nothing is left detached or marked iterating; a watcher list exists exactly for the wds that have an
    active handle — it was freed exactly when it became empty and was not being iterated; its members are
    exactly the active handles watching that wd, each once.  In particular a stopped or closed handle is
    in no list, so no later record can reach it. -/
theorem stop_in_callback_safe (sc : Script) (ins : List In) :
    let s := run sc {} ins
    s.err = false ∧ s.queue = [] ∧
    (∀ wd w, s.lists wd = some w → w.iterating = false ∧ w.watchers ≠ [] ∧ w.watchers.Nodup ∧
        ∀ h ∈ w.watchers, (s.hs h).active = true ∧ (s.hs h).wd = wd) ∧
    (∀ h, (s.hs h).active = true → ∃ w, s.lists (s.hs h).wd = some w ∧ h ∈ w.watchers) := by
  intro s
  obtain ⟨hi, hd⟩ := inv_run sc inv_init idle_init ins
  refine ⟨hi.noErr, hd.q, fun wd w hw => ?_, fun h ha => ?_⟩
  · exact ⟨hd.noIt wd w hw, hi.nonempty wd w hw (hd.noIt wd w hw), hi.ndW wd w hw, fun h hm => hi.memW wd w h hw hm⟩
  · cases hl : s.lists (s.hs h).wd with
    | none => exact absurd hl (hi.actSome h ha)
    | some w =>
      refine ⟨w, rfl, ?_⟩
      rcases hi.act h w ha hl with hm | hm
      · exact hm
      · rw [hd.q] at hm; cases hm

/-- the same holds in the middle of a dispatch, where it matters: while the callbacks of a record run,
    the iterated list is never freed and the model never reaches an error state -/
theorem no_use_after_free_during_dispatch (sc : Script) (ins : List In) (rs : List Rec) :
    (dispatch sc (run sc {} ins) rs).err = false :=
  (inv_dispatch sc (inv_run sc inv_init idle_init ins).1 (inv_run sc inv_init idle_init ins).2 rs).1.noErr

/-! ### non-vacuity -/

/-- three handles on wd 5; the first callback stops itself and h1, and restarts h0 on the same wd -/
def demoSc : Script := fun k => if k = 0 then [.stop 0, .stop 1, .start 0 2 5 0] else []
def demoIns : List In := [.op (.start 0 0 5 0), .op (.start 1 1 5 1), .op (.start 2 2 5 0), .op (.start 3 3 7 0)]

example : ((run demoSc {} demoIns).lists 5).map (·.watchers) = some [0, 1, 2] := by decide
example : specDeliver demoSc 3 0 [0, 1, 2] = [0, 2] := by decide
example : cbsOf (dispatchRec demoSc (run demoSc {} demoIns) ⟨5, 2, none⟩).trace =
    [(2, "w5_0", 2), (0, "w5_0", 2)] := by decide
example : ((dispatchRec demoSc (run demoSc {} demoIns) ⟨5, 2, none⟩).lists 5).map (·.watchers) = some [0, 2] := by decide
example : eventsOf 2 = UV_CHANGE ∧ eventsOf 4 = UV_CHANGE ∧ eventsOf 0x100 = UV_RENAME ∧
    eventsOf 0x40000002 = UV_CHANGE ||| UV_RENAME ∧ eventsOf 0x8000 = UV_RENAME := by decide
/-- the list is freed (and only then) when its last handle stops -/
example : ((run demoSc {} (demoIns ++ [.op (.stop 3)])).lists 7).isNone = true := by decide
example : ((run demoSc {} demoIns).lists 7).isSome = true := by decide

end UvModel.Props.C17.Event
