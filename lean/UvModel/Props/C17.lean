import UvModel.FsPoll
namespace UvModel.Props.C17
end UvModel.Props.C17
