import UvModel.CustomSem
/-! C20, custom semaphore (uv__custom_sem_*, glibc < 2.21): "uv_sem_t never lets more waiters through than
the initial value plus posts (uv_sem_trywait returns UV_EAGAIN at zero)", for every program of every
thread and every interleaving of the schedule points (lock / trylock / unlock / cond_wait / wake-up /
signal / operation start), spurious wake-ups included.  What is assumed is the POSIX meaning of the mutex
and of the condition variable as encoded in `UvModel.CustomSem.step`/`enabled` (glibc's contract). -/
namespace UvModel.CustomSem

/-- token conservation: acquisitions + counter = initial value + posts, and the C `unsigned` counter is
    never decremented at zero (no wrap) -/
def Inv (n : Nat) (s : St) : Prop := 0 ≤ s.value ∧ (s.acq : Int) + s.value = (n : Int) + s.posts

theorem afterLock_conserved (op : Op) (v : Int) (a p : Nat) (h : 0 ≤ v) :
    0 ≤ (afterLock op v a p).1 ∧
    (((afterLock op v a p).2.1 : Nat) : Int) + (afterLock op v a p).1 - ((afterLock op v a p).2.2.1 : Nat)
      = (a : Int) + v - p := by
  cases op <;> simp only [afterLock] <;> split <;> simp <;> omega

theorem step_inv (n : Nat) (s : St) (i : Nat) (h : Inv n s) : Inv n (step s i).1 := by
  obtain ⟨h0, h1⟩ := h
  unfold step
  split
  · exact ⟨h0, h1⟩
  · rename_i t _
    have key := afterLock_conserved (curOp t) s.value s.acq s.posts h0
    generalize afterLock (curOp t) s.value s.acq s.posts = r at key
    obtain ⟨v, a, p, pc⟩ := r
    simp only at key
    split
    · exact ⟨h0, h1⟩
    · exact ⟨key.1, by have := key.2; simp only [] at *; omega⟩
    · split
      · exact ⟨key.1, by have := key.2; simp only [] at *; omega⟩
      · exact ⟨h0, h1⟩
    · exact ⟨h0, h1⟩
    · exact ⟨h0, h1⟩
    · exact ⟨key.1, by have := key.2; simp only [] at *; omega⟩
    · split <;> exact ⟨h0, h1⟩

theorem spurious_inv (n : Nat) (s : St) (j : Nat) (h : Inv n s) : Inv n (spurious s j).1 := by
  unfold spurious
  split
  · split <;> exact h
  · exact h

theorem drain_inv (n : Nat) (fuel : Nat) (s : St) (h : Inv n s) : Inv n (drain s fuel).1 := by
  induction fuel generalizing s with
  | zero => simpa [drain] using h
  | succ f ihf =>
    simp only [drain]
    split
    · exact h
    · exact ihf _ (step_inv n s _ h)

theorem run_inv (n : Nat) (cs : List Choice) (fuel : Nat) (s : St) (h : Inv n s) : Inv n (run s cs fuel).1 := by
  induction cs generalizing s with
  | cons c cs ih =>
    cases c with
    | wake j => simp only [run]; exact ih _ (spurious_inv n s j h)
    | thread i =>
      simp only [run]
      split
      · exact h
      · exact ih _ (step_inv n s _ h)
  | nil => simp only [run]; exact drain_inv n fuel s h

theorem init_inv (n : Nat) (progs : List (List Op)) : Inv n (init n progs) := by
  simp [Inv, init]

/-- **the property**: whatever the threads' programs, the schedule (spurious wake-ups included) and its
    length, the semaphore has let through at most `initial + posts` acquisitions, its counter never
    wrapped, and `acquisitions + counter = initial + posts` (no token invented, none lost). -/
theorem never_more_than_initial_plus_posts (n : Nat) (progs : List (List Op)) (cs : List Choice) (fuel : Nat) :
    let s := (run (init n progs) cs fuel).1
    s.acq ≤ n + s.posts ∧ 0 ≤ s.value ∧ (s.acq : Int) + s.value = (n : Int) + s.posts := by
  have h := run_inv n cs fuel _ (init_inv n progs)
  obtain ⟨h0, h1⟩ := h
  refine ⟨?_, h0, h1⟩
  omega

/-- `uv_sem_trywait` at zero: the operation ends with `UV_EAGAIN` and takes nothing -/
theorem trywait_at_zero (a p : Nat) : afterLock .trywait 0 a p = (0, a, p, .atUnlock UV_EAGAIN) := by
  simp [afterLock]

/-- `uv_sem_wait` at zero blocks: the only continuation is `cond_wait`; whenever it is woken (signal or
    spuriously) and the counter is still zero it goes back to sleep -/
theorem wait_at_zero_blocks (a p : Nat) : afterLock .wait 0 a p = (0, a, p, .atCondWait) := by
  simp [afterLock]

/-- an acquisition is only ever granted on a positive counter -/
theorem acquire_needs_token (op : Op) (v : Int) (a p : Nat) (h : (afterLock op v a p).2.1 = a + 1) :
    v ≠ 0 ∧ (afterLock op v a p).1 = v - 1 := by
  cases op <;> simp only [afterLock] at h ⊢ <;> split at h <;> simp_all

/-- non-vacuity: the race of seeded change C20-14 (a waiter takes the last token between another thread's
    start of trywait and its trylock) — in the code as it is, the late trywait gets UV_EAGAIN -/
example :
    let r := run (init 1 [[.trywait], [.wait]]) [.thread 0, .thread 1, .thread 1, .thread 1, .thread 0, .thread 0] 10
    r.1.acq = 1 ∧ r.1.value = 0 ∧ stuck r.1 = false := by decide +kernel

/-- finding (liveness, outside the property text): two sleepers, two posts before the first sleeper runs —
    the second post sees `value == 2`, sends no signal, and the second sleeper stays blocked although a
    token is available (the harness reproduces this on the real code: `left 1 … stuck 1`). -/
example :
    let r := run (init 0 [[.wait], [.wait], [.post, .post]])
      ([0, 0, 0, 1, 1, 1, 2, 2, 2, 2, 2, 2, 2].map Choice.thread) 50
    stuck r.1 = true ∧ r.1.value = 1 ∧ r.1.acq = 1 ∧ r.1.posts = 2 := by decide +kernel

end UvModel.CustomSem
