import UvModel.Heap
import UvModel.Lemmas.HeapLemmas
/-!
  C04 (heap part): property theorems about the model of src/heap-inl.h.
  Helper lemmas live in UvModel/Lemmas/HeapLemmas.lean.
  Every theorem is for *every* heap shape / index / element (no bound).
-/
namespace UvModel.Heap

/-- heap_insert keeps heap order -/
theorem insert_inv (a : H) (x : Ent) (h : Inv a) : Inv (insert a x) := by
  unfold insert
  exact siftUp_inv (a.push x) a.size (by simp) (push_upInv a x h)

/-- heap_remove of *any* node (root, interior, leaf, last) keeps heap order -/
theorem remove_inv (a : H) (i : Nat) (h : Inv a) : Inv (remove a i) := by
  by_cases hi : i < a.size
  · by_cases hl : i = a.size - 1
    · -- removing the last node: just detach it
      rw [remove_of_last a i hi hl]
      intro k hk0 hk
      rw [Array.size_pop] at hk
      have e : ∀ m, m < a.size - 1 → g a.pop m = g a m := by
        intro m hm
        unfold g
        simp only [Array.getD_eq_getD_getElem?, Array.getElem?_pop]
        rw [if_pos hm]
      rw [e k hk, e _ (by omega)]
      exact h k hk0 (by omega)
    · -- interior removal: walk down, then up
      have hi' : i < a.size - 1 := by omega
      rw [remove_of_lt a i hi']
      have hsz : i < ((a.setIfInBounds i (g a (a.size - 1))).pop).size := by simpa using hi'
      apply siftUp_inv
      · rw [siftDown_size]; exact siftDown_pos_lt _ _ hsz
      · exact siftDown_upInv _ _ hsz (detach_downInv a i hi' h)
  · -- out of range: no-op
    have : remove a i = a := by
      unfold remove
      by_cases h0 : a.size = 0
      · rw [if_pos h0]
      · rw [if_neg h0, if_pos (by omega)]
    rw [this]; exact h

/-- heap_insert adds exactly the new element -/
theorem insert_perm (a : H) (x : Ent) : (insert a x).toList.Perm (x :: a.toList) := by
  unfold insert
  refine (siftUp_perm (a.push x) a.size).trans ?_
  rw [Array.toList_push]
  exact List.perm_append_singleton x a.toList

/-- heap_remove removes exactly the element at the given position -/
theorem remove_perm (a : H) (i : Nat) (hi : i < a.size) :
    a.toList.Perm (g a i :: (remove a i).toList) := by
  by_cases hl : i = a.size - 1
  · rw [remove_of_last a i hi hl, hl]
    exact toList_perm_pop a (by omega)
  · have hi' : i < a.size - 1 := by omega
    rw [remove_of_lt a i hi']
    refine (detach_perm a i hi').trans (List.Perm.cons _ ?_)
    exact ((siftUp_perm _ _).trans (siftDown_perm _ _)).symm

theorem insert_size (a : H) (x : Ent) : (insert a x).size = a.size + 1 := by
  unfold insert
  rw [siftUp_size, Array.size_push]
theorem remove_size (a : H) (i : Nat) (hi : i < a.size) : (remove a i).size = a.size - 1 := by
  by_cases hl : i = a.size - 1
  · rw [remove_of_last a i hi hl, Array.size_pop]
  · rw [remove_of_lt a i (by omega), siftUp_size, siftDown_size, Array.size_pop,
      Array.size_setIfInBounds]

/-- the root is a minimum: nothing in the heap is less than it -/
theorem min_is_min (a : H) (h : Inv a) (j : Nat) (hj : j < a.size) : lt (g a j) (g a 0) = false := by
  induction j using Nat.strongRecOn with
  | ind j ih =>
    by_cases hj0 : j = 0
    · subst hj0; exact lt_irrefl _
    · exact le_trans (h j (by omega) hj) (ih ((j - 1) / 2) (by omega) (by omega))

/-- non-vacuity: a concrete 5-node heap with an interior removal that must sift *up*
    (the case the final loop of heap_remove exists for) -/
example : let a : H := #[⟨1,0,0⟩, ⟨10,1,1⟩, ⟨2,2,2⟩, ⟨11,3,3⟩, ⟨12,4,4⟩, ⟨3,5,5⟩]
    (∀ i, i < a.size → 0 < i → lt (g a i) (g a ((i-1)/2)) = false) ∧
    remove a 3 = #[⟨1,0,0⟩, ⟨3,5,5⟩, ⟨2,2,2⟩, ⟨10,1,1⟩, ⟨12,4,4⟩] := by decide +kernel

end UvModel.Heap
