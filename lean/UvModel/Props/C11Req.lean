import UvModel.FsReq
import UvModel.Lemmas.FsReqLemmas
/-!
# C11 (c): the `uv_fs_t` request life cycle — property theorems over `UvModel.FsReq`

Every theorem quantifies over all argument records `a : Args` (all 36 kinds, with and without a callback,
ring available or not, any buffer count, failing argument checks, allocation failure in the front end,
any list of kernel answers) and over ALL event lists `evs` (any interleaving of front end, cancel,
pool work, done, CQEs with any result incl. -EOPNOTSUPP, scandir_next and cleanup calls; events that
are not enabled in a phase are no-ops), i.e. over every reachable state of one request.
-/
namespace UvModel.FsReq
open UvModel.FsBuf

/-! Proved below: `cleanup_nulls`, `cleanup_idempotent` (both for EVERY state, reachable or not), `work_result_normalised`,
`eintr_not_surfaced` (every request, ledger and answer list), `exactly_one_cb`, `sync_never_registers`,
`registered_iff_in_flight` (every `Args`, every event list).

Proved via the ledger invariant `LInv` (Lemmas/FsReqLemmas): `no_double_free_holds`, `cleanup_frees_all_holds`.

`path_lifetime_async_holds`, `path_borrowed_sync_holds` (with the path invariant `PInv`).

REFUTED as stated (witness: a failed answer with errno 0): `stat_ptr_stmt_false`, `dir_handed_over_stmt_false`; the corrected
`stat_ptr_nz_stmt`, `dir_handed_over_nz_stmt` (answers never fail with errno 0) are proved: `stat_ptr_nz_holds`,
`dir_handed_over_nz_holds`.  Nothing is left unproved in this file
(`result_normalised_stmt` is proved: `result_normalised_holds`).
checks/c11.py still evaluates every statement on the model's output and on the real code's log for every
generated life cycle. -/

def no_double_free_stmt : Prop := ∀ (a : Args) (evs : List Ev), (run a evs).l.badFree = 0

/-- no life cycle — any kind, route, outcome, with or without callback, cancelled or not, any number of next / cleanup
    calls — ever frees a block that is not live or a pointer that is not a heap block -/
theorem no_double_free_holds : no_double_free_stmt := by
  intro a evs
  have h := linv_run a evs
  by_cases hp : (run a evs).phase = .idle
  · rw [h.idle hp]; simp [init]; split <;> rfl
  · exact (h.rel hp).bad

example : (run ⟨.read, true, false, 6, true, false, 0, 0, []⟩ [.submit, .cancel, .done, .cleanup, .cleanup]).l.badFree = 0 ∧
          (run ⟨.read, true, false, 6, true, false, 0, 0, []⟩ [.submit, .cancel, .done]).l.bufs = 1 := by decide +kernel

def cleanup_frees_all_stmt : Prop := ∀ (a : Args) (evs : List Ev),
  (run a evs).phase = .done ∨ (run a evs).phase = .rejected →
  (run a (evs ++ [.cleanup])).l.reqOwned = 0 ∧ (run a (evs ++ [.cleanup])).l.badFree = 0

/-- after completion (or a refused front-end call) uv_fs_req_cleanup leaves nothing owned by the request in the ledger -/
theorem cleanup_frees_all_holds : cleanup_frees_all_stmt := by
  intro a evs hp
  have h := linv_run a evs
  have hq : (run a evs).phase ≠ .idle := by rcases hp with hp | hp <;> simp [hp]
  have hr : run a (evs ++ [.cleanup]) = cleanup (run a evs) := by
    unfold run
    rw [runFrom_append]
    have hp' : (runFrom a (init a) evs).phase = .done ∨ (runFrom a (init a) evs).phase = .rejected := hp
    simp only [runFrom, step_cleanup]
    rw [if_pos hp']
  rw [hr]
  obtain ⟨c1, c2, _⟩ := cleanup_of_rel _ (h.rel hq) (h.bufs hq)
  exact ⟨c1, c2⟩

example : (run ⟨.scandir, true, false, 0, true, false, 1, 0, []⟩ [.submit, .work [.ok 3], .done, .next, .next]).l.reqOwned = 4 ∧
          (run ⟨.scandir, true, false, 0, true, false, 1, 0, []⟩ [.submit, .work [.ok 3], .done, .next, .next, .cleanup]).l.reqOwned = 0 := by
  decide +kernel

/-- partial result towards `cleanup_frees_all_stmt`: in EVERY state (reachable or not) whose ledger agrees with the request's
    pointer fields (`Rel`: a heap `path`/`bufs`/`ptr` has exactly one live block of its role, scandir entries from the iterator
    position on, readdir names up to `result`, …), uv_fs_req_cleanup frees everything the request owns, frees nothing twice
    and leaves the caller's directory handle alone.  Missing for the full statement: `Rel` holds in every reachable state
    (preservation by `work`, `submit`, `cqe`; `scandirNext` and `cleanup` are done: `next_rel`, `cleanup_of_rel`). -/
theorem cleanup_frees_all_partial (s : St) (h : Rel s.req s.l) (hb : s.req.bufs ≠ .user) :
    (cleanup s).l.reqOwned = 0 ∧ (cleanup s).l.badFree = 0 ∧ (cleanup s).l.userOwned = s.l.userOwned :=
  cleanup_of_rel s h hb

/-- uv_fs_req_cleanup leaves `path`, `new_path`, `bufs` and `ptr` NULL, whatever state the request was in -/
theorem cleanup_nulls (s : St) :
    (cleanup s).req.path = .null ∧ (cleanup s).req.newPath = false ∧ (cleanup s).req.bufs = .null ∧ (cleanup s).req.ptr = .null := cleanup_fields_null s

/-- a second uv_fs_req_cleanup is a no-op, whatever state the request was in -/
theorem cleanup_idempotent (s : St) : cleanup (cleanup s) = cleanup s := by
  obtain ⟨h1, h2, h3, h4⟩ := cleanup_nulls s
  exact cleanup_of_nulls _ h1 h2 h3 h4 (cleanup_cleaned s)

example : cleanup (run ⟨.scandir, true, false, 0, true, false, 1, 0, []⟩ [.submit, .work [.ok 3], .done, .next]) ≠
          run ⟨.scandir, true, false, 0, true, false, 1, 0, []⟩ [.submit, .work [.ok 3], .done, .next] := by decide +kernel

def path_lifetime_async_stmt : Prop := ∀ (a : Args) (evs : List Ev),
  (a.cb = true ∨ pathKind a.op = .tmpl) → pathKind a.op ≠ .none →
  (run a evs).phase ≠ .idle → (run a evs).phase ≠ .rejected → (run a evs).cleaned = false →
  (run a evs).req.path = .heap ∧ (run a evs).l.get (pathRole a.op) = 1

/-- with a callback (and always for mkdtemp/mkstemp) the path copy is a live heap block from the front end's return until
    the first uv_fs_req_cleanup, on every route and for cancelled and failed requests alike -/
theorem path_lifetime_async_holds : path_lifetime_async_stmt := by
  intro a evs hc hk hp1 hp2 hcl
  have hP := pinv_run a evs
  have hL := linv_run a evs
  have hpath := hP.pv hp1 hp2 hcl
  have hv : pathVal a = .heap := by
    unfold pathVal
    rcases hc with hc | hc
    · cases hkk : pathKind a.op <;> simp [hkk, hc] at hk ⊢
    · simp [hc]
  rw [hv] at hpath
  refine ⟨hpath, ?_⟩
  have := ((hL.rel hp1).pathH hpath).1
  rw [(hP.oc hp1).1] at this
  exact this

example : (run ⟨.rename, true, true, 0, true, false, 1, 5, []⟩ [.submit, .cancel, .cqe (-2)]).req.path = .heap ∧
          (run ⟨.rename, true, true, 0, true, false, 1, 5, []⟩ [.submit, .cancel, .cqe (-2)]).l.path2 = 1 := by decide +kernel

def path_borrowed_sync_stmt : Prop := ∀ (a : Args) (evs : List Ev),
  a.cb = false → pathKind a.op ≠ .tmpl →
  (run a evs).req.path ≠ .heap ∧ (run a evs).l.path = 0 ∧ (run a evs).l.path2 = 0 ∧ (run a evs).l.badFree = 0

/-- without a callback the caller's path is borrowed: never copied, never freed -/
theorem path_borrowed_sync_holds : path_borrowed_sync_stmt := by
  intro a evs hc hk
  have hP := pinv_run a evs
  have hL := linv_run a evs
  have hv : pathVal a ≠ .heap := by
    unfold pathVal
    cases hkk : pathKind a.op <;> simp [hkk, hc] at hk ⊢
  by_cases hp : (run a evs).phase = .idle
  · rw [hP.idle hp]; simp [init]; split <;> simp [Ledger.empty]
  · have hne : (run a evs).req.path ≠ .heap := by
      rcases hP.pn hp with h | h <;> rw [h]
      · exact hv
      · simp
    have hs := (hL.rel hp).pathS
    simp [hne] at hs
    exact ⟨hne, hs.1, hs.2, (hL.rel hp).bad⟩

example : (run ⟨.stat, false, false, 0, true, false, 1, 0, [.ok 0]⟩ [.submit]).req.path = .user ∧
          (run ⟨.stat, false, false, 0, true, false, 1, 0, [.ok 0]⟩ [.submit, .cleanup]).l.badFree = 0 := by decide +kernel

/-- `uv__fs_work` leaves in `req->result` either a count the kernel (or the action) reported or the negated errno of
    a failed call — never the raw `-1` of the C call and never a positive errno -/
theorem work_result_normalised (q : Req) (l : Ledger) (outs : List Outcome) :
    (∃ n : Nat, ((.ok n ∈ outs) ∨ n = 0) ∧ (work q l outs).1.result = (n : Int)) ∨
    (∃ e : Nat, ((.fail e ∈ outs) ∨ e = FsBuf.EIO) ∧ (work q l outs).1.result = -(e : Int)) := work_result_cases q l outs

example : (work ⟨.open, true, .heap, false, .null, .null, 0, 0⟩ Ledger.empty [.fail EINTR, .fail 13]).1.result = -13 := by decide +kernel

/-- for every kind but close and read, EINTR is retried inside `uv__fs_work` and never reaches `req->result` -/
theorem eintr_not_surfaced (q : Req) (l : Ledger) (outs : List Outcome) (hr : retryOnEintr q.op = true) :
    (work q l outs).1.result ≠ -(EINTR : Int) := by
  induction outs generalizing q l with
  | nil =>
    rw [work_nil]
    rcases attempt_out q l (.fail EIO) with ⟨n, hn, _⟩ | ⟨e, he, h⟩
    · simp [hn, finishWork]
    · cases h; simp [he, finishWork, FsBuf.EIO, EINTR]
  | cons o rest ih =>
    rw [work_cons]
    rcases attempt_out q l o with ⟨n, hn, _⟩ | ⟨e, he, h⟩
    · rw [hn]; simp [finishWork]
    · rw [he]; simp only []
      split
      · exact ih _ _ (by rw [attempt_op]; exact hr)
      · rename_i hc
        simp [finishWork]
        intro heq
        apply hc
        refine ⟨?_, hr⟩
        simp [EINTR] at heq ⊢; omega

example : (work ⟨.read, true, .null, false, .sml, .null, 0, 1⟩ Ledger.empty [.fail EINTR, .ok 5]).1.result = -4 := by decide +kernel
example : (work ⟨.readlink, true, .heap, false, .null, .null, 0, 0⟩ Ledger.empty [.fail EINTR, .ok 5]).1.result = 0 := by decide +kernel

def result_normalised_stmt : Prop := ∀ (a : Args) (evs : List Ev),
  (run a evs).phase = .done →
  (run a evs).req.result ≥ 0 ∨ (run a evs).req.result = UV_ECANCELED ∨
  (∃ e : Nat, ((.fail e ∈ answers a evs) ∨ e = FsBuf.EIO) ∧ (run a evs).req.result = -(e : Int)) ∨
  (∃ r, r ∈ cqeResults evs ∧ (run a evs).req.result = r)

/-- `req->result` of a completed request is a count (>= 0), UV_ECANCELED, the negated errno of a kernel answer of this
    life cycle (EIO for an exhausted script) or the CQE result the ring delivered — for every kind, route and event list -/
theorem result_normalised_holds : result_normalised_stmt := by
  intro a evs hd
  simp only [run] at hd ⊢
  have h := J_run a evs a.outs [] (init a) (fun _ h => h) (fun hp => by simp [init] at hp)
  rw [answers_eq, cqes_eq]
  simpa [ResOk] using h (Or.inr hd)

example : (run ⟨.open, true, false, 0, true, false, 4, 0, []⟩ [.submit, .work [.fail EINTR, .fail 2], .done]).req.result = -2 ∧
          (run ⟨.open, true, true, 0, true, false, 4, 0, []⟩ [.submit, .cqe (-2)]).req.result = -2 ∧
          (run ⟨.open, true, false, 0, true, false, 4, 0, []⟩ [.submit, .cancel, .done]).req.result = UV_ECANCELED := by decide +kernel

def stat_ptr_stmt : Prop := ∀ (a : Args) (evs : List Ev),
  isStat a.op = true → (run a evs).phase = .done → (run a evs).cleaned = false →
  (run a evs).req.ptr = (if (run a evs).req.result = 0 then .statbuf else .null)

/-- `stat_ptr_stmt` is FALSE of the model as stated: a failed answer whose errno is 0 (`r == -1`, `errno == 0`) gives
    `req->result = 0` while `req->ptr` stays NULL (fs.c:1751-1760 tests `r == 0`, not `req->result == 0`).  No system call fails
    with errno 0, so this is an artefact of the statement, not a libuv defect; the statement to prove is `stat_ptr_nz_stmt`. -/
theorem stat_ptr_stmt_false : ¬ stat_ptr_stmt := by
  intro h
  have := h ⟨.stat, false, false, 0, true, false, 1, 0, [.fail 0]⟩ [.submit] (by decide +kernel) (by decide +kernel) (by decide +kernel)
  revert this
  decide +kernel

/-- the kernel answers of a life cycle never fail with errno 0 -/
def AnswersNonzero (a : Args) (evs : List Ev) : Prop := Outcome.fail 0 ∉ answers a evs

/-- corrected statement (proved below) -/
def stat_ptr_nz_stmt : Prop := ∀ (a : Args) (evs : List Ev), AnswersNonzero a evs →
  isStat a.op = true → (run a evs).phase = .done → (run a evs).cleaned = false →
  (run a evs).req.ptr = (if (run a evs).req.result = 0 then .statbuf else .null)

/-- for stat / lstat / fstat on every route (sync, pool, io_uring, io_uring with -EOPNOTSUPP fallback, cancelled): in the
    callback and until cleanup `req->ptr == &req->statbuf` exactly when `req->result == 0`, else NULL -/
theorem stat_ptr_nz_holds : stat_ptr_nz_stmt := by
  intro a evs hnz hs hd hc
  have hnz0 : Outcome.fail 0 ∉ a.outs := fun h => hnz (by unfold answers; exact List.mem_append_left _ h)
  have hev : ∀ e, e ∈ evs → ∀ os, e = .work os → Outcome.fail 0 ∉ os := by
    intro e he os heq h
    apply hnz
    unfold answers
    apply List.mem_append_right
    rw [List.mem_flatMap]
    exact ⟨e, he, by subst heq; exact h⟩
  have key : LInv a (run a evs) ∧ PInv a (run a evs) ∧ SInv a (run a evs) :=
    run_induct_mem a (fun s => LInv a s ∧ PInv a s ∧ SInv a s) evs
      ⟨linv_init a, ⟨fun _ => rfl, by simp [init], by simp [init], by simp [init]⟩, fun hp => by simp [init] at hp⟩
      (fun s e he ⟨h1, h2, h3⟩ => ⟨linv_step a s e h1, pinv_step a s e h2, sinv_step a hs s e hnz0 (hev e he) h1 h2 h3⟩)
  exact key.2.2 (Or.inr hd) hc

example : (run ⟨.stat, true, true, 0, true, false, 1, 0, []⟩ [.submit, .cqe (-95), .work [.fail 4, .ok 0], .done]).req.ptr = .statbuf ∧
          (run ⟨.lstat, true, true, 0, true, false, 1, 0, []⟩ [.submit, .cqe (-2)]).req.ptr = .null := by decide +kernel

/-- the callback of an asynchronous request has run exactly once when the request is complete and not at all
    before; a synchronous request never has its callback slot invoked -/
theorem exactly_one_cb (a : Args) (evs : List Ev) :
    (run a evs).cbs = (if a.cb = true ∧ (run a evs).phase = .done then 1 else 0) := (invC_run a evs).cbs

example : (run ⟨.read, true, false, 6, true, false, 0, 0, []⟩ [.submit, .work [.ok 3], .done, .done, .cleanup, .done]).cbs = 1 := by
  decide +kernel
example : (run ⟨.stat, true, true, 0, true, false, 1, 0, []⟩ [.submit, .cqe (-95), .work [.ok 0], .done]).cbs = 1 := by
  decide +kernel

/-- a request without callback never touches the loop's request count and is never in flight -/
theorem sync_never_registers (a : Args) (evs : List Ev) (h : a.cb = false) :
    (run a evs).regs = 0 ∧ (run a evs).active = 0 ∧ inFlight (run a evs).phase = false := by
  have hi := invC_run a evs
  have h3 := hi.sync h
  refine ⟨h3.1, ?_, h3.2⟩
  rw [hi.active, h3.2]; rfl

example : (run ⟨.open, false, true, 0, true, false, 1, 0, [.ok 7]⟩ [.submit, .cancel, .cleanup]).phase = .done := by decide +kernel

/-- the request is counted in `loop->active_reqs` exactly while it is in flight (so that uv_run neither
    returns early nor hangs on it) -/
theorem registered_iff_in_flight (a : Args) (evs : List Ev) :
    (run a evs).active = (if inFlight (run a evs).phase = true then 1 else 0) := (invC_run a evs).active

example : (run ⟨.stat, true, true, 0, true, false, 1, 0, []⟩ [.submit, .cqe (-95)]).active = 1 ∧
          (run ⟨.stat, true, true, 0, true, false, 1, 0, []⟩ [.submit, .cqe (-95)]).regs = 2 := by decide +kernel

def dir_handed_over_stmt : Prop := ∀ (a : Args) (evs : List Ev),
  a.op = .opendir → (run a evs).phase = .done →
  (run a evs).l.userOwned = (if (run a evs).req.result = 0 then 2 else 0)

/-- `dir_handed_over_stmt` is FALSE of the model as stated, for the same reason (a failed opendir with errno 0 reports
    `result = 0` and hands over nothing); the statement to prove is `dir_handed_over_nz_stmt`. -/
theorem dir_handed_over_stmt_false : ¬ dir_handed_over_stmt := by
  intro h
  have := h ⟨.opendir, false, false, 0, true, false, 1, 0, [.fail 0]⟩ [.submit] (by decide +kernel) (by decide +kernel)
  revert this
  decide +kernel

/-- corrected statement (proved below) -/
def dir_handed_over_nz_stmt : Prop := ∀ (a : Args) (evs : List Ev), AnswersNonzero a evs →
  a.op = .opendir → (run a evs).phase = .done →
  (run a evs).l.userOwned = (if (run a evs).req.result = 0 then 2 else 0)

/-- a completed uv_fs_opendir holds the caller's `uv_dir_t` + `DIR` (2 blocks) exactly when it reports success — also after
    any number of cleanups — and nothing when it failed or was cancelled -/
theorem dir_handed_over_nz_holds : dir_handed_over_nz_stmt := by
  intro a evs hnz ho hd
  have hnz0 : Outcome.fail 0 ∉ a.outs := fun h => hnz (by unfold answers; exact List.mem_append_left _ h)
  have hev : ∀ e, e ∈ evs → ∀ os, e = .work os → Outcome.fail 0 ∉ os := by
    intro e he os heq h
    apply hnz
    unfold answers
    apply List.mem_append_right
    rw [List.mem_flatMap]
    exact ⟨e, he, by subst heq; exact h⟩
  have key : LInv a (run a evs) ∧ PInv a (run a evs) ∧ DInv a (run a evs) :=
    run_induct_mem a (fun s => LInv a s ∧ PInv a s ∧ DInv a s) evs
      ⟨linv_init a, ⟨fun _ => rfl, by simp [init], by simp [init], by simp [init]⟩, fun hp => by simp [init] at hp⟩
      (fun s e he ⟨h1, h2, h3⟩ => ⟨linv_step a s e h1, pinv_step a s e h2, dinv_step a ho s e hnz0 (hev e he) h1 h2 h3⟩)
  exact key.2.2 (Or.inr hd)

example : (run ⟨.opendir, true, false, 0, true, false, 1, 0, []⟩ [.submit, .work [.ok 0], .done, .cleanup, .cleanup]).l.userOwned = 2 ∧
          (run ⟨.opendir, true, false, 0, true, false, 1, 0, []⟩ [.submit, .cancel, .done, .cleanup]).l.userOwned = 0 := by decide +kernel

end UvModel.FsReq
