import UvModel.FsReq
import UvModel.Lemmas.FsReqLemmas
/-!
# C11 (c): the `uv_fs_t` request life cycle — property theorems over `UvModel.FsReq`

Every theorem quantifies over all argument records `a : Args` (all 36 kinds, with and without a callback,
ring available or not, any buffer count, failing argument checks, allocation failure in the front end,
any list of kernel answers) and over ALL event lists `evs` (any interleaving of front end, cancel,
pool work, done, CQEs with any result incl. -EOPNOTSUPP, scandir_next and cleanup calls; events that
are not enabled in a phase are no-ops), i.e. over every reachable state of one request.
-/
namespace UvModel.FsReq
open UvModel.FsBuf

/-! Proved below: `cleanup_nulls`, `cleanup_idempotent` (both for EVERY state, reachable or not), `work_result_normalised`,
`eintr_not_surfaced` (every request, ledger and answer list), `exactly_one_cb`, `sync_never_registers`,
`registered_iff_in_flight` (every `Args`, every event list).

NOT yet proved — kept as `def …_stmt : Prop` (full strength, not theorems): `no_double_free_stmt`, `cleanup_frees_all_stmt`,
`path_lifetime_async_stmt`, `path_borrowed_sync_stmt`, `stat_ptr_stmt`, `dir_handed_over_stmt`
(`result_normalised_stmt` is proved: `result_normalised_holds`).
What is missing is one inductive invariant (ledger counts agree with the pointer fields `path`/`bufs`/`ptr`, per phase) through
`attempt`/`work`/`submit`/`cqe`/`scandirNext`/`cleanup`; the case analysis (36 kinds x fields) exceeded the build budget of this
round.  Until then these statements are *tested*, not proved: checks/c11.py evaluates them on the model's output for every
generated life cycle (variant x callback x route x cancel x fallback x oom x next-count x cleanup-count) and, independently, on the
real code's log. -/

def no_double_free_stmt : Prop := ∀ (a : Args) (evs : List Ev), (run a evs).l.badFree = 0

def cleanup_frees_all_stmt : Prop := ∀ (a : Args) (evs : List Ev),
  (run a evs).phase = .done ∨ (run a evs).phase = .rejected →
  (run a (evs ++ [.cleanup])).l.reqOwned = 0 ∧ (run a (evs ++ [.cleanup])).l.badFree = 0

/-- partial result towards `cleanup_frees_all_stmt`: in EVERY state (reachable or not) whose ledger agrees with the request's
    pointer fields (`Rel`: a heap `path`/`bufs`/`ptr` has exactly one live block of its role, scandir entries from the iterator
    position on, readdir names up to `result`, …), uv_fs_req_cleanup frees everything the request owns, frees nothing twice
    and leaves the caller's directory handle alone.  Missing for the full statement: `Rel` holds in every reachable state
    (preservation by `work`, `submit`, `cqe`; `scandirNext` and `cleanup` are done: `next_rel`, `cleanup_of_rel`). -/
theorem cleanup_frees_all_partial (s : St) (h : Rel s.req s.l) (hb : s.req.bufs ≠ .user) :
    (cleanup s).l.reqOwned = 0 ∧ (cleanup s).l.badFree = 0 ∧ (cleanup s).l.userOwned = s.l.userOwned :=
  cleanup_of_rel s h hb

/-- uv_fs_req_cleanup leaves `path`, `new_path`, `bufs` and `ptr` NULL, whatever state the request was in -/
theorem cleanup_nulls (s : St) :
    (cleanup s).req.path = .null ∧ (cleanup s).req.newPath = false ∧ (cleanup s).req.bufs = .null ∧ (cleanup s).req.ptr = .null := by
  unfold cleanup
  simp only []
  refine ⟨?_, ?_, ?_, ?_⟩ <;> (repeat' split) <;> first | rfl | trivial

/-- a second uv_fs_req_cleanup is a no-op, whatever state the request was in -/
theorem cleanup_idempotent (s : St) : cleanup (cleanup s) = cleanup s := by
  obtain ⟨h1, h2, h3, h4⟩ := cleanup_nulls s
  exact cleanup_of_nulls _ h1 h2 h3 h4 (cleanup_cleaned s)

example : cleanup (run ⟨.scandir, true, false, 0, true, false, 1, 0, []⟩ [.submit, .work [.ok 3], .done, .next]) ≠
          run ⟨.scandir, true, false, 0, true, false, 1, 0, []⟩ [.submit, .work [.ok 3], .done, .next] := by decide +kernel

def path_lifetime_async_stmt : Prop := ∀ (a : Args) (evs : List Ev),
  (a.cb = true ∨ pathKind a.op = .tmpl) → pathKind a.op ≠ .none →
  (run a evs).phase ≠ .idle → (run a evs).phase ≠ .rejected → (run a evs).cleaned = false →
  (run a evs).req.path = .heap ∧ (run a evs).l.get (pathRole a.op) = 1

def path_borrowed_sync_stmt : Prop := ∀ (a : Args) (evs : List Ev),
  a.cb = false → pathKind a.op ≠ .tmpl →
  (run a evs).req.path ≠ .heap ∧ (run a evs).l.path = 0 ∧ (run a evs).l.path2 = 0 ∧ (run a evs).l.badFree = 0

/-- `uv__fs_work` leaves in `req->result` either a count the kernel (or the action) reported or the negated errno of
    a failed call — never the raw `-1` of the C call and never a positive errno -/
theorem work_result_normalised (q : Req) (l : Ledger) (outs : List Outcome) :
    (∃ n : Nat, ((.ok n ∈ outs) ∨ n = 0) ∧ (work q l outs).1.result = (n : Int)) ∨
    (∃ e : Nat, ((.fail e ∈ outs) ∨ e = FsBuf.EIO) ∧ (work q l outs).1.result = -(e : Int)) := work_result_cases q l outs

example : (work ⟨.open, true, .heap, false, .null, .null, 0, 0⟩ Ledger.empty [.fail EINTR, .fail 13]).1.result = -13 := by decide +kernel

/-- for every kind but close and read, EINTR is retried inside `uv__fs_work` and never reaches `req->result` -/
theorem eintr_not_surfaced (q : Req) (l : Ledger) (outs : List Outcome) (hr : retryOnEintr q.op = true) :
    (work q l outs).1.result ≠ -(EINTR : Int) := by
  induction outs generalizing q l with
  | nil =>
    rw [work_nil]
    rcases attempt_out q l (.fail EIO) with ⟨n, hn, _⟩ | ⟨e, he, h⟩
    · simp [hn, finishWork]
    · cases h; simp [he, finishWork, FsBuf.EIO, EINTR]
  | cons o rest ih =>
    rw [work_cons]
    rcases attempt_out q l o with ⟨n, hn, _⟩ | ⟨e, he, h⟩
    · rw [hn]; simp [finishWork]
    · rw [he]; simp only []
      split
      · exact ih _ _ (by rw [attempt_op]; exact hr)
      · rename_i hc
        simp [finishWork]
        intro heq
        apply hc
        refine ⟨?_, hr⟩
        simp [EINTR] at heq ⊢; omega

example : (work ⟨.read, true, .null, false, .sml, .null, 0, 1⟩ Ledger.empty [.fail EINTR, .ok 5]).1.result = -4 := by decide +kernel
example : (work ⟨.readlink, true, .heap, false, .null, .null, 0, 0⟩ Ledger.empty [.fail EINTR, .ok 5]).1.result = 0 := by decide +kernel

def result_normalised_stmt : Prop := ∀ (a : Args) (evs : List Ev),
  (run a evs).phase = .done →
  (run a evs).req.result ≥ 0 ∨ (run a evs).req.result = UV_ECANCELED ∨
  (∃ e : Nat, ((.fail e ∈ answers a evs) ∨ e = FsBuf.EIO) ∧ (run a evs).req.result = -(e : Int)) ∨
  (∃ r, r ∈ cqeResults evs ∧ (run a evs).req.result = r)

/-- `req->result` of a completed request is a count (>= 0), UV_ECANCELED, the negated errno of a kernel answer of this
    life cycle (EIO for an exhausted script) or the CQE result the ring delivered — for every kind, route and event list -/
theorem result_normalised_holds : result_normalised_stmt := by
  intro a evs hd
  simp only [run] at hd ⊢
  have h := J_run a evs a.outs [] (init a) (fun _ h => h) (fun hp => by simp [init] at hp)
  rw [answers_eq, cqes_eq]
  simpa [ResOk] using h (Or.inr hd)

example : (run ⟨.open, true, false, 0, true, false, 4, 0, []⟩ [.submit, .work [.fail EINTR, .fail 2], .done]).req.result = -2 ∧
          (run ⟨.open, true, true, 0, true, false, 4, 0, []⟩ [.submit, .cqe (-2)]).req.result = -2 ∧
          (run ⟨.open, true, false, 0, true, false, 4, 0, []⟩ [.submit, .cancel, .done]).req.result = UV_ECANCELED := by decide +kernel

def stat_ptr_stmt : Prop := ∀ (a : Args) (evs : List Ev),
  isStat a.op = true → (run a evs).phase = .done → (run a evs).cleaned = false →
  (run a evs).req.ptr = (if (run a evs).req.result = 0 then .statbuf else .null)

/-- the callback of an asynchronous request has run exactly once when the request is complete and not at all
    before; a synchronous request never has its callback slot invoked -/
theorem exactly_one_cb (a : Args) (evs : List Ev) :
    (run a evs).cbs = (if a.cb = true ∧ (run a evs).phase = .done then 1 else 0) := (invC_run a evs).cbs

example : (run ⟨.read, true, false, 6, true, false, 0, 0, []⟩ [.submit, .work [.ok 3], .done, .done, .cleanup, .done]).cbs = 1 := by
  decide +kernel
example : (run ⟨.stat, true, true, 0, true, false, 1, 0, []⟩ [.submit, .cqe (-95), .work [.ok 0], .done]).cbs = 1 := by
  decide +kernel

/-- a request without callback never touches the loop's request count and is never in flight -/
theorem sync_never_registers (a : Args) (evs : List Ev) (h : a.cb = false) :
    (run a evs).regs = 0 ∧ (run a evs).active = 0 ∧ inFlight (run a evs).phase = false := by
  have hi := invC_run a evs
  have h3 := hi.sync h
  refine ⟨h3.1, ?_, h3.2⟩
  rw [hi.active, h3.2]; rfl

example : (run ⟨.open, false, true, 0, true, false, 1, 0, [.ok 7]⟩ [.submit, .cancel, .cleanup]).phase = .done := by decide +kernel

/-- the request is counted in `loop->active_reqs` exactly while it is in flight (so that uv_run neither
    returns early nor hangs on it) -/
theorem registered_iff_in_flight (a : Args) (evs : List Ev) :
    (run a evs).active = (if inFlight (run a evs).phase = true then 1 else 0) := (invC_run a evs).active

example : (run ⟨.stat, true, true, 0, true, false, 1, 0, []⟩ [.submit, .cqe (-95)]).active = 1 ∧
          (run ⟨.stat, true, true, 0, true, false, 1, 0, []⟩ [.submit, .cqe (-95)]).regs = 2 := by decide +kernel

def dir_handed_over_stmt : Prop := ∀ (a : Args) (evs : List Ev),
  a.op = .opendir → (run a evs).phase = .done →
  (run a evs).l.userOwned = (if (run a evs).req.result = 0 then 2 else 0)

end UvModel.FsReq
