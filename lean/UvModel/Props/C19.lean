import UvModel.Lemmas.GetterLemmas
import UvModel.Generated.ErrnoTable
/-! # C19 — string getters never write past the buffer, terminate, report the needed size

All statements are for every true value `v` and every capacity `size` (no bounds).  `Sized` ranges over the
getters with the `(buffer, size_t* size)` protocol (uv_cwd, uv_os_getenv = uv_os_homedir with $HOME,
uv_os_homedir from passwd, uv_os_tmpdir, uv_os_gethostname, uv_fs_event_getpath, uv_fs_poll_getpath,
uv_if_indextoname/iid, uv_pipe_getsockname/getpeername on a path socket).  Abstract/unbound socket names,
uv_get_process_title (size by value) and the truncating getters (uv_exepath, uv_thread_getname,
uv_err_name_r, uv_strerror_r) have their own statements below. -/
namespace UvModel.Props.C19
open UvModel.Getter UvModel.Generated

/-! ## getters with the `*size` protocol -/

/-- no store at an offset `≥ size`, for any value and size -/
theorem never_past_size (g : Sized) (v : List Byte) (size : Nat) (h : g.osOk v) :
    ∀ p ∈ (g.run v size).writes, p.1 < size := by
  have hb := sized_big g v h
  by_cases hs : size ≤ v.length
  · rw [(hb.fail size hs).2]; intro p hp; cases hp
  · exact ((hb.ok size (by omega)).2.2.2).mono (by omega)

/-- success ⇒ the byte at the reported length is the terminator, and it was written by the call -/
theorem terminated (g : Sized) (v : List Byte) (size : Nat) (h : g.osOk v)
    (hrc : (g.run v size).rc = 0) : get (g.run v size).writes (g.run v size).size = some 0 := by
  have hb := sized_big g v h
  by_cases hs : size ≤ v.length
  · exact absurd hrc (hb.fail size hs).1
  · obtain ⟨_, h2, h3, _⟩ := hb.ok size (by omega)
    rw [h2]; exact h3.2

/-- success ⇒ reported length = length of the returned string, and the buffer holds exactly the true value
(`expected`: the OS value, minus one trailing slash for uv_cwd / uv_os_tmpdir) followed by the terminator -/
theorem success_len_and_value (g : Sized) (v : List Byte) (size : Nat) (h : g.osOk v)
    (hrc : (g.run v size).rc = 0) :
    (g.run v size).size = (g.expected v).length ∧ HoldsString (g.run v size).writes (g.expected v) := by
  have hb := sized_big g v h
  by_cases hs : size ≤ v.length
  · exact absurd hrc (hb.fail size hs).1
  · obtain ⟨_, h2, h3, _⟩ := hb.ok size (by omega)
    exact ⟨h2, h3⟩

/-- the returned string is a C string: no terminator inside when the OS value has none -/
theorem expected_nulfree (g : Sized) (v : List Byte) (hv : NulFree v) : NulFree (g.expected v) := by
  have hs : NulFree (stripSlash v) := by
    unfold stripSlash; split
    · intro x hx; exact hv x (List.mem_of_mem_take hx)
    · exact hv
  cases g <;> first | exact hs | exact hv

/-- UV_ENOBUFS exactly when value + terminator do not fit (`size ≤ len`); success exactly when they do.
For uv_cwd the OS value must be a canonical getcwd answer (see `cwd_*` below for why). -/
theorem enobufs_iff_too_small (g : Sized) (v : List Byte) (size : Nat) (h : g.osOk v)
    (hc : g = .cwd → CwdCanonical v) (h0 : 0 < size) :
    ((g.run v size).rc = ENOBUFS ↔ size ≤ v.length) ∧ ((g.run v size).rc = 0 ↔ v.length < size) := by
  have hb := sized_big g v h
  have hsm := sized_small g v h hc
  by_cases hs : size ≤ v.length
  · have h1 := (hsm.small size h0 hs).1
    refine ⟨⟨fun _ => hs, fun _ => h1⟩, ⟨fun h2 => absurd h2 (hb.fail size hs).1, fun h2 => by omega⟩⟩
  · have h1 := (hb.ok size (by omega)).1
    refine ⟨⟨fun h2 => ?_, fun h2 => absurd h2 hs⟩, ⟨fun _ => by omega, fun _ => h1⟩⟩
    rw [h1] at h2; exact absurd h2 (by decide)

/-- a buffer too small for the *returned* string (after slash stripping) is always refused
(the converse fails only for uv_os_tmpdir with a trailing slash: DESIGN §5 interpretation iv, `tmpdir_gap`) -/
theorem too_small_for_result_refused (g : Sized) (v : List Byte) (size : Nat) (h : g.osOk v)
    (hc : g = .cwd → CwdCanonical v) (h0 : 0 < size) (hs : size ≤ (g.expected v).length) :
    (g.run v size).rc = ENOBUFS := by
  have hle : (g.expected v).length ≤ v.length := by
    cases g <;> first | exact stripSlash_length_le v | exact Nat.le_refl _
  exact ((enobufs_iff_too_small g v size h hc h0).1).2 (by omega)

/-- the `*size` stored with UV_ENOBUFS makes the retry succeed -/
theorem retry_with_reported_size_succeeds (g : Sized) (v : List Byte) (size : Nat) (h : g.osOk v)
    (hc : g = .cwd → CwdCanonical v) (h0 : 0 < size) (hrc : (g.run v size).rc = ENOBUFS) :
    (g.run v (g.run v size).size).rc = 0 := by
  have hs := ((enobufs_iff_too_small g v size h hc h0).1).1 hrc
  have hbig := ((sized_small g v h hc).small size h0 hs).2
  exact ((sized_big g v h).ok _ hbig).1

/-- `*size == 0` is refused without touching the buffer -/
theorem zero_size_einval (g : Sized) (v : List Byte) (h : g.osOk v) (hc : g = .cwd → CwdCanonical v) :
    (g.run v 0).rc = EINVAL ∧ (g.run v 0).writes = [] :=
  ⟨(sized_small g v h hc).einval, ((sized_big g v h).fail 0 (Nat.zero_le _)).2⟩

/-- uv_os_getenv on an unset variable / uv_os_homedir with $HOME set: same function as `Sized.getenv` -/
theorem getenv_unset (size : Nat) (h0 : 0 < size) : osGetenv none size = ⟨ENOENT, [], size⟩ := by
  have : ¬ size = 0 := by omega
  simp [osGetenv, this]

theorem homedir_with_home (home pw : List Byte) (size : Nat) :
    osHomedir (some home) pw size = Sized.getenv.run home size := by
  have : (osGetenv (some home) size).rc ≠ ENOENT := by
    rw [getenv_eq]; unfold checkCopy; split
    · simp [EINVAL, ENOENT]
    · split <;> simp [ENOBUFS, ENOENT]
  simp only [osHomedir, Sized.run]
  rw [if_pos this]

-- non-vacuity: concrete runs on both sides of the boundary, with and without slash stripping
example : Sized.getenv.run (bytesOf "abc") 4 = ⟨0, [(0, 97), (1, 98), (2, 99), (3, 0)], 3⟩ := by decide
example : Sized.getenv.run (bytesOf "abc") 3 = ⟨ENOBUFS, [], 4⟩ := by decide
example : Sized.cwd.run (bytesOf "/a/b") 5 = ⟨0, [(0, 47), (1, 97), (2, 47), (3, 98), (4, 0)], 4⟩ := by decide
example : Sized.tmpdir.run (bytesOf "/t/") 4 = ⟨0, [(0, 47), (1, 116), (2, 47), (2, 0)], 2⟩ := by decide
example : Sized.pipePath.osOk (bytesOf "/tmp/s") := ⟨by decide, by decide, by decide⟩
example : CwdCanonical (bytesOf "/a/b") := ⟨by decide, by decide⟩
example : Sized.ifName.run (bytesOf "lo") 2 = ⟨ENOBUFS, [], 3⟩ := by decide

/-- interpretation (iv): uv_os_tmpdir refuses a buffer that would hold the stripped result -/
theorem tmpdir_gap : ∃ v size, size = (Sized.tmpdir.expected v).length + 1 ∧ (Sized.tmpdir.run v size).rc = ENOBUFS :=
  ⟨bytesOf "/t/", 3, by decide, by decide⟩

/-! ### uv_cwd: why `CwdCanonical` is assumed, and what happens beyond PATH_MAX -/

/-- were getcwd to answer with a trailing slash, the size reported from the scratch buffer (stripped
length + 1) would be one short: the retry fails again.  (getcwd never does: assumption, not a defect.) -/
theorem cwd_trailing_slash_needed :
    ∃ v size, NulFree v ∧ (cwd v size).rc = ENOBUFS ∧ (cwd v (cwd v size).size).rc = ENOBUFS :=
  ⟨bytesOf "/a/", 3, by decide, by decide, by decide⟩

/-- FALSE of the code for deep directories: a working directory longer than PATH_MAX (reachable with
relative chdir) and a too-small buffer give `ERANGE` and leave `*size` untouched, not UV_ENOBUFS with a
usable size — the scratch buffer `char scratch[1 + UV__PATH_MAX]` is too small as well (core.c:771-772). -/
theorem cwd_beyond_path_max_not_enobufs (v : List Byte) (size : Nat) (hv : scratchCap ≤ v.length)
    (h0 : 0 < size) (hs : size ≤ v.length) :
    cwd v size = ⟨ERANGE, [], size⟩ := by
  have h0' : ¬ size = 0 := by omega
  have h1 : ¬ v.length + 1 ≤ size := by omega
  have h2 : ¬ v.length + 1 ≤ scratchCap := by omega
  simp [cwd, cwdR, h0', h1, h2]

/-- whatever else glibc's getcwd left in the buffer (paths ≥ PATH_MAX go through its fallback, which
builds the path from the end of the buffer): same return code and `*size`, every store stays below `size`
as long as libc's did, and on success the buffer still holds the true value and its terminator -/
theorem cwd_with_getcwd_residue (v : List Byte) (size : Nat) (residue : Writes)
    (h : ∀ p ∈ residue, p.1 < size) :
    (cwdR v size residue).rc = (cwd v size).rc ∧ (cwdR v size residue).size = (cwd v size).size ∧
    (∀ p ∈ (cwdR v size residue).writes, p.1 < size) ∧
    ((cwd v size).rc = 0 → HoldsString (cwdR v size residue).writes (stripSlash v)) := by
  refine ⟨(cwdR_answer v size residue).1, (cwdR_answer v size residue).2, cwdR_bounded v size residue h, ?_⟩
  intro hrc
  have hpos : 0 < size := by
    cases size with
    | zero => simp [cwd, cwdR, EINVAL] at hrc
    | succ n => omega
  rw [cwdR_writes v size residue hpos]
  exact holds_after _ _ _ (success_len_and_value .cwd v size trivial hrc).2

/-- the property as the record states it, for uv_cwd without the PATH_MAX bound: refuted by the theorem above -/
def cwd_full_statement : Prop :=
  ∀ v size, stripSlash v = v → 0 < size → size ≤ v.length → (cwd v size).rc = ENOBUFS

theorem cwd_full_statement_false : ¬ cwd_full_statement := by
  intro h
  have hv : stripSlash (List.replicate scratchCap (97 : Byte)) = List.replicate scratchCap 97 := by
    unfold stripSlash
    split
    · next hc =>
      have h2 := hc.2
      rw [List.getElem?_replicate] at h2
      split at h2
      · exact absurd (Option.some.inj h2) (by decide)
      · cases h2
    · rfl
  have hl : (List.replicate scratchCap (97 : Byte)).length = scratchCap := List.length_replicate
  have hpos : 1 ≤ scratchCap := by decide
  have h1 := h (List.replicate scratchCap 97) 1 hv (by omega) (by rw [hl]; exact hpos)
  rw [cwd_beyond_path_max_not_enobufs _ 1 (by rw [hl]; exact Nat.le_refl _) (by omega) (by rw [hl]; exact hpos)] at h1
  exact absurd h1 (by simp [ERANGE, ENOBUFS])

/-! ## socket names that are not strings (DESIGN §5 interpretation ii) -/

/-- uv_pipe_getsockname/getpeername never store at an offset `≥ size`, whatever the kernel returned -/
theorem pipe_never_past_size (raw : List Byte) (old0 : Byte) (size : Nat) :
    ∀ p ∈ (pipeGetname raw old0 size).writes, p.1 < size := pipe_bounded raw old0 size

/-- abstract name `\0rest`: success iff the exact byte count fits; the bytes are copied as they are,
the reported length is the byte count, and no terminator is stored behind them -/
theorem abstract_exact_length_no_terminator (rest : List Byte) (hlen : rest.length + 1 ≤ 108) (old0 : Byte)
    (size : Nat) (h0 : 0 < size) :
    let r := pipeGetname (0 :: rest) old0 size
    (r.rc = ENOBUFS ↔ size < rest.length + 1) ∧ (r.rc = 0 ↔ rest.length + 1 ≤ size) ∧
    (r.rc = 0 → r.size = rest.length + 1 ∧ HoldsBytes r.writes (0 :: rest)) ∧
    (r.rc = ENOBUFS → r.writes = [] ∧ (pipeGetname (0 :: rest) old0 r.size).rc = 0) := by
  intro r
  have e : r = _ := pipe_abstract rest hlen old0 size h0
  by_cases h1 : size < rest.length + 1
  · simp only [h1, if_true] at e
    have e2 := pipe_abstract rest hlen old0 (rest.length + 1) (by omega)
    simp only [Nat.lt_irrefl, if_false] at e2
    rw [e]
    refine ⟨by simp [h1], by simp [ENOBUFS]; omega, by simp [ENOBUFS], fun _ => ⟨rfl, by rw [e2]⟩⟩
  · simp only [h1, if_false] at e
    rw [e]
    refine ⟨by simp [ENOBUFS, h1], by simp; omega, fun _ => ⟨rfl, holdsBytes_memcpy _⟩, by simp [ENOBUFS]⟩

example : pipeGetname [0, 97, 98] 0xAA 3 = ⟨0, [(0, 0), (1, 97), (2, 98)], 3⟩ := by decide
example : pipeGetname [0, 97, 98] 0xAA 2 = ⟨ENOBUFS, [], 3⟩ := by decide

/-- unbound socket: the empty name, at most the byte at offset 0 is stored -/
theorem unbound_empty_name (old0 : Byte) (size : Nat) (h0 : 0 < size) :
    (pipeGetname [] old0 size).rc = 0 ∧ (pipeGetname [] old0 size).size = 0 ∧
    ∀ p ∈ (pipeGetname [] old0 size).writes, p = (0, 0) := by
  rw [pipe_unbound old0 size h0]
  refine ⟨rfl, rfl, ?_⟩
  split <;> simp

/-! ## uv_get_process_title (`size` by value) -/

theorem proctitle_never_past_size (v : List Byte) (size : Nat) :
    ∀ p ∈ (getProcessTitle v size).writes, p.1 < size := by
  by_cases hs : v.length < size
  · exact (proctitle_ok v size hs).2.2.mono (by omega)
  · by_cases h0 : size = 0
    · simp [getProcessTitle, h0]
    · rw [proctitle_small v size (by omega) (by omega)]; intro p hp; cases hp

/-- success ⇒ the buffer holds the title and its terminator; UV_ENOBUFS iff `size ≤ len`; `len + 1` suffices -/
theorem proctitle_protocol (v : List Byte) (size : Nat) (h0 : 0 < size) :
    ((getProcessTitle v size).rc = 0 → HoldsString (getProcessTitle v size).writes v) ∧
    ((getProcessTitle v size).rc = ENOBUFS ↔ size ≤ v.length) ∧
    (getProcessTitle v (v.length + 1)).rc = 0 := by
  refine ⟨?_, ?_, (proctitle_ok v _ (by omega)).1⟩
  · intro hrc
    by_cases hs : v.length < size
    · exact (proctitle_ok v size hs).2.1
    · rw [proctitle_small v size h0 (by omega)] at hrc; exact absurd hrc (by simp [ENOBUFS])
  · by_cases hs : v.length < size
    · have := (proctitle_ok v size hs).1
      constructor
      · intro h; rw [this] at h; exact absurd h (by decide)
      · intro h; omega
    · rw [proctitle_small v size h0 (by omega)]; simp; omega

example : getProcessTitle (bytesOf "ab") 3 = ⟨0, [(0, 97), (1, 98), (2, 0), (2, 0)], 3⟩ := by decide

/-! ## truncating getters -/

/-- what `Truncated` gives: a terminated prefix of the true value of length ≤ size − 1, the whole value when it fits -/
theorem truncating_is_prefix {r : Result} {v : List Byte} {size : Nat} (h : Truncated r v size) :
    ∃ s, s <+: v ∧ s.length ≤ size - 1 ∧ (v.length < size → s = v) ∧ HoldsString r.writes s ∧
      (∀ p ∈ r.writes, p.1 < size) :=
  ⟨v.take (size - 1), List.take_prefix _ _, by simp; omega,
    fun hlt => List.take_of_length_le (by omega), h.2.1, h.2.2⟩

/-- uv_exepath: terminated prefix of the link target; `*size` = its length -/
theorem exepath_truncates (v : List Byte) (size : Nat) (h0 : 0 < size) :
    Truncated (exepath v size) v size ∧ (exepath v size).size = (v.take (size - 1)).length := by
  obtain ⟨h1, h2⟩ := exepath_truncated v size h0
  exact ⟨h1, by rw [h2]; simp [Nat.min_comm]⟩

/-- uv_thread_getname: terminated prefix of the (≤ 15 byte) thread name -/
theorem thread_getname_truncates (v : List Byte) (hv : v.length ≤ 15) (size : Nat) (h0 : 0 < size) :
    Truncated (threadGetname v size) v size := threadGetname_truncated v hv size h0

theorem exepath_never_past_size (v : List Byte) (size : Nat) : ∀ p ∈ (exepath v size).writes, p.1 < size :=
  exepath_bounded v size
theorem thread_getname_never_past_size (v : List Byte) (size : Nat) :
    ∀ p ∈ (threadGetname v size).writes, p.1 < size := threadGetname_bounded v size

example : exepath (bytesOf "/bin/x") 4 = ⟨0, [(0, 47), (1, 98), (2, 105), (3, 0)], 3⟩ := by decide
example : threadGetname (bytesOf "ab") 5 = ⟨0, [(0, 97), (1, 98), (2, 0), (3, 0), (4, 0)], 5⟩ := by decide

/-! ## uv_err_name_r / uv_strerror_r: structural part over an arbitrary table -/

/-- table entries are C strings -/
def TableOk (t : List ErrEntry) : Prop := ∀ e ∈ t, NulFree e.name ∧ NulFree e.msg
instance (t : List ErrEntry) : Decidable (TableOk t) := by unfold TableOk; infer_instance

/-- for any table and any code (known or not) uv_err_name_r leaves a terminated prefix of the code's name -/
theorem err_name_r_truncates (t : List ErrEntry) (ht : TableOk t) (code : Int) (size : Nat) (h0 : 0 < size) :
    Truncated (errNameR t code size) (trueErrName t code) size := by
  unfold errNameR trueErrName
  cases hl : lookup t code with
  | none => exact ⟨rfl, (holds_snprintf _ size h0).1, (holds_snprintf _ size h0).2⟩
  | some e =>
    have hn := (ht e (lookup_code hl).1).1
    exact ⟨rfl, (holds_strscpy _ hn size h0).1, (holds_strscpy _ hn size h0).2⟩

theorem strerror_r_truncates (t : List ErrEntry) (code : Int) (size : Nat) (h0 : 0 < size) :
    Truncated (strerrorR t code size) (trueStrerror t code) size := by
  unfold strerrorR trueStrerror
  cases hl : lookup t code with
  | none => exact ⟨rfl, (holds_snprintf _ size h0).1, (holds_snprintf _ size h0).2⟩
  | some e => exact ⟨rfl, (holds_snprintf _ size h0).1, (holds_snprintf _ size h0).2⟩

/-- including `buflen == 0` and tables with arbitrary content: no store at or beyond `size` -/
theorem err_r_never_past_size (t : List ErrEntry) (code : Int) (size : Nat) :
    (∀ p ∈ (errNameR t code size).writes, p.1 < size) ∧ (∀ p ∈ (strerrorR t code size).writes, p.1 < size) := by
  unfold errNameR strerrorR
  cases lookup t code with
  | none => exact ⟨snprintfW_bounded _ _, snprintfW_bounded _ _⟩
  | some e => exact ⟨strscpyW_bounded _ _, snprintfW_bounded _ _⟩

/-- the true name/message of any code is a C string (also the `Unknown system error %d` text) -/
theorem true_err_strings_nulfree (t : List ErrEntry) (ht : TableOk t) (code : Int) :
    NulFree (trueErrName t code) ∧ NulFree (trueStrerror t code) := by
  unfold trueErrName trueStrerror
  cases hl : lookup t code with
  | none => exact ⟨unknownMsg_nulfree code, unknownMsg_nulfree code⟩
  | some e => exact ht e (lookup_code hl).1

/-- with distinct case labels, every line of the map is what its own code selects -/
theorem every_entry_selected (t : List ErrEntry) (hd : (t.map (·.code)).Nodup) (e : ErrEntry) (he : e ∈ t) :
    trueErrName t e.code = e.name ∧ trueStrerror t e.code = e.msg := by
  simp [trueErrName, trueStrerror, lookup_mem hd he]

/-! ### facts about the table generated from UV_ERRNO_MAP (the quantifier is the finite table) -/

theorem errnoTable_ok : TableOk errnoTable := by decide +kernel
theorem errnoTable_codes_distinct : (errnoTable.map (·.code)).Nodup := by decide +kernel
theorem errnoTable_nonempty : errnoTable ≠ [] := by decide

/-- the two theorems instantiated: every code, every size, on the table of this tree -/
theorem err_r_on_generated_table (code : Int) (size : Nat) (h0 : 0 < size) :
    Truncated (errNameR errnoTable code size) (trueErrName errnoTable code) size ∧
    Truncated (strerrorR errnoTable code size) (trueStrerror errnoTable code) size :=
  ⟨err_name_r_truncates _ errnoTable_ok code size h0, strerror_r_truncates _ code size h0⟩

theorem every_generated_entry (e : ErrEntry) (he : e ∈ errnoTable) (size : Nat) (h0 : 0 < size) :
    Truncated (errNameR errnoTable e.code size) e.name size ∧
    Truncated (strerrorR errnoTable e.code size) e.msg size := by
  have hs := every_entry_selected errnoTable errnoTable_codes_distinct e he
  have := err_r_on_generated_table e.code size h0
  rwa [hs.1, hs.2] at this

example : errNameR [⟨-7, bytesOf "E2BIG", bytesOf "x"⟩] (-7) 4 = ⟨0, [(0, 69), (1, 50), (2, 66), (3, 73), (3, 0)], 4⟩ := by decide
example : unknownMsg (-12345) = bytesOf "Unknown system error -12345" := by decide

end UvModel.Props.C19
