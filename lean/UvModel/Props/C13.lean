import UvModel.Signal
namespace UvModel.Props.C13
end UvModel.Props.C13
