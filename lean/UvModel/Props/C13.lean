import UvModel.Signal
import UvModel.Lemmas.SignalLemmas
/-!
# C13 — property theorems (model: `UvModel.Signal`; invariant: `Lemmas/SignalLemmas.lean`)

`Reach s` = `s` is the state after an arbitrary event sequence (API calls, deliveries, loop
iterations, in any order, with arbitrary callback scripts) from the initial state.
-/
namespace UvModel.Props.C13
open UvModel.Signal

/-- reachable states: any events, any callback script, any assignment of handles to loops -/
def Reach (s : S) : Prop := ∃ loopOf sc evs, s = runEvs sc (init loopOf) evs

theorem reach_inv {s : S} (h : Reach s) : Inv s := by
  obtain ⟨lo, sc, evs, rfl⟩ := h; exact inv_runEvs sc evs (inv_init lo)

def w1 : S := runEvs (fun _ => []) (init (fun i => i % 2))
  [.op (.oneshot 0 10), .op (.start 1 10), .op (.oneshot 2 10), .deliver 10, .deliver 10]
theorem w1_reach : Reach w1 := ⟨_, _, _, rfl⟩

/-! ## fan-out -/

/-- `fanout` (1): while libuv's handler is installed, a delivery makes the handler visit exactly the
started handles of that signum — each one once — whatever loop they live on. -/
theorem fanout_visits {s : S} (hr : Reach s) (sig : Nat) :
    (handlerTargets s.tree sig).Nodup ∧
    ∀ k, k ∈ handlerTargets s.tree sig ↔
      (k = keyOf k.id (s.hs k.id) ∧ (s.hs k.id).signum = sig ∧ sig ≠ 0) := by
  have hi := reach_inv hr
  rw [handlerTargets_eq_filter sig hi.sorted]
  refine ⟨(sorted_nodup hi.sorted).filter _, ?_⟩
  intro k; simp only [List.mem_filter, decide_eq_true_eq]
  constructor
  · rintro ⟨hk, hs⟩
    have := hi.key k hk
    refine ⟨this.1, ?_, by rw [← hs]; exact this.2⟩
    have h2 := this.1; rw [h2] at hs; simpa [keyOf] using hs
  · rintro ⟨hk, hs, h0⟩
    have := hi.started k.id (by rw [hs]; exact h0)
    rw [← hk] at this
    exact ⟨this, by rw [hk]; simpa [keyOf] using hs⟩

/-- `fanout` (2): one visit writes exactly one message — tagged with the handle and the signum — at the
tail of the pipe of *that handle's own loop*, touches no other pipe, and counts it in `caught`. -/
theorem fanout_enqueue (s : S) (sig : Nat) (k : Key) :
    let L := (s.hs k.id).loop
    (enqueue sig s k).pipes L = s.pipes L ++ [⟨k.id, sig, (s.hs k.id).gen⟩] ∧
    (∀ L', L' ≠ L → (enqueue sig s k).pipes L' = s.pipes L') ∧
    ((enqueue sig s k).hs k.id).caught = (s.hs k.id).caught + 1 ∧
    (∀ h, h ≠ k.id → (enqueue sig s k).hs h = s.hs h) := by
  refine ⟨by simp [enqueue], ?_, by simp [enqueue], ?_⟩
  · intro L' hL; simp [enqueue, upd_other _ _ _ _ hL]
  · intro h hh; simp [enqueue, upd_other _ _ _ _ hh]

/-- `fanout` (3): a delivery is exactly the fold of those visits (and nothing at all when the
disposition is not libuv's); a visit that finds the pipe full (`enqueueCap`) does nothing, and inside the
property's envelope that never happens (`foldl_enqueueCap_eq`, used by `fanout`). -/
theorem fanout_deliver {s : S} (sig : Nat) (r : Bool) (hd : s.disp sig = .uv r) :
    ∃ s0 : S, deliver s sig = (handlerTargets s.tree sig).foldl (enqueueCap sig) s0 ∧
      s0.tree = s.tree ∧ s0.hs = s.hs ∧ s0.pipes = s.pipes := by
  unfold deliver; rw [hd]
  cases r <;> (simp only [Bool.false_eq_true, ↓reduceIte]; exact ⟨_, rfl, rfl, rfl, rfl⟩)

example : (handlerTargets w1.tree 10).map (·.id) = [1, 0, 2] := by decide
example : (w1.pipes 0).map (fun m => (m.h, m.sig)) = [(0, 10), (2, 10), (0, 10), (2, 10)] ∧
          (w1.pipes 1).map (fun m => (m.h, m.sig)) = [(1, 10), (1, 10)] := by decide

/-! ## dispatch: one callback per message, on the handle's loop, unless stopped in between -/

theorem sigStop_frame (s : S) (h : Nat) :
    (sigStop s h).trace = s.trace ∧ (sigStop s h).pipes = s.pipes ∧ (sigStop s h).ncb = s.ncb := by
  unfold sigStop; simp only
  split
  · exact ⟨rfl, rfl, rfl⟩
  · split <;> (try split) <;> exact ⟨rfl, rfl, rfl⟩

theorem sigStart_frame (s : S) (h sig : Nat) (os : Bool) (cb : Nat) :
    (sigStart s h sig os cb).1.trace = s.trace ∧ (sigStart s h sig os cb).1.pipes = s.pipes ∧
    (sigStart s h sig os cb).1.ncb = s.ncb := by
  have h1 := sigStop_frame s h
  unfold sigStart
  split
  · exact ⟨rfl, rfl, rfl⟩
  split
  · exact ⟨rfl, rfl, rfl⟩
  generalize sigStop s h = s1 at h1
  simp only
  cases hf : firstHandle s1.tree sig with
  | none =>
    simp only [Bool.true_and]; split
    · exact h1
    · simpa [register] using h1
  | some f =>
    simp only; split
    · exact h1
    · split <;> simpa [register] using h1

theorem applyOp_frame (s : S) (o : Op) :
    (applyOp s o).1.trace = s.trace ∧ (applyOp s o).1.pipes = s.pipes ∧ (applyOp s o).1.ncb = s.ncb := by
  cases o <;> simp only [applyOp] <;> split <;> (try exact ⟨rfl, rfl, rfl⟩)
  · exact sigStart_frame s _ _ false _
  · exact sigStart_frame s _ _ true _
  · exact sigStop_frame s _
  · exact sigStop_frame s _

theorem runOps_frame (s : S) (os : List Op) :
    (runOps s os).trace = s.trace ∧ (runOps s os).pipes = s.pipes ∧ (runOps s os).ncb = s.ncb := by
  induction os generalizing s with
  | nil => exact ⟨rfl, rfl, rfl⟩
  | cons o os ih =>
    have h1 := applyOp_frame s o
    have h2 := ih (applyOp s o).1
    exact ⟨h2.1.trans h1.1, h2.2.1.trans h1.2.1, h2.2.2.trans h1.2.2⟩

/-- `fanout` (4) / `quiet_after_stop` (1): reading one message yields exactly one callback — for the
message's handle, with the message's signum, on the loop being run — when the handle watches that
signum at that moment, and no callback at all otherwise (in particular none for a handle that was
stopped or closed after the signal was caught: its `signum` is 0 and messages never carry 0).
Whatever the callback does, it cannot add callbacks or messages. -/
theorem dispatch_one_callback (sc : Script) (s : S) (L : Nat) (m : Msg) :
    (dispatchMsg sc s L m).trace =
      (if m.sig = (s.hs m.h).signum then [Cb.signal m.h m.sig L m.gen (s.hs m.h).gen] else []) ++ s.trace ∧
    (dispatchMsg sc s L m).pipes = s.pipes := by
  unfold dispatchMsg
  simp only
  split
  · rename_i hm
    have h1 := runOps_frame { s with trace := .signal m.h m.sig L m.gen (s.hs m.h).gen :: s.trace, ncb := s.ncb + 1, cbLog := (s.hs m.h).cb :: s.cbLog } (sc s.ncb)
    generalize runOps { s with trace := .signal m.h m.sig L m.gen (s.hs m.h).gen :: s.trace, ncb := s.ncb + 1, cbLog := (s.hs m.h).cb :: s.cbLog } (sc s.ncb) = s1 at h1
    split
    · rw [(sigStop_frame _ _).1, (sigStop_frame _ _).2.1]; exact ⟨by simpa using h1.1, h1.2.1⟩
    · exact ⟨by simpa using h1.1, h1.2.1⟩
  · split
    · rw [(sigStop_frame _ _).1, (sigStop_frame _ _).2.1]; exact ⟨by simp, rfl⟩
    · exact ⟨by simp, rfl⟩

/-- messages in pipes never carry signum 0 and name a handle of that loop … kept simple: what
`quiet_after_stop` needs is that a stopped handle (`signum = 0`) cannot match a real signal. -/
theorem quiet_after_stop (sc : Script) (s : S) (L : Nat) (m : Msg) (hstopped : (s.hs m.h).signum = 0)
    (hm : m.sig ≠ 0) : (dispatchMsg sc s L m).trace = s.trace := by
  have := (dispatch_one_callback sc s L m).1
  rw [this, hstopped]; simp [hm]

/-- `quiet_after_stop` (2): a handle that is not watching `sig` when it is delivered gets no message
(so nothing can be dispatched to it later for that delivery). -/
theorem quiet_no_message {s : S} (hr : Reach s) (sig h : Nat) (hn : (s.hs h).signum ≠ sig) :
    ∀ k ∈ handlerTargets s.tree sig, k.id ≠ h := by
  intro k hk e
  have := ((fanout_visits hr sig).2 k).1 hk
  rw [e] at this; exact hn this.2.1

/-- `uv_signal_stop` / `uv_close` leave the handle not watching, whatever its state was. -/
theorem stop_stops (s : S) (h : Nat) : ((sigStop s h).hs h).signum = 0 ∧ ((uvClose s h).hs h).signum = 0 := by
  refine ⟨sigStop_signum s h, ?_⟩
  have := sigStop_signum s h
  simp [uvClose, this]

/-- `oneshot_once_then_stopped`: after the message of a one-shot handle has been processed the handle
is stopped — unless the callback itself restarted it in regular mode — and by
`dispatch_one_callback` that processing produced exactly one callback.  Any further message for it
finds `signum = 0` (`quiet_after_stop`). -/
theorem oneshot_once_then_stopped (sc : Script) (s : S) (L : Nat) (m : Msg) :
    ((dispatchMsg sc s L m).hs m.h).oneshot = true → ((dispatchMsg sc s L m).hs m.h).signum = 0 := by
  unfold dispatchMsg
  simp only
  generalize (if m.sig = (s.hs m.h).signum then _ else s) = s1
  split
  · intro _; exact sigStop_signum _ _
  · rename_i hno; intro h; exact absurd h hno

example : let s := dispatch (fun _ => []) w1 0
    s.trace = [.signal 2 10 0 1 1, .signal 0 10 0 1 1] ∧ (s.hs 0).signum = 0 ∧ (s.hs 2).signum = 0 ∧
    (s.hs 0).dispatched = 2 := by decide

/-! ## close waits for caught signals -/

/-- `close_waits_for_caught`: the close callback of a signal handle runs only when every caught
signal has been read from the pipe (`caught ≤ dispatched`); otherwise the handle goes back into the
closing queue of its loop and nothing else changes. -/
theorem close_waits_for_caught (s : S) (h : Nat) :
    ((s.hs h).dispatched < (s.hs h).caught →
        (finishClose s h).trace = s.trace ∧ ((finishClose s h).hs h).closed = (s.hs h).closed ∧
        h ∈ (finishClose s h).closingQ (s.hs h).loop) ∧
    ((s.hs h).caught ≤ (s.hs h).dispatched →
        (finishClose s h).trace = .close h :: s.trace ∧ ((finishClose s h).hs h).closed = true) := by
  unfold finishClose
  constructor
  · intro hlt; simp [hlt]
  · intro hle
    have : ¬ (s.hs h).caught > (s.hs h).dispatched := by omega
    simp [this]

/-- the deferral does not depend on the handle being referenced (`uv_unref`): `uv__finish_close`
looks only at `caught`/`dispatched`. -/
theorem close_waits_ignores_ref (s : S) (h : Nat) (r : Bool) :
    (finishClose (setRef s h r) h).trace = (finishClose s h).trace ∧
    ((finishClose (setRef s h r) h).hs h).closed = ((finishClose s h).hs h).closed := by
  unfold finishClose setRef
  by_cases c : (s.hs h).caught > (s.hs h).dispatched <;> simp [c]

def w2 : S := runEvs (fun _ => []) (init (fun _ => 0))
  [.op (.start 0 10), .op (.start 1 10), .deliver 10, .op (.close 0), .runClosing 0]
example : w2.trace = [] ∧ w2.closingQ 0 = [0] ∧
    (runLoop (fun _ => []) w2 0).trace = [.close 0, .signal 1 10 0 1 1] := by decide

/-! ## disposition -/

/-- `disposition`, as an equation valid in every reachable state: the kernel disposition of every
signal is the function `expectedDisp` of the set of watchers and of "was the handler run since it was
installed" (DESIGN §3 C13). -/
theorem disposition {s : S} (hr : Reach s) (sig : Nat) :
    s.disp sig = expectedDisp s.tree s.delivered sig := (reach_inv hr).disp sig

/-- no handle watches `sig` ⇒ default disposition ("reverts to the default exactly when the last
watcher stops": together with the next two theorems). -/
theorem disposition_no_watcher {s : S} (hr : Reach s) (sig : Nat) (hn : ∀ h, (s.hs h).signum ≠ sig) :
    s.disp sig = .dflt := by
  have hi := reach_inv hr
  rw [hi.disp sig]
  have a : ∀ k ∈ s.tree, k.sig ≠ sig := by
    intro k hk e; have := (hi.key k hk).1; rw [this] at e; exact hn k.id (by simpa [keyOf] using e)
  have a1 : s.tree.any (fun k => k.sig = sig && !k.os) = false := by
    apply List.any_eq_false.2; intro k hk; simp [a k hk]
  have a2 : s.tree.any (fun k => decide (k.sig = sig)) = false := by
    apply List.any_eq_false.2; intro k hk; simp [a k hk]
  simp [expectedDisp, a1, a2]

/-- a regular (non-one-shot) watcher exists ⇒ libuv's handler is installed without RESETHAND. -/
theorem disposition_regular_watcher {s : S} (hr : Reach s) (sig h : Nat) (h0 : sig ≠ 0)
    (hw : (s.hs h).signum = sig) (ho : (s.hs h).oneshot = false) : s.disp sig = .uv false := by
  have hi := reach_inv hr
  rw [hi.disp sig]
  have hk := hi.started h (by rw [hw]; exact h0)
  have a1 : s.tree.any (fun k => k.sig = sig && !k.os) = true :=
    List.any_eq_true.2 ⟨_, hk, by simp [keyOf, hw, ho]⟩
  simp [expectedDisp, a1]

/-- only one-shot watchers ⇒ libuv's handler with RESETHAND, until a delivery: from then on the kernel
has reset the disposition to default although the one-shot handles are still started (documented
RESETHAND behaviour, DESIGN §5 interpretation (i)); a regular start or the stop of a regular watcher
re-installs the handler (`delivered` is cleared by `register`). -/
theorem disposition_oneshot_only {s : S} (hr : Reach s) (sig h : Nat) (h0 : sig ≠ 0)
    (hw : (s.hs h).signum = sig) (hall : ∀ h', (s.hs h').signum = sig → (s.hs h').oneshot = true) :
    s.disp sig = if s.delivered sig then .dflt else .uv true := by
  have hi := reach_inv hr
  rw [hi.disp sig]
  have hk := hi.started h (by rw [hw]; exact h0)
  have a1 : s.tree.any (fun k => k.sig = sig && !k.os) = false := by
    apply List.any_eq_false.2; intro k hk'
    by_cases e : k.sig = sig
    · have h1 := (hi.key k hk').1
      have : (s.hs k.id).signum = sig := by rw [h1] at e; simpa [keyOf] using e
      have := hall k.id this
      have h2 : k.os = true := by rw [h1]; simpa [keyOf] using this
      simp [h2]
    · simp [e]
  have a2 : s.tree.any (fun k => decide (k.sig = sig)) = true :=
    List.any_eq_true.2 ⟨_, hk, by simp [keyOf, hw]⟩
  simp [expectedDisp, a1, a2]

example : w1.disp 10 = .uv false ∧ (runEvs (fun _ => []) w1 [.op (.stop 1)]).disp 10 = .uv true ∧
    (runEvs (fun _ => []) w1 [.op (.stop 1), .deliver 10]).disp 10 = .dflt ∧
    (runEvs (fun _ => []) w1 [.op (.stop 1), .deliver 10, .op (.start 1 10)]).disp 10 = .uv false := by decide

/-! ## restart -/

/-- `restart_is_fresh_oneshot_bit` (full strength since the L2 fix): starting a stopped handle with
`uv_signal_start` gives a regular handle watching `sig`, whatever its history (and with
`uv_signal_start_oneshot` a one-shot one); the incarnation is new. -/
theorem restart_is_fresh_oneshot_bit (s : S) (h sig : Nat) (os : Bool) (cb : Nat)
    (hstopped : (s.hs h).signum = 0) (hok : (sigStart s h sig os cb).2 = 0) :
    ((sigStart s h sig os cb).1.hs h).oneshot = os ∧ ((sigStart s h sig os cb).1.hs h).signum = sig ∧
    ((sigStart s h sig os cb).1.hs h).gen = (s.hs h).gen + 1 := by
  unfold sigStart at hok ⊢
  split at hok
  · simp at hok
  rename_i hsig
  have hne : ¬ sig = (s.hs h).signum := by rw [hstopped]; exact hsig
  simp only [hsig, hne, ↓reduceIte, sigStop_noop hstopped] at hok ⊢
  revert hok
  cases hf : firstHandle s.tree sig with
  | none =>
    simp only [Bool.true_and]
    by_cases hv : sigValid sig = true
    · simp [hv, register]
    · simp [hv]
  | some f =>
    simp only
    by_cases hv : (!os && f.os && !sigValid sig) = true
    · simp [hv]
    · simp only [hv, Bool.false_eq_true, ↓reduceIte]; intro _; split <;> simp [register]

example : let s := runEvs (fun _ => []) (init (fun _ => 0)) [.op (.oneshot 0 10), .deliver 10, .dispatch 0]
    (s.hs 0).oneshot = true ∧ (s.hs 0).signum = 0 ∧ ((sigStart s 0 12 false 0).1.hs 0).oneshot = false := by decide

/-- **Full statement, FALSE (L10).**  `restart_is_fresh` in the strong sense: every signal callback
is for a signal caught by the *current* incarnation of the handle (a handle restarted after
`uv_signal_stop` gets no callback for a signal delivered before the restart). -/
def restart_is_fresh : Prop :=
  ∀ (loopOf : Nat → Nat) (sc : Script) (evs : List Ev) (h sig L mgen hgen : Nat),
    Cb.signal h sig L mgen hgen ∈ (runEvs sc (init loopOf) evs).trace → mgen = hgen

/-- witness: start h SIGUSR1; deliver; stop h; start h SIGUSR1; dispatch → one callback without a new
signal (replayed on the real library: known finding `stale-signal-msg-after-restart-same-signum`). -/
theorem restart_is_fresh_false : ¬ restart_is_fresh := by
  intro h
  have := h (fun _ => 0) (fun _ => [])
    [.op (.start 0 10), .deliver 10, .op (.stop 0), .op (.start 0 10), .dispatch 0] 0 10 0 1 2 (by decide)
  exact absurd this (by decide)

/-- no message of an earlier incarnation that could be mistaken for a current one -/
def FreshH (s : S) (h : Nat) : Prop :=
  ∀ L, ∀ m ∈ s.pipes L, m.h = h → m.sig = (s.hs h).signum → m.gen = (s.hs h).gen

/-- `restart_is_fresh_partial` (a): a (re)start establishes `FreshH` when no pipe holds a message for
the handle carrying the new signum — in particular when the loop's pipe holds no message for it, or
when the new signum differs from that of every message still in flight. -/
theorem restart_is_fresh_partial_start (s : S) (h sig : Nat) (os : Bool) (cb : Nat)
    (hstopped : (s.hs h).signum = 0) (hok : (sigStart s h sig os cb).2 = 0)
    (hnone : ∀ L, ∀ m ∈ s.pipes L, m.h = h → m.sig ≠ sig) : FreshH (sigStart s h sig os cb).1 h := by
  intro L m hm hmh hms
  rw [(sigStart_frame s h sig os cb).2.1] at hm
  rw [(restart_is_fresh_oneshot_bit s h sig os cb hstopped hok).2.1] at hms
  exact absurd hms (hnone L m hm hmh)

/-- `restart_is_fresh_partial` (b): under `FreshH`, the callback produced for a message is for the
current incarnation.  (Step-level form; the statement over whole event sequences is
`restart_is_fresh_partial` below, proved through the invariant `Aux.fresh`.) -/
theorem restart_is_fresh_partial_dispatch (sc : Script) (s : S) (L : Nat) (m : Msg) (hin : m ∈ s.pipes L)
    (hf : FreshH s m.h) (h sig L' mgen hgen : Nat)
    (hc : Cb.signal h sig L' mgen hgen ∈ (dispatchMsg sc s L m).trace) (hnew : Cb.signal h sig L' mgen hgen ∉ s.trace) :
    mgen = hgen := by
  rw [(dispatch_one_callback sc s L m).1] at hc
  split at hc
  · rename_i hm
    rcases List.mem_append.1 hc with h1 | h1
    · simp only [List.mem_singleton, Cb.signal.injEq] at h1
      obtain ⟨_, _, _, rfl, rfl⟩ := h1
      exact hf L m hin rfl hm
    · exact absurd h1 hnew
  · simp at hc; exact absurd hc hnew

/-- **Full statement, FALSE** (sibling of L10, known finding `stale-signal-msg-stops-restarted-oneshot`):
reading a message of an earlier incarnation does not change whether the handle is watching. -/
def stale_msg_keeps_watching : Prop :=
  ∀ (loopOf : Nat → Nat) (sc : Script) (evs : List Ev) (L : Nat) (m : Msg),
    let s := runEvs sc (init loopOf) evs
    m.gen ≠ (s.hs m.h).gen → ((dispatchMsg sc s L m).hs m.h).signum = (s.hs m.h).signum

theorem stale_msg_keeps_watching_false : ¬ stale_msg_keeps_watching := by
  intro h
  have := h (fun _ => 0) (fun _ => [])
    [.op (.start 0 10), .deliver 10, .op (.stop 0), .op (.oneshot 0 12)] 0 ⟨0, 10, 1⟩ (by decide)
  exact absurd this (by decide)

/-- partial: true for handles whose one-shot flag is clear and a message of another signum. -/
theorem stale_msg_keeps_watching_partial (sc : Script) (s : S) (L : Nat) (m : Msg)
    (hreg : (s.hs m.h).oneshot = false) (hsig : m.sig ≠ (s.hs m.h).signum) :
    ((dispatchMsg sc s L m).hs m.h).signum = (s.hs m.h).signum := by
  unfold dispatchMsg; simp [hsig, hreg]

/-- **Full statement, FALSE** (known finding `oneshot-restarted-in-own-callback-stopped`): a handle
that stops itself and starts again one-shot on another signal inside its own callback is watching
that signal when the callback has returned. -/
def own_callback_restart_survives : Prop :=
  ∀ (loopOf : Nat → Nat) (evs : List Ev) (L : Nat) (m : Msg) (sig' : Nat),
    let sc : Script := fun _ => [.stop m.h, .oneshot m.h sig']
    let s := runEvs sc (init loopOf) evs
    m.sig = (s.hs m.h).signum → m.sig ≠ 0 → sigValid sig' = true → (s.hs m.h).closing = false →
    ((dispatchMsg sc s L m).hs m.h).signum = sig'

theorem own_callback_restart_survives_false : ¬ own_callback_restart_survives := by
  intro h
  have := h (fun _ => 0) [.op (.oneshot 0 10), .deliver 10] 0 ⟨0, 10, 1⟩ 12 (by decide) (by decide) (by decide) (by decide)
  exact absurd this (by decide)

/-- partial: whatever the callback did, if the handle's one-shot flag is clear when the callback has
returned (e.g. it restarted itself in regular mode) `uv__signal_event` does not stop it. -/
theorem own_callback_restart_survives_partial (sc : Script) (s : S) (L : Nat) (m : Msg)
    (hreg : ((dispatchMsg sc s L m).hs m.h).oneshot = false) (hm : m.sig = (s.hs m.h).signum) :
    ((dispatchMsg sc s L m).hs m.h).signum =
      ((runOps { s with trace := .signal m.h m.sig L m.gen (s.hs m.h).gen :: s.trace, ncb := s.ncb + 1, cbLog := (s.hs m.h).cb :: s.cbLog } (sc s.ncb)).hs m.h).signum := by
  unfold dispatchMsg at hreg ⊢
  simp only [hm, ↓reduceIte] at hreg ⊢
  split
  · rename_i hos
    simp only [hos, ↓reduceIte] at hreg
    have := sigStop_signum
    -- the one-shot branch ends in sigStop, whose result keeps the flag: contradiction with hreg
    exfalso
    revert hreg
    generalize (runOps _ _) = s1 at hos ⊢
    intro hreg
    by_cases e : (({ s1 with hs := upd s1.hs m.h { s1.hs m.h with dispatched := (s1.hs m.h).dispatched + 1 } } : S).hs m.h).signum = 0
    · rw [sigStop_noop e] at hreg; rw [hreg] at hos; simp at hos
    · have hhs : ∀ s2 : S, (s2.hs m.h).signum ≠ 0 → (sigStop s2 m.h).hs = upd s2.hs m.h { s2.hs m.h with signum := 0 } := by
        intro s2 e2; simp only [sigStop, e2, ↓reduceIte]; split <;> (try split) <;> rfl
      rw [hhs _ e] at hreg; simp at hreg hos; rw [hreg] at hos; simp at hos
  · simp


/-! ## end-to-end statements over reachable states (second invariant `Aux`) -/

theorem reach_aux {s : S} (h : Reach s) : Aux s := by
  obtain ⟨lo, sc, evs, rfl⟩ := h; exact aux_runEvs sc evs (inv_init lo) (aux_init lo)

theorem targets_count {s : S} (hr : Reach s) (sig h : Nat) :
    (handlerTargets s.tree sig).countP (fun k => k.id = h) =
      if (s.hs h).signum = sig ∧ sig ≠ 0 then 1 else 0 := by
  have hv := fanout_visits hr sig
  rw [countP_id_nodup _ hv.1 (keyOf h (s.hs h)) h rfl]
  · have := hv.2 (keyOf h (s.hs h))
    by_cases c : (s.hs h).signum = sig ∧ sig ≠ 0
    · rw [if_pos c, if_pos (this.2 ⟨rfl, c.1, c.2⟩)]
    · rw [if_neg c, if_neg (fun hin => c ⟨(this.1 hin).2.1, (this.1 hin).2.2⟩)]
  · intro k hk e
    have := ((hv.2 k).1 hk).1
    rw [e] at this; exact this

/-- **`fanout`, end to end.**  In every reachable state, a delivery of `sig` while libuv's handler is
installed (a) bumps `caught` of every handle watching `sig` by exactly 1 and of no other handle,
(b) adds exactly one message for each such handle to the pipe of that handle's own loop — and no
message for anybody else, on any loop —, (c) all added messages carry `sig`.  `hroom` is the envelope of
the property text: every self-pipe has room for the messages of this delivery (however many are pending:
up to `pipeCap` = 4096 per loop).  Outside the envelope messages are dropped uncounted, and both
invariants — hence `closed_no_message`, `disposition`, … — still hold (`reach_inv`, `reach_aux`). -/
theorem fanout {s : S} (hr : Reach s) (sig : Nat) (r : Bool) (hd : s.disp sig = .uv r)
    (hroom : ∀ L, (s.pipes L).length + (handlerTargets s.tree sig).length ≤ pipeCap) :
    (∀ h, ((deliver s sig).hs h).caught =
        (s.hs h).caught + (if (s.hs h).signum = sig ∧ sig ≠ 0 then 1 else 0)) ∧
    (∀ L h, cntFor (deliver s sig) L h =
        cntFor s L h + (if ((s.hs h).signum = sig ∧ sig ≠ 0) ∧ (s.hs h).loop = L then 1 else 0)) ∧
    (∀ L, ∃ added, (deliver s sig).pipes L = s.pipes L ++ added ∧ ∀ m ∈ added, m.sig = sig) := by
  obtain ⟨s0, he, ht, hh, hp⟩ := fanout_deliver sig r hd
  rw [foldl_enqueueCap_eq sig _ s0 (by rw [hp]; exact hroom)] at he
  refine ⟨?_, ?_, ?_⟩
  · intro h; rw [he, foldl_enqueue_caught, hh, targets_count hr]
  · intro L h
    unfold cntFor
    rw [he, foldl_enqueue_pipes, hp, hh, List.countP_append, List.countP_map, List.countP_filter]
    congr 1
    by_cases eL : (s.hs h).loop = L
    · have hite : (if ((s.hs h).signum = sig ∧ sig ≠ 0) ∧ (s.hs h).loop = L then 1 else 0) =
          (if (s.hs h).signum = sig ∧ sig ≠ 0 then 1 else 0) := by
        by_cases c : (s.hs h).signum = sig ∧ sig ≠ 0
        · rw [if_pos c, if_pos ⟨c, eL⟩]
        · rw [if_neg c, if_neg (fun c2 => c c2.1)]
      rw [hite, ← targets_count hr sig h]
      apply List.countP_congr
      intro k _; simp only [Function.comp, Bool.and_eq_true, decide_eq_true_eq]
      constructor
      · exact fun h1 => h1.1
      · intro h1; exact ⟨h1, by rw [h1]; exact eL⟩
    · rw [if_neg (fun c => eL c.2)]
      apply List.countP_eq_zero.2
      intro k _; simp only [Function.comp, Bool.and_eq_true, decide_eq_true_eq]
      intro h1; apply eL; rw [← h1.1]; exact h1.2
  · intro L; refine ⟨_, by rw [he, foldl_enqueue_pipes, hp], ?_⟩
    intro m hm; simp only [List.mem_map] at hm; obtain ⟨k, _, rfl⟩ := hm; rfl

example : cntFor w1 0 0 = 2 ∧ cntFor w1 0 2 = 2 ∧ cntFor w1 1 1 = 2 ∧ cntFor w1 0 1 = 0 ∧ w1.disp 10 = .uv false := by decide

/-- **`close_waits_for_caught`, reachable-state version.**  Once the close callback of a handle has
run, no pipe of any loop holds a message naming that handle (so no later `uv__signal_event` can touch
the freed memory), and every signal caught for it was counted as dispatched first. -/
theorem closed_no_message {s : S} (hr : Reach s) (h : Nat) (hc : (s.hs h).closed = true) :
    (∀ L, ∀ m ∈ s.pipes L, m.h ≠ h) ∧ (s.hs h).caught = (s.hs h).dispatched := by
  have ha := reach_aux hr
  have h0 := (ha.closedDone h hc).1
  simp only [Nat.add_zero] at h0
  refine ⟨?_, by have := ha.cnt h; omega⟩
  intro L m hm e
  have hl := (ha.own L m hm).1
  rw [e] at hl; subst hl
  unfold cntFor at h0
  have := List.countP_eq_zero.1 h0 m hm
  simp [e] at this

/-- the close callback is reported exactly when `closed` is set; never for a handle with a pending
message: messages in any pipe belong to handles that are not closed. -/
theorem message_handle_not_closed {s : S} (hr : Reach s) (L : Nat) (m : Msg) (hm : m ∈ s.pipes L) :
    (s.hs m.h).closed = false ∧ (s.hs m.h).loop = L ∧ m.sig ≠ 0 := by
  have ha := reach_aux hr
  refine ⟨?_, (ha.own L m hm).1, (ha.own L m hm).2⟩
  cases hc : (s.hs m.h).closed
  · rfl
  · exact absurd rfl ((closed_no_message hr m.h hc).1 L m hm)

example : (runLoop (fun _ => []) w2 0).pipes 0 = [] ∧ ((runLoop (fun _ => []) w2 0).hs 0).closed = true ∧
    (w2.hs 0).closed = false ∧ (w2.pipes 0).length = 2 := by decide

/-- **`restart_is_fresh_partial`, over event sequences.**  For every event sequence, callback script
and loop assignment: if no `uv_signal_start`/`uv_signal_start_oneshot` was ever performed (by the
program or by a callback) at a moment when the pipe of the handle's loop held a message for that
handle with the signum being started — that is exactly what the ghost flag `stale` records, see
`sigStart_stale` — then every signal callback of the run was for a signal caught by the incarnation
of the handle that received it.  (The full statement `restart_is_fresh` drops the hypothesis and is
false: `restart_is_fresh_false`.) -/
theorem restart_is_fresh_partial (loopOf : Nat → Nat) (sc : Script) (evs : List Ev)
    (hclean : (runEvs sc (init loopOf) evs).stale = false) (h sig L mgen hgen : Nat)
    (hcb : Cb.signal h sig L mgen hgen ∈ (runEvs sc (init loopOf) evs).trace) : mgen = hgen :=
  ((reach_aux ⟨loopOf, sc, evs, rfl⟩).fresh hclean).2 h sig L mgen hgen hcb

/-- what sets `stale`: only a start that goes past the short-circuit while a message for the handle
with the same signum is pending in its loop's pipe. -/
theorem sigStart_stale (s : S) (h sig : Nat) (os : Bool) (cb : Nat) (hst : (sigStart s h sig os cb).1.stale = true) :
    s.stale = true ∨ pendingSame (sigStop s h) h sig = true := by
  have hs := (sigStop_fields s h).2.2.2.2
  rcases sigStart_shape s h sig os cb with e | e | e | ⟨tr, d', dl', e⟩
  · rw [e] at hst; exact Or.inl hst
  · rw [e] at hst; exact Or.inl hst
  · rw [e, hs] at hst; exact Or.inl hst
  · rw [e] at hst; simp only [Bool.or_eq_true] at hst; rw [hs] at hst; exact hst

/-- and in a clean state with the loop's pipe free of messages for `h` carrying `sig` (in particular:
empty pipe, or a different signum) a start keeps the run clean. -/
theorem sigStart_keeps_clean (s : S) (h sig : Nat) (os : Bool) (cb : Nat) (hclean : s.stale = false)
    (hnone : ∀ m ∈ s.pipes (s.hs h).loop, m.h = h → m.sig ≠ sig) : (sigStart s h sig os cb).1.stale = false := by
  cases hst : (sigStart s h sig os cb).1.stale
  · rfl
  · exfalso
    rcases sigStart_stale s h sig os cb hst with h1 | h1
    · rw [hclean] at h1; exact absurd h1 (by simp)
    · unfold pendingSame at h1
      rw [(sigStop_fields s h).2.1] at h1
      have hl : ((sigStop s h).hs h).loop = (s.hs h).loop := by
        by_cases e : (s.hs h).signum = 0
        · rw [sigStop_noop e]
        · rw [sigStop_hs e]; simp
      rw [hl] at h1
      obtain ⟨m, hm, hp⟩ := List.any_eq_true.1 h1
      simp only [Bool.and_eq_true, decide_eq_true_eq] at hp
      exact hnone m hm hp.1 hp.2

example : (runEvs (fun _ => []) (init (fun _ => 0))
    [.op (.start 0 10), .deliver 10, .op (.stop 0), .op (.start 0 12), .dispatch 0, .op (.start 0 10), .deliver 10, .dispatch 0]).stale = false := by decide
example : (runEvs (fun _ => []) (init (fun _ => 0))
    [.op (.start 0 10), .deliver 10, .op (.stop 0), .op (.start 0 10)]).stale = true := by decide


/-! ## callback identity -/

/-- every successful `uv_signal_start` / `uv_signal_start_oneshot` installs the callback it was given —
also on the "already watching this signum" short-circuit, which changes nothing else (the handle keeps
its signum, its one-shot mode and its incarnation). -/
theorem start_stores_callback (s : S) (h sig : Nat) (os : Bool) (cb : Nat)
    (hok : (sigStart s h sig os cb).2 = 0) : ((sigStart s h sig os cb).1.hs h).cb = cb := by
  by_cases hsame : sig = (s.hs h).signum
  · unfold sigStart at hok ⊢
    split
    · rename_i h0; simp [h0] at hok
    · simp [hsame, setCb]
  · unfold sigStart at hok ⊢
    split
    · rename_i h0; simp [h0] at hok
    rename_i hsig
    simp only [hsig, hsame, ↓reduceIte] at hok ⊢
    generalize sigStop s h = s1 at hok ⊢
    revert hok
    cases hf : firstHandle s1.tree sig with
    | none =>
      simp only [Bool.true_and]
      by_cases hv : sigValid sig = true
      · simp [hv, register]
      · simp [hv]
    | some f =>
      simp only
      by_cases hv : (!os && f.os && !sigValid sig) = true
      · simp [hv]
      · simp only [hv, Bool.false_eq_true, ↓reduceIte]; intro _; split <;> simp [register]

theorem restart_same_signum_only_callback (s : S) (h sig : Nat) (os : Bool) (cb : Nat)
    (hsig : sig ≠ 0) (hsame : sig = (s.hs h).signum) :
    (sigStart s h sig os cb) = (setCb s h cb, 0) := by
  unfold sigStart; rw [if_neg hsig, if_pos hsame]

/-- `uv__signal_event` invokes the callback that is installed at that moment: the id logged for a
dispatched message is the handle's current `cb`. -/
theorem dispatch_runs_current_callback (sc : Script) (s : S) (L : Nat) (m : Msg)
    (hm : m.sig = (s.hs m.h).signum) :
    (dispatchMsg sc s L m).cbLog = (s.hs m.h).cb :: s.cbLog := by
  have hstop : ∀ (s2 : S) (h : Nat), (sigStop s2 h).cbLog = s2.cbLog := by
    intro s2 h; unfold sigStop; simp only; split
    · rfl
    · split <;> (try split) <;> rfl
  have hstart : ∀ (s2 : S) (h sig : Nat) (os : Bool) (cb : Nat), (sigStart s2 h sig os cb).1.cbLog = s2.cbLog := by
    intro s2 h sig os cb
    rcases sigStart_shape s2 h sig os cb with e | e | e | ⟨tr, d', dl', e⟩
    · rw [e]
    · rw [e]; rfl
    · rw [e]; exact hstop s2 h
    · rw [e]; exact hstop s2 h
  have hop : ∀ (s2 : S) (o : Op), (applyOp s2 o).1.cbLog = s2.cbLog := by
    intro s2 o
    cases o <;> simp only [applyOp] <;> split <;> (try rfl)
    · exact hstart _ _ _ _ _
    · exact hstart _ _ _ _ _
    · exact hstop _ _
    · exact hstop _ _
  have hops : ∀ (os : List Op) (s2 : S), (runOps s2 os).cbLog = s2.cbLog := by
    intro os; induction os with
    | nil => intro s2; rfl
    | cons o os ih => intro s2; exact (ih _).trans (hop s2 o)
  unfold dispatchMsg
  simp only [hm, ↓reduceIte]
  have h1 := hops (sc s.ncb) { s with trace := .signal m.h (s.hs m.h).signum L m.gen (s.hs m.h).gen :: s.trace, ncb := s.ncb + 1, cbLog := (s.hs m.h).cb :: s.cbLog }
  generalize runOps { s with trace := .signal m.h (s.hs m.h).signum L m.gen (s.hs m.h).gen :: s.trace, ncb := s.ncb + 1, cbLog := (s.hs m.h).cb :: s.cbLog } (sc s.ncb) = s1 at h1
  split
  · rw [hstop]; exact h1
  · exact h1

example : (runEvs (fun _ => []) (init (fun _ => 0))
    [.op (.start 0 10 0), .op (.start 0 10 1), .deliver 10, .dispatch 0, .op (.oneshot 0 10 2), .deliver 10, .dispatch 0]).cbLog = [2, 1] := by
  decide

end UvModel.Props.C13
