import UvModel.StreamR
import UvModel.Lemmas.StreamRLemmas
/-! C06 — stream reads.  Every theorem is about `exec u (start ipc) ops`: any main program `ops`
    (uv_read_start/stop, uv_close, loop iterations with arbitrary epoll events and arbitrary
    read(2) outcome lists, peer writes / shutdown), any user `u` (alloc_cb sizes or refusals per
    call, read_cb scripts of stop/start/close per call).  Events in the trace: see `StreamR.Ev`. -/
namespace UvModel.Props.C06
open UvModel.StreamR

def EOFcb (e : Ev) : Prop := ∃ buf b, e = .readCb UV_EOF buf b
/-- a read_cb that reports a read error (negative nread other than the UV_ENOBUFS of a refusal) or UV_EOF -/
def EndCb (e : Ev) : Prop := ∃ n buf b, e = .readCb n buf b ∧ n < 0 ∧ n ≠ UV_ENOBUFS
def StopEv (e : Ev) : Prop := EndCb e ∨ e = .ret .stop 0 ∨ e = .ret .close 0
def IsCb (e : Ev) : Prop := (∃ id sz, e = .alloc id sz) ∨ (∃ n buf b, e = .readCb n buf b)

/-- Conservation: at any time, what the peer wrote = what read_cb received (in callback order)
    followed by what is still in the kernel buffer.  Nothing lost, duplicated or reordered, for every
    alloc size sequence, stop/start pattern, chunking, EAGAIN/EINTR/short-read schedule. -/
theorem delivered_is_prefix_in_order (u : User) (ipc : Bool) (ops : List Op) :
    sent (exec u (start ipc) ops).trace = delivered (exec u (start ipc) ops).trace ++ (exec u (start ipc) ops).kbuf := by
  have h := coupled_exec (syn := false) u ops (start ipc) (coupled_start ipc) (by intro h; cases h)
  have := h.cons
  rwa [mon_sent, mon_deliv] at this

theorem delivered_prefix (u : User) (ipc : Bool) (ops : List Op) :
    delivered (exec u (start ipc) ops).trace <+: sent (exec u (start ipc) ops).trace :=
  ⟨_, (delivered_is_prefix_in_order u ipc ops).symm⟩

/-- When UV_EOF is reported with an alloc'd buffer (read(2) returned 0), the peer had shut down
    and everything it wrote had already been delivered. -/
theorem delivered_all_at_eof (u : User) (ipc : Bool) (ops : List Op) (pre post : List Ev) (id : Nat) (b : List Byte)
    (hs : (exec u (start ipc) ops).trace = pre ++ .readCb UV_EOF (some id) b :: post) :
    delivered pre = sent pre ∧ Ev.peerShut ∈ pre := by
  have h := (coupled_exec (syn := false) u ops (start ipc) (coupled_start ipc) (by intro h; cases h)).okEof
  rw [hs, mon_split] at h
  have h1 := fold_okEof _ _ h
  simp [Mon.step, mon_deliv, mon_sent] at h1
  refine ⟨h1.2.1, ?_⟩
  have := fold_shut pre {} (by simpa [mon] using h1.2.2)
  simpa using this

/-- Every alloc_cb is immediately followed by the read_cb that carries its buffer
    (whatever nread is: data, 0, UV_ENOBUFS, error, UV_EOF). -/
theorem alloc_paired (u : User) (ipc : Bool) (ops : List Op) (pre post : List Ev) (id sz : Nat)
    (hs : (exec u (start ipc) ops).trace = pre ++ .alloc id sz :: post) :
    ∃ n bytes post', post = .readCb n (some id) bytes :: post' := by
  have hc := coupled_exec (syn := false) u ops (start ipc) (coupled_start ipc) (by intro h; cases h)
  have h := hc.okPair
  have hp := hc.pend
  rw [hs, mon_split] at h hp
  cases post with
  | nil => simp [Mon.step] at hp
  | cons e post' =>
    simp only [List.foldl_cons] at h
    have h1 := fold_okPair _ _ h
    cases e <;> simp [Mon.step] at h1
    case readCb n buf bytes => exact ⟨n, bytes, post', by rw [h1.2]⟩

/-- alloc ids are the call numbers 0,1,2,… (`allocCount pre` = alloc_cb calls so far): no buffer id is handed out twice -/
theorem alloc_ids_fresh (u : User) (ipc : Bool) (ops : List Op) (pre post : List Ev) (id sz : Nat)
    (hs : (exec u (start ipc) ops).trace = pre ++ .alloc id sz :: post) : id = allocCount pre := by
  have h := (coupled_exec (syn := false) u ops (start ipc) (coupled_start ipc) (by intro h; cases h)).okPair
  rw [hs, mon_split] at h
  have h1 := fold_okPair _ _ h
  simp [Mon.step] at h1
  rw [h1.2]
  simpa [mon] using fold_nAl pre {}

/-- …and a read_cb carries an alloc'd buffer only directly after that alloc_cb: with `alloc_paired`
    and `alloc_ids_fresh`, each buffer is handed back exactly once. -/
theorem readcb_buffer_from_preceding_alloc (u : User) (ipc : Bool) (ops : List Op) (pre post : List Ev) (n : Int) (id : Nat)
    (b : List Byte) (hs : (exec u (start ipc) ops).trace = pre ++ .readCb n (some id) b :: post) :
    ∃ pre' sz, pre = pre' ++ [.alloc id sz] := by
  have h := (coupled_exec (syn := false) u ops (start ipc) (coupled_start ipc) (by intro h; cases h)).okPair
  rw [hs, mon_split] at h
  have h1 := fold_okPair _ _ h
  rcases List.eq_nil_or_concat pre with hp | ⟨pre', e, hp⟩
  · subst hp; simp [Mon.step, mon] at h1
  · subst hp
    rw [List.concat_eq_append] at h1 ⊢
    rw [mon_snoc] at h1
    cases e <;> simp [Mon.step] at h1
    case alloc id' sz' => exact ⟨pre', sz', by rw [h1.2]⟩
    all_goals (obtain ⟨⟨h2, h3⟩, h4⟩ := h1; rw [h3] at h4; simp at h4)

/-- After UV_EOF, a read error, uv_read_stop or uv_close, no alloc_cb / read_cb happens until a
    uv_read_start succeeds. -/
theorem quiet_after_eof_error_stop (u : User) (ipc : Bool) (ops : List Op) (pre mid post : List Ev) (q c : Ev)
    (hs : (exec u (start ipc) ops).trace = pre ++ q :: (mid ++ c :: post)) (hq : StopEv q) (hcb : IsCb c) :
    Ev.ret .start 0 ∈ mid := by
  have h := (coupled_exec (syn := false) u ops (start ipc) (coupled_start ipc) (by intro h; cases h)).okQuiet
  rw [hs, mon_split, List.foldl_append, List.foldl_cons] at h
  have h1 := fold_okQuiet _ _ h
  have hq1 : ((mon pre).step q).quiet = true := by
    rcases hq with ⟨n, buf, b, rfl, hn, hne⟩ | rfl | rfl
    · simp [Mon.step, quieting, hn, hne]
    · simp [Mon.step]
    · simp [Mon.step]
  have hq2 : (mid.foldl Mon.step ((mon pre).step q)).quiet = false := by
    rcases hcb with ⟨id, sz, rfl⟩ | ⟨n, buf, b, rfl⟩ <;> simp [Mon.step] at h1 <;> exact h1.2
  exact fold_quiet mid _ hq1 hq2

/-- UV_EOF is reported at most once per reading session: between two UV_EOF callbacks the user
    restarted reading (and by `delivered_all_at_eof` it comes only after all data). -/
theorem eof_once_after_data (u : User) (ipc : Bool) (ops : List Op) (pre mid post : List Ev) (e1 e2 : Ev)
    (hs : (exec u (start ipc) ops).trace = pre ++ e1 :: (mid ++ e2 :: post)) (h1 : EOFcb e1) (h2 : EOFcb e2) :
    Ev.ret .start 0 ∈ mid := by
  obtain ⟨buf1, b1, rfl⟩ := h1
  obtain ⟨buf2, b2, rfl⟩ := h2
  exact quiet_after_eof_error_stop u ipc ops pre mid post _ _ hs
    (Or.inl ⟨_, _, _, rfl, by decide, by decide⟩) (Or.inr ⟨_, _, _, rfl⟩)

/-- At most 32 alloc_cb/read_cb rounds per loop iteration (`nAlloc` counts alloc_cb calls), whatever
    the buffer sizes, however much data is pending, whatever the callbacks do. -/
theorem iteration_bound (u : User) (s : St) (ev : PollEv) (reads : List Outcome) :
    (stepOp u s (.poll ev reads)).nAlloc ≤ s.nAlloc + 32 :=
  poll_nAlloc u s ev reads

/-- Hang-up with data still buffered (trace level, full statement).  uv__stream_io reports the synthetic
    UV_EOF (`readCb UV_EOF none`, no buffer) on POLLHUP only after uv__read left READ_PARTIAL set.
    Environment condition `EnvOK` for the read outcomes of every loop iteration: the stream is an IPC
    pipe (no condition at all on the kernel: READ_PARTIAL is never set there, so short reads at
    descriptor-message boundaries are harmless), or the kernel hands over min(buffer, available) bytes
    on every successful read (`NoShort K`: scripted `ok k` have k ≥ K ≥ every buffer size; EAGAIN,
    EINTR and errors are unrestricted).  Then at every synthetic EOF everything the peer wrote has
    been delivered: data still buffered at hang-up is never lost. -/
theorem hup_with_data_not_lost (u : User) (ipc : Bool) (ops : List Op) (K : Nat)
    (henv : ∀ ev reads, Op.poll ev reads ∈ ops → EnvOK u K ipc reads)
    (pre post : List Ev) (b : List Byte)
    (hs : (exec u (start ipc) ops).trace = pre ++ .readCb UV_EOF none b :: post) :
    delivered pre = sent pre := by
  have hok : OpsOK u ipc ops := fun ev reads hm => pollOK_of_envOK u K ipc reads (henv ev reads hm)
  have h := (coupled_exec (syn := true) u ops (start ipc) (coupled_start ipc) (fun _ => hok)).okSyn rfl
  rw [hs, mon_split] at h
  have h1 := fold_okSyn _ _ h
  simp [Mon.step, mon_deliv, mon_sent] at h1
  exact h1.2

/-- for IPC pipes the statement needs no assumption on the kernel's read results -/
theorem hup_with_data_not_lost_ipc (u : User) (ops : List Op) (pre post : List Ev) (b : List Byte)
    (hs : (exec u (start true) ops).trace = pre ++ .readCb UV_EOF none b :: post) :
    delivered pre = sent pre :=
  hup_with_data_not_lost u true ops 0 (fun _ _ _ => Or.inl rfl) pre post b hs

/-- step level, any state: READ_PARTIAL after uv__read implies an empty kernel buffer and a non-IPC stream -/
theorem read_partial_implies_drained (u : User) (K : Nat) (s : St) (H : EnvOK u K s.ipc s.oracle)
    (h : (uvRead u s).readPartial = true) : (uvRead u s).kbuf = [] ∧ s.ipc = false :=
  partial_implies_drained u K s H h

/-- Without the kernel assumption the statement is false of the code: a short read that leaves data
    behind (here 2 of 3 bytes into a 10-byte buffer) followed by POLLHUP makes uv__stream_io report
    UV_EOF while a byte is still unread.  Linux produces such reads at the boundary of
    descriptor-carrying messages; that was the IPC data-loss defect (fixed: IPC pipes no longer set
    READ_PARTIAL; `hup_with_data_not_lost_ipc`), replayed on the real library by corpus/C06/ipc-fd-msg-then-data-then-close.txt. -/
def uLoss : User := { allocS := fun _ => 10, cbS := fun _ => [] }
def opsLoss : List Op := [.start, .peerW [1, 2, 3], .peerShut, .poll { inn := true, hup := true } [.ok 2]]

theorem short_read_then_hup_loses_data :
    ∃ pre b, (exec uLoss (start false) opsLoss).trace = pre ++ [.readCb UV_EOF none b] ∧ delivered pre ≠ sent pre :=
  ⟨[.ret .start 0, .peerW [1, 2, 3], .peerShut, .alloc 0 10, .readCb 2 (some 0) [1, 2]], [], by decide, by decide⟩

/-! Non-vacuity: a concrete run that contains every kind of event the theorems speak about (data,
    refusal → UV_ENOBUFS, EINTR retry, EAGAIN → read_cb(0) with stop+start inside the callback, a short
    read, the synthetic EOF on POLLHUP, uv_read_stop), so each hypothesis `trace = pre ++ e :: post`
    above is satisfiable. -/
def uEx : User := { allocS := fun k => if k = 1 then 0 else 2, cbS := fun k => if k = 2 then [.stop, .start] else [] }
def opsEx : List Op := [.start, .peerW [7, 8, 9], .poll { inn := true } [.eintr, .ok 2], .peerShut,
  .poll { inn := true } [.eagain], .poll { inn := true, hup := true } [.ok 1, .ok 0], .stop, .poll { hup := true } []]

example : (exec uEx (start false) opsEx).trace =
    [.ret .start 0, .peerW [7, 8, 9], .alloc 0 2, .readCb 2 (some 0) [7, 8], .alloc 1 0, .readCb (-105) (some 1) [],
     .peerShut, .alloc 2 2, .readCb 0 (some 2) [], .ret .stop 0, .ret .start 0, .alloc 3 2, .readCb 1 (some 3) [9],
     .readCb (-4095) none [], .ret .stop 0] := by decide

/-- a read-0 EOF after all data, then restart and a second EOF (instance of `eof_once_after_data`, `delivered_all_at_eof`) -/
example : (exec { allocS := fun _ => 4, cbS := fun k => if k = 1 then [.start] else [] } (start false)
      [.start, .peerW [5, 6], .peerShut, .poll { inn := true } [], .poll { inn := true } [], .poll { inn := true } []]).trace =
    [.ret .start 0, .peerW [5, 6], .peerShut, .alloc 0 4, .readCb 2 (some 0) [5, 6], .alloc 1 4, .readCb (-4095) (some 1) [],
     .ret .start 0, .alloc 2 4, .readCb (-4095) (some 2) []] := by decide

/-- hypotheses of `read_partial_implies_drained` are satisfiable with READ_PARTIAL set -/
example : NoShort 4 [Outcome.eintr, .ok 9] ∧
    (uvRead { allocS := fun _ => 4, cbS := fun _ => [] }
      { reading := true, hasCb := true, pollin := true, kbuf := [1, 2], oracle := [.eintr, .ok 9] }).readPartial = true := by
  constructor
  · intro o ho k hk; subst hk; simp at ho; omega
  · decide

/-- 32 rounds are reached: 40 pending bytes, 1-byte buffers -/
example : (stepOp { allocS := fun _ => 1, cbS := fun _ => [] }
      { reading := true, hasCb := true, pollin := true, kbuf := List.replicate 40 0 } (.poll { inn := true } [])).nAlloc = 32 := by
  decide

/-- `hup_with_data_not_lost` is not vacuous: a run satisfying `EnvOK` (natural reads, buffers ≤ 4) that ends
    in the synthetic EOF after the buffered data -/
example : (exec { allocS := fun _ => 4, cbS := fun _ => [] } (start false)
      [.start, .peerW [5, 6], .peerShut, .poll { inn := true, hup := true } [.eintr, .ok 9]]).trace =
    [.ret .start 0, .peerW [5, 6], .peerShut, .alloc 0 4, .readCb 2 (some 0) [5, 6], .readCb (-4095) none []] := by decide

/-- IPC pipe: short reads at message boundaries (`ok 2` of 3 bytes) and POLLHUP: no synthetic EOF, the data
    arrives on the next iteration and EOF comes from read returning 0 -/
example : (exec { allocS := fun _ => 8, cbS := fun _ => [] } (start true)
      [.start, .peerW [1, 2, 3], .peerShut, .poll { inn := true, hup := true } [.ok 2],
       .poll { inn := true, hup := true } [], .poll { inn := true, hup := true } []]).trace =
    [.ret .start 0, .peerW [1, 2, 3], .peerShut, .alloc 0 8, .readCb 2 (some 0) [1, 2], .alloc 1 8, .readCb 1 (some 1) [3],
     .alloc 2 8, .readCb (-4095) (some 2) []] := by decide

end UvModel.Props.C06
