import UvModel.StreamR
import UvModel.Lemmas.StreamRLemmas
/-! C06 — stream reads.  Every theorem is about `exec u init ops`: any main program `ops`
    (uv_read_start/stop, uv_close, loop iterations with arbitrary epoll events and arbitrary
    read(2) outcome lists, peer writes / shutdown), any user `u` (alloc_cb sizes or refusals per
    call, read_cb scripts of stop/start/close per call).  Events in the trace: see `StreamR.Ev`. -/
namespace UvModel.Props.C06
open UvModel.StreamR

def EOFcb (e : Ev) : Prop := ∃ buf b, e = .readCb UV_EOF buf b
/-- a read_cb that reports a read error (negative nread other than the UV_ENOBUFS of a refusal) or UV_EOF -/
def EndCb (e : Ev) : Prop := ∃ n buf b, e = .readCb n buf b ∧ n < 0 ∧ n ≠ UV_ENOBUFS
def StopEv (e : Ev) : Prop := EndCb e ∨ e = .ret .stop 0 ∨ e = .ret .close 0
def IsCb (e : Ev) : Prop := (∃ id sz, e = .alloc id sz) ∨ (∃ n buf b, e = .readCb n buf b)

/-- Conservation: at any time, what the peer wrote = what read_cb received (in callback order)
    followed by what is still in the kernel buffer.  Nothing lost, duplicated or reordered, for every
    alloc size sequence, stop/start pattern, chunking, EAGAIN/EINTR/short-read schedule. -/
theorem delivered_is_prefix_in_order (u : User) (ops : List Op) :
    sent (exec u init ops).trace = delivered (exec u init ops).trace ++ (exec u init ops).kbuf := by
  have h := coupled_exec u ops init coupled_init
  have := h.cons
  rwa [mon_sent, mon_deliv] at this

theorem delivered_prefix (u : User) (ops : List Op) :
    delivered (exec u init ops).trace <+: sent (exec u init ops).trace :=
  ⟨_, (delivered_is_prefix_in_order u ops).symm⟩

/-- When UV_EOF is reported with an alloc'd buffer (read(2) returned 0), the peer had shut down
    and everything it wrote had already been delivered. -/
theorem delivered_all_at_eof (u : User) (ops : List Op) (pre post : List Ev) (id : Nat) (b : List Byte)
    (hs : (exec u init ops).trace = pre ++ .readCb UV_EOF (some id) b :: post) :
    delivered pre = sent pre ∧ Ev.peerShut ∈ pre := by
  have h := (coupled_exec u ops init coupled_init).okEof
  rw [hs, mon_split] at h
  have h1 := fold_okEof _ _ h
  simp [Mon.step, mon_deliv, mon_sent] at h1
  refine ⟨h1.2.1, ?_⟩
  have := fold_shut pre {} (by simpa [mon] using h1.2.2)
  simpa using this

/-- Every alloc_cb is immediately followed by the read_cb that carries its buffer
    (whatever nread is: data, 0, UV_ENOBUFS, error, UV_EOF). -/
theorem alloc_paired (u : User) (ops : List Op) (pre post : List Ev) (id sz : Nat)
    (hs : (exec u init ops).trace = pre ++ .alloc id sz :: post) :
    ∃ n bytes post', post = .readCb n (some id) bytes :: post' := by
  have hc := coupled_exec u ops init coupled_init
  have h := hc.okPair
  have hp := hc.pend
  rw [hs, mon_split] at h hp
  cases post with
  | nil => simp [Mon.step] at hp
  | cons e post' =>
    simp only [List.foldl_cons] at h
    have h1 := fold_okPair _ _ h
    cases e <;> simp [Mon.step] at h1
    case readCb n buf bytes => exact ⟨n, bytes, post', by rw [h1.2]⟩

/-- alloc ids are the call numbers 0,1,2,…: no buffer id is handed out twice -/
def allocCount : List Ev → Nat
  | [] => 0
  | .alloc _ _ :: t => allocCount t + 1
  | _ :: t => allocCount t

theorem fold_nAl (l : List Ev) : ∀ m : Mon, (l.foldl Mon.step m).nAl = m.nAl + allocCount l := by
  induction l with
  | nil => intro m; simp [allocCount]
  | cons e t ih => intro m; cases e <;> simp [ih, Mon.step, allocCount] <;> omega

theorem alloc_ids_fresh (u : User) (ops : List Op) (pre post : List Ev) (id sz : Nat)
    (hs : (exec u init ops).trace = pre ++ .alloc id sz :: post) : id = allocCount pre := by
  have h := (coupled_exec u ops init coupled_init).okPair
  rw [hs, mon_split] at h
  have h1 := fold_okPair _ _ h
  simp [Mon.step] at h1
  rw [h1.2]
  simpa [mon] using fold_nAl pre {}

/-- …and a read_cb carries an alloc'd buffer only directly after that alloc_cb: with `alloc_paired`
    and `alloc_ids_fresh`, each buffer is handed back exactly once. -/
theorem readcb_buffer_from_preceding_alloc (u : User) (ops : List Op) (pre post : List Ev) (n : Int) (id : Nat)
    (b : List Byte) (hs : (exec u init ops).trace = pre ++ .readCb n (some id) b :: post) :
    ∃ pre' sz, pre = pre' ++ [.alloc id sz] := by
  have h := (coupled_exec u ops init coupled_init).okPair
  rw [hs, mon_split] at h
  have h1 := fold_okPair _ _ h
  rcases List.eq_nil_or_concat pre with hp | ⟨pre', e, hp⟩
  · subst hp; simp [Mon.step, mon] at h1
  · subst hp
    rw [List.concat_eq_append] at h1 ⊢
    rw [mon_snoc] at h1
    cases e <;> simp [Mon.step] at h1
    case alloc id' sz' => exact ⟨pre', sz', by rw [h1.2]⟩
    all_goals (obtain ⟨⟨h2, h3⟩, h4⟩ := h1; rw [h3] at h4; simp at h4)

/-- After UV_EOF, a read error, uv_read_stop or uv_close, no alloc_cb / read_cb happens until a
    uv_read_start succeeds. -/
theorem quiet_after_eof_error_stop (u : User) (ops : List Op) (pre mid post : List Ev) (q c : Ev)
    (hs : (exec u init ops).trace = pre ++ q :: (mid ++ c :: post)) (hq : StopEv q) (hcb : IsCb c) :
    Ev.ret .start 0 ∈ mid := by
  have h := (coupled_exec u ops init coupled_init).okQuiet
  rw [hs, mon_split, List.foldl_append, List.foldl_cons] at h
  have h1 := fold_okQuiet _ _ h
  have hq1 : ((mon pre).step q).quiet = true := by
    rcases hq with ⟨n, buf, b, rfl, hn, hne⟩ | rfl | rfl
    · simp [Mon.step, quieting, hn, hne]
    · simp [Mon.step]
    · simp [Mon.step]
  have hq2 : (mid.foldl Mon.step ((mon pre).step q)).quiet = false := by
    rcases hcb with ⟨id, sz, rfl⟩ | ⟨n, buf, b, rfl⟩ <;> simp [Mon.step] at h1 <;> exact h1.2
  exact fold_quiet mid _ hq1 hq2

/-- UV_EOF is reported at most once per reading session: between two UV_EOF callbacks the user
    restarted reading (and by `delivered_all_at_eof` it comes only after all data). -/
theorem eof_once_after_data (u : User) (ops : List Op) (pre mid post : List Ev) (e1 e2 : Ev)
    (hs : (exec u init ops).trace = pre ++ e1 :: (mid ++ e2 :: post)) (h1 : EOFcb e1) (h2 : EOFcb e2) :
    Ev.ret .start 0 ∈ mid := by
  obtain ⟨buf1, b1, rfl⟩ := h1
  obtain ⟨buf2, b2, rfl⟩ := h2
  exact quiet_after_eof_error_stop u ops pre mid post _ _ hs
    (Or.inl ⟨_, _, _, rfl, by decide, by decide⟩) (Or.inr ⟨_, _, _, rfl⟩)

end UvModel.Props.C06
