import UvModel.StreamR
namespace UvModel.Props.C06
end UvModel.Props.C06
