import UvModel.Accept
import UvModel.Lemmas.ConnectLemmas
/-! # C07 — connect requests complete exactly once, with the right status
(uv__tcp_connect / uv_pipe_connect2 / uv__stream_connect / uv__stream_destroy) -/
namespace UvModel.Accept

/-- **connect_cb_exactly_once**, part "never twice" (every operation sequence, no side condition):
no connect request ever gets a second callback, callbacks only go to requests whose submitting call
returned 0, and after `uv__stream_destroy` nothing is pending. -/
theorem connect_cb_never_twice (ops : List COp) :
    ((crun {} ops).cbs.map (·.1)).Nodup ∧
    (∀ r ∈ (crun {} ops).cbs.map (·.1), r ∈ (crun {} ops).accepted) ∧
    ((crun {} ops).destroyed = true → (crun {} ops).connectReq = none) := by
  have h := cinv_run ops {} cinv_init
  refine ⟨h.nodup, fun r hr => ?_, h.dest⟩
  rw [h.acc]; exact List.mem_range.mpr (h.lt r hr)

/-- the full statement of "exactly once": every accepted request is completed or still pending, and
completed at most once -/
def connect_cb_exactly_once_full : Prop :=
  ∀ ops : List COp, let c := crun {} ops
    (c.cbs.map (·.1)).Nodup ∧ ∀ r ∈ c.accepted, r ∈ c.cbs.map (·.1) ∨ c.connectReq = some r

/-- the code as it is: `uv_pipe_connect2` overwrites a pending `connect_req` (pipe.c:331-338; no
`UV_EALREADY` check as in tcp.c:288), so a second connect on the same pipe loses the first request.
Witness replayed on the real library (request 0 never called back, loop stays alive). -/
theorem connect_cb_exactly_once_full_false : ¬ connect_cb_exactly_once_full := by
  intro h
  have := (h [.pipeConnect 0 0 (-2), .pipeConnect 0 0 (-2), .io 0, .close, .destroy]).2 0 (by decide)
  revert this; decide

/-- **connect_cb_exactly_once** (`_partial`: for programs that do not start a pipe connect while one is
pending on the same handle): every request whose submitting call returned 0 is either still pending
or has had its one callback; once the handle is closed and destroyed, all of them have. -/
theorem connect_cb_exactly_once_partial (ops : List COp) (ho : noOverlap {} ops = true) :
    ((crun {} ops).cbs.map (·.1)).Nodup ∧
    (∀ r ∈ (crun {} ops).accepted, r ∈ (crun {} ops).cbs.map (·.1) ∨ (crun {} ops).connectReq = some r) ∧
    ((crun {} ops).destroyed = true → ∀ r ∈ (crun {} ops).accepted, r ∈ (crun {} ops).cbs.map (·.1)) := by
  have h := cinv_run ops {} cinv_init
  have hn := nonelost_run ops {} cinv_init (by intro r hr; simp at hr) ho
  have hacc : ∀ r ∈ (crun {} ops).accepted, r < (crun {} ops).nextReq := by
    intro r hr; rw [h.acc] at hr; exact List.mem_range.mp hr
  refine ⟨h.nodup, fun r hr => hn r (hacc r hr), fun hd r hr => ?_⟩
  rcases hn r (hacc r hr) with h1 | h1
  · exact h1
  · rw [h.dest hd] at h1; cases h1

example : noOverlap {} [.tcpConnect 0 (-115), .write 1, .io (-111), .close, .destroy] = true ∧
    (crun {} [.tcpConnect 0 (-115), .write 1, .io (-111), .close, .destroy]).cbs = [(0, -111)] ∧
    (crun {} [.tcpConnect 0 (-115), .write 1, .io (-111), .close, .destroy]).wcbs = [(1, ECANCELED)] := by decide

/-- status: the callback reports 0 exactly when SO_ERROR is 0 and no error was parked in
`delayed_error`; otherwise it reports that error (EINPROGRESS: no callback yet) -/
theorem connect_status (c : Conn) (r : Nat) (so : Int) (hc : c.closing = false) (hr : c.connectReq = some r) :
    let st := if c.delayedError != 0 then c.delayedError else so
    (st = EINPROGRESS → (streamConnect c so).cbs = c.cbs ∧ (streamConnect c so).connectReq = some r) ∧
    (st ≠ EINPROGRESS → (streamConnect c so).cbs = c.cbs ++ [(r, st)] ∧ (streamConnect c so).connectReq = none) ∧
    (st = 0 ↔ (c.delayedError = 0 ∧ so = 0)) := by
  intro st
  refine ⟨?_, ?_, ?_⟩
  · intro h
    by_cases hd : c.delayedError = 0 <;> simp_all [streamConnect, st, flushWrites]
  · intro h
    by_cases hd : c.delayedError = 0 <;> simp_all [streamConnect, st, flushWrites] <;> split <;> simp_all
  · by_cases hd : c.delayedError = 0 <;> simp_all [st]

/-- closed before completion: `uv__stream_destroy` completes the pending request with UV_ECANCELED -/
theorem connect_cancelled_on_close (c : Conn) (r : Nat) (hr : c.connectReq = some r)
    (hc : c.closing = true) (hd : c.destroyed = false) :
    (connDestroy c).cbs = c.cbs ++ [(r, ECANCELED)] ∧ (connDestroy c).connectReq = none := by
  simp [connDestroy, hc, hd, hr, flushWrites]

/-- errors of connect(2) other than EINPROGRESS/ECONNREFUSED are returned synchronously by
`uv__tcp_connect` and no request is registered; ECONNREFUSED is parked and the call returns 0 -/
theorem tcp_connect_sync_vs_delayed (c : Conn) (e : Int) (hc : c.closing = false) (hn : c.connectReq = none)
    (hd : c.delayedError = 0) :
    (e ≠ 0 → e ≠ EINPROGRESS → e ≠ ECONNREFUSED → tcpConnect c 0 e = ({ c with fdOpen := true, connectCalls := c.connectCalls + 1 }, e)) ∧
    ((tcpConnect c 0 ECONNREFUSED).2 = 0 ∧ (tcpConnect c 0 ECONNREFUSED).1.delayedError = ECONNREFUSED ∧
     (tcpConnect c 0 ECONNREFUSED).1.fed = true ∧ (tcpConnect c 0 ECONNREFUSED).1.connectReq = some c.nextReq) := by
  refine ⟨fun h0 h1 h2 => ?_, ?_⟩
  · simp [tcpConnect, hc, hn, hd, h0, h1, h2]
  · simp [tcpConnect, hc, hn, hd, ECONNREFUSED, EINPROGRESS]

/-- `uv_pipe_connect2`: *every* connect(2) result other than 0 / EINPROGRESS (EAGAIN of a full backlog, ENOENT,
ECONNREFUSED, EACCES, …) is parked in `delayed_error`, the call returns 0, the callback is forced on the
next tick and then reports exactly that error — never 0 — whatever SO_ERROR says -/
theorem pipe_connect_errors_via_callback (c : Conn) (r so : Int) (hc : c.closing = false)
    (h0 : r ≠ 0) (h1 : r ≠ EINPROGRESS) :
    (pipeConnect c 0 0 r).2 = 0 ∧ (pipeConnect c 0 0 r).1.delayedError = r ∧ (pipeConnect c 0 0 r).1.fed = true ∧
    (pipeConnect c 0 0 r).1.connectReq = some c.nextReq ∧
    (streamConnect (pipeConnect c 0 0 r).1 so).cbs = c.cbs ++ [(c.nextReq, r)] := by
  have hs : (pipeConnect c 0 0 r) =
      ({ c with fdOpen := true, connectCalls := c.connectCalls + 1, delayedError := r, connectReq := some c.nextReq,
                nextReq := c.nextReq + 1, accepted := c.accepted ++ [c.nextReq], fed := true }, 0) := by
    simp [pipeConnect, hc, h0, h1]
  rw [hs]
  refine ⟨rfl, rfl, rfl, rfl, ?_⟩
  simp only [streamConnect, hc, flushWrites]
  simp [h0, h1]
  split <;> simp

example : (streamConnect (pipeConnect {} 0 0 EAGAIN).1 0).cbs = [(0, EAGAIN)] := by decide

/-- a client handle whose `uv_tcp_bind` hit EADDRINUSE (deferred, bind returned 0): `uv_tcp_connect` returns 0
*without reaching connect(2)* — no connection can come into being — and the callback reports the bind
error whatever the kernel would say; so "status ≠ 0" and "not established" coincide (tcp.c:291-292) -/
theorem tcp_connect_after_deferred_bind_error (c : Conn) (r so : Int) (hc : c.closing = false)
    (hn : c.connectReq = none) :
    (tcpBind c EADDRINUSE).2 = 0 ∧
    (tcpConnect (tcpBind c EADDRINUSE).1 0 r).2 = 0 ∧
    (tcpConnect (tcpBind c EADDRINUSE).1 0 r).1.connectCalls = c.connectCalls ∧
    (streamConnect (tcpConnect (tcpBind c EADDRINUSE).1 0 r).1 so).cbs = c.cbs ++ [(c.nextReq, EADDRINUSE)] := by
  have hb : tcpBind c EADDRINUSE = ({ c with fdOpen := true, delayedError := EADDRINUSE }, 0) := by
    simp [tcpBind, hc, EADDRINUSE]
  rw [hb]
  simp [tcpConnect, streamConnect, hc, hn, EADDRINUSE, EINPROGRESS, flushWrites]

example : (crun {} [.tcpBind EADDRINUSE, .tcpConnect 0 0, .io 0]).cbs = [(0, EADDRINUSE)] ∧
    (crun {} [.tcpBind EADDRINUSE, .tcpConnect 0 0, .io 0]).connectCalls = 0 ∧
    (crun {} [.tcpBind 0, .tcpConnect 0 EINPROGRESS, .io 0]).cbs = [(0, 0)] ∧
    (crun {} [.tcpBind 0, .tcpConnect 0 EINPROGRESS, .io 0]).connectCalls = 1 := by decide

/-- `streamConnect` is `connPre`, an empty callback, `connPost` -/
theorem streamConnect_eq_pre_post (c : Conn) (so : Int) :
    streamConnect c so = connPost (connPre c so).1 (connPre c so).2 := by
  unfold streamConnect connPre connPost
  by_cases hc : c.closing = true
  · simp [hc]
  · cases hr : c.connectReq with
    | none => simp [hc]
    | some req =>
      simp only [hc]
      by_cases hd : c.delayedError = 0 <;> simp [hd] <;> split <;> simp_all

/-- **retry from the failure callback**: when a connect fails and the user's callback re-submits a connect on the
same handle (tcp or pipe), the new request is registered with POLLOUT armed and is still pending with POLLOUT
armed after `uv__stream_connect` returns — the stop of POLLOUT for the failed attempt happens *before* the
callback, so it cannot cancel the retry's interest; hence the retry's completion will be seen -/
theorem connect_retry_from_failure_callback_stays_armed (c : Conn) (req : Nat) (so r : Int) (e : Int)
    (hc : c.closing = false) (hr : c.connectReq = some req) (hd : c.delayedError = 0)
    (he : (connPre c so).2 = some e) (hneg : e < 0) (hr' : r = 0 ∨ r = EINPROGRESS) :
    let c1 := (connPre c so).1
    (let c2 := (tcpConnect c1 0 r).1
     (tcpConnect c1 0 r).2 = 0 ∧ (connPost c2 (some e)).pollout = true ∧ (connPost c2 (some e)).connectReq = some c.nextReq) ∧
    (let c2 := (pipeConnect c1 0 0 r).1
     (pipeConnect c1 0 0 r).2 = 0 ∧ (connPost c2 (some e)).pollout = true ∧ (connPost c2 (some e)).connectReq = some c.nextReq) := by
  have hso : so ≠ EINPROGRESS ∧ e = so := by
    simp [connPre, hc, hr, hd] at he
    by_cases h : so = EINPROGRESS <;> simp_all
  obtain ⟨hne, rfl⟩ := hso
  have h1 : (connPre c e).1 = { c with connectReq := none, fed := false, cbs := c.cbs ++ [(req, e)], pollout := false } := by
    simp [connPre, hc, hr, hd, hne, hneg]
  rw [h1]
  rcases hr' with rfl | rfl <;>
    simp [tcpConnect, pipeConnect, connPost, hc, hd, hneg, flushWrites, EINPROGRESS]

example : (connPost (tcpConnect (connPre (tcpConnect {} 0 EINPROGRESS).1 ECONNREFUSED).1 0 EINPROGRESS).1 (some ECONNREFUSED)).pollout = true ∧
    (connPost (tcpConnect (connPre (tcpConnect {} 0 EINPROGRESS).1 ECONNREFUSED).1 0 EINPROGRESS).1 (some ECONNREFUSED)).connectReq = some 1 := by decide

end UvModel.Accept
