import UvModel.Timer
/-! C04 (timer part): property theorems about the model of src/timer.c -/
namespace UvModel.Timer
open UvModel.Heap

/-- saturation: the due time computed by `uv_timer_start` is `min (time + timeout) (2^64-1)`
    as natural numbers, for all 64-bit `time` and `timeout` (no wrap-around). -/
theorem clamp_saturates (time timeout : Nat) (ht : time < U64) (hto : timeout < U64) :
    clampC time timeout = min (time + timeout) (U64 - 1) := by
  unfold clampC
  unfold U64 at *
  by_cases h : time + timeout < 2 ^ 64
  · rw [Nat.mod_eq_of_lt h]
    split <;> omega
  · have h2 : (time + timeout) % 2 ^ 64 = time + timeout - 2 ^ 64 := by
      rw [Nat.mod_eq_sub_mod (by omega), Nat.mod_eq_of_lt (by omega)]
    rw [h2]
    split <;> omega

/-- `uv_timer_get_due_in` = due − now, 0 when past -/
theorem dueIn_correct (s : S) (id : Nat) :
    dueIn s id = (getT s id).timeout - s.time := by
  unfold dueIn
  simp only []
  split <;> omega

end UvModel.Timer
