import UvModel.Timer
import UvModel.Lemmas.TimerLemmas
/-!
  C04 (timer part): property theorems about the model of src/timer.c.

  Helper lemmas, the invariant `WF`, the event type `Ev`/`step`/`exec`, and the
  specification functions `collected` / `fired` / `runCollected` / `runFired`
  (tied to the model's `ready` / `trace` fields by `collect_exact` and
  `fired_is_trace` below) live in UvModel/Lemmas/TimerLemmas.lean.

  Every theorem is for every state satisfying `WF` (which `wf_invariant` shows
  to be every reachable state), every script of callback operations and every
  fuel; handle ids mentioned by operations must exist (`Ev.ok`, `ScriptOk`) —
  the C API takes handle pointers, there is no such thing as a dangling id.
-/
namespace UvModel.Timer
open UvModel.Heap

/-- saturation: the due time computed by `uv_timer_start` is `min (time + timeout) (2^64-1)`
    as natural numbers, for all 64-bit `time` and `timeout` (no wrap-around). -/
theorem clamp_saturates (time timeout : Nat) (ht : time < U64) (hto : timeout < U64) :
    clampC time timeout = min (time + timeout) (U64 - 1) := by
  unfold clampC
  unfold U64 at *
  by_cases h : time + timeout < 2 ^ 64
  · rw [Nat.mod_eq_of_lt h]
    split <;> omega
  · have h2 : (time + timeout) % 2 ^ 64 = time + timeout - 2 ^ 64 := by
      rw [Nat.mod_eq_sub_mod (by omega), Nat.mod_eq_of_lt (by omega)]
    rw [h2]
    split <;> omega

/-- `uv_timer_get_due_in` = due − now, 0 when past -/
theorem dueIn_correct (s : S) (id : Nat) :
    dueIn s id = (getT s id).timeout - s.time := by
  unfold dueIn
  simp only []
  split <;> omega

/-! The non-vacuity examples use the scenario `exS` / `exSc` of TimerLemmas.lean:
  three timers (#0 due 10, #1 due 10 repeat 5, #2 due 12), clock at 15; the first callback of the
  pass (#0's) stops #1 — already collected — and restarts #0 itself with timeout 0. -/

/-! ## 1. the invariant -/

/-- `WF` (heap order; heap entries = active handles with matching due time and start id;
    ids and start ids pairwise distinct, start ids below the counter; ready queue holds
    distinct, inactive, non-closing handles; closing handles are inactive) holds after
    every list of outside operations, clock updates and timer passes with arbitrary
    callback scripts, and the ready queue is empty between events. -/
theorem wf_invariant (n : Nat) (evs : List Ev) (hok : ∀ ev ∈ evs, ev.ok n) :
    WF (exec (init n) evs) ∧ (exec (init n) evs).ready = [] := by
  have h := exec_wf (init n) evs (init_wf n) rfl (by simpa [init] using hok)
  exact ⟨h.1, h.2.1⟩

/-- the single-step form: each operation, clock update and pass preserves `WF` -/
theorem wf_preserved (s : S) (hw : WF s) :
    (∀ o : Op, o.id < s.ts.size → WF (applyOp s o)) ∧ (∀ t, WF (updateTime s t)) ∧
    (∀ f, WF (collect s f)) ∧
    (∀ sc f, ScriptOk s.ts.size sc → WF (fire sc s f)) ∧
    (∀ sc, ScriptOk s.ts.size sc → WF (runTimers sc s)) :=
  ⟨fun o ho => applyOp_wf s o hw ho, fun t => updateTime_wf s t hw, fun f => collect_wf s f hw,
   fun sc f h => fire_wf sc s f hw h, fun sc h => runTimers_wf sc s hw h⟩

example : WF exS ∧ exS.ready = [] :=
  wf_invariant 3 exEvs (fun ev h => exEvs_ok ev (List.mem_append_left _ h))
example : WF (exec (init 3) (exEvs ++ [.run exSc])) := (wf_invariant 3 _ exEvs_ok).1
example : exS.heap = #[⟨10, 0, 0⟩, ⟨10, 1, 1⟩, ⟨12, 2, 2⟩] ∧ exS.time = 15 := by decide +kernel

/-! ## trace = fired ids -/

/-- the callbacks recorded by `fire` are exactly `fired`, each at the unchanged loop time -/
theorem fired_is_trace (sc : Script) (s : S) (f : Nat) :
    (fire sc s f).trace = ((fired sc s f).map (fun id => (id, s.time))).reverse ++ s.trace ∧
    (fire sc s f).time = s.time ∧ (fire sc s f).ncb = s.ncb + (fired sc s f).length :=
  ⟨fire_trace sc s f, (fire_fields sc s f).1, (fire_fields sc s f).2.2⟩

/-- … and those of a whole pass are `runFired` -/
theorem runFired_is_trace (sc : Script) (s : S) :
    (runTimers sc s).trace = ((runFired sc s).map (fun id => (id, s.time))).reverse ++ s.trace ∧
    (runTimers sc s).time = s.time ∧ (runTimers sc s).ready = [] :=
  ⟨runTimers_trace sc s, (runTimers_fields sc s).1, runTimers_ready sc s⟩

example : runFired exSc exS = [0, 2] ∧ (runTimers exSc exS).trace = [(2, 15), (0, 15)] := by
  decide +kernel

/-! ## 7. / 3. the first loop -/

/-- with fuel `heap.size + 1` (or more) `collect` moves exactly the due entries: nothing due is
    left, what was taken is (as a multiset) the due part of the heap, what remains is the rest,
    and the ids were appended to the ready queue in the order taken. -/
theorem collect_exact (s : S) (f : Nat) (hw : WF s) (hf : s.heap.size + 1 ≤ f) :
    (∀ e ∈ (collect s f).heap.toList, e.timeout > s.time) ∧
    (collected s f).Perm (s.heap.toList.filter (fun e => decide (e.timeout ≤ s.time))) ∧
    (collect s f).heap.toList.Perm (s.heap.toList.filter (fun e => !decide (e.timeout ≤ s.time))) ∧
    (collect s f).ready = s.ready ++ (collected s f).map (·.id) := by
  have hnd := collect_none_due s f hw (by omega)
  have hd := collected_due_le s f
  have P := collect_perm s f hw
  refine ⟨hnd, ?_, ?_, collect_ready s f hw⟩
  · have := (P.filter (fun e => decide (e.timeout ≤ s.time))).symm
    rw [List.filter_append] at this
    rw [List.filter_eq_self.2 (by intro e he; simpa using hd e he),
      List.filter_eq_nil_iff.2 (by intro e he; have := hnd e he; simp; omega),
      List.append_nil] at this
    exact this
  · have := (P.filter (fun e => !decide (e.timeout ≤ s.time))).symm
    rw [List.filter_append] at this
    rw [List.filter_eq_nil_iff.2 (by intro e he; have := hd e he; simpa using this),
      List.filter_eq_self.2 (by intro e he; have := hnd e he; simp; omega),
      List.nil_append] at this
    exact this

/-- pass order: the entries come out of the heap strictly increasing in `(due, startId)`
    (so: by due time, ties by start order), and the callbacks invoked by the second loop are a
    subsequence of that order (callbacks can only take handles out of the ready queue). -/
theorem pass_order (sc : Script) (s : S) (hw : WF s) (hr : s.ready = []) :
    (runCollected s).Pairwise (fun a b => a.timeout < b.timeout ∨
        (a.timeout = b.timeout ∧ a.startId < b.startId)) ∧
    (collect s (s.heap.size + 1)).ready = (runCollected s).map (·.id) ∧
    (runFired sc s).Sublist ((runCollected s).map (·.id)) := by
  refine ⟨?_, ?_, runFired_sublist sc s hw hr⟩
  · exact (collected_sorted s _ hw).imp (fun h => (lt_eq_true_iff _ _).1 h)
  · rw [collect_ready s _ hw, hr, List.nil_append]; rfl

/-- same for any fuel and any starting ready queue -/
theorem collect_order (s : S) (f : Nat) (hw : WF s) :
    (collected s f).Pairwise (fun a b => a.timeout < b.timeout ∨
        (a.timeout = b.timeout ∧ a.startId < b.startId)) :=
  (collected_sorted s f hw).imp (fun h => (lt_eq_true_iff _ _).1 h)

example : runCollected exS = [⟨10, 0, 0⟩, ⟨10, 1, 1⟩, ⟨12, 2, 2⟩] ∧
    runFired noSc exS = [0, 1, 2] ∧ (collect exS 4).heap = #[] := by decide +kernel
/-- a pass that leaves something behind -/
example : runCollected (updateTime exS 11) = [⟨10, 0, 0⟩, ⟨10, 1, 1⟩] ∧
    (collect (updateTime exS 11) 4).heap = #[⟨12, 2, 2⟩] := by decide +kernel

/-! ## 2. never early -/

/-- every callback of a pass is for a handle that was active with due time `≤` the loop time at
    the start of the pass, and is recorded with exactly that loop time -/
theorem never_early (sc : Script) (s : S) (hw : WF s) (hr : s.ready = []) :
    ∀ x ∈ (runTimers sc s).trace, x ∈ s.trace ∨
      (x.2 = s.time ∧ x.1 ∈ runFired sc s ∧ (getT s x.1).active = true ∧ (getT s x.1).timeout ≤ s.time) := by
  intro x hx
  rw [runTimers_trace] at hx
  rcases List.mem_append.1 hx with h | h
  · right
    obtain ⟨id, hid, rfl⟩ := List.mem_map.1 (List.mem_reverse.1 h)
    obtain ⟨e, _, _, hle, ha, hto⟩ := runFired_mem sc s hw hr id hid
    exact ⟨rfl, hid, ha, by rw [hto]; exact hle⟩
  · exact Or.inl h

/-- the first loop only takes due entries (any fuel) -/
theorem collect_only_due (s : S) (f : Nat) (hw : WF s) :
    ∀ e ∈ collected s f, e ∈ s.heap.toList ∧ e.timeout ≤ s.time ∧ (getT s e.id).timeout = e.timeout :=
  fun e he => ⟨(collected_active s f hw e he).1, collected_due_le s f e he,
    (hw.ent e (collected_active s f hw e he).1).2.1⟩

/-- end to end: a timer started at loop time `s.time` with `timeout`, if its callback is invoked by
    the pass after the next clock update, sees a loop time `≥ min (s.time + timeout) (2^64-1)`. -/
theorem never_early_since_start (sc : Script) (s : S) (id timeout rp now : Nat) (hw : WF s)
    (hr : s.ready = []) (hlt : id < s.ts.size) (hc : (getT s id).closing = false)
    (hto : timeout < U64)
    (hf : id ∈ runFired sc (updateTime (start s id timeout rp).1 now)) :
    (updateTime (start s id timeout rp).1 now).time ≥ min (s.time + timeout) (U64 - 1) := by
  have hw1 := start_wf s id timeout rp hw hlt
  have hr1 : (start s id timeout rp).1.ready = [] := by
    have := (start_same s id timeout rp).ready; rw [hr] at this; exact List.sublist_nil.1 this
  have hw2 := updateTime_wf _ now hw1
  obtain ⟨e, _, _, hle, _, hte⟩ := runFired_mem sc _ hw2 hr1 id hf
  have h3 : (getT (updateTime (start s id timeout rp).1 now) id).timeout = clampC s.time timeout :=
    (start_handle s id timeout rp hlt hc).2.1
  rw [← clamp_saturates s.time timeout hw.time_lt hto, ← h3, hte]
  exact hle

/-- across events: the ids of the trace are exactly the ids invoked by the passes, in order -/
theorem trace_is_fired (s : S) (evs : List Ev) :
    (exec s evs).trace.map (·.1) = (execFired s evs).reverse ++ s.trace.map (·.1) :=
  exec_trace_ids s evs

/-- general form: a timer started at loop time `s.time` with `timeout`; then any events (outside
    operations, clock updates, whole passes with any callbacks) that neither re-arm it nor invoke
    it; if a pass then invokes it, the loop time is `≥ min (s.time + timeout) (2^64-1)`. -/
theorem never_early_general (sc : Script) (s : S) (id timeout rp : Nat) (evs : List Ev) (hw : WF s)
    (hr : s.ready = []) (hlt : id < s.ts.size) (hc : (getT s id).closing = false)
    (hto : timeout < U64) (hok : ∀ ev ∈ evs, ev.ok s.ts.size)
    (hn : ∀ ev ∈ evs, ¬ ev.rearms id) (hnf : id ∉ execFired (start s id timeout rp).1 evs)
    (hf : id ∈ runFired sc (exec (start s id timeout rp).1 evs)) :
    (exec (start s id timeout rp).1 evs).time ≥ min (s.time + timeout) (U64 - 1) := by
  have hw1 := start_wf s id timeout rp hw hlt
  have hs1 := start_same s id timeout rp
  have hr1 : (start s id timeout rp).1.ready = [] := by
    have := hs1.ready; rw [hr] at this; exact List.sublist_nil.1 this
  have h2 := exec_wf _ evs hw1 hr1 (by rw [hs1.size]; exact hok)
  obtain ⟨e, _, _, hle, _, hte⟩ := runFired_mem sc _ h2.1 h2.2.1 id hf
  have h3 := exec_timeout_stable _ id evs hn hnf
  rw [(start_handle s id timeout rp hlt hc).2.1] at h3
  rw [← clamp_saturates s.time timeout hw.time_lt hto, ← h3, hte]
  exact hle

example : execFired (init 3) (exEvs ++ [.run exSc, .run noSc]) = [0, 2, 0] ∧
    (exec (init 3) (exEvs ++ [.run exSc, .run noSc])).trace = [(0, 15), (2, 15), (0, 15)] := by
  decide +kernel
example : ∀ x ∈ (runTimers exSc exS).trace, x.2 = 15 ∧ (getT exS x.1).timeout ≤ 15 := by decide +kernel
/-- not yet due: nothing fires -/
example : runFired exSc (updateTime exS 9) = [] := by decide +kernel

/-! ## 4. late joiners wait -/

/-- no timer operation ever adds to the ready queue -/
theorem ready_never_grows (s : S) (o : Op) (ops : List Op) :
    (applyOp s o).ready.Sublist s.ready ∧ (ops.foldl applyOp s).ready.Sublist s.ready :=
  ⟨(applyOp_same s o).ready, (ops_same ops s).ready⟩

/-- the second loop only invokes handles that sit in the ready queue when it starts, in queue
    order, each at most once; in particular never an *active* handle -/
theorem fire_only_ready (sc : Script) (s : S) (f : Nat) (hw : WF s) :
    (fired sc s f).Sublist s.ready ∧ (fired sc s f).Nodup ∧
    ∀ id, (getT s id).active = true → id ∉ fired sc s f := by
  refine ⟨fired_sublist sc s f, (fired_sublist sc s f).nodup hw.rdyNodup, ?_⟩
  intro id ha h
  have := (hw.rdy id ((fired_sublist sc s f).subset h)).1
  rw [ha] at this; cases this

/-- a timer started (any timeout, including 0) at any point of the second loop — i.e. in any
    well-formed state `s` reached inside a callback — is not invoked by the rest of the pass -/
theorem late_joiners_wait (sc : Script) (s : S) (id timeout rp f : Nat) (hw : WF s) :
    id ∉ (start s id timeout rp).1.ready ∧ id ∉ fired sc (start s id timeout rp).1 f := by
  have h1 : id ∉ (start s id timeout rp).1.ready := by
    rw [start_eq]; split
    · rename_i hc
      intro h
      have := (hw.rdy id h).2.1
      rw [hc] at this; cases this
    · exact stop_not_ready s id hw
  exact ⟨h1, fun h => h1 ((fired_sublist sc _ f).subset h)⟩

/-- same for `uv_timer_again` called from a callback -/
theorem late_joiners_wait_again (sc : Script) (s : S) (id f : Nat) (hw : WF s)
    (hrep : (getT s id).rep ≠ 0) (hcb : (getT s id).hasCb = true) :
    id ∉ (again s id).1.ready ∧ id ∉ fired sc (again s id).1 f := by
  have h1 : id ∉ (again s id).1.ready := by
    rw [again_eq, if_neg (by simp [hcb]), if_pos hrep]
    intro h
    exact stop_not_ready s id hw ((start_same _ _ _ _).ready.subset h)
  exact ⟨h1, fun h => h1 ((fired_sublist sc _ f).subset h)⟩

/-- pass level: the invoked ids are among the collected ones, each at most once -/
theorem pass_fires_collected_once (sc : Script) (s : S) (hw : WF s) (hr : s.ready = []) :
    (runFired sc s).Sublist ((runCollected s).map (·.id)) ∧ (runFired sc s).Nodup := by
  refine ⟨runFired_sublist sc s hw hr, ?_⟩
  exact (fired_sublist sc _ _).nodup (collect_wf s _ hw).rdyNodup

/-- #0 is restarted with timeout 0 by its own callback: invoked once in this pass, waits in the
    heap (due 15 = now) and is invoked by the next pass -/
example : runFired exSc exS = [0, 2] ∧ (runTimers exSc exS).heap = #[⟨15, 3, 0⟩] ∧
    runFired noSc (runTimers exSc exS) = [0] := by decide +kernel

/-! ## 5. stop / close prevent the callback -/

/-- after `uv_timer_stop` the handle is inactive, in neither the heap nor the ready queue, and
    neither the rest of the current pass nor the next pass invokes it -/
theorem stop_prevents (sc : Script) (s : S) (id : Nat) (hw : WF s) :
    (getT (stop s id) id).active = false ∧ id ∉ (stop s id).ready ∧
    (∀ e ∈ (stop s id).heap.toList, e.id ≠ id) ∧
    (∀ f, id ∉ fired sc (stop s id) f) ∧
    (s.ready = [] → id ∉ runFired sc (stop s id)) := by
  refine ⟨stop_inactive_after s id, stop_not_ready s id hw, stop_not_heap s id hw, ?_, ?_⟩
  · intro f h; exact stop_not_ready s id hw ((fired_sublist sc _ f).subset h)
  · intro hr h
    have hr1 : (stop s id).ready = [] := by
      have := stop_ready_sublist s id; rw [hr] at this; exact List.sublist_nil.1 this
    obtain ⟨_, _, _, _, ha, _⟩ := runFired_mem sc _ (stop_wf s id hw) hr1 id h
    rw [stop_inactive_after] at ha; cases ha

/-- an inactive (stopped, never started, fired one-shot) timer is not invoked by any later pass
    as long as nobody calls `start`/`again` on it -/
theorem inactive_until_rearmed (s : S) (id : Nat) (evs : List Ev) (hw : WF s) (hr : s.ready = [])
    (hi : (getT s id).active = false) (hok : ∀ ev ∈ evs, ev.ok s.ts.size)
    (hn : ∀ ev ∈ evs, ¬ ev.rearms id) :
    (getT (exec s evs) id).active = false ∧ ∀ x ∈ (exec s evs).trace, x.1 = id → x ∈ s.trace := by
  induction evs generalizing s with
  | nil => exact ⟨hi, fun x hx _ => hx⟩
  | cons ev r ih =>
    have h1 := step_wf s ev hw hr (hok ev List.mem_cons_self)
    have hn1 := hn ev List.mem_cons_self
    have key : (getT (step s ev) id).active = false ∧
        ∀ x ∈ (step s ev).trace, x.1 = id → x ∈ s.trace := by
      cases ev with
      | op o =>
        refine ⟨applyOp_stays_inactive s o id hi (by simpa [Ev.rearms] using hn1), ?_⟩
        intro x hx _
        have : (applyOp s o).trace = s.trace := (applyOp_same s o).trace
        rw [← this]; exact hx
      | time t => exact ⟨hi, fun x hx _ => hx⟩
      | run sc =>
        have hsc := Ev.not_rearms_run hn1
        refine ⟨runTimers_stays_inactive sc s id hw hr hi hsc, ?_⟩
        intro x hx hxid
        show x ∈ s.trace
        have hx' : x ∈ (runTimers sc s).trace := hx
        rw [runTimers_trace] at hx'
        rcases List.mem_append.1 hx' with h | h
        · obtain ⟨j, hj, rfl⟩ := List.mem_map.1 (List.mem_reverse.1 h)
          obtain ⟨_, _, _, _, ha, _⟩ := runFired_mem sc s hw hr j hj
          simp only at hxid
          rw [hxid, hi] at ha; cases ha
        · exact h
    have := ih (step s ev) h1.1 h1.2.1 key.1
      (fun e he => h1.2.2 ▸ hok e (List.mem_cons_of_mem _ he))
      (fun e he => hn e (List.mem_cons_of_mem _ he))
    exact ⟨this.1, fun x hx hxid => key.2 x (this.2 x hx hxid) hxid⟩

/-- `uv_close` on a timer: stopped as above, marked closing; `uv_timer_start` then fails with
    UV_EINVAL and leaves the state alone -/
theorem close_prevents (sc : Script) (s : S) (id : Nat) (hw : WF s) (hlt : id < s.ts.size) :
    (getT (close s id) id).active = false ∧ (getT (close s id) id).closing = true ∧
    id ∉ (close s id).ready ∧ (∀ e ∈ (close s id).heap.toList, e.id ≠ id) ∧
    (∀ f, id ∉ fired sc (close s id) f) ∧
    (∀ to rp, start (close s id) id to rp = (close s id, -22)) := by
  have hg : getT (close s id) id = { getT (stop s id) id with closing := true } := by
    rw [close_getT, if_pos ⟨rfl, hlt⟩]
  have hrdy : (close s id).ready = (stop s id).ready := rfl
  have hheap : (close s id).heap = (stop s id).heap := rfl
  have hnr : id ∉ (close s id).ready := hrdy ▸ stop_not_ready s id hw
  refine ⟨?_, ?_, hnr, ?_, ?_, ?_⟩
  · rw [hg]; exact stop_inactive_after s id
  · rw [hg]
  · rw [hheap]; exact stop_not_heap s id hw
  · intro f h; exact hnr ((fired_sublist sc _ f).subset h)
  · intro to rp; rw [start_eq, hg]; rfl

/-- a closing handle is never invoked again, whatever anybody does afterwards (no hypothesis on
    the later events: `start` is refused, `again` cannot re-arm it) -/
theorem closed_never_fires (s : S) (id : Nat) (evs : List Ev) (hw : WF s) (hr : s.ready = [])
    (hc : (getT s id).closing = true) (hok : ∀ ev ∈ evs, ev.ok s.ts.size) :
    ∀ x ∈ (exec s evs).trace, x.1 = id → x ∈ s.trace := by
  induction evs generalizing s with
  | nil => exact fun x hx _ => hx
  | cons ev r ih =>
    have h1 := step_wf s ev hw hr (hok ev List.mem_cons_self)
    have key : ∀ x ∈ (step s ev).trace, x.1 = id → x ∈ s.trace := by
      cases ev with
      | op o =>
        intro x hx _
        have : (applyOp s o).trace = s.trace := (applyOp_same s o).trace
        rw [← this]; exact hx
      | time t => exact fun x hx _ => hx
      | run sc =>
        intro x hx hxid
        have hx' : x ∈ (runTimers sc s).trace := hx
        rw [runTimers_trace] at hx'
        rcases List.mem_append.1 hx' with h | h
        · obtain ⟨j, hj, rfl⟩ := List.mem_map.1 (List.mem_reverse.1 h)
          obtain ⟨_, _, _, _, ha, _⟩ := runFired_mem sc s hw hr j hj
          simp only at hxid
          rw [hxid, hw.closing id hc] at ha; cases ha
        · exact h
    have := ih (step s ev) h1.1 h1.2.1 (step_closing_mono s ev id hc)
      (fun e he => h1.2.2 ▸ hok e (List.mem_cons_of_mem _ he))
    exact fun x hx hxid => key x (this x hx hxid) hxid

/-- #1 is collected, then stopped by #0's callback: not invoked (although due) -/
example : 1 ∈ (runCollected exS).map (·.id) ∧ 1 ∉ runFired exSc exS ∧
    (getT (runTimers exSc exS) 1).active = false := by decide +kernel
example : (getT (close exS 2) 2).closing = true ∧ runFired noSc (close exS 2) = [0, 1] ∧
    (start (close exS 2) 2 0 0).2 = -22 := by decide +kernel

/-! ## 6. repeat -/

/-- one round of the second loop is: pop, `uv_timer_again`, record, run callback number `ncb`
    from the state `preCb`, continue -/
theorem fire_round (sc : Script) (s : S) (f id : Nat) (rest : List Nat) (hr : s.ready = id :: rest) :
    fire sc s (f + 1) = fire sc ((sc s.ncb).foldl applyOp (preCb s id rest)) f ∧
    (preCb s id rest).trace = (id, s.time) :: s.trace := by
  refine ⟨?_, (preCb_same_but s id rest).2.2.1⟩
  rw [fire_cons sc s f id rest hr]
  unfold fireStep
  rw [(again_same { s with ready := rest } id).ncb]

/-- a handle popped with `repeat ≠ 0` (the value in force at that moment) is, when its callback
    starts, active again with due time `clampC now repeat` = `min (now + repeat) (2^64-1)` and a
    fresh start id, and sits in the heap with exactly that key -/
theorem repeat_rearm (s : S) (id : Nat) (rest : List Nat) (hw : WF s) (hr : s.ready = id :: rest)
    (hrep : (getT s id).rep ≠ 0) :
    (getT (preCb s id rest) id).active = true ∧
    (getT (preCb s id rest) id).timeout = clampC s.time (getT s id).rep ∧
    (getT (preCb s id rest) id).rep = (getT s id).rep ∧
    (getT (preCb s id rest) id).startId = s.counter ∧
    (⟨clampC s.time (getT s id).rep, s.counter, id⟩ : Ent) ∈ (preCb s id rest).heap.toList ∧
    ((getT s id).rep < U64 →
      (getT (preCb s id rest) id).timeout = min (s.time + (getT s id).rep) (U64 - 1)) := by
  have hrd := hw.rdy id (hr ▸ List.mem_cons_self)
  have hlt := hasCb_lt s id hrd.2.2
  have e := again_rearm_eq { s with ready := rest } id hrd.2.2 hrep hrd.2.1
  have hg : ∀ j, getT (preCb s id rest) j = getT (again { s with ready := rest } id).1 j :=
    fun j => rfl
  have hh : (preCb s id rest).heap = (again { s with ready := rest } id).1.heap := rfl
  have hT : getT { s with ready := rest } id = getT s id := rfl
  rw [hT] at e
  have ht : (stop (stop { s with ready := rest } id) id).time = s.time := by simp
  have hcn : (stop (stop { s with ready := rest } id) id).counter = s.counter := by simp
  have hsz : id < (stop (stop { s with ready := rest } id) id).ts.size := by simpa using hlt
  have hm := arm_heap_mem (stop (stop { s with ready := rest } id) id) id (getT s id).rep (getT s id).rep
  rw [ht, hcn, ← e] at hm
  have hgt : getT (preCb s id rest) id = _ := (hg id).trans (e ▸ arm_getT _ id _ _ id)
  rw [if_pos ⟨rfl, hsz⟩, ht, hcn] at hgt
  refine ⟨by rw [hgt], by rw [hgt], by rw [hgt], by rw [hgt], hh ▸ hm, ?_⟩
  intro hb
  rw [hgt]; exact clamp_saturates _ _ hw.time_lt hb

/-- with `repeat = 0` the handle is not re-armed: inactive and absent from the heap when its
    callback starts -/
theorem repeat_zero (s : S) (id : Nat) (rest : List Nat) (hw : WF s) (hr : s.ready = id :: rest)
    (hrep : (getT s id).rep = 0) :
    (getT (preCb s id rest) id).active = false ∧
    (∀ e ∈ (preCb s id rest).heap.toList, e.id ≠ id) ∧ (preCb s id rest).heap = s.heap := by
  have hrd := hw.rdy id (hr ▸ List.mem_cons_self)
  have e := again_norep_eq { s with ready := rest } id hrep
  have hg : getT (preCb s id rest) id = getT (again { s with ready := rest } id).1 id := rfl
  have hh : (preCb s id rest).heap = (again { s with ready := rest } id).1.heap := rfl
  rw [e] at hg hh
  refine ⟨hg ▸ hrd.1, ?_, hh⟩
  intro x hx hxid
  rw [hh] at hx
  have := (hw.ent x hx).1
  rw [hxid, hrd.1] at this; cases this

/-- #1 (repeat 5) fires at 15 and is re-armed for 20; #0 and #2 (repeat 0) are not -/
example : (runTimers noSc exS).heap = #[⟨20, 3, 1⟩] ∧
    (getT (runTimers noSc exS) 0).active = false := by decide +kernel
/-- the repeat value in force at that moment: changed by an earlier callback of the same pass -/
example : (runTimers (fun k => if k = 0 then [.setRepeat 1 100] else []) exS).heap = #[⟨115, 3, 1⟩] := by
  decide +kernel

/-! ## 8. fuel -/

/-- the fuel used by `runTimers` is enough: any larger fuel gives the same result -/
theorem fuel_suffices (sc : Script) (s : S) (f : Nat) (hw : WF s) :
    (s.heap.size + 1 ≤ f → collect s f = collect s (s.heap.size + 1)) ∧
    (s.ready.length + 1 ≤ f → fire sc s f = fire sc s (s.ready.length + 1)) ∧
    (s.ready.length + 1 ≤ f → (fire sc s f).ready = []) :=
  ⟨fun h => (collect_fuel s f _ hw (by omega) (by omega)).1,
   fun h => (fire_fuel sc s f _ (by omega) (by omega)).1,
   fun h => fire_ready_empty sc s f (by omega)⟩

/-- hence a pass is the two loops run to completion -/
theorem runTimers_any_fuel (sc : Script) (s : S) (f1 f2 : Nat) (hw : WF s)
    (h1 : s.heap.size + 1 ≤ f1) (h2 : (collect s f1).ready.length + 1 ≤ f2) :
    runTimers sc s = fire sc (collect s f1) f2 := by
  rw [runTimers_eq, ← (collect_fuel s f1 _ hw (by omega) (by omega)).1]
  exact (fire_fuel sc _ _ _ (by omega) (by omega)).1

example : (collect exS 100).heap = (collect exS 4).heap ∧ (collect exS 100).ready = [0, 1, 2] ∧
    (fire exSc (collect exS 100) 100).trace = (runTimers exSc exS).trace := by decide +kernel

/-! ## 9. poll timeout -/

theorem nextTimeout_none (s : S) : nextTimeout s = -1 ↔ s.heap.size = 0 := by
  unfold nextTimeout
  cases hm : min? s.heap with
  | none => simp [min?_none _ hm]
  | some e =>
    have := (min?_some _ _ hm).1
    simp only []
    constructor
    · intro h; split at h
      · cases h
      · split at h
        · simp [INT_MAX] at h
        · omega
    · intro h; omega

/-- with timers pending, `uv__next_timeout` is `min (max 0 (minDue - now)) INT_MAX` for the
    least due time `minDue` over all active handles -/
theorem nextTimeout_bound (s : S) (hw : WF s) (hne : 0 < s.heap.size) :
    ∃ id, (getT s id).active = true ∧
      (∀ j, (getT s j).active = true → (getT s id).timeout ≤ (getT s j).timeout) ∧
      nextTimeout s = ((min ((getT s id).timeout - s.time) INT_MAX : Nat) : Int) ∧
      0 ≤ nextTimeout s ∧ nextTimeout s ≤ 2147483647 := by
  cases hm : min? s.heap with
  | none => have := min?_none _ hm; omega
  | some e =>
    have hent := hw.ent e (min?_mem _ _ hm)
    have hval : nextTimeout s = ((min ((getT s e.id).timeout - s.time) INT_MAX : Nat) : Int) := by
      unfold nextTimeout
      rw [hm, hent.2.1]
      simp only []
      split
      · rw [Nat.sub_eq_zero_of_le (by assumption)]; simp
      · split
        · rw [Nat.min_eq_right (by omega)]
        · rw [Nat.min_eq_left (by omega)]
    refine ⟨e.id, hent.1, ?_, hval, ?_, ?_⟩
    · intro j hj
      obtain ⟨x, hx, rfl⟩ := hw.act j hj
      have := min?_le _ hw.inv e x hm hx
      rw [lt_eq_false_iff] at this
      rw [hent.2.1, (hw.ent x hx).2.1]
      omega
    · rw [hval]; omega
    · rw [hval]; unfold INT_MAX; omega

example : nextTimeout exS = 0 ∧ nextTimeout (updateTime exS 3) = 7 ∧ nextTimeout (init 3) = -1 ∧
    nextTimeout (start (init 1) 0 (2 ^ 40) 0).1 = 2147483647 := by decide +kernel

/-! ## 10. the loop clock -/

/-- if the clock readings fed to `uv__update_time` are non-decreasing (from the current loop time)
    and fit 64 bits, the loop time never decreases along the run: no operation, callback or pass
    moves it -/
theorem now_monotone (s : S) (a b : List Ev) (h : TimesOk s.time (a ++ b)) :
    (exec s a).time ≤ (exec s (a ++ b)).time := by
  have : exec s (a ++ b) = exec (exec s a) b := List.foldl_append
  rw [this]
  exact timesOk_exec _ b (timesOk_split s a b h)

/-- only `uv__update_time` moves the clock -/
theorem now_only_update (s : S) (o : Op) (sc : Script) :
    (applyOp s o).time = s.time ∧ (runTimers sc s).time = s.time :=
  ⟨(applyOp_same s o).time, (runTimers_fields sc s).1⟩

example : TimesOk (init 3).time (exEvs ++ [.run exSc, .time 15, .time 40]) := by
  simp [TimesOk, exEvs, init, U64]

/-! ## saturation / due-in, concrete -/

example : clampC 5 (2 ^ 64 - 1) = 2 ^ 64 - 1 ∧ clampC (2 ^ 64 - 2) 7 = 2 ^ 64 - 1 ∧ clampC 5 7 = 12 := by
  decide +kernel
example : dueIn exS 2 = 0 ∧ dueIn (updateTime exS 3) 2 = 9 := by decide +kernel

end UvModel.Timer
