import UvModel.StreamW
/-! C05: property theorems (placeholder while the correspondence is being set up) -/
namespace UvModel.StreamW
end UvModel.StreamW
