import UvModel.Lemmas.StreamWLemmas
/-!
  C05 — stream writes: property theorems over the model `UvModel.StreamW`.

  `Reach s`: `s` is the state after an arbitrary list of loop-level operations (API calls, more
  scripted syscall outcomes, uv__run_pending, POLLOUT from uv__io_poll, the closing endgame) from a
  freshly opened stream of any configuration, under an arbitrary callback script (the k-th callback
  performs any list of API calls) and an arbitrary schedule of write/writev/sendmsg outcomes.
  All theorems are consequences of the invariant `WF` (Lemmas/StreamWLemmas.lean), proved by
  induction over the op list; `WF` also holds at every point inside uv__write_callbacks where a
  user callback runs (`cbOne_wf`), which is what the `obsBad`/`shutCbEarly` ghosts record.
-/
namespace UvModel.StreamW

def Reach (s : S) : Prop :=
  ∃ (sc : Script) (ipc : Bool) (shutErr connErr : Int) (connecting pollout pending : Bool)
    (env : List Outcome) (ops : List LOp),
    s = runOps sc (initS ipc shutErr connErr connecting pollout pending env) ops

theorem reach_inv {s : S} (h : Reach s) : WF s ∧ s.pq = [] := by
  obtain ⟨sc, ipc, se, ce, cn, po, pe, env, ops, rfl⟩ := h
  exact runOps_inv sc ops _ (init_inv ipc se ce cn po pe env)

/-- `write_queue_size` is exactly the number of unsent bytes of the requests whose callback has not
    run, for every op sequence / script / outcome schedule — including the size touch-up of failed
    and cancelled requests — and every observation made by any API call (also from inside a
    callback, where the requests still waiting in `pq` count) saw that value (`obsBad` never set). -/
theorem wqs_exact {s : S} (h : Reach s) :
    s.wqs = ((unsent (s.cq ++ s.wq) : Nat) : Int) ∧ s.obsBad = false := by
  obtain ⟨w, hp⟩ := reach_inv h
  have := w.wqs_eq
  rw [hp] at this
  exact ⟨by simpa using this, w.mon_ok.1⟩

/-- the same inside callbacks: any state satisfying the invariant (in particular the state in
    which a write callback runs) has the exact size, counting the not yet called-back `pq` -/
theorem wqs_exact_in_callbacks (sc : Script) (s : S) (r : Req) (rest : List Req) (h : WF s)
    (hp : s.pq = r :: rest) :
    let s' := cbOne sc r { s with pq := rest }
    s'.wqs = ((unsent (s'.pq ++ s'.cq ++ s'.wq) : Nat) : Int) :=
  (cbOne_wf sc s r rest h hp).1.wqs_eq

/-- every accepted request is, at any time, in exactly one place — already called back, or still
    in a queue — in submission order; ids are strictly increasing, hence: at most one callback per
    request, callbacks in submission order. -/
theorem cb_once_in_order {s : S} (h : Reach s) :
    s.accepted = s.cbs.map (·.id) ++ (s.cq ++ s.wq).map (·.id) ∧
    s.accepted.Pairwise (· < ·) ∧ (s.cbs.map (·.id)).Pairwise (· < ·) ∧
    (s.cbs.map (·.id)) <+: s.accepted := by
  obtain ⟨w, hp⟩ := reach_inv h
  have e := w.acc_eq
  rw [hp] at e
  simp only [List.nil_append] at e
  refine ⟨e, w.acc_lt.1, ?_, ?_⟩
  · have := w.acc_lt.1
    rw [e] at this
    exact (List.pairwise_append.1 this).1
  · exact ⟨_, e.symm⟩

/-- exactly once: when nothing is queued any more (in particular after close, see `close_cancels`)
    the callbacks are exactly the accepted requests, in order -/
theorem cb_exactly_once_when_drained {s : S} (h : Reach s) (hq : s.wq = []) (hc : s.cq = []) :
    s.cbs.map (·.id) = s.accepted := by
  have := (cb_once_in_order h).1
  rw [hq, hc] at this
  simpa using this.symm

/-- status 0 only if all bytes of the request were accepted by the OS (`sent = total`).
    (The converse is false in the code and in the model: a request whose last buffers are empty can
    fail / be cancelled after all its bytes were accepted.) -/
theorem status_zero_imp_all_accepted {s : S} (h : Reach s) :
    ∀ c ∈ s.cbs, c.status = 0 → c.sent = c.total :=
  (reach_inv h).1.cbs_ok

/-- as long as no write syscall failed hard and the connect did not fail, the bytes accepted by
    the OS are a prefix of the bytes submitted by successful uv_write/uv_try_write calls, in call
    order (no loss, duplication or reordering however the OS splits, delays or interrupts writes) -/
theorem os_stream_is_prefix {s : S} (h : Reach s) (hh : s.hardErr = false) :
    s.os <+: s.submitted := by
  rcases (reach_inv h).1.os_ok with e | ⟨rest, e, _⟩
  · rw [hh] at e; cases e
  · exact ⟨rest, e.symm⟩

/-- what is still missing is exactly the unsent part of the queued requests, in order; so the OS
    stream is the whole submitted stream once the write queue is empty (every callback reported 0) -/
theorem os_stream_missing_part {s : S} (h : Reach s) (hh : s.hardErr = false) (hc : s.closing = false) :
    s.submitted = s.os ++ pend s.wq := by
  rcases (reach_inv h).1.os_ok with e | ⟨rest, e, e2⟩
  · rw [hh] at e; cases e
  · rw [e, e2 hc]

theorem os_stream_complete {s : S} (h : Reach s) (hh : s.hardErr = false) (hc : s.closing = false)
    (hq : s.wq = []) : s.os = s.submitted := by
  have := os_stream_missing_part h hh hc
  rw [hq] at this
  simpa using this.symm

/-- uv_try_write never overtakes queued data: with unsent bytes of not-yet-called-back requests
    (or while connecting) it returns UV_EAGAIN, makes no syscall and changes nothing
    (stated for every state satisfying the invariant, i.e. also inside callbacks) -/
theorem try_write_never_overtakes (s : S) (bufs : List Nat) (send : Bool) (h : WF s)
    (hq : unsent (s.pq ++ s.cq ++ s.wq) ≠ 0 ∨ s.connecting = true) :
    tryWrite2 s bufs send = ({ s with nextId := s.nextId + 1 }, UV_EAGAIN) := by
  have hw := h.wqs_eq
  unfold tryWrite2
  simp only []
  rw [if_pos]
  rcases hq with hq | hq
  · right; show s.wqs ≠ 0; omega
  · left; exact hq

theorem try_write_never_overtakes_reach {s : S} (h : Reach s) (bufs : List Nat) (send : Bool)
    (hq : unsent (s.cq ++ s.wq) ≠ 0 ∨ s.connecting = true) :
    tryWrite2 s bufs send = ({ s with nextId := s.nextId + 1 }, UV_EAGAIN) := by
  obtain ⟨w, hp⟩ := reach_inv h
  apply try_write_never_overtakes s bufs send w
  rw [hp]; simpa using hq

/-- shutdown comes last: (1) when the shutdown callback ran, every accepted write had already been
    called back (`shutCbEarly` = ids still owed at that moment); (2) shutdown(2) was issued with an
    empty write queue; (3) after shutdown(2) succeeded the OS stream never grew again (the peer
    sees EOF after the last byte) and the queue stays empty; (4) once uv_shutdown returned 0 every
    uv_write2 returns UV_EPIPE (UV_EBADF after close) and changes nothing but the call counter. -/
theorem shutdown_after_writes {s : S} (h : Reach s) :
    s.shutCbEarly = [] ∧ s.shutSysPending = [] ∧
    (s.shut = true → s.osAtShut = some s.os ∧ s.wq = []) ∧
    (s.shutdownCalled = true → ∀ bufs send,
      write2 s bufs send = ({ s with nextId := s.nextId + 1 }, if s.fdOpen then UV_EPIPE else UV_EBADF)) := by
  obtain ⟨w, _⟩ := reach_inv h
  refine ⟨w.mon_ok.2.1, w.mon_ok.2.2.1, fun hs => ⟨(w.shut_ok hs).1, (w.shut_ok hs).2.1⟩, ?_⟩
  intro hc bufs send
  have hw := w.called_ok hc
  unfold write2
  cases hf : s.fdOpen <;> simp [checkBeforeWrite, hw, UV_EBADF, UV_EPIPE]

/-- the descriptor of uv_write2/uv_try_write2 rides only on the first successful syscall of its
    request (`fdSent` logs (request, number of earlier successful syscalls) per descriptor sent) -/
theorem send_handle_once {s : S} (h : Reach s) : ∀ p ∈ s.fdSent, p.2 = 0 :=
  (reach_inv h).1.mon_ok.2.2.2

/-- close cancels: the endgame of a closing stream calls back every request still owed exactly
    once — those already completed keep their status, those still queued get UV_ECANCELED — in
    order, and afterwards nothing is queued and callbacks = accepted requests. -/
theorem close_cancels (sc : Script) {s : S} (h : Reach s) (hc : s.closing = true) :
    (destroy sc s).cbs = s.cbs ++
      (s.cq ++ s.wq.map (fun r : Req => { r with error := UV_ECANCELED })).map cbRec ∧
    (destroy sc s).wq = [] ∧ (destroy sc s).cq = [] ∧
    (destroy sc s).cbs.map (·.id) = (destroy sc s).accepted := by
  obtain ⟨w, hp⟩ := reach_inv h
  obtain ⟨i, _, q1, q2, q3⟩ := destroy_inv sc s w hp hc
  refine ⟨q3, q1, q2, ?_⟩
  have e := i.1.acc_eq
  rw [i.2, q1, q2] at e
  simpa using e.symm

theorem closed_all_called_back {s : S} (h : Reach s) (hc : s.closed = true) :
    s.wq = [] ∧ s.cq = [] ∧ s.cbs.map (·.id) = s.accepted := by
  obtain ⟨w, _⟩ := reach_inv h
  obtain ⟨_, q1, q2⟩ := w.closed_ok hc
  exact ⟨q1, q2, cb_exactly_once_when_drained h q1 q2⟩

/-! ### non-vacuity: concrete runs (evaluated by the kernel: `decide +kernel`, no extra axioms) -/

/-- partial write, EAGAIN, EINTR, a write and a shutdown issued from inside the first callback
    (the reproducer of the callback-order defect repaired in stream.c 1234-1241), close at the end -/
def demoScript : Script := fun k => if k = 0 then [.write [2, 2] false, .shutdown] else []
def demoOps : List LOp :=
  [.feed [.ok 2, .fail 11, .fail 4, .ok 100], .api (.write [3, 0, 5] false), .api (.tryWrite [1] false)] ++
  loopIter ++ loopIter ++ loopIter ++ [.api .close] ++ loopIter
def demo : S := runOps demoScript (initS false 0 0 false false false []) demoOps

theorem demo_reach : Reach demo := ⟨demoScript, false, 0, 0, false, false, false, [], demoOps, rfl⟩

example : demo.cbs.map (fun c => (c.id, c.status)) = [(0, 0), (2, 0)] := by decide +kernel
example : demo.os = demo.submitted ∧ demo.os.length = 12 := by decide +kernel
example : demo.hardErr = false ∧ demo.shut = true ∧ demo.closed = true := by decide +kernel
/-- order of callbacks in the trace: write 0, write 2 (submitted inside cb 0), then shutdown -/
example : (demo.trace.reverse.filter fun e => match e with
    | .cb _ _ => true | .shutcb _ => true | _ => false) = [.cb 0 0, .cb 2 0, .shutcb 0] := by decide +kernel
/-- the try_write in between was refused -/
example : Ev.ret UV_EAGAIN ∈ demo.trace := by decide +kernel

/-- a hard error: request 0 fails after 1 byte, request 1 is cancelled by close; size touched up -/
def demo2 : S := runOps (fun _ => []) (initS true 0 0 false false false [.ok 1, .fail 32, .fail 11, .fail 11, .fail 11])
  ([.api (.write [3] true), .api (.write [2] false)] ++ loopIter ++ [.api .close] ++ loopIter)
example : demo2.cbs = [⟨0, -32, 1, 3⟩, ⟨1, UV_ECANCELED, 0, 2⟩] ∧ demo2.wqs = 0 ∧
    demo2.fdSent = [(0, 0)] ∧ demo2.hardErr = true := by decide +kernel

/-- uv_shutdown accepted while the stream is still connecting (nothing queued) completes once the
    connection is established (stream.c 1285-1292 keeps POLLOUT armed; before that repair the
    request was never completed) -/
def connDemo : S := runOps (fun _ => []) (initS false 0 0 true true false [])
  ([.api .shutdown] ++ loopIter ++ loopIter)
example : connDemo.shut = true ∧ connDemo.shutdownReq = false ∧ Ev.shutcb 0 ∈ connDemo.trace ∧
    Ev.ret 0 ∈ connDemo.trace := by decide +kernel

/-- a uv_write2 refused with UV_ENOMEM (vector of > 4 buffers, allocator says no) leaves the stream
    untouched: size 0, the next uv_try_write goes straight to the OS, a later write completes -/
def nomemDemo : S := runOps (fun _ => []) (initS false 0 0 false false false [])
  ([.api (.writeNoMem [1, 2, 3, 4, 5, 6] false), .api (.tryWrite [2] false), .api (.write [1, 1, 1, 1, 1] false)]
    ++ loopIter)
example : Ev.ret UV_ENOMEM ∈ nomemDemo.trace ∧ nomemDemo.wqs = 0 ∧ nomemDemo.obsBad = false ∧
    nomemDemo.accepted = [2] ∧ nomemDemo.cbs = [⟨2, 0, 5, 5⟩] ∧ nomemDemo.os.length = 7 := by decide +kernel

/-- zero-length requests do not block uv_try_write (no queued *data*): documented behaviour -/
example : (tryWrite2 (runOps (fun _ => []) (initS false 0 0 false false false [.fail 11, .ok 9])
    [.api (.write [0] false)]) [2] false).2 = 2 := by decide +kernel

end UvModel.StreamW
