import UvModel.Lemmas.LoopTrace
import UvModel.Lemmas.LoopRunInv
import UvModel.Lemmas.LoopClose4
import UvModel.Lemmas.LoopReqs4
/-!
  C02 — close protocol, over the LoopModel.  `tr s = (s.trace, s.ncbTotal)`: the event trace
  (callbacks, polls, op results) and the number of callbacks run so far.
-/
namespace UvModel.Props.C02
open UvModel.HandleKernels UvModel.Loop

/-- `close_not_reentrant`: `uv_close` — for every handle kind, in every state, from main or from inside
    any callback — emits no trace event and runs no callback (in fact no API call of the model does). -/
theorem close_not_reentrant (s : State) (id : Nat) :
    (applyOp s (.close id)).1.trace = s.trace ∧ (applyOp s (.close id)).1.ncbTotal = s.ncbTotal := by
  have := tr_applyOp s (.close id)
  simp only [tr, Prod.mk.injEq] at this
  exact this

theorem no_op_is_reentrant (s : State) (o : Op) :
    (applyOp s o).1.trace = s.trace ∧ (applyOp s o).1.ncbTotal = s.ncbTotal := by
  have := tr_applyOp s o
  simp only [tr, Prod.mk.injEq] at this
  exact this

/-- closing an active, referenced idle handle: queued for the closing phase, flags CLOSING ∧ ¬ACTIVE,
    counter back to 0, nothing emitted -/
example : let s0 := ([Op.init .idle, .start 2 0 0].foldl stepOp (initLoop 0 false []))
    let s := (applyOp s0 (.close 2)).1
    s.closing = [2] ∧ s.c.get 2 = some ⟨false, true, true, false, false⟩ ∧ s.c.ah = 0 ∧ s0.c.ah = 1 ∧
    s.trace.length = s0.trace.length := by decide

/-! `closeCbs id tr` (number of close callbacks delivered for handle `id` in a trace) and its counting lemmas
    (`runCb_closeCbs`, …) live in `Lemmas/LoopClose2.lean`. -/

/-- `close_cb_exactly_once` (per delivery step): `uv__finish_close` of a present handle without attached requests (not udp / stream) is exactly
    *one* close callback for that handle, invoked on a state from which the handle's record has already been
    deleted (flags list and data list), after CLOSED was set and the REF flag cleared. -/
theorem finishClose_delivers_once (sc : Script) (id : Nat) (s : State) (h : Handle) (f : HFlags)
    (hg : getH s id = some h) (hk : (h.kind == .udp) = false) (hk2 : (h.kind == .pipe || h.kind == .tcp) = false)
    (hf : getF s id = some f) (hh : s.halted = false) :
    closeCbs id (finishClose sc id s).trace = closeCbs id s.trace + 1 ∧
    ∃ f', finishClose sc id s =
      runCb sc .closing .close (.c id) id (flagBits f') 0 0
        { s with c := ((s.c.apply id setClosed).apply id handleUnref).remove id,
                 handles := s.handles.filter (·.id != id) } := by
  unfold finishClose
  simp only [hg, hk, hk2, Bool.false_eq_true, if_false]
  have h1 : ∃ g, getF (withKernel (withKernel s id setClosed) id handleUnref) id = some g := by
    simp only [getF, withKernel, Core.apply]
    have hf' : s.c.get id = some f := hf
    simp only [hf']
    have h2 := get_updF_same s.c.fl id f (ofHK (setClosed (toHK f s.c.ah))) (by simpa [Core.get] using hf')
    simp only [Core.get, h2]
    exact ⟨_, get_updF_same _ id _ _ h2⟩
  obtain ⟨g, hg'⟩ := h1
  simp only [hg']
  refine ⟨?_, g, rfl⟩
  rw [runCb_closeCbs]
  · simp; rfl
  · exact hh

/-- a handle whose record is gone gets nothing from `uv__finish_close` (no event, no state change):
    a second delivery is impossible -/
theorem finishClose_absent (sc : Script) (id : Nat) (s : State) (hg : getH s id = none) :
    finishClose sc id s = s := by
  unfold finishClose; simp [hg]

/-- the closing phase detaches the list first: handles closed from inside a close callback go to the fresh
    `closing` list and wait for the next iteration -/
theorem runClosing_detaches (sc : Script) (s : State) :
    runClosing sc s = runClosingLoop sc (s.closing.length + 1) { s with closingLocal := s.closing, closing := [] } := rfl

/-- the statement as first written: with only the accounting invariant `SInv` as hypothesis -/
def close_cb_exactly_once_statement : Prop :=
  ∀ (sc : Script) (s : State) (id : Nat), SInv s → id ∈ s.closing → s.halted = false →
    closeCbs id (runClosing sc s).trace = closeCbs id s.trace + 1

/-- … is false of the model for states no program can reach: `SInv` does not say that a queued id has a record -/
theorem close_cb_exactly_once_statement_false : ¬ close_cb_exactly_once_statement := by
  intro h
  have := h (fun _ _ _ => []) { closing := [5] } 5 ⟨⟨rfl, by intro e he; cases he⟩, by intro e he; cases he⟩
    (by simp) rfl
  revert this; decide

/-- `close_cb_exactly_once`: in every state satisfying the close bookkeeping invariant `CloseWF` (closing lists
    duplicate-free, members are live records with UV_HANDLE_CLOSING — it holds in every reachable state, see
    `closeWF_reachable`), the closing phase delivers exactly one close callback to every handle queued in
    `closing_handles`, none to any other handle, whatever the callbacks do (close further handles, …) — and the
    invariant holds again afterwards. -/
theorem close_cb_exactly_once (sc : Script) (s : State) (id : Nat) (hw : CloseWF s) (hh : s.halted = false) :
    closeCbs id (runClosing sc s).trace = closeCbs id s.trace + (if id ∈ s.closing then 1 else 0) ∧
    CloseWF (runClosing sc s) :=
  runClosing_spec sc id s hw hh

/-- the invariant holds after every program, for every script and poller behaviour -/
theorem closeWF_reachable (sc : Script) (fuel clock0 : Nat) (metrics : Bool) (oracle : List PollRes) (prog : List MainOp) :
    CloseWF (runMain sc fuel (initLoop clock0 metrics oracle) prog) :=
  closeWF_runMain sc fuel prog _ (closeWF_initLoop clock0 metrics oracle)

/-- … and inside callbacks: after every API call and callback -/
theorem closeWF_in_callbacks (s : State) (hw : CloseWF s) :
    (∀ o, CloseWF (stepOp s o)) ∧ (∀ sc ph k key id a b occ, CloseWF (runCb sc ph k key id a b occ s)) :=
  ⟨fun o => (WFStep.stepOp s o).1 _ hw, fun sc ph k key id a b occ => (WFStep.runCb sc ph k key id a b occ s).1 _ hw⟩

/-- a handle enters `closing_handles` once: a legal `uv_close` pushes a handle that was not queued, and a
    second `uv_close` of the same handle is outside `Legal` (libuv asserts `!uv__is_closing(handle)`) -/
theorem close_enqueues_once (s : State) (id : Nat) (h : Handle) (f : HFlags) (hw : CloseWF s) (hc : s.closed = false)
    (hg : getHF s id = some (h, f)) (hi : f.internal = false) (hcl : hClosing f = false) :
    (applyOp s (.close id)).1.closing = id :: s.closing ∧ id ∉ s.closingLocal ++ s.closing ∧
    (applyOp (applyOp s (.close id)).1 (.close id)).2 = none := by
  have hnot : id ∉ s.closingLocal ++ s.closing := by
    intro hm
    obtain ⟨_, g, hg', hgc⟩ := hw.2 id (by simpa [clList] using hm)
    rw [getHF_getF hg] at hg'; cases hg'
    simp [hClosing, isClosing, toHK, hgc] at hcl
  have h1 : (applyOp s (.close id)).1 = closeH s h.kind id := by
    simp [applyOp, hc, hg, hi, hcl, ok]
  refine ⟨by rw [h1]; show id :: (closeKind (withKernel s id setClosing) h.kind id).closing = _; rw [(keepQ_closeKind _ _ _).1.closing]; rfl, hnot, ?_⟩
  have hw' : CloseWF (applyOp s (.close id)).1 := (WFStep.of_opRes (applyOp_keep s (.close id))).1 _ hw
  rw [h1] at hw' ⊢
  obtain ⟨hm, g, hg', hgc⟩ := hw'.2 id (by simp [clList, closeH, makeClosePending])
  unfold applyOp
  split
  · rfl
  · simp only
    cases hh : getHF (closeH s h.kind id) id with
    | none => rfl
    | some p =>
      obtain ⟨h2, f2⟩ := p
      rw [getHF_getF hh] at hg'; cases hg'
      simp [hClosing, isClosing, toHK, hgc, illegal]

/-- a queued close, further closes from inside the close callbacks: every handle exactly one close callback,
    the second batch in the next closing phase -/
example :
    let s0 := ([Op.init .idle, .init .timer, .init .udp, .close 2, .close 4].foldl stepOp (initLoop 0 false []))
    let sc : Script := fun key _ _ => if key = .c 4 then [.close 3, .close 4] else []
    let s1 := runClosing sc s0
    let s2 := runClosing sc s1
    s0.closing = [4, 2] ∧ s1.closing = [3] ∧ (closeCbs 2 s1.trace, closeCbs 3 s1.trace, closeCbs 4 s1.trace) = (1, 0, 1) ∧
    (closeCbs 2 s2.trace, closeCbs 3 s2.trace, closeCbs 4 s2.trace) = (1, 1, 1) ∧ s2.closing = [] := by decide

/-- the statement as first written: no invariant among the hypotheses -/
def reqs_before_close_cb_statement : Prop :=
  ∀ (sc : Script) (s : State) (id r : Nat), id ∈ s.closing → ({ id := r, kind := .udpSend id } : Req) ∈ s.reqs →
    ∃ pre post a b st, (runClosing sc s).trace = post ++ [Event.cb .closing .close id a b] ++ pre ∧
      Event.cb .closing .udpSend r st 0 ∈ pre

/-- … is false of the model for ill-formed states (a queued id without record: nothing is delivered at all) -/
theorem reqs_before_close_cb_statement_false : ¬ reqs_before_close_cb_statement := by
  intro h
  obtain ⟨pre, post, a, b, st, h1, _⟩ :=
    h (fun _ _ _ => []) { closing := [5], reqs := [⟨0, .udpSend 5⟩] } 5 0 (by simp) (by simp)
  have h0 : (runClosing (fun _ _ _ => []) ({ closing := [5], reqs := [⟨0, .udpSend 5⟩] } : State)).trace = [] := rfl
  rw [h0] at h1
  simp at h1

/-- `reqs_before_close_cb`: in every state satisfying `CloseWF` (every reachable state), for a handle `id` queued in
    `closing_handles` whose record is `h`, the trace of the closing phase is `post ++ mid ++ pre ++ old` where the
    callback events of the contiguous segment `mid` are, oldest first, exactly
    `attachedReqs h ++ [close_cb id]`: one callback per request attached to the record *at the start of the phase*
    (udp: completed sends with their own status, then still-queued sends with UV_ECANCELED = -125; stream: the
    pending connect with UV_ECANCELED), each before the close callback, nothing else in between — for every
    script: neither the closing of other handles in the same phase nor anything their callbacks do can touch the
    queues of a handle that carries UV_HANDLE_CLOSING (`closing_handle_frozen`). -/
theorem reqs_before_close_cb (sc : Script) (s : State) (id : Nat) (h : Handle) (hw : CloseWF s) (hh : s.halted = false)
    (hid : id ∈ s.closing) (hg : getH s id = some h) :
    ∃ pre mid post fb, (runClosing sc s).trace = post ++ mid ++ pre ++ s.trace ∧
      cbsOf mid = attachedReqs h ++ [(CbKind.close, id, fb)] :=
  runClosing_reqs sc id s h hw hh hid hg

/-- the same for one `uv__finish_close`: its whole contribution to the trace is the attached requests' callbacks
    followed by the close callback -/
theorem reqs_before_close_cb_step (sc : Script) (s : State) (id : Nat) (rest : List Nat) (h : Handle) (hw : CloseWF s)
    (hl : s.closingLocal = id :: rest) (hh : s.halted = false) (hg : getH s id = some h) :
    ∃ new fb, (finishClose sc id { s with closingLocal := rest }).trace = new ++ s.trace ∧
      cbsOf new = attachedReqs h ++ [(CbKind.close, id, fb)] := by
  have hw1 : CloseWF' (some id) { s with closingLocal := rest } := by
    have hl' : clList (some id) { s with closingLocal := rest } = clList none s := by simp [clList, hl]
    exact ⟨hl' ▸ hw.1, fun i hi => hw.2 i (hl' ▸ hi)⟩
  obtain ⟨fb, new, e, c⟩ := finishClose_reqs sc id _ h hw1 hh hg
  exact ⟨new, fb, e, c⟩

/-- no API call and no callback changes the kind, `write_queue`, `write_completed_queue` or `connect_req` of a
    handle that carries UV_HANDLE_CLOSING (`uv_udp_send`, `uv_pipe_connect`, … on it are outside `Legal`), nor
    removes its record or clears the flag -/
theorem closing_handle_frozen (s : State) (id : Nat) (f : HFlags) (hm : (getH s id).isSome) (hf : getF s id = some f)
    (hc : f.closing = true) :
    (∀ o, hq (stepOp s o) id = hq s id ∧ (getH (stepOp s o) id).isSome) ∧
    (∀ sc ph k key i a b occ, hq (runCb sc ph k key i a b occ s) id = hq s id ∧
      (getH (runCb sc ph k key i a b occ s) id).isSome) := by
  have hz : Frz id s := ⟨(getH_isSome_iff s id).mp hm, f, hf, hc⟩
  refine ⟨fun o => ?_, fun sc ph k key i a b occ => ?_⟩
  · obtain ⟨z, q, _⟩ := FrzRel.stepOp id s o hz
    exact ⟨q, (getH_isSome_iff _ id).mpr z.1⟩
  · obtain ⟨z, q, _⟩ := FrzRel.runCb id sc ph k key i a b occ s hz
    exact ⟨q, (getH_isSome_iff _ id).mpr z.1⟩

/-- a udp handle with one transmitted and one queued send, closed together with an idle handle whose close callback
    tries to send on the udp handle (illegal: ignored) — the segment is as predicted from the record at phase start -/
example :
    let s0 := ([Op.init .udp, .init .idle, .udpSend 2, .udpSend 2, .close 2, .close 3].foldl stepOp (initLoop 0 false []))
    let sc : Script := fun key _ _ => if key = .c 3 then [.udpSend 2, .close 2] else []
    s0.closing = [3, 2] ∧ (getH s0 2).map attachedReqs = some [(CbKind.udpSend, 0, 0), (CbKind.udpSend, 1, -125)] ∧
    cbsOf ((runClosing sc s0).trace.take ((runClosing sc s0).trace.length - s0.trace.length)) =
      [(CbKind.close, 3, 4), (CbKind.udpSend, 0, 0), (CbKind.udpSend, 1, -125), (CbKind.close, 2, 4)] := by decide

/-- the statement as first written: "no event carries the id of a handle whose flags record is gone" -/
def silence_after_close_cb_statement : Prop :=
  ∀ (sc : Script) (fuel : Nat) (s : State) (prog : List MainOp) (id : Nat), SInv s → getF s id = none → id < s.nextId →
    ∀ e ∈ ((runMain sc fuel s prog).trace.take ((runMain sc fuel s prog).trace.length - s.trace.length)),
      ∀ ph k a b, e ≠ Event.cb ph k id a b

/-- … is false of the model (and meaningless for the code): request callbacks carry *request* ids, which live in
    another namespace than handle ids.  Reachable witness: handle 2 is closed and its close callback delivered; then
    three `uv_queue_work` requests 0, 1, 2 complete: the event `cb poll work 2` mentions the number 2. -/
theorem silence_after_close_cb_statement_false : ¬ silence_after_close_cb_statement := by
  intro h
  let sc : Script := fun _ _ _ => []
  let orc : List PollRes := [{ clock := 0 }, { clock := 0, done := 3, batch := [(Owner.async, 1)] }]
  let s1 : State := runMain sc 5 (initLoop 0 false orc) [.op (.init .idle), .op (.close 2), .run .nowait]
  let prog2 : List MainOp := [.op (.work .queueWork), .op (.work .queueWork), .op (.work .queueWork), .run .nowait]
  have hs : SInv s1 := runMain_inv _ _ _ _ (sInv_initLoop _ _ _)
  have h2 := h sc 5 s1 prog2 2 hs (by decide) (by decide)
  have hall : (((runMain sc 5 s1 prog2).trace.take ((runMain sc 5 s1 prog2).trace.length - s1.trace.length)).all
      (fun e => match e with | .cb _ _ i _ _ => i != 2 | _ => true)) = true := by
    rw [List.all_eq_true]
    intro e he
    cases e with
    | cb ph k i a b =>
      by_cases hi : i = 2
      · subst hi; exact absurd rfl (h2 _ he ph k a b)
      · simp [hi]
    | _ => rfl
  revert hall
  decide

/-- `silence_after_close_cb`: once the record of handle `id` has been unlinked — which `uv__finish_close` does
    right before the close callback (`gone_after_close_cb`) — no program, script or poller behaviour makes the loop
    emit a *handle* callback (timer, idle, prepare, check, async, poll, close) for `id` again: every callback site
    looks the record up (`Option`), the lookup fails closed, and ids are never reused.  (Events of kind
    work / udpSend / connect carry request ids.) -/
theorem silence_after_close_cb (sc : Script) (fuel : Nat) (s : State) (prog : List MainOp) (id : Nat)
    (hg : getH s id = none) (hn : id < s.nextId) :
    ∀ e ∈ ((runMain sc fuel s prog).trace.take ((runMain sc fuel s prog).trace.length - s.trace.length)),
      ∀ ph k a b, e = Event.cb ph k id a b → k = .work ∨ k = .udpSend ∨ k = .connect := by
  obtain ⟨_, new, he, hp⟩ := SilRel.runMain id sc fuel prog s ⟨(getH_none_iff s id).mp hg, hn⟩
  rw [he, List.take_left' (by simp)]
  exact hp

/-- … and the record stays deleted: no later step of any program re-creates a record with that id -/
theorem gone_forever (sc : Script) (fuel : Nat) (s : State) (prog : List MainOp) (id : Nat)
    (hg : getH s id = none) (hn : id < s.nextId) : getH (runMain sc fuel s prog) id = none :=
  (getH_none_iff _ id).mpr (SilRel.runMain id sc fuel prog s ⟨(getH_none_iff s id).mp hg, hn⟩).1.1

/-- `uv__finish_close` of a queued handle (any kind, with or without attached requests) ends with the record
    deleted; the close callback itself — whatever it does — cannot bring it back -/
theorem gone_after_close_cb (sc : Script) (s : State) (id : Nat) (rest : List Nat) (hw : CloseWF s)
    (hl : s.closingLocal = id :: rest) (hn : id < s.nextId) :
    getH (finishClose sc id { s with closingLocal := rest }) id = none ∧
    id < (finishClose sc id { s with closingLocal := rest }).nextId := by
  have hw1 : CloseWF' (some id) { s with closingLocal := rest } := by
    have hl' : clList (some id) { s with closingLocal := rest } = clList none s := by simp [clList, hl]
    exact ⟨hl' ▸ hw.1, fun i hi => hw.2 i (hl' ▸ hi)⟩
  have := finishClose_gone sc id _ hw1 hn
  exact ⟨(getH_none_iff _ id).mpr this.1, this.2⟩

/-- the witness above read with the corrected statement: after the close callback of handle 2 the only later
    callbacks are the three work completions -/
example :
    let sc : Script := fun _ _ _ => []
    let orc : List PollRes := [{ clock := 0 }, { clock := 0, done := 3, batch := [(Owner.async, 1)] }]
    let s1 : State := runMain sc 5 (initLoop 0 false orc) [.op (.init .idle), .op (.close 2), .run .nowait]
    let s2 := runMain sc 5 s1 [.op (.work .queueWork), .op (.work .queueWork), .op (.work .queueWork), .run .nowait]
    getH s1 2 = none ∧ 2 < s1.nextId ∧
    (s2.trace.reverse.filterMap (fun e => match e with | .cb _ k i _ _ => some (k, i) | _ => none)) =
      [(CbKind.close, 2), (CbKind.work, 0), (CbKind.work, 1), (CbKind.work, 2)] := by decide

/-- udp: queued sends are failed with UV_ECANCELED (-125), sends already handed to the kernel keep their
    status, all before the close callback (`uv__udp_finish_close` runs inside `uv__finish_close`, before
    the record is removed) -/
theorem reqs_before_close_cb_partial (sc : Script) (id : Nat) (s : State) :
    udpFinishClose sc .closing id s =
      udpRunCompleted sc .closing id
        (modH s id (fun h => { h with wcq := h.wcq ++ h.wq.map (fun r => (r, (-125 : Int))), wq := [] })) := rfl

/-- a udp handle closed with one send already transmitted (status 0) and one still queued (ECANCELED):
    both callbacks, then the close callback, in that order -/
example :
    let s0 := ([Op.init .udp, .udpSend 2, .udpSend 2, .close 2].foldl stepOp (initLoop 0 false []))
    ((runClosing (fun _ _ _ => []) s0).trace.reverse.filterMap (fun e => match e with
        | .cb _ k i a _ => some (k, i, a) | _ => none)) =
      [(CbKind.udpSend, 0, 0), (CbKind.udpSend, 1, -125), (CbKind.close, 2, 4)] := by decide

/-- a pipe handle with a deferred connect error, closed before the loop delivered it: the connect callback gets
    UV_ECANCELED (-125) in the closing phase, before the close callback; nothing in the pending phase -/
example :
    let s0 := ([Op.init .pipe, .connectBad 2, .close 2].foldl stepOp (initLoop 0 false []))
    s0.pending = [] ∧
    ((runClosing (fun _ _ _ => []) (runPending (fun _ _ _ => []) .pending s0)).trace.reverse.filterMap (fun e => match e with
        | .cb _ k i a _ => some (k, i, a) | _ => none)) = [(CbKind.connect, 0, -125), (CbKind.close, 2, 4)] := by decide

/-! ### a request's callback is delivered at most once over the whole trace -/
/-- `req_cb_owed_xor_done`: for every script, poller behaviour and main program, and every request id `r`
    (`Reqs.reqCbs r t` = number of `work` / `udpSend` / `connect` callback events for `r` in the trace; ids come from
    the single counter `nextReq`): callbacks delivered so far + records still owed ≤ 1 — a request that is still
    owed has had no callback, one whose callback ran is no longer owed and never comes back — and no callback
    exists for an id that has not been handed out.  Proof (`Lemmas/LoopReqs4.lean`): every completion site
    (`uv__udp_run_completed`, `uv__stream_io`, `uv__stream_destroy`, `uv__work_done`) takes `r` out of a queue
    slot, so by the partition invariant of C01 (`Reqs.RInv`) `r` is owed exactly once, hence has had no callback;
    the record is dropped right before the callback event; registration uses the fresh id `nextReq`. -/
theorem req_cb_owed_xor_done (sc : Script) (fuel clock0 : Nat) (metrics : Bool) (oracle : List PollRes) (prog : List MainOp) :
    let s := runMain sc fuel (initLoop clock0 metrics oracle) prog
    ∀ r, Reqs.reqCbs r s.trace + (s.reqs.filter (·.id == r)).length ≤ 1 ∧
      (s.nextReq ≤ r → Reqs.reqCbs r s.trace = 0) := by
  intro s r
  have hj : Reqs.J none s := Reqs.runMain_js sc fuel prog _ (Reqs.initLoop_j clock0 metrics oracle)
  have h1 := hj.2.1 r
  simp only [Reqs.idc, List.countP_eq_length_filter] at h1
  exact ⟨h1, hj.2.2 r⟩

/-- `req_cb_at_most_once`: no request gets its callback twice -/
theorem req_cb_at_most_once (sc : Script) (fuel clock0 : Nat) (metrics : Bool) (oracle : List PollRes) (prog : List MainOp) :
    let s := runMain sc fuel (initLoop clock0 metrics oracle) prog
    ∀ r, Reqs.reqCbs r s.trace ≤ 1 := by
  intro s r
  have : Reqs.reqCbs r s.trace + (s.reqs.filter (·.id == r)).length ≤ 1 :=
    (req_cb_owed_xor_done sc fuel clock0 metrics oracle prog r).1
  omega

/-- the same invariant holds after every API call, handle/close callback and loop iteration, wherever issued -/
theorem req_cb_in_callbacks (s : State) (hj : Reqs.J none s) :
    (∀ o, Reqs.J none (stepOp s o)) ∧ (∀ sc mode, Reqs.J none (iteration sc mode s)) ∧
    (∀ sc, Reqs.J none (runClosing sc s)) ∧
    ∀ r, Reqs.reqCbs r s.trace + (s.reqs.filter (·.id == r)).length ≤ 1 := by
  refine ⟨fun o => Reqs.stepOp_js s o hj, fun sc mode => Reqs.iteration_js sc mode s hj,
    fun sc => Reqs.runClosing_js sc s hj, ?_⟩
  intro r
  have h1 := hj.2.1 r
  simpa only [Reqs.idc, List.countP_eq_length_filter] using h1

/-- non-vacuity: two work items and a udp send; after one `uv_run(UV_RUN_NOWAIT)` (both work items finished on
    the pool thread) each request has had exactly one callback, none is owed, and the next id has had none -/
example :
    let s := runMain (fun _ _ _ => []) 5 (initLoop 1000 false [{ clock := 1000, done := 2, batch := [(.async, 1)] }])
      [MainOp.op (.init .udp), MainOp.op (.work .queueWork), MainOp.op (.work .queueWork), MainOp.op (.udpSend 2), MainOp.run .nowait]
    (s.reqs, s.nextReq, Reqs.reqCbs 0 s.trace, Reqs.reqCbs 1 s.trace, Reqs.reqCbs 2 s.trace, Reqs.reqCbs 3 s.trace,
      s.ncbTotal) = ([], 3, 1, 1, 1, 0, 3) := by decide
/-- … and before the run all three are owed and none has had its callback -/
example :
    let s := runMain (fun _ _ _ => []) 5 (initLoop 1000 false [])
      [MainOp.op (.init .udp), MainOp.op (.work .queueWork), MainOp.op (.work .queueWork), MainOp.op (.udpSend 2)]
    (s.reqs.map (·.id), Reqs.reqCbs 0 s.trace, Reqs.reqCbs 1 s.trace, Reqs.reqCbs 2 s.trace) = ([0, 1, 2], 0, 0, 0) := by decide

end UvModel.Props.C02
