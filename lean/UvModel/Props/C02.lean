import UvModel.Lemmas.LoopTrace
import UvModel.Lemmas.LoopRunInv
/-!
  C02 — close protocol, over the LoopModel.  `tr s = (s.trace, s.ncbTotal)`: the event trace
  (callbacks, polls, op results) and the number of callbacks run so far.
-/
namespace UvModel.Props.C02
open UvModel.HandleKernels UvModel.Loop

/-- `close_not_reentrant`: `uv_close` — for every handle kind, in every state, from main or from inside
    any callback — emits no trace event and runs no callback (in fact no API call of the model does). -/
theorem close_not_reentrant (s : State) (id : Nat) :
    (applyOp s (.close id)).1.trace = s.trace ∧ (applyOp s (.close id)).1.ncbTotal = s.ncbTotal := by
  have := tr_applyOp s (.close id)
  simp only [tr, Prod.mk.injEq] at this
  exact this

theorem no_op_is_reentrant (s : State) (o : Op) :
    (applyOp s o).1.trace = s.trace ∧ (applyOp s o).1.ncbTotal = s.ncbTotal := by
  have := tr_applyOp s o
  simp only [tr, Prod.mk.injEq] at this
  exact this

/-- closing an active, referenced idle handle: queued for the closing phase, flags CLOSING ∧ ¬ACTIVE,
    counter back to 0, nothing emitted -/
example : let s0 := ([Op.init .idle, .start 2 0 0].foldl stepOp (initLoop 0 false []))
    let s := (applyOp s0 (.close 2)).1
    s.closing = [2] ∧ s.c.get 2 = some ⟨false, true, true, false, false⟩ ∧ s.c.ah = 0 ∧ s0.c.ah = 1 ∧
    s.trace.length = s0.trace.length := by decide

/-- number of close callbacks delivered for handle `id` in a trace -/
def closeCbs (id : Nat) : List Event → Nat
  | [] => 0
  | .cb _ .close i _ _ :: t => (if i = id then 1 else 0) + closeCbs id t
  | _ :: t => closeCbs id t

/-- number of callback events of any kind in a trace -/
def cbEvents : List Event → Nat
  | [] => 0
  | .cb _ _ _ _ _ :: t => 1 + cbEvents t
  | _ :: t => cbEvents t

theorem closeCbs_emit_obs (id : Nat) (s : State) : closeCbs id (emitObs s).trace = closeCbs id s.trace := by
  unfold emitObs emit; split <;> simp [closeCbs]

theorem closeCbs_stepOp (id : Nat) (s : State) (o : Op) : closeCbs id (stepOp s o).trace = closeCbs id s.trace := by
  unfold stepOp
  rw [closeCbs_emit_obs]
  have h := (no_op_is_reentrant s o).1
  unfold emit
  split
  · exact congrArg _ h
  · simp [closeCbs, h]

theorem closeCbs_foldl (id : Nat) (ops : List Op) (s : State) :
    closeCbs id (ops.foldl stepOp s).trace = closeCbs id s.trace := by
  induction ops generalizing s with
  | nil => rfl
  | cons o t ih => simp only [List.foldl]; rw [ih, closeCbs_stepOp]

/-- a callback invocation adds exactly its own `cb` event: one close callback for `id` iff it is the
    close callback of `id`, whatever the script does inside -/
theorem runCb_closeCbs (sc : Script) (ph : Phase) (k : CbKind) (key : CbKey) (i : Nat) (a b : Int) (occ : Nat)
    (id : Nat) (s : State) (hh : s.halted = false) :
    closeCbs id (runCb sc ph k key i a b occ s).trace =
      closeCbs id s.trace + (if k = .close ∧ i = id then 1 else 0) := by
  unfold runCb
  simp only
  rw [closeCbs_emit_obs]
  have h1 : ∀ s' : State, closeCbs id (emit s' .endcb).trace = closeCbs id s'.trace := by
    intro s'; unfold emit; split <;> simp [closeCbs]
  rw [h1, closeCbs_foldl, closeCbs_emit_obs]
  unfold emit
  simp only [hh, Bool.false_eq_true, if_false]
  cases k <;> simp [closeCbs] <;> (try (split <;> omega))

/-- `close_cb_exactly_once` (per delivery step): `uv__finish_close` of a present handle without attached requests (not udp / stream) is exactly
    *one* close callback for that handle, invoked on a state from which the handle's record has already been
    deleted (flags list and data list), after CLOSED was set and the REF flag cleared. -/
theorem finishClose_delivers_once (sc : Script) (id : Nat) (s : State) (h : Handle) (f : HFlags)
    (hg : getH s id = some h) (hk : (h.kind == .udp) = false) (hk2 : (h.kind == .pipe || h.kind == .tcp) = false)
    (hf : getF s id = some f) (hh : s.halted = false) :
    closeCbs id (finishClose sc id s).trace = closeCbs id s.trace + 1 ∧
    ∃ f', finishClose sc id s =
      runCb sc .closing .close (.c id) id (flagBits f') 0 0
        { s with c := ((s.c.apply id setClosed).apply id handleUnref).remove id,
                 handles := s.handles.filter (·.id != id) } := by
  unfold finishClose
  simp only [hg, hk, hk2, Bool.false_eq_true, if_false]
  have h1 : ∃ g, getF (withKernel (withKernel s id setClosed) id handleUnref) id = some g := by
    simp only [getF, withKernel, Core.apply]
    have hf' : s.c.get id = some f := hf
    simp only [hf']
    have h2 := get_updF_same s.c.fl id f (ofHK (setClosed (toHK f s.c.ah))) (by simpa [Core.get] using hf')
    simp only [Core.get, h2]
    exact ⟨_, get_updF_same _ id _ _ h2⟩
  obtain ⟨g, hg'⟩ := h1
  simp only [hg']
  refine ⟨?_, g, rfl⟩
  rw [runCb_closeCbs]
  · simp; rfl
  · exact hh

/-- a handle whose record is gone gets nothing from `uv__finish_close` (no event, no state change):
    a second delivery is impossible -/
theorem finishClose_absent (sc : Script) (id : Nat) (s : State) (hg : getH s id = none) :
    finishClose sc id s = s := by
  unfold finishClose; simp [hg]

/-- the closing phase detaches the list first: handles closed from inside a close callback go to the fresh
    `closing` list and wait for the next iteration -/
theorem runClosing_detaches (sc : Script) (s : State) :
    runClosing sc s = runClosingLoop sc (s.closing.length + 1) { s with closingLocal := s.closing, closing := [] } := rfl

def close_cb_exactly_once_statement : Prop :=
  ∀ (sc : Script) (s : State) (id : Nat), SInv s → id ∈ s.closing → s.halted = false →
    closeCbs id (runClosing sc s).trace = closeCbs id s.trace + 1

def reqs_before_close_cb_statement : Prop :=
  ∀ (sc : Script) (s : State) (id r : Nat), id ∈ s.closing → ({ id := r, kind := .udpSend id } : Req) ∈ s.reqs →
    ∃ pre post a b st, (runClosing sc s).trace = post ++ [Event.cb .closing .close id a b] ++ pre ∧
      Event.cb .closing .udpSend r st 0 ∈ pre

def silence_after_close_cb_statement : Prop :=
  ∀ (sc : Script) (fuel : Nat) (s : State) (prog : List MainOp) (id : Nat), SInv s → getF s id = none → id < s.nextId →
    ∀ e ∈ ((runMain sc fuel s prog).trace.take ((runMain sc fuel s prog).trace.length - s.trace.length)),
      ∀ ph k a b, e ≠ Event.cb ph k id a b

/-- udp: queued sends are failed with UV_ECANCELED (-125), sends already handed to the kernel keep their
    status, all before the close callback (`uv__udp_finish_close` runs inside `uv__finish_close`, before
    the record is removed) -/
theorem reqs_before_close_cb_partial (sc : Script) (id : Nat) (s : State) :
    udpFinishClose sc .closing id s =
      udpRunCompleted sc .closing id
        (modH s id (fun h => { h with wcq := h.wcq ++ h.wq.map (fun r => (r, (-125 : Int))), wq := [] })) := rfl

/-- a udp handle closed with one send already transmitted (status 0) and one still queued (ECANCELED):
    both callbacks, then the close callback, in that order -/
example :
    let s0 := ([Op.init .udp, .udpSend 2, .udpSend 2, .close 2].foldl stepOp (initLoop 0 false []))
    ((runClosing (fun _ _ _ => []) s0).trace.reverse.filterMap (fun e => match e with
        | .cb _ k i a _ => some (k, i, a) | _ => none)) =
      [(CbKind.udpSend, 0, 0), (CbKind.udpSend, 1, -125), (CbKind.close, 2, 4)] := by decide

/-- a pipe handle with a deferred connect error, closed before the loop delivered it: the connect callback gets
    UV_ECANCELED (-125) in the closing phase, before the close callback; nothing in the pending phase -/
example :
    let s0 := ([Op.init .pipe, .connectBad 2, .close 2].foldl stepOp (initLoop 0 false []))
    s0.pending = [] ∧
    ((runClosing (fun _ _ _ => []) (runPending (fun _ _ _ => []) .pending s0)).trace.reverse.filterMap (fun e => match e with
        | .cb _ k i a _ => some (k, i, a) | _ => none)) = [(CbKind.connect, 0, -125), (CbKind.close, 2, 4)] := by decide

end UvModel.Props.C02
