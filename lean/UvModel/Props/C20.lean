import UvModel.ThreadArith
import UvModel.Lemmas.ThreadLemmas
/-! C20: property theorems about the logic libuv adds on top of pthread/sem
(return-code tables, stack-size computation, timed-wait deadline).  The pthread/sem/kernel
contracts themselves (mutual exclusion, counting, barrier release, once, TLS, "timedwait
returns ETIMEDOUT only at/after abstime") are NOT proved here: they appear as hypotheses. -/
namespace UvModel.ThreadArith

/-! ## trylock / tryrdlock / trywrlock -/

/-- total decision table of `uv_mutex_trylock` / `uv_rwlock_tryrdlock` / `uv_rwlock_trywrlock`:
    returns 0 exactly for 0, `UV_EBUSY` exactly for EBUSY or EAGAIN, aborts exactly for every
    other code; nothing else can come out. -/
theorem trylock_table (err : Int) :
    (trylockMap err = .ret 0 ↔ err = 0) ∧
    (trylockMap err = .ret UV_EBUSY ↔ (err = EBUSY ∨ err = EAGAIN)) ∧
    (trylockMap err = .abort ↔ (err ≠ 0 ∧ err ≠ EBUSY ∧ err ≠ EAGAIN)) ∧
    (trylockMap err = .ret 0 ∨ trylockMap err = .ret UV_EBUSY ∨ trylockMap err = .abort) := by
  unfold trylockMap EBUSY EAGAIN UV_EBUSY
  by_cases h0 : err = 0
  · subst h0; simp
  · by_cases h1 : err = 16
    · subst h1; simp
    · by_cases h2 : err = 11
      · subst h2; simp
      · simp [h0, h1, h2]

/-- "`uv_mutex_trylock` returns `UV_EBUSY` exactly when the mutex is held", *given* pthread's
    contract for `pthread_mutex_trylock` on an error-checking/normal mutex: it answers 0 when
    it acquired the mutex and EBUSY when (and only when) somebody holds it. -/
theorem trylock_ebusy_exact (held : Prop) (err : Int)
    (contract : (held → err = EBUSY) ∧ (¬held → err = 0)) :
    (trylockMap err = .ret UV_EBUSY ↔ held) ∧ (trylockMap err = .ret 0 ↔ ¬held) ∧
    trylockMap err ≠ .abort := by
  have t := trylock_table err
  by_cases h : held
  · have := contract.1 h; subst this
    simp [trylockMap, EBUSY, EAGAIN, UV_EBUSY, h]
  · have := contract.2 h; subst this
    simp [trylockMap, UV_EBUSY, h]

example : trylockMap 16 = .ret (-16) ∧ trylockMap 11 = .ret (-16) ∧ trylockMap 0 = .ret 0 ∧
    trylockMap 22 = .abort ∧ trylockMap (-16) = .abort := by decide

/-! ## sem_trywait -/

/-- final mapping of `uv_sem_trywait`: 0 iff `sem_trywait` succeeded, `UV_EAGAIN` iff it failed
    with errno EAGAIN, abort iff it failed with any other errno. -/
theorem sem_final_table (r e : Int) :
    (semFinal r e = .ret 0 ↔ r = 0) ∧
    (semFinal r e = .ret UV_EAGAIN ↔ (r ≠ 0 ∧ e = EAGAIN)) ∧
    (semFinal r e = .abort ↔ (r ≠ 0 ∧ e ≠ EAGAIN)) := by
  unfold semFinal UV_EAGAIN
  by_cases h0 : r = 0 <;> by_cases h1 : e = EAGAIN <;> simp [h0, h1]

/-- EINTR is retried: any number `n` of interrupted `sem_trywait` calls followed by a call with
    another outcome `(r, e)` yields exactly the mapping of `(r, e)` after `n + 1` calls,
    whatever would come later. -/
theorem sem_trywait_retry (n : Nat) (r e : Int) (rest : List (Int × Int))
    (h : ¬(r = -1 ∧ e = EINTR)) :
    semTrywait (List.replicate n (-1, EINTR) ++ (r, e) :: rest) = some (semFinal r e, n + 1) :=
  retry_eintr semFinal n r e rest h

/-- the loop never gives up on EINTR: a script of interruptions only never produces a result -/
theorem sem_trywait_only_eintr (n : Nat) :
    semTrywait (List.replicate n (-1, EINTR)) = none := retry_only_eintr semFinal n

/-- **`uv_sem_wait` returns only with a token.**  For every script of `sem_wait` answers: if
    `uv_sem_wait` returns (does not abort, is not still looping), then the LAST `sem_wait` call it
    made answered 0 (a token was really taken), every earlier call was an EINTR interruption,
    and no call was made after the successful one.  Hence, given `sem_wait`'s contract
    (0 = one token consumed), no waiter gets through `uv_sem_wait` without a token. -/
theorem sem_wait_returns_with_token (script : List (Int × Int)) (k : Nat)
    (h : semWait script = some (.ret 0, k)) :
    ∃ e rest, script = List.replicate (k - 1) (-1, EINTR) ++ (0, e) :: rest ∧ 0 < k := by
  obtain ⟨r, e, rest, hs, hk, _, ho⟩ := retry_returns_last semWaitFinal script _ k h
  by_cases hr : r = 0
  · subst hr; exact ⟨e, rest, hs, hk⟩
  · simp [semWaitFinal, hr] at ho

/-- EINTR is retried by `uv_sem_wait`: `n` interruptions then success → returns after exactly
    `n + 1` calls; `n` interruptions then any other failure → abort; interruptions only → never
    returns. -/
theorem sem_wait_retry (n : Nat) (r e : Int) (rest : List (Int × Int))
    (h : ¬(r = -1 ∧ e = EINTR)) :
    semWait (List.replicate n (-1, EINTR) ++ (r, e) :: rest)
      = some (if r ≠ 0 then .abort else .ret 0, n + 1) ∧
    semWait (List.replicate n (-1, EINTR)) = none :=
  ⟨retry_eintr semWaitFinal n r e rest h, retry_only_eintr semWaitFinal n⟩

/-- same loop in `uv_sleep` (core.c): it returns only after a `nanosleep` call answered 0, i.e.
    after the (remaining) time really elapsed -/
theorem sleep_returns_after_full_sleep (script : List (Int × Int)) (k : Nat)
    (h : sleepLoop script = some (.ret 0, k)) :
    ∃ e rest, script = List.replicate (k - 1) (-1, EINTR) ++ (0, e) :: rest ∧ 0 < k :=
  sem_wait_returns_with_token script k h

example : semWait [(-1, 4), (-1, 4), (0, 0), (-1, 4)] = some (.ret 0, 3) ∧
    semWait [(-1, 4)] = none ∧ semWait [(-1, 4), (-1, 22)] = some (.abort, 2) := by decide

/-- "`uv_sem_trywait` returns `UV_EAGAIN` at zero", *given* `sem_trywait`'s contract (0 when a
    permit was taken; -1/EAGAIN when the count is zero; -1/EINTR when interrupted): after any
    number of interruptions the result is `UV_EAGAIN` iff the count was zero, 0 otherwise, and
    the wrapper does not abort. -/
theorem sem_trywait_eagain_exact (n : Nat) (zero : Prop) (r e : Int) (rest : List (Int × Int))
    (contract : (zero → r = -1 ∧ e = EAGAIN) ∧ (¬zero → r = 0)) :
    ∃ o, semTrywait (List.replicate n (-1, EINTR) ++ (r, e) :: rest) = some (o, n + 1) ∧
      (o = .ret UV_EAGAIN ↔ zero) ∧ (o = .ret 0 ↔ ¬zero) ∧ o ≠ .abort := by
  by_cases hz : zero
  · obtain ⟨hr, he⟩ := contract.1 hz
    subst hr; subst he
    refine ⟨semFinal (-1) EAGAIN, sem_trywait_retry n _ _ rest (by simp [EAGAIN, EINTR]), ?_⟩
    simp [semFinal, UV_EAGAIN, hz]
  · have hr := contract.2 hz
    subst hr
    refine ⟨semFinal 0 e, sem_trywait_retry n _ _ rest (by simp), ?_⟩
    simp [semFinal, UV_EAGAIN, hz]

example : semTrywait [(-1, 4), (-1, 4), (-1, 11), (0, 0)] = some (.ret (-11), 3) := by decide
example : semTrywait [(-1, 4), (0, 0)] = some (.ret 0, 2) := by decide
example : semTrywait [(-1, 22)] = some (.abort, 1) := by decide

/-! ## cond_timedwait / barrier_wait mappings -/

/-- `uv_cond_timedwait`: 0 iff 0, `UV_ETIMEDOUT` iff ETIMEDOUT, abort iff anything else -/
theorem timedwait_table (r : Int) :
    (timedwaitMap r = .ret 0 ↔ r = 0) ∧
    (timedwaitMap r = .ret UV_ETIMEDOUT ↔ r = ETIMEDOUT) ∧
    (timedwaitMap r = .abort ↔ (r ≠ 0 ∧ r ≠ ETIMEDOUT)) := by
  unfold timedwaitMap UV_ETIMEDOUT ETIMEDOUT
  by_cases h0 : r = 0
  · subst h0; simp
  · by_cases h1 : r = 110
    · subst h1; simp
    · simp [h0, h1]

/-- `uv_barrier_wait` (pthread-barrier build): non-zero (1) exactly for the thread to which
    `pthread_barrier_wait` answered PTHREAD_BARRIER_SERIAL_THREAD, 0 exactly for answer 0,
    abort for every other answer.  Hence "non-zero to exactly one thread per round" follows from
    glibc answering SERIAL_THREAD to exactly one waiter per round (trusted). -/
theorem barrier_wait_table (rc : Int) :
    (barrierWaitMap rc = .ret 1 ↔ rc = SERIAL_THREAD) ∧
    (barrierWaitMap rc = .ret 0 ↔ rc = 0) ∧
    (barrierWaitMap rc = .abort ↔ (rc ≠ 0 ∧ rc ≠ SERIAL_THREAD)) := by
  unfold barrierWaitMap SERIAL_THREAD
  by_cases h0 : rc = 0
  · subst h0; simp
  · by_cases h1 : rc = -1
    · subst h1; simp
    · simp [h0, h1]

/-- the abort-unless-zero wrappers return (nothing but) 0 exactly on 0 -/
theorem must_zero_table (rc : Int) :
    (mustZero rc = .ret 0 ↔ rc = 0) ∧ (mustZero rc = .abort ↔ rc ≠ 0) := by
  unfold mustZero; by_cases h : rc = 0 <;> simp [h]

example : timedwaitMap 110 = .ret (-110) ∧ timedwaitMap 0 = .ret 0 ∧ timedwaitMap 4 = .abort ∧
    barrierWaitMap (-1) = .ret 1 ∧ barrierWaitMap 0 = .ret 0 ∧ barrierWaitMap 22 = .abort := by
  decide

/-! ## init wrappers under failing setup calls; the clock of `uv_hrtime` -/

/-- **no half-configured condvar.**  `uv_cond_init` returns 0 exactly when all four setup calls
    succeeded; a live condvar is left behind exactly in that case, and then its clock was set to
    CLOCK_MONOTONIC (the clock `uv_cond_timedwait` computes the deadline on); with any failing
    call the wrapper returns that call's code negated (never 0, never aborts) and leaves no
    condvar behind. -/
theorem cond_init_all_or_nothing (a b c d : Int) :
    ((condInit a b c d).1 = .ret 0 ↔ (a = 0 ∧ b = 0 ∧ c = 0 ∧ d = 0)) ∧
    ((condInit a b c d).2.1 = true ↔ (condInit a b c d).1 = .ret 0) ∧
    ((condInit a b c d).2.1 = true → (condInit a b c d).2.2 = true) ∧
    (condInit a b c d).1 ≠ .abort ∧
    (¬(a = 0 ∧ b = 0 ∧ c = 0 ∧ d = 0) → ∃ e, e ≠ 0 ∧ (e = a ∨ e = b ∨ e = c ∨ e = d) ∧
        (condInit a b c d).1 = .ret (-e)) := by
  unfold condInit
  by_cases ha : a = 0 <;> by_cases hb : b = 0 <;> by_cases hc : c = 0 <;> by_cases hd : d = 0 <;>
    simp [ha, hb, hc, hd] <;> first | omega | (try exact ⟨_, ‹_›, by simp, rfl⟩)

/-- `uv_mutex_init_recursive`: returns 0 only if every call succeeded (and then the mutex is live
    and RECURSIVE was applied); a failing attribute call aborts; a failing `pthread_mutex_init`
    is reported and leaves no mutex. -/
theorem rmutex_init_all_or_nothing (a b c d : Int) :
    ((rmutexInit a b c d).1 = .ret 0 ↔ (a = 0 ∧ b = 0 ∧ c = 0 ∧ d = 0)) ∧
    ((rmutexInit a b c d).1 = .ret 0 → (rmutexInit a b c d).2 = (true, true)) ∧
    ((a ≠ 0 ∨ b ≠ 0 ∨ d ≠ 0) ↔ (rmutexInit a b c d).1 = .abort) := by
  unfold rmutexInit
  by_cases ha : a = 0 <;> by_cases hb : b = 0 <;> by_cases hc : c = 0 <;> by_cases hd : d = 0 <;>
    simp [ha, hb, hc, hd] <;> omega

/-- the one-call init wrappers and `uv_sem_init` report success iff the platform call succeeded -/
theorem simple_init_exact (err r e : Int) :
    ((simpleInit err).1 = .ret 0 ↔ err = 0) ∧ ((simpleInit err).2 = true ↔ err = 0) ∧
    ((semInit r e).2 = true ↔ r = 0) ∧ (r = 0 → (semInit r e).1 = .ret 0) ∧
    (r ≠ 0 → (semInit r e).1 = .ret (-e)) := by
  unfold simpleInit semInit
  by_cases h : err = 0 <;> by_cases hr : r = 0 <;> simp [h, hr] <;> omega

/-- `uv_thread_create_ex` never creates a thread on a half-configured attribute object -/
theorem attr_setup_exact (a b : Int) :
    (attrSetup a b = none ↔ (a = 0 ∧ b = 0)) ∧ (attrSetup a b ≠ none → attrSetup a b = some .abort) := by
  unfold attrSetup
  by_cases ha : a = 0 <;> by_cases hb : b = 0 <;> simp [ha, hb]

/-- **`uv_hrtime()` / the timed-wait deadline always read CLOCK_MONOTONIC**, whatever a
    UV_CLOCK_FAST caller cached before and whatever `clock_getres` says; precise reads never touch
    the cache; the fast clock is the coarse one only when its resolution is ≤ 1 ms, and once
    chosen it stays. -/
theorem precise_clock_is_monotonic (cache : Int) (res : Option Nat) :
    hrtimeClock false cache res = (CLOCK_MONOTONIC, cache) ∧
    (cache ≠ -1 → hrtimeClock true cache res = (cache, cache)) ∧
    ((hrtimeClock true (-1) res).1 = CLOCK_MONOTONIC_COARSE ↔ ∃ ns, res = some ns ∧ ns ≤ 1000000) ∧
    ((hrtimeClock true (-1) res).1 = CLOCK_MONOTONIC ∨ (hrtimeClock true (-1) res).1 = CLOCK_MONOTONIC_COARSE) := by
  refine ⟨by simp [hrtimeClock], fun h => by simp [hrtimeClock, h], ?_, ?_⟩
  · cases res with
    | none => simp [hrtimeClock, CLOCK_MONOTONIC, CLOCK_MONOTONIC_COARSE]
    | some ns =>
      by_cases h : ns ≤ 1000000 <;> simp [hrtimeClock, CLOCK_MONOTONIC, CLOCK_MONOTONIC_COARSE, h]
  · cases res with
    | none => simp [hrtimeClock]
    | some ns => by_cases h : ns ≤ 1000000 <;> simp [hrtimeClock, h]

example : condInit 0 22 0 0 = (.ret (-22), false, false) ∧ condInit 0 0 0 0 = (.ret 0, true, true) ∧
    condInit 0 0 0 12 = (.ret (-12), false, true) ∧ rmutexInit 0 22 0 0 = (.abort, false, false) ∧
    hrtimeClock false 6 (some 1000000) = (1, 6) ∧ hrtimeClock true (-1) (some 1000000) = (6, 6) ∧
    hrtimeClock true (-1) (some 4000000) = (1, 1) := by decide

/-! ## stack size -/

/-- `uv__min_stack_size` = max(8192, PTHREAD_STACK_MIN) -/
theorem min_stack_size_spec (e : Env) : minStackSize e = max 8192 e.stackMin := by
  unfold minStackSize; split <;> omega

/-- **stack_size_ok.**  For every explicit request `0 < r < 2^64` and every power-of-two page
    size: `UV_EINVAL` is returned exactly when rounding `r` up to a page would exceed
    `SIZE_MAX`; otherwise `pthread_attr_setstacksize` IS called, with a value `s` that fits
    `size_t`, is ≥ the request, ≥ the minimum, is a multiple of the page size (or is the
    minimum itself), and is exactly `max (r rounded up to the next page multiple) minimum`. -/
theorem stack_size_ok (e : Env) (k : Nat) (hk : k ≤ 63) (hp : e.pagesize = 2 ^ k)
    (hmin : e.stackMin < 2 ^ 64) (flags r : Nat)
    (hf : flags &&& UV_THREAD_HAS_STACK_SIZE ≠ 0) (hr0 : 0 < r) (hr : r < 2 ^ 64) :
    (createExStack e flags r = .einval ↔ 2 ^ 64 ≤ r + (e.pagesize - 1)) ∧
    (r + (e.pagesize - 1) < 2 ^ 64 →
      ∃ s, createExStack e flags r = .create (some s) ∧
        r ≤ s ∧ minStackSize e ≤ s ∧ s < 2 ^ 64 ∧
        (s % e.pagesize = 0 ∨ s = minStackSize e) ∧
        s = max (e.pagesize * ((r + e.pagesize - 1) / e.pagesize)) (minStackSize e)) := by
  have hp1 : 0 < 2 ^ k := Nat.pos_of_ne_zero (by simp)
  have hm : minStackSize e < 2 ^ 64 := by unfold minStackSize; split <;> omega
  have hm0 : 0 < minStackSize e := by unfold minStackSize; split <;> omega
  have hr' : r ≠ 0 := by omega
  have hreq : (if flags &&& UV_THREAD_HAS_STACK_SIZE ≠ 0 then r else 0) = r := if_pos hf
  have hround := round_expr r k (by omega)
  unfold createExStack
  simp only [hreq, hr', ↓reduceIte, hp, SIZE_MAX]
  generalize 2 ^ k = p at *
  constructor
  · constructor
    · intro h; split at h
      · omega
      · simp at h
    · intro h; rw [if_pos (by omega)]
  · intro hlt
    rw [if_neg (by omega)]
    have hx : r + p - 1 < 2 ^ 64 := by omega
    rw [hround hx]
    generalize hxe : r + p - 1 = x at *
    have hmod : x % p < p := Nat.mod_lt _ hp1
    have hmul := sub_mod_eq_mul_div x p
    have hdvd : (p * (x / p)) % p = 0 := Nat.mul_mod_right _ _
    by_cases hs : x - x % p < minStackSize e
    · refine ⟨minStackSize e, ?_, ?_, ?_, ?_, ?_, ?_⟩
      · simp [hs, hm0]
      · omega
      · omega
      · omega
      · right; rfl
      · rw [← hmul]; omega
    · refine ⟨x - x % p, ?_, ?_, ?_, ?_, ?_, ?_⟩
      · have : 0 < x - x % p := by omega
        simp [hs, this]
      · omega
      · omega
      · omega
      · left; rw [hmul]; exact hdvd
      · rw [← hmul]; omega

/-- page alignment of the applied size, under the side condition that holds for every real
    configuration (minimum 8192/16384/… with 4 KiB–64 KiB pages): the minimum is itself a page
    multiple. -/
theorem stack_size_aligned (e : Env) (k : Nat) (hk : k ≤ 63) (hp : e.pagesize = 2 ^ k)
    (hmin : e.stackMin < 2 ^ 64) (hal : minStackSize e % e.pagesize = 0) (flags r s : Nat)
    (hf : flags &&& UV_THREAD_HAS_STACK_SIZE ≠ 0) (hr0 : 0 < r) (hr : r < 2 ^ 64)
    (h : createExStack e flags r = .create (some s)) : s % e.pagesize = 0 := by
  have ⟨h1, h2⟩ := stack_size_ok e k hk hp hmin flags r hf hr0 hr
  by_cases hw : r + (e.pagesize - 1) < 2 ^ 64
  · obtain ⟨s', hs', _, _, _, hal', _⟩ := h2 hw
    rw [hs'] at h
    have : s' = s := by injection h with h; injection h
    subst this
    cases hal' with
    | inl h => exact h
    | inr h => rw [h]; exact hal
  · have := h1.2 (by omega)
    rw [this] at h; cases h

/-- the page-multiple `s` chosen is the *least* page multiple ≥ r (no over-allocation by a
    page or more), unless the minimum took over -/
theorem stack_size_tight (e : Env) (k : Nat) (hk : k ≤ 63) (hp : e.pagesize = 2 ^ k)
    (hmin : e.stackMin < 2 ^ 64) (flags r s : Nat)
    (hf : flags &&& UV_THREAD_HAS_STACK_SIZE ≠ 0) (hr0 : 0 < r) (hr : r < 2 ^ 64)
    (h : createExStack e flags r = .create (some s)) :
    s < r + e.pagesize ∨ s = minStackSize e := by
  have ⟨h1, h2⟩ := stack_size_ok e k hk hp hmin flags r hf hr0 hr
  by_cases hw : r + (e.pagesize - 1) < 2 ^ 64
  · obtain ⟨s', hs', _, _, _, _, hmax⟩ := h2 hw
    rw [hs'] at h
    have : s' = s := by injection h with h; injection h
    subst this
    have hp1 : 0 < e.pagesize := by rw [hp]; exact Nat.pos_of_ne_zero (by simp)
    have := sub_mod_eq_mul_div (r + e.pagesize - 1) e.pagesize
    have := Nat.mod_lt (r + e.pagesize - 1) hp1
    omega
  · have := h1.2 (by omega)
    rw [this] at h; cases h

/-- non-vacuity + the L11 point: SIZE_MAX and SIZE_MAX-4094 are refused, SIZE_MAX-4095 is
    accepted with the largest page multiple; unaligned and sub-minimum requests -/
example :
    let e : Env := { pagesize := 4096, stackMin := 16384, rlimOk := true, rlimCur := 8388608 }
    createExStack e 1 (2 ^ 64 - 1) = .einval ∧
    createExStack e 1 (2 ^ 64 - 4095) = .einval ∧
    createExStack e 1 (2 ^ 64 - 4096) = .create (some (2 ^ 64 - 4096)) ∧
    createExStack e 1 1 = .create (some 16384) ∧
    createExStack e 1 (1048576 + 1) = .create (some (1048576 + 4096)) ∧
    createExStack e 1 65536 = .create (some 65536) := by decide

/-- **default_stack_rule.**  With no explicit request (flag clear, or size 0) the function
    never fails early and always sets a stack size `s`: the soft RLIMIT_STACK rounded *down* to
    a page multiple when `getrlimit` succeeded, the limit is finite and the rounded value is
    ≥ the minimum (then `s` is page-aligned, `≤` the limit and within one page of it);
    otherwise exactly 2 MiB. -/
theorem default_stack_rule (e : Env) (hp : 0 < e.pagesize) (flags r : Nat)
    (h : flags &&& UV_THREAD_HAS_STACK_SIZE = 0 ∨ r = 0) :
    ∃ s, createExStack e flags r = .create (some s) ∧
      ((e.rlimOk = true ∧ e.rlimCur ≠ RLIM_INFINITY ∧
          minStackSize e ≤ e.rlimCur - e.rlimCur % e.pagesize) →
        s = e.rlimCur - e.rlimCur % e.pagesize ∧ s % e.pagesize = 0 ∧ s ≤ e.rlimCur ∧
        e.rlimCur < s + e.pagesize ∧ minStackSize e ≤ s) ∧
      (¬(e.rlimOk = true ∧ e.rlimCur ≠ RLIM_INFINITY ∧
          minStackSize e ≤ e.rlimCur - e.rlimCur % e.pagesize) → s = 2097152) := by
  have hm0 : 0 < minStackSize e := by unfold minStackSize; split <;> omega
  have hreq : (if flags &&& UV_THREAD_HAS_STACK_SIZE ≠ 0 then r else 0) = 0 := by
    cases h with
    | inl h => simp [h]
    | inr h => simp [h]
  unfold createExStack
  simp only [hreq, if_true]
  have hmod := Nat.mod_lt e.rlimCur hp
  have hmul := sub_mod_eq_mul_div e.rlimCur e.pagesize
  have hdvd : (e.pagesize * (e.rlimCur / e.pagesize)) % e.pagesize = 0 := Nat.mul_mod_right _ _
  unfold threadStackSize defaultStackSize
  by_cases h1 : e.rlimOk = true
  · by_cases h2 : e.rlimCur = RLIM_INFINITY
    · refine ⟨2097152, by simp [h1, h2], ?_, fun _ => rfl⟩
      intro h; exact absurd h2 h.2.1
    · by_cases h3 : minStackSize e ≤ e.rlimCur - e.rlimCur % e.pagesize
      · refine ⟨e.rlimCur - e.rlimCur % e.pagesize, ?_, ?_, ?_⟩
        · have : 0 < e.rlimCur - e.rlimCur % e.pagesize := by omega
          simp [h1, h2, h3, this]
        · intro _; refine ⟨rfl, ?_, ?_, ?_, h3⟩
          · rw [hmul]; exact hdvd
          · omega
          · omega
        · intro hn; exact absurd ⟨h1, h2, h3⟩ hn
      · refine ⟨2097152, ?_, ?_, fun _ => rfl⟩
        · have : ¬ e.rlimCur - e.rlimCur % e.pagesize ≥ minStackSize e := h3
          simp [h1, h2, this]
        · intro h; exact absurd h.2.2 h3
  · refine ⟨2097152, by simp [h1], ?_, fun _ => rfl⟩
    intro h; exact absurd h.1 h1

example :
    createExStack { pagesize := 4096, stackMin := 16384, rlimOk := true, rlimCur := 8388608 + 77 } 0 0
      = .create (some 8388608) ∧
    createExStack { pagesize := 4096, stackMin := 16384, rlimOk := true, rlimCur := 2 ^ 64 - 1 } 1 0
      = .create (some 2097152) ∧
    createExStack { pagesize := 4096, stackMin := 16384, rlimOk := true, rlimCur := 16383 } 0 99
      = .create (some 2097152) ∧
    createExStack { pagesize := 65536, stackMin := 16384, rlimOk := false, rlimCur := 0 } 0 0
      = .create (some 2097152) := by decide

/-- return value of the whole function: `UV_EINVAL` without reaching pthread in the wrap
    case, otherwise `-(pthread_create's answer)` -/
theorem create_ret (e : Env) (flags r : Nat) (err : Int) :
    (createExStack e flags r = .einval → createEx e flags r err = (none, UV_EINVAL)) ∧
    (∀ ss, createExStack e flags r = .create ss → createEx e flags r err = (ss, -err)) := by
  unfold createEx createRet
  constructor
  · intro h; rw [h]
  · intro ss h; rw [h]

/-! ## timed-wait deadline -/

/-- `uv__hrtime` is exact while seconds*10^9+nanoseconds fits 64 bits (≈ 584 years of uptime) -/
theorem hrtime_exact (sec nsec : Nat) (h : sec * NANOSEC + nsec < 2 ^ 64) :
    hrtime sec nsec = sec * NANOSEC + nsec := by
  unfold hrtime; exact Nat.mod_eq_of_lt h

/-- **deadline_split.**  For all 64-bit `now` (= `uv_hrtime()`) and `timeout`:
    the timespec handed to `pthread_cond_timedwait` is well-formed (`tv_nsec < 10^9`, `tv_sec`
    fits a signed 64-bit `time_t`) and denotes exactly `min (now + timeout) (2^64 - 1)` ns:
    the mathematical sum when it fits, saturated at 2^64-1 ns (≈ 584.5 years on the clock)
    otherwise — never a wrapped-around instant. -/
theorem deadline_split (now timeout : Nat) (hn : now < 2 ^ 64) (_ht : timeout < 2 ^ 64) :
    (deadline now timeout).2 < NANOSEC ∧ (deadline now timeout).1 < 2 ^ 63 ∧
    tsNs (deadline now timeout) = min (now + timeout) (2 ^ 64 - 1) := by
  unfold deadline tsNs NANOSEC
  simp only []
  split
  · refine ⟨by omega, by omega, by omega⟩
  · have h : (timeout + now) % 2 ^ 64 = timeout + now := Nat.mod_eq_of_lt (by omega)
    rw [h]
    refine ⟨by omega, by omega, by omega⟩

/-- the deadline is never earlier than `now + timeout`, except when that sum exceeds what the
    64-bit nanosecond clock can ever show — then it is the clock's last value, which is still
    ≥ every reading `uv_hrtime()` can return (so no reachable early timeout) -/
theorem deadline_not_early (now timeout : Nat) (hn : now < 2 ^ 64) (ht : timeout < 2 ^ 64) :
    (now + timeout < 2 ^ 64 → now + timeout ≤ tsNs (deadline now timeout)) ∧
    (2 ^ 64 ≤ now + timeout → tsNs (deadline now timeout) = 2 ^ 64 - 1) ∧
    now ≤ tsNs (deadline now timeout) := by
  have := (deadline_split now timeout hn ht).2.2
  omega

/-- **timedwait_not_early.**  *Given* `pthread_cond_timedwait`'s contract on the condvar's
    clock (CLOCK_MONOTONIC, selected by `uv_cond_init`; trusted): it answers ETIMEDOUT only if
    the clock reads `tret ≥ abstime` when it returns — `uv_cond_timedwait` returns
    `UV_ETIMEDOUT` only when `tret - now ≥ timeout` (at least the timeout has elapsed on
    `uv_hrtime`), or — sum beyond the 64-bit clock — only when the clock shows its last value
    2^64-1. -/
theorem timedwait_not_early (now timeout tret : Nat) (r : Int)
    (hn : now < 2 ^ 64) (ht : timeout < 2 ^ 64)
    (contract : r = ETIMEDOUT → tsNs (deadline now timeout) ≤ tret)
    (hret : timedwaitMap r = .ret UV_ETIMEDOUT) :
    (now + timeout < 2 ^ 64 → timeout ≤ tret - now) ∧
    (2 ^ 64 ≤ now + timeout → 2 ^ 64 - 1 ≤ tret) := by
  have hr := (timedwait_table r).2.1.1 hret
  have := contract hr
  have := deadline_not_early now timeout hn ht
  omega

/-- a zero timeout at a well-formed clock reading gives back that reading -/
theorem deadline_zero_roundtrip (sec nsec : Nat) (hns : nsec < NANOSEC)
    (h : sec * NANOSEC + nsec < 2 ^ 64) : deadline (hrtime sec nsec) 0 = (sec, nsec) := by
  rw [hrtime_exact sec nsec h]
  unfold deadline NANOSEC at *
  simp only []
  rw [if_neg (by omega), Nat.mod_eq_of_lt (by omega)]
  ext <;> simp <;> omega

example : deadline 1999999999 2000000001 = (4, 0) ∧
    deadline 1 (2 ^ 64 - 1) = (18446744073, 709551615) ∧
    deadline (2 ^ 64 - 1) 0 = (18446744073, 709551615) ∧
    deadline 5 (2 ^ 64 - 6) = (18446744073, 709551615) ∧
    deadline 123456789012 0 = (123, 456789012) := by decide

end UvModel.ThreadArith
