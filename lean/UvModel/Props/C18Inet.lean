import UvModel.Inet
import UvModel.Lemmas.InetLemmas
/-!
  C18 (address half): property theorems over the model `UvModel.Inet` of src/inet.c,
  src/uv-common.c:254-321 and src/strscpy.c.  Bytes/chars are `Nat` byte values; text constants:
  46 = '.', 58 = ':', 37 = '%', 48.. = '0'...  Grammar (`DottedQuad`, `Ipv6Text`) is in UvModel/Inet.lean.
-/
namespace UvModel.Props.C18Inet
open UvModel.Inet

/-! ## uv__strscpy -/

/-- never writes at or past index `n`, never changes the buffer length (any `d`, `s`, `n`) -/
theorem strscpy_never_past_size (d s : List Nat) (n : Nat) :
    (strscpy d s n).2.length = d.length ∧ (strscpy d s n).2.drop n = d.drop n :=
  ⟨strscpyLoop_len s n 0 d, strscpyLoop_frame s n 0 d (Nat.zero_le _)⟩

/-- with `n > 0` the destination always holds a NUL-terminated string inside the first `n` bytes:
    the longest prefix of the source that fits (`n-1` chars) -/
theorem strscpy_nul_terminates (d s : List Nat) (n : Nat) (h0 : 0 < n) (hn : n ≤ d.length)
    (hmax : n ≤ SSIZE_MAX + 1) :
    cstr (strscpy d s n).2 = (cstr s).take (n - 1) ∧ (cstr (strscpy d s n).2).length < n := by
  have hz := cstr_ne_zero s
  rw [strscpy_spec d s n hn hmax, if_neg (by omega)]
  split
  · rename_i h
    dsimp only
    rw [cstr_append_nul _ _ hz, List.take_of_length_le (by omega)]
    exact ⟨rfl, h⟩
  · rename_i h
    have hz' : ∀ c ∈ (cstr s).take (n - 1), c ≠ 0 := fun c hc => hz c (List.mem_of_mem_take hc)
    dsimp only
    rw [cstr_append_nul _ _ hz']
    exact ⟨rfl, by simp; omega⟩

/-- returns `UV_E2BIG` iff the source did not fit (was truncated); otherwise the source length -/
theorem strscpy_e2big_iff_truncated (d s : List Nat) (n : Nat) (h0 : 0 < n) (hn : n ≤ d.length)
    (hmax : n ≤ SSIZE_MAX + 1) :
    ((strscpy d s n).1 = UV_E2BIG ↔ n ≤ (cstr s).length) ∧
    ((cstr s).length < n → (strscpy d s n).1 = (cstr s).length) := by
  rw [strscpy_spec d s n hn hmax, if_neg (by omega)]
  split
  · rename_i h
    refine ⟨⟨fun he => ?_, fun hle => by omega⟩, fun _ => rfl⟩
    simp [UV_E2BIG] at he
  · rename_i h
    exact ⟨⟨fun _ => by omega, fun _ => rfl⟩, fun hlt => by omega⟩

example : strscpy [170, 170, 170, 170] [104, 105] 4 = (2, [104, 105, 0, 170]) := by
  rw [strscpy_spec _ _ _ (by decide) (by unfold SSIZE_MAX; omega)]; decide
example : strscpy [170, 170, 170, 170] [104, 105, 106, 107, 108] 4 = (UV_E2BIG, [104, 105, 106, 0]) := by
  rw [strscpy_spec _ _ _ (by decide) (by unfold SSIZE_MAX; omega)]; decide

/-! ## inet_pton4 -/

/-- `inet_pton4` accepts exactly the dotted-quad grammar, with the grammar's value -/
theorem pton4_accepts_iff_spec (s v : List Nat) : pton4 s = some v ↔ DottedQuad s v := by
  rw [pton4_iff_fmt4, dottedQuad_iff]

/-- an accepted value is four bytes, each the decimal value (≤ 255) of its octet text -/
theorem pton4_value (s v : List Nat) (h : pton4 s = some v) :
    ∃ t1 t2 t3 t4 a b c d, s = t1 ++ 46 :: (t2 ++ 46 :: (t3 ++ 46 :: t4)) ∧ v = [a, b, c, d] ∧
      a = decVal t1 ∧ b = decVal t2 ∧ c = decVal t3 ∧ d = decVal t4 ∧ a ≤ 255 ∧ b ≤ 255 ∧ c ≤ 255 ∧ d ≤ 255 := by
  obtain ⟨t1, t2, t3, t4, a, b, c, d, h1, h2, h3, h4, hs, hv⟩ := (pton4_accepts_iff_spec s v).1 h
  exact ⟨t1, t2, t3, t4, a, b, c, d, hs, hv, h1.2.2.2.2.1.symm, h2.2.2.2.2.1.symm, h3.2.2.2.2.1.symm,
    h4.2.2.2.2.1.symm, h1.2.2.2.2.2, h2.2.2.2.2.2, h3.2.2.2.2.2, h4.2.2.2.2.2⟩

example : pton4 [49, 50, 55, 46, 48, 46, 48, 46, 49] = some [127, 0, 0, 1] := by decide   -- "127.0.0.1"
example : pton4 [49, 46, 50, 46, 51, 46, 48, 52] = none := by decide                     -- "1.2.3.04"
example : pton4 [50, 53, 54, 46, 48, 46, 48, 46, 49] = none := by decide                 -- "256.0.0.1"

/-! ## inet_ntop4 -/

/-- the printed text has 7..15 characters: `tmp[16]` never truncates -/
theorem ntop4_len (src : List Nat) : 7 ≤ (fmt4 src).length ∧ (fmt4 src).length ≤ 15 := fmt4_len src

/-- round trip for all 2^32 addresses: what `inet_ntop4` prints parses back to the same bytes -/
theorem ntop4_pton4 (a b c d : Nat) (ha : a ≤ 255) (hb : b ≤ 255) (hc : c ≤ 255) (hd : d ≤ 255) :
    pton4 (fmt4 [a, b, c, d]) = some [a, b, c, d] := pton4_fmt4 a b c d ha hb hc hd

/-- … and it is the only accepted spelling of that address -/
theorem pton4_canonical (s : List Nat) (a b c d : Nat) (h : pton4 s = some [a, b, c, d]) : s = fmt4 [a, b, c, d] := by
  obtain ⟨a', b', c', d', _, _, _, _, hv, hs⟩ := (pton4_iff_fmt4 s _).1 h
  simp at hv; obtain ⟨rfl, rfl, rfl, rfl⟩ := hv; exact hs

/-- `size ≤ len` ⇒ UV_ENOSPC and the buffer is untouched; otherwise exactly text ++ NUL is stored and
    every byte after it (in particular everything at or past `size`) is unchanged -/
theorem ntop4_enospc_iff (src d : List Nat) (size : Nat) (hn : size ≤ d.length) (hmax : size ≤ SSIZE_MAX + 1) :
    ntop4 src d size =
      if size ≤ (fmt4 src).length then (UV_ENOSPC, d)
      else (0, fmt4 src ++ 0 :: d.drop ((fmt4 src).length + 1)) := ntop4_spec src d size hn hmax

/-- the full path through the buffer: success ⇒ the C string left in `dst` parses back to the address -/
theorem uv_ip4_name_addr_roundtrip (a b c d : Nat) (ha : a ≤ 255) (hb : b ≤ 255) (hc : c ≤ 255) (hd : d ≤ 255)
    (dst : List Nat) (size : Nat) (hn : size ≤ dst.length) (hmax : size ≤ SSIZE_MAX + 1)
    (hok : (uvIp4Name [a, b, c, d] dst size).1 = 0) :
    uvIp4Addr (cstr (uvIp4Name [a, b, c, d] dst size).2) = (0, [a, b, c, d]) := by
  simp only [uvIp4Name, uvInetNtop, uvIp4Addr, uvInetPton, if_true] at hok ⊢
  rw [ntop4_spec _ _ _ hn hmax] at hok ⊢
  split at hok
  · simp [UV_ENOSPC] at hok
  · rename_i h
    rw [if_neg h]
    simp only []
    rw [cstr_append_nul _ _ (fmt4_ne_zero _), pton4_fmt4 a b c d ha hb hc hd]; rfl

example : ntop4 [192, 168, 0, 1] (List.replicate 12 170) 12 = (0, [49, 57, 50, 46, 49, 54, 56, 46, 48, 46, 49, 0]) := by
  rw [ntop4_spec _ _ _ (by decide) (by unfold SSIZE_MAX; omega)]; decide
example : ntop4 [192, 168, 0, 1] (List.replicate 11 170) 11 = (UV_ENOSPC, List.replicate 11 170) := by
  rw [ntop4_spec _ _ _ (by decide) (by unfold SSIZE_MAX; omega)]; decide

/-! ## inet_ntop6 -/

/-- for every 16-byte address `inet_ntop6` produces a text (the inner `inet_ntop4` never fails),
    of at most 45 characters (it fits `tmp[46]` with its NUL; the bound proved is 41) -/
theorem ntop6_len (src : List Nat) (hsrc : ∀ j, src.getD j 0 < 256) :
    ∃ t, ntop6Text src = .ok t ∧ t.length ≤ 45 := by
  obtain ⟨t, ht, hl, _⟩ := ntop6Text_ok src hsrc
  exact ⟨t, ht, by omega⟩

/-- the text consists of `0-9`, `a-f`, ':' and '.' only (in particular no NUL) -/
theorem ntop6_charset (src t : List Nat) (hsrc : ∀ j, src.getD j 0 < 256) (ht : ntop6Text src = .ok t) :
    ∀ c ∈ t, (48 ≤ c ∧ c ≤ 57) ∨ (97 ≤ c ∧ c ≤ 102) ∨ c = 58 ∨ c = 46 := by
  obtain ⟨t', ht', _, hc⟩ := ntop6Text_ok src hsrc
  rw [ht] at ht'; cases ht'; exact hc

/-- `size ≤ len` ⇒ UV_ENOSPC, buffer untouched; otherwise exactly text ++ NUL, rest unchanged -/
theorem ntop6_enospc_iff (src d : List Nat) (size : Nat) (hsrc : ∀ j, src.getD j 0 < 256)
    (hn : size ≤ d.length) (hmax : size ≤ SSIZE_MAX + 1) :
    ∃ t, ntop6Text src = .ok t ∧
      ntop6 src d size = if size ≤ t.length then (UV_ENOSPC, d) else (0, t ++ 0 :: d.drop (t.length + 1)) := by
  obtain ⟨t, ht, _, hc⟩ := ntop6Text_ok src hsrc
  exact ⟨t, ht, ntop6_spec src d t size ht (fun c h => okChar6_ne_zero c (hc c h)) hn hmax⟩

-- 2001:db8::1  and ::ffff:1.2.3.4
example : ntop6Text [0x20, 0x01, 0x0d, 0xb8, 0, 0, 0, 0, 0, 0, 0, 0, 0, 0, 0, 1]
    = .ok [50, 48, 48, 49, 58, 100, 98, 56, 58, 58, 49] := by
  simp [ntop6Text, fmt6Loop, words, bestRun, finishScan, scanStep, colon, fmtX16, hexDigit, List.range, List.range.loop]
example : ntop6Text [0, 0, 0, 0, 0, 0, 0, 0, 0, 0, 0xff, 0xff, 1, 2, 3, 4]
    = .ok [58, 58, 102, 102, 102, 102, 58, 49, 46, 50, 46, 51, 46, 52] := by
  simp [ntop6Text, fmt6Loop, words, bestRun, finishScan, scanStep, colon, fmtX16, hexDigit, List.range, List.range.loop, embedV4, ntop4, fmt4, fmtU8, strscpy, strscpyLoop, cstr]

/-! ## inet_pton6 -/

/-- `inet_pton6` accepts exactly the RFC 4291 text grammar `Ipv6Text` (forms x:x:x:x:x:x:x:x, "::"
    compression, trailing dotted quad), and the bytes returned are the grammar's value (groups in order,
    zeros where "::" stood, quad bytes last).  Soundness and completeness. -/
theorem pton6_accepts_iff_spec (s v : List Nat) : pton6 s = some v ↔ Ipv6Text s v := pton6_iff s v

/-- the accepted value is a function of the text (the grammar is unambiguous on values) -/
theorem ipv6Text_value_unique (s v v' : List Nat) (h : Ipv6Text s v) (h' : Ipv6Text s v') : v = v' := by
  have a := (pton6_iff s v).2 h
  have b := (pton6_iff s v').2 h'
  rw [a] at b; exact Option.some.inj b

/-- an accepted value is exactly 16 bytes, each < 256 (what `memcpy(dst, tmp, 16)` stores) -/
theorem pton6_value_bytes (s v : List Nat) (h : pton6 s = some v) : v.length = 16 ∧ ∀ b ∈ v, b < 256 :=
  ipv6Text_value s v (pton6_sound s v h)

/-- no accepted text is longer than 45 characters -/
theorem pton6_accept_len (s v : List Nat) (h : pton6 s = some v) : s.length ≤ 45 := pton6_len s v h

example : pton6 [58, 58, 49] = some [0, 0, 0, 0, 0, 0, 0, 0, 0, 0, 0, 0, 0, 0, 0, 1] := by decide          -- "::1"
example : pton6 [49, 58, 58] = some [0, 1, 0, 0, 0, 0, 0, 0, 0, 0, 0, 0, 0, 0, 0, 0] := by decide          -- "1::"
example : pton6 [58, 58, 102, 102, 102, 102, 58, 49, 46, 50, 46, 51, 46, 52]
    = some [0, 0, 0, 0, 0, 0, 0, 0, 0, 0, 0xff, 0xff, 1, 2, 3, 4] := by decide                              -- "::ffff:1.2.3.4"
example : pton6 [58, 49] = none := by decide                                                               -- ":1"
example : pton6 [49, 58, 58, 50, 58, 58, 51] = none := by decide                                           -- "1::2::3"

/-! ## inet_pton6 ∘ inet_ntop6 round trip -/

/-- for every 16-byte address (all 2^128, every zero-run shape, both embedded-IPv4 forms) `inet_ntop6` prints a
    text that `inet_pton6` parses back to exactly that address -/
theorem ntop6_pton6 (src : List Nat) (hl : src.length = 16) (hby : ∀ x ∈ src, x < 256) :
    ∃ t, ntop6Text src = .ok t ∧ pton6 t = some src := ntop6_pton6_all src hl hby

/-- … and the printed text is RFC 4291 text denoting that address -/
theorem ntop6_in_grammar (src : List Nat) (hl : src.length = 16) (hby : ∀ x ∈ src, x < 256) :
    ∃ t, ntop6Text src = .ok t ∧ Ipv6Text t src := by
  obtain ⟨t, ht, hp⟩ := ntop6_pton6_all src hl hby
  exact ⟨t, ht, pton6_sound t src hp⟩

/-- the zero run chosen for "::" is a run of at least two zero words inside the address (or none) -/
theorem ntop6_best_run_is_zero_run (ws : List Nat) :
    (bestRun ws).base = -1 ∨ (0 ≤ (bestRun ws).base ∧ 2 ≤ (bestRun ws).len ∧ (bestRun ws).base + (bestRun ws).len ≤ 8 ∧
      ∀ j : Nat, (bestRun ws).base ≤ j → (j : Int) < (bestRun ws).base + (bestRun ws).len → ws.getD j 0 = 0) :=
  bestRun_spec ws

/-- through the API with a real buffer: a successful `uv_ip6_name` leaves a C string that `uv_ip6_addr` maps back -/
theorem uv_ip6_name_addr_roundtrip (src dst : List Nat) (size : Nat) (hl : src.length = 16) (hby : ∀ x ∈ src, x < 256)
    (hn : size ≤ dst.length) (hmax : size ≤ SSIZE_MAX + 1) (hok : (uvIp6Name src dst size).1 = 0) :
    uvIp6Addr (cstr (uvIp6Name src dst size).2) = (0, src) := by
  have hsrc : ∀ j, src.getD j 0 < 256 := getD_lt_of_all src hby
  obtain ⟨t, ht, hp⟩ := ntop6_pton6_all src hl hby
  obtain ⟨t', ht', _, hc⟩ := ntop6Text_ok src hsrc
  rw [ht] at ht'; cases ht'
  have hz : ∀ c ∈ t, c ≠ 0 := fun c h => okChar6_ne_zero c (hc c h)
  have hnp : 37 ∉ t := by
    intro h; have := hc 37 h; unfold OkChar6 at this; omega
  have e : uvIp6Name src dst size = ntop6 src dst size := by
    simp [uvIp6Name, uvInetNtop, AF_INET, AF_INET6]
  rw [e, ntop6_spec src dst t size ht hz hn hmax] at hok ⊢
  split at hok
  · simp [UV_ENOSPC] at hok
  · rename_i h
    rw [if_neg h]
    dsimp only
    rw [cstr_append_nul _ _ hz]
    simp [uvIp6Addr, hnp, uvInetPton6_nopct t hnp, hp, ofOpt]

example : pton6 [50, 48, 48, 49, 58, 100, 98, 56, 58, 58, 49]
    = some [0x20, 0x01, 0x0d, 0xb8, 0, 0, 0, 0, 0, 0, 0, 0, 0, 0, 0, 1] := by decide

/-! ## %zone handling -/

/-- `uv_inet_pton(AF_INET6, a%z)` ignores the zone: same result as the bare address, for every `a`, `z` -/
theorem inetpton6_zone (a z : List Nat) (h : 37 ∉ a) :
    uvInetPton AF_INET6 (a ++ 37 :: z) = uvInetPton AF_INET6 a := by
  rw [uvInetPton6_zone a z h, uvInetPton6_nopct a h]

/-- `uv_ip6_addr(a ++ "%" ++ z)` gives the same accept/reject and bytes as `uv_inet_pton(AF_INET6, a)`
    for every address part `a` without '%', of any length (46-byte `address_part`, ≥ 46 ⇒ EINVAL) -/
theorem ip6addr_zone (a z : List Nat) (h : 37 ∉ a) :
    uvIp6Addr (a ++ 37 :: z) = uvInetPton AF_INET6 a := uvIp6Addr_zone a z h

example : uvIp6Addr [58, 58, 49, 37, 108, 111] = (0, [0, 0, 0, 0, 0, 0, 0, 0, 0, 0, 0, 0, 0, 0, 0, 1]) := by decide  -- "::1%lo"

end UvModel.Props.C18Inet
