import UvModel.Inet
import UvModel.Lemmas.InetLemmas
namespace UvModel.Props.C18Inet
end UvModel.Props.C18Inet
