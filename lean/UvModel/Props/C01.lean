import UvModel.Lemmas.LoopRunInv
import UvModel.Lemmas.LoopReqs2
import UvModel.Lemmas.LoopReqs3
/-!
  C01 — loop liveness.  Theorems over the LoopModel (`HandleKernels`, `Loop`, `LoopRun`);
  `Script` = what every callback invocation does (arbitrary), `prog` = arbitrary main program,
  `oracle` = arbitrary poller answers.  Helper lemmas live in `Lemmas/Loop*.lean`.
-/
namespace UvModel.Props.C01
open UvModel.HandleKernels UvModel.Loop

/-! ### uv_ref / uv_unref (on the macro kernels tied to the C macros by GenEq) -/
theorem ref_idem (k : HK) : handleRef (handleRef k) = handleRef k := by
  rcases k with ⟨a, r, c, d, i, n⟩
  cases a <;> cases r <;> cases c <;> simp [handleRef]

theorem unref_idem (k : HK) : handleUnref (handleUnref k) = handleUnref k := by
  rcases k with ⟨a, r, c, d, i, n⟩
  cases a <;> cases r <;> cases c <;> simp [handleUnref]

theorem ref_keeps_active (k : HK) : isActive (handleRef k) = isActive k ∧ isClosing (handleRef k) = isClosing k := by
  rcases k with ⟨a, r, c, d, i, n⟩
  cases a <;> cases r <;> cases c <;> simp [handleRef, isActive, isClosing]

theorem unref_keeps_active (k : HK) : isActive (handleUnref k) = isActive k ∧ isClosing (handleUnref k) = isClosing k := by
  rcases k with ⟨a, r, c, d, i, n⟩
  cases a <;> cases r <;> cases c <;> simp [handleUnref, isActive, isClosing]

/-- an active, unreferenced handle: `ref` changes flags and counter, a second `ref` nothing -/
example : handleRef ⟨true, false, false, false, false, 3⟩ = ⟨true, true, false, false, false, 4⟩ ∧
    handleRef ⟨true, true, false, false, false, 4⟩ = ⟨true, true, false, false, false, 4⟩ := by decide
/-- on a closing handle ref/unref flip the flag but never touch the counter -/
example : handleUnref ⟨false, true, true, false, false, 2⟩ = ⟨false, false, true, false, false, 2⟩ := by decide

/-! ### the counter invariant -/
theorem initLoop_inv (clock0 : Nat) (metrics : Bool) (oracle : List PollRes) : SInv (initLoop clock0 metrics oracle) := by
  unfold initLoop
  simp only
  have h0 : SInv ({ clock := clock0, metrics := metrics, oracle := oracle } : State) :=
    ⟨⟨rfl, by intro e he; cases he⟩, by intro e he; cases he⟩
  have h1 : SInv (ioStart { updateTime ({ clock := clock0, metrics := metrics, oracle := oracle } : State) with wSignal := { hasFd := true } } .signal POLLIN) :=
    SInv.of_sig (s := ({ clock := clock0, metrics := metrics, oracle := oracle } : State)) (by rw [sig_ioStart]; rfl) h0
  have h2 := addHandle_inv _ .signal h1
  have h3 := Steps.inv (s' := withKernel _ 0 handleUnref) ⟨CStep.unref _ _, rfl⟩ h2
  have h4 := Steps.inv (s' := withKernel _ 0 setInternal) ⟨CStep.setInternal _ _, rfl⟩ h3
  have h5 : SInv (ioStart { withKernel _ 0 setInternal with wAsync := { hasFd := true } } .async POLLIN) :=
    SInv.of_sig (by rw [sig_ioStart]; rfl) h4
  have h6 := initH_inv _ .async h5
  have h7 := Steps.inv (s' := withKernel _ 1 handleUnref) ⟨CStep.unref _ _, rfl⟩ h6
  exact Steps.inv (s' := withKernel _ 1 setInternal) ⟨CStep.setInternal _ _, rfl⟩ h7

/-- `count_inv`: for every script, poller behaviour and main program, after the program
    `loop->active_handles` equals the number of handles that are ACTIVE ∧ REF ∧ ¬CLOSING, it is
    non-negative, and no handle is CLOSING and ACTIVE (every `uv_close` path ends in
    `uv__handle_stop`).  Every prefix of a program is a program, so this is every API boundary of
    `main`; `count_inv_in_callbacks` covers the boundaries inside callbacks. -/
theorem count_inv (sc : Script) (fuel clock0 : Nat) (metrics : Bool) (oracle : List PollRes) (prog : List MainOp) :
    let s := runMain sc fuel (initLoop clock0 metrics oracle) prog
    s.c.ah = countAR s.c.fl ∧ 0 ≤ s.c.ah ∧ ∀ e ∈ s.c.fl, e.2.closing = true → e.2.active = false := by
  intro s
  have hi : SInv s := runMain_inv sc fuel prog _ (initLoop_inv clock0 metrics oracle)
  exact ⟨hi.core.count, hi.core.count ▸ countAR_nonneg _, hi.core.closInact⟩

/-- the same invariant holds after every single API call, wherever it is issued (main or callback),
    and after every callback, phase and `uv_run` (see `Lemmas/LoopRunInv.lean` for each phase) -/
theorem count_inv_in_callbacks (s : State) (hi : SInv s) :
    (∀ o, SInv (stepOp s o)) ∧ (∀ ops : List Op, SInv (ops.foldl stepOp s)) ∧
    (∀ sc ph k key id a b occ, SInv (runCb sc ph k key id a b occ s)) ∧
    (∀ sc mode, SInv (iteration sc mode s)) :=
  ⟨fun o => stepOp_inv s o hi, fun ops => foldl_stepOp_inv ops s hi,
   fun sc ph k key id a b occ => runCb_inv sc ph k key id a b occ s hi, fun sc mode => iteration_inv sc mode s hi⟩

/-- non-vacuity: a timer started, unref'd, closed from main, then a run -/
example : (runMain (fun _ _ _ => [Op.stopLoop]) 10 (initLoop 1000 false [{ clock := 1000 }])
      [MainOp.op (.init .timer), MainOp.op (.start 2 5 0), MainOp.op (.unref 2), MainOp.op (.ref 2)]).c.ah = 1 := by decide

theorem countAR_pos_iff (fl : List (Nat × HFlags)) :
    0 < countAR fl ↔ ∃ e ∈ fl, e.2.active = true ∧ e.2.ref = true ∧ e.2.closing = false := by
  induction fl with
  | nil => simp [countAR]
  | cons e t ih =>
    have ht := countAR_nonneg t
    simp only [countAR, cInd, List.mem_cons, exists_eq_or_imp]
    constructor
    · intro h
      by_cases hc : (e.2.active && e.2.ref && !e.2.closing) = true
      · left; simpa [and_assoc] using hc
      · right; simp [hc] at h; exact ih.mp h
    · rintro (h | h)
      · simp [h.1, h.2.1, h.2.2]; omega
      · have := ih.mpr h; split <;> omega

/-- `alive_iff` (as far as the counters go): under the accounting invariant, `uv_loop_alive()` is true
    exactly when some handle is ACTIVE ∧ REF ∧ ¬CLOSING, or `active_reqs > 0`, or a watcher sits in the
    pending queue, or `closing_handles` is non-empty. -/
theorem alive_iff (s : State) (hi : SInv s) :
    alive s = true ↔ (∃ e ∈ s.c.fl, e.2.active = true ∧ e.2.ref = true ∧ e.2.closing = false) ∨ 0 < s.ar ∨
      s.pending ≠ [] ∨ s.closing ≠ [] := by
  rw [← countAR_pos_iff, ← hi.core.count]
  simp [alive, loopAlive, hasActiveHandles, hasActiveReqs, pendingEmpty, closingNull, or_assoc]

/-- the full property text wants the third and fourth disjunct to be "a request is owed a callback" and
    "a closing handle has not had its close_cb".  Two deviations of the code (model and implementation agree,
    reproduced on the real library, recorded as findings): -/
def alive_iff_full_statement : Prop :=
  ∀ (sc : Script) (fuel clock0 : Nat) (metrics : Bool) (oracle : List PollRes) (prog : List MainOp),
    let s := runMain sc fuel (initLoop clock0 metrics oracle) prog
    alive s = true ↔ (∃ e ∈ s.c.fl, e.2.active = true ∧ e.2.ref = true ∧ e.2.closing = false) ∨ s.reqs ≠ [] ∨
      (∃ e ∈ s.c.fl, e.2.closing = true ∧ e.2.closed = false)

def pending_inv_statement : Prop :=
  ∀ (sc : Script) (fuel clock0 : Nat) (metrics : Bool) (oracle : List PollRes) (prog : List MainOp),
    let s := runMain sc fuel (initLoop clock0 metrics oracle) prog
    s.pending ≠ [] → 0 < s.ar

/-- `pending_inv` is FALSE of the code: two back-to-back `uv_udp_send`s; the pending phase runs
    `uv__udp_io`, whose `uv__udp_sendmsg` sends the queued one and feeds the watcher again, then
    `uv__udp_run_completed` reports both: pending queue non-empty, nothing owed, handle stopped. -/
theorem pending_inv_false :
    let s0 := (([Op.init .udp, .udpSend 2, .udpSend 2].foldl stepOp (initLoop 1000 false [])))
    let s := runPending (fun _ _ _ => []) .pending s0
    s.pending = [2] ∧ s.ar = 0 ∧ s.reqs = [] ∧ alive s = true ∧ countAR s.c.fl = 0 ∧ s.closing = [] := by decide

/-- `pending_inv_partial`: whenever the pending queue is empty, `uv_loop_alive()` is exactly the
    documented three-way condition on the counters and the closing list -/
theorem pending_inv_partial (s : State) (hi : SInv s) (hp : s.pending = []) :
    alive s = true ↔ (∃ e ∈ s.c.fl, e.2.active = true ∧ e.2.ref = true ∧ e.2.closing = false) ∨ 0 < s.ar ∨ s.closing ≠ [] := by
  rw [alive_iff s hi]; simp [hp]

/-- inside the closing phase `uv__run_closing_handles` has detached the list: `uv_loop_alive()` is false in
    the first close callback although a second closing handle still awaits its close callback -/
theorem alive_in_close_phase_witness :
    let s0 := ([Op.init .idle, .init .idle, .close 2, .close 3].foldl stepOp (initLoop 1000 false []))
    let s1 := { s0 with closingLocal := s0.closing, closing := [] }          -- first two lines of runClosing
    let s2 := withKernel (withKernel s1 3 setClosed) 3 handleUnref            -- uv__finish_close(h1) up to the callback
    alive s2 = false ∧ s2.closingLocal = [3, 2] ∧ s2.c.get 2 = some ⟨false, true, true, false, false⟩ := by decide

/-- `alive_iff_full_statement` is FALSE of the code at API boundaries of `main`, for the `pending_inv` reason:
    `uv_run` makes at most 8 extra passes over the pending queue after polling (`uv__run_pending` loop in
    `uv_run`, core.c).  Two back-to-back `uv_udp_send`s, and the send callbacks of requests 1..9 each issue one more
    `uv_udp_send`: the pending phase, the poll phase (socket writable) and every extra pass send the queued
    datagram (re-feeding the watcher) and complete it; after the 8th extra pass the watcher is still in the pending
    queue, nothing is owed, the handle has been stopped, nothing is closing — and `uv_run(UV_RUN_NOWAIT)` returns 1
    with `uv_loop_alive()` true.  Replayed on the real library (harness/sim_loop.c, lines
    `on r1..r9 0 udp_send h0; op init udp; op udp_send h0 (x2); op run NOWAIT`): `ret 1`,
    `obs alive=1 ah=0 ar=0 pq=h0 h0=-R-`, identical to the model's trace. -/
def chainScript : Script := fun key _ _ =>
  match key with
  | .r r => if 1 ≤ r ∧ r ≤ 9 then [Op.udpSend 2] else []
  | _ => []

def chainProg : List MainOp :=
  [MainOp.op (.init .udp), MainOp.op (.udpSend 2), MainOp.op (.udpSend 2), MainOp.run .nowait]

/-- the poller reports the udp socket writable (POLLOUT is armed by the second send), as the real one does -/
def chainOracle : List PollRes := [{ clock := 1000, batch := [(.h 2, 4)] }]

theorem alive_iff_full_witness :
    let s := runMain chainScript 5 (initLoop 1000 false chainOracle) chainProg
    alive s = true ∧ s.pending = [2] ∧ s.ar = 0 ∧ s.reqs = [] ∧ s.closing = [] ∧ s.nextReq = 11 ∧ s.halted = false ∧
      s.c.fl.map (fun e => (e.1, e.2.active, e.2.closing)) = [(0, false, false), (1, true, false), (2, false, false)] ∧
      s.c.get 1 = some ⟨true, false, false, false, true⟩ := by decide +kernel

theorem alive_iff_full_false : ¬ alive_iff_full_statement := by
  intro h
  have := h chainScript 5 1000 false chainOracle chainProg
  revert this
  decide +kernel

/-- `alive_iff` at every API boundary of `main`, with the request disjunct in its documented form ("a request is
    owed a callback", by `reqs_inv`) — the corrected `alive_iff_full_statement`: the pending-queue disjunct cannot
    be dropped (`alive_iff_full_false`), and the closing disjunct is the loop's `closing_handles` list — at these boundaries
    exactly the CLOSING ∧ ¬CLOSED handles (`closing_iff`, `alive_iff_documented`); inside the closing phase it is
    detached, see `alive_in_close_phase_witness`. -/
theorem alive_iff_boundary (sc : Script) (fuel clock0 : Nat) (metrics : Bool) (oracle : List PollRes) (prog : List MainOp) :
    let s := runMain sc fuel (initLoop clock0 metrics oracle) prog
    alive s = true ↔ (∃ e ∈ s.c.fl, e.2.active = true ∧ e.2.ref = true ∧ e.2.closing = false) ∨ s.reqs ≠ [] ∨
      s.pending ≠ [] ∨ s.closing ≠ [] := by
  intro s
  have hi : SInv s := runMain_inv sc fuel prog _ (initLoop_inv clock0 metrics oracle)
  have hr : Reqs.RInv none s := Reqs.runMain_rinv sc fuel prog _ (Reqs.initLoop_rinv clock0 metrics oracle)
  have har : 0 < s.ar ↔ s.reqs ≠ [] := by
    rw [hr.1]
    cases s.reqs with
    | nil => simp
    | cons a t => simp
  rw [alive_iff s hi, har]

/-- at every API boundary of `main` the chain detached by `uv__run_closing_handles` is empty and
    `closing_handles` holds exactly the handles that are CLOSING and not yet CLOSED (close callback not
    delivered), each once (`Lemmas/LoopReqs3.lean`) -/
theorem closing_iff (sc : Script) (fuel clock0 : Nat) (metrics : Bool) (oracle : List PollRes) (prog : List MainOp) :
    let s := runMain sc fuel (initLoop clock0 metrics oracle) prog
    s.closingLocal = [] ∧ s.closing.Nodup ∧
    (s.closing ≠ [] ↔ ∃ e ∈ s.c.fl, e.2.closing = true ∧ e.2.closed = false) ∧
    (∀ id, id ∈ s.closing ↔ ∃ e ∈ s.c.fl, e.1 = id ∧ e.2.closing = true ∧ e.2.closed = false) := by
  intro s
  obtain ⟨h1, h2, h3, h4⟩ := Reqs.closing_queued sc fuel clock0 metrics oracle prog
  have hmem : ∀ id, id ∈ s.closing ↔ ∃ e ∈ s.c.fl, e.1 = id ∧ e.2.closing = true ∧ e.2.closed = false := by
    intro id
    constructor
    · exact h4 id
    · rintro ⟨e, he, rfl, hc, hd⟩; exact h3 e he hc hd
  refine ⟨h1, h2, ?_, hmem⟩
  constructor
  · intro hne
    cases hcl : s.closing with
    | nil => exact absurd hcl hne
    | cons id t =>
      obtain ⟨e, he, _, hc, hd⟩ := (hmem id).mp (by rw [hcl]; exact List.mem_cons_self)
      exact ⟨e, he, hc, hd⟩
  · rintro ⟨e, he, hc, hd⟩ hnil
    have := h3 e he hc hd
    rw [hnil] at this
    cases this

/-- `alive_iff` in the documented form, at every API boundary of `main`: `uv_loop_alive()` is true exactly when
    some handle is ACTIVE ∧ REF ∧ ¬CLOSING, or a request is owed its callback, or a handle is CLOSING and has not
    had its close callback — or (the deviation, `alive_iff_full_false`) an io watcher sits in the pending queue. -/
theorem alive_iff_documented (sc : Script) (fuel clock0 : Nat) (metrics : Bool) (oracle : List PollRes) (prog : List MainOp) :
    let s := runMain sc fuel (initLoop clock0 metrics oracle) prog
    alive s = true ↔ (∃ e ∈ s.c.fl, e.2.active = true ∧ e.2.ref = true ∧ e.2.closing = false) ∨ s.reqs ≠ [] ∨
      (∃ e ∈ s.c.fl, e.2.closing = true ∧ e.2.closed = false) ∨ s.pending ≠ [] := by
  intro s
  have h1 := alive_iff_boundary sc fuel clock0 metrics oracle prog
  have h2 := (closing_iff sc fuel clock0 metrics oracle prog).2.2.1
  simp only at h1 h2
  show alive s = true ↔ _
  rw [h1, h2]
  constructor
  · rintro (h | h | h | h)
    · exact Or.inl h
    · exact Or.inr (Or.inl h)
    · exact Or.inr (Or.inr (Or.inr h))
    · exact Or.inr (Or.inr (Or.inl h))
  · rintro (h | h | h | h)
    · exact Or.inl h
    · exact Or.inr (Or.inl h)
    · exact Or.inr (Or.inr (Or.inr h))
    · exact Or.inr (Or.inr (Or.inl h))

/-- in particular: as long as a closed handle has not had its close callback, the loop is alive -/
theorem closing_handle_alive (sc : Script) (fuel clock0 : Nat) (metrics : Bool) (oracle : List PollRes) (prog : List MainOp) :
    let s := runMain sc fuel (initLoop clock0 metrics oracle) prog
    (∃ e ∈ s.c.fl, e.2.closing = true ∧ e.2.closed = false) → alive s = true := by
  intro s h
  exact (alive_iff_documented sc fuel clock0 metrics oracle prog).mpr (Or.inr (Or.inr (Or.inl h)))

/-- non-vacuity: two handles closed from `main`: both queued, both flagged CLOSING, the loop alive only through
    them; after a run both close callbacks have been delivered and the records are gone -/
example :
    let s := runMain (fun _ _ _ => []) 5 (initLoop 1000 false [{ clock := 1000 }])
      [MainOp.op (.init .idle), MainOp.op (.init .timer), MainOp.op (.close 2), MainOp.op (.close 3)]
    s.closing = [3, 2] ∧ s.c.get 2 = some ⟨false, true, true, false, false⟩ ∧ s.c.get 3 = some ⟨false, true, true, false, false⟩ ∧
      alive s = true ∧ s.c.ah = 0 ∧ s.ar = 0 ∧ s.pending = [] := by decide
example :
    let s := runMain (fun _ _ _ => []) 5 (initLoop 1000 false [{ clock := 1000 }])
      [MainOp.op (.init .idle), MainOp.op (.init .timer), MainOp.op (.close 2), MainOp.op (.close 3), MainOp.run .nowait]
    s.closing = [] ∧ s.c.get 2 = none ∧ s.c.get 3 = none ∧ alive s = false ∧ s.ncbTotal = 2 := by decide +kernel

/-- the same inside callbacks: wherever both accounting invariants hold (they do after every API call, callback
    and phase: `count_inv_in_callbacks`, `reqs_inv_in_callbacks`) -/
theorem alive_iff_reqs (s : State) (hi : SInv s) (hr : Reqs.RInv none s) :
    alive s = true ↔ (∃ e ∈ s.c.fl, e.2.active = true ∧ e.2.ref = true ∧ e.2.closing = false) ∨ s.reqs ≠ [] ∨
      s.pending ≠ [] ∨ s.closing ≠ [] := by
  have har : 0 < s.ar ↔ s.reqs ≠ [] := by
    rw [hr.1]
    cases s.reqs with
    | nil => simp
    | cons a t => simp
  rw [alive_iff s hi, har]

/-- non-vacuity: a closing handle keeps the loop alive through `closing_handles`; a queued work request through
    `reqs` -/
example :
    let s := runMain (fun _ _ _ => []) 5 (initLoop 1000 false []) [MainOp.op (.init .idle), MainOp.op (.close 2)]
    alive s = true ∧ s.closing = [2] ∧ s.reqs = [] ∧ s.pending = [] := by decide
example :
    let s := runMain (fun _ _ _ => []) 5 (initLoop 1000 false []) [MainOp.op (.work .queueWork)]
    alive s = true ∧ s.closing = [] ∧ s.reqs = [⟨0, .work .queueWork⟩] ∧ s.pending = [] := by decide

/-! ### uv_run's return value -/
theorem alive_stop (s : State) (b : Bool) : alive { s with stop := b } = alive s := rfl
theorem alive_updateTime (s : State) : alive (updateTime s) = alive s := rfl

theorem runLoop_ret (sc : Script) (mode : Mode) (fuel : Nat) (s : State) (r : Bool) :
    ∀ s' r', runLoop sc mode fuel s r = some (s', r') → r' = alive s' ∨ (s' = s ∧ r' = r) := by
  induction fuel generalizing s r with
  | zero => intro s' r' h; simp [runLoop] at h
  | succ n ih =>
    intro s' r' h
    unfold runLoop at h
    split at h
    · cases h; exact Or.inr ⟨rfl, rfl⟩
    · simp only at h
      split at h
      · cases h; exact Or.inl rfl
      · rcases ih _ _ _ _ h with h1 | ⟨h1, h2⟩
        · exact Or.inl h1
        · exact Or.inl (by rw [h2, h1])

/-- `run_returns`: the value returned by `uv_run` is `uv_loop_alive()` of the state it returns in —
    except when the loop body never ran *and* the initial timer pass of UV_RUN_DEFAULT did (then it is
    the liveness computed before that pass; see `run_returns_stale_witness`). -/
theorem run_returns (sc : Script) (mode : Mode) (fuel : Nat) (s s' : State) (r : Bool)
    (h : uvRun sc mode fuel s = some (s', r)) :
    r = alive s' ∨ (initialTimers mode (alive s) s.stop = true ∧ r = alive s) := by
  unfold uvRun at h
  simp only at h
  have hs0a : alive (if !alive s then updateTime s else s) = alive s := by split <;> rfl
  have hs0s : (if !alive s then updateTime s else s).stop = s.stop := by split <;> rfl
  generalize (if !alive s then updateTime s else s) = s0 at h hs0a hs0s
  rw [hs0s] at h
  cases hit : initialTimers mode (alive s) s.stop with
  | true =>
    simp only [hit, if_true] at h
    split at h
    · simp at h
    · rename_i s1 r1 heq
      simp only [Option.some.injEq, Prod.mk.injEq] at h
      obtain ⟨h1, h2⟩ := h
      rcases runLoop_ret _ _ _ _ _ _ _ heq with h3 | ⟨_, h4⟩
      · left; rw [← h1, ← h2, h3]; rfl
      · right; exact ⟨rfl, by rw [← h2, h4]⟩
  | false =>
    simp only [hit] at h
    split at h
    · simp at h
    · rename_i s1 r1 heq
      simp only [Bool.false_eq_true, if_false, Option.some.injEq, Prod.mk.injEq] at h heq
      obtain ⟨h1, h2⟩ := h
      rcases runLoop_ret _ _ _ _ _ _ _ heq with h3 | ⟨h3, h4⟩
      · left; rw [← h1, ← h2, h3]; rfl
      · left; rw [← h1, ← h2, h4, h3]; exact hs0a.symm

/-- the stale return value: the only timer fires in the initial pass of UV_RUN_DEFAULT and its callback calls
    `uv_stop`: `uv_run` returns 1 although nothing is alive any more (reproduced on the implementation) -/
theorem run_returns_stale_witness :
    let s0 := ([Op.init .timer, .start 2 0 0].foldl stepOp (initLoop 1000 false []))
    (uvRun (fun _ _ _ => [.stopLoop]) .default 5 s0).map (fun p => (p.2, alive p.1)) = some (true, false) := by decide +kernel

/-- UV_RUN_DEFAULT leaves its loop only when the loop is dead, `uv_stop` was called, or the environment
    stopped answering (simulator deadlock marker) -/
theorem default_exit (sc : Script) (fuel : Nat) (s : State) (r : Bool) :
    ∀ s' r', runLoop sc .default fuel s r = some (s', r') → r' = false ∨ s'.stop = true ∨ s'.halted = true := by
  induction fuel generalizing s r with
  | zero => intro s' r' h; simp [runLoop] at h
  | succ n ih =>
    intro s' r' h
    unfold runLoop at h
    split at h
    · rename_i hc
      cases h
      simp only [runCond, Bool.or_eq_true, Bool.not_eq_true', Bool.and_eq_false_iff] at hc
      rcases hc with (hc | hc) | hc
      · exact Or.inl hc
      · right; left; simpa using hc
      · exact Or.inr (Or.inr hc)
    · simp only at h
      split at h
      · rename_i hm; simp at hm
      · exact ih _ _ _ _ h

/-! ### uv_loop_close -/
/-- `loop_close_iff`: UV_EBUSY exactly while a request is outstanding (`active_reqs > 0`) or a non-internal
    handle is still in `handle_queue`; otherwise success, and the loop is closed -/
theorem loop_close_iff (s : State) :
    ((loopClose s).2 = -16 ↔ (0 < s.ar ∨ ∃ e ∈ s.c.fl, e.2.internal = false)) ∧
    ((loopClose s).2 ≠ -16 → (loopClose s).2 = 0 ∧ (loopClose s).1.closed = true) := by
  unfold loopClose loopCloseBusy
  constructor
  · split
    · rename_i h
      simp only [true_iff]
      simp only [hasActiveReqs, Bool.or_eq_true, decide_eq_true_eq, List.any_eq_true, Bool.not_eq_true'] at h
      exact h
    · rename_i h
      simp only [hasActiveReqs, Bool.or_eq_true, decide_eq_true_eq, List.any_eq_true, Bool.not_eq_true', not_or] at h
      constructor
      · intro h0; simp at h0
      · rintro (h1 | h1)
        · exact absurd h1 h.1
        · exact absurd h1 h.2
  · split
    · intro h; simp at h
    · intro _; exact ⟨rfl, rfl⟩

/-- handle_queue holds a user handle: busy; the same loop after the handle's close callback: success -/
example : (loopClose (([Op.init .timer].foldl stepOp (initLoop 0 false [])))).2 = -16 ∧
    (loopClose (initLoop 0 false [])).2 = 0 := by decide

/-! ### requests -/
def reqs_inv_statement : Prop :=
  ∀ (sc : Script) (fuel clock0 : Nat) (metrics : Bool) (oracle : List PollRes) (prog : List MainOp),
    let s := runMain sc fuel (initLoop clock0 metrics oracle) prog
    s.ar = s.reqs.length ∧ 0 ≤ s.ar

/-- `reqs_inv_partial` (kept; superseded by `reqs_inv`): submission registers exactly one request
    (`uv_queue_work` / `uv_fs_*` on either route / `uv_getaddrinfo` / `uv_getnameinfo` / `uv_random`, first half of `uv__udp_send`), and a completion step (`uv__req_unregister` + removal of the
    record) keeps `active_reqs = |owed|` when the completed request is owed exactly once.  That premise is what
    `Lemmas/LoopReqs.lean` establishes at every completion site (`held_owed_once`). -/
theorem asyncSend_ar_reqs (s : State) (id : Nat) : (asyncSend s id).ar = s.ar ∧ (asyncSend s id).reqs = s.reqs := by
  unfold asyncSend; split
  · exact ⟨rfl, rfl⟩
  · split <;> exact ⟨rfl, rfl⟩

theorem workSubmit_ar (s : State) (api : Api) (h : s.ar = s.reqs.length) :
    (workSubmit s api).ar = (workSubmit s api).reqs.length := by
  unfold workSubmit; simp only
  split
  · split
    · simp [reqRegister, h]
    · rw [(asyncSend_ar_reqs _ 1).1, (asyncSend_ar_reqs _ 1).2]; simp [reqRegister, h]
  · simp [reqRegister, h]

theorem reqs_inv_partial (s : State) (h : s.ar = s.reqs.length) :
    (∀ api, (submit s api).ar = (submit s api).reqs.length) ∧
    (∀ id, (udpSendEnqueue s id).ar = (udpSendEnqueue s id).reqs.length) ∧
    (∀ r, (s.reqs.filter (·.id == r)).length = 1 →
      reqUnregister s.ar = ((s.reqs.filter (·.id != r)).length : Int)) := by
  refine ⟨?_, ?_, ?_⟩
  · intro api
    have hr : (ringInit s).ar = (ringInit s).reqs.length := by
      unfold ringInit; split <;> exact h
    unfold submit; simp only
    split
    · split
      · simp [ringSubmit, reqRegister, hr]
      · exact workSubmit_ar _ api hr
    · exact workSubmit_ar s api h
  · intro id; simp [udpSendEnqueue, modH, reqRegister, h]
  · intro r hr
    have : ∀ l : List Req, (l.filter (·.id == r)).length + (l.filter (·.id != r)).length = l.length := by
      intro l
      induction l with
      | nil => rfl
      | cons x t ih =>
        by_cases hx : (x.id == r) = true
        · simp [List.filter, hx, bne]; simp [bne] at ih; omega
        · have hx' : (x.id == r) = false := by simpa using hx
          simp [List.filter, hx', bne]; simp [bne] at ih; omega
    have := this s.reqs
    simp only [reqUnregister, h]; omega


/-- `reqs_inv`: for every script, poller behaviour and main program, `loop->active_reqs.count` equals the number
    of requests that are owed a callback, and is non-negative (`uv__req_unregister`'s assertion never fires).
    Proof (`Lemmas/LoopReqs*.lean`): every owed request id sits in at most one queue slot (thread-pool
    `running/poolQ/doneQ/doneLocal`, a udp handle's `write_queue/write_completed_queue`, a stream's `connect_req`),
    every slot holds an owed request, ids are unique; each completion site removes the slot and the record
    together, `uv_cancel`/`uv__udp_sendmsg`/worker completion only move slots. -/
theorem reqs_inv : reqs_inv_statement := by
  intro sc fuel clock0 metrics oracle prog s
  have hr : Reqs.RInv none s := Reqs.runMain_rinv sc fuel prog _ (Reqs.initLoop_rinv clock0 metrics oracle)
  exact ⟨hr.1, by rw [hr.1]; exact Int.natCast_nonneg _⟩

/-- the request invariant holds after every single API call wherever it is issued, after every callback and
    after every loop iteration (see `Lemmas/LoopReqs2.lean` for each phase and completion site) -/
theorem reqs_inv_in_callbacks (s : State) (hr : Reqs.RInv none s) :
    (∀ o, Reqs.RInv none (stepOp s o)) ∧ (∀ ops : List Op, Reqs.RInv none (ops.foldl stepOp s)) ∧
    (∀ sc ph k key id a b occ, Reqs.RInv none (runCb sc ph k key id a b occ s)) ∧
    (∀ sc mode, Reqs.RInv none (iteration sc mode s)) ∧
    s.ar = s.reqs.length ∧ 0 ≤ s.ar :=
  ⟨fun o => Reqs.stepOp_rinv s o hr, fun ops => Reqs.foldl_stepOp_rinv ops s hr,
   fun sc ph k key id a b occ => Reqs.runCb_rinv sc ph k key id a b occ s hr,
   fun sc mode => Reqs.iteration_rinv sc mode s hr, hr.1, by rw [hr.1]; exact Int.natCast_nonneg _⟩

/-- what every completion site relies on: a request found in a queue slot (`cnt` counts the slots holding `r`)
    is owed exactly once, so `uv__req_unregister` + dropping the record keeps the equation
    (third part of `reqs_inv_partial`) -/
theorem held_owed_once (s : State) (hr : Reqs.RInv none s) (r : Nat) (hh : 0 < Reqs.cnt none r s) :
    (s.reqs.filter (·.id == r)).length = 1 := by
  have h1 := hr.2.1 r
  have h2 := hr.2.2.1 r
  simp only [Reqs.idc, List.countP_eq_length_filter] at h1 h2
  omega

/-- non-vacuity of the hypotheses of `reqs_inv_in_callbacks` / `held_owed_once`: a reachable state with a queued
    send (slot in `write_queue`), a sent one (slot in `write_completed_queue`) and a cancelled work item -/
example :
    let s := runMain (fun _ _ _ => []) 5 (initLoop 1000 false [])
      [MainOp.op (.init .udp), MainOp.op (.work .queueWork), MainOp.op (.work .queueWork), MainOp.op (.udpSend 2), MainOp.op (.udpSend 2),
       MainOp.op (.cancel 1)]
    Reqs.RInv none s ∧ Reqs.cnt none 1 s = 1 ∧ Reqs.cnt none 2 s = 1 ∧ Reqs.cnt none 3 s = 1 ∧ Reqs.cnt none 4 s = 0 :=
  ⟨Reqs.runMain_rinv _ _ _ _ (Reqs.initLoop_rinv _ _ _), by decide +kernel⟩

/-- owed request ids are pairwise distinct and below the next id to be handed out -/
theorem reqs_ids (sc : Script) (fuel clock0 : Nat) (metrics : Bool) (oracle : List PollRes) (prog : List MainOp) :
    let s := runMain sc fuel (initLoop clock0 metrics oracle) prog
    (∀ r, (s.reqs.filter (·.id == r)).length ≤ 1) ∧ ∀ q ∈ s.reqs, q.id < s.nextReq := by
  intro s
  have hr : Reqs.RInv none s := Reqs.runMain_rinv sc fuel prog _ (Reqs.initLoop_rinv clock0 metrics oracle)
  refine ⟨?_, ?_⟩
  · intro r
    have h2 := hr.2.2.1 r
    simpa only [Reqs.idc, List.countP_eq_length_filter] using h2
  · intro q hq
    apply Nat.lt_of_not_le
    intro hle
    have h3 := hr.2.2.2 q.id hle
    simp only [Reqs.idc, List.countP_eq_zero] at h3
    exact absurd (h3 q hq) (by simp)

/-- non-vacuity: four work items (one finishes on the pool thread, one is cancelled while queued), two udp sends;
    after one `uv_run(UV_RUN_NOWAIT)` four callbacks have run (2 work, 2 send) and two requests are still owed:
    one running on the pool thread, one queued -/
example :
    let s := runMain (fun _ _ _ => []) 5 (initLoop 1000 false [{ clock := 1000, done := 1, batch := [(.async, 1)] }])
      [MainOp.op (.init .udp), MainOp.op (.work .queueWork), MainOp.op (.work .queueWork), MainOp.op (.work .queueWork), MainOp.op (.work .queueWork),
       MainOp.op (.udpSend 2), MainOp.op (.udpSend 2), MainOp.op (.cancel 1), MainOp.run .nowait]
    s.ar = 2 ∧ s.reqs = [⟨2, .work .queueWork⟩, ⟨3, .work .queueWork⟩] ∧ s.running = some 2 ∧ s.poolQ = [3] ∧ s.ncbTotal = 4 ∧
      Reqs.cnt none 2 s = 1 ∧ Reqs.cnt none 3 s = 1 := by decide +kernel
/-- before the run: five owed (three work — one of them cancelled and waiting in `loop->wq` — and two sends) -/
example :
    let s := runMain (fun _ _ _ => []) 5 (initLoop 1000 false [])
      [MainOp.op (.init .udp), MainOp.op (.work .queueWork), MainOp.op (.work .queueWork), MainOp.op (.work .queueWork),
       MainOp.op (.udpSend 2), MainOp.op (.udpSend 2), MainOp.op (.cancel 1)]
    s.ar = 5 ∧ s.reqs.length = 5 ∧ s.doneQ = [(1, true)] ∧ s.poolQ = [2] ∧ s.running = some 0 ∧
      (s.handles.map (fun h => (h.wq, h.wcq))) = [([], []), ([], []), ([4], [(3, 1)])] := by decide +kernel

/-! ### the request kinds beyond `uv_queue_work` (fs on both routes, getaddrinfo, getnameinfo, random) -/
/-- non-vacuity, io_uring route: on a loop configured for io_uring an `uv_fs_write` with 3 buffers goes into the
    ring (one registration, in flight), one with IOV_MAX + 1 buffers falls back to the thread pool *without*
    touching the ring (linux.c:1053-1058) and — its work not being gated — sits in `loop->wq` at once -/
example :
    let s := runMain (fun _ _ _ => []) 5 (initLoop 1000 false [])
      [MainOp.op .useIoUring, MainOp.op (.work (.fs .write 1025)), MainOp.op (.work (.fs .write 3)),
       MainOp.op (.work (.fs .read 2000)), MainOp.op (.cancel 1)]
    s.ar = 3 ∧ s.reqs = [⟨0, .work (.fs .write 1025)⟩, ⟨1, .ring (.fs .write 3)⟩, ⟨2, .ring (.fs .read 2000)⟩] ∧
      s.ring = .ok ∧ s.ringQ = [1, 2] ∧ s.doneQ = [(0, false)] ∧ alive s = true ∧ s.nIllegal = 0 ∧
      Reqs.cnt none 0 s = 1 ∧ Reqs.cnt none 1 s = 1 := by decide +kernel
/-- … and after one `uv_run(UV_RUN_NOWAIT)` whose poll reports the async watcher and the ring (completion queue
    r2, r1) all three callbacks have run, nothing is registered, the loop is dead and `uv_loop_close` succeeds -/
example :
    let s := runMain (fun _ _ _ => []) 5
      (initLoop 1000 false [{ clock := 1000, batch := [(.async, 1), (.ring [2, 1], 1)] }])
      [MainOp.op .useIoUring, MainOp.op (.work (.fs .write 1025)), MainOp.op (.work (.fs .write 3)),
       MainOp.op (.work (.fs .read 2000)), MainOp.run .nowait, MainOp.loopClose]
    s.ar = 0 ∧ s.reqs = [] ∧ s.ringQ = [] ∧ s.doneQ = [] ∧ s.doneLocal = [] ∧ s.ncbTotal = 3 ∧ s.closed = true ∧
      (s.trace.reverse.filterMap fun e => match e with | .cb _ .work id _ b => some (id, b) | _ => none) =
        [(0, 1), (2, 1), (1, 1)] := by decide +kernel
/-- without `uv_loop_configure(UV_LOOP_USE_IO_URING_SQPOLL)` the first fs request marks the ring as failed for good
    (a later configure has no effect); getaddrinfo is Legal only into an idle pool; every kind can be cancelled
    while queued behind a running work item -/
example :
    let s := runMain (fun _ _ _ => []) 5 (initLoop 1000 false [])
      [MainOp.op (.work (.fs .stat 0)), MainOp.op .useIoUring, MainOp.op (.work (.fs .open 0)),
       MainOp.op (.work .getaddrinfo), MainOp.op (.work .queueWork), MainOp.op (.work .random),
       MainOp.op (.work (.fs .close 0)), MainOp.op (.work .getnameinfo), MainOp.op (.cancel 4), MainOp.op (.cancel 5),
       MainOp.op (.cancel 3), MainOp.op (.cancel 0)]
    s.ring = .failed ∧ s.ringQ = [] ∧ s.ar = 6 ∧ s.running = some 3 ∧ s.poolQ = [] ∧ s.nIllegal = 1 ∧
      s.doneQ = [(0, false), (1, false), (2, false), (4, true), (5, true)] := by decide +kernel

end UvModel.Props.C01
