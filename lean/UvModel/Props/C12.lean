import UvModel.ProcFd
import UvModel.Lemmas.ProcFdLemmas
/-! # C12 — property theorems (child stdio mapping, error pipe, status decode, exit_cb exactly once) -/
namespace UvModel.ProcFd

/-- **stdio_mapping.** For every descriptor table at fork time in which every open descriptor is
close-on-exec (C15's guarantee), every stdio layout `pipes` (any length, any permutation, aliasing or
overlap of sources, sources below / equal to / above their slot, ignored slots) whose sources are open,
and any open error-pipe descriptor `efd` (no relation to `stdio_count` assumed):
`uv__process_child_init` reaches `execvp`; at that moment the (possibly moved) error descriptor still
refers to the error pipe and is close-on-exec; and after the exec the table is *exactly* `expected`:
slot `i < stdio_count` is the file source `i` referred to at fork, inheritable; ignored slots 0–2 are
`/dev/null`; every other descriptor — ignored slots ≥ 3, everything ≥ stdio_count, all temporaries, the
error pipe — is closed. -/
theorem stdio_mapping (t : Tab) (pipes : List Int) (efd : Nat) (ef : Ent)
    (hw : t.WF) (hc : AllCx t)
    (hsrc : ∀ (i : Nat) (u : Int), pipes[i]? = some u → 0 ≤ u → t.get u.toNat ≠ none)
    (herr : t.get efd = some ef) :
    ∃ t' efd', childInit t pipes efd = .ok t' efd' ∧
      t'.get efd' = some ⟨ef.file, true⟩ ∧
      ∀ fd, (execClose t').get fd = expected t pipes fd := by
  obtain ⟨h1, h2⟩ := childInit_core hw hc pipes efd ef herr
  obtain ⟨hok, hexp⟩ := h2 hsrc
  cases hr : childInit t pipes efd with
  | ok t' e' => rw [hr] at h1 hexp; exact ⟨t', e', rfl, h1, hexp⟩
  | fail t' e' => rw [hr] at hok; cases hok

/-- **error pipe survives** (the repaired L9): in *every* outcome of the descriptor shuffling — exec
reached, or a failure exit through `uv__write_errno(error_fd)` because some source is not open — the
descriptor the child would write the errno to is the error pipe (and close-on-exec), for any
`stdio_count`, in particular `stdio_count > error_fd`. -/
theorem error_pipe_intact (t : Tab) (pipes : List Int) (efd : Nat) (ef : Ent)
    (hw : t.WF) (hc : AllCx t) (herr : t.get efd = some ef) :
    (childInit t pipes efd).tab.get (childInit t pipes efd).efd = some ⟨ef.file, true⟩ :=
  (childInit_core hw hc pipes efd ef herr).1

/-- non-vacuity: stdout/stderr swapped, stdin ignored, slot 3 ← fd 0, slot 4 = the error pipe's own
number (stdio_count 5 > error fd 4), parent has fds 0,1,2,4,7 open, all close-on-exec. -/
def exTab : Tab :=
  ((((Tab.empty.set 0 (some ⟨.desc 0, true⟩)).set 1 (some ⟨.desc 1, true⟩)).set 2 (some ⟨.desc 2, true⟩)).set 4
    (some ⟨.desc 4, true⟩)).set 7 (some ⟨.desc 7, true⟩)

example : (childInit exTab [-1, 2, 1, 0, 7] 4).isOk = true ∧
    (List.range 12).map (fun fd => (execClose (childInit exTab [-1, 2, 1, 0, 7] 4).tab).get fd) =
      [some ⟨.devNull false, false⟩, some ⟨.desc 2, false⟩, some ⟨.desc 1, false⟩, some ⟨.desc 0, false⟩,
       some ⟨.desc 7, false⟩, none, none, none, none, none, none, none] ∧
    (childInit exTab [-1, 2, 1, 0, 7] 4).efd = 5 := by decide

example : exTab.WF ∧ (∀ k, k < 9 → ∀ e, exTab.get k = some e → e.cloexec = true) := by
  constructor
  · intro fd h
    have h' : 8 ≤ fd := h
    have h0 : fd ≠ 0 := by omega
    have h1 : fd ≠ 1 := by omega
    have h2 : fd ≠ 2 := by omega
    have h4 : fd ≠ 4 := by omega
    have h7 : fd ≠ 7 := by omega
    simp [exTab, Tab.empty, h0, h1, h2, h4, h7]
  · decide

set_option maxRecDepth 8000 in
/-- **decode_status.** The macros as used at process.c:166-172 recover the exit code of a normally
exited child and the terminating signal (core-dump bit set or not) of a killed one, for every status
word the kernel can produce for these two kinds. -/
theorem decode_status :
    (∀ code, code < 256 → decode (code <<< 8) = (code, 0)) ∧
    (∀ sig, sig < 127 → 0 < sig → ∀ core, core < 2 → decode (sig ||| (core <<< 7)) = (0, sig)) := by
  constructor
  · decide
  · decide

example : decode 0x0100 = (1, 0) ∧ decode 0x008b = (0, 11) ∧ decode 9 = (0, 9) := by decide

/-! ## exit_cb exactly once (histories of spawn / exit / SIGCHLD / close in any order) -/

/-- **exit_once (safety).** After *every* history, for every child: `waitpid` returned it at most once
(a reaped child is never waited for again), `exit_cb` ran exactly as often as it was reaped — so at
most once —, never before the reap. -/
theorem exit_at_most_once (ops : List Op) (id : Nat) :
    waitCount (runP {} ops).log id ≤ 1 ∧
    cbCount (runP {} ops).log id = waitCount (runP {} ops).log id :=
  ⟨(inv_run inv_init ops).once id, (inv_run inv_init ops).cbw id⟩

/-- **exit_cb tells the truth.** Every `exit_cb` in any history is for a child whose spawn succeeded
(never for a failed spawn), which the kernel really terminated with some status word `st`, which
`waitpid` reported with exactly that word, and the callback's arguments are that word decoded as at
process.c:166-172. -/
theorem exit_cb_true_status (ops : List Op) (e : ExitEv) (h : Log.cb e ∈ (runP {} ops).log) :
    e.id ∈ (runP {} ops).okIds ∧
    ∃ st, (e.id, st) ∈ (runP {} ops).exits ∧ Log.waited e.id st ∈ (runP {} ops).log ∧
      e.exitStatus = (decode st).1 ∧ e.termSignal = (decode st).2 := by
  have inv := inv_run inv_init ops
  obtain ⟨st, h1, h2, h3⟩ := inv.dec e h
  exact ⟨inv.okW _ _ h1, st, inv.truth _ _ h1, h1, h2, h3⟩

/-- **exit_once (liveness, coalescing).** In any reachable state, one SIGCHLD round reports *every*
tracked child that has terminated — however many there are at once (the statement is for all `id`
simultaneously, about the same round) —: exactly one `exit_cb` in total with the decoded status, the
child is reaped (gone from the kernel) and no longer tracked. -/
theorem exit_reported (ops : List Op) (id st : Nat)
    (ht : id ∈ (runP {} ops).tracked) (hz : (runP {} ops).kern id = .zombie st) :
    let s' := stepP (runP {} ops) .sigchld
    cbCount s'.log id = 1 ∧ Log.cb ⟨id, (decode st).1, (decode st).2⟩ ∈ s'.log ∧
    id ∉ s'.tracked ∧ s'.kern id = .gone := by
  have inv := inv_run inv_init ops
  have inv' := inv_step inv .sigchld
  have hm : (id, st) ∈ (pollAll (kernWait (runP {} ops)) (runP {} ops).tracked).2 :=
    (pollAll_mem _ _ _ _).mpr ⟨ht, kernWait_reaped.mpr hz⟩
  have hgone : (stepP (runP {} ops) .sigchld).kern id = .gone := by
    show (if (pollAll (kernWait (runP {} ops)) (runP {} ops).tracked).2.any (·.1 == id) then KState.gone
      else (runP {} ops).kern id) = .gone
    have : (pollAll (kernWait (runP {} ops)) (runP {} ops).tracked).2.any (·.1 == id) = true :=
      List.any_eq_true.mpr ⟨(id, st), hm, by simp⟩
    simp [this]
  have hcb : Log.cb ⟨id, (decode st).1, (decode st).2⟩ ∈ (stepP (runP {} ops) .sigchld).log := by
    simp only [stepP, List.mem_append, List.mem_map, report]
    exact Or.inr ⟨_, ⟨(id, st), hm, rfl⟩, rfl⟩
  refine ⟨?_, hcb, fun hin => inv'.alive id hin hgone, hgone⟩
  have h1 := inv'.cbw id
  have h2 := inv'.once id
  have h3 : 0 < cbCount (stepP (runP {} ops) .sigchld).log id := by
    unfold cbCount
    apply List.length_pos_of_mem (a := Log.cb ⟨id, (decode st).1, (decode st).2⟩)
    exact List.mem_filter.mpr ⟨hcb, by simp [Log.isCb]⟩
  omega

/-- **tracked until reaped.** A successfully spawned child enters the tracked list, and leaves it only
by being reaped in a SIGCHLD round (having terminated) or by `uv_close` of its handle — in particular
not because *other* children exited, were spawned, or failed to spawn. -/
theorem tracked_until_reaped (s : PS) (op : Op) (id : Nat) (ht : id ∈ s.tracked) :
    id ∈ (stepP s op).tracked ∨ op = .closeHandle id ∨
      (op = .sigchld ∧ ∃ st, s.kern id = .zombie st) := by
  cases op with
  | spawnOk => exact Or.inl (by simp [stepP, ht])
  | spawnFail => exact Or.inl ht
  | childExit c st => exact Or.inl (by simp only [stepP]; split <;> exact ht)
  | closeHandle c =>
    by_cases h : id = c
    · exact Or.inr (Or.inl (by rw [h]))
    · exact Or.inl (by simp [stepP, ht, h])
  | sigchld =>
    cases hk : s.kern id with
    | zombie st => exact Or.inr (Or.inr ⟨rfl, st, rfl⟩)
    | running =>
      refine Or.inl ?_
      show id ∈ (pollAll (kernWait s) s.tracked).1
      rw [pollAll_fst]; simp [ht, kernWait, hk, isReaped]
    | gone =>
      refine Or.inl ?_
      show id ∈ (pollAll (kernWait s) s.tracked).1
      rw [pollAll_fst]; simp [ht, kernWait, hk, isReaped]

theorem spawn_ok_tracked (s : PS) : s.nspawned ∈ (stepP s .spawnOk).tracked := by simp [stepP]

/-- **spawn_failure_clean** (decision level, process.c:957-979 + 1057-1078): whatever errno the child
reported (or EPIPE), `uv_spawn` returns that error, has reaped the child itself, and does not activate
the handle; in the history model a failed spawn's id is never tracked and never gets an `exit_cb`. -/
theorem spawn_failure_clean :
    (∀ e, 0 < e → (spawnParent (.errno e)).ret = -(e : Int) ∧ (spawnParent (.errno e)).ret ≠ 0 ∧
      (spawnParent (.errno e)).reapedSync = true ∧ (spawnParent (.errno e)).activated = false) ∧
    (spawnParent .epipe).reapedSync = true ∧ (spawnParent .epipe).activated = false ∧
    (∀ e, 0 < e → (spawnParent (.forkFailed e)).ret = -(e : Int) ∧ (spawnParent (.forkFailed e)).activated = false) ∧
    (∀ (ops : List Op) (ops' : List Op),
      let s := runP {} ops
      let s' := runP (stepP s .spawnFail) ops'
      s.nspawned ∉ s'.tracked ∧ cbCount s'.log s.nspawned = 0) := by
  refine ⟨?_, rfl, rfl, ?_, ?_⟩
  · intro e he
    refine ⟨rfl, ?_, rfl, ?_⟩
    · simp [spawnParent]; omega
    · simp [spawnParent]; omega
  · intro e he
    refine ⟨rfl, ?_⟩
    simp [spawnParent]; omega
  · intro ops ops'
    have inv := inv_run inv_init ops
    have hno : (runP {} ops).nspawned ∉ (runP {} ops).okIds := fun h => by
      have := inv.okLt _ h; omega
    -- okIds of later states only gain ids ≥ the nspawned of that time
    have key : ∀ (l : List Op) (s : PS) (n : Nat), Inv s → n < s.nspawned → n ∉ s.okIds →
        n ∉ (runP s l).okIds ∧ Inv (runP s l) := by
      intro l
      induction l with
      | nil => intro s n hi _ hn; exact ⟨hn, hi⟩
      | cons op rest ih =>
        intro s n hi hlt hn
        have hi' := inv_step hi op
        apply ih (stepP s op) n hi'
        · cases op with
          | spawnOk => show n < s.nspawned + 1; omega
          | spawnFail => show n < s.nspawned + 1; omega
          | childExit c st => simp only [stepP]; split <;> exact hlt
          | sigchld => exact hlt
          | closeHandle c => exact hlt
        · cases op with
          | spawnOk => simp only [stepP, List.mem_append, List.mem_singleton]; intro h; rcases h with h | h; exact hn h; omega
          | spawnFail => exact hn
          | childExit c st => simp only [stepP]; split <;> exact hn
          | sigchld => exact hn
          | closeHandle c => exact hn
    have hi1 := inv_step inv .spawnFail
    obtain ⟨hnok, hinv⟩ := key ops' (stepP (runP {} ops) .spawnFail) (runP {} ops).nspawned hi1
      (by simp [stepP]) hno
    refine ⟨fun h => hnok (hinv.okT _ h), ?_⟩
    rw [hinv.cbw]
    cases hc : waitCount (runP (stepP (runP {} ops) .spawnFail) ops').log (runP {} ops).nspawned with
    | zero => rfl
    | succ k =>
      exfalso
      have hpos : 0 < ((runP (stepP (runP {} ops) .spawnFail) ops').log.filter (Log.isWaited (runP {} ops).nspawned)).length := by
        unfold waitCount at hc; omega
      obtain ⟨x, hx⟩ := List.exists_mem_of_length_pos hpos
      obtain ⟨hx1, hx2⟩ := List.mem_filter.mp hx
      cases x with
      | cb e => simp [Log.isWaited] at hx2
      | waited c st =>
        have : c = (runP {} ops).nspawned := by simpa [Log.isWaited] using hx2
        subst this
        exact hnok (hinv.okW _ _ hx1)

/-- **parent_table_init.** The table uv_spawn hands to the child has `max(stdio_count, 3)` entries, for
*any* stdio_count (inline array or heap block alike), and entry `i` is: the container's descriptor for
an inherit slot, the slot's own pipe end for UV_CREATE_PIPE, and `-1` for every UV_IGNORE slot and for
the padding slots — never a left-over value. -/
theorem parent_table_init (stdio : List Stdio) :
    (parentTable stdio).length = max stdio.length 3 ∧
    ∀ i, i < max stdio.length 3 →
      (parentTable stdio)[i]? = some (match stdio[i]? with
        | some (.inheritFd fd) => .fd fd
        | some .createPipe => .pipeEnd
        | _ => .fd (-1)) := by
  have key : ∀ (cs : List Stdio) (n : Nat), cs.length ≤ n →
      (fillTable cs (initTable n)).length = n ∧
      ∀ i, i < n → (fillTable cs (initTable n))[i]? = some (match cs[i]? with
        | some (.inheritFd fd) => .fd fd
        | some .createPipe => .pipeEnd
        | _ => .fd (-1)) := by
    intro cs
    induction cs with
    | nil =>
      intro n _
      refine ⟨by simp [fillTable, initTable], ?_⟩
      intro i hi
      simp [fillTable, initTable, hi]
    | cons c rest ih =>
      intro n hn
      cases n with
      | zero => simp at hn
      | succ n =>
        obtain ⟨h1, h2⟩ := ih n (by simp at hn; omega)
        have hinit : initTable (n + 1) = .fd (-1) :: initTable n := by simp [initTable, List.replicate_succ]
        rw [hinit]
        cases c with
        | ignore =>
          refine ⟨by simp [fillTable, h1], ?_⟩
          intro i hi
          cases i with
          | zero => simp [fillTable]
          | succ i => simpa [fillTable] using h2 i (by omega)
        | inheritFd fd =>
          refine ⟨by simp [fillTable, h1], ?_⟩
          intro i hi
          cases i with
          | zero => simp [fillTable]
          | succ i => simpa [fillTable] using h2 i (by omega)
        | createPipe =>
          refine ⟨by simp [fillTable, h1], ?_⟩
          intro i hi
          cases i with
          | zero => simp [fillTable]
          | succ i => simpa [fillTable] using h2 i (by omega)
  exact key stdio (max stdio.length 3) (by omega)

example : parentTable [.ignore, .inheritFd 5, .createPipe, .ignore, .ignore, .ignore, .ignore, .ignore, .ignore, .inheritFd 1] =
    [.fd (-1), .fd 5, .pipeEnd, .fd (-1), .fd (-1), .fd (-1), .fd (-1), .fd (-1), .fd (-1), .fd 1] ∧
    parentTable [] = [.fd (-1), .fd (-1), .fd (-1)] := by decide

/-- non-vacuity: three children, two exit before the loop runs (one killed by SIGSEGV with core), one
SIGCHLD round reports both, the third later; a failed spawn in between gets nothing. -/
example :
    let s := runP {} [.spawnOk, .spawnOk, .spawnFail, .spawnOk, .childExit 0 (3 <<< 8), .childExit 3 (11 ||| 128),
                      .sigchld, .childExit 1 0, .sigchld, .sigchld]
    s.log = [.waited 0 768, .waited 3 139, .cb ⟨0, 3, 0⟩, .cb ⟨3, 0, 11⟩, .waited 1 0, .cb ⟨1, 0, 0⟩] ∧
    s.tracked = [] := by decide

end UvModel.ProcFd
