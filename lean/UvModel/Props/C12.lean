import UvModel.ProcFd
import UvModel.Lemmas.ProcFdLemmas
/-! # C12 — property theorems (child stdio mapping, error pipe, status decode, exit_cb exactly once) -/
namespace UvModel.ProcFd

/-- **stdio_mapping.** For every descriptor table at fork time in which every open descriptor is
close-on-exec (C15's guarantee), every stdio layout `pipes` (any length, any permutation, aliasing or
overlap of sources, sources below / equal to / above their slot, ignored slots) whose sources are open,
and any open error-pipe descriptor `efd` (no relation to `stdio_count` assumed):
`uv__process_child_init` reaches `execvp`; at that moment the (possibly moved) error descriptor still
refers to the error pipe and is close-on-exec; and after the exec the table is *exactly* `expected`:
slot `i < stdio_count` is the file source `i` referred to at fork, inheritable; ignored slots 0–2 are
`/dev/null`; every other descriptor — ignored slots ≥ 3, everything ≥ stdio_count, all temporaries, the
error pipe — is closed. -/
theorem stdio_mapping (t : Tab) (pipes : List Int) (efd : Nat) (ef : Ent)
    (hw : t.WF) (hc : AllCx t)
    (hsrc : ∀ (i : Nat) (u : Int), pipes[i]? = some u → 0 ≤ u → t.get u.toNat ≠ none)
    (herr : t.get efd = some ef) :
    ∃ t' efd', childInit t pipes efd = .ok t' efd' ∧
      t'.get efd' = some ⟨ef.file, true⟩ ∧
      ∀ fd, (execClose t').get fd = expected t pipes fd := by
  obtain ⟨h1, h2⟩ := childInit_core hw hc pipes efd ef herr
  obtain ⟨hok, hexp⟩ := h2 hsrc
  cases hr : childInit t pipes efd with
  | ok t' e' => rw [hr] at h1 hexp; exact ⟨t', e', rfl, h1, hexp⟩
  | fail t' e' => rw [hr] at hok; cases hok

/-- **error pipe survives** (the repaired L9): in *every* outcome of the descriptor shuffling — exec
reached, or a failure exit through `uv__write_errno(error_fd)` because some source is not open — the
descriptor the child would write the errno to is the error pipe (and close-on-exec), for any
`stdio_count`, in particular `stdio_count > error_fd`. -/
theorem error_pipe_intact (t : Tab) (pipes : List Int) (efd : Nat) (ef : Ent)
    (hw : t.WF) (hc : AllCx t) (herr : t.get efd = some ef) :
    (childInit t pipes efd).tab.get (childInit t pipes efd).efd = some ⟨ef.file, true⟩ :=
  (childInit_core hw hc pipes efd ef herr).1

/-- non-vacuity: stdout/stderr swapped, stdin ignored, slot 3 ← fd 0, slot 4 = the error pipe's own
number (stdio_count 5 > error fd 4), parent has fds 0,1,2,4,7 open, all close-on-exec. -/
def exTab : Tab :=
  ((((Tab.empty.set 0 (some ⟨.desc 0, true⟩)).set 1 (some ⟨.desc 1, true⟩)).set 2 (some ⟨.desc 2, true⟩)).set 4
    (some ⟨.desc 4, true⟩)).set 7 (some ⟨.desc 7, true⟩)

example : (childInit exTab [-1, 2, 1, 0, 7] 4).isOk = true ∧
    (List.range 12).map (fun fd => (execClose (childInit exTab [-1, 2, 1, 0, 7] 4).tab).get fd) =
      [some ⟨.devNull false, false⟩, some ⟨.desc 2, false⟩, some ⟨.desc 1, false⟩, some ⟨.desc 0, false⟩,
       some ⟨.desc 7, false⟩, none, none, none, none, none, none, none] ∧
    (childInit exTab [-1, 2, 1, 0, 7] 4).efd = 5 := by decide

example : exTab.WF ∧ (∀ k, k < 9 → ∀ e, exTab.get k = some e → e.cloexec = true) := by
  constructor
  · intro fd h
    have h' : 8 ≤ fd := h
    have h0 : fd ≠ 0 := by omega
    have h1 : fd ≠ 1 := by omega
    have h2 : fd ≠ 2 := by omega
    have h4 : fd ≠ 4 := by omega
    have h7 : fd ≠ 7 := by omega
    simp [exTab, Tab.empty, h0, h1, h2, h4, h7]
  · decide

set_option maxRecDepth 8000 in
/-- **decode_status.** The macros as used at process.c:166-172 recover the exit code of a normally
exited child and the terminating signal (core-dump bit set or not) of a killed one, for every status
word the kernel can produce for these two kinds. -/
theorem decode_status :
    (∀ code, code < 256 → decode (code <<< 8) = (code, 0)) ∧
    (∀ sig, sig < 127 → 0 < sig → ∀ core, core < 2 → decode (sig ||| (core <<< 7)) = (0, sig)) := by
  constructor
  · decide
  · decide

example : decode 0x0100 = (1, 0) ∧ decode 0x008b = (0, 11) ∧ decode 9 = (0, 9) := by decide

end UvModel.ProcFd
