import UvModel.Lemmas.UdpLemmas
/-!
# C10 — UDP: property theorems over the model `UvModel.Udp` (src/unix/udp.c, src/uv-common.c:456-533)

All theorems are universally quantified over the operation sequence (`Step` lists), the scripted user
callbacks (`Script`), the kernel outcome schedule (`SOut` lists, receive queues) and all sizes.
-/
namespace UvModel.Udp.C10
open UvModel.Udp

/-! ### what can happen to a handle -/
inductive Step
  | op (o : Op)                                   -- an API call from outside callbacks
  | env (outs : List SOut) (sizes : List Nat)     -- more kernel outcomes for the fd / a new alloc_cb script
  | run (q : List RItem)                          -- one loop iteration; q = socket receive queue offered to it
  | ioOut | ioIn (q : List RItem) | finishClose   -- the individual loop phases, in any order

def step (sc : Script) (s : H) : Step → H
  | .op o => applyOp s o
  | .env outs sizes => { s with souts := s.souts ++ outs, allocSizes := sizes }
  | .run q => (uvRun sc s q).1
  | .ioOut => ioOut sc s
  | .ioIn q => (ioIn sc s q).1
  | .finishClose => finishClose sc s

/-- a fresh handle (connected or not, RECVMMSG or not) -/
def init (conn mm : Bool) : H := { connected := conn, mmsg := mm }

def reach (sc : Script) (conn mm : Bool) (steps : List Step) : H := steps.foldl (step sc) (init conn mm)

theorem reach_inv (sc : Script) (conn mm : Bool) (steps : List Step) : Inv (reach sc conn mm steps) := by
  unfold reach
  suffices ∀ s, Inv s → Inv (steps.foldl (step sc) s) from this _ (inv_init conn mm)
  induction steps with
  | nil => intro s h; exact h
  | cons st steps ih =>
    intro s h
    apply ih
    cases st with
    | op o => exact applyOp_inv s o h
    | env outs sizes => exact h.of_eq rfl rfl rfl rfl rfl rfl rfl rfl rfl rfl
    | run q => exact uvRun_inv sc s q h
    | ioOut => exact ioOut_inv sc s h
    | ioIn q => exact ioIn_inv sc s q h
    | finishClose => exact finishClose_inv sc s h

/-! ### try_send2_prefix -/

/-- `uv__udp_sendmsgv` returning n > 0 means exactly datagrams 0..n-1 were handed to the OS — for every
batch size and every schedule of sendmsg/sendmmsg results (partial batches, EINTR, errors); a return
value ≤ 0 means nothing was sent. -/
theorem try_send2_prefix (all : List Dgram) (outs : List SOut) :
    ((sendmsgv all outs).ret > 0 →
        wireOf (sendmsgv all outs).log = all.take (sendmsgv all outs).ret.toNat
        ∧ (sendmsgv all outs).ret ≤ all.length)
    ∧ ((sendmsgv all outs).ret ≤ 0 → wireOf (sendmsgv all outs).log = []) :=
  sendmsgv_spec all outs

/-- the same at the API: `uv_udp_try_send2` on any reachable handle state returns r and hands exactly the
first r datagrams of the batch to the OS (none when r ≤ 0) -/
theorem try_send2_prefix_api (s : H) (hc : s.closing = false) (count : Nat) (bufs : List Nat) (dest : Nat) :
    ∃ r : Int, (applyOp s (.trySend2 count bufs dest)).trace = s.trace ++ [.ret r]
      ∧ (r > 0 → (applyOp s (.trySend2 count bufs dest)).wire
                  = s.wire ++ (mkDgrams s.nseq count bufs dest).take r.toNat)
      ∧ (r ≤ 0 → (applyOp s (.trySend2 count bufs dest)).wire = s.wire) := by
  simp only [applyOp, hc, Bool.false_eq_true, if_false]
  split
  · exact ⟨_, rfl, fun h => by simp [UV_EINVAL] at h, fun _ => rfl⟩
  · split
    · exact ⟨_, rfl, fun h => by simp [UV_EAGAIN] at h, fun _ => rfl⟩
    · split
      · exact ⟨_, rfl, fun h => by simp [UV_EINVAL] at h, fun _ => rfl⟩
      · have hs := sendmsgv_spec (mkDgrams s.nseq count bufs dest) s.souts
        refine ⟨_, rfl, fun h => ?_, fun h => ?_⟩
        · show wireOf (_ ++ _) = _
          rw [wireOf_append, (hs.1 h).1]; rfl
        · show wireOf (_ ++ _) = _
          rw [wireOf_append, hs.2 h]; simp [H.wire]

def batch (n : Nat) : List Dgram := (List.range n).map fun i => ⟨i, [8], 1⟩

/-- non-vacuity: 50 datagrams, every sendmmsg succeeds → returns 50, datagrams 0..49 on the wire in order
(the pinned tree's old index arithmetic returned 30 having sent 0–19 and 40–49) -/
example : (sendmsgv (batch 50) []).ret = 50 ∧ wireOf (sendmsgv (batch 50) []).log = batch 50 := by decide
/-- partial sendmmsg results: 20 taken, then 5 of 20, EINTR, 3, then EAGAIN → returns 28 = datagrams 0..27 -/
example : (sendmsgv (batch 50) [.sent 20, .sent 5, .err 4, .sent 3, .err 11]).ret = 28
    ∧ wireOf (sendmsgv (batch 50) [.sent 20, .sent 5, .err 4, .sent 3, .err 11]).log = batch 28 := by decide
/-- error on the first chunk: ENOBUFS is reported as UV_EAGAIN, nothing sent -/
example : (sendmsgv (batch 50) [.err 105]).ret = UV_EAGAIN ∧ wireOf (sendmsgv (batch 50) [.err 105]).log = [] := by
  decide

/-- an unsupported address family is rejected by uv__udp_prep_pkt before any system call: UV_EINVAL when nothing
was sent yet (the former code derived the value from a stale errno), the prefix count otherwise -/
example : (sendmsgv [⟨0, [8], 3⟩] []).ret = UV_EINVAL ∧ (sendmsgv [⟨0, [8], 1⟩, ⟨1, [8], 3⟩, ⟨2, [8], 1⟩] []).ret = UV_EINVAL
    ∧ (sendmsgv [⟨0, [8], 1⟩, ⟨1, [8], 3⟩, ⟨2, [8], 1⟩] []).log = [] := by decide
example : (sendmsgv ((batch 25).set 22 ⟨22, [8], 3⟩) []).ret = 20 := by decide

/-! ### queue_counters_exact -/

/-- `uv_udp_get_send_queue_size/count` equal the bytes/number of requests still owed a callback (completed
queue + write queue), and the handle's share of `loop->active_reqs` equals that number — in every
reachable state, also in the middle of callback-driven re-entrancy -/
theorem queue_counters_exact (sc : Script) (conn mm : Bool) (steps : List Step) :
    let s := reach sc conn mm steps
    s.sqCount = s.owed.length ∧ s.sqSize = ((s.owed.map Dgram.bytes).sum : Nat) ∧ s.activeReqs = s.owed.length := by
  have h := reach_inv sc conn mm steps
  exact ⟨h.count, h.size, h.reqs⟩

/-- in particular the C `size_t` counters never underflow -/
theorem queue_counters_nonneg (sc : Script) (conn mm : Bool) (steps : List Step) :
    0 ≤ (reach sc conn mm steps).sqCount ∧ 0 ≤ (reach sc conn mm steps).sqSize := by
  have h := reach_inv sc conn mm steps
  rw [h.count, h.size]; omega

/-- non-vacuity: two sends under EAGAIN stay queued (7+9 bytes / 2 requests), one loop iteration later both
were sent and called back -/
def exQueued : H := reach (fun _ _ => []) false false
  [.env [.err 11] [], .op (.send [7] 1 false), .op (.send [4, 5] 1 false)]
def exDrained : H := reach (fun _ _ => []) false false
  [.env [.err 11] [], .op (.send [7] 1 false), .op (.send [4, 5] 1 false), .run [], .run []]
example : exQueued.sqCount = 2 ∧ exQueued.sqSize = 16 ∧ exQueued.owed.map (·.seq) = [0, 1] := by decide
example : exDrained.sqCount = 0 ∧ exDrained.sqSize = 0 ∧ exDrained.cbs = [(0, 0), (1, 0)]
    ∧ exDrained.wire.map (·.seq) = [0, 1] := by decide

/-! ### send_cb_once -/

/-- every request accepted by `uv_udp_send` (return value 0) is, in submission order, either already
called back (exactly once — the sequence numbers are pairwise distinct), or in the completed queue, or in the
write queue; nothing else is ever called back -/
theorem send_cb_once (sc : Script) (conn mm : Bool) (steps : List Step) :
    let s := reach sc conn mm steps
    s.accepted.map (·.seq) = s.cbs.map (·.1) ++ s.owed.map (·.seq)
    ∧ (s.cbs.map (·.1) ++ s.owed.map (·.seq)).Nodup := by
  have h := reach_inv sc conn mm steps
  refine ⟨h.part, ?_⟩
  rw [← h.part]
  have h1 : (List.map (·.seq) (reach sc conn mm steps).accepted).Sublist (List.range (reach sc conn mm steps).nseq) := by
    rw [← h.seqs]; exact h.acc.map _
  exact h1.nodup List.nodup_range

/-- after uv__udp_finish_close nothing is owed any more on the closing path: every request still in the
write queue is moved to the completed queue with UV_ECANCELED before the completion run (one step, any state) -/
theorem close_cancels_queued (s : H) :
    let s' : H := { s with cq := s.cq ++ s.wq.map (fun d => (d, UV_ECANCELED)), wq := [] }
    s'.owed = s.owed ∧ s'.wq = [] ∧ ∀ d ∈ s.wq, (d, UV_ECANCELED) ∈ s'.cq := by
  refine ⟨by simp [H.owed, List.map_map, Function.comp_def], rfl, fun d hd => ?_⟩
  simp only [List.mem_append, List.mem_map]
  exact Or.inr ⟨d, hd, rfl⟩

theorem reach_inv2 (sc : Script) (conn mm : Bool) (steps : List Step) : Inv2 (reach sc conn mm steps) := by
  unfold reach
  suffices ∀ s, Inv2 s → Inv2 (steps.foldl (step sc) s) from this _ (inv2_init conn mm)
  induction steps with
  | nil => intro s h; exact h
  | cons st steps ih =>
    intro s h
    apply ih
    cases st with
    | op o => exact ⟨applyOp_inv s o h.1, applyOp_st s o h.1 h.2⟩
    | env outs sizes => exact h.of_eq rfl rfl rfl rfl rfl rfl rfl rfl rfl rfl rfl
    | run q => exact uvRun_inv2 sc s q h
    | ioOut => exact ioOut_inv2 sc s h
    | ioIn q => exact ioIn_inv2 sc s q h
    | finishClose => exact finishClose_inv2 sc s h

/-- the status clause of send_cb_once, in every reachable state, for every send callback made so far
(`cbs` = (request id, status) pairs; `wire` = datagrams the kernel took; `klog` = every sendmsg/sendmmsg call
with the vector offered and its result; `cancelled` = ids of the requests that uv__udp_finish_close found still
in the write queue):
* status 0 exactly when the request's datagram was handed to the OS;
* otherwise the status is UV_ECANCELED for a request that was still queued at close, and for any other
  request it is the (EAGAIN/ENOBUFS-mapped) errno of a failed system call whose first datagram was that request;
* a request that was still queued at close always gets UV_ECANCELED. -/
theorem send_cb_status (sc : Script) (conn mm : Bool) (steps : List Step) :
    ∀ c ∈ (reach sc conn mm steps).cbs,
      (c.2 = 0 ↔ c.1 ∈ (reach sc conn mm steps).wire.map (·.seq))
      ∧ (c.2 ≠ 0 →
          (c.1 ∈ (reach sc conn mm steps).cancelled ∧ c.2 = UV_ECANCELED) ∨
          (c.1 ∉ (reach sc conn mm steps).cancelled ∧
            ∃ k ∈ (reach sc conn mm steps).klog, k.res < 0 ∧ k.offered.head?.map (·.seq) = some c.1 ∧ c.2 = mapErr k.res))
      ∧ (c.1 ∈ (reach sc conn mm steps).cancelled → c.2 = UV_ECANCELED) := by
  have h := (reach_inv2 sc conn mm steps).2
  intro c hc
  refine ⟨⟨fun h0 => (h.c1 c hc h0).1, fun hw => ?_⟩, fun hn => (h.c2 c hc hn).2, fun hcan => ?_⟩
  · by_cases h0 : c.2 = 0
    · exact h0
    · exact absurd hw (h.c2 c hc h0).1
  · by_cases h0 : c.2 = 0
    · exact absurd hcan (h.c1 c hc h0).2
    · rcases (h.c2 c hc h0).2 with ⟨_, h2⟩ | ⟨h1, _⟩
      · exact h2
      · exact absurd hcan h1

/-- non-vacuity: two requests queued under EAGAIN, handle closed: both get UV_ECANCELED, nothing sent;
and (exPinned below) EPERM pinned on request 0: status -1 = the errno of the call that carried it -/
def exCancelled : H := reach (fun _ _ => []) false false
  [.env [.err 11] [], .op (.send [7] 1 false), .op (.send [9] 1 false), .op .close, .run []]
example : exCancelled.cbs = [(0, -125), (1, -125)] ∧ exCancelled.cancelled = [0, 1] ∧ exCancelled.wire = [] := by
  decide

/-! ### dgram_at_most_once_in_order -/

/-- the datagrams handed to the OS are an in-order subsequence of the datagrams submitted on the handle
(each one the submitted record itself: its buffers in order, its destination), and no datagram is handed
over twice -/
theorem dgram_at_most_once_in_order (sc : Script) (conn mm : Bool) (steps : List Step) :
    let s := reach sc conn mm steps
    s.wire.Sublist s.submitted ∧ (s.wire.map (·.seq)).Nodup := by
  have h := reach_inv sc conn mm steps
  have h1 : (reach sc conn mm steps).wire.Sublist (reach sc conn mm steps).submitted :=
    (List.sublist_append_left _ _).trans h.sub
  refine ⟨h1, ?_⟩
  have := h1.map (·.seq)
  rw [h.seqs] at this
  exact this.nodup List.nodup_range

/-- non-vacuity: an error pinned on the head request (EPERM) drops that datagram only; the rest go out in order -/
def exPinned : H := reach (fun _ _ => []) false false
  [.env [.err 11, .err 1] [], .op (.send [7] 1 false), .op (.send [9] 1 false), .op (.send [6] 1 false),
   .run [], .run []]
example : exPinned.wire.map (·.seq) = [1, 2] ∧ exPinned.cbs = [(0, -1), (1, 0), (2, 0)] := by decide

/-! ### try_send_never_overtakes -/

/-- with requests still queued, `uv_udp_try_send` / `uv_udp_try_send2` make no system call at all and
return a negative value (UV_EAGAIN unless an argument check fails first) -/
theorem try_send_never_overtakes (s : H) (hc : s.closing = false) (hq : s.sqCount > 0) (bufs : List Nat) (dest count : Nat) :
    (applyOp s (.trySend bufs dest)).klog = s.klog
    ∧ (∃ r : Int, r < 0 ∧ (applyOp s (.trySend bufs dest)).trace = s.trace ++ [.ret r])
    ∧ (applyOp s (.trySend2 count bufs dest)).klog = s.klog
    ∧ (∃ r : Int, r < 0 ∧ (applyOp s (.trySend2 count bufs dest)).trace = s.trace ++ [.ret r]) := by
  have hne : s.sqCount ≠ 0 := by omega
  refine ⟨?_, ?_, ?_, ?_⟩
  · simp only [applyOp, hc, Bool.false_eq_true, if_false]
    split; · rfl
    split; · rfl
    rfl
  · simp only [applyOp, hc, Bool.false_eq_true, if_false]
    split
    · rename_i h; exact ⟨_, h, rfl⟩
    split
    · exact ⟨_, by decide, rfl⟩
    exact ⟨_, by decide, rfl⟩
  · simp only [applyOp, hc, Bool.false_eq_true, if_false]
    split; · rfl
    rfl
  · simp only [applyOp, hc, Bool.false_eq_true, if_false]
    split
    · exact ⟨_, by decide, rfl⟩
    exact ⟨_, by decide, rfl⟩

/-! ### receive path -/

/-- every buffer obtained from alloc_cb during one `uv__udp_recvmsg` is handed back by exactly one recv_cb
that is not a UV_UDP_MMSG_CHUNK callback (the final UV_UDP_MMSG_FREE callback in recvmmsg mode; the data /
nread = 0 / error callback otherwise), before the next alloc_cb; chunk callbacks only point inside the
outstanding buffer; a refused allocation gets exactly one UV_ENOBUFS callback without buffer.  For every
user behaviour — including uv_udp_recv_stop / uv_close from inside any callback — every receive queue and
every buffer size. -/
theorem recv_buffer_handed_back_once {σ : Type} (u : RecvUser σ) (s : σ) (q : List RItem) :
    ∃ n, runP ⟨0, .idle⟩ (recvmsg u s q).evs = some ⟨n, .idle⟩ :=
  recvLoop_paired u 32 0 32 s q [] rfl

/-- a user that stops receiving in a chunk callback -/
def stopper : RecvUser Bool where
  alloc s := (s, 2 * DGRAM_MAX)
  cb s a := s && !hasChunk a.flags
  recvSet s := s
  fdOpen _ := true
  mmsg _ := true

/-- non-vacuity: uv_udp_recv_stop inside the first UV_UDP_MMSG_CHUNK callback: the second datagram is dropped
(the user stopped) but the buffer still comes back through UV_UDP_MMSG_FREE (the former defect skipped it) -/
example : (recvmsg stopper true [.dg ⟨10, false, 1⟩, .dg ⟨20, false, 2⟩]).evs =
    [.alloc 131072, .cb ⟨10, some ⟨0, 0, 65536⟩, 1, 8⟩, .cb ⟨0, some ⟨0, 0, 131072⟩, 0, 16⟩] := by decide

/-- non-vacuity for the positive theorem: RECVMMSG handle, 3 chunks of room, two datagrams then EAGAIN -/
def plainUser (mm : Bool) (len : Nat) : RecvUser Unit where
  alloc s := (s, len)
  cb s _ := s
  recvSet _ := true
  fdOpen _ := true
  mmsg _ := mm
example : (recvmsg (plainUser true (3 * DGRAM_MAX)) () [.dg ⟨10, false, 1⟩, .dg ⟨70000, true, 2⟩]).evs =
    [.alloc 196608, .cb ⟨10, some ⟨0, 0, 65536⟩, 1, 8⟩, .cb ⟨65536, some ⟨0, 65536, 65536⟩, 2, 10⟩,
     .cb ⟨0, some ⟨0, 0, 196608⟩, 0, 16⟩, .alloc 196608, .cb ⟨0, some ⟨1, 0, 196608⟩, 0, 0⟩] := by decide

/-- each `uv__udp_recvmsg` invocation terminates within its 32-iteration budget — for every buffer size
(also RECVMMSG handles given buffers below 64 KiB, which take the plain recvmsg path), every receive queue and
every user behaviour: the model's fuel is never exhausted and there are at most 32 alloc_cb calls -/
theorem recv_progress {σ : Type} (u : RecvUser σ) (s : σ) (q : List RItem) :
    (recvmsg u s q).spun = false ∧ (recvmsg u s q).evs.countP isAlloc ≤ 32 := by
  refine ⟨recvLoop_terminates u 32 0 32 s q [] (by decide) (by decide), ?_⟩
  have := recvLoop_allocs u 32 0 32 s q []
  simpa [recvmsg] using this

/-- non-vacuity: RECVMMSG handle with a 1000-byte buffer and one datagram waiting: delivered through recvmsg,
then EAGAIN ends the invocation (the old code span forever here) -/
example : (recvmsg (plainUser true 1000) () [.dg ⟨50, false, 7⟩]).evs =
    [.alloc 1000, .cb ⟨50, some ⟨0, 0, 1000⟩, 7, 0⟩, .alloc 1000, .cb ⟨0, some ⟨1, 0, 1000⟩, 0, 0⟩] := by decide

/-- each datagram the kernel handed over during one `uv__udp_recvmsg` is delivered by exactly one recv_cb, in
kernel order, with the sender the kernel reported, UV_UDP_PARTIAL exactly when the kernel set MSG_TRUNC, and
nread = min(kernel length, buffer length); `pre` is what the invocation consumed from the socket queue and no
other callback carries an address.  Hypotheses: the handle is receiving on entry (libuv asserts it), alloc_cb
does not stop it (libuv would call a NULL recv_cb), no uv_udp_recv_stop inside a UV_UDP_MMSG_CHUNK callback
(otherwise the rest of the batch already read is dropped — accepted), kernel peers are real addresses. -/
theorem recv_payload_exact {σ : Type} (u : RecvUser σ) (s : σ) (q : List RItem)
    (hs : u.recvSet s = true) (hA : AllocKeeps u) (hC : NoStopInChunk u) (hq : ∀ d ∈ dgsOf q, d.peer ≠ 0) :
    ∃ pre, q = pre ++ (recvmsg u s q).q ∧
      (deliveries (recvmsg u s q).evs).length = (dgsOf pre).length ∧
      ∀ p ∈ (deliveries (recvmsg u s q).evs).zip (dgsOf pre), Rel p.1 p.2 := by
  obtain ⟨pre, h1, h2⟩ := recvLoop_deliv u hC hA q hq 32 0 32 s q [] hs ⟨[], rfl, trivial⟩
  exact ⟨pre, h1, allRel_zip h2⟩

/-- non-vacuity: truncated datagram into a 100-byte buffer, then one that fits, then EAGAIN -/
example : deliveries (recvmsg (plainUser false 100) () [.dg ⟨200, true, 3⟩, .err 4, .dg ⟨7, false, 5⟩]).evs =
    [⟨100, some ⟨0, 0, 100⟩, 3, 2⟩, ⟨7, some ⟨1, 0, 100⟩, 5, 0⟩] := by decide

end UvModel.Udp.C10
