import UvModel.FdOps
/-! C15 property theorems (descriptor hygiene) over the catalogue semantics of `UvModel.FdOps` -/
namespace UvModel.Props.C15
open UvModel.FdLedger

/-- an arbitrary program: operations of the catalogue, each with the syscall failures injected into it -/
def runOps (s : St) (prog : List (Inj × Op)) : St := prog.foldl (fun s io => step s io.1 io.2) s

/-- **cloexec_everywhere**: after any operation sequence with any injected failures, every descriptor
    that libuv created and that is still open (in a loop/handle field or handed to the caller) has
    FD_CLOEXEC. -/
theorem cloexec_everywhere (s : St) (prog : List (Inj × Op)) :
    ∀ e ∈ (runOps s prog).l.1.led, e.bylib = true → e.cx = true :=
  (runOps s prog).l.2.cx

/-- … and it had the flag from the moment it was created (atomic creation: no window for a fork) -/
theorem cloexec_at_creation (s : St) (prog : List (Inj × Op)) :
    ∀ e, Ev.create e ∈ (runOps s prog).l.1.evs → e.cx = true ∧ e.bylib = true :=
  fun e he => (runOps s prog).l.2.ev _ he

/-- **no_foreign_close**: every close(2) libuv performed was on a descriptor owned by libuv at that
    moment (loop field, handle field — including descriptors whose ownership was transferred with
    uv_*_open — or a local of the running operation), or was requested by the caller (uv_fs_close);
    and it was never descriptor 0, 1 or 2. -/
theorem no_foreign_close (s : St) (prog : List (Inj × Op)) :
    ∀ e auth, Ev.close e auth ∈ (runOps s prog).l.1.evs →
      e.stdio = false ∧ (e.owner.libuv = true ∨ auth = true) :=
  fun e auth he => (runOps s prog).l.2.ev _ he

/-- descriptors 0-2 wrapped in handles are never libuv's to close: they are held by the caller, by a
    handle's io field (uv_*_open), or were orphaned by the caller re-opening the handle -/
theorem stdio_only_wrapped (s : St) (prog : List (Inj × Op)) :
    ∀ e ∈ (runOps s prog).l.1.led, e.stdio = true →
      e.bylib = false ∧ (e.owner = .user ∨ (∃ h, e.owner = .handle h .io) ∨ e.owner = .leaked) :=
  (runOps s prog).l.2.stdio

/-- **owner_unique**: no descriptor is owned by two handles / fields (ids identify entries), and no
    single-valued field holds two descriptors. -/
theorem owner_unique (s : St) (prog : List (Inj × Op)) :
    (∀ e1 ∈ (runOps s prog).l.1.led, ∀ e2 ∈ (runOps s prog).l.1.led, e1.id = e2.id → e1 = e2) ∧
    (∀ e1 ∈ (runOps s prog).l.1.led, ∀ e2 ∈ (runOps s prog).l.1.led,
        e1.owner = e2.owner → e1.owner.unique = true → e1.id = e2.id) :=
  ⟨(runOps s prog).l.2.id.2, (runOps s prog).l.2.uniq⟩

/-- the full leak-freedom claim of the property (NOT proved in full, see `no_leak_partial`) -/
def no_leak_statement : Prop :=
  ∀ (prog : List (Inj × Op)) (inj : Inj),
    let s := runOps {} prog
    s.loopOk = true → (∀ h ∈ s.hs, h.st = .closed ∨ h.st = .dead) →
    ∀ e ∈ (step s inj .loopClose).l.1.led, e.owner = .user ∨ ∃ i, e.owner = .glob i

/-- **no_leak (partial)**: a successful uv_loop_close releases every loop-owned descriptor, on a state
    whose ledger is clean (every libuv-owned descriptor is held by a loop field, by the signal lock
    pipe, or by the caller — i.e. all handles have been closed and no operation left an orphan).
    What is missing for `no_leak_statement`: that every operation of the catalogue preserves
    "no `temp`/`leaked` owner and handle-owned descriptors only on live handles"; the driver evaluates
    exactly that predicate after every op of every generated program (`own … :-` entries), and the
    harness's LEAK monitor checks it on the real descriptor table. -/
theorem no_leak_partial (s : St) (inj : Inj) (hok : s.loopOk = true)
    (hh : ∀ h ∈ s.hs, h.st = .closed ∨ h.st = .dead)
    (hclean : ∀ e ∈ s.l.1.led, e.owner = .user ∨ (∃ i, e.owner = .glob i) ∨ ∃ f, e.owner = .loop f) :
    ∀ e ∈ (step s inj .loopClose).l.1.led, e.owner = .user ∨ ∃ i, e.owner = .glob i := by
  have hany : s.hs.any (fun h => h.st = .live || h.st = .closing) = false := by
    rw [List.any_eq_false]
    intro h hm
    rcases hh h hm with h1 | h1 <;> simp [h1]
  intro e he
  have : (step s inj .loopClose).l.1.led = (exec s.l.1 loopClosePrims).led := by
    simp [step, opLoopClose, hok, hany, ret, St.say, St.run, exec, loopClosePrims, exec1, exec1raw, Prim.ok]
  rw [this] at he
  obtain ⟨hm, hl⟩ := loopClose_led s.l.1 s.l.2 e he
  rcases hclean e hm with h1 | h1 | ⟨f, h1⟩
  · exact Or.inl h1
  · exact Or.inr h1
  · exact absurd h1 (hl f)


/-! ### non-vacuity: concrete programs reach non-trivial states and exercise the events the theorems speak about -/

/-- loop init; tcp handle with an eager socket; socket() made to fail for a udp handle; a socketpair whose
    first end sits on descriptor 0 wrapped in a pipe handle and closed again; a failed pipe bind; uv_pipe -/
def demo : List (Inj × Op) :=
  [([], .loopInit), ([], .tcpInit true), ([("socket", 1, 24)], .udpInit true), ([], .ufd "sockpair" (some 0)),
   ([], .pipeInit false), ([], .open_ 2 9), ([], .close 2), ([], .pipeInit false), ([], .bind 3 "bad" 0), ([], .uvPipe),
   ([], .close 0), ([], .close 3), ([], .run)]

example : ((runOps {} demo).l.1.led.map (·.id)) = [0, 1, 2, 3, 4, 5, 6, 7, 9, 10, 12, 13] := by decide
example : ((runOps {} demo).l.1.evs.filter (fun ev => match ev with | .close _ _ => true | _ => false)).length = 2 := by decide
example : ((runOps {} demo).l.1.led.filter (·.stdio)).map (·.owner) = [.user] := by decide
-- the state after `demo` satisfies the hypotheses of `no_leak_partial`
example : (runOps {} demo).loopOk = true ∧ (runOps {} demo).hs.all (fun h => h.st = .closed || h.st = .dead) = true ∧
    (runOps {} demo).l.1.led.all (fun e => match e.owner with | .user => true | .glob _ => true | .loop _ => true | _ => false) = true := by
  decide
example : ((step (runOps {} demo) [] .loopClose).l.1.led.map (·.owner)) = [.glob 0, .glob 1, .user, .user, .user, .user] := by decide

end UvModel.Props.C15
