import UvModel.Lemmas.FdLedgerLemmas
namespace UvModel.Props.C15
end UvModel.Props.C15
