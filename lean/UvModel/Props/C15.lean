import UvModel.Lemmas.FdOpsLemmas
/-! C15 property theorems (descriptor hygiene) over the catalogue semantics of `UvModel.FdOps` -/
namespace UvModel.Props.C15
open UvModel.FdLedger

/-- an arbitrary program: operations of the catalogue, each with the syscall failures injected into it -/
def runOps (s : St) (prog : List (Inj × Op)) : St := prog.foldl (fun s io => step s io.1 io.2) s

/-- **cloexec_everywhere**: after any operation sequence with any injected failures, every descriptor
    that libuv created and that is still open (in a loop/handle field or handed to the caller) has
    FD_CLOEXEC. -/
theorem cloexec_everywhere (s : St) (prog : List (Inj × Op)) :
    ∀ e ∈ (runOps s prog).l.1.led, e.bylib = true → e.cx = true :=
  (runOps s prog).l.2.cx

/-- … and it had the flag from the moment it was created (atomic creation: no window for a fork) -/
theorem cloexec_at_creation (s : St) (prog : List (Inj × Op)) :
    ∀ e, Ev.create e ∈ (runOps s prog).l.1.evs → e.cx = true ∧ e.bylib = true :=
  fun e he => (runOps s prog).l.2.ev _ he

/-- **no_foreign_close**: every close(2) libuv performed was on a descriptor owned by libuv at that
    moment (loop field, handle field — including descriptors whose ownership was transferred with
    uv_*_open — or a local of the running operation), or was requested by the caller (uv_fs_close);
    and it was never descriptor 0, 1 or 2. -/
theorem no_foreign_close (s : St) (prog : List (Inj × Op)) :
    ∀ e auth, Ev.close e auth ∈ (runOps s prog).l.1.evs →
      e.stdio = false ∧ (e.owner.libuv = true ∨ auth = true) :=
  fun e auth he => (runOps s prog).l.2.ev _ he

/-- descriptors 0-2 wrapped in handles are never libuv's to close: they are held by the caller, by a
    handle's io field (uv_*_open), or were orphaned by the caller re-opening the handle -/
theorem stdio_only_wrapped (s : St) (prog : List (Inj × Op)) :
    ∀ e ∈ (runOps s prog).l.1.led, e.stdio = true →
      e.bylib = false ∧ (e.owner = .user ∨ (∃ h, e.owner = .handle h .io) ∨ e.owner = .leaked) :=
  (runOps s prog).l.2.stdio

/-- **owner_unique**: no descriptor is owned by two handles / fields (ids identify entries), and no
    single-valued field holds two descriptors. -/
theorem owner_unique (s : St) (prog : List (Inj × Op)) :
    (∀ e1 ∈ (runOps s prog).l.1.led, ∀ e2 ∈ (runOps s prog).l.1.led, e1.id = e2.id → e1 = e2) ∧
    (∀ e1 ∈ (runOps s prog).l.1.led, ∀ e2 ∈ (runOps s prog).l.1.led,
        e1.owner = e2.owner → e1.owner.unique = true → e1.id = e2.id) :=
  ⟨(runOps s prog).l.2.id.2, (runOps s prog).l.2.uniq⟩

/-- every operation sequence, with any injected failures, keeps the ledger clean: no local of a finished
    operation and no orphan is left open, and handle-owned descriptors belong to live handles -/
theorem clean_always (prog : List (Inj × Op)) : Clean (runOps {} prog) := by
  unfold runOps
  generalize hs : ({} : St) = s0
  have h0 : Clean s0 := hs ▸ clean_init
  clear hs
  induction prog generalizing s0 with
  | nil => exact h0
  | cons io prog ih => exact ih _ (clean_step h0 io.1 io.2)

/-- the last step of `no_leak`: a successful uv_loop_close releases every loop-owned descriptor of a state
    whose remaining libuv descriptors are loop fields and the lock pipe -/
theorem no_leak_partial (s : St) (inj : Inj) (hok : s.loopOk = true)
    (hh : ∀ h ∈ s.hs, h.st = .closed ∨ h.st = .dead)
    (hclean : ∀ e ∈ s.l.1.led, e.owner = .user ∨ (∃ i, e.owner = .glob i) ∨ ∃ f, e.owner = .loop f) :
    ∀ e ∈ (step s inj .loopClose).l.1.led, e.owner = .user ∨ ∃ i, e.owner = .glob i := by
  have hany : s.hs.any (fun h => h.st = .live || h.st = .closing) = false := by
    rw [List.any_eq_false]
    intro h hm
    rcases hh h hm with h1 | h1 <;> simp [h1]
  intro e he
  have : (step s inj .loopClose).l.1.led = (exec s.l.1 loopClosePrims).led := by
    simp [step, opLoopClose, hok, hany, ret, St.say, St.run, exec, loopClosePrims, exec1, exec1raw, Prim.ok]
  rw [this] at he
  obtain ⟨hm, hl⟩ := loopClose_led s.l.1 s.l.2 e he
  rcases hclean e hm with h1 | h1 | ⟨f, h1⟩
  · exact Or.inl h1
  · exact Or.inr h1
  · exact absurd h1 (hl f)


/-- **no_leak**: for every operation sequence and every injected failure schedule (bind/connect/listen/
    open/spawn errors, EMFILE at any fd-creating call, …): once all handles are closed (or never came to life)
    and uv_loop_close succeeds, the only descriptors left are the caller's own and the two ends of the
    once-per-process signal lock pipe. -/
theorem no_leak (prog : List (Inj × Op)) (inj : Inj)
    (hok : (runOps {} prog).loopOk = true)
    (hh : ∀ h ∈ (runOps {} prog).hs, h.st = .closed ∨ h.st = .dead) :
    ∀ e ∈ (step (runOps {} prog) inj .loopClose).l.1.led, e.owner = .user ∨ ∃ i, e.owner = .glob i := by
  apply no_leak_partial _ inj hok hh
  intro e he
  have hc := clean_always prog e.owner ⟨e, he, rfl⟩
  cases ho : e.owner with
  | user => exact Or.inl rfl
  | glob i => exact Or.inr (Or.inl ⟨i, rfl⟩)
  | loop f => exact Or.inr (Or.inr ⟨f, rfl⟩)
  | handle h sl =>
    exfalso
    rw [ho] at hc
    obtain ⟨k, hk, _⟩ := hc
    unfold kindOf at hk
    split at hk
    · rename_i x hx
      split at hk
      · rename_i hst
        rcases hh x (List.mem_of_getElem? hx) with h1 | h1 <;> simp [h1] at hst
      · cases hk
    · cases hk
  | temp k => rw [ho] at hc; exact hc.elim
  | leaked => rw [ho] at hc; exact hc.elim

/-! ### non-vacuity: concrete programs reach non-trivial states and exercise the events the theorems speak about -/

/-- loop init; tcp handle with an eager socket; socket() made to fail for a udp handle; a socketpair whose
    first end sits on descriptor 0 wrapped in a pipe handle and closed again; a failed pipe bind; uv_pipe -/
def demo : List (Inj × Op) :=
  [([], .loopInit), ([], .tcpInit true), ([("socket", 1, 24)], .udpInit true), ([], .ufd "sockpair" (some 0)),
   ([], .pipeInit false), ([], .open_ 2 9), ([], .close 2), ([], .pipeInit false), ([], .bind 3 "bad" 0), ([], .uvPipe),
   ([], .close 0), ([], .close 3), ([], .run)]

example : ((runOps {} demo).l.1.led.map (·.id)) = [0, 1, 2, 3, 4, 5, 6, 7, 9, 10, 12, 13] := by decide
example : ((runOps {} demo).l.1.evs.filter (fun ev => match ev with | .close _ _ => true | _ => false)).length = 2 := by decide
example : ((runOps {} demo).l.1.led.filter (·.stdio)).map (·.owner) = [.user] := by decide
-- the state after `demo` satisfies the hypotheses of `no_leak_partial`
example : (runOps {} demo).loopOk = true ∧ (runOps {} demo).hs.all (fun h => h.st = .closed || h.st = .dead) = true ∧
    (runOps {} demo).l.1.led.all (fun e => match e.owner with | .user => true | .glob _ => true | .loop _ => true | _ => false) = true := by
  decide
example : ((step (runOps {} demo) [] .loopClose).l.1.led.map (·.owner)) = [.glob 0, .glob 1, .user, .user, .user, .user] := by decide

end UvModel.Props.C15
