import UvModel.Utf8
import UvModel.Puny
import UvModel.Wtf8
import UvModel.Lemmas.TextLemmas
/-!
  C18, text half: property theorems about the models of /repo/src/idna.c
  (`UvModel/Utf8.lean`, `UvModel/Puny.lean`, `UvModel/Wtf8.lean`).
  Helper lemmas: `UvModel/Lemmas/TextLemmas.lean`.  Bytes / code units are `Nat`s; `Bytes l` says
  every element is < 256.  No theorem bounds the length of the input.
-/
namespace UvModel.C18Text
open UvModel.Utf8

/-! ## UTF-8 decoding (`uv__utf8_decode1`) against Unicode Table 3-7 -/

/-- `uv__utf8_decode1` returns the value `v` and advances by `n` **iff** the input starts with a
    well-formed sequence (Unicode Table 3-7) whose scalar value is `v` and whose length is `n`. -/
theorem utf8_accepts_iff_wellformed (l : List Nat) (hl : Bytes l) (v n : Nat) :
    decode1 l = (some v, n) ↔ spec l = some (v, n) := by
  rw [decode1_eq_A l hl]
  match l, hl with
  | [], _ => simp [spec, decode1A]
  | [a], hl =>
    exact ⟨spec_of_A_1 a v n (hl a (by simp)), A_of_spec_1 a v n (hl a (by simp))⟩
  | [a, b], hl =>
    exact ⟨spec_of_A_2 a b v n (hl a (by simp)) (hl b (by simp)),
           A_of_spec_2 a b v n (hl a (by simp)) (hl b (by simp))⟩
  | [a, b, c], hl =>
    exact ⟨spec_of_A_3 a b c v n (hl a (by simp)) (hl b (by simp)) (hl c (by simp)),
           A_of_spec_3 a b c v n (hl a (by simp)) (hl b (by simp)) (hl c (by simp))⟩
  | a :: b :: c :: d :: r, hl =>
    exact ⟨spec_of_A_4 a b c d v n r (hl a (by simp)) (hl b (by simp)) (hl c (by simp)) (hl d (by simp)),
           A_of_spec_4 a b c d v n r (hl a (by simp)) (hl b (by simp)) (hl c (by simp)) (hl d (by simp))⟩

example : spec [0xF0, 0x9F, 0x98, 0x80, 0x41] = some (0x1F600, 4) := by decide
example : spec [0xEF, 0xBD, 0xA1] = some (0xFF61, 3) := by decide
example : decode1 [0xF4, 0x8F, 0xBF, 0xBF] = (some 0x10FFFF, 4) := by decide

/-- "-1 otherwise": anything that does not start with a well-formed sequence (ill-formed lead or
    trailing byte, overlong form, surrogate, above U+10FFFF, cut short by the end of the input) is
    rejected. -/
theorem utf8_rejects_illformed (l : List Nat) (hl : Bytes l) (h : spec l = none) :
    (decode1 l).1 = none := by
  cases hd : decode1 l with
  | mk r n =>
    cases r with
    | none => rfl
    | some v =>
      have := (utf8_accepts_iff_wellformed l hl v n).mp hd
      rw [h] at this; cases this

-- formerly accepted (idna.c:117 tested only the XOR of the trailing bytes); overlongs; surrogates
example : spec [0xE1, 0x41, 0x41] = none ∧ (decode1 [0xE1, 0x41, 0x41]).1 = none := by decide
example : spec [0xF1, 0x20, 0x41, 0xC1] = none ∧ (decode1 [0xF1, 0x20, 0x41, 0xC1]).1 = none := by decide
example : spec [0xC0, 0x80] = none ∧ spec [0xE0, 0x80, 0x80] = none ∧ spec [0xED, 0xA0, 0x80] = none ∧
    spec [0xF4, 0x90, 0x80, 0x80] = none := by decide

/-- A sequence cut short by the end of the input is rejected (the repaired L4 defect): a lead byte
    that announces more trailing bytes than remain never yields a value, whatever those bytes are. -/
theorem utf8_truncated_rejected (a : Nat) (rest : List Nat) (hb : Bytes (a :: rest)) (ha : 128 ≤ a)
    (h : rest.length < need a) : (decode1 (a :: rest)).1 = none := by
  rw [decode1_eq_A _ hb]
  unfold need at h
  match rest, h with
  | [], h => simp only [decode1A]; repeat' split
             all_goals first | rfl | (exfalso; omega)
  | [b], h => simp only [decode1A]; simp only [List.length_cons, List.length_nil] at h
              repeat' split at h
              all_goals (repeat' split)
              all_goals first | rfl | (exfalso; omega)
  | [b, c], h => simp only [decode1A]; simp only [List.length_cons, List.length_nil] at h
                 repeat' split at h
                 all_goals (repeat' split)
                 all_goals first | rfl | (exfalso; omega)
  | b :: c :: d :: r, h => simp only [List.length_cons] at h; repeat' split at h
                           all_goals omega

example : (decode1 [0xE2, 0x82]).1 = none ∧ (decode1 [0xF1, 0x9F, 0x98]).1 = none := by decide

end UvModel.C18Text
