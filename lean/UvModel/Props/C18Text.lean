import UvModel.Utf8
import UvModel.Puny
import UvModel.Wtf8
import UvModel.Lemmas.TextLemmas
/-!
  C18, text half: property theorems about the models of /repo/src/idna.c
  (`UvModel/Utf8.lean`, `UvModel/Puny.lean`, `UvModel/Wtf8.lean`).
  Helper lemmas: `UvModel/Lemmas/TextLemmas.lean`.  Bytes / code units are `Nat`s; `Bytes l` says
  every element is < 256.  No theorem bounds the length of the input.
-/
namespace UvModel.C18Text
open UvModel.Utf8

/-! ## UTF-8 decoding (`uv__utf8_decode1`) against Unicode Table 3-7 -/

/-- `uv__utf8_decode1` returns the value `v` and advances by `n` **iff** the input starts with a
    well-formed sequence (Unicode Table 3-7) whose scalar value is `v` and whose length is `n`. -/
theorem utf8_accepts_iff_wellformed (l : List Nat) (hl : Bytes l) (v n : Nat) :
    decode1 l = (some v, n) ↔ spec l = some (v, n) :=
  decode1_iff_spec l hl v n

example : spec [0xF0, 0x9F, 0x98, 0x80, 0x41] = some (0x1F600, 4) := by decide
example : spec [0xEF, 0xBD, 0xA1] = some (0xFF61, 3) := by decide
example : decode1 [0xF4, 0x8F, 0xBF, 0xBF] = (some 0x10FFFF, 4) := by decide

/-- "-1 otherwise": anything that does not start with a well-formed sequence (ill-formed lead or
    trailing byte, overlong form, surrogate, above U+10FFFF, cut short by the end of the input) is
    rejected. -/
theorem utf8_rejects_illformed (l : List Nat) (hl : Bytes l) (h : spec l = none) :
    (decode1 l).1 = none := by
  cases hd : decode1 l with
  | mk r n =>
    cases r with
    | none => rfl
    | some v =>
      have := (utf8_accepts_iff_wellformed l hl v n).mp hd
      rw [h] at this; cases this

-- formerly accepted (idna.c:117 tested only the XOR of the trailing bytes); overlongs; surrogates
example : spec [0xE1, 0x41, 0x41] = none ∧ (decode1 [0xE1, 0x41, 0x41]).1 = none := by decide
example : spec [0xF1, 0x20, 0x41, 0xC1] = none ∧ (decode1 [0xF1, 0x20, 0x41, 0xC1]).1 = none := by decide
example : spec [0xC0, 0x80] = none ∧ spec [0xE0, 0x80, 0x80] = none ∧ spec [0xED, 0xA0, 0x80] = none ∧
    spec [0xF4, 0x90, 0x80, 0x80] = none := by decide

/-- A sequence cut short by the end of the input is rejected (the repaired L4 defect): a lead byte
    that announces more trailing bytes than remain never yields a value, whatever those bytes are. -/
theorem utf8_truncated_rejected (a : Nat) (rest : List Nat) (hb : Bytes (a :: rest)) (ha : 128 ≤ a)
    (h : rest.length < need a) : (decode1 (a :: rest)).1 = none := by
  rw [decode1_eq_A _ hb]
  unfold need at h
  match rest, h with
  | [], h => simp only [decode1A]; repeat' split
             all_goals first | rfl | (exfalso; omega)
  | [b], h => simp only [decode1A]; simp only [List.length_cons, List.length_nil] at h
              repeat' split at h
              all_goals (repeat' split)
              all_goals first | rfl | (exfalso; omega)
  | [b, c], h => simp only [decode1A]; simp only [List.length_cons, List.length_nil] at h
                 repeat' split at h
                 all_goals (repeat' split)
                 all_goals first | rfl | (exfalso; omega)
  | b :: c :: d :: r, h => simp only [List.length_cons] at h; repeat' split at h
                           all_goals omega

example : (decode1 [0xE2, 0x82]).1 = none ∧ (decode1 [0xF1, 0x9F, 0x98]).1 = none := by decide


/-! ## IDNA ToASCII (`uv__idna_toascii`, `uv__idna_toascii_label`) -/
open UvModel.Puny

/-- `toascii_bounded`: whatever the input, valid or not, and whatever the result (success or any
    error): the bytes stored never reach `de` (`out.length ≤ cap`; since stores only append, this
    holds at every intermediate point too), and on success the return value is the number of bytes
    stored, the last of them the NUL — inside the buffer. -/
theorem toascii_bounded (s : List Nat) (cap : Nat) :
    (toascii s cap).2.cap = cap ∧ (toascii s cap).2.out.length ≤ cap ∧
    (0 ≤ (toascii s cap).1 → ∃ pre, (toascii s cap).2.out = pre ++ [0] ∧
        (toascii s cap).1 = ((pre.length + 1 : Nat) : Int) ∧ pre.length + 1 ≤ cap) := by
  unfold toascii
  split
  · refine ⟨rfl, Nat.zero_le _, fun h => absurd (show (0 : Int) ≤ UV_EINVAL from h) (by decide)⟩
  · have he := scan_ext [] s { cap := cap }
    have hok : (scan [] s { cap := cap }).2.out.length ≤ (scan [] s { cap := cap }).2.cap :=
      he.2.2 (Nat.zero_le _)
    rw [he.1] at hok
    refine ⟨he.1, hok, fun h => ?_⟩
    obtain ⟨pre, h1, h2⟩ := scan_success [] s { cap := cap } h
    refine ⟨pre, h1, h2, ?_⟩
    rw [h1] at hok; simpa using hok

/-- every store of the label encoder is bounded as well (any starting position `b` in the buffer) -/
theorem toascii_label_bounded (bytes : List Nat) (b : Buf) (h : b.out.length ≤ b.cap) :
    (label bytes b).2.cap = b.cap ∧ b.out <+: (label bytes b).2.out ∧
    (label bytes b).2.out.length ≤ b.cap := by
  have he := label_ext bytes b
  exact ⟨he.1, he.2.1, he.1 ▸ he.2.2 h⟩

/-- the only results: a length, UV_EINVAL, UV_E2BIG (32-bit overflow of `delta`), or the model's
    out-of-fuel marker (excluded by `toascii_fuel_suffices` below for byte strings < 2^32) -/
theorem toascii_result_codes (s : List Nat) (cap : Nat) :
    0 ≤ (toascii s cap).1 ∨ (toascii s cap).1 = UV_EINVAL ∨ (toascii s cap).1 = UV_E2BIG ∨
      (toascii s cap).1 = FUEL_OUT := by
  unfold toascii
  split
  · right; left; rfl
  · exact scan_rc _ _ _

/-- `toascii_bounded`, second half — "UV_EINVAL when it does not fit": the outcome depends on the
    destination size only through "does the result fit".  If the conversion succeeds with `n` bytes
    (NUL included) in a destination of `cap'` bytes, then every destination of at least `n` bytes
    receives exactly the same bytes and returns `n`, and every destination of fewer than `n` bytes
    returns UV_EINVAL.  (Proof: two-run simulation, the small destination always holds
    `take cap` of what the large one holds — `scan_sim` in TextLemmas.) -/
theorem toascii_fits_iff (s : List Nat) (cap cap' : Nat) (h : 0 ≤ (toascii s cap').1) :
    ((toascii s cap').1 ≤ (cap : Int) → (toascii s cap).1 = (toascii s cap').1 ∧
        (toascii s cap).2.out = (toascii s cap').2.out) ∧
    ((cap : Int) < (toascii s cap').1 → (toascii s cap).1 = UV_EINVAL) :=
  toascii_fits s cap cap' h

/-- Fuel suffices: the model's outer Punycode loop is given `len + 1` passes; every pass encodes at
    least one of the remaining code points (`todo` = number of code points `≥ n`, strictly
    decreasing), so for every byte string shorter than 2^32 the out-of-fuel marker is never the
    result — the model's `while (todo > 0)` is the C loop. -/
theorem toascii_fuel_suffices (s : List Nat) (cap : Nat) (hb : Bytes s) (hlen : s.length < 4294967296) :
    (toascii s cap).1 ≠ FUEL_OUT :=
  toascii_no_fuel s cap hb hlen

/-- hence the only results are a length, UV_EINVAL and UV_E2BIG -/
theorem toascii_result_codes_exact (s : List Nat) (cap : Nat) (hb : Bytes s) (hlen : s.length < 4294967296) :
    0 ≤ (toascii s cap).1 ∨ (toascii s cap).1 = UV_EINVAL ∨ (toascii s cap).1 = UV_E2BIG := by
  rcases toascii_result_codes s cap with h | h | h | h
  · exact Or.inl h
  · exact Or.inr (Or.inl h)
  · exact Or.inr (Or.inr h)
  · exact absurd h (toascii_fuel_suffices s cap hb hlen)

/-- a destination too small for even the terminator is UV_EINVAL -/
example : (toascii [0x61] 1).1 = UV_EINVAL ∧ (toascii [0x61] 2) = (2, { out := [0x61, 0], cap := 2 }) := by
  constructor <;> simp [toascii, scan, decode1, isDot, label, decodeAll, countLoop, writeAscii, Buf.put,
    UV_EINVAL]

/-- `toascii_ascii_identity`: a label made of ASCII bytes only is stored unchanged, byte for byte,
    through the guarded stores (`putAll`), nothing else is stored, and the label function returns its
    length.  (`putAll_fits`: when the label fits, the destination is exactly `b.out ++ bytes`.) -/
theorem toascii_ascii_identity (bytes : List Nat) (b : Buf) (h : ∀ x ∈ bytes, x < 128)
    (hlen : bytes.length < 4294967296) :
    label bytes b = ((bytes.length : Int), putAll b bytes) ∧
    (b.out.length + bytes.length ≤ b.cap → (label bytes b).2.out = b.out ++ bytes) := by
  have := label_ascii bytes b h hlen
  exact ⟨this, fun hc => by rw [this]; exact (putAll_fits bytes b hc).1⟩

example : label [0x77, 0x77, 0x77] { cap := 8 } = (3, { out := [0x77, 0x77, 0x77], cap := 8 }) :=
  (toascii_ascii_identity [0x77, 0x77, 0x77] { cap := 8 } (by intro x hx; simp at hx; omega) (by simp)).1

/-- `toascii_prefix_iff_nonascii` (per label, well-formed UTF-8 with scalar values `vs`):
    * if some code point is non-ASCII, the first four stores are "xn--" (as far as there is room);
    * if none is, exactly the label itself is stored — no prefix is added.
    (A literal "starts with xn-- iff non-ASCII" would be false for the ASCII label "xn--abc", which is
    copied unchanged.) -/
theorem toascii_prefix_iff_nonascii (bytes : List Nat) (b : Buf) (hb : Bytes bytes) (vs : List Nat)
    (hs : specAll bytes = some vs) (hlen : bytes.length < 4294967296) (hvl : vs.length < 4294967296) :
    ((∃ v ∈ vs, 128 ≤ v) → ((((b.put 120).put 110).put 45).put 45).out <+: (label bytes b).2.out) ∧
    ((∀ x ∈ bytes, x < 128) → (label bytes b).2 = putAll b bytes) := by
  refine ⟨fun hn => label_prefix bytes b hb vs hs hn hvl, fun ha => ?_⟩
  rw [label_ascii bytes b ha hlen]

-- "ü" (C3 BC, correspondence run: "xn--tda"): hypotheses hold, the prefix is stored
example : [120, 110, 45, 45] <+: (label [0xC3, 0xBC] { cap := 16 }).2.out := by
  have h := (toascii_prefix_iff_nonascii [0xC3, 0xBC] { cap := 16 } (by intro x hx; simp at hx; omega)
    [0xFC] (by simp [specAll, spec, isCont, lo2, hi2]) (by simp) (by simp)).1 ⟨0xFC, by simp, by omega⟩
  simpa [Buf.put] using h

/-- `toascii_rejects_illformed`: a host name that is not well-formed UTF-8 (`specAll = none`:
    some position does not start a Table 3-7 sequence — including a sequence cut short by the end
    of the string) is never converted: the result is an error.  (It is UV_EINVAL unless an earlier
    label already failed with UV_E2BIG.) -/
theorem toascii_rejects_illformed (s : List Nat) (cap : Nat) (hb : Bytes s) (h : specAll s = none) :
    (toascii s cap).1 < 0 := by
  unfold toascii
  split
  · show UV_EINVAL < 0; decide
  · exact scan_rejects [] s _ hb h (fun l hl v n hd => (utf8_accepts_iff_wellformed l hl v n).mp hd)

example : specAll [0x61, 0xE2, 0x82] = none ∧ specAll [0xE1, 0x41, 0x41] = none := by
  constructor <;> simp [specAll, spec, isCont, lo2, hi2]

/-! ## WTF-8 ⇄ UTF-16 -/
open UvModel.Wtf8

/-- `utf16_wtf8_roundtrip`: for every list of non-zero UTF-16 code units — surrogate pairs, unpaired
    high or low surrogates in any position — in both length conventions (`z`: NUL-terminated / -1,
    `¬z`: explicit length), `uv_utf16_to_wtf8` (allocating mode) succeeds with some bytes `w` plus
    the terminator, reports `w.length`, and `uv_wtf8_to_utf16 w` gives the units back (plus the
    terminator). -/
theorem utf16_wtf8_roundtrip (z : Bool) (u : List Nat) (hu : Units u) :
    ∃ w, toWtf8 z u none = ⟨0, w ++ [0], w.length⟩ ∧ toUtf16 w = some (u ++ [0]) :=
  ⟨encU u, toWtf8_alloc z u hu, toUtf16_encU u hu⟩

example : Units [0xD83D, 0xDE00, 0xD800, 0x41, 0xDFFF, 0xDBFF] := by
  intro x hx; simp at hx; omega
example : encU [0xD83D, 0xDE00, 0xD800] = [0xF0, 0x9F, 0x98, 0x80, 0xED, 0xA0, 0x80] := by decide

/-- the same with a caller-supplied target of any sufficient size -/
theorem utf16_wtf8_roundtrip_provided (z : Bool) (u : List Nat) (hu : Units u) (n : Nat)
    (hn : lengthAsWtf8 z u ≤ n) :
    ∃ w, toWtf8 z u (some n) = ⟨0, w ++ [0], w.length⟩ ∧ toUtf16 w = some (u ++ [0]) :=
  ⟨encU u, toWtf8_provided z u hu n (by rw [← lengthAsWtf8_eq z u hu]; exact hn), toUtf16_encU u hu⟩

/-- `length_functions_exact` (WTF-8 → UTF-16): for *every* byte string, `uv_wtf8_length_as_utf16`
    is -1 exactly when the converter fails, and otherwise the number of units the converter stores
    (terminator included). -/
theorem length_functions_exact_wtf8 (l : List Nat) :
    lengthAsUtf16 l = (toUtf16 l).map List.length := by
  rw [lengthAsUtf16_eq l 0]; congr 1; funext us; omega

/-- `length_functions_exact` (UTF-16 → WTF-8): `uv_utf16_length_as_wtf8` is the number of bytes
    `uv_utf16_to_wtf8` stores before the terminator, which is also what it reports. -/
theorem length_functions_exact_utf16 (z : Bool) (u : List Nat) (hu : Units u) :
    (toWtf8 z u none).out.length = lengthAsWtf8 z u + 1 ∧ (toWtf8 z u none).reported = lengthAsWtf8 z u := by
  rw [toWtf8_alloc z u hu, lengthAsWtf8_eq z u hu]; simp

end UvModel.C18Text
