import UvModel.Utf8
import UvModel.Puny
import UvModel.Wtf8
import UvModel.Lemmas.TextLemmas
/-!
  C18, text half: property theorems about the models of /repo/src/idna.c
  (`UvModel/Utf8.lean`, `UvModel/Puny.lean`, `UvModel/Wtf8.lean`).
  Helper lemmas: `UvModel/Lemmas/TextLemmas.lean`.  Bytes / code units are `Nat`s; `Bytes l` says
  every element is < 256.  No theorem bounds the length of the input.
-/
namespace UvModel.C18Text
open UvModel.Utf8

/-! ## UTF-8 decoding (`uv__utf8_decode1`) against Unicode Table 3-7 -/

/-- The property as written in the record: `decode1` returns a scalar value iff the input starts
    with a well-formed sequence, and then value and consumed length are right; -1 otherwise.
    This is FALSE of the current code (see `utf8_accepts_iff_wellformed_false`). -/
def utf8_accepts_iff_wellformed_statement : Prop :=
  ∀ l : List Nat, Bytes l → l ≠ [] →
    (∀ v n, spec l = some (v, n) → decode1 l = (some v, n)) ∧ (spec l = none → (decode1 l).1 = none)

/-- NEGATION with a concrete witness: `E1 41 41` (a three-byte lead followed by two ASCII letters)
    is accepted as U+1041.  The test `0x80 != (0xC0 & (b ^ c ^ d))` (idna.c:117) only looks at the
    XOR of the trailing bytes. -/
theorem utf8_accepts_iff_wellformed_false : ¬ utf8_accepts_iff_wellformed_statement := by
  intro h
  have := (h [0xE1, 0x41, 0x41] (by intro b hb; simp at hb; omega) (by simp)).2 (by decide)
  revert this; decide

/-- the witness, spelled out: ill-formed by Table 3-7, accepted by the code -/
example : spec [0xE1, 0x41, 0x41] = none ∧ decode1 [0xE1, 0x41, 0x41] = (some 0x1041, 3) := by decide
example : spec [0xF1, 0x20, 0x41, 0xC1] = none ∧ decode1 [0xF1, 0x20, 0x41, 0xC1] = (some 0x60041, 4) := by
  decide

/-- Completeness (full strength): whenever the input starts with a well-formed sequence, `decode1`
    returns exactly its scalar value and consumes exactly its length. -/
theorem utf8_wellformed_accepted (l : List Nat) (hl : Bytes l) (v n : Nat)
    (h : spec l = some (v, n)) : decode1 l = (some v, n) := by
  rw [decode1_eq_A l hl]
  match l, hl with
  | [], _ => simp [spec] at h
  | [a], hl => exact A_of_spec_1 a v n (hl a (by simp)) h
  | [a, b], hl => exact A_of_spec_2 a b v n (hl a (by simp)) (hl b (by simp)) h
  | [a, b, c], hl => exact A_of_spec_3 a b c v n (hl a (by simp)) (hl b (by simp)) (hl c (by simp)) h
  | a :: b :: c :: d :: r, hl =>
    exact A_of_spec_4 a b c d v n r (hl a (by simp)) (hl b (by simp)) (hl c (by simp)) (hl d (by simp)) h

example : spec [0xF0, 0x9F, 0x98, 0x80, 0x41] = some (0x1F600, 4) := by decide
example : spec [0xEF, 0xBD, 0xA1] = some (0xFF61, 3) := by decide

/-- Soundness on the inputs where at most one of the trailing bytes the decoder reads is not a
    continuation byte (`FewBadX`; always true when the lead byte announces one trailing byte): a value
    is returned only for a well-formed sequence, with its value and length. -/
theorem utf8_accepted_wellformed_partial (l : List Nat) (hl : Bytes l) (hf : FewBadX l) (v n : Nat)
    (h : decode1 l = (some v, n)) : spec l = some (v, n) := by
  rw [decode1_eq_A l hl] at h
  match l, hl with
  | [], _ => simp [decode1A] at h
  | [a], hl => exact spec_of_A_1 a v n (hl a (by simp)) h
  | [a, b], hl => exact spec_of_A_2 a b v n (hl a (by simp)) (hl b (by simp)) h
  | [a, b, c], hl =>
    exact spec_of_A_3 a b c v n (hl a (by simp)) (hl b (by simp)) (hl c (by simp)) hf h
  | a :: b :: c :: d :: r, hl =>
    exact spec_of_A_4 a b c d v n r (hl a (by simp)) (hl b (by simp)) (hl c (by simp)) (hl d (by simp)) hf h

/-- The statement of the record restricted to `FewBadX` inputs (what is missing for the full
    statement: inputs with two or three non-continuation trailing bytes whose top bits cancel). -/
theorem utf8_accepts_iff_wellformed_partial (l : List Nat) (hl : Bytes l) (hf : FewBadX l) :
    (∀ v n, spec l = some (v, n) → decode1 l = (some v, n)) ∧ (spec l = none → (decode1 l).1 = none) := by
  refine ⟨utf8_wellformed_accepted l hl, fun hs => ?_⟩
  cases hd : decode1 l with
  | mk r n =>
    cases r with
    | none => rfl
    | some v =>
      have := utf8_accepted_wellformed_partial l hl hf v n hd
      rw [hs] at this; cases this

example : FewBadX [0xE2, 0x82, 0x41] ∧ FewBadX [0xF0, 0x9F, 0x98, 0x80] ∧ ¬ FewBadX [0xE1, 0x41, 0x41] := by
  refine ⟨?_, ?_, ?_⟩ <;> simp [FewBadX, nbad, isCont]

/-- A sequence cut short by the end of the input is rejected (the repaired L4 defect): a lead byte
    that announces more trailing bytes than remain never yields a value, whatever those bytes are. -/
theorem utf8_truncated_rejected (a : Nat) (rest : List Nat) (hb : Bytes (a :: rest)) (ha : 128 ≤ a)
    (h : rest.length < need a) : (decode1 (a :: rest)).1 = none := by
  rw [decode1_eq_A _ hb]
  unfold need at h
  match rest, h with
  | [], h => simp only [decode1A]; repeat' split
             all_goals first | rfl | (exfalso; omega)
  | [b], h => simp only [decode1A]; simp only [List.length_cons, List.length_nil] at h
              repeat' split at h
              all_goals (repeat' split)
              all_goals first | rfl | (exfalso; omega)
  | [b, c], h => simp only [decode1A]; simp only [List.length_cons, List.length_nil] at h
                 repeat' split at h
                 all_goals (repeat' split)
                 all_goals first | rfl | (exfalso; omega)
  | b :: c :: d :: r, h => simp only [List.length_cons] at h; repeat' split at h
                           all_goals omega

example : (decode1 [0xE2, 0x82]).1 = none ∧ (decode1 [0xF1, 0x9F, 0x98]).1 = none := by decide

end UvModel.C18Text
