import UvModel.GaiHost
import UvModel.Props.C18Text
/-!
  C18, text half, the *caller* of the codec: what `uv_getaddrinfo` (model `UvModel/GaiHost.lean`,
  /repo/src/unix/getaddrinfo.c:139-222) hands to the resolver.  Every theorem is quantified over
  all `hints` (NULL or any `ai_flags` / `ai_family` / `ai_socktype` / `ai_protocol`), all services
  and all host byte strings of any length.
-/
namespace UvModel.C18Gai
open UvModel.Utf8 UvModel.Puny UvModel.GaiHost

theorem bytes_cstr (h : List Nat) (hb : Bytes h) : Bytes (cstr h) :=
  fun b hm => hb b ((List.takeWhile_sublist _).subset hm)

/-- `gai_illformed_refused`: a host name that is not well-formed UTF-8 (truncated sequences
    included) never reaches the resolver, whatever `hints` and `service` are: the call returns a
    negative error synchronously. -/
theorem gai_illformed_refused (h : List Nat) (hb : Bytes h) (hbad : specAll (cstr h) = none)
    (service : Option (List Nat)) (hints : Option Hints) :
    ∃ rc, rc < 0 ∧ prep false (some h) service hints = .err rc := by
  have hr := C18Text.toascii_rejects_illformed (cstr h) 256 (bytes_cstr h hb) hbad
  refine ⟨(toascii (cstr h) 256).1, hr, ?_⟩
  simp [prep, hr]

example : specAll (cstr [0x31, 0x2E, 0xC3]) = none := by
  simp [cstr, specAll, spec]

/-- `gai_node_is_toascii`: when the resolver is called for a host name, the node it receives is the
    C string stored by `uv__idna_toascii` in the 256-byte destination — at most 255 bytes — and the
    service and hints are the caller's, for every `hints`. -/
theorem gai_node_is_toascii (h : List Nat) (service : Option (List Nat)) (hints : Option Hints)
    (node : Option (List Nat)) (s' : Option (List Nat)) (h' : Option Hints)
    (hc : prep false (some h) service hints = .call node s' h') :
    0 ≤ (toascii (cstr h) 256).1 ∧ node = some (cstr (toascii (cstr h) 256).2.out) ∧
    (∀ n, node = some n → n.length ≤ 255) ∧ s' = service.map cstr ∧ h' = hints := by
  by_cases hr : (toascii (cstr h) 256).1 < 0
  · simp [prep, hr] at hc
  · simp [prep, hr] at hc
    obtain ⟨h1, h2, h3⟩ := hc
    have h0 : 0 ≤ (toascii (cstr h) 256).1 := by omega
    refine ⟨h0, h1.symm, ?_, h2.symm, h3.symm⟩
    intro n hn
    rw [← h1] at hn
    cases hn
    obtain ⟨pre, hp, _, hlen⟩ := (C18Text.toascii_bounded (cstr h) 256).2.2 h0
    rw [hp]
    have : (cstr (pre ++ [0])).length ≤ pre.length := by
      unfold cstr
      rw [List.takeWhile_append]
      split
      · simp [List.takeWhile]
      · exact (List.takeWhile_sublist _).length_le
    omega

/-- `gai_host_step_ignores_hints`: the synchronous outcome for the host name (error code, or the
    node handed to the resolver) is the same for any two `hints` — NULL, AI_NUMERICHOST, anything. -/
theorem gai_host_step_ignores_hints (r : Bool) (host service : Option (List Nat)) (h1 h2 : Option Hints) :
    (∀ rc, prep r host service h1 = .err rc ↔ prep r host service h2 = .err rc) ∧
    (∀ node s, prep r host service h1 = .call node s h1 ↔ prep r host service h2 = .call node s h2) := by
  unfold prep
  constructor
  · intro rc; split
    · exact Iff.rfl
    · cases host with
      | none => simp
      | some h => simp only []; split <;> simp
  · intro node s; split
    · simp
    · cases host with
      | none => simp
      | some h => simp only []; split <;> simp

/-- `gai_overlong_refused`: a host name whose converted form (NUL included) needs more than the
    256 bytes of `hostname_ascii` is refused with UV_EINVAL for every `hints`; it never reaches the
    resolver truncated or unconverted. -/
theorem gai_overlong_refused (h : List Nat) (cap' : Nat) (hok : 0 ≤ (toascii (cstr h) cap').1)
    (hbig : 256 < (toascii (cstr h) cap').1) (service : Option (List Nat)) (hints : Option Hints) :
    prep false (some h) service hints = .err UV_EINVAL := by
  have hr := (C18Text.toascii_fits_iff (cstr h) 256 cap' hok).2 hbig
  have hneg : UV_EINVAL < 0 := by decide
  simp only [prep, Bool.false_or, Option.isNone_some, Bool.false_and, Bool.false_eq_true, if_false, hr]
  exact if_pos hneg

/-- non-vacuity: `bücher.de` with AI_NUMERICHOST reaches the resolver as `xn--bcher-kva.de` -/
example : prep false (some [0x62, 0xC3, 0xBC, 0x63, 0x68, 0x65, 0x72, 0x2E, 0x64, 0x65]) none
      (some { flags := 4, family := 0, socktype := 1, protocol := 0 }) =
    .call (some [120, 110, 45, 45, 98, 99, 104, 101, 114, 45, 107, 118, 97, 46, 100, 101]) none
      (some { flags := 4, family := 0, socktype := 1, protocol := 0 }) := by
  decide +kernel

/-- non-vacuity: truncated UTF-8 with AI_NUMERICHOST is refused with UV_EINVAL -/
example : prep false (some [0x31, 0x2E, 0xC3]) none
      (some { flags := 4, family := 2, socktype := 0, protocol := 0 }) = .err (-22) := by
  decide +kernel

end UvModel.C18Gai
