import UvModel.FsBuf
import UvModel.Lemmas.FsBufLemmas
/-!
# C11 — property theorems over the model of src/unix/fs.c (buffer lists) and the route tables

Vocabulary (Lemmas/FsBufLemmas.lean): `Bounded` (the kernel never reports more bytes than the iovec
holds), `Progress` (a call given ≥ 1 byte that does not fail transfers ≥ 1 byte), `NoError` (no call
failed with anything but EINTR), `Consecutive off calls` (each call is issued where the previous one
stopped), `writtenAll calls` (concatenation of the bytes the kernel accepted, call by call).
Buffers are `List (List α)` for an arbitrary byte type `α`.
-/
namespace UvModel.FsBuf
variable {α : Type}

/-! ## uv__fs_buf_offset -/

/-- `uv__fs_buf_offset(bufs, size)` for `size` ≤ the bytes in `bufs`: returns `k` such that the first
    `k` buffers hold at most `size` bytes (they are fully consumed) and are left untouched, buffer `k` is
    advanced by exactly the remainder `size − prefixBytes k` (which is 0 or smaller than that buffer, so
    it is not fully consumed), later buffers are untouched, `k` is the first index at which the count is
    used up, and what remains after stepping over `k` buffers is exactly the byte sequence minus its
    first `size` bytes. -/
theorem buf_offset_spec (bufs : List (List α)) (size : Nat) (h : size ≤ bufs.flatten.length) :
    prefixBytes bufs (bufOffset bufs size).1 ≤ size ∧
    (bufOffset bufs size).2 = bufs.take (bufOffset bufs size).1 ++
      (match bufs.drop (bufOffset bufs size).1 with
       | [] => []
       | b :: r => b.drop (size - prefixBytes bufs (bufOffset bufs size).1) :: r) ∧
    (∀ b r, bufs.drop (bufOffset bufs size).1 = b :: r →
      size - prefixBytes bufs (bufOffset bufs size).1 = 0 ∨
      size - prefixBytes bufs (bufOffset bufs size).1 < b.length) ∧
    (0 < (bufOffset bufs size).1 → prefixBytes bufs ((bufOffset bufs size).1 - 1) < size) ∧
    ((bufOffset bufs size).2.drop (bufOffset bufs size).1).flatten = bufs.flatten.drop size := by
  obtain ⟨a, b, c, d⟩ := bufOffset_spec bufs size h
  exact ⟨a, b, c, d, bufOffset_flatten bufs size h⟩

/-- non-vacuity: 4 bytes into [0,3,0,4] consumes three buffers and trims the fourth by one byte -/
example : bufOffset [[], [1, 2, 3], [], [4, 5, 6, 7]] 4 = (3, [[], [1, 2, 3], [], [5, 6, 7]]) := by decide +kernel
/-- exactly at a boundary: trailing empty buffers are *not* stepped over (they are dealt with by the
    zero-result branch of the caller) -/
example : bufOffset [[1, 2, 3], [], [4]] 3 = (1, [[1, 2, 3], [], [4]]) := by decide +kernel

/-! ## uv__fs_write_all -/

/-- **write_all_complete.**  For every IOV_MAX > 0, every buffer list (any number of buffers — also more
    than IOV_MAX —, any lengths incl. zero), every offset and every schedule of kernel answers in which
    each answered call is bounded by its iovec and makes progress when it can:
    * the bytes accepted by the kernel, call after call, are a prefix of the buffers' bytes in order
      (no byte twice, none skipped, none out of order);
    * every call is issued at `off` + (bytes accepted so far) when `off ≥ 0` (and always with the
      current-position call when `off < 0`);
    * either no call reported an error and then *every* byte was written and the result is the total
      byte count, or some call failed with `e ≠ EINTR` and the result is `-e` if nothing had been
      written and the short count otherwise. -/
theorem write_all_complete (iovmax : Nat) (hi : 0 < iovmax) (os : List Outcome) (off : Int)
    (bufs : List (List α))
    (hB : Bounded (writeAll iovmax os off bufs).calls) (hP : Progress (writeAll iovmax os off bufs).calls) :
    writtenAll (writeAll iovmax os off bufs).calls <+: bufs.flatten ∧
    Consecutive off (writeAll iovmax os off bufs).calls ∧
    ((NoError (writeAll iovmax os off bufs).calls ∧
      writtenAll (writeAll iovmax os off bufs).calls = bufs.flatten ∧
      (writeAll iovmax os off bufs).result = (bufs.flatten.length : Int)) ∨
     (∃ e, e ≠ EINTR ∧ (∃ c ∈ (writeAll iovmax os off bufs).calls, c.out = .fail e) ∧
      (writeAll iovmax os off bufs).result =
        (if (writtenAll (writeAll iovmax os off bufs).calls).length = 0 then -(e : Int)
         else ((writtenAll (writeAll iovmax os off bufs).calls).length : Int)))) := by
  obtain ⟨h1, h2, h3⟩ := writeLoop_inv iovmax hi os off bufs 0 (by omega) hB hP
  refine ⟨h1, h2, ?_⟩
  rcases h3 with ⟨a, b, c⟩ | ⟨e, a, b, c, d⟩
  · left
    refine ⟨a, b, ?_⟩
    unfold WRes.result mapResult
    unfold writeAll
    rw [c]
    split <;> omega
  · right
    refine ⟨e, a, b, ?_⟩
    unfold WRes.result mapResult
    unfold writeAll at *
    rw [c, d]
    simp only [Int.zero_add]
    by_cases hw : (writtenAll (writeLoop iovmax os off bufs 0).calls).length = 0
    · simp [hw]
    · have : ((writtenAll (writeLoop iovmax os off bufs 0).calls).length : Int) ≠ 0 := by omega
      simp only [this, if_false, hw]
      split <;> omega

/-- corollary in the property's wording: unless the OS reports an error, every byte of the buffer
    list is written, in order, exactly once, and the result is the byte count -/
theorem write_all_complete_no_error (iovmax : Nat) (hi : 0 < iovmax) (os : List Outcome) (off : Int)
    (bufs : List (List α))
    (hB : Bounded (writeAll iovmax os off bufs).calls) (hP : Progress (writeAll iovmax os off bufs).calls)
    (hN : NoError (writeAll iovmax os off bufs).calls) :
    writtenAll (writeAll iovmax os off bufs).calls = bufs.flatten ∧
    (writeAll iovmax os off bufs).result = (bufs.flatten.length : Int) := by
  rcases (write_all_complete iovmax hi os off bufs hB hP).2.2 with ⟨_, b, c⟩ | ⟨e, a, ⟨c, hc, hce⟩, _⟩
  · exact ⟨b, c⟩
  · exact absurd (hN c hc e hce) a

/-- the witness of the repaired defect L7: 1029 empty buffers followed by "hello", IOV_MAX = 1024,
    the kernel answers 0 to the two all-empty vectors: now all five bytes are written, result 5 -/
example :
    let r := writeAll 1024 [.ok 0, .ok 0, .ok 5] (-1) (List.replicate 1029 [] ++ [['h', 'e', 'l', 'l', 'o']])
    r.result = 5 ∧ writtenAll r.calls = ['h', 'e', 'l', 'l', 'o'] ∧ r.calls.length = 3 := by decide +kernel

/-- non-vacuity of the hypotheses and of both branches: short writes inside a buffer and at a
    boundary with an EINTR in between (complete), and an ENOSPC after 2 bytes (short count) -/
example :
    let r := writeAll 2 [.ok 2, .fail EINTR, .ok 1, .ok 4] 10 [[1, 2, 3], [], [4, 5, 6, 7]]
    r.result = 7 ∧ writtenAll r.calls = [1, 2, 3, 4, 5, 6, 7] ∧ r.calls.map (·.off) = [10, 12, 12, 13] := by
  decide +kernel
example :
    let r := writeAll 2 [.ok 2, .fail 28] 10 [[1, 2, 3], [], [4, 5, 6, 7]]
    r.result = 2 ∧ writtenAll r.calls = [1, 2] := by decide +kernel
example : (writeAll 2 [.fail 28] 10 [[1, 2, 3]]).result = -28 := by decide +kernel

/-- **write_all_terminates.**  For *every* schedule (no hypothesis on the answers): the number of system
    calls that are not EINTR retries is at most bytes + buffers — each round strictly decreases the
    remaining bytes or the remaining buffers (or leaves the loop) — and consequently a script holding that
    many non-EINTR answers is never exhausted: whatever follows it is not looked at. -/
theorem write_all_terminates (iovmax : Nat) (os extra : List Outcome) (off : Int) (bufs : List (List α)) :
    ((writeAll iovmax os off bufs).calls.filter (fun c => notEintr c.out)).length
      ≤ bufs.flatten.length + bufs.length ∧
    (bufs.flatten.length + bufs.length ≤ (os.filter notEintr).length →
      writeAll iovmax (os ++ extra) off bufs = writeAll iovmax os off bufs) :=
  ⟨writeLoop_calls_bound iovmax os off bufs 0, writeLoop_fuel iovmax os extra off bufs 0⟩

example : ((writeAll 2 [.ok 1, .ok 1, .ok 1, .ok 0, .ok 1] (-1) [[1, 2, 3], [], [4]]).calls.length = 5) := by
  decide +kernel

/-- **eintr_transparent** (write): deleting every EINTR answer from the schedule — wherever they are,
    in particular any finite prefix — changes neither the result, nor errno, nor the final offset, nor
    the sequence of non-EINTR calls (same iovecs, same offsets, same bytes accepted). -/
theorem eintr_transparent (iovmax : Nat) (os : List Outcome) (off : Int) (bufs : List (List α)) :
    (writeAll iovmax (os.filter notEintr) off bufs).result = (writeAll iovmax os off bufs).result ∧
    (writeAll iovmax (os.filter notEintr) off bufs).off = (writeAll iovmax os off bufs).off ∧
    (writeAll iovmax (os.filter notEintr) off bufs).calls
      = (writeAll iovmax os off bufs).calls.filter (fun c => notEintr c.out) := by
  obtain ⟨a, b, c, d⟩ := writeLoop_eintr_filter iovmax os off bufs 0
  refine ⟨?_, c, d⟩
  unfold WRes.result writeAll
  rw [a, b]

/-- the prefix form: k EINTR answers in front change nothing -/
theorem eintr_prefix_transparent (iovmax k : Nat) (os : List Outcome) (off : Int) (bufs : List (List α)) :
    (writeAll iovmax (List.replicate k (.fail EINTR) ++ os) off bufs).result
      = (writeAll iovmax os off bufs).result := by
  have h1 := (eintr_transparent iovmax (List.replicate k (.fail EINTR) ++ os) off bufs).1
  have h2 := (eintr_transparent iovmax os off bufs).1
  have : (List.replicate k (Outcome.fail EINTR) ++ os).filter notEintr = os.filter notEintr := by
    rw [List.filter_append]
    rw [filter_replicate_eintr, List.nil_append]
  rw [this] at h1
  rw [← h1, h2]

/-- **eintr_transparent** (`uv__fs_work`, every operation with `retry_on_eintr`): k EINTR answers in
    front change nothing but the number of calls -/
theorem eintr_transparent_work (k : Nat) (os : List Outcome) :
    workLoop true (List.replicate k (.fail EINTR) ++ os) = ((workLoop true os).1, (workLoop true os).2 + k) :=
  workLoop_eintr_prefix k os

example : workLoop true [.fail EINTR, .fail EINTR, .ok 0] = (0, 3) := by decide +kernel
/-- UV_FS_READ / UV_FS_CLOSE are not retried: EINTR surfaces as UV_EINTR after one call -/
theorem work_no_retry (os : List Outcome) : workLoop false (.fail EINTR :: os) = (-4, 1) := by
  simp [workLoop, mapResult]

/-! ## uv__fs_read -/

/-- **read_count_exact.**  `uv_fs_read` issues exactly one system call, over the first
    min(nbufs, IOV_MAX) buffers in their order and with their lengths, at the given offset; the result
    is exactly what that call returned (`n`, or `-errno` — EINTR included, there is no retry). -/
theorem read_count_exact (iovmax : Nat) (hi : 0 < iovmax) (off : Int) (bufs : List (List α)) (hb : bufs ≠ [])
    (o : Outcome) (src : List α) :
    (∃ sys, (fsRead iovmax off bufs o src).calls = [⟨sys, off, bufs.take iovmax, o⟩] ∧
      some sys = readSys off (min iovmax bufs.length)) ∧
    (fsRead iovmax off bufs o src).result = (match o with | .ok n => (n : Int) | .fail e => -(e : Int)) := by
  have hlen : (bufs.take iovmax).length ≠ 0 := by
    cases bufs with
    | nil => exact absurd rfl hb
    | cons b r => simp; omega
  cases hs : readSys off (bufs.take iovmax).length with
  | none =>
    exfalso
    unfold readSys at hs
    split at hs <;> split at hs <;> (try split at hs) <;> (try cases hs) <;> omega
  | some sys =>
    have hs' := hs
    rw [List.length_take] at hs'
    cases o with
    | ok n =>
      rw [fsRead_ok _ _ _ _ _ _ hs]
      refine ⟨⟨sys, rfl, hs'.symm⟩, ?_⟩
      simp only [RRes.result, mapResult]
      split <;> omega
    | fail e =>
      rw [fsRead_fail _ _ _ _ _ _ hs]
      refine ⟨⟨sys, rfl, hs'.symm⟩, ?_⟩
      simp [RRes.result, mapResult]

/-- **read_fills_in_order.**  With the kernel's readv semantics (`scatter`, assumed) and an answer `n`
    that is at most the capacity handed over and at most what the file holds from the read position:
    afterwards the buffers, read in order, hold exactly the file's first `n` bytes from that position
    followed by their old contents; no buffer changes its length; buffers beyond IOV_MAX are untouched. -/
theorem read_fills_in_order (iovmax : Nat) (off : Int) (bufs : List (List α)) (n : Nat) (src : List α)
    (hs : readSys off (bufs.take iovmax).length ≠ none)
    (hn : n ≤ (bufs.take iovmax).flatten.length) (hsrc : n ≤ src.length) :
    (fsRead iovmax off bufs (.ok n) src).bufs.flatten = src.take n ++ bufs.flatten.drop n ∧
    (fsRead iovmax off bufs (.ok n) src).bufs.map List.length = bufs.map List.length ∧
    (fsRead iovmax off bufs (.ok n) src).bufs.drop iovmax = bufs.drop iovmax := by
  cases h : readSys off (bufs.take iovmax).length with
  | none => exact absurd h hs
  | some sys =>
    rw [fsRead_ok _ _ _ _ _ _ h]
    have hl : (src.take n).length = n := by rw [List.length_take]; omega
    have hsl : (scatter (bufs.take iovmax) (src.take n)).length = (bufs.take iovmax).length := by
      have := congrArg List.length (scatter_lengths (bufs.take iovmax) (src.take n))
      simpa using this
    refine ⟨?_, ?_, ?_⟩
    · simp only [List.flatten_append]
      rw [scatter_flatten _ _ (by rw [hl]; exact hn), hl, List.append_assoc]
      congr 1
      conv => rhs; rw [← List.take_append_drop iovmax bufs, List.flatten_append]
      rw [List.drop_append_of_le_length hn]
    · simp only [List.map_append, scatter_lengths]
      rw [← List.map_append, List.take_append_drop]
    · rw [List.drop_append, List.drop_eq_nil_of_le (by rw [hsl, List.length_take]; omega), List.nil_append, hsl,
        List.length_take]
      by_cases h : iovmax ≤ bufs.length
      · rw [Nat.min_eq_left h, Nat.sub_self, List.drop_zero]
      · rw [List.drop_eq_nil_of_le (by omega : bufs.length ≤ iovmax)]; simp

example :
    let r := fsRead 2 0 [[0, 0, 0], [], [0, 0]] (.ok 3) [7, 8, 9, 10, 11]
    r.result = 3 ∧ r.bufs = [[7, 8, 9], [], [0, 0]] := by decide +kernel
example :
    let r := fsRead 1024 (-1) [[0, 0], [0, 0, 0]] (.ok 4) [7, 8, 9, 10, 11]
    r.result = 4 ∧ r.bufs = [[7, 8], [9, 10, 0]] ∧ r.calls.map (·.sys) = [.readv] := by decide +kernel

/-! ## (b) route choice and result mapping (decision tables) -/

/-- the enumeration used below really is every operation, each once -/
theorem op_all_complete (op : Op) : op ∈ Op.all := by cases op <;> decide
theorem op_all_nodup : Op.all.Nodup := by decide +kernel

/-- **route_exhaustive.**  Under every configuration every operation takes exactly one route, and which
    one is characterised completely: synchronous iff no callback; io_uring iff callback, the front end has
    a submitter whose own precondition holds, and `uv__iou_get_sqe` hands out an SQE; thread pool in every
    other case with a callback. -/
theorem route_exhaustive (c : Cfg) (op : Op) :
    (route c op = .sync ↔ c.hasCb = false) ∧
    (route c op = .uring ↔ c.hasCb = true ∧ uringPrecond c op = some true ∧ ringOk c = true) ∧
    (route c op = .pool ↔ c.hasCb = true ∧ ¬(uringPrecond c op = some true ∧ ringOk c = true)) := by
  unfold route
  cases hcb : c.hasCb <;> simp
  · cases hp : uringPrecond c op with
    | none => simp
    | some b => cases b <;> cases hr : ringOk c <;> simp

/-- io_uring is never used without the SQPOLL loop option, the positive environment variable, a
    kernel ≥ 5.10.186 and a successfully created ring -/
theorem uring_needs_sqpoll (c : Cfg) (op : Op) (h : route c op = .uring) :
    c.sqpollFlag = true ∧ c.envPositive = true ∧ c.ringInitOk = true ∧ c.kernel ≥ 0x050ABA ∧ c.sqeFree = true := by
  have := ((route_exhaustive c op).2.1.1 h).2.2
  simp only [ringOk, Bool.and_eq_true, decide_eq_true_eq] at this
  obtain ⟨⟨⟨⟨a, b⟩, c'⟩, d⟩, e⟩ := this
  exact ⟨a, c', d, b, e⟩

/-- exactly these 15 operations can go to io_uring at all (on a new enough kernel with a usable ring) -/
theorem uring_ops :
    Op.all.filter (fun op => route ⟨true, true, true, true, true, 0x061200, true⟩ op == .uring)
      = [.close, .fdatasync, .fstat, .fsync, .ftruncate, .lstat, .link, .mkdir, .open, .read, .rename,
         .stat, .symlink, .unlink, .write] := by decide +kernel

/-- the two range checks of `uv__iou_fs_close` (linux.c:845-849) as written amount to "kernel ≥ 6.1.0"
    (the second bound is 0x050A00 = 5.10.0 although its comment says 5.16.0) -/
theorem close_uring_iff (c : Cfg) : uringPrecond c .close = some true ↔ c.kernel ≥ 0x060100 := by
  simp [uringPrecond]; omega

/-- a write with more than IOV_MAX buffers never goes to io_uring (it needs the chunking loop of
    `uv__fs_write_all`); a read does (it is capped, like `uv__fs_read`) -/
theorem big_write_not_uring (c : Cfg) (h : c.nbufsLeIovmax = false) : route c .write ≠ .uring := by
  intro hr
  have := ((route_exhaustive c .write).2.1.1 hr).2.1
  simp [uringPrecond, h] at this

/-- completion: only `-EOPNOTSUPP` (-95) is re-posted to the thread pool -/
theorem fallback_iff (r : Int) : completeRoute r = .pool ↔ r = -95 := by
  unfold completeRoute; split <;> simp [*]

/-- **result_mapping** (fs.c:1750-1759): `-1` becomes `-errno`, anything else is passed through;
    `req->ptr = &req->statbuf` exactly for a successful stat/fstat/lstat -/
theorem result_mapping (r : Int) (errno : Nat) (op : Op) :
    (r = -1 → mapResult r errno = -(errno : Int)) ∧ (r ≠ -1 → mapResult r errno = r) ∧
    (setsStatPtr op r = true ↔ r = 0 ∧ (op = .stat ∨ op = .fstat ∨ op = .lstat)) := by
  refine ⟨fun h => by simp [mapResult, h], fun h => by simp [mapResult, h], ?_⟩
  cases op <;> simp [setsStatPtr]

example : route ⟨true, true, true, true, true, 0x061200, true⟩ .mkdir = .uring := by decide +kernel
example : route ⟨true, true, true, true, true, 0x050E00, true⟩ .mkdir = .pool := by decide +kernel
example : route ⟨false, true, true, true, true, 0x061200, true⟩ .mkdir = .sync := by decide +kernel
example : route ⟨true, false, true, true, true, 0x061200, true⟩ .read = .pool := by decide +kernel

end UvModel.FsBuf
