import UvModel.Lemmas.QueueLemmas
/-!
# `src/queue.h` refines the `List` operations the loop models use

For every memory `m`, head sentinel `h` and member list `l` with `Ring m h l` (following `next` from `h`
visits exactly `l`, in order, and returns to `h`; `prev` is the inverse; no node occurs twice):
each `queue.h` function, executed as the pointer writes the C performs, yields a memory in which the ring
holds the list the models compute.  No bound on the length of `l`; nodes outside the rings involved are
arbitrary.
-/
namespace UvModel.Queue

theorem init_ring (m : Mem) (h : Nat) : Ring (init m h) h [] := by
  simp [Ring, init]

theorem empty_iff {m : Mem} {h : Nat} {l : List Nat} (hr : Ring m h l) : empty m h = true ↔ l = [] := by
  obtain ⟨hl, hnd⟩ := hr
  cases l with
  | nil => simp at hl; simp [empty, hl.1]
  | cons a r =>
    simp at hl hnd
    simp [empty, hl.1.1]; intro e; exact hnd.1.1 e

theorem head_refines {m : Mem} {h a : Nat} {r : List Nat} (hr : Ring m h (a :: r)) : head m h = a := by
  have := hr.1; simp at this; exact this.1.1

theorem insertHead_ring {m : Mem} {h q : Nat} {l : List Nat} (hr : Ring m h l) (hq : q ∉ h :: l) :
    Ring (insertHead m h q) h (q :: l) := by
  obtain ⟨hl, hnd⟩ := hr
  obtain ⟨n, B, hB⟩ := cons_decomp l h
  have e1 : h :: l ++ [h] = [] ++ h :: (n :: B) := by simp [← hB]
  have e2 : h :: (q :: l) ++ [h] = [h, q] ++ n :: B := by simp [← hB]
  rw [e1, linked_append] at hl
  obtain ⟨-, hl⟩ := hl
  simp only [linked_cons_cons] at hl
  obtain ⟨hhn, hnB⟩ := hl
  have hnd2 : (l ++ [h]).Nodup := by
    simp only [List.nodup_cons] at hnd; simp [List.nodup_append]; grind
  have hq2 : q ∉ l ++ [h] := by simp at hq ⊢; grind
  rw [hB] at hnd2 hq2
  refine ⟨?_, ?_⟩
  · rw [e2, linked_append]
    constructor
    · simp [insertHead, hhn]; grind
    · apply linked_frame _ hnB
      · intro x hx
        have hx' : x ∈ l := by
          have : (n :: B).dropLast = l := by rw [← hB]; simp
          rwa [this] at hx
        have : x ≠ h := by intro e; rw [e] at hx'; exact (List.nodup_cons.mp hnd).1 hx'
        have : x ≠ q := by intro e; rw [e] at hx'; exact hq (List.mem_cons_of_mem _ hx')
        simp [insertHead, hhn]; grind
      · intro y hy
        simp at hy
        simp [insertHead, hhn]; grind
  · simp only [List.nodup_cons] at hnd ⊢; simp at hq; grind

/-- `uv__queue_remove(q)` for a member `q`: the others keep their order; `q`'s own cells are NOT
touched (it still points at its former neighbours — callers that reuse `q` re-`init` it). -/
theorem remove_ring {m : Mem} {h q : Nat} {l1 l2 : List Nat} (hr : Ring m h (l1 ++ q :: l2)) :
    Ring (remove m q) h (l1 ++ l2) ∧ (remove m q).next q = m.next q ∧ (remove m q).prev q = m.prev q := by
  obtain ⟨hl, hnd⟩ := hr
  obtain ⟨A, p, hA⟩ := snoc_decomp h l1
  obtain ⟨n, B, hB⟩ := cons_decomp l2 h
  have e1 : h :: (l1 ++ q :: l2) ++ [h] = A ++ p :: (q :: n :: B) := by
    have : h :: (l1 ++ q :: l2) ++ [h] = (h :: l1) ++ q :: (l2 ++ [h]) := by simp
    rw [this, hA, hB]; simp
  have e2 : h :: (l1 ++ l2) ++ [h] = A ++ p :: (n :: B) := by
    have : h :: (l1 ++ l2) ++ [h] = (h :: l1) ++ (l2 ++ [h]) := by simp
    rw [this, hA, hB]; simp
  rw [e1, linked_append] at hl
  obtain ⟨hAp, hl⟩ := hl
  simp only [linked_cons_cons] at hl
  obtain ⟨⟨hpq, hqp⟩, ⟨hqn, hnq⟩, hnB⟩ := hl
  have hnd' : ((A ++ [p]) ++ q :: (n :: B).dropLast).Nodup := by
    have : (n :: B).dropLast = l2 := by rw [← hB]; simp
    rw [this, ← hA]; simpa using hnd
  have hB2 : (n :: B).tail = B := rfl
  have hdl : ∀ z ∈ (n :: B).dropLast, z ≠ p ∧ z ≠ q ∧ z ∉ A := by
    intro z hz; simp only [List.nodup_append, List.nodup_cons, List.mem_append, List.mem_cons] at hnd'; grind
  have hA' : ∀ z ∈ A, z ≠ p ∧ z ≠ q := by
    intro z hz; simp only [List.nodup_append, List.nodup_cons, List.mem_append, List.mem_cons] at hnd'; grind
  have hn1 : n ∉ l1 := by
    have : n ∈ l2 ++ [h] := by rw [hB]; simp
    simp only [List.nodup_append, List.nodup_cons, List.mem_append, List.mem_cons] at hnd this; grind
  have hnB' : (n :: B).Nodup := by
    rw [← hB]; simp only [List.nodup_append, List.nodup_cons, List.mem_append, List.mem_cons] at hnd ⊢; grind
  have hpq' : p ≠ q := by
    simp only [List.nodup_append, List.nodup_cons, List.mem_append, List.mem_cons] at hnd'; grind
  refine ⟨⟨?_, ?_⟩, ?_, ?_⟩
  · rw [e2, linked_append]
    refine ⟨?_, ?_⟩
    · apply linked_frame _ hAp
      · intro x hx; simp at hx
        simp [remove, hqp, hqn]
        intro e; exact absurd e (hA' x hx).1
      · intro y hy
        simp [remove, hqp, hqn]
        have : (A ++ [p]).tail = l1 := by rw [← hA]; rfl
        rw [this] at hy
        intro e; rw [e] at hy; exact absurd hy hn1
    · simp only [linked_cons_cons]
      refine ⟨?_, ?_⟩
      · simp [remove, hqp, hqn]
      · apply linked_frame _ hnB
        · intro x hx
          simp [remove, hqp, hqn]
          intro e; exact absurd e (hdl x hx).1
        · intro y hy
          simp [remove, hqp, hqn]
          intro e; rw [e] at hy; simp at hy; exact absurd hy (List.nodup_cons.mp hnB').1
  · have := hnd
    simp only [List.nodup_cons, List.nodup_append, List.mem_append, List.mem_cons] at this ⊢
    grind
  · simp [remove]
  · simp [remove]
theorem insertTail_ring {m : Mem} {h q : Nat} {l : List Nat} (hr : Ring m h l) (hq : q ∉ h :: l) :
    Ring (insertTail m h q) h (l ++ [q]) := by
  obtain ⟨hl, hnd⟩ := hr
  obtain ⟨A, t, hA⟩ := snoc_decomp h l
  have e1 : h :: l ++ [h] = A ++ t :: [h] := by
    have : h :: l ++ [h] = (h :: l) ++ [h] := rfl
    rw [this, hA]; simp
  have e2 : h :: (l ++ [q]) ++ [h] = A ++ t :: [q, h] := by
    have : h :: (l ++ [q]) ++ [h] = (h :: l) ++ [q, h] := by simp
    rw [this, hA]; simp
  rw [e1, linked_append] at hl
  obtain ⟨hAt, hth⟩ := hl
  simp at hth
  have hndA : (A ++ [t]).Nodup := hA ▸ hnd
  have hqA : q ∉ A ++ [t] := hA ▸ hq
  have hhA : h ∈ A ++ [t] := hA ▸ (by simp)
  refine ⟨?_, ?_⟩
  · rw [e2, linked_append]
    constructor
    · apply linked_frame _ hAt
      · intro x hx
        simp at hx
        simp [insertTail, hth]
        grind
      · intro y hy
        have ht : (A ++ [t]).tail = l := by rw [← hA]; rfl
        rw [ht] at hy
        have hyh : y ≠ h := by intro e; rw [e] at hy; exact (List.nodup_cons.mp hnd).1 hy
        have hyq : y ≠ q := by intro e; rw [e] at hy; exact hq (List.mem_cons_of_mem _ hy)
        simp [insertTail, hth]
        grind
    · simp [insertTail, hth]
      grind
  · have : h :: (l ++ [q]) = (h :: l) ++ [q] := rfl
    rw [this]
    grind
/-- `uv__queue_split(h, q, n)` for a member `q` and a fresh sentinel `n`: `h` keeps the members before
`q`, `n` receives `q` and everything after it, both in order. -/
theorem split_ring {m : Mem} {h q n : Nat} {l1 l2 : List Nat} (hr : Ring m h (l1 ++ q :: l2))
    (hn : n ∉ h :: (l1 ++ q :: l2)) :
    Ring (split m h q n) h l1 ∧ Ring (split m h q n) n (q :: l2) := by
  obtain ⟨hl, hnd⟩ := hr
  obtain ⟨A, p, hA⟩ := snoc_decomp h l1
  obtain ⟨C, t, hC⟩ := snoc_decomp q l2
  have e1 : h :: (l1 ++ q :: l2) ++ [h] = A ++ p :: (C ++ t :: [h]) := by
    have : h :: (l1 ++ q :: l2) ++ [h] = (h :: l1) ++ ((q :: l2) ++ [h]) := by simp
    rw [this, hA, hC]; simp
  rw [e1, linked_append] at hl
  obtain ⟨hAp, hl⟩ := hl
  have hpq : m.next p = q ∧ m.prev q = p := by
    have : p :: (C ++ t :: [h]) = p :: q :: (l2 ++ [h]) := by
      have : C ++ t :: [h] = (C ++ [t]) ++ [h] := by simp
      rw [this, ← hC]; simp
    rw [this] at hl; exact hl.1
  have hl2 : Linked m (C ++ t :: [h]) := by
    cases hC' : C ++ t :: [h] with
    | nil => simp at hC'
    | cons c r => rw [hC'] at hl; exact hl.2
  rw [linked_append] at hl2
  obtain ⟨hCt, hth⟩ := hl2
  simp at hth
  have N : (n :: ((A ++ [p]) ++ (C ++ [t]))).Nodup := by
    rw [← hA, ← hC]
    simp only [List.nodup_cons, List.nodup_append, List.mem_append, List.mem_cons] at hnd hn ⊢
    grind
  have hl1 : (A ++ [p]).tail = l1 := by rw [← hA]; rfl
  have hl2' : (C ++ [t]).tail = l2 := by rw [← hC]; rfl
  have hhl1 : h ∉ l1 := by
    simp only [List.nodup_cons, List.mem_append] at hnd; grind
  have hql2 : q ∉ l2 ∧ h ∉ l2 ∧ q ≠ h := by
    simp only [List.nodup_cons, List.nodup_append, List.mem_append, List.mem_cons] at hnd; grind
  have hhA : h ∈ A ++ [p] := by rw [← hA]; simp
  have hqC : q ∈ C ++ [t] := by rw [← hC]; simp
  have sub1 : ∀ y ∈ l1, y ∈ A ++ [p] := by intro y hy; rw [← hA]; simp [hy]
  have sub2 : ∀ y ∈ l2, y ∈ C ++ [t] := by intro y hy; rw [← hC]; simp [hy]
  simp only [List.nodup_cons, List.nodup_append, List.mem_append, List.mem_cons] at N hhA hqC sub1 sub2
  refine ⟨⟨?_, ?_⟩, ⟨?_, ?_⟩⟩
  · have : h :: l1 ++ [h] = A ++ p :: [h] := by
      have : h :: l1 ++ [h] = (h :: l1) ++ [h] := rfl
      rw [this, hA]; simp
    rw [this, linked_append]
    constructor
    · apply linked_frame _ hAp
      · intro x hx; simp at hx
        simp [split, hth, hpq]; grind
      · intro y hy; rw [hl1] at hy
        simp [split, hth, hpq]; grind
    · simp [split, hth, hpq]; grind
  · simp only [List.nodup_cons, List.nodup_append, List.mem_append, List.mem_cons] at hnd ⊢; grind
  · have : n :: (q :: l2) ++ [n] = [n] ++ q :: (l2 ++ [n]) := by simp
    rw [this, linked_append]
    constructor
    · simp [split, hth, hpq]; grind
    · have : q :: (l2 ++ [n]) = C ++ t :: [n] := by
        have : q :: (l2 ++ [n]) = (q :: l2) ++ [n] := rfl
        rw [this, hC]; simp
      rw [this, linked_append]
      constructor
      · apply linked_frame _ hCt
        · intro x hx; simp at hx
          simp [split, hth, hpq]; grind
        · intro y hy; rw [hl2'] at hy
          simp [split, hth, hpq]; grind
      · simp [split, hth, hpq]; grind
  · simp only [List.nodup_cons, List.nodup_append, List.mem_append, List.mem_cons] at hnd hn ⊢; grind

/-- a ring is closed under `next` and `prev` -/
theorem ring_closed {m : Mem} {h : Nat} {l : List Nat} (hr : Ring m h l) :
    ∀ x ∈ h :: l, m.next x ∈ h :: l ∧ m.prev x ∈ h :: l := by
  intro x hx
  have e1 : (h :: l ++ [h]).dropLast = h :: l := by
    have : h :: l ++ [h] = (h :: l) ++ [h] := rfl
    rw [this, List.dropLast_concat]
  have e2 : (h :: l ++ [h]).tail = l ++ [h] := rfl
  constructor
  · have := linked_next_mem _ hr.1 x (by rw [e1]; exact hx)
    rw [e2] at this; simp at this ⊢; grind
  · have := linked_prev_mem _ hr.1 x (by rw [e2]; simp at hx ⊢; grind)
    rw [e1] at this; exact this

/-- frame rule: a ring only depends on the `next`/`prev` cells of its own nodes -/
theorem ring_frame {m m' : Mem} {h : Nat} {l : List Nat} (hr : Ring m h l)
    (hn : ∀ x ∈ h :: l, m'.next x = m.next x) (hp : ∀ x ∈ h :: l, m'.prev x = m.prev x) : Ring m' h l := by
  refine ⟨linked_frame _ hr.1 ?_ ?_, hr.2⟩
  · intro x hx
    have : h :: l ++ [h] = (h :: l) ++ [h] := rfl
    rw [this, List.dropLast_concat] at hx; exact hn x hx
  · intro y hy
    have : (h :: l ++ [h]).tail = l ++ [h] := rfl
    rw [this] at hy; exact hp y (by simp at hy ⊢; grind)

/-- `uv__queue_move(h, n)` onto a fresh sentinel `n`: `n` receives all members in order, `h` is left
empty — including the empty case, which the C special-cases. -/
theorem move_ring {m : Mem} {h n : Nat} {l : List Nat} (hr : Ring m h l) (hn : n ∉ h :: l) :
    Ring (move m h n) h [] ∧ Ring (move m h n) n l := by
  cases l with
  | nil =>
    have he : empty m h = true := (empty_iff hr).2 rfl
    simp only [move, he, if_true]
    refine ⟨ring_frame hr ?_ ?_, init_ring m n⟩ <;>
    · intro x hx; simp at hx hn; subst hx; simp [init]; grind
  | cons a r =>
    have he : ¬ (empty m h = true) := fun e => by have := (empty_iff hr).1 e; simp at this
    have ha : m.next h = a := head_refines hr
    simp only [move, he, ha]
    exact split_ring (l1 := []) hr hn

/-- `uv__queue_foreach(q, h)` visits exactly the members, in order (`l.length + 1` steps suffice) -/
theorem walk_linked {m : Mem} {h : Nat} : ∀ (r : List Nat) (a fuel : Nat), Linked m (a :: r ++ [h]) → h ∉ r →
    r.length < fuel → walk m h fuel (m.next a) = r
  | [], a, fuel + 1, hl, _, _ => by simp at hl; simp [walk, hl.1]
  | b :: r, a, fuel + 1, hl, hh, hf => by
      simp at hl hh hf
      have := walk_linked r b fuel (by simpa using hl.2) hh.2 (by omega)
      simp [walk, hl.1.1, this]; intro e; exact absurd e.symm hh.1

theorem foreach_refines {m : Mem} {h : Nat} {l : List Nat} (hr : Ring m h l) (fuel : Nat) (hf : l.length < fuel) :
    foreach m h fuel = l :=
  walk_linked l h fuel hr.1 (List.nodup_cons.mp hr.2).1 hf

/-- the drain idiom (`move` to a local head, then pop-remove-init until empty) visits exactly the
members present at the start, each once, in order, and leaves the local head empty -/
theorem drain_refines {pq : Nat} : ∀ (l : List Nat) (m : Mem) (fuel : Nat), Ring m pq l → l.length < fuel →
    (drain m pq fuel).2 = l ∧ Ring (drain m pq fuel).1 pq []
  | [], m, fuel + 1, hr, _ => by
      have he : empty m pq = true := (empty_iff hr).2 rfl
      simp [drain, he, hr]
  | a :: r, m, fuel + 1, hr, hf => by
      have he : ¬ (empty m pq = true) := fun e => by have := (empty_iff hr).1 e; simp at this
      have ha : head m pq = a := head_refines hr
      have h1 := (remove_ring (l1 := []) hr).1
      simp only [List.nil_append] at h1
      have hnd := hr.2
      have h2 : Ring (init (remove m a) a) pq r := by
        apply ring_frame h1 <;>
        · intro x hx
          have : x ≠ a := by
            intro e; subst e
            simp only [List.nodup_cons, List.mem_cons] at hnd hx; grind
          simp [init, this]
      have ih := drain_refines r (init (remove m a) a) fuel h2 (by simp at hf; omega)
      simp only [drain, he, ha]
      exact ⟨by simp [ih.1], ih.2⟩

/-! ### frame: operations on one ring leave every disjoint ring alone
(what makes the drain idiom safe when callbacks insert into / remove from the *original* queue,
and what lets the loop models keep one `List` per queue) -/

theorem insertTail_other {m : Mem} {h q g : Nat} {l k : List Nat} (hr : Ring m h l) (hg : Ring m g k)
    (hd : ∀ x ∈ g :: k, x ∉ h :: l ∧ x ≠ q) : Ring (insertTail m h q) g k := by
  have hc := (ring_closed hr h (by simp)).2
  apply ring_frame hg <;>
  · intro x hx
    have := hd x hx
    simp [insertTail]; grind

theorem insertHead_other {m : Mem} {h q g : Nat} {l k : List Nat} (hr : Ring m h l) (hg : Ring m g k)
    (hd : ∀ x ∈ g :: k, x ∉ h :: l ∧ x ≠ q) : Ring (insertHead m h q) g k := by
  have hc := (ring_closed hr h (by simp)).1
  apply ring_frame hg <;>
  · intro x hx
    have := hd x hx
    simp [insertHead]; grind

theorem remove_other {m : Mem} {h q g : Nat} {l k : List Nat} (hr : Ring m h l) (hq : q ∈ l) (hg : Ring m g k)
    (hd : ∀ x ∈ g :: k, x ∉ h :: l) : Ring (remove m q) g k := by
  have hc := ring_closed hr q (by simp [hq])
  apply ring_frame hg <;>
  · intro x hx
    have := hd x hx
    simp [remove]; grind

theorem init_other {m : Mem} {q g : Nat} {k : List Nat} (hg : Ring m g k) (hd : q ∉ g :: k) :
    Ring (init m q) g k := by
  apply ring_frame hg <;>
  · intro x hx
    have : x ≠ q := fun e => hd (e ▸ hx)
    simp [init, this]

theorem move_other {m : Mem} {h n g : Nat} {l k : List Nat} (hr : Ring m h l) (hg : Ring m g k)
    (hd : ∀ x ∈ g :: k, x ∉ h :: l ∧ x ≠ n) : Ring (move m h n) g k := by
  have hc := ring_closed hr h (by simp)
  have hc2 := ring_closed hr (m.next h) hc.1
  apply ring_frame hg <;>
  · intro x hx
    have := hd x hx
    simp only [move]; split
    · simp [init]; grind
    · simp [split]; grind

/-- `uv__queue_remove` in the form the models use: `List.erase` -/
theorem remove_erase {m : Mem} {h q : Nat} {l : List Nat} (hr : Ring m h l) (hq : q ∈ l) :
    Ring (remove m q) h (l.erase q) := by
  obtain ⟨l1, l2, e⟩ := List.append_of_mem hq
  have hn : q ∉ l1 := by
    have := hr.2; rw [e] at this
    simp only [List.nodup_cons, List.nodup_append, List.mem_append, List.mem_cons] at this; grind
  subst e
  have : (l1 ++ q :: l2).erase q = l1 ++ l2 := by
    rw [List.erase_append_right _ hn]; simp
  rw [this]; exact (remove_ring hr).1

/-! ### non-vacuity: concrete memories -/

/-- nodes 0 (head) 1 2 3, ring 0 → 1 → 2 → 3 → 0 built by the C operations themselves -/
def ex3 : Mem := insertTail (insertTail (insertTail (init ⟨fun _ => 99, fun _ => 99⟩ 0) 0 1) 0 2) 0 3

example : Ring ex3 0 [1, 2, 3] := by
  have h0 := init_ring ⟨fun _ => 99, fun _ => 99⟩ 0
  have h1 := insertTail_ring h0 (q := 1) (by decide)
  have h2 := insertTail_ring h1 (q := 2) (by decide)
  exact insertTail_ring h2 (q := 3) (by decide)
example : foreach ex3 0 4 = [1, 2, 3] := by decide
example : foreach (remove ex3 2) 0 4 = [1, 3] := by decide
example : foreach (insertHead ex3 0 7) 0 9 = [7, 1, 2, 3] := by decide
example : foreach (move ex3 0 5) 5 9 = [1, 2, 3] ∧ foreach (move ex3 0 5) 0 9 = [] := by decide
example : foreach (split ex3 0 2 5) 0 9 = [1] ∧ foreach (split ex3 0 2 5) 5 9 = [2, 3] := by decide
example : (drain (move ex3 0 5) 5 9).2 = [1, 2, 3] := by decide
/-- `uv__queue_remove` does not re-initialise the removed node: it still points into the ring -/
example : (remove ex3 2).next 2 = 3 ∧ (remove ex3 2).prev 2 = 1 := by decide
/-- the hypothesis "`n` is fresh" of `split_ring`/`move_ring` is needed: moving a ring onto its own
member corrupts it — forwards the target then holds [1], backwards [3] (no libuv call site does
this: every `uv__queue_move` target is a local variable) -/
example : foreach (move ex3 0 2) 2 9 = [1] ∧ foreachBack (move ex3 0 2) 2 9 = [3] := by decide
/-! ### the loop-watcher phase (`src/unix/loop-watcher.c:47-60`) at pointer level

`uv__run_idle/prepare/check` detach the loop's list onto a local head (`move_ring`), then repeatedly pop the
local head's first member, append it to the loop's list and call it back; callbacks may stop (remove) any
watcher — visited or not — and start (insert at the head of the loop's list) inactive ones.  `Two` is
the two-ring state; the three lemmas show that every C step is the list step the `Loop` model performs
(`LoopRun`'s watcher phase works on exactly these two lists). -/

def Two (m : Mem) (lh tmp : Nat) (L T : List Nat) : Prop :=
  Ring m lh L ∧ Ring m tmp T ∧ ∀ x ∈ lh :: L, x ∉ tmp :: T

/-- the detaching `uv__queue_move(&loop->name_handles, &queue)` -/
theorem detach_refines {m : Mem} {lh tmp : Nat} {L : List Nat} (hr : Ring m lh L) (ht : tmp ∉ lh :: L) :
    Two (move m lh tmp) lh tmp [] L := by
  obtain ⟨h1, h2⟩ := move_ring hr ht
  refine ⟨h1, h2, ?_⟩
  intro x hx
  simp only [List.mem_cons, List.not_mem_nil, or_false] at hx
  subst hx
  have := hr.2
  simp only [List.nodup_cons, List.mem_cons] at this ht ⊢
  grind

/-- one round of the loop body: `q = head(&queue); remove(q); insert_tail(&loop->name_handles, q)` -/
theorem pop_refines {m : Mem} {lh tmp a : Nat} {L T : List Nat} (h : Two m lh tmp L (a :: T)) :
    head m tmp = a ∧ Two (insertTail (remove m a) lh a) lh tmp (L ++ [a]) T := by
  obtain ⟨hL, hT, hd⟩ := h
  have hnd := hT.2
  have hda : ∀ x ∈ lh :: L, x ≠ a ∧ x ≠ tmp ∧ x ∉ T := by
    intro x hx; have := hd x hx; simp only [List.mem_cons] at this; grind
  have h1 : Ring (remove m a) tmp T := by
    have := (remove_ring (l1 := []) hT).1; simpa using this
  have h2 : Ring (remove m a) lh L := remove_other hT (by simp) hL hd
  have ha : a ∉ lh :: L := fun hx => (hda a hx).1 rfl
  refine ⟨head_refines hT, insertTail_ring h2 ha, insertTail_other h2 h1 ?_, ?_⟩
  · intro x hx
    simp only [List.nodup_cons, List.mem_cons] at hnd hx
    constructor
    · intro hx'; have := hda x hx'; grind
    · grind
  · intro x hx
    have hx' : x ∈ lh :: L ∨ x = a := by
      have : lh :: (L ++ [a]) = (lh :: L) ++ [a] := rfl
      rw [this] at hx; simp only [List.mem_append, List.mem_singleton] at hx; exact hx
    simp only [List.nodup_cons, List.mem_cons] at hnd ⊢
    rcases hx' with hx' | rfl
    · have := hda x hx'; grind
    · grind

/-- `uv_idle_stop` etc. from a callback: `uv__queue_remove(&handle->queue)` of an active watcher, wherever
it currently is (already re-appended to the loop's list, or still waiting on the local head) -/
theorem stop_refines {m : Mem} {lh tmp q : Nat} {L T : List Nat} (h : Two m lh tmp L T) (hq : q ∈ L ∨ q ∈ T) :
    Two (remove m q) lh tmp (L.erase q) (T.erase q) := by
  obtain ⟨hL, hT, hd⟩ := h
  have hsub1 : ∀ x ∈ lh :: L.erase q, x ∈ lh :: L := by
    intro x hx; simp only [List.mem_cons] at hx ⊢
    rcases hx with e | hx
    · exact Or.inl e
    · exact Or.inr (List.mem_of_mem_erase hx)
  have hsub2 : ∀ x ∈ tmp :: T.erase q, x ∈ tmp :: T := by
    intro x hx; simp only [List.mem_cons] at hx ⊢
    rcases hx with e | hx
    · exact Or.inl e
    · exact Or.inr (List.mem_of_mem_erase hx)
  have hdis : ∀ x ∈ lh :: L.erase q, x ∉ tmp :: T.erase q := fun x hx hx' => hd x (hsub1 x hx) (hsub2 x hx')
  have hd' : ∀ x ∈ tmp :: T, x ∉ lh :: L := fun x hx hx' => hd x hx' hx
  rcases hq with hq | hq
  · have hqT : q ∉ T := fun hx => hd q (by simp [hq]) (by simp [hx])
    rw [List.erase_of_not_mem hqT] at hdis ⊢
    exact ⟨remove_erase hL hq, remove_other hL hq hT hd', hdis⟩
  · have hqL : q ∉ L := fun hx => hd q (by simp [hx]) (by simp [hq])
    rw [List.erase_of_not_mem hqL] at hdis ⊢
    exact ⟨remove_other hT hq hL hd, remove_erase hT hq, hdis⟩

/-- `uv_idle_start` etc. from a callback: `uv__queue_insert_head(&loop->name_handles, &handle->queue)` of an
inactive watcher — it lands on the loop's list, never on the local head, so it is not called in this phase -/
theorem start_refines {m : Mem} {lh tmp q : Nat} {L T : List Nat} (h : Two m lh tmp L T)
    (hq : q ∉ lh :: L ∧ q ∉ tmp :: T) : Two (insertHead m lh q) lh tmp (q :: L) T := by
  obtain ⟨hL, hT, hd⟩ := h
  refine ⟨insertHead_ring hL hq.1, insertHead_other hL hT ?_, ?_⟩
  · intro x hx; exact ⟨fun hx' => hd x hx' hx, fun e => hq.2 (e ▸ hx)⟩
  · intro x hx
    simp only [List.mem_cons] at hx
    rcases hx with e | e | hx
    · exact hd x (by simp [e])
    · subst e; exact hq.2
    · exact hd x (by simp [hx])

example : Two (move ex3 0 5) 0 5 [] [1, 2, 3] := detach_refines (by
  have h0 := init_ring ⟨fun _ => 99, fun _ => 99⟩ 0
  exact insertTail_ring (insertTail_ring (insertTail_ring h0 (q := 1) (by decide)) (q := 2) (by decide)) (q := 3) (by decide))
  (by decide)

/-! ### self-linkedness as the membership flag
`uv__io_start`/`uv__io_feed`/`uv__io_stop` test `uv__queue_empty(&w->watcher_queue)` /
`(&w->pending_queue)` on the *member* node to know whether it is queued; that is sound because a queued
node is never self-linked and every dequeue in those paths is `remove` followed by `init`. -/

theorem member_not_empty {m : Mem} {h q : Nat} {l : List Nat} (hr : Ring m h l) (hq : q ∈ l) :
    empty m q = false := by
  obtain ⟨l1, l2, e⟩ := List.append_of_mem hq
  subst e
  obtain ⟨hl, hnd⟩ := hr
  have e1 : h :: (l1 ++ q :: l2) ++ [h] = (h :: l1) ++ q :: (l2 ++ [h]) := by simp
  rw [e1, linked_append] at hl
  have hl2 := hl.2
  simp only [List.nodup_cons, List.nodup_append, List.mem_append, List.mem_cons] at hnd
  cases l2 with
  | nil => simp at hl2; simp [empty, hl2.1]; grind
  | cons a r => simp at hl2; simp [empty, hl2.1.1]; grind

theorem dequeued_empty (m : Mem) (q : Nat) : empty (init (remove m q) q) q = true := by
  simp [empty, init]

example : empty ex3 2 = false ∧ empty (init (remove ex3 2) 2) 2 = true := by decide

/-- `uv__queue_add(h, n)`: the members of `n` are appended to `h`, in order (an empty `n` leaves `h` as it
is).  `n` itself is left stale.  (Only caller in libuv: `src/unix/fsevents.c`, macOS.) -/
theorem add_ring {m : Mem} {h n : Nat} {lh ln : List Nat} (hh : Ring m h lh) (hn : Ring m n ln)
    (hd : ∀ x ∈ h :: lh, x ∉ n :: ln) : Ring (add m h n) h (lh ++ ln) := by
  obtain ⟨Ah, t, hA⟩ := snoc_decomp h lh
  have hlh := hh.1
  have e1 : h :: lh ++ [h] = Ah ++ t :: [h] := by
    have : h :: lh ++ [h] = (h :: lh) ++ [h] := rfl
    rw [this, hA]; simp
  rw [e1, linked_append] at hlh
  obtain ⟨hAt, hth⟩ := hlh
  simp at hth
  have htm : t ∈ h :: lh := by rw [hA]; simp
  have hnd := hh.2
  have hndn := hn.2
  cases ln with
  | nil =>
    have hnn := hn.1; simp at hnn
    have htn : t ≠ n := fun e => hd t htm (by simp [e])
    have hhn : h ≠ n := fun e => hd h (by simp) (by simp [e])
    simp only [List.append_nil]
    apply ring_frame hh
    · intro x hx
      have : x ≠ n := fun e => hd x hx (by simp [e])
      simp [add, hth, hnn]; grind
    · intro x hx
      have : x ≠ n := fun e => hd x hx (by simp [e])
      simp [add, hth, hnn]; grind
  | cons a r =>
    obtain ⟨C, z, hC⟩ := snoc_decomp a r
    have hln := hn.1
    have e2 : n :: (a :: r) ++ [n] = [n] ++ a :: (r ++ [n]) := by simp
    rw [e2, linked_append] at hln
    obtain ⟨-, hln⟩ := hln
    have e3 : a :: (r ++ [n]) = C ++ z :: [n] := by
      have : a :: (r ++ [n]) = (a :: r) ++ [n] := rfl
      rw [this, hC]; simp
    have hna : m.next n = a ∧ m.prev a = n := by
      have := hn.1; simp at this; exact this.1
    rw [e3, linked_append] at hln
    obtain ⟨hCz, hzn⟩ := hln
    simp at hzn
    have hzm : z ∈ a :: r := by rw [hC]; simp
    have hdis : ∀ x ∈ h :: lh, x ≠ n ∧ x ∉ a :: r := by
      intro x hx; have := hd x hx; simp only [List.mem_cons] at this ⊢; grind
    have hdis2 : ∀ y ∈ a :: r, y ≠ n ∧ y ∉ h :: lh := by
      intro y hy; refine ⟨?_, fun hx => (hdis y hx).2 hy⟩
      intro e; rw [e] at hy; exact (List.nodup_cons.mp hndn).1 hy
    have hNA : (Ah ++ [t]).Nodup := hA ▸ hnd
    have hNC : (C ++ [z]).Nodup := by rw [← hC]; exact (List.nodup_cons.mp hndn).2
    have htl1 : (Ah ++ [t]).tail = lh := by rw [← hA]; rfl
    have htl2 : (C ++ [z]).tail = r := by rw [← hC]; rfl
    refine ⟨?_, ?_⟩
    · have e4 : h :: (lh ++ a :: r) ++ [h] = Ah ++ t :: (C ++ z :: [h]) := by
        have : h :: (lh ++ a :: r) ++ [h] = (h :: lh) ++ ((a :: r) ++ [h]) := by simp
        rw [this, hA, hC]; simp
      rw [e4, linked_append]
      have hAmem : ∀ x ∈ Ah, x ∈ h :: lh ∧ x ≠ t := by
        intro x hx; refine ⟨by rw [hA]; simp [hx], ?_⟩
        intro e; rw [e] at hx; simp only [List.nodup_append, List.mem_singleton] at hNA; grind
      have hCmem : ∀ x ∈ C, x ∈ a :: r ∧ x ≠ z := by
        intro x hx; refine ⟨by rw [hC]; simp [hx], ?_⟩
        intro e; rw [e] at hx; simp only [List.nodup_append, List.mem_singleton] at hNC; grind
      have hzt : z ≠ t := fun e => (hdis t htm).2 (e ▸ hzm)
      have hzh : z ≠ h := fun e => (hdis h (by simp)).2 (e ▸ hzm)
      have hah : a ≠ h := fun e => (hdis h (by simp)).2 (by simp [e])
      constructor
      · apply linked_frame _ hAt
        · intro x hx; simp at hx
          have := hAmem x hx; have := hdis x this.1
          simp [add, hth, hna, hzn]; grind
        · intro y hy; rw [htl1] at hy
          have hy' : y ∈ h :: lh := by simp [hy]
          have := hdis y hy'
          have : y ≠ h := fun e => (List.nodup_cons.mp hnd).1 (e ▸ hy)
          simp [add, hth, hna, hzn]; grind
      · have e5 : t :: (C ++ z :: [h]) = [t] ++ a :: (r ++ [h]) := by
          have : C ++ z :: [h] = (C ++ [z]) ++ [h] := by simp
          rw [this, ← hC]; simp
        rw [e5, linked_append]
        have e6 : a :: (r ++ [h]) = C ++ z :: [h] := by
          have : a :: (r ++ [h]) = (a :: r) ++ [h] := rfl
          rw [this, hC]; simp
        refine ⟨?_, ?_⟩
        · have hta : t ≠ a := fun e => (hdis t htm).2 (by simp [e])
          simp [add, hth, hna, hzn]; grind
        · rw [e6, linked_append]
          constructor
          · apply linked_frame _ hCz
            · intro x hx; simp at hx
              have := hCmem x hx; have := hdis2 x this.1
              simp [add, hth, hna, hzn]; grind
            · intro y hy; rw [htl2] at hy
              have hy' : y ∈ a :: r := by simp [hy]
              have := hdis2 y hy'
              have : y ≠ a := fun e => (List.nodup_cons.mp (List.nodup_cons.mp hndn).2).1 (e ▸ hy)
              simp [add, hth, hna, hzn]; grind
          · simp [add, hth, hna, hzn]; grind
    · have : h :: (lh ++ a :: r) = (h :: lh) ++ (a :: r) := rfl
      rw [this, List.nodup_append]
      refine ⟨hnd, (List.nodup_cons.mp hndn).2, ?_⟩
      intro x hx y hy e; subst e; exact (hdis x hx).2 hy

example : foreach (add (init (init ex3 5) 6) 5 0) 5 9 = [1, 2, 3] := by decide
example : foreach (add (init ex3 5) 0 5) 0 9 = [1, 2, 3] := by decide   -- adding an empty ring

end UvModel.Queue
