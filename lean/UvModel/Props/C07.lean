import UvModel.Accept
import UvModel.Lemmas.AcceptLemmas
/-! # C07 — property theorems (accept / IPC descriptor queue / POLLIN pause / send-handle checks).
All statements quantify over every start configuration and every operation sequence `ops`
(kernel results, allocation failures and callback behaviour are part of the ops). -/
namespace UvModel.Accept

/-- a stream right after `uv_listen` (POLLIN armed) or an open IPC pipe end -/
def Start (s : St) : Prop := ∃ role ipc pollin, (role = .listen → pollin = true) ∧ s = init role ipc pollin

/-- reachable: result of *any* operation sequence from a start state -/
def Reach (s : St) : Prop := ∃ s0 ops, Start s0 ∧ s = run s0 ops

theorem reach_inv {s : St} (hr : Reach s) : Inv s := by
  obtain ⟨s0, ops, ⟨r, i, p, hp, rfl⟩, rfl⟩ := hr
  exact inv_run ops _ (inv_init r i p hp)

theorem reach_step {s : St} (hr : Reach s) (op : Op) : Reach (step s op) := by
  obtain ⟨s0, ops, h0, rfl⟩ := hr
  exact ⟨s0, ops ++ [op], h0, by simp [run, List.foldl_append]⟩

/-- **conn_conservation**: the descriptors that ever reached the stream (accept4 results, SCM_RIGHTS
payloads, connections shed by the EMFILE trick) are, as a multiset, exactly: claimed by a successful
`uv_accept` ⊎ still pending (accepted_fd + queue) ⊎ closed by `uv_close` ⊎ closed by libuv on an error
path (client open failed / ENOMEM while queueing / shed).  None lost, none duplicated. -/
theorem conn_conservation {s : St} (hr : Reach s) :
    s.arrived.Perm (claimed s ++ pending s ++ s.byClose ++ (failedOpen s ++ s.dropped ++ s.shed)) := by
  have h := reach_inv hr
  have hc := h.cons
  rw [h.fifo] at hc
  have hp : (s.taken.map (·.1)).Perm (claimed s ++ failedOpen s) := by
    have := (List.filter_append_perm (fun x : Fd × Bool => x.2) s.taken).map (·.1)
    simpa [claimed, failedOpen] using this.symm
  refine hc.trans ?_
  have h6 := hp
  rw [List.perm_iff_count] at h6 ⊢
  intro y; have := h6 y
  simp only [List.count_append] at *
  omega

/-- corollary: with distinct descriptors no descriptor is handed out twice, and a claimed one is
neither still pending nor closed behind the user's back -/
theorem conn_no_duplicate {s : St} (hr : Reach s)
    (hd : s.arrived.Nodup) :
    (claimed s ++ pending s ++ s.byClose ++ (failedOpen s ++ s.dropped ++ s.shed)).Nodup :=
  (conn_conservation hr).nodup_iff.mp hd

def ex1 : St := run (init .ipc true true)
    [.recv [⟨1, .tcp⟩, ⟨2, .udp⟩, ⟨3, .pipe⟩] none, .accept .stream 0, .close]
example : Reach ex1 := ⟨_, _, ⟨.ipc, true, true, by simp, rfl⟩, rfl⟩
example : claimed ex1 = [⟨1, .tcp⟩] ∧ ex1.byClose = [⟨2, .udp⟩, ⟨3, .pipe⟩] ∧ pending ex1 = [] ∧ ex1.arrived.Nodup := by decide

/-- **ipc_fifo**: descriptors leave in arrival order — what `uv_accept` took so far, followed by
what is pending, followed by what `uv_close` closed, *is* the admission sequence. -/
theorem ipc_fifo {s : St} (hr : Reach s) :
    s.stored = s.taken.map (·.1) ++ pending s ++ s.byClose :=
  (reach_inv hr).fifo

/-- … and the next `uv_accept` hands out exactly the oldest pending descriptor -/
theorem accept_takes_oldest {s : St} (hr : Reach s) (c : ClientTy) (e : Int)
    (fd : Fd) (rest : List Fd) (hc : c ≠ .other) (hp : pending s = fd :: rest) :
    (uvAccept s c e).1.taken = s.taken ++ [(fd, e == 0)] ∧ pending (uvAccept s c e).1 = rest := by
  generalize hs' : (uvAccept s c e).1 = s'
  have h := reach_inv hr
  have h' : Inv s' := hs' ▸ inv_uvAccept _ c e h
  have ha : s.acceptedFd = some fd := by
    cases hacc : s.acceptedFd with
    | none => simp [pending, hacc, h.accNone hacc, qlist] at hp
    | some a => simp [pending, hacc] at hp; rw [hp.1]
  have ht : s'.taken = s.taken ++ [(fd, e == 0)] := by
    simp only [← hs', uvAccept, ha]
    cases c <;> simp at hc ⊢ <;> (split <;> try split) <;> rfl
  have hadm : s'.stored = s.stored := by
    simp only [← hs', uvAccept, ha]
    cases c <;> simp at hc ⊢ <;> (split <;> try split) <;> rfl
  have hbc : s'.byClose = s.byClose := by
    simp only [← hs', uvAccept, ha]
    cases c <;> simp at hc ⊢ <;> (split <;> try split) <;> rfl
  refine ⟨ht, ?_⟩
  have f1 := h.fifo; have f2 := h'.fifo
  rw [hadm, f1, ht, hbc, hp] at f2
  simp only [List.map_append, List.map_cons, List.map_nil, List.append_assoc] at f2
  have := List.append_cancel_left f2
  simp at this
  exact this.symm

def ex2 : St := run (init .ipc true true) [.recv [⟨1, .tcp⟩, ⟨2, .udp⟩] none, .recv [⟨3, .pipe⟩] none,
      .accept .stream 0, .accept .udp 0]
example : ex2.taken = [(⟨1, .tcp⟩, true), (⟨2, .udp⟩, true)] ∧ pending ex2 = [⟨3, .pipe⟩] := by decide

/-- **accept_eagain_iff_none**: `uv_accept` (with a client that opens fine) answers UV_EAGAIN exactly
when nothing is pending; then it changes nothing. -/
theorem accept_eagain_iff_none {s : St} (hr : Reach s) (c : ClientTy) :
    ((uvAccept s c 0).2 = EAGAIN ↔ pending s = []) ∧ (pending s = [] → (uvAccept s c 0).1 = s) := by
  have h := reach_inv hr
  cases ha : s.acceptedFd with
  | none =>
    have hq := h.accNone ha
    simp [uvAccept, ha, pending, hq, qlist]
  | some fd =>
    have : (uvAccept s c 0).2 ≠ EAGAIN := by
      simp only [uvAccept, ha]
      cases c <;> simp [EAGAIN, EINVAL] <;> (try split) <;> (try split) <;> simp
    simp [this, pending, ha]

/-- whatever the client, a pending descriptor is never answered with "nothing pending" state change:
the return value is the client's open result (or UV_EINVAL for a non-stream/udp client) -/
theorem accept_result {s : St} (hr : Reach s) (c : ClientTy) (e : Int)
    (hp : pending s ≠ []) :
    (uvAccept s c e).2 = if c = .other then EINVAL else e := by
  have h := reach_inv hr
  cases ha : s.acceptedFd with
  | none => simp [pending, ha, h.accNone ha, qlist] at hp
  | some fd =>
    simp only [uvAccept, ha]
    cases c <;> simp <;> (try split) <;> (try split) <;> rfl

/-- **pending_count_exact**: on an IPC pipe `uv_pipe_pending_count` is the number of received,
not yet claimed descriptors. -/
theorem pending_count_exact {s : St} (hr : Reach s) (hi : s.ipc = true) :
    pendingCount s = (pending s).length := by
  have h := reach_inv hr
  simp only [pendingCount, hi, pending]
  cases ha : s.acceptedFd with
  | none => simp [h.accNone ha, qlist]
  | some fd =>
    cases hq : s.queued with
    | none => simp [qlist]
    | some q =>
      have := (h.qinv q hq).le
      simp [qlist, List.length_take, Nat.min_eq_left this]

/-- `uv_pipe_pending_type` is the type of the oldest unclaimed descriptor -/
theorem pending_type_oldest {s : St} (hr : Reach s) (hi : s.ipc = true) :
    pendingType s = (((pending s).head?.map (·.kind)).getD .unknown) := by
  have h := reach_inv hr
  simp only [pendingType, hi, pending]
  cases ha : s.acceptedFd with
  | none => simp [h.accNone ha, qlist]
  | some fd => simp

def ex3 : St := run (init .ipc true true) [.recv ((List.range 12).map (⟨·, .tcp⟩)) none, .accept .stream 0]
example : pendingCount ex3 = 11 ∧ (pending ex3).length = 11 ∧ pendingType ex3 = .tcp ∧ ex3.ipc = true := by decide

/-- **queue_growth_safe**: no operation sequence (including allocation failures at any point and
any number of descriptors per message) makes the queue code index outside its allocation or trip
its `assert(offset > 0)`; the `size` field always equals the number of slots paid for by the last
malloc/realloc, and `0 < offset ≤ size`. -/
theorem queue_growth_safe {s : St} (hr : Reach s) :
    s.fault = false ∧ ∀ q, s.queued = some q → 0 < q.offset ∧ q.offset ≤ q.size ∧ q.size = q.fds.length := by
  have h := reach_inv hr
  refine ⟨h.nofault, fun q hq => ?_⟩
  have := h.qinv q hq
  exact ⟨this.pos, by rw [this.sz]; exact this.le, this.sz⟩

def ex4 : St := run (init .ipc true true) [.recv ((List.range 30).map (⟨·, .tcp⟩)) none]
example : ex4.fault = false ∧ (ex4.queued.map (fun q => (q.size, q.offset))) = some (32, 29) := by decide

/-- **pollin_rearm_iff_drained** (listening streams, outside the connection callback, as long as
no deferred `uv_accept` failed to open its client): POLLIN is paused exactly while an unclaimed
connection is held. -/
theorem pollin_rearm_iff_drained {s : St} (hr : Reach s) :
    s.role = .listen → s.closed = false → s.inCb = false → s.stuck = false →
    (s.pollin = true ↔ pending s = []) := by
  intro hl hc hcb hst
  have h := reach_inv hr
  have hq := h.listenQ hl
  have hp := h.pollOut hl hc hcb
  cases ha : s.acceptedFd with
  | none => simp [pending, ha, hq, qlist, hp.2 ha hst]
  | some fd => simp [pending, ha, hp.1 (by simp [ha])]

/-- … and the `uv_accept` that takes the held connection re-arms it (it was paused before) -/
theorem accept_rearms_pollin {s : St} (hr : Reach s) (c : ClientTy) (hc' : c ≠ .other) :
    s.role = .listen → s.closed = false → s.inCb = false → pending s ≠ [] →
    s.pollin = false ∧ (uvAccept s c 0).1.pollin = true ∧ pending (uvAccept s c 0).1 = [] := by
  intro hl hc hcb hne
  have h := reach_inv hr
  have hq := h.listenQ hl
  cases ha : s.acceptedFd with
  | none => simp [pending, ha, hq, qlist] at hne
  | some fd =>
    refine ⟨(h.pollOut hl hc hcb).1 (by simp [ha]), ?_, ?_⟩ <;>
    · simp only [uvAccept, ha, hq]
      cases c <;> simp [pending, qlist] at hc' ⊢

/-- `stuck` can only come from a `uv_accept` whose client failed to open -/
theorem not_stuck_of_accepts_ok (ops : List Op) (hok : ∀ c e, Op.accept c e ∈ ops → e = 0) :
    ∀ s : St, s.stuck = false → (run s ops).stuck = false := by
  induction ops with
  | nil => intro s h; exact h
  | cons op rest ih =>
    intro s h
    apply ih (fun c e hm => hok c e (List.mem_cons_of_mem _ hm))
    cases op with
    | streamInit ok => simpa [step, streamInit] using h
    | ioBegin r t => simpa [step, stuck_ioBegin] using h
    | ioEnd => simpa [step, stuck_ioEnd] using h
    | accept c e =>
      have he := hok c e (List.mem_cons_self)
      subst he
      simpa [step, stuck_uvAccept_ok] using h
    | recv fds f =>
      simp only [step, recv]
      split
      · exact h
      · rw [stuck_recvLoop]; exact h
    | close => simpa [step, stuck_close] using h

/-- the code as it is: a *deferred* `uv_accept` into a client that cannot be opened (e.g. UV_EBUSY)
closes the connection and leaves POLLIN paused although nothing is pending (stream.c:594 `if (err == 0)`) -/
def exStuck : St := run (init .listen false true) [.ioBegin (.ok ⟨1, .tcp⟩) {}, .ioEnd, .accept .stream (-16)]
theorem pollin_stays_paused_after_failed_deferred_accept :
    Reach exStuck ∧ pending exStuck = [] ∧ exStuck.pollin = false ∧ exStuck.closed = false :=
  ⟨⟨_, _, ⟨.listen, false, true, by simp, rfl⟩, rfl⟩, by decide⟩

def exL : St := run (init .listen false true) [.ioBegin (.ok ⟨1, .tcp⟩) {}, .ioEnd]
example : exL.role = .listen ∧ exL.closed = false ∧ exL.inCb = false ∧ exL.stuck = false ∧
    exL.pollin = false ∧ pending exL = [⟨1, .tcp⟩] := by decide

/-! ## send-handle validation -/

/-- **send_handle_refused**, both entry points: a handle is refused with UV_EINVAL on anything that
is not an IPC pipe, and with UV_EBADF when it has no descriptor (stream open and writable; for
`uv_try_write2` additionally not connecting and nothing queued, otherwise it answers UV_EAGAIN —
also a refusal). -/
theorem send_handle_refused (s : WStream) (h : Int) (hfd : 0 ≤ s.fd) (hw : s.writable = true) :
    (¬(s.isPipe = true ∧ s.ipc = true) → write2Check s (some h) = some EINVAL) ∧
    (s.isPipe = true → s.ipc = true → h < 0 → write2Check s (some h) = some EBADF) ∧
    (s.connecting = false → s.wqSize = 0 →
      (¬(s.isPipe = true ∧ s.ipc = true) → tryWrite2Check s (some h) = some EINVAL) ∧
      (s.isPipe = true → s.ipc = true → h < 0 → tryWrite2Check s (some h) = some EBADF)) := by
  have hfd' : ¬ s.fd < 0 := by omega
  refine ⟨?_, ?_, ?_⟩
  · intro hn
    simp only [write2Check, checkBeforeWrite, hfd', hw]
    cases hp : s.isPipe <;> cases hi : s.ipc <;> simp_all <;> decide
  · intro hp hi hh
    simp only [write2Check, checkBeforeWrite, hfd', hw, hp, hi, hh]; decide
  · intro hc hq
    refine ⟨?_, ?_⟩
    · intro hn
      simp only [tryWrite2Check, checkBeforeWrite, hfd', hw, hc, hq]
      cases hp : s.isPipe <;> cases hi : s.ipc <;> simp_all <;> decide
    · intro hp hi hh
      simp only [tryWrite2Check, checkBeforeWrite, hfd', hw, hp, hi, hh, hc, hq]; decide

/-- in every state of the stream a handle that must not be sent is answered with *some* error by
both functions (never passed on to sendmsg) -/
theorem send_handle_never_sent (s : WStream) (h : Int)
    (hbad : ¬(s.isPipe = true ∧ s.ipc = true) ∨ h < 0) :
    (∃ e, e < 0 ∧ write2Check s (some h) = some e) ∧ (∃ e, e < 0 ∧ tryWrite2Check s (some h) = some e) := by
  have hneg : checkBeforeWrite s (some h) < 0 := by
    simp only [checkBeforeWrite]
    repeat' split
    all_goals first
      | decide
      | (exfalso; simp_all; try omega)
  constructor
  · exact ⟨_, hneg, by simp [write2Check, hneg]⟩
  · simp only [tryWrite2Check]
    split
    · exact ⟨EAGAIN, by decide, rfl⟩
    · exact ⟨_, hneg, by simp [hneg]⟩

example : write2Check ⟨5, true, true, false, false, 0⟩ (some 7) = some EINVAL ∧
          tryWrite2Check ⟨5, true, true, false, false, 0⟩ (some 7) = some EINVAL ∧
          tryWrite2Check ⟨5, true, true, true, false, 0⟩ (some (-1)) = some EBADF ∧
          tryWrite2Check ⟨5, true, true, true, false, 0⟩ (some 7) = none := by decide

end UvModel.Accept
