import UvModel.Lemmas.HeapPtrLemmas
import UvModel.Props.C04Heap
set_option linter.unusedSimpArgs false
/-!
# `src/heap-inl.h` (pointer tree) against the level-order array of `UvModel.Heap`

`Rep s f n` (Lemmas/HeapPtrLemmas) is the abstraction: the heap record `s` (node cells + `min` + `nelts`)
represents the complete binary tree with `n` nodes whose node at level-order position `i` is `f i`
(`left`/`right`/`parent` cells of `f i` hold `f (2i+1)`, `f (2i+2)`, `f ((i-1)/2)`; `NULL` = 0 beyond `n`;
no node occurs twice; `min = f 0`; `nelts = n`).  `toArr ent f n` is the array `UvModel.Heap` works on.
All theorems are for every memory, every `n`, every position; nodes outside the tree are arbitrary.
-/
namespace UvModel.HeapPtr
open UvModel

/-- the level-order array of keys that `UvModel.Heap` / `Props/C04Heap` reason about -/
def toArr (ent : Nat → Heap.Ent) (f : Nat → Nat) (n : Nat) : Heap.H :=
  ((List.range n).map fun k => ent (f k)).toArray

/-! ## 1. the abstraction also as an inductive tree -/

inductive T where
  | nil
  | node (x : Nat) (l r : T)
deriving DecidableEq, Repr

/-- `Tree m p r t`: the pointer `r`, read in a node (or `heap->min`) whose own address is `p`
(`0` for `heap->min`), is the root of `t`: children and parent cells agree with `t` -/
def Tree (m : Mem) : Nat → Nat → T → Prop
  | _, r, .nil => r = 0
  | p, r, .node x l rt => r = x ∧ x ≠ 0 ∧ m.parent x = p ∧ Tree m x (m.left x) l ∧ Tree m x (m.right x) rt

/-- the complete tree whose level-order listing is `f 0 … f (n-1)`, from position `i` down -/
def ofLevel (f : Nat → Nat) (n : Nat) : Nat → Nat → T
  | 0, _ => .nil
  | fuel + 1, i => if i < n then .node (f i) (ofLevel f n fuel (2 * i + 1)) (ofLevel f n fuel (2 * i + 2)) else .nil

/-- `Complete t f n`: `t` is the complete tree with `n` nodes, `f` its level order -/
def Complete (t : T) (f : Nat → Nat) (n : Nat) : Prop := t = ofLevel f n n 0

theorem rep_tree_at {s : St} {f : Nat → Nat} {n : Nat} (h : Rep s f n) : ∀ fuel i, n ≤ i + fuel →
    Tree s.m (if i = 0 then 0 else f ((i - 1) / 2)) (f i) (ofLevel f n fuel i) := by
  intro fuel
  induction fuel with
  | zero => intro i hi; simp only [ofLevel, Tree]; exact h.dead i (by omega)
  | succ fuel ih =>
    intro i hi
    by_cases hin : i < n
    · simp only [ofLevel, if_pos hin, Tree]
      refine ⟨trivial, h.live i hin, h.parent i hin, ?_, ?_⟩
      · have := ih (2 * i + 1) (by omega)
        rw [if_neg (by omega), show (2 * i + 1 - 1) / 2 = i by omega] at this
        rw [h.left i hin]; exact this
      · have := ih (2 * i + 2) (by omega)
        rw [if_neg (by omega), show (2 * i + 2 - 1) / 2 = i by omega] at this
        rw [h.right i hin]; exact this
    · simp only [ofLevel, if_neg hin, Tree]; exact h.dead i (by omega)

/-- a represented heap is, as a pointer structure, the complete tree with level order `f`: child and parent
cells coherent everywhere (and no sharing: `Rep.inj`) -/
theorem rep_tree {s : St} {f : Nat → Nat} {n : Nat} (h : Rep s f n) :
    ∃ t, Complete t f n ∧ Tree s.m 0 s.min t := by
  refine ⟨_, rfl, ?_⟩
  have := rep_tree_at h n 0 (by omega)
  rw [h.min]; simpa using this

/-! ## 2. the path-bit loop reaches the right level-order position -/

/-- heap_insert (heap-inl.h:122-136): `child` ends on the lvalue of 1-based position `nelts + 1` — the first
free cell in level order — and `parent` on the lvalue holding that position's parent -/
theorem path_correct_insert {s : St} {f : Nat → Nat} {n : Nat} (h : Rep s f n) :
    walk s (pathLoop (1 + n) (1 + n) 0 0).1 (pathLoop (1 + n) (1 + n) 0 0).2 Slot.root Slot.root =
      (if n = 0 then Slot.root else slotOf f ((n + 1) / 2), slotOf f (n + 1)) := by
  have hr := pathLoop_reach (1 + n) (1 + n) (1 + n) 0 0 (by omega) (by omega) rfl
  have hw := walk_slot h (pathLoop (1 + n) (1 + n) 0 0).1 (pathLoop (1 + n) (1 + n) 0 0).2 1 Slot.root (by omega)
    (by rw [hr]; right; omega)
  rw [show slotOf f 1 = Slot.root from rfl, hr] at hw
  rw [hw, show 1 + n = n + 1 by omega]
  by_cases hn : n = 0
  · subst hn; rfl
  · have hk : (pathLoop (1 + n) (1 + n) 0 0).1 ≠ 0 := by
      intro e; rw [e] at hr; simp [reach] at hr; omega
    rw [show 1 + n = n + 1 by omega] at hk
    rw [if_neg hk, if_neg hn]

/-- what the two cursors point at: the free cell (NULL) and the node at 0-based position `(n-1)/2` -/
theorem path_correct_insert_deref {s : St} {f : Nat → Nat} {n : Nat} (h : Rep s f n) :
    deref s (slotOf f (n + 1)) = 0 ∧
    deref s (if n = 0 then Slot.root else slotOf f ((n + 1) / 2)) = (if n = 0 then 0 else f ((n - 1) / 2)) := by
  constructor
  · rw [deref_slotOf h (n + 1) (by omega) (by omega)]; exact h.dead _ (by omega)
  · by_cases hn : n = 0
    · subst hn; simp only [if_true, deref]; rw [h.min]; exact h.dead 0 (by omega)
    · rw [if_neg hn, if_neg hn, deref_slotOf h _ (by omega) (by omega)]; congr 1; omega

/-- heap_remove (heap-inl.h:166-179): `max` ends on the lvalue holding the last node in level order -/
theorem path_correct_remove {s : St} {f : Nat → Nat} {n : Nat} (h : Rep s f n) (hn : 0 < n) :
    (walk s (pathLoop n n 0 0).1 (pathLoop n n 0 0).2 Slot.root Slot.root).2 = slotOf f n ∧
    deref s (slotOf f n) = f (n - 1) := by
  have hr := pathLoop_reach n n n 0 0 (by omega) (by omega) rfl
  have hw := walk_slot h (pathLoop n n 0 0).1 (pathLoop n n 0 0).2 1 Slot.root (by omega)
    (by rw [hr]; right; omega)
  rw [show slotOf f 1 = Slot.root from rfl, hr] at hw
  rw [hw]
  exact ⟨rfl, deref_slotOf h n hn (by omega)⟩

/-! ## 3. heap_node_swap exchanges two positions and nothing else -/

/-- `heap_node_swap(heap, f i, f j)` for `j` the left or right child position of `i`: the memory afterwards
represents the same complete tree with the nodes at positions `i` and `j` exchanged; every other position
(grandparent, sibling, grandchildren included) keeps its node and all cells are coherent again -/
theorem swap_refines {s : St} {f : Nat → Nat} {n i j : Nat} (h : Rep s f n) (hj : j < n)
    (hc : j = 2 * i + 1 ∨ j = 2 * i + 2) : Rep (swap s (f i) (f j)) (exchange f i j) n :=
  swap_rep h hj hc

/-- on the level-order array this is `Heap.swap` -/
theorem swap_toArr (ent : Nat → Heap.Ent) (f : Nat → Nat) {n i j : Nat} (hi : i < n) (hj : j < n) :
    toArr ent (exchange f i j) n = Heap.swap (toArr ent f n) i j := by
  have hs : (toArr ent f n).size = n := by simp [toArr]
  have e : Heap.swap (toArr ent f n) i j = (toArr ent f n).swap i j (by omega) (by omega) := by
    unfold Heap.swap; rw [dif_pos ⟨by omega, by omega⟩]
  rw [e]
  apply Array.ext
  · simp [toArr]
  · intro k h1 h2
    have hk : k < n := by simpa [toArr] using h1
    simp only [toArr, exchange, Array.getElem_swap, List.getElem_toArray, List.getElem_map, List.getElem_range]
    grind

/-- the sift-up loop (heap-inl.h:146-147 / 235-236) keeps the memory a represented complete tree, for any
fuel, any comparison function and any starting position -/
theorem siftUp_rep (lt : Nat → Nat → Bool) {n : Nat} : ∀ fuel (s : St) (f : Nat → Nat) (i : Nat), Rep s f n → i < n →
    ∃ f', Rep (siftUp lt fuel s (f i)) f' n := by
  intro fuel
  induction fuel with
  | zero => intro s f i h _; exact ⟨f, h⟩
  | succ fuel ih =>
    intro s f i h hi
    unfold siftUp
    split
    · rename_i hcond
      have hp := h.parent i hi
      by_cases h0 : i = 0
      · rw [if_pos h0] at hp; exact absurd hp hcond.1
      · rw [if_neg h0] at hp
        rw [hp]
        have hr := swap_rep (i := (i - 1) / 2) h hi (by omega)
        have hx : exchange f ((i - 1) / 2) i ((i - 1) / 2) = f i := by simp [exchange]
        have := ih _ _ ((i - 1) / 2) hr (by omega)
        rw [hx] at this
        exact this
    · exact ⟨f, h⟩

/-! ## 4. heap_insert / heap_remove against `Heap.insert` / `Heap.remove`

`insert_refines` is proved below (`insert_refines_holds`, with the corollary `insert_order_holds`): clearing
the new node, the path walk (§2), the link step heap-inl.h:139-141 (`link_rep`) and the sift-up loop
(`siftUp_refines`: the C loop condition is the array model's, each swap is `Heap.swap` by §3).
`remove_refines` is still only a statement: missing are the unlink / replace steps (heap-inl.h:181-214) as
`Rep` updates and the sift-down loop matched with `Heap.siftDown`. -/

def insert_refines : Prop :=
  ∀ (ent : Nat → Heap.Ent) (lt : Nat → Nat → Bool) (s : St) (f : Nat → Nat) (n x : Nat),
    (∀ a b, lt a b = Heap.lt (ent a) (ent b)) → Rep s f n → x ≠ 0 → (∀ i, f i ≠ x) →
    ∃ f', Rep (insert lt s x) f' (n + 1) ∧ toArr ent f' (n + 1) = Heap.insert (toArr ent f n) (ent x)

def remove_refines : Prop :=
  ∀ (ent : Nat → Heap.Ent) (lt : Nat → Nat → Bool) (s : St) (f : Nat → Nat) (n i : Nat),
    (∀ a b, lt a b = Heap.lt (ent a) (ent b)) → Rep s f n → i < n →
    ∃ f', Rep (remove lt s (f i)) f' (n - 1) ∧ toArr ent f' (n - 1) = Heap.remove (toArr ent f n) i

/-- the corollary that would transfer `Props/C04Heap` to the pointer heap: heap order is kept and `heap_min`
is a least element -/
def insert_order_transfer : Prop :=
  insert_refines → ∀ (ent : Nat → Heap.Ent) (lt : Nat → Nat → Bool) (s : St) (f : Nat → Nat) (n x : Nat),
    (∀ a b, lt a b = Heap.lt (ent a) (ent b)) → Rep s f n → x ≠ 0 → (∀ i, f i ≠ x) →
    Heap.Inv (toArr ent f n) →
    ∃ f', Rep (insert lt s x) f' (n + 1) ∧ Heap.Inv (toArr ent f' (n + 1)) ∧
      (insert lt s x).min = f' 0 ∧ ∀ j, j < n + 1 → Heap.lt (ent (f' j)) (ent (f' 0)) = false

theorem g_toArr (ent : Nat → Heap.Ent) (f : Nat → Nat) {n k : Nat} (hk : k < n) :
    Heap.g (toArr ent f n) k = ent (f k) := by
  simp [Heap.g, toArr, hk]

theorem size_toArr (ent : Nat → Heap.Ent) (f : Nat → Nat) (n : Nat) : (toArr ent f n).size = n := by
  simp [toArr]

theorem exchange_comm (f : Nat → Nat) (i j : Nat) : exchange f i j = exchange f j i := by
  funext k; unfold exchange; grind

/-- the sift-up loop is `Heap.siftUp` on the level-order array -/
theorem siftUp_refines (ent : Nat → Heap.Ent) (lt : Nat → Nat → Bool)
    (hlt : ∀ a b, lt a b = Heap.lt (ent a) (ent b)) {n : Nat} :
    ∀ fuel (s : St) (f : Nat → Nat) (i : Nat), Rep s f n → i < n → i < fuel →
    ∃ f', Rep (siftUp lt fuel s (f i)) f' n ∧ toArr ent f' n = Heap.siftUp (toArr ent f n) i := by
  intro fuel
  induction fuel with
  | zero => intro s f i _ _ h; omega
  | succ fuel ih =>
    intro s f i h hi hf
    have hp := h.parent i hi
    unfold siftUp
    rw [Heap.siftUp]
    by_cases h0 : i = 0
    · rw [if_pos h0] at hp
      rw [if_neg (by rw [hp]; simp), dif_pos h0]
      exact ⟨f, h, rfl⟩
    · rw [if_neg h0] at hp
      have hpn : (i - 1) / 2 < n := by omega
      rw [dif_neg h0, hp, hlt]
      simp only [g_toArr ent f hi, g_toArr ent f hpn]
      have hnz : f ((i - 1) / 2) ≠ 0 := h.live _ hpn
      by_cases hc : Heap.lt (ent (f i)) (ent (f ((i - 1) / 2))) = true
      · rw [if_pos ⟨hnz, hc⟩, if_pos hc]
        have hr := swap_rep (i := (i - 1) / 2) h hi (by omega)
        have hx : exchange f ((i - 1) / 2) i ((i - 1) / 2) = f i := by simp [exchange]
        obtain ⟨f', h1, h2⟩ := ih _ _ ((i - 1) / 2) hr hpn (by omega)
        rw [hx] at h1
        refine ⟨f', h1, ?_⟩
        rw [h2, exchange_comm, swap_toArr ent f hi hpn]
      · rw [if_neg (fun c => hc c.2), if_neg hc]
        exact ⟨f, h, rfl⟩

/-- the array with `x` appended at position `n` -/
def snoc (f : Nat → Nat) (n x : Nat) : Nat → Nat := fun k => if k = n then x else f k

theorem toArr_snoc (ent : Nat → Heap.Ent) (f : Nat → Nat) (n x : Nat) :
    toArr ent (snoc f n x) (n + 1) = (toArr ent f n).push (ent x) := by
  apply Array.ext
  · simp [toArr]
  · intro k h1 h2
    have hk : k < n + 1 := by simpa [toArr] using h1
    simp only [toArr, snoc, Array.getElem_push, List.getElem_toArray, List.getElem_map, List.getElem_range,
      List.size_toArray, List.length_map, List.length_range]
    grind

/-- zeroing the cells of a node outside the tree (heap-inl.h:115-117) changes nothing represented -/
theorem rep_clear {s : St} {f : Nat → Nat} {n x : Nat} (h : Rep s f n) (hx : ∀ i, f i ≠ x) :
    Rep { s with m := setParent (setRight (setLeft s.m x 0) x 0) x 0 } f n := by
  refine ⟨h.nelts, h.min, h.live, h.dead, h.inj, ?_, ?_, ?_⟩
  · intro i hi; simp [hx i, h.left i hi]
  · intro i hi; simp [hx i, h.right i hi]
  · intro i hi; simp [hx i]; exact h.parent i hi

/-- heap-inl.h:139-141 on a represented heap whose new node has NULL cells: the node becomes position `n` -/
theorem link_rep {s : St} {f : Nat → Nat} {n x : Nat} (h : Rep s f n) (hx0 : x ≠ 0) (hx : ∀ i, f i ≠ x)
    (hl : s.m.left x = 0) (hr : s.m.right x = 0) :
    let s1 : St := { s with m := setParent s.m x (if n = 0 then 0 else f ((n - 1) / 2)) }
    let s2 := store s1 (slotOf f (n + 1)) x
    Rep { s2 with nelts := s2.nelts + 1 } (snoc f n x) (n + 1) := by
  intro s1 s2
  have hdead := h.dead
  have hlive := h.live
  have hne := @Rep.ne s f n h
  have hcases : slotOf f (n + 1) = Slot.root ∧ n = 0 ∨
      slotOf f (n + 1) = Slot.r (f ((n + 1) / 2 - 1)) ∧ n ≠ 0 ∧ (n + 1) % 2 = 1 ∨
      slotOf f (n + 1) = Slot.l (f ((n + 1) / 2 - 1)) ∧ n ≠ 0 ∧ (n + 1) % 2 = 0 := by
    unfold slotOf
    by_cases hn : n = 0
    · left; subst hn; simp
    · have hq : ¬ (n + 1 ≤ 1) := by omega
      rw [if_neg hq]
      by_cases hodd : (n + 1) % 2 = 1
      · right; left; rw [if_pos hodd]; exact ⟨rfl, hn, hodd⟩
      · right; right; rw [if_neg hodd]; exact ⟨rfl, hn, by omega⟩
  have hpx := hx ((n + 1) / 2 - 1)
  have hmin := h.min
  have hnel := h.nelts
  rcases hcases with ⟨e, hn⟩ | ⟨e, hn, hodd⟩ | ⟨e, hn, hodd⟩ <;>
  · refine ⟨?_, ?_, ?_, ?_, ?_, ?_, ?_, ?_⟩ <;> simp only [s2, s1, e, store, snoc]
    · simp [hnel]
    · grind
    · intro i hi; grind
    · intro i hi; grind
    · intro i j hi hj; have := h.inj i j; have := hx i; have := hx j; grind
    · intro i hi; have := h.left i; have := hx i
      simp only [setLeft_left, setRight_left, setParent_left]; grind
    · intro i hi; have := h.right i; have := hx i
      simp only [setLeft_right, setRight_right, setParent_right]; grind
    · intro i hi; have := h.parent i; have := hx i
      simp only [setLeft_parent, setRight_parent, setParent_parent]; grind

theorem store_nelts (s : St) (sl : Slot) (v : Nat) : (store s sl v).nelts = s.nelts := by
  cases sl <;> rfl

/-- **heap_insert refines `Heap.insert`**: for every represented heap, every fresh node and every key
assignment, the memory after the C statements represents a complete tree with `n + 1` nodes whose
level-order key array is `Heap.insert` of the array before -/
theorem insert_refines_holds : insert_refines := by
  intro ent lt s f n x hlt h hx0 hx
  have hnel : s.nelts = n := h.nelts
  subst hnel
  have hc := rep_clear h hx
  have hpc := path_correct_insert hc
  have hd := (path_correct_insert_deref hc).2
  have hlink := link_rep hc hx0 hx (by simp) (by simp)
  simp only [store_nelts] at hlink
  unfold insert
  simp only [hpc, hd, store_nelts]
  have hxs : x = snoc f s.nelts x s.nelts := by simp [snoc]
  obtain ⟨f', h1, h2⟩ := siftUp_refines ent lt hlt (s.nelts + 1) _ _ s.nelts hlink (by omega) (by omega)
  rw [← hxs] at h1
  refine ⟨f', h1, ?_⟩
  rw [h2, toArr_snoc, Heap.insert, size_toArr]

/-- heap order and "`heap_min` is a least element" transfer from `Props/C04Heap` to the pointer heap -/
theorem insert_order_holds : insert_order_transfer := by
  intro _ ent lt s f n x hlt h hx0 hx hinv
  obtain ⟨f', h1, h2⟩ := insert_refines_holds ent lt s f n x hlt h hx0 hx
  have hinv' : Heap.Inv (toArr ent f' (n + 1)) := by rw [h2]; exact Heap.insert_inv _ _ hinv
  refine ⟨f', h1, hinv', h1.min, ?_⟩
  intro j hj
  have := Heap.min_is_min _ hinv' j (by rw [size_toArr]; exact hj)
  rwa [g_toArr ent f' hj, g_toArr ent f' (by omega)] at this

/-! ## non-vacuity: heaps built by the model's own `heap_insert` -/

def exKey : Nat → Nat := fun i => [0, 50, 30, 40, 10, 20, 35, 5].getD i 0
def exLt (a b : Nat) : Bool := exKey a < exKey b
def exEnt (i : Nat) : Heap.Ent := ⟨exKey i, 0, i⟩
def s0 : St := init ⟨⟨fun _ => 0, fun _ => 0, fun _ => 0⟩, 0, 0⟩
def exIns (l : List Nat) : St := l.foldl (insert exLt) s0
/-- node at 1-based level-order position `q`, read from the pointer memory -/
def posNode (s : St) : Nat → Nat → Nat
  | 0, _ => 0
  | fuel + 1, q => if q ≤ 1 then s.min else
      if q % 2 = 1 then s.m.right (posNode s fuel (q / 2)) else s.m.left (posNode s fuel (q / 2))
def levelOrder (s : St) : List Nat := (List.range s.nelts).map fun i => posNode s 8 (i + 1)
def arrOf (s : St) : Heap.H := ((levelOrder s).map exEnt).toArray

/-- seven inserts (keys 50 30 40 10 20 35 5: several sift-ups, one to the root through two levels) -/
example : levelOrder (exIns [1, 2, 3, 4, 5, 6, 7]) = [7, 5, 4, 1, 2, 3, 6] := by decide
/-- the pointer heap after each insert is `Heap.insert` of the array before -/
example : arrOf (exIns [1, 2, 3, 4, 5, 6, 7]) = Heap.insert (arrOf (exIns [1, 2, 3, 4, 5, 6])) (exEnt 7) := by
  decide +kernel
/-- removing an interior node (position 1, node 5) and the root -/
example : levelOrder (remove exLt (exIns [1, 2, 3, 4, 5, 6, 7]) 5) = [7, 2, 4, 1, 6, 3] ∧
    arrOf (remove exLt (exIns [1, 2, 3, 4, 5, 6, 7]) 5) = Heap.remove (arrOf (exIns [1, 2, 3, 4, 5, 6, 7])) 1 ∧
    arrOf (dequeue exLt (exIns [1, 2, 3, 4, 5, 6, 7])) = Heap.remove (arrOf (exIns [1, 2, 3, 4, 5, 6, 7])) 0 := by
  decide +kernel
/-- `heap_node_swap` on that heap: root with its right child -/
example : levelOrder (swap (exIns [1, 2, 3, 4, 5, 6, 7]) 7 4) = [4, 5, 7, 1, 2, 3, 6] := by decide

end UvModel.HeapPtr
