import UvModel.Lemmas.HeapPtrLemmas
import UvModel.Props.C04Heap
set_option linter.unusedSimpArgs false
/-!
# `src/heap-inl.h` (pointer tree) against the level-order array of `UvModel.Heap`

`Rep s f n` (Lemmas/HeapPtrLemmas) is the abstraction: the heap record `s` (node cells + `min` + `nelts`)
represents the complete binary tree with `n` nodes whose node at level-order position `i` is `f i`
(`left`/`right`/`parent` cells of `f i` hold `f (2i+1)`, `f (2i+2)`, `f ((i-1)/2)`; `NULL` = 0 beyond `n`;
no node occurs twice; `min = f 0`; `nelts = n`).  `toArr ent f n` is the array `UvModel.Heap` works on.
All theorems are for every memory, every `n`, every position; nodes outside the tree are arbitrary.
-/
namespace UvModel.HeapPtr
open UvModel

/-- the level-order array of keys that `UvModel.Heap` / `Props/C04Heap` reason about -/
def toArr (ent : Nat → Heap.Ent) (f : Nat → Nat) (n : Nat) : Heap.H :=
  ((List.range n).map fun k => ent (f k)).toArray

/-! ## 1. the abstraction also as an inductive tree -/

inductive T where
  | nil
  | node (x : Nat) (l r : T)
deriving DecidableEq, Repr

/-- `Tree m p r t`: the pointer `r`, read in a node (or `heap->min`) whose own address is `p`
(`0` for `heap->min`), is the root of `t`: children and parent cells agree with `t` -/
def Tree (m : Mem) : Nat → Nat → T → Prop
  | _, r, .nil => r = 0
  | p, r, .node x l rt => r = x ∧ x ≠ 0 ∧ m.parent x = p ∧ Tree m x (m.left x) l ∧ Tree m x (m.right x) rt

/-- the complete tree whose level-order listing is `f 0 … f (n-1)`, from position `i` down -/
def ofLevel (f : Nat → Nat) (n : Nat) : Nat → Nat → T
  | 0, _ => .nil
  | fuel + 1, i => if i < n then .node (f i) (ofLevel f n fuel (2 * i + 1)) (ofLevel f n fuel (2 * i + 2)) else .nil

/-- `Complete t f n`: `t` is the complete tree with `n` nodes, `f` its level order -/
def Complete (t : T) (f : Nat → Nat) (n : Nat) : Prop := t = ofLevel f n n 0

theorem rep_tree_at {s : St} {f : Nat → Nat} {n : Nat} (h : Rep s f n) : ∀ fuel i, n ≤ i + fuel →
    Tree s.m (if i = 0 then 0 else f ((i - 1) / 2)) (f i) (ofLevel f n fuel i) := by
  intro fuel
  induction fuel with
  | zero => intro i hi; simp only [ofLevel, Tree]; exact h.dead i (by omega)
  | succ fuel ih =>
    intro i hi
    by_cases hin : i < n
    · simp only [ofLevel, if_pos hin, Tree]
      refine ⟨trivial, h.live i hin, h.parent i hin, ?_, ?_⟩
      · have := ih (2 * i + 1) (by omega)
        rw [if_neg (by omega), show (2 * i + 1 - 1) / 2 = i by omega] at this
        rw [h.left i hin]; exact this
      · have := ih (2 * i + 2) (by omega)
        rw [if_neg (by omega), show (2 * i + 2 - 1) / 2 = i by omega] at this
        rw [h.right i hin]; exact this
    · simp only [ofLevel, if_neg hin, Tree]; exact h.dead i (by omega)

/-- a represented heap is, as a pointer structure, the complete tree with level order `f`: child and parent
cells coherent everywhere (and no sharing: `Rep.inj`) -/
theorem rep_tree {s : St} {f : Nat → Nat} {n : Nat} (h : Rep s f n) :
    ∃ t, Complete t f n ∧ Tree s.m 0 s.min t := by
  refine ⟨_, rfl, ?_⟩
  have := rep_tree_at h n 0 (by omega)
  rw [h.min]; simpa using this

/-! ## 2. the path-bit loop reaches the right level-order position -/

/-- heap_insert (heap-inl.h:122-136): `child` ends on the lvalue of 1-based position `nelts + 1` — the first
free cell in level order — and `parent` on the lvalue holding that position's parent -/
theorem path_correct_insert {s : St} {f : Nat → Nat} {n : Nat} (h : Rep s f n) :
    walk s (pathLoop (1 + n) (1 + n) 0 0).1 (pathLoop (1 + n) (1 + n) 0 0).2 Slot.root Slot.root =
      (if n = 0 then Slot.root else slotOf f ((n + 1) / 2), slotOf f (n + 1)) := by
  have hr := pathLoop_reach (1 + n) (1 + n) (1 + n) 0 0 (by omega) (by omega) rfl
  have hw := walk_slot h (pathLoop (1 + n) (1 + n) 0 0).1 (pathLoop (1 + n) (1 + n) 0 0).2 1 Slot.root (by omega)
    (by rw [hr]; right; omega)
  rw [show slotOf f 1 = Slot.root from rfl, hr] at hw
  rw [hw, show 1 + n = n + 1 by omega]
  by_cases hn : n = 0
  · subst hn; rfl
  · have hk : (pathLoop (1 + n) (1 + n) 0 0).1 ≠ 0 := by
      intro e; rw [e] at hr; simp [reach] at hr; omega
    rw [show 1 + n = n + 1 by omega] at hk
    rw [if_neg hk, if_neg hn]

/-- what the two cursors point at: the free cell (NULL) and the node at 0-based position `(n-1)/2` -/
theorem path_correct_insert_deref {s : St} {f : Nat → Nat} {n : Nat} (h : Rep s f n) :
    deref s (slotOf f (n + 1)) = 0 ∧
    deref s (if n = 0 then Slot.root else slotOf f ((n + 1) / 2)) = (if n = 0 then 0 else f ((n - 1) / 2)) := by
  constructor
  · rw [deref_slotOf h (n + 1) (by omega) (by omega)]; exact h.dead _ (by omega)
  · by_cases hn : n = 0
    · subst hn; simp only [if_true, deref]; rw [h.min]; exact h.dead 0 (by omega)
    · rw [if_neg hn, if_neg hn, deref_slotOf h _ (by omega) (by omega)]; congr 1; omega

/-- heap_remove (heap-inl.h:166-179): `max` ends on the lvalue holding the last node in level order -/
theorem path_correct_remove {s : St} {f : Nat → Nat} {n : Nat} (h : Rep s f n) (hn : 0 < n) :
    (walk s (pathLoop n n 0 0).1 (pathLoop n n 0 0).2 Slot.root Slot.root).2 = slotOf f n ∧
    deref s (slotOf f n) = f (n - 1) := by
  have hr := pathLoop_reach n n n 0 0 (by omega) (by omega) rfl
  have hw := walk_slot h (pathLoop n n 0 0).1 (pathLoop n n 0 0).2 1 Slot.root (by omega)
    (by rw [hr]; right; omega)
  rw [show slotOf f 1 = Slot.root from rfl, hr] at hw
  rw [hw]
  exact ⟨rfl, deref_slotOf h n hn (by omega)⟩

/-! ## 3. heap_node_swap exchanges two positions and nothing else -/

/-- `heap_node_swap(heap, f i, f j)` for `j` the left or right child position of `i`: the memory afterwards
represents the same complete tree with the nodes at positions `i` and `j` exchanged; every other position
(grandparent, sibling, grandchildren included) keeps its node and all cells are coherent again -/
theorem swap_refines {s : St} {f : Nat → Nat} {n i j : Nat} (h : Rep s f n) (hj : j < n)
    (hc : j = 2 * i + 1 ∨ j = 2 * i + 2) : Rep (swap s (f i) (f j)) (exchange f i j) n :=
  swap_rep h hj hc

/-- on the level-order array this is `Heap.swap` -/
theorem swap_toArr (ent : Nat → Heap.Ent) (f : Nat → Nat) {n i j : Nat} (hi : i < n) (hj : j < n) :
    toArr ent (exchange f i j) n = Heap.swap (toArr ent f n) i j := by
  have hs : (toArr ent f n).size = n := by simp [toArr]
  have e : Heap.swap (toArr ent f n) i j = (toArr ent f n).swap i j (by omega) (by omega) := by
    unfold Heap.swap; rw [dif_pos ⟨by omega, by omega⟩]
  rw [e]
  apply Array.ext
  · simp [toArr]
  · intro k h1 h2
    have hk : k < n := by simpa [toArr] using h1
    simp only [toArr, exchange, Array.getElem_swap, List.getElem_toArray, List.getElem_map, List.getElem_range]
    grind

/-- the sift-up loop (heap-inl.h:146-147 / 235-236) keeps the memory a represented complete tree, for any
fuel, any comparison function and any starting position -/
theorem siftUp_rep (lt : Nat → Nat → Bool) {n : Nat} : ∀ fuel (s : St) (f : Nat → Nat) (i : Nat), Rep s f n → i < n →
    ∃ f', Rep (siftUp lt fuel s (f i)) f' n := by
  intro fuel
  induction fuel with
  | zero => intro s f i h _; exact ⟨f, h⟩
  | succ fuel ih =>
    intro s f i h hi
    unfold siftUp
    split
    · rename_i hcond
      have hp := h.parent i hi
      by_cases h0 : i = 0
      · rw [if_pos h0] at hp; exact absurd hp hcond.1
      · rw [if_neg h0] at hp
        rw [hp]
        have hr := swap_rep (i := (i - 1) / 2) h hi (by omega)
        have hx : exchange f ((i - 1) / 2) i ((i - 1) / 2) = f i := by simp [exchange]
        have := ih _ _ ((i - 1) / 2) hr (by omega)
        rw [hx] at this
        exact this
    · exact ⟨f, h⟩

/-! ## 4. heap_insert / heap_remove against `Heap.insert` / `Heap.remove`

`insert_refines` is proved below (`insert_refines_holds`, with the corollary `insert_order_holds`): clearing
the new node, the path walk (§2), the link step heap-inl.h:139-141 (`link_rep`) and the sift-up loop
(`siftUp_refines`: the C loop condition is the array model's, each swap is `Heap.swap` by §3).
`remove_refines` is proved too (`remove_refines_holds`, corollaries `dequeue_refines`,
`remove_order_holds`): path walk to the last node (§2), unlink (`unlink_rep`), the replace step
heap-inl.h:196-214 (`replace_rep`), the sift-down loop (`siftDown_refines`: the C's `smallest` is the node at
`Heap.smallest`, each swap is `Heap.swap`) and the final walk-up (`siftUp_refines`). -/

def insert_refines : Prop :=
  ∀ (ent : Nat → Heap.Ent) (lt : Nat → Nat → Bool) (s : St) (f : Nat → Nat) (n x : Nat),
    (∀ a b, lt a b = Heap.lt (ent a) (ent b)) → Rep s f n → x ≠ 0 → (∀ i, f i ≠ x) →
    ∃ f', Rep (insert lt s x) f' (n + 1) ∧ toArr ent f' (n + 1) = Heap.insert (toArr ent f n) (ent x)

def remove_refines : Prop :=
  ∀ (ent : Nat → Heap.Ent) (lt : Nat → Nat → Bool) (s : St) (f : Nat → Nat) (n i : Nat),
    (∀ a b, lt a b = Heap.lt (ent a) (ent b)) → Rep s f n → i < n →
    ∃ f', Rep (remove lt s (f i)) f' (n - 1) ∧ toArr ent f' (n - 1) = Heap.remove (toArr ent f n) i

/-- the corollary that would transfer `Props/C04Heap` to the pointer heap: heap order is kept and `heap_min`
is a least element -/
def insert_order_transfer : Prop :=
  insert_refines → ∀ (ent : Nat → Heap.Ent) (lt : Nat → Nat → Bool) (s : St) (f : Nat → Nat) (n x : Nat),
    (∀ a b, lt a b = Heap.lt (ent a) (ent b)) → Rep s f n → x ≠ 0 → (∀ i, f i ≠ x) →
    Heap.Inv (toArr ent f n) →
    ∃ f', Rep (insert lt s x) f' (n + 1) ∧ Heap.Inv (toArr ent f' (n + 1)) ∧
      (insert lt s x).min = f' 0 ∧ ∀ j, j < n + 1 → Heap.lt (ent (f' j)) (ent (f' 0)) = false

theorem g_toArr (ent : Nat → Heap.Ent) (f : Nat → Nat) {n k : Nat} (hk : k < n) :
    Heap.g (toArr ent f n) k = ent (f k) := by
  simp [Heap.g, toArr, hk]

theorem size_toArr (ent : Nat → Heap.Ent) (f : Nat → Nat) (n : Nat) : (toArr ent f n).size = n := by
  simp [toArr]

theorem exchange_comm (f : Nat → Nat) (i j : Nat) : exchange f i j = exchange f j i := by
  funext k; unfold exchange; grind

/-- the sift-up loop is `Heap.siftUp` on the level-order array -/
theorem siftUp_refines (ent : Nat → Heap.Ent) (lt : Nat → Nat → Bool)
    (hlt : ∀ a b, lt a b = Heap.lt (ent a) (ent b)) {n : Nat} :
    ∀ fuel (s : St) (f : Nat → Nat) (i : Nat), Rep s f n → i < n → i < fuel →
    ∃ f', Rep (siftUp lt fuel s (f i)) f' n ∧ toArr ent f' n = Heap.siftUp (toArr ent f n) i := by
  intro fuel
  induction fuel with
  | zero => intro s f i _ _ h; omega
  | succ fuel ih =>
    intro s f i h hi hf
    have hp := h.parent i hi
    unfold siftUp
    rw [Heap.siftUp]
    by_cases h0 : i = 0
    · rw [if_pos h0] at hp
      rw [if_neg (by rw [hp]; simp), dif_pos h0]
      exact ⟨f, h, rfl⟩
    · rw [if_neg h0] at hp
      have hpn : (i - 1) / 2 < n := by omega
      rw [dif_neg h0, hp, hlt]
      simp only [g_toArr ent f hi, g_toArr ent f hpn]
      have hnz : f ((i - 1) / 2) ≠ 0 := h.live _ hpn
      by_cases hc : Heap.lt (ent (f i)) (ent (f ((i - 1) / 2))) = true
      · rw [if_pos ⟨hnz, hc⟩, if_pos hc]
        have hr := swap_rep (i := (i - 1) / 2) h hi (by omega)
        have hx : exchange f ((i - 1) / 2) i ((i - 1) / 2) = f i := by simp [exchange]
        obtain ⟨f', h1, h2⟩ := ih _ _ ((i - 1) / 2) hr hpn (by omega)
        rw [hx] at h1
        refine ⟨f', h1, ?_⟩
        rw [h2, exchange_comm, swap_toArr ent f hi hpn]
      · rw [if_neg (fun c => hc c.2), if_neg hc]
        exact ⟨f, h, rfl⟩

/-- the array with `x` appended at position `n` -/
def snoc (f : Nat → Nat) (n x : Nat) : Nat → Nat := fun k => if k = n then x else f k

theorem toArr_snoc (ent : Nat → Heap.Ent) (f : Nat → Nat) (n x : Nat) :
    toArr ent (snoc f n x) (n + 1) = (toArr ent f n).push (ent x) := by
  apply Array.ext
  · simp [toArr]
  · intro k h1 h2
    have hk : k < n + 1 := by simpa [toArr] using h1
    simp only [toArr, snoc, Array.getElem_push, List.getElem_toArray, List.getElem_map, List.getElem_range,
      List.size_toArray, List.length_map, List.length_range]
    grind

/-- zeroing the cells of a node outside the tree (heap-inl.h:115-117) changes nothing represented -/
theorem rep_clear {s : St} {f : Nat → Nat} {n x : Nat} (h : Rep s f n) (hx : ∀ i, f i ≠ x) :
    Rep { s with m := setParent (setRight (setLeft s.m x 0) x 0) x 0 } f n := by
  refine ⟨h.nelts, h.min, h.live, h.dead, h.inj, ?_, ?_, ?_⟩
  · intro i hi; simp [hx i, h.left i hi]
  · intro i hi; simp [hx i, h.right i hi]
  · intro i hi; simp [hx i]; exact h.parent i hi

/-- heap-inl.h:139-141 on a represented heap whose new node has NULL cells: the node becomes position `n` -/
theorem link_rep {s : St} {f : Nat → Nat} {n x : Nat} (h : Rep s f n) (hx0 : x ≠ 0) (hx : ∀ i, f i ≠ x)
    (hl : s.m.left x = 0) (hr : s.m.right x = 0) :
    let s1 : St := { s with m := setParent s.m x (if n = 0 then 0 else f ((n - 1) / 2)) }
    let s2 := store s1 (slotOf f (n + 1)) x
    Rep { s2 with nelts := s2.nelts + 1 } (snoc f n x) (n + 1) := by
  intro s1 s2
  have hdead := h.dead
  have hlive := h.live
  have hne := @Rep.ne s f n h
  have hcases : slotOf f (n + 1) = Slot.root ∧ n = 0 ∨
      slotOf f (n + 1) = Slot.r (f ((n + 1) / 2 - 1)) ∧ n ≠ 0 ∧ (n + 1) % 2 = 1 ∨
      slotOf f (n + 1) = Slot.l (f ((n + 1) / 2 - 1)) ∧ n ≠ 0 ∧ (n + 1) % 2 = 0 := by
    unfold slotOf
    by_cases hn : n = 0
    · left; subst hn; simp
    · have hq : ¬ (n + 1 ≤ 1) := by omega
      rw [if_neg hq]
      by_cases hodd : (n + 1) % 2 = 1
      · right; left; rw [if_pos hodd]; exact ⟨rfl, hn, hodd⟩
      · right; right; rw [if_neg hodd]; exact ⟨rfl, hn, by omega⟩
  have hpx := hx ((n + 1) / 2 - 1)
  have hmin := h.min
  have hnel := h.nelts
  rcases hcases with ⟨e, hn⟩ | ⟨e, hn, hodd⟩ | ⟨e, hn, hodd⟩ <;>
  · refine ⟨?_, ?_, ?_, ?_, ?_, ?_, ?_, ?_⟩ <;> simp only [s2, s1, e, store, snoc]
    · simp [hnel]
    · grind
    · intro i hi; grind
    · intro i hi; grind
    · intro i j hi hj; have := h.inj i j; have := hx i; have := hx j; grind
    · intro i hi; have := h.left i; have := hx i
      simp only [setLeft_left, setRight_left, setParent_left]; grind
    · intro i hi; have := h.right i; have := hx i
      simp only [setLeft_right, setRight_right, setParent_right]; grind
    · intro i hi; have := h.parent i; have := hx i
      simp only [setLeft_parent, setRight_parent, setParent_parent]; grind

theorem store_nelts (s : St) (sl : Slot) (v : Nat) : (store s sl v).nelts = s.nelts := by
  cases sl <;> rfl

/-- **heap_insert refines `Heap.insert`**: for every represented heap, every fresh node and every key
assignment, the memory after the C statements represents a complete tree with `n + 1` nodes whose
level-order key array is `Heap.insert` of the array before -/
theorem insert_refines_holds : insert_refines := by
  intro ent lt s f n x hlt h hx0 hx
  have hnel : s.nelts = n := h.nelts
  subst hnel
  have hc := rep_clear h hx
  have hpc := path_correct_insert hc
  have hd := (path_correct_insert_deref hc).2
  have hlink := link_rep hc hx0 hx (by simp) (by simp)
  simp only [store_nelts] at hlink
  unfold insert
  simp only [hpc, hd, store_nelts]
  have hxs : x = snoc f s.nelts x s.nelts := by simp [snoc]
  obtain ⟨f', h1, h2⟩ := siftUp_refines ent lt hlt (s.nelts + 1) _ _ s.nelts hlink (by omega) (by omega)
  rw [← hxs] at h1
  refine ⟨f', h1, ?_⟩
  rw [h2, toArr_snoc, Heap.insert, size_toArr]

/-- heap order and "`heap_min` is a least element" transfer from `Props/C04Heap` to the pointer heap -/
theorem insert_order_holds : insert_order_transfer := by
  intro _ ent lt s f n x hlt h hx0 hx hinv
  obtain ⟨f', h1, h2⟩ := insert_refines_holds ent lt s f n x hlt h hx0 hx
  have hinv' : Heap.Inv (toArr ent f' (n + 1)) := by rw [h2]; exact Heap.insert_inv _ _ hinv
  refine ⟨f', h1, hinv', h1.min, ?_⟩
  intro j hj
  have := Heap.min_is_min _ hinv' j (by rw [size_toArr]; exact hj)
  rwa [g_toArr ent f' hj, g_toArr ent f' (by omega)] at this

/-- the sift-down loop (heap-inl.h:220-229) is `Heap.siftDown` on the level-order array; the node ends at
the position the array model reports -/
theorem siftDown_refines (ent : Nat → Heap.Ent) (lt : Nat → Nat → Bool)
    (hlt : ∀ a b, lt a b = Heap.lt (ent a) (ent b)) {n : Nat} :
    ∀ fuel (s : St) (f : Nat → Nat) (i : Nat), Rep s f n → i < n → n - i ≤ fuel →
    ∃ f', Rep (siftDown lt fuel s (f i)) f' n ∧ toArr ent f' n = (Heap.siftDown (toArr ent f n) i).1 ∧
      f' (Heap.siftDown (toArr ent f n) i).2 = f i ∧ (Heap.siftDown (toArr ent f n) i).2 < n := by
  intro fuel
  induction fuel with
  | zero => intro s f i _ _ h; omega
  | succ fuel ih =>
    intro s f i h hi hf
    have hL := h.left i hi
    have hR := h.right i hi
    have hnz := h.nz_iff
    -- the C's `smallest` is the node at the array model's `smallest`
    have hsm : (if s.m.right (f i) ≠ 0 ∧ lt (s.m.right (f i))
          (if s.m.left (f i) ≠ 0 ∧ lt (s.m.left (f i)) (f i) = true then s.m.left (f i) else f i) = true
        then s.m.right (f i)
        else (if s.m.left (f i) ≠ 0 ∧ lt (s.m.left (f i)) (f i) = true then s.m.left (f i) else f i)) =
        f (Heap.smallest (toArr ent f n) i) := by
      unfold Heap.smallest
      simp only [size_toArr, hL, hR, hlt, Ne, hnz]
      by_cases h1 : 2 * i + 1 < n
      · by_cases h2 : 2 * i + 2 < n
        · simp only [g_toArr ent f h1, g_toArr ent f h2, g_toArr ent f hi]
          by_cases c1 : Heap.lt (ent (f (2 * i + 1))) (ent (f i)) = true
          · simp only [c1, h1, h2, Nat.not_le, and_self, if_true, g_toArr ent f h1]
            split <;> simp_all
          · simp only [c1, h1, h2, Nat.not_le, and_false, if_false, true_and, g_toArr ent f hi]
            simp only [Bool.false_eq_true, if_false, g_toArr ent f hi]
            split <;> rfl
        · simp only [g_toArr ent f h1, g_toArr ent f hi, h1, h2, Nat.not_le, true_and, false_and, if_false]
          split <;> simp_all
      · have h2 : ¬ 2 * i + 2 < n := by omega
        simp [h1, h2]
    unfold siftDown
    simp only [hsm]
    rw [Heap.siftDown]
    have hcases := Heap.smallest_cases (toArr ent f n) i
    rw [size_toArr] at hcases
    by_cases hs : Heap.smallest (toArr ent f n) i = i
    · rw [dif_pos hs, hs, if_pos rfl]
      exact ⟨f, h, rfl, rfl, hi⟩
    · have hj : Heap.smallest (toArr ent f n) i < n := by omega
      have hne : f (Heap.smallest (toArr ent f n) i) ≠ f i := fun e => hs ((h.eq_iff hj).1 e)
      rw [dif_neg hs, if_neg hne]
      have hr := swap_rep (i := i) (j := Heap.smallest (toArr ent f n) i) h hj (by omega)
      have hx : exchange f i (Heap.smallest (toArr ent f n) i) (Heap.smallest (toArr ent f n) i) = f i := by
        unfold exchange; rw [if_neg hs, if_pos rfl]
      obtain ⟨f', h1, h2, h3, h4⟩ := ih _ _ (Heap.smallest (toArr ent f n) i) hr hj (by omega)
      rw [hx] at h1 h3
      rw [swap_toArr ent f hi hj] at h2 h3 h4
      exact ⟨f', h1, h2, h3, h4⟩

/-- heap-inl.h:196-206 on the node cells -/
def replaceCells (m : Mem) (node child : Nat) : Mem :=
  let m := setLeft m child (m.left node)
  let m := setRight m child (m.right node)
  let m := setParent m child (m.parent node)
  let m := setParentIf m (m.left child) child
  setParentIf m (m.right child) child

/-- heap-inl.h:196-214 -/
def replaceStep (s : St) (node child : Nat) : St :=
  let m := replaceCells s.m node child
  if m.parent node = 0 then { s with m := m, min := child }
  else if m.left (m.parent node) = node then { s with m := setLeft m (m.parent node) child }
  else { s with m := setRight m (m.parent node) child }

theorem replaceCells_left (m : Mem) (node child x : Nat) :
    (replaceCells m node child).left x = if x = child then m.left node else m.left x := by
  simp [replaceCells]

theorem replaceCells_right (m : Mem) (node child x : Nat) :
    (replaceCells m node child).right x = if x = child then m.right node else m.right x := by
  simp [replaceCells]

theorem replaceCells_parent (m : Mem) (node child x : Nat) :
    (replaceCells m node child).parent x =
      if m.right node ≠ 0 ∧ x = m.right node then child
      else if m.left node ≠ 0 ∧ x = m.left node then child
      else if x = child then m.parent node else m.parent x := by
  simp [replaceCells]

/-- the rest of `heap_remove` after the unlink when `child != node`, as the model writes it -/
theorem remove_unfold (lt : Nat → Nat → Bool) (s : St) (node : Nat) (h0 : s.nelts ≠ 0) :
    remove lt s node =
      let max := (walk s (pathLoop s.nelts s.nelts 0 0).1 (pathLoop s.nelts s.nelts 0 0).2 Slot.root Slot.root).2
      let s1 : St := { s with nelts := s.nelts - 1 }
      let child := deref s1 max
      let s2 := store s1 max 0
      if child = node then (if child = s2.min then { s2 with min := 0 } else s2) else
      let s3 := replaceStep s2 node child
      let s4 := siftDown lt (s3.nelts + 1) s3 child
      siftUp lt (s4.nelts + 1) s4 child := by
  unfold remove replaceStep replaceCells
  rw [if_neg h0]

/-- heap-inl.h:181-185: the last node in level order is unlinked -/
theorem unlink_rep {s : St} {f : Nat → Nat} {n : Nat} (h : Rep s f n) (hn : 0 < n) :
    Rep (store { s with nelts := s.nelts - 1 } (slotOf f n) 0) (fun k => if k = n - 1 then 0 else f k) (n - 1) := by
  have hdead := h.dead
  have hlive := h.live
  have hne := @Rep.ne s f n h
  have hcases : slotOf f n = Slot.root ∧ n = 1 ∨
      slotOf f n = Slot.r (f (n / 2 - 1)) ∧ n ≠ 1 ∧ n % 2 = 1 ∨
      slotOf f n = Slot.l (f (n / 2 - 1)) ∧ n ≠ 1 ∧ n % 2 = 0 := by
    unfold slotOf
    by_cases h1 : n = 1
    · left; subst h1; simp
    · have hq : ¬ (n ≤ 1) := by omega
      rw [if_neg hq]
      by_cases hodd : n % 2 = 1
      · right; left; rw [if_pos hodd]; exact ⟨rfl, h1, hodd⟩
      · right; right; rw [if_neg hodd]; exact ⟨rfl, h1, by omega⟩
  have hmin := h.min
  have hnel := h.nelts
  rcases hcases with ⟨e, h1⟩ | ⟨e, h1, hodd⟩ | ⟨e, h1, hodd⟩ <;>
  · refine ⟨?_, ?_, ?_, ?_, ?_, ?_, ?_, ?_⟩ <;> (try simp only [e, store])
    · simp [hnel]
    · grind
    · intro i hi; grind
    · intro i hi; grind
    · intro i j hi hj; have := h.inj i j; grind
    · intro i hi; have := h.left i
      (try simp only [setLeft_left, setRight_left]); grind
    · intro i hi; have := h.right i
      (try simp only [setLeft_right, setRight_right]); grind
    · intro i hi; have := h.parent i
      (try simp only [setLeft_parent, setRight_parent]); grind

/-- heap-inl.h:196-214: the unlinked node `c` takes the place of the node at position `i` -/
theorem replace_rep {s : St} {g : Nat → Nat} {n i c : Nat} (h : Rep s g n) (hi : i < n) (hc0 : c ≠ 0)
    (hc : ∀ k, g k ≠ c) : Rep (replaceStep s (g i) c) (fun k => if k = i then c else g k) n := by
  have hdead := h.dead
  have hlive := h.live
  have hne := @Rep.ne s g n h
  have hnz := h.nz_iff
  have hL := h.left i hi
  have hR := h.right i hi
  have hP := h.parent i hi
  have hci := hc i
  have hpar : (replaceCells s.m (g i) c).parent (g i) = if i = 0 then 0 else g ((i - 1) / 2) := by
    rw [replaceCells_parent, hL, hR, hP]
    have := hne hi (b := 2 * i + 1) (by omega)
    have := hne hi (b := 2 * i + 2) (by omega)
    simp [*]
  have hmin := h.min
  have hnel := h.nelts
  by_cases h0 : i = 0
  · have e : replaceStep s (g i) c = { s with m := replaceCells s.m (g i) c, min := c } := by
      simp only [replaceStep, hpar, if_pos h0, if_true]
    rw [e]
    refine ⟨hnel, ?_, ?_, ?_, ?_, ?_, ?_, ?_⟩
    · simp [h0]
    · intro k hk; grind
    · intro k hk; grind
    · intro a b ha hb; have := h.inj a b; have := hc a; have := hc b; grind
    · intro k hk; have := h.left k; have := hc k
      simp only [replaceCells_left]; grind
    · intro k hk; have := h.right k; have := hc k
      simp only [replaceCells_right]; grind
    · intro k hk; have := h.parent k; have := hc k
      simp only [replaceCells_parent, hL, hR, hP]; grind
  · have hg : (i - 1) / 2 < n := by omega
    have hgc := hc ((i - 1) / 2)
    have hgl : (replaceCells s.m (g i) c).left (g ((i - 1) / 2)) = g (2 * ((i - 1) / 2) + 1) := by
      rw [replaceCells_left, if_neg hgc, h.left _ hg]
    have hgnz : g ((i - 1) / 2) ≠ 0 := hlive _ hg
    rw [if_neg h0] at hpar
    by_cases hodd : 2 * ((i - 1) / 2) + 1 = i
    · have e : replaceStep s (g i) c =
          { s with m := setLeft (replaceCells s.m (g i) c) (g ((i - 1) / 2)) c } := by
        simp only [replaceStep, hpar, hgl, hodd, if_neg hgnz, if_true]
      rw [e]
      refine ⟨hnel, ?_, ?_, ?_, ?_, ?_, ?_, ?_⟩
      · grind
      · intro k hk; grind
      · intro k hk; grind
      · intro a b ha hb; have := h.inj a b; have := hc a; have := hc b; grind
      · intro k hk; have := h.left k; have := hc k
        simp only [setLeft_left, replaceCells_left]; grind
      · intro k hk; have := h.right k; have := hc k
        simp only [setLeft_right, replaceCells_right]; grind
      · intro k hk; have := h.parent k; have := hc k
        simp only [setLeft_parent, replaceCells_parent, hL, hR, hP]; grind
    · have hne2 : g (2 * ((i - 1) / 2) + 1) ≠ g i := Ne.symm (hne hi (Ne.symm hodd))
      have e : replaceStep s (g i) c =
          { s with m := setRight (replaceCells s.m (g i) c) (g ((i - 1) / 2)) c } := by
        simp only [replaceStep, hpar, hgl, if_neg hne2, if_neg hgnz]
      rw [e]
      refine ⟨hnel, ?_, ?_, ?_, ?_, ?_, ?_, ?_⟩
      · grind
      · intro k hk; grind
      · intro k hk; grind
      · intro a b ha hb; have := h.inj a b; have := hc a; have := hc b; grind
      · intro k hk; have := h.left k; have := hc k
        simp only [setRight_left, replaceCells_left]; grind
      · intro k hk; have := h.right k; have := hc k
        simp only [setRight_right, replaceCells_right]; grind
      · intro k hk; have := h.parent k; have := hc k
        simp only [setRight_parent, replaceCells_parent, hL, hR, hP]; grind

theorem deref_nelts (s : St) (k : Nat) (sl : Slot) : deref { s with nelts := k } sl = deref s sl := by
  cases sl <;> rfl

theorem toArr_dropLast (ent : Nat → Heap.Ent) (f : Nat → Nat) (n : Nat) :
    toArr ent (fun k => if k = n - 1 then 0 else f k) (n - 1) = (toArr ent f n).pop := by
  apply Array.ext
  · simp [toArr]
  · intro k h1 h2
    have hk : k < n - 1 := by simpa [toArr] using h1
    simp only [toArr, Array.getElem_pop, List.getElem_toArray, List.getElem_map, List.getElem_range]
    rw [if_neg (by omega)]

theorem toArr_replace (ent : Nat → Heap.Ent) (f : Nat → Nat) {n i : Nat} (hi : i < n - 1) :
    toArr ent (fun k => if k = i then f (n - 1) else if k = n - 1 then 0 else f k) (n - 1) =
      ((toArr ent f n).setIfInBounds i (Heap.g (toArr ent f n) (n - 1))).pop := by
  rw [g_toArr ent f (by omega)]
  apply Array.ext
  · simp [toArr]
  · intro k h1 h2
    have hk : k < n - 1 := by simpa [toArr] using h1
    simp only [toArr, Array.getElem_pop, Array.getElem_setIfInBounds, List.getElem_toArray, List.getElem_map,
      List.getElem_range]
    grind

/-- **heap_remove refines `Heap.remove`**: for every represented heap and every member (root, interior,
leaf, last), the memory after the C statements represents a complete tree with `n - 1` nodes whose
level-order key array is `Heap.remove` of the array before at the member's position -/
theorem remove_refines_holds : remove_refines := by
  intro ent lt s f n i hlt h hi
  have hnel : s.nelts = n := h.nelts
  subst hnel
  have hpr := path_correct_remove h (by omega)
  have hu := unlink_rep h (by omega)
  rw [remove_unfold lt s (f i) (by omega)]
  simp only [hpr.1, deref_nelts, hpr.2]
  have hsz := size_toArr ent f s.nelts
  by_cases hl : i = s.nelts - 1
  · subst hl
    rw [if_pos rfl]
    have hmin : f (s.nelts - 1) ≠ (store { s with nelts := s.nelts - 1 } (slotOf f s.nelts) 0).min := by
      rw [hu.min]
      by_cases h1 : 0 = s.nelts - 1
      · rw [if_pos h1]; exact h.live _ hi
      · rw [if_neg h1]; exact h.ne hi (by omega)
    rw [if_neg hmin]
    refine ⟨_, hu, ?_⟩
    rw [toArr_dropLast, Heap.remove_of_last _ _ (by omega) (by omega)]
  · have hi' : i < s.nelts - 1 := by omega
    have hne : f (s.nelts - 1) ≠ f i := h.ne (by omega) (by omega)
    rw [if_neg hne]
    have hnode : f i = (fun k => if k = s.nelts - 1 then 0 else f k) i := by simp [hl]
    have hc0 : f (s.nelts - 1) ≠ 0 := h.live _ (by omega)
    have hfresh : ∀ k, (fun k => if k = s.nelts - 1 then 0 else f k) k ≠ f (s.nelts - 1) := by
      intro k; simp only
      by_cases hk : k = s.nelts - 1
      · rw [if_pos hk]; exact Ne.symm hc0
      · rw [if_neg hk]; exact Ne.symm (h.ne (by omega) (Ne.symm hk))
    have hrep := replace_rep (i := i) hu hi' hc0 hfresh
    simp only [if_neg hl] at hrep
    have hn3 := hrep.nelts
    rw [hn3]
    have hx : f (s.nelts - 1) = (fun k => if k = i then f (s.nelts - 1) else
        (fun k => if k = s.nelts - 1 then 0 else f k) k) i := by simp
    obtain ⟨f3, r3, a3, p3, j3⟩ := siftDown_refines ent lt hlt (s.nelts - 1 + 1) _ _ i hrep hi' (by omega)
    simp only [if_true] at r3 p3
    rw [r3.nelts]
    obtain ⟨f4, r4, a4⟩ := siftUp_refines ent lt hlt (s.nelts - 1 + 1) _ _ _ r3 j3 (by omega)
    rw [p3] at r4
    refine ⟨f4, r4, ?_⟩
    rw [a4, a3, Heap.remove_of_lt _ _ (by omega), toArr_replace ent f hi', hsz]

/-- heap_dequeue = heap_remove of the root -/
theorem dequeue_refines (ent : Nat → Heap.Ent) (lt : Nat → Nat → Bool) (s : St) (f : Nat → Nat) (n : Nat)
    (hlt : ∀ a b, lt a b = Heap.lt (ent a) (ent b)) (h : Rep s f n) (hn : 0 < n) :
    ∃ f', Rep (dequeue lt s) f' (n - 1) ∧ toArr ent f' (n - 1) = Heap.remove (toArr ent f n) 0 := by
  unfold dequeue; rw [h.min]; exact remove_refines_holds ent lt s f n 0 hlt h hn

/-- heap order and "`heap_min` is a least element" after heap_remove of any member, transferred from
`Props/C04Heap` -/
theorem remove_order_holds (ent : Nat → Heap.Ent) (lt : Nat → Nat → Bool) (s : St) (f : Nat → Nat) (n i : Nat)
    (hlt : ∀ a b, lt a b = Heap.lt (ent a) (ent b)) (h : Rep s f n) (hi : i < n)
    (hinv : Heap.Inv (toArr ent f n)) :
    ∃ f', Rep (remove lt s (f i)) f' (n - 1) ∧ Heap.Inv (toArr ent f' (n - 1)) ∧
      (remove lt s (f i)).min = f' 0 ∧ ∀ j, j < n - 1 → Heap.lt (ent (f' j)) (ent (f' 0)) = false := by
  obtain ⟨f', h1, h2⟩ := remove_refines_holds ent lt s f n i hlt h hi
  have hinv' : Heap.Inv (toArr ent f' (n - 1)) := by rw [h2]; exact Heap.remove_inv _ _ hinv
  refine ⟨f', h1, hinv', h1.min, ?_⟩
  intro j hj
  have := Heap.min_is_min _ hinv' j (by rw [size_toArr]; exact hj)
  rwa [g_toArr ent f' hj, g_toArr ent f' (by omega)] at this

/-! ## non-vacuity: heaps built by the model's own `heap_insert` -/

def exKey : Nat → Nat := fun i => [0, 50, 30, 40, 10, 20, 35, 5].getD i 0
def exLt (a b : Nat) : Bool := exKey a < exKey b
def exEnt (i : Nat) : Heap.Ent := ⟨exKey i, 0, i⟩
def s0 : St := init ⟨⟨fun _ => 0, fun _ => 0, fun _ => 0⟩, 0, 0⟩
def exIns (l : List Nat) : St := l.foldl (insert exLt) s0
/-- node at 1-based level-order position `q`, read from the pointer memory -/
def posNode (s : St) : Nat → Nat → Nat
  | 0, _ => 0
  | fuel + 1, q => if q ≤ 1 then s.min else
      if q % 2 = 1 then s.m.right (posNode s fuel (q / 2)) else s.m.left (posNode s fuel (q / 2))
def levelOrder (s : St) : List Nat := (List.range s.nelts).map fun i => posNode s 8 (i + 1)
def arrOf (s : St) : Heap.H := ((levelOrder s).map exEnt).toArray

/-- seven inserts (keys 50 30 40 10 20 35 5: several sift-ups, one to the root through two levels) -/
example : levelOrder (exIns [1, 2, 3, 4, 5, 6, 7]) = [7, 5, 4, 1, 2, 3, 6] := by decide
/-- the pointer heap after each insert is `Heap.insert` of the array before -/
example : arrOf (exIns [1, 2, 3, 4, 5, 6, 7]) = Heap.insert (arrOf (exIns [1, 2, 3, 4, 5, 6])) (exEnt 7) := by
  decide +kernel
/-- removing an interior node (position 1, node 5) and the root -/
example : levelOrder (remove exLt (exIns [1, 2, 3, 4, 5, 6, 7]) 5) = [7, 2, 4, 1, 6, 3] ∧
    arrOf (remove exLt (exIns [1, 2, 3, 4, 5, 6, 7]) 5) = Heap.remove (arrOf (exIns [1, 2, 3, 4, 5, 6, 7])) 1 ∧
    arrOf (dequeue exLt (exIns [1, 2, 3, 4, 5, 6, 7])) = Heap.remove (arrOf (exIns [1, 2, 3, 4, 5, 6, 7])) 0 := by
  decide +kernel
/-- `heap_node_swap` on that heap: root with its right child -/
example : levelOrder (swap (exIns [1, 2, 3, 4, 5, 6, 7]) 7 4) = [4, 5, 7, 1, 2, 3, 6] := by decide

end UvModel.HeapPtr
