import UvModel.Lemmas.IoWatchLemmas
/-! C14 property theorems (see DESIGN.md §3 C14) -/
namespace UvModel.Props.C14
open UvModel.IoWatch

end UvModel.Props.C14
