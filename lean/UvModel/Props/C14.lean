import UvModel.Lemmas.IoWatchK4
/-! C14 property theorems (DESIGN.md §3 C14).  Model: UvModel.IoWatch.  `exec sc (init ..) prog` is the
state after an arbitrary program (user ops and `uv_run` iterations with arbitrary kernel batches) under
an arbitrary callback script `sc`; `SInv`/`Reach` are in Lemmas/IoWatchLemmas. -/
namespace UvModel.Props.C14
open UvModel.IoWatch

/-- every state any program reaches (from loop init) satisfies the structural invariant -/
theorem sinv_exec (sc : Script) (ring : Bool) (internal nw : Nat) (prog : List Cmd) :
    SInv (exec sc (init ring internal nw) prog) :=
  (sinv_init ring internal nw).reach (reach_exec sc _ prog)

/-- **nfds_exact**: `loop->nfds` (minus libuv's own watchers) is the number of descriptors with a
registered watcher — after any program, any script, any batches; in particular it never underflows. -/
theorem nfds_exact (sc : Script) (ring : Bool) (internal nw : Nat) (prog : List Cmd) :
    (exec sc (init ring internal nw) prog).nfds =
      (((exec sc (init ring internal nw) prog).watchers.countP Option.isSome : Nat) : Int) ∧
    0 ≤ (exec sc (init ring internal nw) prog).nfds := by
  have h := (sinv_exec sc ring internal nw prog).nfds
  exact ⟨h, by omega⟩

/-- the same inside callbacks: every state reached from an invariant state by any model function -/
theorem nfds_exact_everywhere {s t : St} (i : SInv s) (h : Reach s t) :
    t.nfds = ((t.watchers.countP Option.isSome : Nat) : Int) := (i.reach h).nfds

/-- **queue_no_dup**: a watcher is in `watcher_queue` at most once. -/
theorem queue_no_dup (sc : Script) (ring : Bool) (internal nw : Nat) (prog : List Cmd) :
    (exec sc (init ring internal nw) prog).wq.Nodup := (sinv_exec sc ring internal nw prog).nodup

set_option maxRecDepth 100000 in
example : (exec (fun _ _ => [.pstop 1]) (init false 2 14)
    [.op (.openfd 100 0), .op (.openfd 101 0), .op (.pinit 100), .op (.pinit 101), .op (.pstart 0 ⟨true, false, false, false⟩),
     .op (.pstart 1 ⟨true, true, false, false⟩), .run [[(some 100, Mask.pollin), (some 101, Mask.pollin)]]]).nfds = 1 := by
  decide

/-! ### kernel_sync_at_block -/

/-- libuv's half of **kernel_sync_at_block**, for all reachable states: when `uv__io_poll` has applied the
watcher queue (and flushed the ctl ring) — the state in which it calls `epoll_pwait` — nothing is queued
and every registered watcher's kernel mask `events` equals the requested `pevents`. -/
theorem told_at_block {s : St} (i : SInv s) : Told (flushAll (applyQueue s)) := by
  have a := applied_applyQueue s
  have f := same_flushAll (applyQueue s)
  have i' : SInv (applyQueue s) := i.applied a
  have hg : ∀ id, getW (flushAll (applyQueue s)) id = getW (applyQueue s) id := by intro id; simp [getW, f.1]
  refine ⟨by rw [f.2.2.2, a.wq], fun fd id h => ?_⟩
  have h' : watcherAt (applyQueue s) fd = some id := by simpa [watcherAt, f.2.1] using h
  rw [hg]
  by_cases he : (getW (applyQueue s) id).events = (getW (applyQueue s) id).pevents
  · exact he
  · have := i'.told fd id h' he; rw [a.wq] at this; simp at this

theorem told_at_block_exec (sc : Script) (ring : Bool) (internal nw : Nat) (prog : List Cmd) :
    Told (flushAll (applyQueue (exec sc (init ring internal nw) prog))) :=
  told_at_block (sinv_exec sc ring internal nw prog)

/-- a batch that produced no callback (`nevents == 0`, the only case in which `uv__io_poll` polls again
with a non-zero timeout, linux.c:1592-1606) leaves the registry untouched, so `Told` still holds at the
next blocking `epoll_pwait` -/
theorem dispatchOne_quiet (sc : Script) (s : St) (i : Nat) (h : (dispatchOne sc s i).2 = false) :
    Same4 s (dispatchOne sc s i).1 := by
  generalize hr : dispatchOne sc s i = r at h ⊢
  unfold dispatchOne at hr
  split at hr
  · subst hr; exact Same4.refl _
  · split at hr
    · subst hr; exact same_abort _
    · split at hr
      · subst hr; exact same_ctl _ _ _ _ _
      · simp only [] at hr
        split at hr
        · subst hr; simp at h
        · subst hr; exact Same4.refl _

theorem quiet_dispatch_same (sc : Script) (s : St) (i n : Nat) (h : (dispatchFrom sc s i n).2 = 0) :
    Same4 s (dispatchFrom sc s i n).1 := by
  induction n generalizing s i with
  | zero => exact Same4.refl _
  | succ n ih =>
    unfold dispatchFrom at h ⊢
    split
    · exact Same4.refl _
    · rename_i hab
      simp only [hab] at h
      have h1 : (dispatchOne sc s i).2 = false := by
        cases hc : (dispatchOne sc s i).2 <;> simp_all
      have h2 : (dispatchFrom sc (dispatchOne sc s i).1 (i + 1) n).2 = 0 := by
        simp at h; omega
      exact Same4.trans (dispatchOne_quiet sc s i h1) (ih _ _ h2)

theorem told_at_reblock (sc : Script) (s : St) (b : Batch) (h : Told s)
    (hq : (dispatchFrom sc { s with batch := b, inv := true } 0 b.length).2 = 0) :
    Told (flushAll { (dispatchFrom sc { s with batch := b, inv := true } 0 b.length).1 with inv := false, batch := [] }) := by
  have q := quiet_dispatch_same sc { s with batch := b, inv := true } 0 b.length hq
  generalize dispatchFrom sc { s with batch := b, inv := true } 0 b.length = r at q ⊢
  have f := same_flushAll { r.1 with inv := false, batch := [] }
  have e1 : (flushAll { r.1 with inv := false, batch := [] }).ws = s.ws := by rw [f.1]; exact q.1
  have e2 : (flushAll { r.1 with inv := false, batch := [] }).watchers = s.watchers := by rw [f.2.1]; exact q.2.1
  have e4 : (flushAll { r.1 with inv := false, batch := [] }).wq = s.wq := by rw [f.2.2.2]; exact q.2.2.2
  refine ⟨by rw [e4]; exact h.1, fun fd id hw => ?_⟩
  have : watcherAt s fd = some id := by simpa [watcherAt, e2] using hw
  have := h.2 fd id this
  simpa [getW, e1] using this

/-- the kernel's half: a successful `EPOLL_CTL_ADD`/`MOD` leaves an entry for (description, fd) with
exactly the given mask, owned by the caller -/
theorem ctl_success_entry (k : Kernel) (op : CtlOp) (fd : Nat) (m : Mask) (ow : Option Nat)
    (hop : op ≠ .del) (h : (k.ctl op fd m ow).2 = 0) :
    ∃ o, k.ofdAt fd = some o ∧ ∃ e ∈ (k.ctl op fd m ow).1.ents, e.ofd = o ∧ e.fd = fd ∧ e.mask = m ∧ e.owner = ow := by
  unfold Kernel.ctl at h ⊢
  cases ho : k.ofdAt fd with
  | none => simp [ho] at h
  | some o =>
    refine ⟨o, rfl, ?_⟩
    simp only [ho] at h ⊢
    cases op with
    | del => exact absurd rfl hop
    | add =>
      by_cases hh : k.hasEnt o fd
      · simp [hh] at h
      · simp only [hh]; exact ⟨⟨o, fd, m, ow⟩, by simp, rfl, rfl, rfl, rfl⟩
    | mod =>
      by_cases hh : k.hasEnt o fd
      · simp only [hh, if_true]
        simp [Kernel.hasEnt] at hh
        obtain ⟨e, he, h1, h2⟩ := hh
        exact ⟨{ e with mask := m, owner := ow }, by simp; exact ⟨e, he, by simp [h1, h2]⟩, h1, h2, rfl, rfl⟩
      · simp [hh] at h

/-- `EPOLL_CTL_DEL` (what `uv__platform_invalidate_fd` issues on stop/close while the descriptor is still
open) leaves no entry for (description, fd) — whether or not other references to the description exist -/
theorem ctl_del_removes (k : Kernel) (fd o : Nat) (m : Mask) (ow : Option Nat) (ho : k.ofdAt fd = some o) :
    ∀ e ∈ (k.ctl .del fd m ow).1.ents, ¬ (e.ofd = o ∧ e.fd = fd) := by
  unfold Kernel.ctl; simp only [ho]
  by_cases hh : k.hasEnt o fd
  · simp only [hh, if_true]; intro e he; simp at he; intro hc
    rcases he.2 with h1 | h1
    · exact h1 hc.1
    · exact h1 hc.2
  · simp only [hh]; intro e he hc
    apply hh; simp [Kernel.hasEnt]; exact ⟨e, he, hc.1, hc.2⟩

/-- the full invariant (registry + kernel side, Lemmas/IoWatch{Lemmas,K2,K3,Ring,Ring2,K4}) holds in
every state any program reaches, with the ctl ring on or off, whatever the kernel reports and whatever the
callbacks do (under the user discipline the model's guards encode: one live handle per descriptor, a
descriptor closed only when its handle is closed / stopped with uv_poll_stop / never started) -/
theorem finv_exec (sc : Script) (ring : Bool) (internal nw : Nat) (prog : List Cmd) :
    FInv (exec sc (init ring internal nw) prog) :=
  exec_finv sc (finv_init ring internal nw) prog

/-- **kernel_sync_at_block** for an invariant state: in the state in which `uv__io_poll` calls
`epoll_pwait` (watcher queue applied, ctl ring flushed), for every watched descriptor the kernel's interest
map has the entry of (open file description at fd, fd) with exactly the requested mask; every kernel
entry sits on a descriptor that still refers to the same description and belongs to the one live — not
closed — handle of that descriptor (a registered watcher, or a stopped-but-open one: interpretation
(iii)); and applying the queue never reaches `abort()`. -/
theorem kernel_sync_of_finv {s : St} (f : FInv s) :
    (∀ fd id, watcherAt (flushAll (applyQueue s)) fd = some id →
      ∃ o, (flushAll (applyQueue s)).k.ofdAt fd = some o ∧
        (flushAll (applyQueue s)).k.maskAt o fd = some (getW (flushAll (applyQueue s)) id).pevents) ∧
    (∀ o fd, (flushAll (applyQueue s)).k.maskAt o fd ≠ none →
      (flushAll (applyQueue s)).k.ofdAt fd = some o ∧
      ∃ id, id < (flushAll (applyQueue s)).ws.length ∧ (getW (flushAll (applyQueue s)) id).fd = fd ∧
        (getW (flushAll (applyQueue s)) id).closing = false) ∧
    (flushAll (applyQueue s)).aborted = s.aborted ∧ (flushAll (applyQueue s)).sq = [] := by
  obtain ⟨fb, hab, _, _⟩ := applyQueue_any f
  have tb := told_at_block f.si
  generalize flushAll (applyQueue s) = b at fb tb hab
  refine ⟨?_, ?_, hab, fb.kc.sq⟩
  · intro fd id h
    obtain ⟨hl, hfd⟩ := fb.si.reg fd id h
    have hev := tb.2 fd id h
    have hne : (getW b id).events ≠ Mask.none := by rw [hev]; exact fb.si.regReq fd id h
    obtain ⟨o, a1, a2⟩ := fb.kc.armed id hl hne
    rw [hfd] at a1 a2
    exact ⟨o, a1, by rw [a2, hev]⟩
  · intro o fd h
    obtain ⟨a, id, b1, b2, b3, _⟩ := fb.kc.owned o fd h
    exact ⟨a, id, b1, b2, b3⟩

/-- **kernel_sync_at_block**, unconditional: at the `epoll_pwait` of the next loop iteration after *any*
program (any ops, any callback script, any kernel batches, ring on or off): the kernel's interest map
agrees with the watched set with exact masks, and no entry belongs to a closed handle or to a descriptor
number that meanwhile refers to another open file. -/
theorem kernel_sync_at_block (sc : Script) (ring : Bool) (internal nw : Nat) (prog : List Cmd) :
    let b := flushAll (applyQueue (exec sc (init ring internal nw) prog))
    (∀ fd id, watcherAt b fd = some id →
      ∃ o, b.k.ofdAt fd = some o ∧ b.k.maskAt o fd = some (getW b id).pevents) ∧
    (∀ o fd, b.k.maskAt o fd ≠ none →
      b.k.ofdAt fd = some o ∧ ∃ id, id < b.ws.length ∧ (getW b id).fd = fd ∧ (getW b id).closing = false) := by
  have := kernel_sync_of_finv (finv_exec sc ring internal nw prog)
  exact ⟨this.1, this.2.1⟩

set_option maxRecDepth 100000 in
/-- non-vacuity: a watched descriptor and its kernel entry after a program run through the ctl ring -/
example :
    let b := flushAll (applyQueue (exec (fun _ _ => []) (init true 2 14)
      [.op (.openfd 100 0), .op (.pinit 100), .op (.pstart 0 ⟨true, false, true, false⟩)]))
    watcherAt b 100 = some 0 ∧ b.k.maskAt 0 100 = some ⟨true, false, false, false, false, true⟩ ∧ b.sq = [] := by
  decide

/-- the same holds at every later blocking `epoll_pwait` inside the iteration: those only follow batches
without callbacks (`told_at_reblock`), and every intermediate state of the poll loop satisfies `FInv`
(`pollLoop_finv`); and user operations / callbacks never make libuv `abort()` -/
theorem no_abort_in_callbacks (sc : Script) (s : St) (ops : List Op) (id : Nat) (ev : Mask) :
    (execOps s ops).aborted = s.aborted ∧ (deliver sc s id ev).aborted = s.aborted :=
  ⟨execOps_ab s ops, deliver_ab sc s id ev⟩

/-- **ring ≡ direct**: from any invariant state, applying the watcher queue through the io_uring ctl ring
(256-slot submission batching, EEXIST retries at flush time) and applying it with direct `epoll_ctl`
calls leave the *same* kernel interest map (and descriptor table) at `epoll_pwait`. -/
theorem ring_eq_direct_of_finv {s : St} (f : FInv s) :
    (∀ g, (flushAll (applyQueue { s with ring := true })).k.ofdAt g =
          (flushAll (applyQueue { s with ring := false })).k.ofdAt g) ∧
    (∀ o g, (flushAll (applyQueue { s with ring := true })).k.maskAt o g =
            (flushAll (applyQueue { s with ring := false })).k.maskAt o g) := by
  have fr : FInv { s with ring := true } := f.same rfl rfl rfl rfl rfl rfl rfl
  have fd : FInv { s with ring := false } := f.same rfl rfl rfl rfl rfl rfl rfl
  obtain ⟨_, _, ka, _⟩ := applyQueue_any fr
  obtain ⟨_, _, kb, _⟩ := applyQueue_any fd
  have sa := kernel_sync_of_finv fr
  have sb := kernel_sync_of_finv fd
  have ra := applied_applyQueue { s with ring := true }
  have rb := applied_applyQueue { s with ring := false }
  have wa := (same_flushAll (applyQueue { s with ring := true })).2.1
  have wb := (same_flushAll (applyQueue { s with ring := false })).2.1
  have ga := (same_flushAll (applyQueue { s with ring := true })).1
  have gb := (same_flushAll (applyQueue { s with ring := false })).1
  generalize flushAll (applyQueue { s with ring := true }) = a at *
  generalize flushAll (applyQueue { s with ring := false }) = b at *
  have hka : KFrame s.k a.k (s.wq.map fun x => (getW s x).fd) := ka
  have hkb : KFrame s.k b.k (s.wq.map fun x => (getW s x).fd) := kb
  refine ⟨fun g => by rw [hka.1, hkb.1], fun o g => ?_⟩
  by_cases hg : g ∈ s.wq.map fun x => (getW s x).fd
  · obtain ⟨id, hid, hfd⟩ := List.mem_map.mp hg
    obtain ⟨hl, hp⟩ := f.kc.queued id hid
    have hw := (f.kc.live id hl hp).2.2.2
    rw [hfd] at hw
    have hwa : watcherAt a g = some id := by
      simp only [watcherAt, wa, ra.watchers]; exact hw
    have hwb : watcherAt b g = some id := by
      simp only [watcherAt, wb, rb.watchers]; exact hw
    obtain ⟨oa, a1, a2⟩ := sa.1 g id hwa
    obtain ⟨ob, b1, b2⟩ := sb.1 g id hwb
    have pa : (getW a id).pevents = (getW s id).pevents := by
      have : getW a id = getW (applyQueue { s with ring := true }) id := by simp [getW, ga]
      rw [this, ra.pev]; rfl
    have pb : (getW b id).pevents = (getW s id).pevents := by
      have : getW b id = getW (applyQueue { s with ring := false }) id := by simp [getW, gb]
      rw [this, rb.pev]; rfl
    have hoo : oa = ob := by
      rw [hka.1] at a1; rw [hkb.1] at b1; rw [a1] at b1; simpa using b1
    subst hoo
    by_cases ho : o = oa
    · subst ho; rw [a2, b2, pa, pb]
    · have na : a.k.maskAt o g = none := by
        cases hm : a.k.maskAt o g with
        | none => rfl
        | some x =>
          have := (sa.2.1 o g (by rw [hm]; simp)).1
          rw [a1] at this; simp at this; exact absurd this.symm ho
      have nb : b.k.maskAt o g = none := by
        cases hm : b.k.maskAt o g with
        | none => rfl
        | some x =>
          have := (sb.2.1 o g (by rw [hm]; simp)).1
          rw [b1] at this; simp at this; exact absurd this.symm ho
      rw [na, nb]
  · rw [hka.2 o g hg, hkb.2 o g hg]

/-- ring ≡ direct after any program -/
theorem ring_eq_direct (sc : Script) (ring : Bool) (internal nw : Nat) (prog : List Cmd) (o g : Nat) :
    (flushAll (applyQueue { exec sc (init ring internal nw) prog with ring := true })).k.maskAt o g =
    (flushAll (applyQueue { exec sc (init ring internal nw) prog with ring := false })).k.maskAt o g :=
  (ring_eq_direct_of_finv (finv_exec sc ring internal nw prog)).2 o g

/-- **negative result** (model agrees with the code, replayed on the real library and kernel by
`corpus/C14-findings/second_handle.txt`): without the "one handle per descriptor" discipline the
kernel half of kernel_sync is FALSE.  Two `uv_poll_t` are initialised on descriptor 100 (allowed: `uv_poll_init`
only refuses while a watcher is *registered*), the second is started and registered with the kernel, then
`uv_poll_stop` on the first — which was never started — issues `EPOLL_CTL_DEL` for the shared descriptor
(poll.c:102-108 → linux.c:731).  Afterwards handle 1 is still active and registered with `events = pevents`,
nothing is queued, and the kernel's interest list is empty: it will never be called again. -/
theorem kernel_sync_fails_with_second_handle :
    ∃ (prog : List Cmd),
      let s := exec (fun _ _ => []) { init false 2 14 with multi := true } prog
      s.aborted = false ∧ watcherAt s 100 = some 1 ∧ (getW s 1).active = true ∧
      (getW s 1).events = Mask.pollin ∧ (getW s 1).pevents = Mask.pollin ∧ s.wq = [] ∧ s.k.ents = [] := by
  refine ⟨[.op (.openfd 100 0), .op (.pinit 100), .op (.pinit 100), .op (.pstart 1 ⟨true, false, false, false⟩),
           .run [], .op (.pstop 0)], ?_⟩
  set_option maxRecDepth 100000 in decide

/-! ### only_requested -/

/-- **only_requested** (mask level, linux.c:1536-1555): what a watcher callback receives is within
requested ∪ {ERR, HUP}; it is non-empty only if the batch entry carried a requested bit or ERR/HUP. -/
theorem only_requested (pev m : Mask) :
    (filterEv pev m).sub (pev.or Mask.errhup) ∧
    (filterEv pev m ≠ Mask.none → m.and (pev.or Mask.errhup) ≠ Mask.none) := by
  unfold filterEv; simp only []
  constructor
  · split
    · rename_i h
      rcases h with h | h <;> rw [h] <;> cases pev <;>
        simp [Mask.sub, Mask.and, Mask.or, Mask.errhup, Mask.errOnly, Mask.hupOnly, Mask.all4]
    · cases pev; cases m; simp [Mask.sub, Mask.and, Mask.or, Mask.errhup]
  · split
    · rename_i h; intro _
      rcases h with h | h <;> rw [h] <;> simp [Mask.errOnly, Mask.hupOnly, Mask.none]
    · exact id

/-- **only_requested** for uv_poll (poll.c:53-63): a status-0 poll callback reports a subset of the
events passed to `uv_poll_start` -/
theorem only_requested_poll (u : UvEv) (m : Mask) :
    (pollToUv (filterEv (uvToPoll u) m)).sub u := by
  unfold filterEv; simp only []
  split
  · rename_i h
    rcases h with h | h <;> rw [h] <;> cases u <;>
      simp [UvEv.sub, pollToUv, uvToPoll, Mask.and, Mask.or, Mask.errOnly, Mask.hupOnly, Mask.all4]
  · cases u; cases m
    simp [UvEv.sub, pollToUv, uvToPoll, Mask.and, Mask.or, Mask.errhup]
    repeat' constructor
    all_goals (intro h; exact h.2)

example : filterEv (uvToPoll ⟨true, false, false, false⟩) ⟨true, false, true, false, true, false⟩
    = ⟨true, false, false, false, true, false⟩ := by decide

/-- a callback is made only for the watcher registered under the batch entry's descriptor, with the
filtered mask of *that* entry -/
theorem dispatch_callback_spec (sc : Script) (s : St) (i : Nat) (h : (dispatchOne sc s i).2 = true) :
    ∃ fd m id, s.batch.getD i (none, Mask.none) = (some fd, m) ∧ watcherAt s fd = some id ∧
      filterEv (getW s id).pevents m ≠ Mask.none ∧
      (dispatchOne sc s i).1 = deliver sc s id (filterEv (getW s id).pevents m) := by
  generalize hr : dispatchOne sc s i = r at h ⊢
  unfold dispatchOne at hr
  split at hr
  · subst hr; simp at h
  · rename_i fd m heq
    split at hr
    · subst hr; simp at h
    · split at hr
      · subst hr; simp at h
      · rename_i id hw
        simp only [] at hr
        split at hr
        · rename_i hne; subst hr; exact ⟨fd, m, id, heq, hw, hne, rfl⟩
        · subst hr; simp at h

/-! ### silence_after_stop_close -/

/-- when `uv_poll_stop` / `uv_close` (poll) / `uv__io_close` returns, the watcher is registered under no
descriptor; `dispatch_callback_spec` then says no batch entry can reach it -/
theorem stop_unregisters {s : St} (i : SInv s) (id : Nat) : Unreg (ioStop s id Mask.all4) id := by
  intro fd h
  have i' := i.stop id Mask.all4
  have hfd := (i'.reg fd id h).2
  have hne := i'.regReq fd id h
  obtain ⟨hg, _, _, ha, _⟩ := ioStop_spec s id Mask.all4
  have hd : (getW s id).pevents.diff Mask.all4 = Mask.none := by
    have := i.mask4 id
    cases hp : (getW s id).pevents
    rw [hp] at this; simp at this
    simp [Mask.diff, Mask.all4, Mask.none, this]
  rw [hg] at hne
  split at hne
  · simp [hd] at hne
  · -- never started: it is not registered in `s` either
    rename_i hc
    rw [ha] at h
    split at h
    · simp at h
    · have r := i.reg fd id h
      apply hc
      refine ⟨rfl, r.1, ?_⟩
      rw [r.2]; exact watcherAt_lt h

theorem unreg_kept {s t : St} (k : Same4 s t) (id : Nat) (h : Unreg s id) : Unreg t id := by
  intro fd; have := h fd; simpa [watcherAt, k.2.1] using this

theorem invalidate_watchers (t : St) (fd : Nat) : (invalidate t fd).watchers = t.watchers :=
  (same_invalidate t fd).2.1

theorem pollStop_watchers (s : St) (id : Nat) : (pollStop s id).watchers = (ioStop s id Mask.all4).watchers := by
  unfold pollStop; simp only [setW, invalidate_watchers]

theorem ioClose_watchers (s : St) (id : Nat) : (ioClose s id).watchers = (ioStop s id Mask.all4).watchers := by
  unfold ioClose; simp only [setW, invalidate_watchers]

theorem pollStop_unregisters {s : St} (i : SInv s) (id : Nat) : Unreg (pollStop s id) id := by
  intro fd; have := stop_unregisters i id fd
  simpa only [watcherAt, pollStop_watchers] using this

theorem pollClose_unregisters {s : St} (i : SInv s) (id : Nat) : Unreg (pollClose s id) id := by
  intro fd; have := pollStop_unregisters i id fd
  simpa only [watcherAt, pollClose, setW] using this

theorem ioClose_unregisters {s : St} (i : SInv s) (id : Nat) : Unreg (ioClose s id) id := by
  intro fd; have := stop_unregisters i id fd
  simpa only [watcherAt, ioClose_watchers] using this

/-- an unregistered watcher stays unregistered through every step except its own `uv__io_start`
(i.e. until the user starts it again) -/
theorem unreg_step {s t : St} (id : Nat) (h : Unreg s id) (st : Step s t) :
    Unreg t id ∨ ∃ m, t = ioStart s id m := by
  cases st with
  | kept k => left; intro fd; have := h fd; simpa [watcherAt, k.watchers] using this
  | applied a => left; intro fd; have := h fd; simpa [watcherAt, a.watchers] using this
  | stop j m =>
    left; intro fd
    rw [(ioStop_spec s j m).2.2.2.1 fd]
    split
    · simp
    · exact h fd
  | start j m hj _ _ _ =>
    by_cases e : j = id
    · right; exact ⟨m, by rw [e]⟩
    · left; intro fd
      rw [(ioStart_spec s j m hj).2.2.2.1 fd]
      split
      · intro hc; simp at hc; exact e hc
      · exact h fd

/-- **silence_after_stop_close**, batch part (linux.c:711-715): stopping or closing a watcher while a
batch is being dispatched erases every remaining entry of that descriptor number — so neither the
stopped handle nor a new handle started on the re-used number inside the same batch sees the stale event -/
theorem invalidate_erases (s : St) (fd : Nat) (h : s.inv = true) :
    ∀ e ∈ (invalidate s fd).batch, e.1 ≠ some fd := by
  unfold invalidate; simp only [h, if_true]
  intro e he
  have : e ∈ s.batch.map fun e => if e.1 = some fd then (none, e.2) else e := he
  simp at this
  obtain ⟨a, b, _, hab⟩ := this
  split at hab
  · rw [← hab]; simp
  · rw [← hab]; assumption

theorem pollStop_erases (s : St) (id : Nat) (h : s.inv = true) :
    ∀ e ∈ (pollStop s id).batch, e.1 ≠ some (getW s id).fd := by
  generalize hs1 : setW (ioStop s id Mask.all4) id { getW (ioStop s id Mask.all4) id with active := false } = s1
  have hb : (pollStop s id).batch = (invalidate s1 (getW s1 id).fd).batch := by
    rw [← hs1]; unfold pollStop; rfl
  have hinv : s1.inv = true := by
    rw [← hs1]; show (ioStop s id Mask.all4).inv = true
    unfold ioStop; simp only []; repeat' split
    all_goals simpa [setW] using h
  have hfd : (getW s1 id).fd = (getW s id).fd := by
    rw [← hs1, getW_setW]
    have := (ioStop_spec s id Mask.all4).1 id
    split
    · show (getW (ioStop s id Mask.all4) id).fd = _
      rw [this]; repeat' split
      all_goals rfl
    · rw [this]; repeat' split
      all_goals rfl
  intro e he
  rw [hb] at he
  rw [← hfd]; exact invalidate_erases s1 _ hinv e he

/-! ### persistent_reporting -/

/-- **persistent_reporting** (level-triggered): whenever the batch reports a requested bit for a
registered watcher, the callback is made in this very iteration and carries every requested bit that was
reported; together with `told_at_block` (the kernel keeps being asked for exactly `pevents`, and libuv
never sets EPOLLET/EPOLLONESHOT) a persisting condition is reported in every iteration. -/
theorem persistent_reporting (sc : Script) (s : St) (i fd id : Nat) (m : Mask)
    (hb : s.batch.getD i (none, Mask.none) = (some fd, m)) (hw : watcherAt s fd = some id)
    (hr : m.and (getW s id).pevents ≠ Mask.none) :
    dispatchOne sc s i = (deliver sc s id (filterEv (getW s id).pevents m), true) ∧
    (m.and (getW s id).pevents).sub (filterEv (getW s id).pevents m) := by
  have hlt := watcherAt_lt hw
  have hsub : (m.and (getW s id).pevents).sub (filterEv (getW s id).pevents m) ∧
      filterEv (getW s id).pevents m ≠ Mask.none := by
    generalize (getW s id).pevents = pev at hr ⊢
    unfold filterEv; simp only []
    split
    · rename_i h
      constructor
      · rcases h with h | h <;> rw [h] <;> cases pev <;> cases m <;>
          simp [Mask.sub, Mask.and, Mask.or, Mask.errOnly, Mask.hupOnly, Mask.all4] <;> simp_all [Mask.and, Mask.or, Mask.errhup, Mask.errOnly, Mask.hupOnly]
      · rcases h with h | h <;> rw [h] <;> cases pev <;>
          simp [Mask.or, Mask.and, Mask.errOnly, Mask.hupOnly, Mask.none]
    · constructor
      · cases pev; cases m; simp [Mask.sub, Mask.and, Mask.or, Mask.errhup]
        repeat' constructor
        all_goals (intro h; simp_all)
      · intro hc; apply hr
        cases pev; cases m
        simp [Mask.and, Mask.or, Mask.errhup, Mask.none] at hc ⊢
        simp_all
  refine ⟨?_, hsub.1⟩
  unfold dispatchOne
  simp only [hb]
  rw [if_neg (by omega)]
  simp only [hw]
  rw [if_pos hsub.2]

example : (dispatchOne (fun _ _ => []) { (exec (fun _ _ => []) (init false 2 14)
    [.op (.openfd 100 0), .op (.pinit 100), .op (.pstart 0 ⟨true, false, false, false⟩)]) with
      batch := [(some 100, Mask.pollin)], inv := true } 0).2 = true := by decide

end UvModel.Props.C14
