import UvModel.Lemmas.TpoolLemmas
namespace UvModel.Tpool
end UvModel.Tpool
