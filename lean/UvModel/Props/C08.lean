import UvModel.Lemmas.TpoolLemmas
import UvModel.Generated.C08Kinds
/-!
# C08 — thread-pool requests: run once, complete once on the loop, cancel is exact, slow cap

Model: `UvModel.Tpool` (interleaving transition system over src/threadpool.c at critical-section
granularity).  `Reach n L s`: `s` is reachable from the initial pool of `n` workers and `L` loops by
an arbitrary action list = every interleaving of submitters, workers, `uv_cancel` calls and
`uv__work_done` passes, with arbitrary signal choices and spurious wake-ups.  Events (`Ev.ws` work
function entered, `Ev.we` returned, `Ev.dn i st` done callback with status, `Ev.ret v` result of
`uv_cancel`) are what the correspondence check compares with the real code step by step.
-/
namespace UvModel.Tpool

/-- The work function of a request starts at most once, in every reachable state. -/
theorem runs_at_most_once {n L : Nat} {s : State} (hr : Reach n L s) {i : Nat} (hi : i < s.nItems) :
    (s.items i).starts ≤ 1 := by
  have a := (inv_reach hr).itemOk i hi
  simp only [ItemOk] at a
  split at a <;> omega

example : Reach 2 1 (run (State.init 2 1) [.sub 0 .cpu 0, .wk 0 0, .wk 0 0, .wk 0 0]) ∧
    ((run (State.init 2 1) [.sub 0 .cpu 0, .wk 0 0, .wk 0 0, .wk 0 0]).items 0).starts = 1 :=
  ⟨⟨_, rfl⟩, by decide⟩

/-- A work function is entered only by a pool worker (`t < n`) that dequeued exactly this item, only if it
    never started before and no `uv_cancel` returned 0 for it; the start counter then becomes 1. -/
theorem work_starts_only_on_worker {n L : Nat} {s s' : State} {a : Act} {evs : List Ev} (hr : Reach n L s)
    (e : step s a = some (s', evs)) {i : Nat} (hw : Ev.ws i ∈ evs) :
    (∃ t c b, a = .wk t c ∧ t < s.n ∧ s.workers t = .got i b) ∧ (s.items i).starts = 0 ∧
      (s.items i).cancelOk = false ∧ (s'.items i).starts = 1 := by
  obtain ⟨t, c, b, h1, h2, h3, h4, h5, h6, -⟩ := work_start_sound (inv_reach hr) e hw
  have := (counters_frame e i h4).1 hw
  exact ⟨⟨t, c, b, h1, h2, h3⟩, h5, h6, by omega⟩

/-- In every reachable state a request has had at most one done callback; if it had one, the status is
    `UV_ECANCELED` exactly when a `uv_cancel` returned 0 (and then the work function never ran), otherwise
    the work function ran once, returned, and the status is 0. -/
theorem done_at_most_once {n L : Nat} {s : State} (hr : Reach n L s) {i : Nat} (hi : i < s.nItems) :
    (s.items i).dones ≤ 1 ∧
    ((s.items i).dones = 1 →
      ((s.items i).cancelOk = true ∧ (s.items i).status = ECANCELED ∧ (s.items i).starts = 0) ∨
      ((s.items i).cancelOk = false ∧ (s.items i).status = 0 ∧ (s.items i).starts = 1 ∧
        (s.items i).returned = true)) := by
  have a := (inv_reach hr).itemOk i hi
  simp only [ItemOk] at a
  split at a <;> grind

/-- safety half of `done_exactly_once_after_work`: a done callback is made only by the owning loop's
    `uv__work_done` (action `go` of that loop), never for a request that already had one, and only after the work
    function returned (status 0) or after `uv_cancel` returned 0 (status `UV_ECANCELED`, work never started). -/
theorem done_only_after_work_on_owning_loop {n L : Nat} {s s' : State} {a : Act} {evs : List Ev}
    (hr : Reach n L s) (e : step s a = some (s', evs)) {i : Nat} {st : Int} (hd : Ev.dn i st ∈ evs) :
    a = .go (s.items i).loop ∧ (s.items i).dones = 0 ∧ (s'.items i).dones = 1 ∧
      (((s.items i).returned = true ∧ (s.items i).starts = 1 ∧ (s.items i).cancelOk = false ∧ st = 0) ∨
       ((s.items i).cancelOk = true ∧ (s.items i).starts = 0 ∧ (s.items i).returned = false ∧
         st = ECANCELED)) := by
  obtain ⟨h1, h2, h3, h4⟩ := done_sound (inv_reach hr) e hd
  have := (counters_frame e i h2).2.2.1 ⟨st, hd⟩
  exact ⟨h1, h3, by omega, h4⟩

/-- `cancel_exact`, first locked region of `uv__work_cancel`: the decision is "cancelled" iff the request sits in
    a queue (global, slow-I/O, or the loop's completion queue as an already cancelled request) and has not
    started; then it is unlinked from every work queue.  Otherwise nothing changes. -/
theorem cancel_exact {n L : Nat} {s s' : State} {l i : Nat} {evs : List Ev} (hr : Reach n L s)
    (e : step s (.can l i) = some (s', evs)) :
    ∃ ok, (s'.loops l).cmid = some (i, ok) ∧ (ok = true ↔ QueuedNotStarted s i) ∧
      (ok = true → (s.items i).starts = 0 ∧ Ent.item i ∉ s'.wq ∧ i ∉ s'.sq ∧ (s'.items i).starts = 0) ∧
      (ok = false → s'.items = s.items ∧ s'.wq = s.wq ∧ s'.sq = s.sq ∧ s'.workers = s.workers ∧
        s'.slowRun = s.slowRun ∧ s'.idle = s.idle ∧ (s'.loops l).q = (s.loops l).q ∧
        (s'.loops l).lq = (s.loops l).lq ∧ (s'.loops l).async = (s.loops l).async ∧
        ∀ l', l' ≠ l → s'.loops l' = s.loops l') :=
  cancel_region1 (inv_reach hr) e

/-- `cancel_exact`, the rest of `uv__work_cancel`: it returns 0 iff the first region decided "cancelled" (then the
    request is queued for its loop as cancelled and the loop is woken) and `UV_EBUSY` otherwise, changing nothing. -/
theorem cancel_returns {s s' : State} {l i : Nat} {ok : Bool} {evs : List Ev}
    (e : step s (.go l) = some (s', evs)) (hc : (s.loops l).cmid = some (i, ok)) :
    (∀ v, Ev.ret v ∈ evs ↔ v = (if ok then 0 else EBUSY)) ∧
    (ok = true → (s'.items i).cancelOk = true ∧ (s'.items i).work = .cancelled ∧ i ∈ (s'.loops l).q ∧
      (s'.loops l).async = true ∧ (s'.items i).starts = (s.items i).starts) ∧
    (ok = false → s'.items = s.items ∧ s'.wq = s.wq ∧ s'.sq = s.sq ∧ s'.workers = s.workers ∧
      s'.slowRun = s.slowRun ∧ s'.idle = s.idle ∧ (s'.loops l).q = (s.loops l).q ∧
      (s'.loops l).lq = (s.loops l).lq) :=
  cancel_region2 e hc

/-- `cancel_exact`, the future: once `uv_cancel` returned 0 for a request, in every later state of every
    continuation its work function has never started and, if its callback ran, the status is `UV_ECANCELED`. -/
theorem cancelled_never_runs {n L : Nat} {s : State} (hr : Reach n L s) {i : Nat} (hi : i < s.nItems)
    (hc : (s.items i).cancelOk = true) (as : List Act) :
    ((run s as).items i).starts = 0 ∧ ((run s as).items i).returned = false ∧
    (((run s as).items i).dones = 1 → ((run s as).items i).status = ECANCELED) := by
  obtain ⟨hi', hc'⟩ := cancelOk_run as hi hc
  have a := (inv_reach (reach_run hr as)).itemOk i hi'
  simp only [ItemOk] at a
  split at a <;> grind

-- cancel of a queued item returns 0, cancel of a running item returns UV_EBUSY
example : ((step (run (State.init 1 1) [.sub 0 .cpu 0, .sub 0 .slow 0, .wk 0 0, .can 0 1]) (.go 0)).map
      (fun r => r.2.any (fun | .ret v => v == 0 | _ => false))) = some true ∧
    ((step (run (State.init 1 1) [.sub 0 .cpu 0, .sub 0 .slow 0, .wk 0 0, .can 0 0]) (.go 0)).map
      (fun r => r.2.any (fun | .ret v => v == EBUSY | _ => false))) = some true := by decide

/-- `slow_cap`: `slow_io_work_running` equals the number of workers occupied by slow I/O (from the dequeue of a
    slow item until the decrement at :137), never underflows and never exceeds (n+1)/2. -/
theorem slow_cap {n L : Nat} {s : State} (hr : Reach n L s) :
    s.slowRun = cnt isSlow s.workers s.n ∧ 0 ≤ s.slowRun ∧ s.slowRun ≤ ((s.n + 1) / 2 : Nat) := by
  have h := inv2_reach hr
  exact ⟨h.slowEq, by rw [h.slowEq]; omega, h.slowLe⟩

/-- `idle_threads` equals the number of workers inside `uv_cond_wait` (:76-78). -/
theorem idle_exact {n L : Nat} {s : State} (hr : Reach n L s) :
    s.idle = cnt isIdle s.workers s.n := (inv2_reach hr).idleEq

-- two workers: the second slow request has to wait while one worker runs the first (cap = 1)
example : (run (State.init 2 1) [.sub 0 .slow 0, .sub 0 .slow 0, .wk 0 0, .wk 1 0]).slowRun = 1 ∧
    (run (State.init 2 1) [.sub 0 .slow 0, .sub 0 .slow 0, .wk 0 0, .wk 1 0]).workers 1 = .waiting ∧
    (run (State.init 2 1) [.sub 0 .slow 0, .sub 0 .slow 0, .wk 0 0, .wk 1 0]).sq = [1] := by decide

/-- `fast_not_starved`: with two or more workers, slow I/O never occupies all of them, so at every moment some
    worker is either free or busy with non-slow work and will take queued fast work without any slow request
    having to finish. -/
theorem fast_not_starved {n L : Nat} {s : State} (hr : Reach n L s) (h2 : 2 ≤ s.n) :
    ∃ t, t < s.n ∧ isSlow (s.workers t) = false := by
  obtain ⟨e, -, le⟩ := slow_cap hr
  apply cnt_lt_exists
  have : ((cnt isSlow s.workers s.n : Nat) : Int) ≤ ((s.n + 1) / 2 : Nat) := by rw [← e]; exact le
  omega

/-- `marker_unique`: `run_slow_work_message` is in the global queue at most once (and no request twice). -/
theorem marker_unique {n L : Nat} {s : State} (hr : Reach n L s) :
    s.wq.count .marker ≤ 1 ∧ s.wq.Nodup := by
  have h := (inv_reach hr).wqNd
  exact ⟨List.nodup_iff_count.mp h _, h⟩

/-- part of `no_stuck_state`: pending slow requests always have their marker in the global queue, completed or
    cancelled requests waiting in a loop's queue always have that loop's async pending (the wake-up itself is
    C09's guarantee), and the locked loop of `worker()` always terminates (the model's fuel is never exhausted). -/
theorem nothing_stranded {n L : Nat} {s : State} (hr : Reach n L s) :
    (s.sq ≠ [] → Ent.marker ∈ s.wq) ∧ (∀ l, (s.loops l).q ≠ [] → (s.loops l).async = true) ∧
    (∀ r, dqLoop (threshold s.n) r (dqFuel s.wq) s.wq s.sq ≠ .fuel) := by
  have h := inv3_reach hr
  exact ⟨h.markerFor, h.asyncFor, fun r => dq_fuel _ _ _ _ _ (inv_reach hr).wqNd (by simp [dqFuel])⟩

/-- a queued request is where the queues say it is: every submitted, not yet reported request is in exactly the
    place its ghost location names (used by the monitors' reading of the dumps) -/
theorem queued_requests_are_not_lost {n L : Nat} {s : State} (hr : Reach n L s) {i : Nat} (hi : i < s.nItems)
    (hd : (s.items i).dones = 0) :
    Ent.item i ∈ s.wq ∨ i ∈ s.sq ∨ (∃ t, (s.workers t).gotItem = some i ∨ (s.workers t).inwItem = some i) ∨
    i ∈ (s.loops (s.items i).loop).q ∨ i ∈ (s.loops (s.items i).loop).lq ∨
    (s.loops (s.items i).loop).cmid = some (i, true) := by
  have h := inv_reach hr
  have a := h.itemOk i hi
  have r1 := h.wqRev i hi; have r2 := h.sqRev i hi; have r3 := h.lqRev i hi; have r4 := h.cmRev i hi
  have r5 := h.gotRev i; have r6 := h.inwRev i
  simp only [ItemOk] at a
  split at a <;> grind

/-- `no_stuck_state` (liveness half of `done_exactly_once_after_work`, as a safety invariant = no lost wake-up):
    whenever the global queue holds something a worker may take (it is non-empty and not just the slow marker at
    the cap), some worker is not parked in `uv_cond_wait` — it has been signalled (its dequeue step is enabled),
    is starting, or is busy with a request and will re-examine the queue when done.  Spurious wake-ups are not
    needed for progress.  Together with `nothing_stranded` (slow requests keep their marker; completions keep their
    loop's async pending) and C09 (a pending async wakes the loop) every queued request is eventually served
    under the fairness assumption "every enabled step is eventually taken". -/
theorem no_stuck_state {n L : Nat} {s : State} (h1 : 1 ≤ n) (hr : Reach n L s)
    (tk : s.wq ≠ [] ∧ ¬(s.wq = [.marker] ∧ s.slowRun ≥ threshold s.n)) :
    ∃ t, t < s.n ∧ s.workers t ≠ .waiting :=
  (inv5_reach h1 hr).1 tk

-- all workers parked, then a submit: the signal un-parks one of them
example : (run (State.init 2 1) [.wk 0 0, .wk 1 0]).workers 0 = .waiting ∧
    (run (State.init 2 1) [.wk 0 0, .wk 1 0]).workers 1 = .waiting ∧
    (run (State.init 2 1) [.wk 0 0, .wk 1 0, .sub 0 .cpu 1]).workers 1 = .woken ∧
    (run (State.init 2 1) [.wk 0 0, .wk 1 0, .sub 0 .cpu 1]).wq = [.item 0] := by decide

/-- `loop_alive_until_done`: a loop's `active_reqs` (registered at submit, unregistered by `uv__queue_done` at
    threadpool.c:360 inside `uv__work_done`, before the user's callback) equals the number of that loop's requests
    whose callback has not run yet; hence it is positive — the loop is alive — from submit until the request's own
    done callback.  (The dump taken inside the callback shows the already decremented count on both sides of the
    correspondence, which pins the unregister-before-callback order.) -/
theorem loop_alive_until_done {n L : Nat} {s : State} (hr : Reach n L s) :
    (∀ l, (s.loops l).reqs = cnt (pend l) s.items s.nItems) ∧
    (∀ i, i < s.nItems → (s.items i).dones = 0 → 0 < (s.loops (s.items i).loop).reqs) := by
  have h := inv4_reach hr
  refine ⟨h, fun i hi hd => ?_⟩
  rw [h]
  exact_mod_cast cnt_pos (pend (s.items i).loop) s.items s.nItems i hi (by simp [pend, hd])

-- two requests on loop 0, one cancelled and reported: one registration left, and it is the unreported request's
example : ((run (State.init 1 1) [.sub 0 .cpu 0, .sub 0 .slow 0, .can 0 1, .go 0, .drn 0, .go 0]).loops 0).reqs = 1 ∧
    ((run (State.init 1 1) [.sub 0 .cpu 0, .sub 0 .slow 0, .can 0 1, .go 0, .drn 0, .go 0]).items 1).dones = 1 ∧
    ((run (State.init 1 1) [.sub 0 .cpu 0, .sub 0 .slow 0, .can 0 1, .go 0, .drn 0, .go 0]).items 0).dones = 0 := by
  decide

/-! ## the callers' choice of work kind (Tie A: `Generated.callerKinds` is re-extracted from every
`uv__work_submit(` call site of the working tree on each run of the check) -/

/-- Every caller passes a compile-time constant kind, and exactly these: file operations are fast I/O, name
    resolution (`uv_getaddrinfo`, `uv_getnameinfo`) is slow I/O, `uv_random` and `uv_queue_work` are CPU work.
    A call site whose kind depends on anything (flags, arguments) breaks this obligation. -/
theorem caller_kinds :
    Generated.callerKinds =
      [("src/unix/fs.c", "uv__fs_work", .const .fast),
       ("src/unix/fs.c", "uv__fs_work", .const .fast),
       ("src/unix/getaddrinfo.c", "uv__getaddrinfo_work", .const .slow),
       ("src/unix/getnameinfo.c", "uv__getnameinfo_work", .const .slow),
       ("src/random.c", "uv__random_work", .const .cpu),
       ("src/threadpool.c", "uv__queue_work", .const .cpu)] := by decide

/-- Name-resolution requests are always submitted as slow I/O — whatever their flags — so `slow_cap` and
    `fast_not_starved` apply to all of them; and both resolvers do go through the pool. -/
theorem name_resolution_is_slow :
    (∀ e ∈ Generated.callerKinds,
      (e.2.1 = "uv__getaddrinfo_work" ∨ e.2.1 = "uv__getnameinfo_work") → e.2.2 = .const .slow) ∧
    (∃ e ∈ Generated.callerKinds, e.2.1 = "uv__getaddrinfo_work") ∧
    (∃ e ∈ Generated.callerKinds, e.2.1 = "uv__getnameinfo_work") := by decide

end UvModel.Tpool
