import UvModel.Adopt
/-!
# C16 — a failed adoption releases the descriptor exactly once: property theorems

Part of the C16 statement ("in no case is ... a descriptor leaked, or handle/request accounting left unbalanced")
for the calls that give a socket to a TCP handle with remembered options, under any `setsockopt` failure.
-/
namespace UvModel.Adopt

theorem mem_without {l : List Nat} {a b : Nat} : a ∈ without l b ↔ a ∈ l ∧ a ≠ b := by
  simp [without]

/-- `uv__stream_open` either adopts (`io_watcher.fd = fd`, 0) or — exactly when an option call is the failing one —
claims nothing and returns `-errno`. -/
theorem streamOpen_cases (nd ka : Bool) (fd : Nat) (f : Fault) :
    ((streamOpen nd ka fd f).1 = some fd ∧ (streamOpen nd ka fd f).2.1 = 0 ∧
      ¬ (∃ k e, f = some (k, e) ∧ k < (optCalls nd ka).length)) ∨
    ((streamOpen nd ka fd f).1 = none ∧
      ∃ k e, f = some (k, e) ∧ k < (optCalls nd ka).length ∧ (streamOpen nd ka fd f).2.1 = -(e : Int)) := by
  unfold streamOpen
  match f with
  | none => simp
  | some (k, e) =>
    by_cases h : k < (optCalls nd ka).length
    · right; exact ⟨by simp [h], k, e, rfl, h, by simp [h]⟩
    · left; simp [h]

/-- the number the handle claims after the adopting call is what `uv__stream_open` assigned -/
theorem adopt_hfd (so : SO) (p : Path) (nd ka : Bool) (w : W) (fd : Nat) (f : Fault) :
    (adopt so p nd ka w fd f).1.hfd = (so nd ka fd f).1 := by
  cases p <;> simp only [adopt] <;> (try split) <;> (try split) <;> rfl

theorem callerCleanup_hfd (p : Path) (rc : Int) (w : W) (fd : Nat) : (callerCleanup p rc w fd).hfd = w.hfd := by
  unfold callerCleanup; split <;> rfl

/-- **adopt_owned_is_open**: after the adopting call (and the caller's part of the clean-up) whatever number the
handle claims is an open descriptor — for every path, every remembered option, every failing `setsockopt`. -/
theorem adopt_owned_is_open (p : Path) (nd ka : Bool) (w : W) (fd : Nat) (f : Fault) (h : Pre p w fd) (g : Nat)
    (hg : (callerCleanup p (adopt streamOpen p nd ka w fd f).2 (adopt streamOpen p nd ka w fd f).1 fd).hfd = some g) :
    g ∈ (callerCleanup p (adopt streamOpen p nd ka w fd f).2 (adopt streamOpen p nd ka w fd f).1 fd).open_ := by
  obtain ⟨hn, hfd⟩ := h
  rcases streamOpen_cases nd ka fd f with ⟨h1, h2, _⟩ | ⟨h1, k, e, _, _, h2⟩
  · -- adopted: the handle claims fd, which is open on every path
    cases p <;> simp_all [adopt, callerCleanup] <;> (try split at hg) <;> (try split) <;> simp_all
  · -- an option call failed: the handle claims nothing
    rw [callerCleanup_hfd, adopt_hfd, h1] at hg
    exact absurd hg (by simp)

/-- **failed_adoption_owns_nothing**: when one of the option calls fails with errno `e > 0`, the call returns `-e`,
the handle claims no descriptor, and the descriptor has exactly one owner left: nobody for `uv_accept` and the lazy
paths (released once, by libuv), the caller for `uv_tcp_open`. -/
theorem failed_adoption_owns_nothing (p : Path) (nd ka : Bool) (w : W) (fd k e : Nat) (h : Pre p w fd)
    (hk : k < (optCalls nd ka).length) (he : 0 < e) :
    (adopt streamOpen p nd ka w fd (some (k, e))).2 = -(e : Int) ∧
    (adopt streamOpen p nd ka w fd (some (k, e))).1.hfd = none ∧
    (adopt streamOpen p nd ka w fd (some (k, e))).1.open_ =
      (if p = .accept ∨ p = .ipc then without w.open_ fd else w.open_) := by
  have hne : -(e : Int) ≠ 0 := by omega
  obtain ⟨hn, _⟩ := h
  cases p <;> simp [adopt, streamOpen, hk, hne]

/-- **adoption_fault_free**: without a fault the handle owns `fd`, which is open, and the call returns 0. -/
theorem adoption_fault_free (p : Path) (nd ka : Bool) (w : W) (fd : Nat) (h : Pre p w fd) :
    (adopt streamOpen p nd ka w fd none).2 = 0 ∧ (adopt streamOpen p nd ka w fd none).1.hfd = some fd ∧
    fd ∈ (adopt streamOpen p nd ka w fd none).1.open_ := by
  obtain ⟨_, hfd⟩ := h
  cases p <;> simp_all [adopt, streamOpen]

/-- **foreign_fd_survives**: a descriptor `x` the application opens after the adopting call returned (any number the
kernel may hand out: one that is not open) is still open after the handle was closed. -/
theorem foreign_fd_survives (p : Path) (nd ka : Bool) (w : W) (fd : Nat) (f : Fault) (x : Nat) (h : Pre p w fd)
    (hx : x ∉ (callerCleanup p (adopt streamOpen p nd ka w fd f).2 (adopt streamOpen p nd ka w fd f).1 fd).open_) :
    x ∈ (episode streamOpen p nd ka w fd f x).1.open_ := by
  have ho := adopt_owned_is_open p nd ka w fd f h
  simp only [episode, closeHandle, appOpens]
  generalize callerCleanup p (adopt streamOpen p nd ka w fd f).2 (adopt streamOpen p nd ka w fd f).1 fd = w2 at *
  cases hh : w2.hfd with
  | none => simp
  | some g =>
    have hgo := ho g hh
    have : x ≠ g := fun hxg => hx (hxg ▸ hgo)
    simp [mem_without, this]

/-- number of fault points the option calls contribute -/
theorem optCalls_length (nd ka : Bool) : (optCalls nd ka).length = (if nd then 1 else 0) + (if ka then 4 else 0) := by
  cases nd <;> cases ka <;> rfl

/-! non-vacuity: concrete episodes (descriptor 7 adopted or created; table {0,1,2,(7)}) -/
example : Pre .accept ⟨[0, 1, 2, 7], none⟩ 7 := by unfold Pre; decide
example : Pre .connect ⟨[0, 1, 2], none⟩ 7 := by unfold Pre; decide
example : adopt streamOpen .accept true true ⟨[0, 1, 2, 7], none⟩ 7 (some (3, 105)) = (⟨[0, 1, 2], none⟩, -105) := by decide
example : adopt streamOpen .open_ true false ⟨[0, 1, 2, 7], none⟩ 7 (some (0, 12)) = (⟨[0, 1, 2, 7], none⟩, -12) := by decide
example : adopt streamOpen .bind true false ⟨[0, 1, 2], none⟩ 7 (some (1, 12)) = (⟨[7, 0, 1, 2], some 7⟩, -12) := by decide
example : adopt streamOpen .listen false true ⟨[0, 1, 2], none⟩ 7 none = (⟨[7, 0, 1, 2], some 7⟩, 0) := by decide
example : (episode streamOpen .accept true false ⟨[0, 1, 2, 7], none⟩ 7 (some (0, 105)) 7).1.open_ = [7, 0, 1, 2] := by decide

/-- **early_assignment_releases_twice** (the order matters): with `io_watcher.fd` assigned before the options are
applied, a refused TCP_NODELAY during `uv_accept` leaves the handle claiming the number `uv_accept` has closed; the
application's next descriptor gets that number and is destroyed by `uv_close` of the handle. -/
theorem early_assignment_releases_twice :
    adopt streamOpenEarly .accept true false ⟨[0, 1, 2, 7], none⟩ 7 (some (0, 105)) = (⟨[0, 1, 2], some 7⟩, -105) ∧
    7 ∉ (episode streamOpenEarly .accept true false ⟨[0, 1, 2, 7], none⟩ 7 (some (0, 105)) 7).1.open_ := by
  decide

end UvModel.Adopt
