import UvModel.Lemmas.AsyncLemmas5
import UvModel.Generated.AsyncSeq
/-! # C09 — uv_async_send: property theorems (model: UvModel.Async, invariants: UvModel.Lemmas.AsyncLemmas*)

`Reachable s` = s is reached from `init nh ns` (any number of handles and sender threads) by ANY list of
actions, i.e. every interleaving of sender steps, loop-thread steps, uv_close calls (between polls or inside
a callback) and close callbacks.  Signal-handler sends are the interleavings in which the interrupted thread
does not step while the handler's send runs. -/
namespace UvModel.Props.C09
open UvModel.Async

/-! ## Tie A: the order of operations in the source equals the order the model executes -/
theorem send_seq_matches_source : Generated.AsyncSeq.asyncSendSeq = senderProgram := by decide
theorem wakeup_seq_matches_source : Generated.AsyncSeq.asyncWakeupSeq = wakeupProgram := by decide
theorem io_seq_matches_source : Generated.AsyncSeq.asyncIoSeq = ioProgram := by decide
theorem spin_seq_matches_source : Generated.AsyncSeq.asyncSpinSeq = spinProgram := by decide
theorem close_seq_matches_source : Generated.AsyncSeq.asyncCloseSeq = closeProgram := by decide
theorem fork_seq_matches_source : Generated.AsyncSeq.asyncForkSeq = forkProgram := by decide

/-! ## no lost wake-up -/

/-- For every open handle with the pending flag set, the wake-up is not lost: the eventfd is readable, or a
sender sits between its successful exchange and its eventfd write, or the loop thread is inside
uv__async_io and has not yet passed the handle. -/
theorem no_lost_wakeup {s : State} (hr : Reachable s) (h : Nat)
    (hp : (s.hs h).pending ≠ 0) (ho : (s.hs h).closing = false) :
    s.efd > 0 ∨ atWrite s ∨ willScan s h :=
  (inv_reachable hr).W h hp ho

/-- The loop never blocks while it owes a callback: loop in epoll with the eventfd at 0 and no sender about to
write it ⇒ no open handle has pending set. -/
theorem never_blocks_owing {s : State} (hr : Reachable s) (hl : s.lpc = .idle) (he : s.efd = 0)
    (hs : ¬ atWrite s) (h : Nat) (ho : (s.hs h).closing = false) : (s.hs h).pending = 0 := by
  by_cases hp : (s.hs h).pending = 0
  · exact hp
  · rcases no_lost_wakeup hr h hp ho with h1 | h1 | h1
    · omega
    · exact absurd h1 hs
    · simp [willScan, hl] at h1

/-- a state in which the hypotheses of `no_lost_wakeup` hold non-trivially: sender 0 has exchanged pending
0→1 on handle 0 and is preempted before writing the eventfd, the loop is asleep -/
example : let s := run (init 1 2) [.begin 0 0, .snd 0, .snd 0, .snd 0]
    (s.hs 0).pending = 1 ∧ s.efd = 0 ∧ s.lpc = .idle ∧ (s.snd[0]?.map (·.pc)) = some .write := by decide

/-- ... and one where the loop has drained the eventfd and a second send arrives before the scan reaches h -/
example : let s := run (init 1 2) [.begin 0 0, .snd 0, .snd 0, .snd 0, .snd 0, .snd 0, .loop, .loop, .begin 1 0, .snd 1]
    (s.hs 0).pending = 1 ∧ s.efd = 0 ∧ s.lpc = .scan 0 ∧ (s.snd[1]?.map (·.sent)) = some true := by decide

/-- EINTR / EAGAIN on the wake-up write are inputs of the model: an interrupted write is retried (no state change, the
sender is still "between exchange and write", so `no_lost_wakeup` keeps holding), a saturated counter answers EAGAIN and
is non-zero.  Here the counter saturates at 1: the second effective send gets EAGAIN and the loop is still woken. -/
example : let s := run (init 2 2 0) [.begin 0 0, .snd 0, .snd 0, .snd 0, .eintr (some 0), .eintr (some 0), .snd 0,
                                     .begin 1 1, .snd 1, .snd 1, .snd 1, .snd 1]
    s.efd = 1 ∧ (s.hs 0).pending = 1 ∧ (s.hs 1).pending = 1 ∧ (s.snd[1]?.map (·.pc)) = some .dec := by decide

/-! ## every send is followed by a callback -/

/-- After uv_async_send returned on an open handle: either a callback that started after the call began has
run (`seq ≤ seen`: it observed everything published before the call — the sequence number is taken when the
call begins, `seen` is the number of sends begun when the latest callback started), or the flag is still
pending and the wake-up is not lost, so the loop thread cannot stay blocked and will reach the handle. -/
theorem send_then_callback {s : State} (hr : Reachable s) (t : Nat) (x : Sender) (hx : s.snd[t]? = some x)
    (hidle : x.pc = .idle) (hsent : x.sent = true) (ho : (s.hs x.h).closing = false) :
    x.seq ≤ (s.hs x.h).seen ∨ ((s.hs x.h).pending ≠ 0 ∧ (s.efd > 0 ∨ atWrite s ∨ willScan s x.h)) := by
  rcases (inv_reachable hr).J t x hx (Or.inr (Or.inr ⟨hidle, hsent⟩)) ho with h1 | h1
  · exact Or.inl h1
  · exact Or.inr ⟨h1, no_lost_wakeup hr x.h h1 ho⟩

/-- visibility at quiescence: when the loop is blocked and nobody is about to wake it, every returned send on
an open handle has been observed by a callback that started after the send began -/
theorem quiescent_all_sends_seen {s : State} (hr : Reachable s) (hl : s.lpc = .idle) (he : s.efd = 0)
    (hs : ¬ atWrite s) (t : Nat) (x : Sender) (hx : s.snd[t]? = some x) (hidle : x.pc = .idle)
    (hsent : x.sent = true) (ho : (s.hs x.h).closing = false) : x.seq ≤ (s.hs x.h).seen := by
  rcases send_then_callback hr t x hx hidle hsent ho with h1 | ⟨h1, _⟩
  · exact h1
  · exact absurd (never_blocks_owing hr hl he hs x.h ho) h1

example : let s := run (init 1 1) [.begin 0 0, .snd 0, .snd 0, .snd 0, .snd 0, .snd 0, .loop, .loop, .loop, .loop]
    s.lpc = .idle ∧ s.efd = 0 ∧ (s.snd[0]?.map (fun x => (x.sent, x.seq))) = some (true, 1) ∧ (s.hs 0).seen = 1 ∧ (s.hs 0).cbs = 1 := by
  decide

/-- While a callback is owed on an open handle the system is never stuck: the loop thread can step, or (loop
asleep with the eventfd at 0, or spinning in uv__async_spin for another handle) a sender inside uv_async_send can. -/
theorem no_deadlock_while_owing {s : State} (hr : Reachable s) (h : Nat)
    (hp : (s.hs h).pending ≠ 0) (ho : (s.hs h).closing = false) :
    (step? s .loop).isSome = true ∨ ∃ t, (step? s (.snd t)).isSome = true :=
  owed_implies_some_thread_enabled (inv_reachable hr) h hp ho

/-- Liveness under weak fairness.  `s`: any reachable state in which an open handle `h` has a send owed and no
uv_close is in the middle of uv__async_spin; `σ`: any infinite continuation (sender steps, new sends, loop steps,
close callbacks, EINTR answers — no uv_close, no fork) in which the loop thread and every sender thread are scheduled again and again.
Then the callback of `h` starts.  (Measure: `mu` = 2·(loop steps until the scan reaches `h`, counting a full
extra pass when the scan is already past `h`) + 1 while the loop sleeps with the eventfd at 0; sender steps never
increase it, the helpful thread — the loop, or the sender parked at the eventfd write — strictly decreases it.) -/
theorem send_then_callback_liveness {s : State} (hr : Reachable s) (h : Nat)
    (hp : (s.hs h).pending ≠ 0) (ho : (s.hs h).closing = false) (hnc : noClosePc s)
    (σ : Nat → Act) (hσ : ∀ n h', σ n ≠ .close h') (hσf : ∀ n, σ n ≠ .fork)
    (fairL : ∀ n, ∃ m, m ≥ n ∧ σ m = .loop)
    (fairS : ∀ n t, t < s.snd.length → ∃ m, m ≥ n ∧ σ m = .snd t) :
    ∃ n, ((runN σ n s).hs h).cbs > (s.hs h).cbs := by
  have hσ' : ∀ n, notClose (σ n) := by
    intro n; have := hσ n; have hf := hσf n; cases hn : σ n <;> simp [notClose]
    · exact absurd hn (this _)
    · exact absurd hn hf
  exact liveness_aux σ hσ' s h _ fairL fairS (mu s h) 0 (by simp [runN]) (by simpa [runN] using ⟨inv_reachable hr, hp, ho, rfl, hnc⟩)

/-- hypotheses are satisfiable in the interesting case: sender preempted between exchange and eventfd write, loop asleep -/
example : let s := run (init 2 2) [.begin 0 1, .snd 0, .snd 0, .snd 0]
    (s.hs 1).pending ≠ 0 ∧ (s.hs 1).closing = false ∧ s.lpc = .idle ∧ s.efd = 0 ∧ noClosePc s := by
  refine ⟨by decide, by decide, by decide, by decide, ?_⟩
  have hl : (run (init 2 2) [.begin 0 1, .snd 0, .snd 0, .snd 0]).lpc = .idle := by decide
  intro h' r; rw [hl]; constructor <;> simp

/-- FULL liveness statement: the same without `noClosePc s`, i.e. also when `s` is in the middle of a uv_close of
ANOTHER handle (loop thread parked in uv__async_spin).  PROVED below (`send_then_callback_liveness_full_holds`,
Lemmas/AsyncLemmas5); the plan that was followed: the measure needs one more component for that
phase (Σ over the senders inside uv_async_send on the handle being closed of their remaining steps — finite because
no new send can begin on a closing handle — and the helpful thread there is a sender inside the busy section,
`close_waits_for_critical_section` / `no_deadlock_while_owing`), and `rankL` must be extended through
closeStore/closeSpin → `r.toPc` with the unlinked handle filtered out of `queue`. -/
def send_then_callback_liveness_full : Prop :=
  ∀ s, Reachable s → ∀ h, (s.hs h).pending ≠ 0 → (s.hs h).closing = false →
    ∀ σ : Nat → Act, (∀ n h', σ n ≠ .close h') → (∀ n, σ n ≠ .fork) →
      (∀ n, ∃ m, m ≥ n ∧ σ m = .loop) → (∀ n t, t < s.snd.length → ∃ m, m ≥ n ∧ σ m = .snd t) →
      ∃ n, ((runN σ n s).hs h).cbs > (s.hs h).cbs

/-! ### fork
`Act.fork` continues in the child after uv_loop_fork: `Reachable` is closed under it, so every theorem of this file
holds for sends made in the child (no lost wake-up on the fresh eventfd, delivery, liveness from any post-fork state).
Sends that were undelivered at fork time are dropped in the child by uv__async_fork (pending cleared) — by design. -/

/-- non-vacuous: a send undelivered at fork time (pending = 1, eventfd = 1); in the child the flag and the new
eventfd are clear, the next send takes the slow path again, wakes the loop and gets its callback -/
example : let s := run (init 1 1) [.begin 0 0, .snd 0, .snd 0, .snd 0, .snd 0, .snd 0, .fork]
    (s.hs 0).pending = 0 ∧ s.efd = 0 ∧ (s.hs 0).cbs = 0 := by decide
example : let s := run (init 1 1) [.begin 0 0, .snd 0, .snd 0, .snd 0, .snd 0, .snd 0, .fork,
                                   .begin 0 0, .snd 0, .snd 0, .snd 0, .snd 0, .snd 0, .loop, .loop, .loop, .loop]
    (s.hs 0).cbs = 1 ∧ (s.hs 0).seen = 2 ∧ s.lpc = .idle ∧ s.efd = 0 := by decide

/-! ## the callback never runs without a send -/

/-- #callbacks(h) ≤ #sender exchanges that changed pending 0→1 on h -/
theorem cb_only_after_send {s : State} (hr : Reachable s) (h : Nat) : (s.hs h).cbs ≤ (s.hs h).x01 := by
  have := (inv_reachable hr).C h
  omega

/-- coalescing is real: two returned sends, one effective exchange, one callback -/
example : let s := run (init 1 2) [.begin 0 0, .snd 0, .snd 0, .snd 0, .begin 1 0, .snd 1, .snd 0, .snd 0, .loop, .loop, .loop, .loop]
    (s.hs 0).cbs = 1 ∧ (s.hs 0).x01 = 1 ∧ (s.hs 0).pub = 2 ∧ (s.hs 0).seen = 2 := by decide

/-! ## close -/

/-- once uv__async_close(h) has returned, h's callback never starts again, whatever happens next (in
particular never after the close callback, which requires uv__async_close to have returned) -/
theorem no_cb_after_close {s : State} (hr : Reachable s) (h : Nat) (hu : (s.hs h).unlinked = true)
    (acts : List Act) : ((run s acts).hs h).cbs = (s.hs h).cbs :=
  (closed_run (inv_reachable hr) hu acts).2

theorem close_cb_implies_closed {s : State} (hr : Reachable s) (h : Nat) (hf : (s.hs h).freed = true) :
    (s.hs h).unlinked = true :=
  (inv_reachable hr).L.freedUnl h hf

/-- non-vacuous: a handle closed from inside its own callback while a second send has set pending again -/
example : let s := run (init 1 2) [.begin 0 0, .snd 0, .snd 0, .snd 0, .snd 0, .snd 0, .loop, .loop, .loop,
                                   .begin 1 0, .snd 1, .snd 1, .snd 1, .snd 1, .snd 1, .close 0, .loop, .loop]
    (s.hs 0).unlinked = true ∧ (s.hs 0).pending = 1 ∧ s.efd = 1 ∧ (s.hs 0).cbs = 1 ∧ s.lpc = .inCb 0 := by decide

/-- uv_close is safe w.r.t. the loop's wake-up channel: after uv__async_close(h) returned no sender is about to
write (or will ever write, by `Reachable` being closed under steps) the eventfd on behalf of h — including
the senders that were already inside uv_async_send(h) when uv_close was called. -/
theorem close_safe_no_wakeup_write {s : State} (hr : Reachable s) (t : Nat) (x : Sender)
    (hx : s.snd[t]? = some x) (hu : (s.hs x.h).unlinked = true) : x.pc ≠ .write := by
  intro hp
  have := (inv_reachable hr).B.noWrite t x hx hp
  simp [hu] at this

/-- uv__async_spin really waits: the close cannot complete while a sender is between its two busy updates -/
theorem close_waits_for_critical_section {s : State} (hr : Reachable s) (h : Nat) (r : LRet)
    (hl : s.lpc = .closeSpin h r) (t : Nat) (x : Sender) (hx : s.snd[t]? = some x) (hh : x.h = h)
    (hc : x.pc = .xchg ∨ x.pc = .write ∨ x.pc = .dec) : step? s .loop = none := by
  have hb := (inv_reachable hr).B.busyEq h ((inv_reachable hr).L.cloPc h r (Or.inr hl)).2
  have hpos : 0 < s.snd.countP (critB h) :=
    List.countP_pos_iff.mpr ⟨x, List.mem_of_getElem? hx, by rcases hc with hc | hc | hc <;> simp [critB, hh, hc]⟩
  have : (s.hs h).busy ≠ 0 := by omega
  simp [step?, loopStep, hl, this]

example : let s := run (init 1 1) [.begin 0 0, .snd 0, .snd 0, .close 0, .loop]
    s.lpc = .closeSpin 0 .idle ∧ (s.snd[0]?.map (·.pc)) = some .xchg ∧ (s.hs 0).busy = 1 := by decide

/-! ### handle memory

Full-strength reading of "uv_close() is safe while a send on another thread is in progress" when the user
releases the handle in its close callback (the documented pattern): FALSE of the code.  The busy counter only
covers senders that have already executed `atomic_fetch_add(busy, 1)`; a sender preempted before that (before or
after its first load of `pending`) touches the handle after uv__async_close returned and after the close callback. -/
def close_safe_memory_full : Prop :=
  ∀ s, Reachable s → MemSafe s

/-- witness (replayed on the real code: harness schedule `s0 s0 c0 l l f s0`, ASan heap-use-after-free in
uv_async_send at async.c:105): sender loads pending = 0; loop thread closes, spins (busy = 0), unlinks and
runs the close callback; the sender is about to do `atomic_fetch_add(busy, 1)` on the released handle. -/
theorem close_safe_memory_full_false : ¬ close_safe_memory_full := by
  intro h
  have hm := h (run (init 1 1) [.begin 0 0, .snd 0, .close 0, .loop, .loop, .closeCbs]) ⟨1, 1, 2^64 - 3, _, rfl⟩
    0 { pc := .inc, h := 0, seq := 1, sent := false } (by decide) (by decide)
  revert hm
  decide

/-- Under the user contract "the close callback releases the handle only when no uv_async_send call on it is in
flight" (`Contract`; a send may not be *started* on a closing handle in any case — `step? (.begin ..)`), no thread
is ever inside uv_async_send on released memory. -/
theorem close_safe_memory_under_contract {s : State} (hr : ReachC s) : MemSafe s :=
  (reachC_inv hr).2

/-- the contract does not forbid closing while a send is in flight: here the close completes and the close
callback runs after the in-flight sender returned -/
example : ReachC (run (init 1 1) [.begin 0 0, .snd 0, .close 0, .loop, .loop, .snd 0, .snd 0, .snd 0, .closeCbs]) := by
  refine .step (a := .closeCbs) (.step (a := .snd 0) (.step (a := .snd 0) (.step (a := .snd 0) (.step (a := .loop)
    (.step (a := .loop) (.step (a := .close 0) (.step (a := .snd 0) (.step (a := .begin 0 0) (.init 1 1 (2^64 - 3))
    ?_ rfl) ?_ rfl) ?_ rfl) ?_ rfl) ?_ rfl) ?_ rfl) ?_ rfl) ?_ rfl) ?_ rfl
  all_goals first | (intro h; cases h; done) | skip
  intro _ t x hx hp
  match t, hx with
  | 0, hx => simp [init, setSnd, setH, upd, LRet.toPc] at hx; subst hx; simp at hp
  | t + 1, hx => simp [init, setSnd, setH, upd, LRet.toPc] at hx

/-! ## full-strength liveness (start state may be in the middle of a uv_close) -/

/-- The FULL liveness statement holds: from EVERY reachable state in which an open handle `h` has a send owed —
including the states in which the loop thread is parked inside uv__async_spin(h') for another handle h', before the
`atomic_store(pending, 1)` or spinning on `busy` — every weakly fair continuation without further uv_close / fork
starts the callback of `h`.  Close phase: `nu` = Σ over the senders inside uv_async_send(h') of their remaining
steps + 2/1 for closeStore/closeSpin.  No send can begin on a closing handle (`step? (.begin ..)` requires
`closing = false`, the documented contract), so sender steps never increase it; a sender inside uv_async_send(h') is
helpful while there is one, afterwards busy(h') = 0 (`InvB.busyEq`) and the loop thread is helpful: the spin ends in a
state outside uv__async_spin with the callback of `h` still owed, where `liveness_aux` (measure `mu`) takes over. -/
theorem send_then_callback_liveness_full_holds : send_then_callback_liveness_full := by
  intro s hr h hp ho σ hσ hσf fairL fairS
  have hσ' : ∀ n, notClose (σ n) := by
    intro n; have := hσ n; have hf := hσf n; cases hn : σ n <;> simp [notClose]
    · exact absurd hn (this _)
    · exact absurd hn hf
  exact liveness_full_aux σ hσ' s h (inv_reachable hr) hp ho fairL fairS

/-- usable form of the same -/
theorem send_then_callback_liveness_any_state {s : State} (hr : Reachable s) (h : Nat)
    (hp : (s.hs h).pending ≠ 0) (ho : (s.hs h).closing = false)
    (σ : Nat → Act) (hσ : ∀ n h', σ n ≠ .close h') (hσf : ∀ n, σ n ≠ .fork)
    (fairL : ∀ n, ∃ m, m ≥ n ∧ σ m = .loop)
    (fairS : ∀ n t, t < s.snd.length → ∃ m, m ≥ n ∧ σ m = .snd t) :
    ∃ n, ((runN σ n s).hs h).cbs > (s.hs h).cbs :=
  send_then_callback_liveness_full_holds s hr h hp ho σ hσ hσf fairL fairS

/-- The spin itself terminates under weak fairness: from every reachable state in which the loop thread is inside
uv__async_spin(h') (so uv_close never hangs on in-flight senders) some later state has left it — stated for the case
the theorem needs (a callback of `h` owed); `j` is the first state outside the spin reached by the argument. -/
theorem close_spin_terminates {s : State} (hr : Reachable s) (h h' : Nat) (r : LRet)
    (hl : s.lpc = .closeStore h' r ∨ s.lpc = .closeSpin h' r)
    (hp : (s.hs h).pending ≠ 0) (ho : (s.hs h).closing = false)
    (σ : Nat → Act) (hσ : ∀ n h', σ n ≠ .close h') (hσf : ∀ n, σ n ≠ .fork)
    (fairL : ∀ n, ∃ m, m ≥ n ∧ σ m = .loop)
    (fairS : ∀ n t, t < s.snd.length → ∃ m, m ≥ n ∧ σ m = .snd t) :
    ∃ j, noClosePc (runN σ j s) ∧ ((runN σ j s).hs h).pending ≠ 0 ∧ ((runN σ j s).hs h).cbs = (s.hs h).cbs := by
  have hσ' : ∀ n, notClose (σ n) := by
    intro n; have := hσ n; have hf := hσf n; cases hn : σ n <;> simp [notClose]
    · exact absurd hn (this _)
    · exact absurd hn hf
  obtain ⟨j, hj⟩ := spin_ends σ hσ' s h (s.hs h).cbs h' r fairL fairS (nu s h') 0 (by simp [runN])
    (by simpa [runN] using (⟨inv_reachable hr, hp, ho, rfl, hl⟩ : OwedC s h (s.hs h).cbs h' r))
  exact ⟨j, hj.pc, hj.pend, hj.cnt⟩

/-- non-vacuous, the new case: sender 0 is inside the busy section of handle 1 (after its fetch_add, before the
exchange), sender 1 has completed a send on handle 0 (pending = 1, eventfd = 1), the loop thread called uv_close(1) and is
parked in the spin loop with busy(1) = 1: the loop thread cannot step (`step? s .loop = none`), `noClosePc` fails, a
callback of handle 0 is owed. -/
example : let s := run (init 2 2) [.begin 0 1, .snd 0, .snd 0, .begin 1 0, .snd 1, .snd 1, .snd 1, .snd 1, .snd 1,
                                   .close 1, .loop]
    (s.hs 0).pending ≠ 0 ∧ (s.hs 0).closing = false ∧ s.lpc = .closeSpin 1 .idle ∧ (s.hs 1).busy = 1 ∧
    (step? s .loop).isNone = true ∧ rem s 1 = 3 ∧ nu s 1 = 4 := by decide

/-- ... and a fair continuation from it: the in-flight sender leaves uv_async_send(1), the spin ends, the loop drains the
eventfd and the callback of handle 0 runs (handle 1 gets none: it is unlinked) -/
example : let s := run (init 2 2) [.begin 0 1, .snd 0, .snd 0, .begin 1 0, .snd 1, .snd 1, .snd 1, .snd 1, .snd 1,
                                   .close 1, .loop, .loop, .snd 0, .snd 0, .loop, .snd 0, .loop, .loop, .loop, .loop]
    (s.hs 0).cbs = 1 ∧ (s.hs 1).cbs = 0 ∧ (s.hs 1).unlinked = true ∧ (s.hs 0).seen = 1 := by decide

/-! ## coalescing bounds, callback entry -/

/-- #callbacks(h) ≤ #effective (0→1) exchanges(h) ≤ #uv_async_send calls begun on h: coalescing only ever merges sends,
it never invents a callback; with `send_then_callback` / the liveness theorem (≥ 1 callback after a burst) this
brackets the callback count from both sides. -/
theorem coalescing_bound {s : State} (hr : Reachable s) (h : Nat) :
    (s.hs h).cbs ≤ (s.hs h).x01 ∧ (s.hs h).x01 ≤ (s.hs h).pub := by
  refine ⟨cb_only_after_send hr h, ?_⟩
  have := sendsLe_reachable hr h
  omega

/-- both inequalities can be strict at once: three sends begun, the third still before its exchange, the first two
coalesced into one effective exchange, whose callback has not started yet -/
example : let s := run (init 1 3) [.begin 0 0, .snd 0, .snd 0, .snd 0, .begin 1 0, .snd 1, .begin 2 0]
    (s.hs 0).cbs = 0 ∧ (s.hs 0).x01 = 1 ∧ (s.hs 0).pub = 3 := by decide

/-- The callback is entered with the flag already cleared and having observed every send begun so far: the only
transition that changes a callback count is the loop thread's `atomic_exchange(&h->pending, 0)` having returned
non-zero (async.c:202-208); right after it pending(h) = 0, exactly one callback was added, `seen = pub`, and the
eventfd was not touched (it was drained before the scan started).  A send arriving during the callback therefore
finds pending = 0, takes the slow path and writes the eventfd again (`no_lost_wakeup`). -/
theorem callback_entry {s s' : State} {a : Act} {h : Nat} (hs : step? s a = some s')
    (hc : (s'.hs h).cbs ≠ (s.hs h).cbs) :
    a = .loop ∧ s.lpc = .scan h ∧ (s.hs h).pending ≠ 0 ∧ s'.lpc = .inCb h ∧ (s'.hs h).pending = 0 ∧
    (s'.hs h).cbs = (s.hs h).cbs + 1 ∧ (s'.hs h).seen = (s'.hs h).pub ∧ s'.efd = s.efd := by
  by_cases ha : a = .loop
  · subst ha; exact ⟨rfl, cb_start_step hs hc⟩
  · exact absurd (cbs_only_loop hs ha h) hc

/-- non-vacuous: the step that starts the callback of handle 0 -/
example : let s := run (init 1 1) [.begin 0 0, .snd 0, .snd 0, .snd 0, .snd 0, .snd 0, .loop, .loop]
    s.lpc = .scan 0 ∧ (s.hs 0).pending = 1 ∧ ((step s .loop).hs 0).cbs = 1 ∧ ((step s .loop).hs 0).pending = 0 ∧
    (step? s .loop).isSome = true := by decide

end UvModel.Props.C09
