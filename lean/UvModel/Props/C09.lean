import UvModel.Async
import UvModel.Generated.AsyncSeq
/-! # C09 — property theorems for uv_async_send (model: UvModel.Async) -/
namespace UvModel.Props.C09
open UvModel.Async

/-! ## Tie A: the order of operations in the source equals the order the model executes -/
theorem send_seq_matches_source : Generated.AsyncSeq.asyncSendSeq = senderProgram := by decide
theorem wakeup_seq_matches_source : Generated.AsyncSeq.asyncWakeupSeq = wakeupProgram := by decide
theorem io_seq_matches_source : Generated.AsyncSeq.asyncIoSeq = ioProgram := by decide
theorem spin_seq_matches_source : Generated.AsyncSeq.asyncSpinSeq = spinProgram := by decide
theorem close_seq_matches_source : Generated.AsyncSeq.asyncCloseSeq = closeProgram := by decide

end UvModel.Props.C09
