import UvModel.Accept
import UvModel.Lemmas.SendLemmas
/-! # C07 — a handle given to `uv_write2` rides on exactly one successful syscall of its request
(uv__write / uv__try_write, stream.c:754-898).  Quantified over every interleaving of `uv_write2`
submissions and write attempts with arbitrary kernel results (short transfers, EAGAIN, errors). -/
namespace UvModel.Accept

/-- **send_handle_once**: for every request, at most one *successful* sendmsg carried a descriptor
(a continuation after a short transfer never re-attaches it; a retry after EAGAIN does, nothing was sent). -/
theorem send_handle_once (ops : List SOp) (r : Nat) : carried (srun {} ops) r ≤ 1 :=
  (sinv12_run ops {} sinv_init sinv2_init).1.once r

/-- … and exactly one as soon as any syscall of a request submitted with a handle succeeded — in
particular for every such request that completed with status 0: the receiver gets one descriptor per
sending write, never none. -/
theorem send_handle_exactly_once (ops : List SOp) (r : Nat) (hh : hadHandle (srun {} ops) r = true) :
    (1 ≤ succeeded (srun {} ops) r → carried (srun {} ops) r = 1) ∧
    ((r, (0 : Int)) ∈ (srun {} ops).done → carried (srun {} ops) r = 1) := by
  have h := (sinv12_run ops {} sinv_init sinv2_init).2
  exact ⟨(h.exact r hh).2, fun hd => (h.exact r hh).2 (h.fin r hd)⟩

/-- while the descriptor has not gone out, every attempt of the head request attaches it: a request
still holding its handle has had no successful syscall -/
theorem send_handle_kept_until_sent (ops : List SOp) (q : WReq) (hq : q ∈ (srun {} ops).queue)
    (hh : q.handle.isSome = true) : succeeded (srun {} ops) q.id = 0 :=
  (sinv12_run ops {} sinv_init sinv2_init).1.fresh q hq hh

def exSend : SSt := srun {} [.enq 10 (some 7), .enq 5 none, .attempt 4, .attempt (-11), .attempt 3, .attempt 3, .attempt 5]
example : hadHandle exSend 0 = true ∧ carried exSend 0 = 1 ∧ succeeded exSend 0 = 3 ∧ carried exSend 1 = 0 ∧
    exSend.done = [(0, 0), (1, 0)] ∧
    exSend.log.map (·.2.1) = [some 7, none, none, none, none] := by decide

end UvModel.Accept
