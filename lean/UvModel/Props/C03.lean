import UvModel.Lemmas.LoopRunInv
import UvModel.Lemmas.LoopPhases2
import UvModel.Lemmas.LoopPhases3
import UvModel.Lemmas.LoopPhases4
import UvModel.Lemmas.LoopPhases5
/-!
  C03 — phase order and blocking rules, over the LoopModel.
-/
namespace UvModel.Props.C03
open UvModel.HandleKernels UvModel.Loop

/-- `timeout_rule`: the timeout `uv_run` hands to the poller is 0 in UV_RUN_NOWAIT, after `uv_stop`, while an
    idle handle is active, while a close callback is pending, while the pending queue is non-empty, when nothing
    active-and-referenced and no request exists, and in UV_RUN_ONCE when the iteration started with a non-empty
    pending queue or idle list (`cs = false`); otherwise it is `uv__next_timeout` (−1 without timers, else
    min(due − now, INT_MAX): theorems of C04). -/
theorem timeout_rule (mode : Mode) (cs : Bool) (s : State) :
    pollTimeout mode cs s =
      if mode = .nowait ∨ (mode = .once ∧ cs = false) ∨ s.stop = true ∨ s.idle ≠ [] ∨ s.closing ≠ [] ∨
         s.pending ≠ [] ∨ (s.c.ah ≤ 0 ∧ s.ar ≤ 0) then 0
      else Timer.nextTimeout s.tm := by
  unfold pollTimeout runTimeout backendTimeoutS backendTimeout hasActiveHandles hasActiveReqs pendingEmpty closingNull
  cases mode <;> cases cs <;> cases hs : s.stop <;> cases hi : s.idle <;> cases hc : s.closing <;> cases hp : s.pending <;>
    simp <;> (try omega) <;> (split <;> first | rfl | omega | simp_all)

/-- blocking is possible: DEFAULT mode, a referenced active handle, nothing else going on -/
example : pollTimeout .default true { c := { ah := 1 }, tm := { time := 10, heap := #[⟨25, 0, 2⟩] } } = 15 := by decide
example : pollTimeout .nowait true { c := { ah := 1 }, tm := { time := 10, heap := #[⟨25, 0, 2⟩] } } = 0 := by decide
example : pollTimeout .once true { c := { ah := 1 }, idle := [3], tm := { time := 10, heap := #[⟨25, 0, 2⟩] } } = 0 := by decide

/-- `backend_timeout_api`: `uv_backend_timeout()` reports the same bound, or 0 while descriptor registrations
    are still waiting in the watcher queue -/
theorem backend_timeout_api (s : State) :
    (applyOp s .getBackendTimeout).2 = (if s.closed then none else
      some (if s.watcherQ ≠ [] then 0 else pollTimeout .default true s)) := by
  unfold applyOp
  split
  · simp [illegal, *]
  · rename_i h
    simp only [ok, uvBackendTimeout, pollTimeout, runTimeout]
    cases hw : s.watcherQ <;> simp

/-! ### uv_stop -/
/-- the flag is forgotten when `uv_run` returns -/
theorem stop_cleared (sc : Script) (mode : Mode) (fuel : Nat) (s s' : State) (r : Bool)
    (h : uvRun sc mode fuel s = some (s', r)) : s'.stop = false := by
  unfold uvRun at h
  simp only at h
  split at h
  · simp at h
  · simp only [Option.some.injEq, Prod.mk.injEq] at h
    rw [← h.1]

/-- `uv_stop` before `uv_run`: zero iterations, no initial timer pass, no event, return value = liveness -/
theorem stop_before_run (sc : Script) (mode : Mode) (fuel : Nat) (s : State) (hs : s.stop = true) :
    uvRun sc mode (fuel + 1) s = some ({ (if !alive s then updateTime s else s) with stop := false }, alive s) := by
  cases ha : alive s <;> simp [uvRun, initialTimers, runLoop, runCond, ha, hs, updateTime]

/-- `uv_stop` during an iteration of UV_RUN_DEFAULT: the iteration is completed (its timer phase is the last
    thing `iteration` does) and the loop is left right after it -/
theorem stop_during_iteration (sc : Script) (fuel : Nat) (s : State) (r : Bool)
    (hc : runCond r s.stop = true) (hh : s.halted = false) (hs : (iteration sc .default s).stop = true) :
    runLoop sc .default (fuel + 2) s r = some (iteration sc .default s, alive (iteration sc .default s)) := by
  unfold runLoop
  simp only [hc, hh, Bool.not_true, Bool.or_self, Bool.false_eq_true, if_false]
  have : (Mode.default == Mode.once || Mode.default == Mode.nowait) = false := by decide
  simp only [this, Bool.false_eq_true, if_false]
  unfold runLoop
  simp [runCond, hs]

/-- UV_RUN_ONCE / UV_RUN_NOWAIT run exactly one iteration when the loop is alive and not stopped -/
theorem once_one_iteration (sc : Script) (mode : Mode) (fuel : Nat) (s : State) (r : Bool) (hm : mode ≠ .default)
    (hc : runCond r s.stop = true) (hh : s.halted = false) :
    runLoop sc mode (fuel + 1) s r = some (iteration sc mode s, alive (iteration sc mode s)) := by
  unfold runLoop
  simp only [hc, hh, Bool.not_true, Bool.or_self, Bool.false_eq_true, if_false]
  cases mode <;> simp_all

/-! ### the timeout loop of uv__io_poll -/
/-- `block_bound`, step form: when the loop goes back to `epoll_pwait` after an empty or interrupted poll
    with a finite timeout, the new timeout is the remaining time `real_timeout − (time − base)`, positive, and —
    for a monotone clock — never more than what was left before. -/
theorem block_bound_step (c c' : PollCtl) (time : Nat) (h : updateTimeout c time = some c')
    (hmono : c.base ≤ time) (hfin : c.timeout ≠ -1) :
    c'.timeout = c.realTimeout - ((time : Int) - c.base) ∧ 0 < c'.timeout ∧ c'.timeout ≤ c.realTimeout ∧
    c'.realTimeout = c'.timeout ∧ c'.base = c.base := by
  unfold updateTimeout at h
  split at h
  · simp at h
  · split at h
    · rename_i h1; exact absurd (by simpa using h1) hfin
    · simp only at h
      split at h
      · simp at h
      · simp only [Option.some.injEq] at h
        subst h
        and_intros <;> first | rfl | (simp only []; omega) | (simp; omega) | simp

/-- an unlimited timeout stays unlimited; a zero timeout ends the loop -/
theorem block_bound_edges (c : PollCtl) (time : Nat) :
    (c.timeout = 0 → updateTimeout c time = none) ∧ (c.timeout = -1 → updateTimeout c time = some c) := by
  constructor
  · intro h; simp [updateTimeout, h]
  · intro h; simp [updateTimeout, h]

/-- with UV_METRICS_IDLE_TIME the first poll of `uv__io_poll` has timeout 0 and the user's timeout is kept for the
    second one; without it the first poll gets the user's timeout -/
theorem block_bound_metrics (sc : Script) (s : State) (t : Int) :
    ioPoll sc s t = pollLoop sc ((flushWatchers s).oracle.length + 1) (flushWatchers s)
      (if (flushWatchers s).metrics then
        { timeout := 0, realTimeout := t, userTimeout := t, reset := true, base := (flushWatchers s).tm.time, count := 48 }
       else { timeout := t, realTimeout := t, userTimeout := 0, reset := false, base := (flushWatchers s).tm.time, count := 48 }) := rfl

/-- the bound as first written: only "the clock never reads below `loop->time`" is assumed.  FALSE of the model:
    `uv__update_time` stores the clock reading modulo 2^64 (`Timer.updateTime`), so a reading ≥ 2^64 makes
    `loop->time` jump back below `base` and `real_timeout − (time − base)` grows beyond the user's timeout
    (`block_bound_statement_false`).  A real `uv__hrtime()/1e6` is a `uint64_t`, i.e. < 2^64: `block_bound`. -/
def block_bound_statement : Prop :=
  ∀ (sc : Script) (s : State) (t : Int), (∀ r ∈ s.oracle, s.tm.time ≤ r.clock) →
    ∀ it tmo r, Event.poll it tmo r ∈ (ioPoll sc s t).trace → Event.poll it tmo r ∉ s.trace →
      tmo = 0 ∨ tmo = t ∨ (0 < tmo ∧ tmo ≤ t)

/-- counterexample: `loop->time` = 10, timeout 5; the first `epoll_pwait` is interrupted with the clock at 2^64
    (⇒ `loop->time` = 0), the second one is entered with timeout 5 − (0 − 10) = 15 -/
theorem block_bound_statement_false : ¬ block_bound_statement := by
  intro h
  have ht : (ioPoll (fun _ _ _ => []) { tm := { time := 10 }, oracle := [{ eintr := true, clock := 2 ^ 64 }, { clock := 2 ^ 64 + 20 }] } 5).trace =
      [.poll 0 15 { clock := 2 ^ 64 + 20 }, .poll 0 5 { eintr := true, clock := 2 ^ 64 }] := by rfl
  have := h (fun _ _ _ => []) { tm := { time := 10 }, oracle := [{ eintr := true, clock := 2 ^ 64 }, { clock := 2 ^ 64 + 20 }] } 5
    (by decide) 0 15 { clock := 2 ^ 64 + 20 } (by rw [ht]; exact List.mem_cons_self) (by simp)
  omega

/-- `block_bound`, corrected: every clock reading during the call is a `uint64_t` not below `loop->time` -/
def block_bound_corrected : Prop :=
  ∀ (sc : Script) (s : State) (t : Int), (∀ r ∈ s.oracle, s.tm.time ≤ r.clock ∧ r.clock < Timer.U64) →
    ∀ it tmo r, Event.poll it tmo r ∈ (ioPoll sc s t).trace → Event.poll it tmo r ∉ s.trace →
      tmo = 0 ∨ tmo = t ∨ (0 < tmo ∧ tmo ≤ t)

/-- `block_bound`: whatever the callbacks dispatched inside `uv__io_poll` do (for every script, every sequence of
    poll results), each timeout handed to `epoll_pwait` is 0, the caller's timeout, or positive and below it -/
theorem block_bound : block_bound_corrected := by
  intro sc s t h it tmo r hm hn
  obtain ⟨new, ht, hp⟩ := Phases.ioPoll_ext True t sc s s (Phases.TrExt.refl _ s) (fun _ => h)
  rw [ht] at hm
  rcases List.mem_append.1 hm with h1 | h1
  · exact hp _ h1 trivial
  · exact absurd h1 hn

/-- UV_METRICS_IDLE_TIME, timeout 10 at time 100, three interrupted polls (clock 100, 103, 104), then a quiet one:
    the timeouts handed to the poller are 0, 10, 7, 3 (`real_timeout -= time − base` with `base` fixed) -/
example :
    let s : State := initLoop 100 true [{ eintr := true, clock := 100 }, { eintr := true, clock := 103 }, { eintr := true, clock := 104 }, { clock := 120 }]
    (∀ r ∈ s.oracle, s.tm.time ≤ r.clock ∧ r.clock < Timer.U64) ∧
    (ioPoll (fun _ _ _ => []) s 10).trace.reverse.filterMap (fun e => match e with | .poll _ t r => some (t, r.clock) | _ => none) =
      [(0, 100), (10, 103), (7, 104), (3, 120)] := by
  decide

/-! ### loop watchers -/
/-- `uv__run_idle/prepare/check` detach the list; a handle started during the phase goes to the head of the
    *loop* list, never into the detached queue, so it cannot be called in this iteration -/
theorem watcher_start_not_in_detached (s : State) (k : WKind) (id : Nat) :
    (watcherStart s k id).watcherLocal = s.watcherLocal := by
  unfold watcherStart
  split
  · rfl
  · simp only [hStart, withKernel]
    cases k <;> rfl

/-- a handle stopped during the phase leaves the detached queue: it is not called any more -/
theorem watcher_stop_leaves_detached (s : State) (k : WKind) (id : Nat)
    (ha : ((getF s id).map (·.active)).getD false = true) :
    id ∉ (watcherStop s k id).watcherLocal := by
  unfold watcherStop
  simp only [ha, Bool.not_true, Bool.false_eq_true, if_false, hStop, withKernel]
  cases k <;> simp [setWList]

/-- each round pops one entry of the detached queue and appends it to the loop list before calling it -/
theorem runWatchers_detaches (sc : Script) (k : WKind) (s : State) :
    runWatchers sc k s = runWatchersLoop sc k ((wList s k).length + 1)
      (setWList { s with watcherLocal := wList s k } k []) := by
  unfold runWatchers
  cases k <;> rfl

def watcher_once_statement : Prop :=
  ∀ (sc : Script) (k : WKind) (s : State) (id : Nat), (wList s k).Nodup →
    ((runWatchers sc k s).trace.filter (fun e => match e with
      | .cb _ kk i _ _ => kk == wCb k && i == id | _ => false)).length ≤
    (s.trace.filter (fun e => match e with | .cb _ kk i _ _ => kk == wCb k && i == id | _ => false)).length + 1

def phase_order_statement : Prop :=
  ∀ (sc : Script) (mode : Mode) (s : State),
    let evs := ((iteration sc mode s).trace.take ((iteration sc mode s).trace.length - s.trace.length)).reverse
    let phases := evs.filterMap (fun e => match e with | .cb ph _ _ _ _ => some ph | _ => none)
    phases.Pairwise (fun a b => a.ctorIdx ≤ b.ctorIdx)

/-- `watcher_once`: one pass of `uv__run_idle/prepare/check` invokes the callback of any handle at most once,
    whatever the callbacks do (stop, restart, close themselves or each other) -/
theorem watcher_once : watcher_once_statement := by
  intro sc k s id hn
  exact Phases.runWatchers_cnt (fun e => match e with | .cb _ kk i _ _ => kk == wCb k && i == id | _ => false)
    (fun _ _ => rfl) (fun _ => rfl) rfl k id (fun _ _ _ _ _ => rfl) sc s hn

/-- `watcher_once`, the "exactly once" half: an idle/prepare/check handle that is in the loop list when its phase
    starts, whose record exists, and that no callback running in the phase stops or closes (= it stays ACTIVE from
    the first to the last event of its phase) is called exactly once in that phase — whatever else the callbacks
    do (stop / restart / close other watchers, start new ones, …). -/
theorem watcher_exactly_once (sc : Script) (k : WKind) (s : State) (id : Nat) (hn : (wList s k).Nodup)
    (hh : s.halted = false) (hm : id ∈ wList s k) (hp : (getH s id).isSome)
    (hsc : ∀ key occ g, ∀ o ∈ sc key occ g, o ≠ Op.stop id ∧ o ≠ Op.close id) :
    ((runWatchers sc k s).trace.filter (fun e => match e with
      | .cb _ kk i _ _ => kk == wCb k && i == id | _ => false)).length =
    (s.trace.filter (fun e => match e with | .cb _ kk i _ _ => kk == wCb k && i == id | _ => false)).length + 1 :=
  Phases.runWatchers_cnt_eq (fun e => match e with | .cb _ kk i _ _ => kk == wCb k && i == id | _ => false)
    (fun _ _ => rfl) (fun _ => rfl) rfl k id (fun _ _ _ _ _ => rfl) sc hsc s hn hh hm ((getH_isSome_iff s id).mp hp)

/-- the same theorem under the name used in the work plan -/
theorem watcher_once_exactly (sc : Script) (k : WKind) (s : State) (id : Nat) (hn : (wList s k).Nodup)
    (hh : s.halted = false) (hm : id ∈ wList s k) (hp : (getH s id).isSome)
    (hsc : ∀ key occ g, ∀ o ∈ sc key occ g, o ≠ Op.stop id ∧ o ≠ Op.close id) :
    ((runWatchers sc k s).trace.filter (fun e => match e with
      | .cb _ kk i _ _ => kk == wCb k && i == id | _ => false)).length =
    (s.trace.filter (fun e => match e with | .cb _ kk i _ _ => kk == wCb k && i == id | _ => false)).length + 1 :=
  watcher_exactly_once sc k s id hn hh hm hp hsc

/-- two idle handles; the callback of the first stops and restarts the *other* one: handle 3 is never stopped, it
    is called exactly once -/
example :
    let s0 := ([Op.init .idle, .init .idle, .start 2 0 0, .start 3 0 0].foldl stepOp (initLoop 0 false []))
    let sc : Script := fun key occ _ => if key = .h 3 ∧ occ = 0 then [.stop 2, .start 2 0 0] else []
    ((runWatchers sc .idle s0).trace.filter (fun e => match e with
      | .cb _ kk i _ _ => kk == wCb .idle && i == 3 | _ => false)).length = 1 := by decide

/-- `phase_order`: within one loop iteration the callbacks come phase by phase — pending, idle, prepare, poll,
    pending (again), check, closing, timers — for every script, mode and sequence of poll results -/
theorem phase_order : phase_order_statement := by
  intro sc mode s
  obtain ⟨new, ht, hp, _⟩ := Phases.iteration_mono sc mode s
  simp only
  rw [ht, List.length_append, Nat.add_sub_cancel, List.take_left' rfl]
  exact hp

/-- one iteration touching seven phases: a completed udp send (pending), idle (stops itself), prepare, an async
    wakeup (poll), check, a close callback, a due timer -/
example :
    let s0 := [Op.init .idle, .init .prepare, .init .check, .init .timer, .init .idle, .init .async, .init .udp,
      .start 2 0 0, .start 3 0 0, .start 4 0 0, .start 5 0 0, .close 6, .asyncSend 7, .udpSend 8].foldl stepOp
      (initLoop 0 false [{ batch := [(.async, 1)], clock := 5 }])
    let sc : Script := fun key occ _ => if key = .h 2 ∧ occ = 0 then [.stop 2] else []
    ((iteration sc .default s0).trace.take ((iteration sc .default s0).trace.length - s0.trace.length)).reverse.filterMap
      (fun e => match e with | .cb ph k i _ _ => some (ph, k, i) | _ => none) =
    [(.pending, .udpSend, 0), (.idle, .idle, 2), (.prepare, .prepare, 3), (.poll, .async, 7), (.check, .check, 4),
     (.closing, .close, 6), (.timers, .timer, 5)] := by
  decide +kernel

/-- three idle handles; the first one's callback stops the second and restarts itself... every handle at most
    once, in list order (head insertion: last started first) -/
example :
    let s0 := ([Op.init .idle, .init .idle, .init .idle, .start 2 0 0, .start 3 0 0, .start 4 0 0].foldl stepOp (initLoop 0 false []))
    let sc : Script := fun key occ _ => if key = .h 4 ∧ occ = 0 then [.stop 3, .stop 4, .start 4 0 0] else []
    ((runWatchers sc .idle s0).trace.reverse.filterMap (fun e => match e with | .cb _ _ i _ _ => some i | _ => none)) = [4, 2] := by
  decide

/-- `phase_order` for a whole `uv_run` (every mode, script, fuel, sequence of poll results): the new part of the
    trace, oldest first, is `seg0 ++ segs.flatten` where
    (1) `seg0` is the initial timer pass: its callbacks all have phase `timers0`, and it contains no callback at all
        unless `initialTimers mode (alive s) s.stop` (UV_RUN_DEFAULT, loop alive, no `uv_stop` pending);
    (2) every `seg ∈ segs` is the event list of one loop iteration: its callback phases are in order
        (pending, idle, prepare, poll, pending2, check, closing, timers) and none is `timers0`.
    `Phases.phasesOf l` = the phases of the `cb` events of `l`, in order. -/
theorem phase_order_default_initial (sc : Script) (mode : Mode) (fuel : Nat) (s s' : State) (r : Bool)
    (h : uvRun sc mode fuel s = some (s', r)) :
    ∃ (seg0 : List Event) (segs : List (List Event)),
      s'.trace.reverse = s.trace.reverse ++ seg0 ++ segs.flatten ∧
      (∀ p ∈ Phases.phasesOf seg0, p = Phase.timers0) ∧
      (initialTimers mode (alive s) s.stop = false → Phases.phasesOf seg0 = []) ∧
      ∀ seg ∈ segs, (Phases.phasesOf seg).Pairwise (fun a b => a.ctorIdx ≤ b.ctorIdx) ∧
        Phase.timers0 ∉ Phases.phasesOf seg :=
  Phases.uvRun_trace sc mode fuel s s' r h

/-- UV_RUN_DEFAULT: a due timer fires in the initial pass (and re-arms itself for 1 ms); first iteration: idle,
    check, the timer again (phase `timers`); second iteration: idle, which stops idle and check — the loop ends.
    `none` marks the `iterBegin` events.  Phases are ordered inside each iteration, not across iterations. -/
example :
    let s0 := [Op.init .timer, .init .idle, .init .check, .start 2 0 0, .start 3 0 0, .start 4 0 0].foldl stepOp
      (initLoop 0 false [{ clock := 1 }, { clock := 2 }])
    let sc : Script := fun key occ _ =>
      if key = .h 3 ∧ occ = 1 then [.stop 3, .stop 4] else if key = .h 2 ∧ occ = 0 then [.start 2 1 0] else []
    (uvRun sc .default 5 s0).map (fun p => (p.2, (p.1.trace.reverse.drop s0.trace.length).filterMap
      (fun e => match e with | .cb ph _ i _ _ => some (some (ph, i)) | .iterBegin => some none | _ => none))) =
    some (false, [some (.timers0, 2), none, some (.idle, 3), some (.check, 4), some (.timers, 2), none, some (.idle, 3)]) := by
  decide +kernel

/-! ### uv_backend_timeout from inside the idle phase (recorded finding `backend-timeout-inside-idle-phase`) -/
/-- what the property text asks for: 0 whenever *some idle handle is active* -/
def backend_timeout_idle_statement : Prop :=
  ∀ (s : State) (id : Nat), s.closed = false →
    (getH s id).map (·.kind) = some .idle → (getF s id).map (·.active) = some true →
    (applyOp s .getBackendTimeout).2 = some 0

/-- FALSE of the code: `uv__run_idle` detaches the list; inside the first idle callback (which stops its own handle)
    the second idle handle is active but sits in the detached queue, and `uv_backend_timeout()` answers -1
    (reproduced on the implementation: corpus/C03/backend-timeout-in-idle-phase.txt) -/
theorem backend_timeout_idle_statement_false : ¬ backend_timeout_idle_statement := by
  intro h
  -- the state inside uv__run_idle after the first handle (id 3) was popped, re-appended and stopped itself
  let s0 := flushWatchers ([Op.init .idle, .init .idle, .start 2 0 0, .start 3 0 0].foldl stepOp (initLoop 0 false []))
  let s1 := (applyOp { s0 with watcherLocal := [2], idle := [3] } (.stop 3)).1
  have := h s1 2 (by decide) (by decide) (by decide)
  revert this
  decide

/-- the same through the real phase function: the idle callback of h1 (id 3) stops itself and asks -/
example :
    let s0 := flushWatchers ([Op.init .idle, .init .idle, .start 2 0 0, .start 3 0 0].foldl stepOp (initLoop 0 false []))
    let sc : Script := fun key occ _ => if key = .h 3 ∧ occ = 0 then [.stop 3, .getBackendTimeout] else []
    ((runWatchers sc .idle s0).trace.filterMap (fun e => match e with
        | .op .getBackendTimeout r => some r | _ => none)) = [some (-1)] := by decide

/-- corrected statement: 0 whenever the *loop's* idle list is non-empty, i.e. outside the idle phase for every active
    idle handle, inside it for the handles already called (and re-appended) or started during the phase -/
theorem backend_timeout_idle_corrected (s : State) (hc : s.closed = false) (hi : s.idle ≠ []) :
    (applyOp s .getBackendTimeout).2 = some 0 := by
  rw [backend_timeout_api]
  simp only [hc, Bool.false_eq_true, if_false]
  split
  · rfl
  · rw [timeout_rule]; simp [hi]

end UvModel.Props.C03
