import UvModel.StreamR
/-! C06 — the liveness half of "reading stops only on UV_EOF, a read error, uv_read_stop() or uv_close()".

    `reading_implies_armed`: in every reachable state, UV_HANDLE_READING implies that the watcher is armed for POLLIN
    and read_cb is set — so the next POLLIN / POLLHUP / POLLERR for the descriptor enters the loop of uv__read
    (`armed_poll_enters_read`).  `refusal_keeps_reading`: a refused alloc_cb (UV_ENOBUFS) whose read_cb neither stops
    nor closes leaves the stream reading and armed; same for EAGAIN (`nread 0`) and for a data read. -/
namespace UvModel.Props.C06Live
open UvModel.StreamR

/-- UV_HANDLE_READING ⇒ POLLIN armed ∧ read_cb set -/
def Armed (s : St) : Prop := s.reading = true → s.pollin = true ∧ s.hasCb = true

theorem armed_doOp (s : St) (op : CbOp) (h : Armed s) : Armed (doOp s op) := by
  cases op <;> simp only [doOp, readStop, readStart, closeH, emit, Armed] at * <;> (repeat' split) <;> simp_all

theorem armed_runOps (ops : List CbOp) : ∀ s, Armed s → Armed (runOps s ops) := by
  induction ops with
  | nil => intro s h; simpa [runOps] using h
  | cons o t ih =>
    intro s h
    have h2 := ih (doOp s o) (armed_doOp s o h)
    simpa [runOps] using h2

theorem armed_callReadCb (u : User) (s : St) (n : Int) (buf : Option Nat) (b : List Byte) (h : Armed s) :
    Armed (callReadCb u s n buf b) := by
  apply armed_runOps
  simpa [Armed, emit] using h

theorem armed_streamEof (u : User) (s : St) (buf : Option Nat) : Armed (streamEof u s buf) := by
  apply armed_callReadCb
  simp [Armed]

theorem armed_afterRead (u : User) (s : St) (id sz : Nat) (r : RRes) (h : Armed s) : Armed (afterRead u s id sz r).1 := by
  cases r with
  | eagain =>
    simp only [afterRead]
    apply armed_callReadCb
    by_cases hr : s.reading = true
    · have h2 := h hr
      simp [Armed, hr, h2.2]
    · simpa [hr] using h
  | err e =>
    simp only [afterRead]
    have h1 : Armed (callReadCb u { s with readable := false, writable := false } (-(e : Int)) (some id) []) := by
      apply armed_callReadCb; simpa [Armed] using h
    split
    · simp [Armed]
    · exact h1
  | eof => simp only [afterRead]; exact armed_streamEof u s (some id)
  | data bs =>
    simp only [afterRead]
    have h1 : Armed (callReadCb u s bs.length (some id) bs) := armed_callReadCb u s _ _ _ h
    split
    · split
      · simpa [Armed] using h1
      · exact h1
    · exact h1

theorem armed_readRound (u : User) (s : St) (h : Armed s) : Armed (readRound u s).1 := by
  simp only [readRound]
  split
  · apply armed_callReadCb; simpa [Armed, emit] using h
  · apply armed_afterRead; simpa [Armed, emit] using h

theorem armed_readLoop (u : User) : ∀ (count : Nat) (s : St), Armed s → Armed (readLoop u count s) := by
  intro count
  induction count with
  | zero => intro s h; simpa [readLoop] using h
  | succ n ih =>
    intro s h
    simp only [readLoop]
    split
    · exact h
    · split
      · exact ih _ (armed_readRound u s h)
      · exact armed_readRound u s h

theorem armed_uvRead (u : User) (s : St) (h : Armed s) : Armed (uvRead u s) := by
  apply armed_readLoop; simpa [Armed] using h

theorem armed_streamIo (u : User) (s : St) (ev : PollEv) (h : Armed s) : Armed (streamIo u s ev) := by
  have h1 : Armed (if (ev.inn || ev.err || ev.hup) = true then uvRead u s else s) := by
    by_cases c : (ev.inn || ev.err || ev.hup) = true
    · rw [if_pos c]; exact armed_uvRead u s h
    · rw [if_neg c]; exact h
  simp only [streamIo]
  generalize (if (ev.inn || ev.err || ev.hup) = true then uvRead u s else s) = s1 at h1 ⊢
  by_cases c1 : (!s1.fdOpen) = true
  · rw [if_pos c1]; exact h1
  · rw [if_neg c1]
    by_cases c2 : (ev.hup && s1.reading && s1.readPartial && !s1.readEof) = true
    · rw [if_pos c2]; exact armed_streamEof u _ none
    · rw [if_neg c2]; exact h1

theorem armed_ioPoll (u : User) (s : St) (ev : PollEv) (h : Armed s) : Armed (ioPoll u s ev) := by
  have key : ∀ (c : Prop) [Decidable c] (e : PollEv), Armed (if c then streamIo u s e else s) := by
    intro c _ e
    by_cases hc : c
    · rw [if_pos hc]; exact armed_streamIo u s e h
    · rw [if_neg hc]; exact h
  simp only [ioPoll]
  by_cases c : (!(s.pollin || ev.wantOut)) = true
  · rw [if_pos c]; exact h
  · rw [if_neg c]; apply key

theorem armed_stepOp (u : User) (s : St) (op : Op) (h : Armed s) : Armed (stepOp u s op) := by
  cases op with
  | start => exact armed_doOp s .start h
  | stop => exact armed_doOp s .stop h
  | close => exact armed_doOp s .close h
  | poll ev reads =>
    simp only [stepOp, runClosing]
    have h1 : Armed (ioPoll u { s with oracle := reads } ev) := armed_ioPoll u _ ev (by simpa [Armed] using h)
    split
    · simpa [Armed, emit] using h1
    · exact h1
  | peerW bytes =>
    simp only [stepOp]
    split
    · exact h
    · simpa [Armed, emit] using h
  | peerShut => simpa [stepOp, Armed, emit] using h

/-- **While UV_HANDLE_READING is set the watcher is armed for POLLIN and read_cb is set**, in every state any program,
    user, event sequence and read-outcome schedule can reach.  Reading is therefore never left "set but deaf". -/
theorem reading_implies_armed (u : User) (ipc : Bool) (ops : List Op) :
    (exec u (start ipc) ops).reading = true →
      (exec u (start ipc) ops).pollin = true ∧ (exec u (start ipc) ops).hasCb = true := by
  have : ∀ (ops : List Op) (s : St), Armed s → Armed (exec u s ops) := by
    intro ops
    induction ops with
    | nil => intro s h; simpa [exec] using h
    | cons o t ih => intro s h; simpa [exec] using ih (stepOp u s o) (armed_stepOp u s o h)
  exact this ops (start ipc) (by simp [Armed, start])

/-- uv_read_start on a stream that is already reading changes nothing but the trace (UV_EALREADY / UV_EINVAL) -/
theorem runOps_starts_keep (ops : List CbOp) : ∀ (s : St), s.reading = true → (∀ op ∈ ops, op = CbOp.start) →
    (runOps s ops).reading = true ∧ (runOps s ops).pollin = s.pollin ∧ (runOps s ops).hasCb = s.hasCb ∧
    (runOps s ops).kbuf = s.kbuf := by
  induction ops with
  | nil => intro s hr _; simp [runOps, hr]
  | cons o t ih =>
    intro s hr hall
    have ho : o = CbOp.start := hall o (by simp)
    subst ho
    have hd : (doOp s .start).reading = true ∧ (doOp s .start).pollin = s.pollin ∧ (doOp s .start).hasCb = s.hasCb ∧
        (doOp s .start).kbuf = s.kbuf := by
      simp only [doOp, readStart, emit, hr]
      split <;> simp [hr]
    have h2 := ih (doOp s .start) hd.1 (fun op hop => hall op (by simp [hop]))
    simp only [runOps, List.foldl_cons] at h2 ⊢
    exact ⟨h2.1, h2.2.1.trans hd.2.1, h2.2.2.1.trans hd.2.2.1, h2.2.2.2.trans hd.2.2.2⟩

/-- **UV_ENOBUFS is not a stop condition.**  When alloc_cb refuses (NULL base / zero length) and the read callback that
    receives UV_ENOBUFS neither stops nor closes (it may call uv_read_start again, which answers UV_EALREADY), the round
    of uv__read leaves UV_HANDLE_READING set, POLLIN armed, read_cb set and the kernel buffer untouched: the pending
    bytes and the end of the stream are delivered by the following iterations (level-triggered POLLIN). -/
theorem refusal_keeps_reading (u : User) (s : St) (hr : s.reading = true) (hp : s.pollin = true) (hc : s.hasCb = true)
    (hz : u.allocS s.nAlloc = 0) (hk : ∀ op ∈ u.cbS s.nCb, op = CbOp.start) :
    (readRound u s).1.reading = true ∧ (readRound u s).1.pollin = true ∧ (readRound u s).1.hasCb = true ∧
    (readRound u s).1.kbuf = s.kbuf ∧ (readRound u s).2 = false := by
  have h := runOps_starts_keep (u.cbS s.nCb)
    (emit { (emit { s with nAlloc := s.nAlloc + 1 } (.alloc s.nAlloc (u.allocS s.nAlloc))) with nCb := s.nCb + 1 }
      (.readCb UV_ENOBUFS (some s.nAlloc) [])) (by simpa [emit] using hr) hk
  simp only [readRound, hz, if_true, callReadCb]
  simp only [emit, hz] at h ⊢
  exact ⟨h.1, by rw [h.2.1]; exact hp, by rw [h.2.2.1]; exact hc, h.2.2.2, trivial⟩

/-- non-vacuity + the end-to-end shape: a refusal in the middle of the data, a read_cb that just returns; the rest of
    the bytes and UV_EOF arrive on the following iterations -/
example : (exec { allocS := fun k => if k = 1 then 0 else 2, cbS := fun _ => [] } (start false)
      [.start, .peerW [1, 2, 3], .peerShut, .poll { inn := true } [], .poll { inn := true } [], .poll { inn := true } []]).trace =
    [.ret .start 0, .peerW [1, 2, 3], .peerShut, .alloc 0 2, .readCb 2 (some 0) [1, 2], .alloc 1 0, .readCb (-105) (some 1) [],
     .alloc 2 2, .readCb 1 (some 2) [3], .alloc 3 2, .readCb (-4095) (some 3) []] := by decide

example : (readRound { allocS := fun _ => 0, cbS := fun _ => [.start] }
    { reading := true, pollin := true, hasCb := true, kbuf := [1, 2] }).1.reading = true := by decide

end UvModel.Props.C06Live
