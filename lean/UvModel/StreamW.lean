/-!
  Model of the write side of src/unix/stream.c (Linux build):
  uv_write2 / uv_write (1333-1413), uv_try_write(2) (1416-1438), uv__check_before_write
  (1295-1331), uv__write (840-898), uv__try_write (754-838), uv__write_req_update (688-711),
  uv__write_req_size (670-679), uv__write_req_finish (714-737), uv__write_callbacks (901-929),
  uv__drain (626-659), uv_shutdown (1160-1186), the POLLOUT half of uv__stream_io (1189-1238),
  uv__stream_connect (1246-1292), uv__stream_close (1509-1562), uv__stream_flush_write_queue /
  uv__stream_destroy (440-470), and one `uv_run(UV_RUN_NOWAIT)` iteration (core.c 427-492) as far
  as a single stream is concerned.

  Kernel input: the list of outcomes of the write/writev/sendmsg calls (`env`), the result of
  shutdown(2) (`shutErr`) and of the connect (`connErr`).  User callbacks are a script: the k-th
  callback invocation (all kinds counted together) performs a list of API ops.
  Bytes are identifiable: byte `off` of the data passed to the call numbered `id` is `(id, off)`.

  Not modelled: UV_HANDLE_BLOCKING_WRITES (set by tty.c only; C05 is about TCP/pipe streams),
  the read side, a send_handle that is itself closing (UV_EBADF branch at 785), macOS branches.
  Allocation failure of the uv_buf_t vector in uv_write2 (nbufs > 4) is an input (`writeNoMem`);
  the request-counter side of that path belongs to C16.
-/
namespace UvModel.StreamW

def IOV_MAX : Nat := 1024
def EINTR : Nat := 4
def EAGAIN : Nat := 11
def ENOBUFS : Nat := 105
def UV_EAGAIN : Int := -11
def UV_EPIPE : Int := -32
def UV_EBADF : Int := -9
def UV_EINVAL : Int := -22
def UV_ENOTCONN : Int := -107
def UV_ECANCELED : Int := -125
def UV_ENOMEM : Int := -12
/-- ARRAY_SIZE(req->bufsml): larger vectors are heap-allocated by uv_write2 -/
def BUFSML : Nat := 4

/-- what one write/writev/sendmsg call does: accept `min k requested` bytes, or fail with errno -/
inductive Outcome where
  | ok (k : Nat)
  | fail (errno : Nat)
deriving DecidableEq, Repr, Inhabited

/-- API operations (callable from the main program and from inside callbacks) -/
inductive Op where
  | write (bufs : List Nat) (send : Bool)       -- uv_write2 with buffer lengths; send_handle given?
  | writeNoMem (bufs : List Nat) (send : Bool)  -- the same call while uv__malloc refuses the next allocation
  | tryWrite (bufs : List Nat) (send : Bool)    -- uv_try_write2
  | shutdown
  | close
deriving DecidableEq, Repr, Inhabited

/-- what the loop / the environment can do between API calls -/
inductive LOp where
  | api (o : Op)
  | feed (outs : List Outcome)   -- more scripted syscall outcomes become available
  | clearEnv                     -- the remaining script is dropped: from now on the OS accepts everything
  | runPending                   -- uv__run_pending: the uv__io_feed'd watcher gets POLLOUT
  | pollout                      -- uv__io_poll delivers POLLOUT (only if armed)
  | endgame                      -- uv__run_closing_handles -> uv__finish_close
deriving Repr, Inhabited

abbrev Script := Nat → List Op

structure Req where
  id    : Nat
  bufs  : List Nat            -- current `len` of each of the nbufs buffers (mutated by req_update)
  widx  : Nat := 0            -- write_index
  send  : Bool := false       -- send_handle != NULL
  error : Int := 0
  freed : Bool := false       -- req->bufs == NULL
  total : Nat := 0            -- ghost: bytes submitted
  sent  : Nat := 0            -- ghost: bytes accepted by the OS so far
  nok   : Nat := 0            -- ghost: successful syscalls so far
deriving DecidableEq, Repr, Inhabited

/-- uv__write_req_size: bytes from write_index on -/
def rem (r : Req) : Nat := (r.bufs.drop r.widx).sum

def unsent (l : List Req) : Nat := (l.map rem).sum

inductive Ev where
  | sys (kind iovcnt total : Nat) (res : Int) (fd : Bool)   -- kind 0 write, 1 writev, 2 sendmsg
  | shutsys (res : Int)
  | ret (rc : Int)
  | obs (wqs : Int) (unsentSum : Nat)
  | cb (id : Nat) (status : Int)
  | shutcb (status : Int)
  | conncb (status : Int)
  | closecb
deriving DecidableEq, Repr, Inhabited

structure CbRec where
  id : Nat
  status : Int
  sent : Nat
  total : Nat
deriving DecidableEq, Repr, Inhabited

structure S where
  -- configuration
  ipc      : Bool := false     -- UV_NAMED_PIPE with ipc
  shutErr  : Int := 0          -- result of shutdown(2): 0 or -errno
  connErr  : Int := 0          -- SO_ERROR / delayed_error seen by uv__stream_connect
  -- uv_stream_t
  fdOpen   : Bool := true      -- io_watcher.fd >= 0
  writable : Bool := true      -- UV_HANDLE_WRITABLE
  shut     : Bool := false     -- UV_HANDLE_SHUT
  closing  : Bool := false     -- UV_HANDLE_CLOSING
  closed   : Bool := false     -- uv__finish_close done
  connecting : Bool := false   -- connect_req != NULL
  wq  : List Req := []         -- write_queue
  cq  : List Req := []         -- write_completed_queue
  pq  : List Req := []         -- local `pq` of uv__write_callbacks (empty outside it)
  wqs : Int := 0               -- write_queue_size
  shutdownReq : Bool := false  -- shutdown_req != NULL
  pollout : Bool := false      -- io_watcher armed for POLLOUT
  pending : Bool := false      -- io_watcher in loop->pending_queue
  -- environment and counters
  env    : List Outcome := []
  nextId : Nat := 0            -- number of write/try_write calls so far (= id of the next one)
  ncb    : Nat := 0            -- callbacks invoked so far
  trace  : List Ev := []       -- newest first
  -- ghost state for the theorems
  os        : List (Nat × Nat) := []    -- bytes accepted by the OS, in order
  submitted : List (Nat × Nat) := []    -- bytes of successful write / try_write calls, in call order
  accepted  : List Nat := []            -- ids of the uv_write2 calls that returned 0
  cbs       : List CbRec := []          -- write callbacks, in order
  hardErr   : Bool := false             -- a syscall failed with a hard error / the connect failed
  fdSent    : List (Nat × Nat) := []    -- (request id, #earlier successful syscalls) per descriptor sent
  shutSysPending : List Nat := []       -- ids still in write_queue when shutdown(2) was issued
  shutCbEarly    : List Nat := []       -- ids of accepted writes not yet called back at shutdown cb
  osAtShut  : Option (List (Nat × Nat)) := none   -- `os` when shutdown(2) succeeded
  obsBad    : Bool := false             -- some uv_stream_get_write_queue_size() observation was not exact
  shutdownCalled : Bool := false        -- uv_shutdown returned 0 at some point
deriving Repr, Inhabited

def emit (s : S) (e : Ev) : S := { s with trace := e :: s.trace }

/-- the identifiable bytes `(tag, off) .. (tag, off+n-1)` -/
def bytes (tag off n : Nat) : List (Nat × Nat) := (List.range n).map fun i => (tag, off + i)

/-! ### uv__write_req_update (688-711) -/

/-- the do-while of uv__write_req_update over the buffers from write_index on.  Returns the new
    lengths and the number of buffers advanced over.  `[]` = reading past the array (the C code
    would; excluded by `n <= write_queue_size`, see `WF`). -/
def updLoop : List Nat → Nat → List Nat × Nat
  | [], _ => ([], 0)
  | b :: rest, n =>
    let len := if n < b then n else b           -- len = n < buf->len ? n : buf->len
    if b - len = 0 then                         -- buf += (buf->len == 0)
      if n - len > 0 then                       -- while (n > 0)
        let r := updLoop rest (n - len)
        (0 :: r.1, r.2 + 1)
      else (0 :: rest, 1)
    else ((b - len) :: rest, 0)                 -- buf->len != 0 ⇒ len = n ⇒ loop ends

/-- uv__write_req_update without the write_queue_size part: (request, all written?) -/
def reqUpdate (r : Req) (n : Nat) : Req × Bool :=
  let u := updLoop (r.bufs.drop r.widx) n
  let r' := { r with bufs := r.bufs.take r.widx ++ u.1, widx := r.widx + u.2 }
  (r', r'.widx == r.bufs.length)

/-! ### uv__try_write (754-838) -/

/-- a successful syscall: `n` bytes `(tag, off..)` go to the OS -/
def accept (s : S) (kind iovcnt total : Nat) (fd : Bool) (tag off n : Nat) (env : List Outcome) : S :=
  { s with env := env, os := s.os ++ bytes tag off n,
           trace := .sys kind iovcnt total n fd :: s.trace }

/-- the `do n = write/writev/sendmsg(...) while (n == -1 && errno == EINTR)` loop (808-814).
    Returns n ≥ 0 or -errno.  An exhausted script accepts everything. -/
def sysLoop (kind iovcnt total : Nat) (fd : Bool) (tag off : Nat) : List Outcome → S → Int × S
  | [], s => (total, accept s kind iovcnt total fd tag off total [])
  | .ok k :: env, s => (min k total, accept s kind iovcnt total fd tag off (min k total) env)
  | .fail e :: env, s =>
    let s := emit s (.sys kind iovcnt total (-(e : Int)) fd)
    if e = EINTR then sysLoop kind iovcnt total fd tag off env s
    else (-(e : Int), { s with env := env })

/-- uv__try_write on the buffer lengths `lens` -/
def tryWriteOnce (s : S) (lens : List Nat) (send : Bool) (tag off : Nat) : Int × S :=
  let iovcnt := if lens.length > IOV_MAX then IOV_MAX else lens.length
  let total := (lens.take iovcnt).sum
  let kind := if send then 2 else if iovcnt = 1 then 0 else 1
  let r := sysLoop kind iovcnt total send tag off s.env s
  if r.1 ≥ 0 then r
  else if r.1 = -(EAGAIN : Int) ∨ r.1 = -(ENOBUFS : Int) then (UV_EAGAIN, r.2)
  else r

/-! ### uv__write (840-898) and uv__write_req_finish (714-737) -/

def finish (s : S) (r : Req) (rest : List Req) : S :=
  { s with wq := rest, cq := s.cq ++ [r], pending := true }

/-- one iteration of the `for (;;)` of uv__write (854-891) on a non-empty queue;
    the flag says "a request was finished, `continue` if count allows" -/
def writeIter (s : S) (r : Req) (rest : List Req) : S × Bool :=
  let res := tryWriteOnce s (r.bufs.drop r.widx) r.send r.id r.sent
  let n := res.1
  let s := res.2
  if n ≥ 0 then
    let u := reqUpdate { r with send := false, sent := r.sent + n.toNat, nok := r.nok + 1 } n.toNat
    let s := { s with wqs := s.wqs - n,
                      fdSent := if r.send then (r.id, r.nok) :: s.fdSent else s.fdSent }
    if u.2 then (finish s { u.1 with freed := true } rest, true)
    else ({ s with wq := u.1 :: rest, pollout := true }, false)
  else if n = UV_EAGAIN then ({ s with pollout := true }, false)
  else
    let s := finish s { r with error := n } rest
    ({ s with pollout := false, hardErr := true }, false)

/-- uv__write: `count` is the C variable (32 at entry; `if (count-- > 0) continue; return;`) -/
def writeLoop (count : Nat) (s : S) : S :=
  match s.wq with
  | [] => s
  | r :: rest =>
    let it := writeIter s r rest
    if it.2 then
      match count with
      | 0 => it.1
      | c + 1 => writeLoop c it.1
    else it.1

/-! ### API calls -/

def totalOf (bufs : List Nat) : Nat := bufs.sum

/-- uv__check_before_write (1295-1331) -/
def checkBeforeWrite (s : S) (send : Bool) : Int :=
  if !s.fdOpen then UV_EBADF
  else if !s.writable then UV_EPIPE
  else if send && !s.ipc then UV_EINVAL
  else 0

/-- uv_write2 (1333-1401); returns (state, return code) -/
def write2 (s : S) (bufs : List Nat) (send : Bool) (nomem : Bool := false) : S × Int :=
  let id := s.nextId
  let s := { s with nextId := s.nextId + 1 }
  let err := checkBeforeWrite s send
  if err < 0 then (s, err)
  -- 1375-1382: the vector is heap-allocated only when nbufs > ARRAY_SIZE(bufsml); on failure the
  -- request is unregistered and nothing else has been touched yet
  else if nomem ∧ bufs.length > BUFSML then (s, UV_ENOMEM)
  else
    let emptyQueue := s.wqs == 0
    let r : Req := { id := id, bufs := bufs, send := send, total := totalOf bufs }
    let s := { s with wqs := s.wqs + totalOf bufs, wq := s.wq ++ [r],
                      accepted := s.accepted ++ [id],
                      submitted := s.submitted ++ bytes id 0 (totalOf bufs) }
    if s.connecting then (s, 0)
    else if emptyQueue then (writeLoop 32 s, 0)
    else ({ s with pollout := true }, 0)

/-- uv_try_write2 (1423-1438) -/
def tryWrite2 (s : S) (bufs : List Nat) (send : Bool) : S × Int :=
  let id := s.nextId
  let s := { s with nextId := s.nextId + 1 }
  if s.connecting ∨ s.wqs ≠ 0 then (s, UV_EAGAIN)
  else
    let err := checkBeforeWrite s send
    if err < 0 then (s, err)
    else
      let res := tryWriteOnce s bufs send id 0
      let s := res.2
      if res.1 ≥ 0 then
        ({ s with submitted := s.submitted ++ bytes id 0 res.1.toNat,
                  fdSent := if send then (id, 0) :: s.fdSent else s.fdSent }, res.1)
      else if res.1 = UV_EAGAIN then (s, res.1)
      else ({ s with hardErr := true }, res.1)

/-- uv_shutdown (1160-1186) -/
def shutdownOp (s : S) : S × Int :=
  if !s.writable ∨ s.shut ∨ s.shutdownReq ∨ s.closing then (s, UV_ENOTCONN)
  else
    ({ s with shutdownReq := true, writable := false, shutdownCalled := true,
              pending := if s.wq.isEmpty then true else s.pending }, 0)

/-- uv_close on a stream: uv__stream_close (1509-1562).  Calling it twice is a caller bug
    (assert in uv_close); the drivers answer -1 without calling. -/
def closeOp (s : S) : S × Int :=
  if s.closing then (s, -1)
  else ({ s with closing := true, pollout := false, pending := false,
                 writable := false, fdOpen := false }, 0)

def apiOp (s : S) (o : Op) : S :=
  let r := match o with
    | .write bufs send => write2 s bufs send
    | .writeNoMem bufs send => write2 s bufs send true
    | .tryWrite bufs send => tryWrite2 s bufs send
    | .shutdown => shutdownOp s
    | .close => closeOp s
  let s := emit r.1 (.ret r.2)
  let u := unsent (s.pq ++ s.cq ++ s.wq)
  emit { s with obsBad := s.obsBad || (s.wqs != (u : Int)) } (.obs s.wqs u)

/-- a user callback: the scripted ops of invocation number `ncb` -/
def userCb (sc : Script) (s : S) : S :=
  (sc s.ncb).foldl apiOp { s with ncb := s.ncb + 1 }

/-! ### uv__write_callbacks (901-929) -/

/-- body of the while loop (911-928) for the request `r` just popped off `pq` -/
def cbOne (sc : Script) (r : Req) (s : S) : S :=
  -- 918-923: size touch-up for requests that failed / were cancelled
  let s := { s with wqs := if !r.freed then s.wqs - rem r else s.wqs,
                    cbs := s.cbs ++ [⟨r.id, r.error, r.sent, r.total⟩] }
  userCb sc (emit s (.cb r.id r.error))

def cbLoop (sc : Script) : List Req → S → S
  | [], s => s
  | r :: rest, s => cbLoop sc rest (cbOne sc r { s with pq := rest })

def writeCallbacks (sc : Script) (s : S) : S :=
  if s.cq.isEmpty then s
  else cbLoop sc s.cq { s with pq := s.cq, cq := [] }

/-! ### uv__drain (626-659) -/

def drain (sc : Script) (s : S) : S :=
  let s := { s with pollout := if !s.closing then false else s.pollout }
  if !s.shutdownReq then s
  else if s.closing ∨ !s.shut then
    let s := { s with shutdownReq := false }
    let pendingIds := (s.pq ++ s.cq ++ s.wq).map (·.id)
    if s.closing then
      userCb sc (emit { s with shutCbEarly := pendingIds } (.shutcb UV_ECANCELED))
    else
      let s := { s with shutSysPending := s.wq.map (·.id) }
      let s := emit s (.shutsys s.shutErr)
      let s := { s with shut := if s.shutErr = 0 then true else s.shut,
                        osAtShut := if s.shutErr = 0 then some s.os else s.osAtShut }
      userCb sc (emit { s with shutCbEarly := pendingIds } (.shutcb s.shutErr))
  else s

/-! ### uv__stream_flush_write_queue (440-452), uv__stream_connect (1246-1292) -/

def flush (s : S) : S :=
  { s with cq := s.cq ++ s.wq.map (fun r => { r with error := UV_ECANCELED }), wq := [] }

def streamConnect (sc : Script) (s : S) : S :=
  let s := { s with connecting := false,
                    -- 1285-1292: POLLOUT stays armed for queued writes or a pending shutdown
                    pollout := if s.connErr < 0 ∨ (s.wq.isEmpty ∧ !s.shutdownReq) then false else s.pollout,
                    hardErr := if s.connErr < 0 then true else s.hardErr }
  let s := userCb sc (emit s (.conncb s.connErr))
  if !s.fdOpen then s
  else if s.connErr < 0 then writeCallbacks sc (flush s)
  else s

/-! ### uv__stream_io with POLLOUT (1189-1238) -/

def streamIo (sc : Script) (s : S) : S :=
  if s.connecting then streamConnect sc s
  else
    let s := writeLoop 32 s
    let s := writeCallbacks sc s
    -- 1234-1241: drain only when no callback is owed either
    if s.wq.isEmpty ∧ s.cq.isEmpty then drain sc s else s

/-! ### uv__stream_destroy (455-470) + close_cb -/

def destroy (sc : Script) (s : S) : S :=
  -- 459-463: the callback runs while connect_req is still set
  let s := if s.connecting then
      { userCb sc (emit s (.conncb UV_ECANCELED)) with connecting := false }
    else s
  let s := flush s
  let s := writeCallbacks sc s
  let s := drain sc s
  userCb sc (emit { s with closed := true } .closecb)

def lstep (sc : Script) (s : S) : LOp → S
  | .api o => apiOp s o
  | .feed outs => { s with env := s.env ++ outs }
  | .clearEnv => { s with env := [] }
  | .runPending => if s.pending then streamIo sc { s with pending := false } else s
  | .pollout => if s.pollout then streamIo sc s else s
  | .endgame => if s.closing ∧ !s.closed then destroy sc s else s

def runOps (sc : Script) (s : S) (ops : List LOp) : S := ops.foldl (lstep sc) s

/-- one `uv_run(loop, UV_RUN_NOWAIT)` iteration (core.c 445-483) as seen by the stream:
    uv__run_pending, uv__io_poll, up to 8 more uv__run_pending, uv__run_closing_handles -/
def loopIter : List LOp :=
  [.runPending, .pollout] ++ List.replicate 8 .runPending ++ [.endgame]

end UvModel.StreamW
