import UvModel.Heap
/-!
  Model of src/timer.c (uv_timer_start/stop/again/set_repeat/get_due_in,
  uv__next_timeout, uv__run_timers, uv__timer_close) on top of the heap model.

  64-bit quantities (`loop->time`, `timeout`, `repeat`) are naturals below 2^64;
  `start` performs the C wrap-around test literally (`clamped < timeout` after
  reducing modulo 2^64).  `timer_counter` is a uint64 that only ever counts
  `uv_timer_start` calls; it is modelled as an unbounded Nat (wrap needs 2^64
  starts — stated in the trusted base).

  User callbacks are a *script*: the k-th timer callback invocation of the run
  (k counts all invocations so far) performs a list of operations.  Theorems
  quantify over every script.
-/
namespace UvModel.Timer
open UvModel.Heap

def U64 : Nat := 2 ^ 64
def INT_MAX : Nat := 2147483647

structure T where
  active  : Bool := false
  closing : Bool := false
  hasCb   : Bool := false      -- timer_cb != NULL
  timeout : Nat := 0           -- absolute due time (clamped)
  rep     : Nat := 0
  startId : Nat := 0
deriving DecidableEq, Repr, Inhabited

inductive Op where
  | start (id timeout rep : Nat)
  | stop (id : Nat)
  | again (id : Nat)
  | setRepeat (id rep : Nat)
  | close (id : Nat)
deriving DecidableEq, Repr, Inhabited

structure S where
  time    : Nat := 0
  counter : Nat := 0
  heap    : H := #[]
  ts      : Array T := #[]
  ready   : List Nat := []       -- `ready_queue` of uv__run_timers (empty outside a pass)
  ncb     : Nat := 0             -- number of timer callbacks invoked so far
  trace   : List (Nat × Nat) := []   -- (handle id, loop time) per callback, newest first
deriving Repr, Inhabited

def getT (s : S) (id : Nat) : T := s.ts.getD id default
def setT (s : S) (id : Nat) (t : T) : S := { s with ts := s.ts.setIfInBounds id t }

/-- uv_timer_stop -/
def stop (s : S) (id : Nat) : S :=
  let t := getT s id
  if t.active then
    let heap := match indexOf? s.heap id with
      | some i => remove s.heap i
      | none => s.heap
    setT { s with heap := heap } id { t with active := false }
  else
    -- uv__queue_remove(&handle->node.queue): leaves the ready queue if it was in it
    { s with ready := s.ready.filter (· != id) }

/-- the wrap-around test of `uv_timer_start` as written in C:
    `clamped = time + timeout; if (clamped < timeout) clamped = (uint64_t) -1;` -/
def clampC (time timeout : Nat) : Nat :=
  if (time + timeout) % U64 < timeout then U64 - 1 else (time + timeout) % U64

/-- uv_timer_start; returns (state, 0 | UV_EINVAL = -22) -/
def start (s : S) (id timeout rep : Nat) : S × Int :=
  let t := getT s id
  if t.closing then (s, -22)
  else
    let s := stop s id
    let t := getT s id
    let clamped := clampC s.time timeout
    let t := { t with hasCb := true, timeout := clamped, rep := rep, startId := s.counter, active := true }
    let s := setT s id t
    ({ s with counter := s.counter + 1,
              heap := insert s.heap ⟨clamped, t.startId, id⟩ }, 0)

/-- uv_timer_again -/
def again (s : S) (id : Nat) : S × Int :=
  let t := getT s id
  if !t.hasCb then (s, -22)
  else if t.rep != 0 then
    let s := stop s id
    ((start s id t.rep t.rep).1, 0)
  else (s, 0)

def setRepeat (s : S) (id rep : Nat) : S :=
  setT s id { getT s id with rep := rep }

/-- uv_close on a timer: uv__timer_close = uv_timer_stop, then CLOSING -/
def close (s : S) (id : Nat) : S :=
  let s := stop s id
  setT s id { getT s id with closing := true }

/-- uv_timer_get_due_in -/
def dueIn (s : S) (id : Nat) : Nat :=
  let t := getT s id
  if s.time ≥ t.timeout then 0 else t.timeout - s.time

/-- uv__next_timeout -/
def nextTimeout (s : S) : Int :=
  match min? s.heap with
  | none => -1
  | some e => if e.timeout ≤ s.time then 0
              else if e.timeout - s.time > INT_MAX then INT_MAX else (e.timeout - s.time : Nat)

def applyOp (s : S) : Op → S
  | .start id to rp => (start s id to rp).1
  | .stop id => stop s id
  | .again id => (again s id).1
  | .setRepeat id rp => setRepeat s id rp
  | .close id => close s id

abbrev Script := Nat → List Op

/-- first loop of uv__run_timers: move every due timer to the ready queue -/
def collect (s : S) (fuel : Nat) : S :=
  match fuel with
  | 0 => s
  | fuel + 1 =>
    match min? s.heap with
    | none => s
    | some e =>
      if e.timeout > s.time then s
      else
        let s := stop s e.id
        collect { s with ready := s.ready ++ [e.id] } fuel

/-- second loop: pop head, uv_timer_again, callback (scripted) -/
def fire (sc : Script) (s : S) (fuel : Nat) : S :=
  match fuel with
  | 0 => s
  | fuel + 1 =>
    match s.ready with
    | [] => s
    | id :: rest =>
      let s := { s with ready := rest }
      let s := (again s id).1
      let k := s.ncb
      let s := { s with ncb := k + 1, trace := (id, s.time) :: s.trace }
      let s := (sc k).foldl applyOp s
      fire sc s fuel

/-- uv__run_timers.  Fuel: the first loop removes one heap element per round, the
    second pops one ready element per round and callbacks can only shrink `ready`. -/
def runTimers (sc : Script) (s : S) : S :=
  let s := collect s (s.heap.size + 1)
  fire sc s (s.ready.length + 1)

/-- uv__update_time with a clock reading (ms) -/
def updateTime (s : S) (now : Nat) : S := { s with time := now % U64 }

end UvModel.Timer
