/-! # C20 — the mutex/condvar semaphore of src/unix/thread.c (uv__custom_sem_*, lines 551-637)

libuv uses it instead of `sem_t` when glibc < 2.21.  Model: one state machine per thread whose
program counter is the *next pthread call* it is going to make (the schedule points of
harness/c20_csem.c); a scheduler step lets one thread perform that call and run the C code up to its
next call.  The mutex (`owner`) and the condition variable (`fifo` of sleepers, `woken` flag) are
modelled with their POSIX meaning: lock/trylock succeed only on a free mutex, cond_wait releases the
mutex and re-acquires it after a wake-up, signal wakes one sleeper (the oldest), spurious wake-ups may
happen at any time.  `value` is the C `unsigned int` as an `Int`; `value_nonneg` shows it never wraps. -/
namespace UvModel.CustomSem

inductive Op where
  | wait | trywait | post
  deriving DecidableEq, Repr

/-- where a thread is parked: the pthread call it makes next -/
inductive Pc where
  | idle                      -- between operations (about to start `prog.head`)
  | atLock                    -- uv_mutex_lock(&sem->mutex)          thread.c:601 / 613
  | atTry                     -- uv_mutex_trylock(&sem->mutex)       thread.c:625
  | atUnlock (ret : Int)      -- uv_mutex_unlock, then return `ret`  thread.c:605 / 617 / 629 / 634
  | atCondWait                -- uv_cond_wait(&sem->cond, &sem->mutex), value was 0   thread.c:615
  | inCond (woken : Bool)     -- inside cond_wait, mutex released
  | atSignal                  -- uv_cond_signal, value became 1      thread.c:604
  deriving DecidableEq, Repr

structure Thr where
  prog : List Op
  pc : Pc
  deriving Repr

structure St where
  value : Int
  owner : Option Nat
  thr : List Thr
  fifo : List Nat
  acq : Nat            -- number of `sem->value--` executed  (= acquisitions let through)
  posts : Nat          -- number of `sem->value++` executed
  deriving Repr

def UV_EAGAIN : Int := -11

/-- the C code a thread runs right after it obtained the mutex (or re-obtained it inside cond_wait),
up to its next pthread call.  Returns (value, acq, posts, next pc). -/
def afterLock (op : Op) (value : Int) (acq posts : Nat) : Int × Nat × Nat × Pc :=
  match op with
  | .wait =>                                   -- 614-617: while (value == 0) cond_wait; value--; unlock
    if value = 0 then (value, acq, posts, .atCondWait) else (value - 1, acq + 1, posts, .atUnlock 0)
  | .trywait =>                                -- 628-636
    if value = 0 then (value, acq, posts, .atUnlock UV_EAGAIN) else (value - 1, acq + 1, posts, .atUnlock 0)
  | .post =>                                   -- 602-605: value++; if (value == 1) signal; unlock
    if value + 1 = 1 then (value + 1, acq, posts + 1, .atSignal) else (value + 1, acq, posts + 1, .atUnlock 0)

def curOp (t : Thr) : Op := t.prog.headD .post

def enabled (s : St) (i : Nat) : Bool :=
  match s.thr[i]? with
  | none => false
  | some t =>
    match t.pc with
    | .idle => !t.prog.isEmpty
    | .atLock => s.owner.isNone
    | .inCond w => w && s.owner.isNone
    | _ => true

def setPc (s : St) (i : Nat) (t : Thr) (pc : Pc) : List Thr := s.thr.set i { t with pc := pc }
def finishOp (s : St) (i : Nat) (t : Thr) : List Thr := s.thr.set i { prog := t.prog.tail, pc := .idle }

def wake (thr : List Thr) (j : Nat) : List Thr :=
  match thr[j]? with
  | some t => thr.set j { t with pc := .inCond true }
  | none => thr

/-- one scheduler step of thread `i`; the event text is what harness/c20_csem.c prints -/
def step (s : St) (i : Nat) : St × String :=
  match s.thr[i]? with
  | none => (s, "?")
  | some t =>
    match t.pc with
    | .idle =>
      let pc := match curOp t with | .trywait => Pc.atTry | _ => Pc.atLock
      ({ s with thr := setPc s i t pc }, s!"{i}B")
    | .atLock =>
      let (v, a, p, pc) := afterLock (curOp t) s.value s.acq s.posts
      ({ s with owner := some i, value := v, acq := a, posts := p, thr := setPc s i t pc }, s!"{i}L")
    | .atTry =>
      if s.owner.isNone then
        let (v, a, p, pc) := afterLock (curOp t) s.value s.acq s.posts
        ({ s with owner := some i, value := v, acq := a, posts := p, thr := setPc s i t pc }, s!"{i}T1")
      else ({ s with thr := finishOp s i t }, s!"{i}T0={UV_EAGAIN}")      -- 625-626
    | .atUnlock r => ({ s with owner := none, thr := finishOp s i t }, s!"{i}U={r}")
    | .atCondWait => ({ s with owner := none, thr := setPc s i t (.inCond false), fifo := s.fifo ++ [i] }, s!"{i}C")
    | .inCond _ =>
      let (v, a, p, pc) := afterLock (curOp t) s.value s.acq s.posts
      ({ s with owner := some i, value := v, acq := a, posts := p, thr := setPc s i t pc }, s!"{i}K")
    | .atSignal =>
      match s.fifo with
      | j :: rest => ({ s with thr := wake (setPc s i t (.atUnlock 0)) j, fifo := rest }, s!"{i}S{j}")
      | [] => ({ s with thr := setPc s i t (.atUnlock 0) }, s!"{i}S-")

/-- spurious wake-up of thread `j` (permitted by POSIX at any time) -/
def spurious (s : St) (j : Nat) : St × List String :=
  match s.thr[j]? with
  | some t =>
    if t.pc = .inCond false then ({ s with thr := wake s.thr j, fifo := s.fifo.filter (· ≠ j) }, [s!"{j}W"])
    else (s, [])
  | none => (s, [])

/-- first enabled thread in cyclic order starting at `from` -/
def pick (s : St) (frm : Nat) : Option Nat :=
  let n := s.thr.length
  ((List.range n).map (fun k => (frm + k) % n)).find? (enabled s)

inductive Choice where
  | thread (i : Nat)
  | wake (j : Nat)

/-- the schedule is used up: keep running the lowest enabled thread (at most `fuel` steps) -/
def drain (s : St) : Nat → St × List String
  | 0 => (s, ["runaway"])
  | fuel + 1 =>
    match pick s 0 with
    | none => (s, [])
    | some k =>
      let (s', ev) := step s k
      let (s'', evs) := drain s' fuel
      (s'', ev :: evs)

/-- follow the schedule, then `drain` -/
def run (s : St) : List Choice → Nat → St × List String
  | .wake j :: cs, fuel =>
    let (s', ev) := spurious s j
    let (s'', evs) := run s' cs fuel
    (s'', ev ++ evs)
  | .thread i :: cs, fuel =>
    match pick s i with
    | none => (s, [])
    | some k =>
      let (s', ev) := step s k
      let (s'', evs) := run s' cs fuel
      (s'', ev :: evs)
  | [], fuel => drain s fuel

def init (value : Nat) (progs : List (List Op)) : St :=
  { value := value, owner := none, thr := progs.map (fun p => { prog := p, pc := .idle }), fifo := [], acq := 0, posts := 0 }

def stuck (s : St) : Bool := s.thr.any (fun t => !(t.pc = .idle && t.prog.isEmpty))

end UvModel.CustomSem
