/-!
# `src/heap-inl.h` — libuv's pointer-linked binary min-heap, statement by statement

`UvModel/Heap.lean` (what `Timer`/C04 reason about) represents the heap as its breadth-first array.  This
file models what the C really does: writes into the `left` / `right` / `parent` cells of `struct heap_node`s
and into `heap->min` / `heap->nelts`, in the order `heap-inl.h` performs them, including the loop that
derives the root-to-leaf path from the bits of `nelts` and the `struct heap_node**` cursors that walk it.
`Props/HeapPtrRefine.lean` proves that each function refines the array operation of `UvModel.Heap`.

Memory is three total functions from node ids to node ids; id `0` is `NULL`, a node id stands for the
address of a `struct heap_node`.  `less_than` (a `heap_compare_fn`) is a parameter on node ids.
-/
namespace UvModel.HeapPtr

structure Mem where
  left : Nat → Nat
  right : Nat → Nat
  parent : Nat → Nat

/-- `a->left = v` -/
def setLeft (m : Mem) (a v : Nat) : Mem := { m with left := fun x => if x = a then v else m.left x }
/-- `a->right = v` -/
def setRight (m : Mem) (a v : Nat) : Mem := { m with right := fun x => if x = a then v else m.right x }
/-- `a->parent = v` -/
def setParent (m : Mem) (a v : Nat) : Mem := { m with parent := fun x => if x = a then v else m.parent x }
/-- `*a = (struct heap_node){l, r, p}` (a struct assignment writes the three fields) -/
def setNode (m : Mem) (a l r p : Nat) : Mem := setParent (setRight (setLeft m a l) a r) a p

/-- `struct heap` (heap-inl.h:40-43) together with the node memory -/
structure St where
  m : Mem
  min : Nat
  nelts : Nat

/-- heap-inl.h:62-65 `heap_init`: `heap->min = NULL; heap->nelts = 0;` -/
def init (s : St) : St := { s with min := 0, nelts := 0 }

/-- heap-inl.h:67-69 `heap_min`: `return heap->min;` -/
def heapMin (s : St) : Nat := s.min

/-- `if (a != NULL) a->parent = v;` -/
def setParentIf (m : Mem) (a v : Nat) : Mem := if a ≠ 0 then setParent m a v else m

/-- heap-inl.h:75-96, the node-cell part of `heap_node_swap(heap, parent, child)` -/
def swapBody (m0 : Mem) (p c : Nat) : Mem :=
  -- 78 `t = *parent;`  79 `*parent = *child;`
  let m := setNode m0 p (m0.left c) (m0.right c) (m0.parent c)
  -- 80 `*child = t;`
  let m := setNode m c (m0.left p) (m0.right p) (m0.parent p)
  -- 82 `parent->parent = child;`
  let m := setParent m p c
  -- 83-89 `if (child->left == child) { child->left = parent; sibling = child->right; }
  --        else { child->right = parent; sibling = child->left; }`
  let ms : Mem × Nat :=
    if m.left c = c then (setLeft m c p, m.right c) else (setRight m c p, m.left c)
  -- 90-91 `if (sibling != NULL) sibling->parent = child;`
  let m := setParentIf ms.1 ms.2 c
  -- 93-94 `if (parent->left != NULL) parent->left->parent = parent;`
  let m := setParentIf m (m.left p) p
  -- 95-96 `if (parent->right != NULL) parent->right->parent = parent;`
  setParentIf m (m.right p) p

/-- heap-inl.h:72-104 `heap_node_swap(heap, parent, child)` -/
def swap (s : St) (p c : Nat) : St :=
  let m := swapBody s.m p c
  -- 98-103 `if (child->parent == NULL) heap->min = child;
  --         else if (child->parent->left == parent) child->parent->left = child;
  --         else child->parent->right = child;`
  if m.parent c = 0 then { s with m := m, min := c }
  else if m.left (m.parent c) = p then { s with m := setLeft m (m.parent c) c }
  else { s with m := setRight m (m.parent c) c }

/-- heap-inl.h:122-124 / 166-168
`for (k = 0, n = …; n >= 2; k += 1, n /= 2) path = (path << 1) | (n & 1);` — returns `(k, path)`.
`n` halves every round, so `fuel ≥ n` rounds always suffice (`pathLoop_fuel`).  (`unsigned int` in C:
`path < 2^k ≤ n`, no wrap.) -/
def pathLoop : Nat → Nat → Nat → Nat → Nat × Nat
  | 0, _, k, path => (k, path)
  | fuel + 1, n, k, path =>
    if n ≥ 2 then pathLoop fuel (n / 2) (k + 1) ((path <<< 1) ||| (n &&& 1)) else (k, path)

/-- an lvalue of type `struct heap_node*`: what a `struct heap_node**` cursor points at -/
inductive Slot where
  | root                 -- `&heap->min`
  | l (x : Nat)          -- `&x->left`
  | r (x : Nat)          -- `&x->right`
deriving DecidableEq, Repr

/-- `*slot` -/
def deref (s : St) : Slot → Nat
  | .root => s.min
  | .l x => s.m.left x
  | .r x => s.m.right x

/-- `*slot = v` -/
def store (s : St) (sl : Slot) (v : Nat) : St :=
  match sl with
  | .root => { s with min := v }
  | .l x => { s with m := setLeft s.m x v }
  | .r x => { s with m := setRight s.m x v }

/-- heap-inl.h:127-136 (and 171-179 without the `parent` cursor)
`while (k > 0) { parent = child; if (path & 1) child = &(*child)->right; else child = &(*child)->left;
path >>= 1; k -= 1; }` — returns `(parent, child)` -/
def walk (s : St) : Nat → Nat → Slot → Slot → Slot × Slot
  | 0, _, p, c => (p, c)
  | k + 1, path, _, c =>
    let p := c
    let c := if path &&& 1 ≠ 0 then Slot.r (deref s c) else Slot.l (deref s c)
    walk s k (path >>> 1) p c

/-- heap-inl.h:146-147 / 235-236
`while (x->parent != NULL && less_than(x, x->parent)) heap_node_swap(heap, x->parent, x);` -/
def siftUp (lt : Nat → Nat → Bool) : Nat → St → Nat → St
  | 0, s, _ => s
  | fuel + 1, s, x =>
    if s.m.parent x ≠ 0 ∧ lt x (s.m.parent x) = true then siftUp lt fuel (swap s (s.m.parent x) x) x else s

/-- heap-inl.h:106-148 `heap_insert(heap, newnode, less_than)` -/
def insert (lt : Nat → Nat → Bool) (s : St) (x : Nat) : St :=
  -- 115-117 `newnode->left = NULL; newnode->right = NULL; newnode->parent = NULL;`
  let s := { s with m := setParent (setRight (setLeft s.m x 0) x 0) x 0 }
  -- 122-124
  let kp := pathLoop (1 + s.nelts) (1 + s.nelts) 0 0
  -- 127-136 `parent = child = &heap->min; while (k > 0) …`
  let pc := walk s kp.1 kp.2 Slot.root Slot.root
  -- 139 `newnode->parent = *parent;`
  let s := { s with m := setParent s.m x (deref s pc.1) }
  -- 140 `*child = newnode;`
  let s := store s pc.2 x
  -- 141 `heap->nelts += 1;`
  let s := { s with nelts := s.nelts + 1 }
  -- 146-147
  siftUp lt s.nelts s x

/-- heap-inl.h:220-229
`for (;;) { smallest = child; if (child->left != NULL && less_than(child->left, smallest)) smallest =
child->left; if (child->right != NULL && less_than(child->right, smallest)) smallest = child->right;
if (smallest == child) break; heap_node_swap(heap, child, smallest); }` -/
def siftDown (lt : Nat → Nat → Bool) : Nat → St → Nat → St
  | 0, s, _ => s
  | fuel + 1, s, c =>
    let smallest := c
    let smallest := if s.m.left c ≠ 0 ∧ lt (s.m.left c) smallest = true then s.m.left c else smallest
    let smallest := if s.m.right c ≠ 0 ∧ lt (s.m.right c) smallest = true then s.m.right c else smallest
    if smallest = c then s else siftDown lt fuel (swap s c smallest) c

/-- heap-inl.h:150-237 `heap_remove(heap, node, less_than)` -/
def remove (lt : Nat → Nat → Bool) (s : St) (node : Nat) : St :=
  -- 160-161 `if (heap->nelts == 0) return;`
  if s.nelts = 0 then s else
  -- 166-168
  let kp := pathLoop s.nelts s.nelts 0 0
  -- 171-179 `max = &heap->min; while (k > 0) …`
  let max := (walk s kp.1 kp.2 Slot.root Slot.root).2
  -- 181 `heap->nelts -= 1;`
  let s := { s with nelts := s.nelts - 1 }
  -- 184-185 `child = *max; *max = NULL;`
  let child := deref s max
  let s := store s max 0
  -- 187-193 `if (child == node) { if (child == heap->min) heap->min = NULL; return; }`
  if child = node then (if child = s.min then { s with min := 0 } else s) else
  -- 196-198 `child->left = node->left; child->right = node->right; child->parent = node->parent;`
  let s := { s with m := setLeft s.m child (s.m.left node) }
  let s := { s with m := setRight s.m child (s.m.right node) }
  let s := { s with m := setParent s.m child (s.m.parent node) }
  -- 200-202 `if (child->left != NULL) child->left->parent = child;`
  let s := { s with m := setParentIf s.m (s.m.left child) child }
  -- 204-206 `if (child->right != NULL) child->right->parent = child;`
  let s := { s with m := setParentIf s.m (s.m.right child) child }
  -- 208-214 `if (node->parent == NULL) heap->min = child; else if (node->parent->left == node)
  --          node->parent->left = child; else node->parent->right = child;`
  let s :=
    if s.m.parent node = 0 then { s with min := child }
    else if s.m.left (s.m.parent node) = node then { s with m := setLeft s.m (s.m.parent node) child }
    else { s with m := setRight s.m (s.m.parent node) child }
  -- 220-229
  let s := siftDown lt (s.nelts + 1) s child
  -- 235-236
  siftUp lt (s.nelts + 1) s child

/-- heap-inl.h:239-241 `heap_dequeue`: `heap_remove(heap, heap->min, less_than);` -/
def dequeue (lt : Nat → Nat → Bool) (s : St) : St := remove lt s s.min

end UvModel.HeapPtr
