/-!
# C11 (a): buffer-list arithmetic of `uv_fs_read` / `uv_fs_write`  (src/unix/fs.c)

Executable model of
* `uv__fs_buf_offset`            fs.c:1621-1632
* `uv__fs_write` (dispatch)      fs.c:1196-1222
* `uv__fs_write_all`             fs.c:1634-1692
* `uv__fs_read`                  fs.c:509-561
* the EINTR loop / errno mapping of `uv__fs_work`   fs.c:1695-1762

Buffers are lists of bytes of an arbitrary type `α` (the theorems are parametric in `α`, so
"which byte went where" is tracked by the data itself).  Kernel results are an input: the list
of outcomes of the successive system calls.  A script that runs out behaves as `fail EIO`
(the unit harness does the same), so every function here is structurally recursive on the
script.

# C11 (b): route choice and result mapping as decision tables (fs.c:90-158, linux.c:829-1239)
-/
namespace UvModel.FsBuf

abbrev EINTR : Nat := 4
abbrev EIO : Nat := 5

/-- what the kernel answered to one system call: `ok n` = returned n ≥ 0, `fail e` = -1/errno e -/
inductive Outcome where
  | ok (n : Nat)
  | fail (e : Nat)
deriving Repr, DecidableEq, Inhabited

inductive Sys where
  | write | writev | pwrite | pwritev | read | readv | pread | preadv
deriving Repr, DecidableEq, Inhabited

/-- one system call as issued by libuv: which call, `req->off` at that time (only the p* calls
    pass it to the kernel; the others use the file's current position), the iovec, the answer -/
structure Call (α : Type) where
  sys : Sys
  off : Int
  iov : List (List α)
  out : Outcome

/-- the bytes the kernel accepted in this call: the first n bytes of the iovec, in order
    (POSIX write/writev semantics) -/
def Call.written {α : Type} (c : Call α) : List α :=
  match c.out with
  | .ok n => c.iov.flatten.take n
  | .fail _ => []

/-- `uv__fs_buf_offset(bufs, size)` fs.c:1621-1632.  Returns (`offset`, the array after the
    in-place trim of `bufs[offset]`).  Fully consumed buffers are left untouched in the array
    (the caller steps over them).  Running off the end (size > all bytes) is out of bounds in C;
    here it stops at the end of the list. -/
def bufOffset {α : Type} : List (List α) → Nat → Nat × List (List α)
  | [], _ => (0, [])
  | b :: rest, size =>
    if 0 < size ∧ b.length ≤ size then          -- for (...; size > 0 && bufs[offset].len <= size; ++offset)
      let r := bufOffset rest (size - b.length)  --   size -= bufs[offset].len
      (r.1 + 1, b :: r.2)
    else if 0 < size then                        -- if (size > 0) { base += size; len -= size }
      (0, b.drop size :: rest)
    else (0, b :: rest)

/-- `uv__fs_write` fs.c:1196-1222: which call for (off, nbufs); `none` = no call, r = 0 -/
def writeSys (off : Int) (nbufs : Nat) : Option Sys :=
  if off < 0 then
    if nbufs = 1 then some .write else if nbufs > 1 then some .writev else none
  else
    if nbufs = 1 then some .pwrite else if nbufs > 1 then some .pwritev else none

/-- `for (skip = 0; skip < req->nbufs && req->bufs[skip].len == 0; skip++);` fs.c:1665 -/
def leadingEmpty {α : Type} : List (List α) → Nat
  | [] => 0
  | b :: r => if b.length = 0 then leadingEmpty r + 1 else 0

/-- result of one pass through the body of the `while (nbufs > 0)` loop after the system call -/
inductive Step (α : Type) where
  | stop (ret : Int) (errno : Nat)
  | cont (off : Int) (bufs : List (List α)) (total : Int)

/-- fs.c:1651-1681 for one answer of the kernel.  `bufs` = `req->bufs[0..nbufs)` (everything
    still to write), `chunk` = its first `req->nbufs` entries. -/
def round {α : Type} (off : Int) (bufs chunk : List (List α)) (total : Int) : Outcome → Step α
  | .fail e =>
    if e = EINTR then .cont off bufs total             -- do … while (result < 0 && errno == EINTR)
    else .stop (if total = 0 then -1 else total) e      -- if (total == 0) total = result; break
  | .ok 0 =>
    let skip := leadingEmpty chunk
    if skip = 0 then .stop total 0                      -- break
    else .cont off (bufs.drop skip) total               -- req->bufs += skip; nbufs -= skip; continue
  | .ok (n + 1) =>
    let off' := if 0 ≤ off then off + ((n + 1 : Nat) : Int) else off   -- if (req->off >= 0) req->off += result
    let r := bufOffset bufs (n + 1)                     -- req->nbufs = uv__fs_buf_offset(req->bufs, result)
    .cont off' (r.2.drop r.1) (total + ((n + 1 : Nat) : Int))  -- req->bufs += req->nbufs; nbufs -= …; total += result

structure WRes (α : Type) where
  /-- return value of `uv__fs_write_all`: -1 (errno below) or the byte count -/
  ret : Int
  errno : Nat
  calls : List (Call α)
  /-- final `req->off` -/
  off : Int

/-- `uv__fs_write_all` fs.c:1634-1692, both loops fused into one recursion over the kernel's
    answers (an EINTR answer re-enters with the same state = the inner do/while). -/
def writeLoop {α : Type} (iovmax : Nat) : List Outcome → Int → List (List α) → Int → WRes α
  | os, off, bufs, total =>
    let chunk := bufs.take iovmax                       -- req->nbufs = min(nbufs, iovmax)
    match writeSys off chunk.length with
    | none => ⟨total, 0, [], off⟩                        -- nbufs == 0: loop ends (iovmax == 0: result 0, skip 0, break)
    | some sys =>
      match os with
      | [] => ⟨if total = 0 then -1 else total, EIO, [⟨sys, off, chunk, .fail EIO⟩], off⟩
      | o :: os' =>
        let c : Call α := ⟨sys, off, chunk, o⟩
        match round off bufs chunk total o with
        | .stop r e => ⟨r, e, [c], off⟩
        | .cont off' bufs' total' =>
          let r := writeLoop iovmax os' off' bufs' total'
          { r with calls := c :: r.calls }

def writeAll {α : Type} (iovmax : Nat) (os : List Outcome) (off : Int) (bufs : List (List α)) : WRes α :=
  writeLoop iovmax os off bufs 0

/-- `uv__fs_work` fs.c:1750-1753: `if (r == -1) req->result = UV__ERR(errno); else req->result = r` -/
def mapResult (r : Int) (errno : Nat) : Int := if r = -1 then -(errno : Int) else r

def WRes.result {α : Type} (r : WRes α) : Int := mapResult r.ret r.errno

/-- `uv__fs_read` fs.c:527-538 -/
def readSys (off : Int) (nbufs : Nat) : Option Sys :=
  if off < 0 then
    if nbufs = 1 then some .read else if nbufs > 1 then some .readv else none
  else
    if nbufs = 1 then some .pread else if nbufs > 1 then some .preadv else none

/-- POSIX readv: the data fills iov[0] completely before iov[1], … (kernel semantics, assumed) -/
def scatter {α : Type} : List (List α) → List α → List (List α)
  | [], _ => []
  | b :: bs, d => (d.take b.length ++ b.drop d.length) :: scatter bs (d.drop b.length)

structure RRes (α : Type) where
  ret : Int
  errno : Nat
  calls : List (Call α)
  bufs : List (List α)

/-- `uv__fs_read` fs.c:509-561: one system call over the first min(nbufs, iovmax) buffers.
    `src` = the file's bytes from the read position; the kernel delivers `src.take n`. -/
def fsRead {α : Type} (iovmax : Nat) (off : Int) (bufs : List (List α)) (o : Outcome) (src : List α) : RRes α :=
  let chunk := bufs.take iovmax                          -- if (nbufs > iovmax) nbufs = iovmax
  match readSys off chunk.length with
  | none => ⟨0, 0, [], bufs⟩
  | some sys =>
    let c : Call α := ⟨sys, off, chunk, o⟩
    match o with
    | .ok n => ⟨n, 0, [c], scatter chunk (src.take n) ++ bufs.drop iovmax⟩
    | .fail e => ⟨-1, e, [c], bufs⟩

def RRes.result {α : Type} (r : RRes α) : Int := mapResult r.ret r.errno

/-- the `do … while (r == -1 && errno == EINTR && retry_on_eintr)` loop of `uv__fs_work`
    (fs.c:1704-1748) for an operation that is one system call; returns (`req->result`, calls made).
    `retry = false` for UV_FS_CLOSE and UV_FS_READ (fs.c:1701-1702). -/
def workLoop (retry : Bool) : List Outcome → Int × Nat
  | [] => (mapResult (-1) EIO, 1)
  | .ok n :: _ => (mapResult n 0, 1)
  | .fail e :: rest =>
    if e = EINTR ∧ retry then let r := workLoop retry rest; (r.1, r.2 + 1)
    else (mapResult (-1) e, 1)

/-! ## (b) decision tables -/

/-- the `uv_fs_type`s of include/uv.h that fs.c implements on Unix -/
inductive Op where
  | access | chmod | chown | close | copyfile | fchmod | fchown | lchown | fdatasync | fstat | fsync
  | ftruncate | futime | lutime | lstat | link | mkdir | mkdtemp | mkstemp | open | read | scandir
  | opendir | readdir | closedir | readlink | realpath | rename | rmdir | sendfile | stat | statfs
  | symlink | unlink | utime | write
deriving Repr, DecidableEq, Inhabited

def Op.all : List Op :=
  [.access, .chmod, .chown, .close, .copyfile, .fchmod, .fchown, .lchown, .fdatasync, .fstat, .fsync,
   .ftruncate, .futime, .lutime, .lstat, .link, .mkdir, .mkdtemp, .mkstemp, .open, .read, .scandir,
   .opendir, .readdir, .closedir, .readlink, .realpath, .rename, .rmdir, .sendfile, .stat, .statfs,
   .symlink, .unlink, .utime, .write]

inductive Route where
  | sync        -- uv__fs_work in the caller, return req->result          (POST, cb == NULL)
  | uring       -- SQE submitted, completion in uv__poll_io_uring
  | pool        -- uv__work_submit(…, uv__fs_work, uv__fs_done)
deriving Repr, DecidableEq, Inhabited

/-- what the route choice depends on -/
structure Cfg where
  hasCb : Bool            -- cb != NULL
  sqpollFlag : Bool       -- loop->flags & UV_LOOP_ENABLE_IO_URING_SQPOLL (uv_loop_configure)
  envPositive : Bool      -- UV_USE_IO_URING set to a positive number (uv__use_io_uring, linux.c:470-500)
  ringInitOk : Bool       -- uv__iou_init produced a ring fd (io_uring_setup + mmap succeeded)
  sqeFree : Bool          -- the submission ring has a free slot (linux.c:789-790)
  kernel : Nat            -- uv__kernel_version(), e.g. 0x050F00 = 5.15.0
  nbufsLeIovmax : Bool    -- read/write: req->nbufs <= IOV_MAX

/-- `uv__iou_get_sqe` returns non-NULL (linux.c:757-812) -/
def ringOk (c : Cfg) : Bool :=
  c.sqpollFlag && decide (c.kernel ≥ 0x050ABA) && c.envPositive && c.ringInitOk && c.sqeFree

/-- which `uv_fs_*` front end calls a `uv__iou_fs_*` submitter at all, and that submitter's own
    precondition besides `uv__iou_get_sqe` (linux.c:829-1140).  `none` = the front end never tries. -/
def uringPrecond (c : Cfg) : Op → Option Bool
  | .close =>                                             -- uv__iou_fs_close linux.c:834-852, conditions as written
    some (!(decide (c.kernel < 0x050F5A)) && !(decide (c.kernel ≥ 0x050A00) && decide (c.kernel < 0x060100)))
  | .fsync | .fdatasync => some true                      -- uv__iou_fs_fsync_or_fdatasync
  | .ftruncate => some (decide (c.kernel ≥ 0x060900))     -- uv__iou_fs_ftruncate: 6.9
  | .link => some (decide (c.kernel ≥ 0x050F00))          -- uv__iou_fs_link: 5.15.0
  | .mkdir => some (decide (c.kernel ≥ 0x050F00))
  | .symlink => some (decide (c.kernel ≥ 0x050F00))
  | .rename => some true
  | .unlink => some true
  | .open => some true
  | .read => some true                                    -- nbufs > IOV_MAX is capped (linux.c:1055-1057)
  | .write => some c.nbufsLeIovmax                        -- nbufs > IOV_MAX → return 0 (thread pool)
  | .stat | .fstat | .lstat => some true                  -- uv__iou_fs_statx (malloc failure → 0 not modelled)
  | _ => none

/-- fs.c front ends + POST macro (fs.c:135-151) + `uv__iou_fs_*` returning 1 (submitted) or 0 -/
def route (c : Cfg) (op : Op) : Route :=
  if !c.hasCb then .sync
  else match uringPrecond c op with
    | some true => if ringOk c then .uring else .pool
    | _ => .pool

/-- completion side, linux.c uv__poll_io_uring: a CQE with `-EOPNOTSUPP` for anything but … is
    resubmitted to the thread pool (`uv__fs_post`), otherwise `req->result = cqe->res` -/
def completeRoute (cqeRes : Int) : Route := if cqeRes = -95 then .pool else .uring

/-- ops after which `uv__fs_work` sets `req->ptr = &req->statbuf` when r == 0 (fs.c:1755-1759) -/
def setsStatPtr (op : Op) (r : Int) : Bool :=
  decide (r = 0) && (op == .stat || op == .fstat || op == .lstat)

end UvModel.FsBuf
