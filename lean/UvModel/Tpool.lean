/-!
# Thread pool (src/threadpool.c) — interleaving model at critical-section granularity

All shared state of threadpool.c is protected by the global `mutex` or by a loop's `wq_mutex`
(pthread mutual exclusion is trusted), so one locked region = one atomic action.  A thread's
step runs from one *stop point* to the next; stop points are: a `uv_mutex_unlock` after which
the thread holds no mutex, `uv_cond_wait`, the worker's start, the middle of a work function,
and a loop thread waiting for its next command (top level or inside a done callback).
The serialising scheduler `harness/c08_sched.c` stops the real code at exactly these points.

Real fields mirror the C data (`linked` = `!uv__queue_empty(&w->wq)`, `work` = `w->work`);
fields marked *ghost* never influence a transition.
-/
namespace UvModel.Tpool

inductive Kind | cpu | fast | slow
  deriving DecidableEq, Repr

/-- entries of the global `wq`: a work item or `run_slow_work_message` -/
inductive Ent | item (i : Nat) | marker
  deriving DecidableEq, Repr

/-- `w->work`: the submitted function, NULL (finished, :126) or `uv__cancelled` (:299) -/
inductive Work | fn | null | cancelled
  deriving DecidableEq, Repr

/-- ghost: where the item is -/
inductive Loc
  | globalQ | slowQ | got (t : Nat) | inwork (t : Nat) | loopQ | cmid | reported
  deriving DecidableEq, Repr

/-- worker program counter (stop points of `worker()`, :57-140) -/
inductive WPhase
  | start                         -- after uv_sem_post (:63), before the first lock (:66)
  | waiting                       -- inside uv_cond_wait (:77), not signalled
  | woken                         -- signalled / spuriously woken, must re-acquire `mutex`
  | got (i : Nat) (slow : Bool)   -- after unlock (:120), before `w->work(w)` (:123)
  | inwork (i : Nat) (slow : Bool) -- inside the work function
  | posted (slow : Bool)          -- after unlock of loop->wq_mutex (:130), before lock (:134)
  deriving DecidableEq, Repr

structure Item where
  loop : Nat
  kind : Kind
  linked : Bool      -- !uv__queue_empty(&w->wq)
  work : Work
  starts : Nat       -- ghost: number of times the work function was entered
  returned : Bool    -- ghost: work function returned
  dones : Nat        -- ghost: number of done callbacks
  status : Int       -- ghost: status passed to the last done callback
  cancelOk : Bool    -- ghost: some uv_cancel returned 0
  loc : Loc          -- ghost
  deriving Repr

inductive LPhase | top | drained | incb
  deriving DecidableEq, Repr

structure LoopSt where
  q : List Nat                 -- loop->wq
  lq : List Nat                -- local `wq` of uv__work_done (:313,:319)
  phase : LPhase
  cmid : Option (Nat × Bool)   -- between the two regions of uv__work_cancel: (item, cancelled)
  async : Bool                 -- wq_async pending
  reqs : Int                   -- loop->active_reqs.count
  deriving Repr

structure State where
  n : Nat                      -- nthreads
  nLoops : Nat
  nItems : Nat
  wq : List Ent
  sq : List Nat                -- slow_io_pending_wq
  slowRun : Int                -- slow_io_work_running
  idle : Int                   -- idle_threads
  workers : Nat → WPhase
  loops : Nat → LoopSt
  items : Nat → Item

def ECANCELED : Int := -125
def EBUSY : Int := -16

def Item.dflt : Item :=
  { loop := 0, kind := .cpu, linked := false, work := .fn, starts := 0, returned := false,
    dones := 0, status := 0, cancelOk := false, loc := .reported }

def LoopSt.init : LoopSt :=
  { q := [], lq := [], phase := .top, cmid := none, async := false, reqs := 0 }

def State.init (n nLoops : Nat) : State :=
  { n := n, nLoops := nLoops, nItems := 0, wq := [], sq := [], slowRun := 0, idle := 0,
    workers := fun _ => .start, loops := fun _ => LoopSt.init, items := fun _ => Item.dflt }

def upd {α : Type} (f : Nat → α) (i : Nat) (x : α) : Nat → α := fun j => if j = i then x else f j

/-- slow_work_thread_threshold (:45-47) -/
def threshold (n : Nat) : Int := ((n + 1) / 2 : Nat)

/-! ## condition variable -/

def waiters (s : State) : List Nat :=
  (List.range s.n).filter (fun t => s.workers t = .waiting)

/-- uv_cond_signal: wakes one waiter if any (which one: choice `c`) -/
def signal (s : State) (c : Nat) : State :=
  let ws := waiters s
  match ws[c % ws.length]? with
  | none => s
  | some w => { s with workers := upd s.workers w .woken }

/-! ## the locked loop of worker() (:67-118) -/

inductive DqOut
  | wait (wq : List Ent) (sq : List Nat)
  | take (i : Nat) (slow : Bool) (wq : List Ent) (sq : List Nat) (sig : Bool)
  | fuel
  deriving Repr

/-- one pass of `for(;;)` per unit of fuel.  `r` = slow_io_work_running, `T` = threshold. -/
def dqLoop (T r : Int) : Nat → List Ent → List Nat → DqOut
  | 0, _, _ => .fuel
  | f + 1, wq, sq =>
    match wq with
    | [] => .wait wq sq                                            -- :72
    | .item i :: rest => .take i false rest sq false               -- :88-89, :120
    | .marker :: rest =>
      if rest = [] ∧ r ≥ T then .wait wq sq                        -- :73-75
      else if r ≥ T then dqLoop T r f (rest ++ [.marker]) sq       -- :95-98
      else match sq with
        | [] => dqLoop T r f rest sq                               -- :102-103
        | i :: sq' =>                                              -- :105-117
          if sq' = [] then .take i true rest sq' false
          else .take i true (rest ++ [.marker]) sq' true

def dqFuel (wq : List Ent) : Nat := 2 * wq.length + 2

/-! ## actions -/

inductive Act
  | sub (l : Nat) (k : Kind) (c : Nat)   -- uv_queue_work / uv__work_submit on loop l's thread
  | can (l i : Nat)                      -- uv_cancel, first locked region (:286-294)
  | go (l : Nat)                         -- loop thread continues: cancel region 2 / next done callback
  | drn (l : Nat)                        -- uv__work_done, locked region (:318-320)
  | wk (t : Nat) (c : Nat)               -- worker t's next step
  | wake (t : Nat)                       -- (spurious) wake-up of a waiting worker
  deriving Repr

inductive Ev
  | ws (i : Nat) | we (i : Nat) | dn (i : Nat) (st : Int) | ret (v : Int)
  | lk (s : String)
  deriving Repr

def loopReady (ls : LoopSt) : Bool :=
  ls.cmid.isNone && (ls.phase == .top || ls.phase == .incb)

instance : BEq LPhase := ⟨fun a b => decide (a = b)⟩

/-- post() (:143-161) together with the registration done by the callers -/
def doSub (s : State) (l : Nat) (k : Kind) (c : Nat) : State × List Ev :=
  let i := s.nItems
  let it : Item := { loop := l, kind := k, linked := true, work := .fn, starts := 0,
                     returned := false, dones := 0, status := 0, cancelOk := false,
                     loc := if k = .slow then .slowQ else .globalQ }
  let ls := s.loops l
  let s1 := { s with nItems := i + 1, items := upd s.items i it,
                     loops := upd s.loops l { ls with reqs := ls.reqs + 1 } }
  if k = .slow then
    let s2 := { s1 with sq := s1.sq ++ [i] }
    if Ent.marker ∈ s2.wq then (s2, [.lk "+g,-g"])                      -- :148-153
    else
      let s3 := { s2 with wq := s2.wq ++ [.marker] }                     -- :154,:157
      if s3.idle > 0 then (signal s3 c, [.lk "+g,sig,-g"]) else (s3, [.lk "+g,-g"])
  else
    let s3 := { s1 with wq := s1.wq ++ [.item i] }
    if s3.idle > 0 then (signal s3 c, [.lk "+g,sig,-g"]) else (s3, [.lk "+g,-g"])

/-- uv__work_cancel, first region (:286-294) -/
def doCan1 (s : State) (l i : Nat) : State × List Ev :=
  let it := s.items i
  let ls := s.loops l
  let ok := it.linked && decide (it.work ≠ .null)                       -- :289
  let tr := Ev.lk s!"+g,+l{l},-l{l},-g"
  if ok then
    ({ s with wq := s.wq.erase (.item i), sq := s.sq.erase i,            -- :291
              items := upd s.items i { it with loc := .cmid },
              loops := upd s.loops l { ls with q := ls.q.erase i, lq := ls.lq.erase i,
                                               cmid := some (i, true) } }, [tr])
  else
    ({ s with loops := upd s.loops l { ls with cmid := some (i, false) } }, [tr])

/-- uv__work_cancel, after the first region (:296-305) -/
def doCan2 (s : State) (l i : Nat) (ok : Bool) : State × List Ev :=
  let ls := s.loops l
  if ok then
    let it := s.items i
    ({ s with items := upd s.items i { it with work := .cancelled, cancelOk := true, loc := .loopQ },
              loops := upd s.loops l { ls with q := ls.q ++ [i], async := true, cmid := none } },
     [.ret 0, .lk s!"+l{l},a{l},-l{l}"])
  else
    ({ s with loops := upd s.loops l { ls with cmid := none } }, [.ret EBUSY])

/-- uv__work_done loop body (:324-332), one callback per step; uv__queue_done unregisters
    before calling the user's callback (:360) -/
def doReport (s : State) (l : Nat) : State × List Ev :=
  let ls := s.loops l
  match ls.lq with
  | [] => ({ s with loops := upd s.loops l { ls with phase := .top } }, [])
  | i :: rest =>
    let it := s.items i
    let err : Int := if it.work = .cancelled then ECANCELED else 0      -- :329
    ({ s with items := upd s.items i { it with dones := it.dones + 1, status := err, loc := .reported },
              loops := upd s.loops l { ls with lq := rest, phase := .incb, reqs := ls.reqs - 1 } },
     [.dn i err])

/-- uv__work_done, locked region (:318-320); the async flag was consumed by uv__async_io -/
def doDrain (s : State) (l : Nat) : State × List Ev :=
  let ls := s.loops l
  ({ s with loops := upd s.loops l { ls with lq := ls.q, q := [], phase := .drained, async := false } },
   [.lk s!"+l{l},-l{l}"])

/-- the locked region of worker() from the top of `for(;;)` to uv_cond_wait or :120 -/
def doRegion (s : State) (t : Nat) (c : Nat) : State × List Ev :=
  match dqLoop (threshold s.n) s.slowRun (dqFuel s.wq) s.wq s.sq with
  | .fuel => (s, [.lk "fuel"])
  | .wait wq sq =>
    ({ s with wq := wq, sq := sq, idle := s.idle + 1, workers := upd s.workers t .waiting },
     [.lk "+g,wait"])
  | .take i slow wq sq sig =>
    let it := s.items i
    let s1 := { s with wq := wq, sq := sq, slowRun := if slow then s.slowRun + 1 else s.slowRun,
                       items := upd s.items i { it with linked := false, loc := .got t },
                       workers := upd s.workers t (.got i slow) }
    if sig && decide (s1.idle > 0) then (signal s1 c, [.lk "+g,sig,-g"]) else (s1, [.lk "+g,-g"])

def doWorker (s : State) (t : Nat) (c : Nat) : Option (State × List Ev) :=
  match s.workers t with
  | .waiting => none
  | .start => some (doRegion s t c)
  | .woken => some (doRegion { s with idle := s.idle - 1 } t c)                       -- :78
  | .posted slow =>
    some (doRegion { s with slowRun := if slow then s.slowRun - 1 else s.slowRun } t c)  -- :134-138
  | .got i slow =>                                                                      -- :123
    let it := s.items i
    some ({ s with items := upd s.items i { it with starts := it.starts + 1, loc := .inwork t },
                   workers := upd s.workers t (.inwork i slow) }, [.ws i])
  | .inwork i slow =>                                                                   -- :125-130
    let it := s.items i
    let l := it.loop
    let ls := s.loops l
    some ({ s with items := upd s.items i { it with returned := true, work := .null, linked := true,
                                                    loc := .loopQ },
                   loops := upd s.loops l { ls with q := ls.q ++ [i], async := true },
                   workers := upd s.workers t (.posted slow) },
          [.we i, .lk s!"+l{l},a{l},-l{l}"])

/-- `none` = the action is not enabled in this state (the drivers print `skip`) -/
def step (s : State) : Act → Option (State × List Ev)
  | .sub l k c =>
    if l < s.nLoops ∧ loopReady (s.loops l) then some (doSub s l k c) else none
  | .can l i =>
    if l < s.nLoops ∧ loopReady (s.loops l) ∧ i < s.nItems ∧ (s.items i).loop = l
       ∧ (s.items i).dones = 0 then some (doCan1 s l i) else none
  | .go l =>
    if l < s.nLoops then
      match (s.loops l).cmid with
      | some (i, ok) => some (doCan2 s l i ok)
      | none => if (s.loops l).phase = .top then none else some (doReport s l)
    else none
  | .drn l =>
    if l < s.nLoops ∧ (s.loops l).phase = .top ∧ (s.loops l).cmid = none then some (doDrain s l)
    else none
  | .wk t c => if t < s.n then doWorker s t c else none
  | .wake t =>
    if t < s.n ∧ s.workers t = .waiting then some ({ s with workers := upd s.workers t .woken }, [])
    else none

/-- run an action list, skipping disabled actions -/
def run (s : State) : List Act → State
  | [] => s
  | a :: as => match step s a with
    | some (s', _) => run s' as
    | none => run s as

/-- states reachable from the initial configuration by any interleaving -/
def Reach (n nLoops : Nat) (s : State) : Prop := ∃ as, s = run (State.init n nLoops) as

end UvModel.Tpool
