import UvModel.Puny
/-!
  C18 (text half): executable model of the part of `uv_getaddrinfo`
  (/repo/src/unix/getaddrinfo.c:139-222) that decides **what the C library's resolver is handed**:
  the argument check (:150-151), the IDNA step on the host name into the 256-byte
  `hostname_ascii` (:161-169), the copies of hints / service / host name into the request
  (:171-204) and the call `getaddrinfo(req->hostname, req->service, req->hints, …)` (:104).

  The resolver's answer is an *input* (`ans`, an `EAI_*` code or 0).  `hints` is carried as an
  opaque value: the C code only tests the pointer for NULL and `memcpy`s the structure — in
  particular nothing about the host-name step looks at `ai_flags` / `ai_family`.
-/
namespace UvModel.GaiHost
open UvModel.Puny

/-- the fields of `struct addrinfo` a caller sets in `hints` -/
structure Hints where
  flags : Int
  family : Int
  socktype : Int
  protocol : Int
deriving DecidableEq, Repr

/-- a C string: the bytes before the first NUL (`strlen`) -/
def cstr (l : List Nat) : List Nat := l.takeWhile (· ≠ 0)

/-- outcome of the synchronous part of `uv_getaddrinfo` -/
inductive Prep where
  /-- returned before any request was set up; the resolver is never called -/
  | err (rc : Int)
  /-- the resolver is called (inline or on the thread pool) with these three arguments -/
  | call (node : Option (List Nat)) (service : Option (List Nat)) (hints : Option Hints)
deriving DecidableEq, Repr

/-- getaddrinfo.c:150-204 + :104.  `reqNull`: `req == NULL`. -/
def prep (reqNull : Bool) (host service : Option (List Nat)) (hints : Option Hints) : Prep :=
  if reqNull || (host.isNone && service.isNone) then .err UV_EINVAL          -- :150-151
  else
    match host with
    | none => .call none (service.map cstr) hints                             -- :171-204
    | some h =>
      let r := toascii (cstr h) 256                                           -- :161-165 (strlen, sizeof 256)
      if r.1 < 0 then .err r.1                                                -- :166-167
      else .call (some (cstr r.2.out)) (service.map cstr) hints               -- :168, :171 strlen, :203

/-- `uv__getaddrinfo_translate_error` (:42-95) for the answers the harness's resolver gives;
    `none` = not modelled -/
def translate (ans : Int) : Option Int :=
  if ans = 0 then some 0
  else if ans = -2 then some (-3008)        -- EAI_NONAME
  else if ans = -3 then some (-3001)        -- EAI_AGAIN
  else if ans = -4 then some (-3004)        -- EAI_FAIL
  else if ans = -10 then some (-3006)       -- EAI_MEMORY
  else if ans = -8 then some (-3010)        -- EAI_SERVICE
  else none

end UvModel.GaiHost
