import UvModel.Lemmas.FdLedgerLemmas
/-!
# C15 — the API-operation catalogue over the descriptor ledger

`St.l` carries the ledger *together with* the proof of the ledger invariant `LInv`; the only way an
operation can change the ledger is `St.run` (= `exec` on a list of primitives), so every operation
sequence maintains the invariant by construction (checked by the type checker on every path of every
operation below).
-/
namespace UvModel.FdLedger

/-! ## handles and the rest of the state (control flow only; descriptors live in the ledger) -/

inductive HKind | tcp | pipe | udp | tty | poll | async | signal | fsev | proc
  deriving DecidableEq, Repr

inductive HSt | dead | live | closing | closed
  deriving DecidableEq, Repr

structure H where
  kind : HKind
  st : HSt := .live
  policy : Nat := 0            -- 0 hold, 1 accept inside the callback
  ipc : Bool := false
  bound : Bool := false
  listening : Bool := false
  delayed : Bool := false      -- tcp delayed_error (EADDRINUSE at bind)
  readable : Bool := false
  connected : Bool := false
  reading : Bool := false
  pending : Nat := 0           -- connections waiting in the listen backlog
  inflight : List (List HKind) := []   -- SCM_RIGHTS batches waiting in the socket
  nodelay : Bool := false      -- UV_HANDLE_TCP_NODELAY set before the handle had a socket (applied in uv__stream_open)
  keepalive : Bool := false    -- UV_HANDLE_TCP_KEEPALIVE, likewise
  qsize : Nat := 0             -- capacity of the queued_fds array (0 = not allocated)
  stalled : Bool := false      -- POLLIN not re-armed after a failed uv_accept (stream.c:592-596) until uv_listen is called again
  deriving Repr

/-- `fail <syscall> <occurrence> <errno>` lines preceding the op -/
abbrev Inj := List (String × Nat × Nat)

def failsAt (inj : Inj) (name : String) (k : Nat) : Option Nat :=
  (inj.find? (fun x => x.1 = name ∧ x.2.1 = k)).map (·.2.2)

structure St where
  l : { l : Ledger // LInv l } := ⟨{}, linv_empty⟩    -- the ledger can only be changed through `exec`
  hs : List H := []
  loopOk : Bool := false
  lockDone : Bool := false
  cnt : List (String × Nat) := []     -- per-op syscall occurrence counters

def St.h? (s : St) (i : Nat) : Option H := s.hs[i]?
def St.liveH (s : St) (i : Nat) : Option H := match s.hs[i]? with | some h => if h.st = .live then some h else none | none => none
def St.setH (s : St) (i : Nat) (f : H → H) : St := { s with hs := s.hs.modify i f }
def St.has (s : St) (o : Owner) : Bool := (find? s.l.1.led o).isSome
def St.run (s : St) (ps : List Prim) : St := { s with l := ⟨exec s.l.1 ps, linv_exec _ _ s.l.2⟩ }
def St.clearOut (s : St) : St := { s with l := ⟨{ s.l.1 with out := [] }, linv_clearOut _ s.l.2⟩ }
def St.say (s : St) (line : String) : St := s.run [.say line]
def St.newH (s : St) (h : H) : St := { s with hs := s.hs ++ [h] }

/-- occurrence number the next call of syscall `name` has in this op -/
def St.occ (s : St) (name : String) : Nat := ((s.cnt.find? (·.1 = name)).map (·.2)).getD 0 + 1
/-- the injected errno if the next call of `name` is made to fail -/
def St.fails (s : St) (inj : Inj) (name : String) : Option Nat := failsAt inj name (s.occ name)
/-- account for that call (and log the injected failure) -/
def St.tick (s : St) (inj : Inj) (name : String) : St :=
  let s' := { s with cnt := (name, s.occ name) :: s.cnt.filter (·.1 ≠ name) }
  match s.fails inj name with
  | some e => s'.say s!"env fail {name} {e}"
  | none => s'

/-- uv__stream_init (stream.c:99-110): make sure the loop has its spare descriptor -/
def emfileInit (s : St) (inj : Inj) : St :=
  if s.has (.loop .emfile) then s else
  match s.fails inj "open" with
  | none => (s.tick inj "open").run [.create .openCloexec .file (.loop .emfile)]
  | some _ =>
    let s := s.tick inj "open"
    match s.fails inj "open" with
    | none => (s.tick inj "open").run [.create .openCloexec .file (.loop .emfile)]
    | some _ => s.tick inj "open"

/-- uv__stream_close (stream.c:1540-1563) -/
def streamClosePrims (h : Nat) : List Prim :=
  [.closeOwner (.handle h .io) true, .closeOwner (.handle h .acc) false, .closeQ h]

def isStream (k : HKind) : Bool := k = .tcp || k = .pipe || k = .tty

def nQueued (s : St) (h : Nat) : Nat := (s.l.1.led.filter (·.owner = .handle h .q)).length

/-- is what field `o` holds a TCP socket? (TCP_NODELAY / keep-alive options only work on those) -/
def heldIsTcp (s : St) (o : Owner) : Bool := match find? s.l.1.led o with | some e => e.kind.isTcp | none => false

def cliNodelay (s : St) (cli : Nat) : Bool := match s.h? cli with | some x => x.kind = .tcp && x.nodelay | none => false
def cliKeepalive (s : St) (cli : Nat) : Bool := match s.h? cli with | some x => x.kind = .tcp && x.keepalive | none => false

/-- uv__stream_open's deferred options (stream.c:414-423): TCP_NODELAY / keep-alive requested while the handle had no
    socket are applied to the descriptor now; if that fails the handle must NOT keep the descriptor -/
def deferredOk (s : St) (inj : Inj) (cli : Nat) (isTcp : Bool) : Bool :=
  (!cliNodelay s cli || ((s.fails inj "nodelay").isNone && isTcp)) && (!cliKeepalive s cli || isTcp)

def acceptPre (s : St) (cli : Nat) (ckind : HKind) : Bool :=
  !s.has (.handle cli .io) && (ckind = .tcp || ckind = .pipe || ckind = .udp || ckind = .tty)

def acceptOk (s : St) (inj : Inj) (srv cli : Nat) (ckind : HKind) : Bool :=
  acceptPre s cli ckind && deferredOk s inj cli (heldIsTcp s (.handle srv .acc))

/-- uv_accept, first half (stream.c:536-566): the pending descriptor goes to the client via uv__stream_open /
    uv_udp_open, or is closed when that fails -/
def acceptMove (s : St) (inj : Inj) (srv cli : Nat) (ckind : HKind) : St :=
  -- a connection taken from a listen backlog is bound; a descriptor received over IPC is whatever the sender made
  let fromIpc := ((s.h? srv).map (·.ipc)).getD false
  let s0 := if acceptPre s cli ckind && cliNodelay s cli then s.tick inj "nodelay" else s
  if acceptOk s inj srv cli ckind then
    (s0.run [.transfer (.handle srv .acc) (.handle cli .io)]).setH cli
      (fun h => { h with readable := true, bound := !fromIpc, connected := !fromIpc })
  else
    -- stream.c:592-596: POLLIN is re-armed only `if (err == 0)`: after a failed uv_accept the server
    -- stops accepting until uv_listen is called again
    (s0.run [.closeOwner (.handle srv .acc) false]).setH srv (fun h => { h with stalled := true })

/-- uv_accept, `done:` (stream.c:571-597): the next queued descriptor (if any) becomes the pending one; the array is
    freed when it empties -/
def acceptShift (s : St) (srv : Nat) : St :=
  let s := s.run [.transfer (.handle srv .q) (.handle srv .acc)]
  if nQueued s srv = 0 then s.setH srv (fun h => { h with qsize := 0 }) else s

/-- uv_accept (stream.c:536-598) -/
def acceptInto (s : St) (inj : Inj) (srv cli : Nat) (ckind : HKind) : St :=
  acceptShift (acceptMove s inj srv cli ckind) srv

/-- uv_stdio_container_t: UV_IGNORE, UV_CREATE_PIPE into pipe handle h, UV_INHERIT_FD of user descriptor f,
    UV_INHERIT_STREAM of stream handle h -/
inductive Cont | ignore | pipe (h : Nat) | fd (f : Nat) | stream (h : Nat)
  deriving Repr

inductive Op
  | loopInit | loopClose
  | tcpInit (af : Bool) | pipeInit (ipc : Bool) | udpInit (af : Bool)
  | ttyInit (f : Nat) | pollInit (f : Nat) | asyncInit | signalStart | fsEventStart (ok : Bool)
  | ufd (kind : String) (at_ : Option Nat) | uclose (f : Nat)
  | open_ (h f : Nat)
  | bind (h : Nat) (variant : String) (other : Nat)
  | listen (h : Nat) | policy (h p : Nat) | readStart (h : Nat)
  | connect (h : Nat) (target : Option Nat)
  | accept (s c : Nat) | close (h : Nat) | run
  | uvPipe | uvSocketpair
  | fsOpen (variant : String) | fsMkstemp | fsClose (f : Nat) | fsCopyfile (variant : String)
  | flood (h n : Nat) | util
  | fork                                          -- fork(); the child calls uv_loop_fork and carries on
  | sockopt (h : Nat) (keepalive : Bool)          -- uv_tcp_nodelay(h, 1) / uv_tcp_keepalive(h, 1, 60)
  | ipcSend (f h : Nat) (kinds : List HKind)
  | spawn (ok : Bool) (cs : List Cont)
  | end_
  deriving Repr

def ret (s : St) (ok : Bool) : St := s.say (if ok then "ret 0" else "ret E")
def bad (s : St) : St := s.say "bad-op"

/-! ## uv_run: one readiness event at a time -/

def sockKind : HKind → Kind | .tcp => .tcp | .udp => .udp | _ => .sock
def ipcKind : HKind → Kind | .tcp => .ipcTcp | .udp => .ipcUdp | _ => .ipc

/-- a listening server with a connection in its backlog and no connection held (POLLIN armed) -/
def serverReady (s : St) : Option Nat :=
  (List.range s.hs.length).find? (fun i => match s.liveH i with
    | some h => isStream h.kind && h.listening && !h.stalled && h.pending > 0 && !s.has (.handle i .acc) | none => false)

/-- an IPC pipe that is reading and has descriptors in flight -/
def ipcReady (s : St) : Option Nat :=
  (List.range s.hs.length).find? (fun i => match s.liveH i with
    | some h => h.kind = .pipe && h.reading && !h.inflight.isEmpty && s.has (.handle i .io) | none => false)

/-- the user's callback initialises a fresh handle of kind `k` (uv_tcp_init / uv_pipe_init run uv__stream_init,
    uv_udp_init does not) and calls uv_accept(server i, it) -/
def cbAccept (s : St) (inj : Inj) (i : Nat) (k : HKind) (streamInit : Bool) : St :=
  let c := s.hs.length
  let s := s.newH { kind := k }
  let s := if streamInit then emfileInit s inj else s
  let ok := acceptOk s inj i c k
  (acceptInto s inj i c k).say s!"cb accept h{i} h{c} {if ok then "0" else "E"}"

/-- uv__emfile_trick's loop (stream.c:494-498): accept and close until the backlog is empty or accept fails -/
def shed (inj : Inj) (i : Nat) : Nat → St → St
  | 0, s => s.tick inj "accept4"      -- the accept4 that finds the backlog empty (EAGAIN) ends the loop
  | n + 1, s =>
    match s.fails inj "accept4" with
    | some _ => s.tick inj "accept4"
    | none => shed inj i n (((s.tick inj "accept4").run [.create .uvAccept .sock (.temp 0), .closeOwner (.temp 0) false]).setH i
                            (fun h => { h with pending := h.pending - 1 }))

/-- uv__server_io (stream.c:508-533) with uv__emfile_trick (484-505) -/
def serverEvent (s : St) (inj : Inj) (i : Nat) : St :=
  let h := (s.h? i).getD { kind := .tcp }
  match s.fails inj "accept4" with
  | some e =>
    let s := s.tick inj "accept4"
    if e = 24 || e = 23 then
      if !s.has (.loop .emfile) then s else
      let s := shed inj i h.pending (s.run [.closeOwner (.loop .emfile) false])
      match s.fails inj "open" with
      | none => (s.tick inj "open").run [.create .openCloexec .file (.loop .emfile)]
      | some _ => s.tick inj "open"
    else s
  | none =>
    let s := ((s.tick inj "accept4").run [.create .uvAccept (sockKind h.kind) (.handle i .acc)]).setH i (fun h => { h with pending := h.pending - 1 })
    let s := s.say s!"cb conn h{i} 0"
    if h.policy = 1 then cbAccept s inj i h.kind true else s

/-- recvmsg delivers every descriptor of the message at once (locals `temp j`, …) -/
def recvCreate : Nat → List HKind → St → St
  | _, [], s => s
  | j, k :: ks, s => recvCreate (j + 1) ks (s.run [.create .recvCmsg (ipcKind k) (.temp j)])

/-- uv__stream_recv_cmsg (stream.c:981-1021) with uv__stream_queue_fd (942-977): the first descriptor becomes the
    pending one, the others are queued (array of 8, grown by 8); once an allocation fails, that descriptor and all
    remaining ones are closed.  `n` descriptors starting at local `temp j`; result: state and `err ≠ 0`. -/
def recvQueue (inj : Inj) (i : Nat) : Nat → Nat → St → Bool → St × Bool
  | _, 0, s, err => (s, err)
  | j, n + 1, s, err =>
    if err then recvQueue inj i (j + 1) n (s.run [.closeOwner (.temp j) false]) true else
    if !s.has (.handle i .acc) then recvQueue inj i (j + 1) n (s.run [.transfer (.temp j) (.handle i .acc)]) false else
    let qs := ((s.h? i).map (·.qsize)).getD 0
    if qs = 0 then
      match s.fails inj "malloc" with
      | some _ => recvQueue inj i (j + 1) n ((s.tick inj "malloc").run [.closeOwner (.temp j) false]) true
      | none => recvQueue inj i (j + 1) n (((s.tick inj "malloc").run [.transfer (.temp j) (.handle i .q)]).setH i
                  (fun h => { h with qsize := 8 })) false
    else if nQueued s i = qs then
      match s.fails inj "realloc" with
      | some _ => recvQueue inj i (j + 1) n ((s.tick inj "realloc").run [.closeOwner (.temp j) false]) true
      | none => recvQueue inj i (j + 1) n (((s.tick inj "realloc").run [.transfer (.temp j) (.handle i .q)]).setH i
                  (fun h => { h with qsize := h.qsize + 8 })) false
    else recvQueue inj i (j + 1) n (s.run [.transfer (.temp j) (.handle i .q)]) false

/-- uv_pipe_pending_type: the handle kind the callback creates for a received descriptor -/
def hkindOfIpc : Kind → HKind | .ipcTcp => .tcp | .ipcUdp => .udp | _ => .pipe

/-- the read callback with policy `accept`: `while (uv_pipe_pending_count(h) > 0)` take the pending descriptor
    (oldest first: earlier messages' descriptors still queued come before this message's) into a fresh handle -/
def ipcAcceptAll (inj : Inj) (i : Nat) : Nat → St → St
  | 0, s => s
  | n + 1, s =>
    match find? s.l.1.led (.handle i .acc) with
    | none => s
    | some e => ipcAcceptAll inj i n (cbAccept s inj i (hkindOfIpc e.kind) (isStream (hkindOfIpc e.kind)))

/-- uv__read on an IPC pipe (stream.c:1090-1160), then the read callback (harness: stop reading on error; with
    policy `accept`, take every pending descriptor into a fresh handle) -/
def ipcEvent (s : St) (inj : Inj) (i : Nat) : St :=
  let h := (s.h? i).getD { kind := .pipe }
  let batch := h.inflight.headD []
  let s := s.setH i (fun h => { h with inflight := h.inflight.tail })
  let s := recvCreate 0 batch s
  let r := recvQueue inj i 0 batch.length s false
  if r.2 then r.1.setH i (fun h => { h with reading := false }) else
  let s := r.1.say s!"cb read h{i} 1"
  if h.policy = 1 then ipcAcceptAll inj i (nQueued s i + 1) s else s

def runStep (s : St) (inj : Inj) : Option St :=
  match serverReady s with
  | some i => some (serverEvent s inj i)
  | none =>
    match ipcReady s with
    | some i => some (ipcEvent s inj i)
    | none => none

def runLoop (inj : Inj) : Nat → St → St
  | 0, s => s
  | n + 1, s => match runStep s inj with
    | none => s
    | some s => runLoop inj n s

def runFuel (s : St) : Nat := (s.hs.map (fun h => h.pending + h.inflight.length)).sum + 1

/-! ## uv_spawn, parent side (process.c:986-1110 and 935-980)

`pipes[m][0]` / `pipes[m][1]` of the m-th UV_CREATE_PIPE container are the locals `temp (2m)` / `temp (2m+1)`;
the exec-error pipe is `temp (2M)`, `temp (2M+1)` with M = number of UV_CREATE_PIPE containers. -/

def pipeHandles (cs : List Cont) : List Nat := cs.filterMap (fun c => match c with | .pipe h => some h | _ => none)

/-- the `error:` label (process.c:1093-1108): `if (pipes[i][k] != -1) close(pipes[i][k])` for every slot -/
def sweepPrims (lo hi : Nat) : List Prim := (List.range' lo (hi - lo)).map (fun k => Prim.closeOwner (.temp k) false)

/-- uv__process_init_stdio for each container, in order (process.c:188-239); `m` = pipes created so far;
    `none` = failed (everything created so far is closed) -/
def initStdio (inj : Inj) : St → Nat → List Cont → St × Option Nat
  | s, m, [] => (s, some m)
  | s, m, .pipe _ :: rest =>
    (match s.fails inj "socketpair" with
    | some _ => ((s.tick inj "socketpair").run (sweepPrims 0 (2 * m)), none)
    | none => initStdio inj ((s.tick inj "socketpair").run
                [.create .socketpair .sock (.temp (2 * m)), .create .socketpair .sock (.temp (2 * m + 1))]) (m + 1) rest)
  | s, m, .stream h :: rest =>
    -- a stream without descriptor: UV_EINVAL
    if s.has (.handle h .io) then initStdio inj s m rest else (s.run (sweepPrims 0 (2 * m)), none)
  | s, m, _ :: rest => initStdio inj s m rest

/-- uv__process_open_stream for each UV_CREATE_PIPE container, in order (process.c:242-262, 1074-1085);
    `done`: streams opened so far, latest first -/
def openStreams (M : Nat) : St → Nat → List Nat → List Nat → St × Bool
  | s, _, _, [] => (s, true)
  | s, m, done, h :: rest =>
    let s := s.run [.closeOwner (.temp (2 * m + 1)) false]
    if s.has (.handle h .io) then
      -- UV_EBUSY: close the streams opened so far (latest first), then everything still in pipes[][]
      let s := done.foldl (fun s hj => s.run (streamClosePrims hj)) s
      (s.run (sweepPrims (2 * m) (2 * M)), false)
    else
      openStreams M ((s.run [.transfer (.temp (2 * m)) (.handle h .io)]).setH h (fun x => { x with readable := true }))
        (m + 1) (h :: done) rest

/-- uv__spawn_and_init_child: the exec-error pipe (process.c:939-977), created and closed inside the call.
    Between creation and the two closes sits `fork()` (uv__spawn_and_init_child_fork, process.c:839-878): whether the
    kernel grants it or refuses it (EAGAIN / ENOMEM), the write end is closed at :955 and the read end at :981 -/
def spawnExecPipe (s : St) (inj : Inj) (M : Nat) : St :=
  match s.fails inj "pipe2" with
  | some _ => s.tick inj "pipe2"
  | none => ((((s.tick inj "pipe2").run [.create .pipe2 .pipe (.temp (2 * M)), .create .pipe2 .pipe (.temp (2 * M + 1))]).tick
              inj "fork").run [.closeOwner (.temp (2 * M + 1)) false, .closeOwner (.temp (2 * M)) false])

/-- `cs`: containers; index 1 is always an inherited descriptor of the harness (no ledger effect). -/
def spawnOp (s : St) (inj : Inj) (ok : Bool) (cs : List Cont) : St :=
  let p := s.hs.length
  let s := s.newH { kind := .proc }
  match initStdio inj s 0 cs with
  | (s, none) => ret (s.setH p (fun h => { h with st := .closing })) false
  | (s, some M) =>
    -- uv__spawn_and_init_child: the exec-error pipe
    let execOk := (s.fails inj "pipe2").isNone && (s.fails inj "fork").isNone && ok
    let s := spawnExecPipe s inj M
    match openStreams M s 0 [] (pipeHandles cs) with
    | (s, false) => ret (s.setH p (fun h => { h with st := .closing })) false
    | (s, true) =>
      if execOk then ret s true else ret (s.setH p (fun h => { h with st := .closing })) false

def userKind : String → Option (List Kind)
  | "tcpsock" => some [.tcp] | "udpsock" => some [.udp] | "unixsock" => some [.sock] | "file" => some [.file]
  | "pipe" => some [.pipe, .pipe] | "sockpair" => some [.sock, .sock] | _ => none

def userEntry (s : St) (f : Nat) : Option Entry :=
  match findId? s.l.1.led f with
  | some e => if e.owner = .user then some e else none
  | none => none

/-! ## the catalogue, one definition per API operation -/

def needsNodelay (s : St) (h : Nat) : Bool := match s.liveH h with | some x => x.kind = .tcp && x.nodelay | none => false
def sockKindOf (s : St) (h : Nat) : Kind := match s.h? h with | some x => sockKind x.kind | none => .sock

/-- make sure handle h has a socket (maybe_new_socket/new_socket tcp.c:65-109, uv__udp_bind udp.c:375-382, pipe
    connect): `none` = socket() failed, or the deferred TCP_NODELAY could not be applied to the new socket -/
def ensureSock (s : St) (inj : Inj) (h : Nat) : Option St :=
  if s.has (.handle h .io) then some s else
  match s.fails inj "socket" with
  | some _ => none
  | none =>
    let s1 := s.tick inj "socket"
    if needsNodelay s h then
      match s1.fails inj "nodelay" with
      | some _ => none
      | none => some ((s1.run [.create .uvSocket (sockKindOf s h) (.handle h .io)]).tick inj "nodelay")
    else some (s1.run [.create .uvSocket (sockKindOf s h) (.handle h .io)])

/-- the state after `ensureSock` returned `none`: nothing was opened, or new_socket closed the socket again
    (tcp.c:72-76 `uv__close(sockfd)`) -/
def ensureSockFail (s : St) (inj : Inj) (h : Nat) : St :=
  match s.fails inj "socket" with
  | some _ => s.tick inj "socket"
  | none => ((((s.tick inj "socket").run [.create .uvSocket (sockKindOf s h) (.temp 0)]).tick inj "nodelay").run
              [.closeOwner (.temp 0) false])

/-- the loop's io_uring control ring (linux.c:654 → uv__iou_init): silently absent when the kernel refuses -/
def loopInitRing (s : St) (inj : Inj) : St :=
  match s.fails inj "io_uring_setup" with
  | some _ => s.tick inj "io_uring_setup"
  | none => (s.tick inj "io_uring_setup").run [.create .ioUring .ring (.loop .ring)]

/-- uv__signal_global_once_init (signal.c:79-112), once per process -/
def loopInitLock (s : St) (inj : Inj) : St :=
  if s.lockDone then s else
  { (s.tick inj "pipe2").run [.create .pipe2 .pipe (.glob 0), .create .pipe2 .pipe (.glob 1)] with lockDone := true }

/-- uv__process_init → uv_signal_init → uv__signal_loop_once_init (signal.c:262-280), then
    uv_async_init(&loop->wq_async) → uv__async_start (async.c:258-318); failure exits of loop.c:100-128 -/
def loopInitTail (s : St) (inj : Inj) : St :=
  match s.fails inj "pipe2" with
  | some _ =>
    -- fail_signal_init: uv__platform_loop_delete, then backend_fd (loop.c:115-120)
    ret ((s.tick inj "pipe2").run [.closeOwner (.loop .ring) false, .closeOwner (.loop .backend) false]) false
  | none =>
    let s := (s.tick inj "pipe2").run [.create .pipe2 .pipe (.loop .sig0), .create .pipe2 .pipe (.loop .sig1)]
    match s.fails inj "eventfd" with
    | some _ =>
      ret ((s.tick inj "eventfd").run [.closeOwner (.loop .sig0) false, .closeOwner (.loop .sig1) false,
                  .closeOwner (.loop .ring) false, .closeOwner (.loop .backend) false]) false
    | none => ret { (s.tick inj "eventfd").run [.create .eventfd .evfd (.loop .async)] with loopOk := true } true

/-! ### fork(): the child keeps every descriptor; uv_loop_fork re-creates the kernel objects that must not be shared -/

/-- uv__signal_loop_fork (signal.c:283-307) -/
def forkSignal (s : St) (inj : Inj) : St :=
  let s := s.run [.closeOwner (.loop .sig0) false, .closeOwner (.loop .sig1) false]
  match s.fails inj "pipe2" with
  | some _ => ret (s.tick inj "pipe2") false
  | none => ret ((s.tick inj "pipe2").run [.create .pipe2 .pipe (.loop .sig0), .create .pipe2 .pipe (.loop .sig1)]) true

/-- uv__async_fork (async.c:360-397), then the signal pipe -/
def forkAsync (s : St) (inj : Inj) : St :=
  let s := s.run [.closeOwner (.loop .async) false]
  match s.fails inj "eventfd" with
  | some _ => ret (s.tick inj "eventfd") false
  | none => forkSignal ((s.tick inj "eventfd").run [.create .eventfd .evfd (.loop .async)]) inj

/-- a started uv_fs_event_t exists: uv__inotify_fork restarts it, which re-creates the inotify descriptor -/
def hasWatchers (s : St) : Bool := s.hs.any (fun h => h.kind = .fsev && h.st = .live && h.bound)

/-- uv__io_fork (linux.c:658-676): the inherited epoll descriptor is CLOSED, rings and inotify deleted, then
    uv__platform_loop_init and uv__inotify_fork; then the wake-up descriptor and the signal pipe -/
def forkIo (s : St) (inj : Inj) : St :=
  let s := s.run [.closeOwner (.loop .backend) false, .closeOwner (.loop .ring) false, .closeOwner (.loop .inotify) false]
  match s.fails inj "epoll_create1" with
  | some _ => ret (s.tick inj "epoll_create1") false
  | none =>
    let s := loopInitRing ((s.tick inj "epoll_create1").run [.create .epollCreate .epoll (.loop .backend)]) inj
    if hasWatchers s then
      match s.fails inj "inotify_init1" with
      | some _ => ret (s.tick inj "inotify_init1") false
      | none => forkAsync ((s.tick inj "inotify_init1").run [.create .inotifyInit .inot (.loop .inotify)]) inj
    else forkAsync s inj

/-- the pthread_atfork child handler uv__signal_global_reinit (signal.c:66-112): the lock pipe is replaced -/
def forkLock (s : St) (inj : Inj) : St :=
  if s.lockDone then
    ((s.run [.closeOwner (.glob 0) false, .closeOwner (.glob 1) false]).tick inj "pipe2").run
      [.create .pipe2 .pipe (.glob 0), .create .pipe2 .pipe (.glob 1)]
  else s

def opFork (s : St) (inj : Inj) : St :=
  let s := forkLock s inj
  if s.loopOk then forkIo s inj else ret s true

def opLoopInit (s : St) (inj : Inj) : St :=
  if s.loopOk then bad s else
  -- uv__platform_loop_init (linux.c:640-657)
  match s.fails inj "epoll_create1" with
  | some _ => ret (s.tick inj "epoll_create1") false
  | none =>
    loopInitTail (loopInitLock (loopInitRing
      ((s.tick inj "epoll_create1").run [.create .epollCreate .epoll (.loop .backend)]) inj) inj) inj

/-- uv__loop_close (loop.c:166-200): `loopClosePrims` = sig0, sig1, ring, inotify, async, emfile, backend -/
def opLoopClose (s : St) : St :=
  if !s.loopOk then ret s false else
  if s.hs.any (fun h => h.st = .live || h.st = .closing) then ret s false else
  ret { s.run loopClosePrims with loopOk := false } true

def opUfd (s : St) (kind : String) (at_ : Option Nat) : St :=
  match userKind kind with
  | none => bad s
  | some ks =>
    let stdioClash := match at_ with
      | some n => n > 2 || s.l.1.led.any (fun e => e.stdio)
      | none => false
    if stdioClash then bad s else
    s.run ((List.range ks.length).map (fun i => Prim.userCreate (ks.getD i .sock) (i = 0 && at_.isSome)))

def opUclose (s : St) (f : Nat) : St :=
  match userEntry s f with
  | some _ => s.run [.userClose f]
  | none => bad s

def opUvPipe (s : St) (inj : Inj) : St :=
  match s.fails inj "pipe2" with
  | some _ => ret (s.tick inj "pipe2") false
  | none => ret ((s.tick inj "pipe2").run [.createGive .pipe2 .pipe, .createGive .pipe2 .pipe]) true

def opUvSocketpair (s : St) (inj : Inj) : St :=
  match s.fails inj "socketpair" with
  | some _ => ret (s.tick inj "socketpair") false
  | none => ret ((s.tick inj "socketpair").run [.createGive .socketpair .sock, .createGive .socketpair .sock]) true

def opTcpInit (s : St) (inj : Inj) (af : Bool) : St :=
  let i := s.hs.length
  let s := emfileInit (s.newH { kind := .tcp }) inj
  if af then
    match s.fails inj "socket" with
    | some _ => ret ((s.tick inj "socket").setH i (fun h => { h with st := .dead })) false
    | none => ret ((s.tick inj "socket").run [.create .uvSocket .tcp (.handle i .io)]) true
  else ret s true

def opUdpInit (s : St) (inj : Inj) (af : Bool) : St :=
  let i := s.hs.length
  let s := s.newH { kind := .udp }
  if af then
    match s.fails inj "socket" with
    | some _ => ret ((s.tick inj "socket").setH i (fun h => { h with st := .dead })) false
    | none => ret ((s.tick inj "socket").run [.create .uvSocket .udp (.handle i .io)]) true
  else ret s true

def opTtyInit (s : St) (inj : Inj) (f : Nat) : St :=
  match userEntry s f with
  | none => bad s
  | some e =>
    let i := s.hs.length
    if e.kind = .file then ret (s.newH { kind := .tty, st := .dead }) false
    else
      let s := emfileInit (s.newH { kind := .tty, readable := true }) inj
      ret (s.run [.adopt f (.handle i .io)]) true

def opPollInit (s : St) (f : Nat) : St :=
  match findId? s.l.1.led f with
  | none => bad s
  | some e =>
    if e.kind = .file then ret (s.newH { kind := .poll, st := .dead }) false
    else ret (s.newH { kind := .poll }) true

def opFsEventStart (s : St) (inj : Inj) (ok : Bool) : St :=
  -- `bound`: the watch was added (uv_fs_event_start succeeded)
  let s := s.newH { kind := .fsev, bound := ok && (s.has (.loop .inotify) || (s.fails inj "inotify_init1").isNone) }
  if s.has (.loop .inotify) then ret s ok else
  match s.fails inj "inotify_init1" with
  | some _ => ret (s.tick inj "inotify_init1") false
  | none => ret ((s.tick inj "inotify_init1").run [.create .inotifyInit .inot (.loop .inotify)]) ok

def opOpen (s : St) (inj : Inj) (h f : Nat) : St :=
  match s.liveH h, userEntry s f with
  | some hh, some e =>
    if !(hh.kind = .tcp || hh.kind = .pipe || hh.kind = .udp) then bad s else
    if s.has (.handle h .io) then ret s false else
    if hh.kind = .udp && !e.kind.isSock then ret s false else
    -- uv_tcp_open → uv__stream_open: deferred TCP_NODELAY / keep-alive; on failure the caller keeps the descriptor
    let ok := deferredOk s inj h e.kind.isTcp
    let s := if cliNodelay s h then s.tick inj "nodelay" else s
    if !ok then ret s false else
    ret ((s.run [.adopt f (.handle h .io)]).setH h (fun x => { x with readable := true })) true
  | _, _ => bad s

/-- uv_tcp_nodelay(h, 1) / uv_tcp_keepalive(h, 1, 60) (tcp.c:578-622): applied at once when the handle has a socket,
    otherwise remembered in the handle flags and applied by uv__stream_open -/
def opSockopt (s : St) (inj : Inj) (h : Nat) (ka : Bool) : St :=
  match s.liveH h with
  | none => bad s
  | some hh =>
    if hh.kind ≠ .tcp then bad s else
    if s.has (.handle h .io) then
      let isTcp := heldIsTcp s (.handle h .io)
      if ka then
        if isTcp then ret (s.setH h (fun x => { x with keepalive := true })) true else ret s false
      else
        let ok := (s.fails inj "nodelay").isNone && isTcp
        let s := s.tick inj "nodelay"
        if ok then ret (s.setH h (fun x => { x with nodelay := true })) true else ret s false
    else ret (s.setH h (fun x => if ka then { x with keepalive := true } else { x with nodelay := true })) true

def opBind (s : St) (inj : Inj) (h : Nat) (variant : String) : St :=
  match s.liveH h with
  | none => bad s
  | some hh =>
    if !(variant = "ok" || variant = "bad" || variant = "same") then bad s else
    if hh.kind = .tcp || hh.kind = .udp then
      -- the socket stays in the handle whatever bind(2) says
      match ensureSock s inj h with
      | none => ret (ensureSockFail s inj h) false
      | some s =>
        if hh.bound then ret s false else
        if variant = "bad" then ret s false else
        if variant = "same" then
          if hh.kind = .tcp then ret (s.setH h (fun x => { x with bound := true, delayed := true })) true
          else ret s false
        else ret (s.setH h (fun x => { x with bound := true })) true
    else if hh.kind = .pipe then
      -- uv_pipe_bind2 (pipe.c:61-150)
      if s.has (.handle h .io) then ret s false else
      match s.fails inj "socket" with
      | some _ => ret (s.tick inj "socket") false
      | none =>
        let s := s.tick inj "socket"
        if variant = "ok" then ret ((s.run [.create .uvSocket .sock (.handle h .io)]).setH h (fun x => { x with bound := true })) true
        else ret (s.run [.create .uvSocket .sock (.temp 0), .closeOwner (.temp 0) false]) false
    else bad s

def opListen (s : St) (inj : Inj) (h : Nat) : St :=
  match s.liveH h with
  | none => bad s
  | some hh =>
    if hh.kind = .tcp then
      if hh.delayed then ret s false else
      match ensureSock s inj h with
      | none => ret (ensureSockFail s inj h) false
      | some s =>
        if hh.connected then ret s false else
        ret (s.setH h (fun x => { x with listening := true, bound := true, stalled := false })) true
    else if hh.kind = .pipe then
      if !s.has (.handle h .io) || hh.ipc || !hh.bound then ret s false
      else ret (s.setH h (fun x => { x with listening := true, stalled := false })) true
    else bad s

/-- tcp.c:309-318: with a delayed bind error no socket is made (and no connect(2) either) -/
def connSock (s : St) (inj : Inj) (h : Nat) (delayed : Bool) : Option St :=
  if delayed then some s else ensureSock s inj h

def opConnect (s : St) (inj : Inj) (h : Nat) (target : Option Nat) : St :=
  match s.liveH h with
  | none => bad s
  | some hh =>
    let tgtOk := match target with
      | some t => (match s.liveH t with | some th => th.kind = hh.kind && th.listening | none => false)
      | none => false
    let bump (s : St) : St := match target with
      | some t => if tgtOk then s.setH t (fun x => { x with pending := x.pending + 1 }) else s
      | none => s
    if hh.kind = .tcp then
      let badTarget : Bool := match target with
        | some t => decide (((s.liveH t).map (·.kind)) ≠ some .tcp)
        | none => false
      if badTarget then bad s else
      if hh.connected then ret s false else
      match connSock s inj h hh.delayed with
      | none => ret (ensureSockFail s inj h) false
      | some s =>
        -- tcp.c:309-310: with a delayed bind error no connect(2) is made at all
        let s := s.setH h (fun x => { x with connected := true, readable := true })
        ret (if hh.delayed then s else bump s) true
    else if hh.kind = .pipe then
      match ensureSock s inj h with
      | none => ret (ensureSockFail s inj h) true
      | some s =>
        if hh.connected || hh.listening then ret s true else
        ret (bump (s.setH h (fun x => { x with connected := tgtOk, readable := x.readable || tgtOk }))) true
    else bad s

def opAccept (s : St) (inj : Inj) (sv c : Nat) : St :=
  match s.liveH sv, s.liveH c with
  | some _, some ch =>
    if !s.has (.handle sv .acc) then ret s false else
    if !(ch.kind = .tcp || ch.kind = .pipe || ch.kind = .udp || ch.kind = .tty) then ret s false else
    ret (acceptInto s inj sv c ch.kind) (acceptOk s inj sv c ch.kind)
  | _, _ => bad s

def opClose (s : St) (h : Nat) : St :=
  match s.liveH h with
  | none => bad s
  | some hh =>
    let s := if isStream hh.kind then s.run (streamClosePrims h)
             else if hh.kind = .udp then s.run [.closeOwner (.handle h .io) true]   -- uv__udp_close (udp.c:56-66)
             else s
    ret (s.setH h (fun x => { x with st := .closing, listening := false, reading := false })) true

def opRun (s : St) (inj : Inj) : St :=
  let s := runLoop inj (runFuel s) s
  ret { s with hs := s.hs.map (fun h =>
          if h.st = .closing || (h.kind = .proc && h.st = .live) then { h with st := .closed } else h) } true

def opFsOpen (s : St) (inj : Inj) (variant : String) : St :=
  if !(variant = "ok" || variant = "creat" || variant = "missing") then bad s else
  match s.fails inj "open" with
  | some _ => ret (s.tick inj "open") false
  | none =>
    let s := s.tick inj "open"
    if variant = "missing" then ret s false else (s.run [.createGive .fsOpen .file]).say s!"ret f{s.l.1.next}"

def opFsClose (s : St) (f : Nat) : St :=
  match userEntry s f with
  | some e => if e.stdio then bad s else ret (s.run [.closeUser f]) true
  | none => bad s

/-- uv__fs_copyfile (fs.c:1230-1425): both descriptors are closed on every exit.  Variants: `ok` fresh destination,
    `missing` no source, `same` / `link` destination is the source itself (early exit, nothing copied), `exists`
    destination is truncated, `excl` destination exists with UV_FS_COPYFILE_EXCL (open fails), `ficlone`. -/
def opFsCopyfile (s : St) (inj : Inj) (v : String) : St :=
  if !(v = "ok" || v = "missing" || v = "same" || v = "link" || v = "exists" || v = "excl" || v = "ficlone") then bad s else
  match s.fails inj "open" with
  | some _ => ret (s.tick inj "open") false
  | none =>
    let s := s.tick inj "open"
    if v = "missing" then ret s false else
    let s := s.run [.create .fsOpen .file (.temp 0)]
    match s.fails inj "open" with
    | some _ => ret ((s.tick inj "open").run [.closeOwner (.temp 0) false]) false
    | none =>
      if v = "excl" then ret ((s.tick inj "open").run [.closeOwner (.temp 0) false]) false else
      ret ((s.tick inj "open").run [.create .fsOpen .file (.temp 1), .closeOwner (.temp 0) false, .closeOwner (.temp 1) false]) true

/-- `n` clients connect to listening server `h` and go away: the connections wait in the backlog -/
def opFlood (s : St) (h n : Nat) : St :=
  match s.liveH h with
  | none => bad s
  | some hh =>
    if !(hh.kind = .tcp || hh.kind = .pipe) then bad s else
    if hh.listening then ret (s.setH h (fun x => { x with pending := x.pending + n })) true else ret s false

def opIpcSend (s : St) (f h : Nat) (kinds : List HKind) : St :=
  match userEntry s f with
  | none => bad s
  | some _ =>
    -- the harness sends over the peer of handle h's socketpair end: fails (EPIPE) once h closed its end
    let ok := (s.liveH h).isSome && s.has (.handle h .io)
    ret (if ok then s.setH h (fun x => { x with inflight := x.inflight ++ [kinds] }) else s) ok

def opSpawn (s : St) (inj : Inj) (ok : Bool) (cs : List Cont) : St :=
  if cs.any (fun c => match c with
      | .pipe h => ((s.liveH h).map (·.kind)) ≠ some .pipe
      | .stream h => !(((s.liveH h).map (fun x => isStream x.kind)).getD false)
      | .fd f => (findId? s.l.1.led f).isNone
      | .ignore => false) then bad s
  else spawnOp s inj ok cs

def step (s : St) (inj : Inj) (op : Op) : St :=
  let s := { s with cnt := [] }
  match op with
  | .loopInit => opLoopInit s inj
  | .loopClose => opLoopClose s
  | .ufd kind at_ => opUfd s kind at_
  | .uclose f => opUclose s f
  | .uvPipe => opUvPipe s inj
  | .uvSocketpair => opUvSocketpair s inj
  | .end_ => ret (s.run [.userCloseAll]) true
  | .fork => opFork s inj
  | op =>
    if !s.loopOk then bad s else
    match op with
    | .tcpInit af => opTcpInit s inj af
    | .pipeInit ipc => ret (emfileInit (s.newH { kind := .pipe, ipc := ipc }) inj) true
    | .udpInit af => opUdpInit s inj af
    | .ttyInit f => opTtyInit s inj f
    | .pollInit f => opPollInit s f
    | .asyncInit => ret (s.newH { kind := .async }) true
    | .signalStart => ret (s.newH { kind := .signal }) true
    | .fsEventStart ok => opFsEventStart s inj ok
    | .open_ h f => opOpen s inj h f
    | .bind h variant _ => opBind s inj h variant
    | .listen h => opListen s inj h
    | .policy h p => (match s.liveH h with | some _ => s.setH h (fun x => { x with policy := p }) | none => bad s)
    | .readStart h =>
      (match s.liveH h with
      | none => bad s
      | some hh => if hh.readable then ret (s.setH h (fun x => { x with reading := true })) true else ret s false)
    | .connect h target => opConnect s inj h target
    | .accept sv c => opAccept s inj sv c
    | .close h => opClose s h
    | .run => opRun s inj
    | .fsOpen variant => opFsOpen s inj variant
    | .fsMkstemp => (s.run [.createGive .mkostemp .file]).say s!"ret f{s.l.1.next}"
    | .fsClose f => opFsClose s f
    | .fsCopyfile v => opFsCopyfile s inj v
    | .flood h n => opFlood s h n
    | .util => ret s true
    | .sockopt h ka => opSockopt s inj h ka
    | .ipcSend f h kinds => opIpcSend s f h kinds
    | .spawn ok cs => opSpawn s inj ok cs
    | _ => bad s

def ownerStr : Owner → String
  | .loop _ => "L" | .glob _ => "G" | .user => "U" | .leaked => "-" | .temp _ => "-"
  | .handle h .io => s!"h{h}.io" | .handle h .acc => s!"h{h}.acc" | .handle h .q => s!"h{h}.q"

def ownLine (s : St) : String :=
  "own" ++ String.join (s.l.1.led.map (fun e => s!" f{e.id}:{ownerStr e.owner}"))

end UvModel.FdLedger
