import UvModel.Lemmas.FdLedgerLemmas
/-!
# C15 — the API-operation catalogue over the descriptor ledger

`St.l` carries the ledger *together with* the proof of the ledger invariant `LInv`; the only way an
operation can change the ledger is `St.run` (= `exec` on a list of primitives), so every operation
sequence maintains the invariant by construction (checked by the type checker on every path of every
operation below).
-/
namespace UvModel.FdLedger

/-! ## handles and the rest of the state (control flow only; descriptors live in the ledger) -/

inductive HKind | tcp | pipe | udp | tty | poll | async | signal | fsev | proc
  deriving DecidableEq, Repr

inductive HSt | dead | live | closing | closed
  deriving DecidableEq, Repr

structure H where
  kind : HKind
  st : HSt := .live
  policy : Nat := 0            -- 0 hold, 1 accept inside the callback
  ipc : Bool := false
  bound : Bool := false
  listening : Bool := false
  delayed : Bool := false      -- tcp delayed_error (EADDRINUSE at bind)
  readable : Bool := false
  connected : Bool := false
  reading : Bool := false
  pending : Nat := 0           -- connections waiting in the listen backlog
  inflight : List (List HKind) := []   -- SCM_RIGHTS batches waiting in the socket
  deriving Repr

/-- `fail <syscall> <occurrence> <errno>` lines preceding the op -/
abbrev Inj := List (String × Nat × Nat)

def failsAt (inj : Inj) (name : String) (k : Nat) : Option Nat :=
  (inj.find? (fun x => x.1 = name ∧ x.2.1 = k)).map (·.2.2)

structure St where
  l : { l : Ledger // LInv l } := ⟨{}, linv_empty⟩    -- the ledger can only be changed through `exec`
  hs : List H := []
  loopOk : Bool := false
  lockDone : Bool := false
  cnt : List (String × Nat) := []     -- per-op syscall occurrence counters

def St.h? (s : St) (i : Nat) : Option H := s.hs[i]?
def St.liveH (s : St) (i : Nat) : Option H := match s.hs[i]? with | some h => if h.st = .live then some h else none | none => none
def St.setH (s : St) (i : Nat) (f : H → H) : St := { s with hs := s.hs.modify i f }
def St.has (s : St) (o : Owner) : Bool := (find? s.l.1.led o).isSome
def St.run (s : St) (ps : List Prim) : St := { s with l := ⟨exec s.l.1 ps, linv_exec _ _ s.l.2⟩ }
def St.clearOut (s : St) : St := { s with l := ⟨{ s.l.1 with out := [] }, linv_clearOut _ s.l.2⟩ }
def St.say (s : St) (line : String) : St := s.run [.say line]
def St.newH (s : St) (h : H) : St := { s with hs := s.hs ++ [h] }

/-- next occurrence of syscall `name` in this op: returns the injected errno if it is made to fail -/
def St.sys (s : St) (inj : Inj) (name : String) : Option Nat × St :=
  let n := ((s.cnt.find? (·.1 = name)).map (·.2)).getD 0 + 1
  let s := { s with cnt := (name, n) :: s.cnt.filter (·.1 ≠ name) }
  match failsAt inj name n with
  | some e => (some e, s.say s!"env fail {name} {e}")
  | none => (none, s)

/-- uv__stream_init (stream.c:99-110): make sure the loop has its spare descriptor -/
def emfileInit (s : St) (inj : Inj) : St :=
  if s.has (.loop .emfile) then s else
  match s.sys inj "open" with
  | (none, s) => s.run [.create .openCloexec .file (.loop .emfile)]
  | (some _, s) =>
    match s.sys inj "open" with
    | (none, s) => s.run [.create .openCloexec .file (.loop .emfile)]
    | (some _, s) => s

def nQueued (s : St) (h : Nat) : Nat := (s.l.1.led.filter (·.owner = .handle h .q)).length

/-- uv__stream_close (stream.c:1540-1563) -/
def streamClosePrims (s : St) (h : Nat) : List Prim :=
  [.closeOwner (.handle h .io) true, .closeOwner (.handle h .acc) false] ++
  List.replicate (nQueued s h) (.closeOwner (.handle h .q) false)

/-- uv_accept (stream.c:536-598) -/
def acceptInto (s : St) (srv cli : Nat) (ckind : HKind) : St × Bool :=
  let ok := !s.has (.handle cli .io) && (ckind = .tcp || ckind = .pipe || ckind = .udp || ckind = .tty)
  -- a connection taken from a listen backlog is bound; a descriptor received over IPC is whatever the sender made
  let fromIpc := ((s.h? srv).map (·.ipc)).getD false
  let s := if ok then (s.run [.transfer (.handle srv .acc) (.handle cli .io)]).setH cli (fun h => { h with readable := true, bound := !fromIpc, connected := !fromIpc })
           else
             -- stream.c:592-596: POLLIN is re-armed only `if (err == 0)`: after a failed uv_accept the server
             -- stops accepting until uv_listen is called again
             (s.run [.closeOwner (.handle srv .acc) false]).setH srv (fun h => { h with listening := false })
  let s := if nQueued s srv > 0 then s.run [.transfer (.handle srv .q) (.handle srv .acc)] else s
  (s, ok)

/-- uv_stdio_container_t: UV_IGNORE, UV_CREATE_PIPE into pipe handle h, UV_INHERIT_FD of user descriptor f,
    UV_INHERIT_STREAM of stream handle h -/
inductive Cont | ignore | pipe (h : Nat) | fd (f : Nat) | stream (h : Nat)
  deriving Repr

inductive Op
  | loopInit | loopClose
  | tcpInit (af : Bool) | pipeInit (ipc : Bool) | udpInit (af : Bool)
  | ttyInit (f : Nat) | pollInit (f : Nat) | asyncInit | signalStart | fsEventStart (ok : Bool)
  | ufd (kind : String) (at_ : Option Nat) | uclose (f : Nat)
  | open_ (h f : Nat)
  | bind (h : Nat) (variant : String) (other : Nat)
  | listen (h : Nat) | policy (h p : Nat) | readStart (h : Nat)
  | connect (h : Nat) (target : Option Nat)
  | accept (s c : Nat) | close (h : Nat) | run
  | uvPipe | uvSocketpair
  | fsOpen (variant : String) | fsMkstemp | fsClose (f : Nat) | fsCopyfile (ok : Bool)
  | ipcSend (f h : Nat) (kinds : List HKind)
  | spawn (ok : Bool) (cs : List Cont)
  | end_
  deriving Repr

def ret (s : St) (ok : Bool) : St := s.say (if ok then "ret 0" else "ret E")
def bad (s : St) : St := s.say "bad-op"

def isStream (k : HKind) : Bool := k = .tcp || k = .pipe || k = .tty

/-- one readiness event inside uv_run: a listening server with a pending connection
    (uv__server_io, stream.c:508-533, with uv__emfile_trick 484-505), or an IPC pipe with descriptors
    in flight (uv__read → uv__stream_recv_cmsg, stream.c:981-1021) -/
def runStep (s : St) (inj : Inj) : Option St :=
  let idx := List.range s.hs.length
  match idx.find? (fun i => match s.liveH i with
      | some h => h.listening && h.pending > 0 && !s.has (.handle i .acc) | none => false) with
  | some i =>
    let h := (s.h? i).getD { kind := .tcp }
    match s.sys inj "accept4" with
    | (some e, s) =>
      if e = 24 || e = 23 then
        if !s.has (.loop .emfile) then some s else
        let s := s.run [.closeOwner (.loop .emfile) false]
        -- accept and close until the backlog is empty (or accept fails again)
        let rec shed (s : St) : Nat → St
          | 0 => s
          | n + 1 =>
            match s.sys inj "accept4" with
            | (some _, s) => s
            | (none, s) => shed ((s.run [.create .uvAccept .sock (.temp 0), .closeOwner (.temp 0) false]).setH i
                                  (fun h => { h with pending := h.pending - 1 })) n
        let s := shed s h.pending
        match s.sys inj "open" with
        | (none, s) => some (s.run [.create .openCloexec .file (.loop .emfile)])
        | (some _, s) => some s
      else some s
    | (none, s) =>
      let s := (s.run [.create .uvAccept .sock (.handle i .acc)]).setH i (fun h => { h with pending := h.pending - 1 })
      let s := s.say s!"cb conn h{i} 0"
      if h.policy = 1 then
        let c := s.hs.length
        let s := emfileInit (s.newH { kind := h.kind }) inj
        let (s, ok) := acceptInto s i c h.kind
        some (s.say s!"cb accept h{i} h{c} {if ok then "0" else "E"}")
      else some s
  | none =>
    match idx.find? (fun i => match s.liveH i with
        | some h => h.reading && !h.inflight.isEmpty && s.has (.handle i .io) | none => false) with
    | none => none
    | some i =>
      let h := (s.h? i).getD { kind := .pipe }
      let batch := h.inflight.headD []
      let s := s.setH i (fun h => { h with inflight := h.inflight.tail })
      let s := batch.foldl (fun s _ =>
        if s.has (.handle i .acc) then s.run [.create .recvCmsg .ipc (.handle i .q)]
        else s.run [.create .recvCmsg .ipc (.handle i .acc)]) s
      let s := s.say s!"cb read h{i} 1"
      if h.policy = 1 then
        some (batch.foldl (fun s k =>
          if !s.has (.handle i .acc) then s else
          let c := s.hs.length
          let s := s.newH { kind := k }
          let s := if isStream k then emfileInit s inj else s
          let (s, ok) := acceptInto s i c k
          s.say s!"cb accept h{i} h{c} {if ok then "0" else "E"}") s)
      else some s

def runLoop (inj : Inj) : Nat → St → St
  | 0, s => s
  | n + 1, s => match runStep s inj with
    | none => s
    | some s => runLoop inj n s

def runFuel (s : St) : Nat := (s.hs.map (fun h => h.pending + h.inflight.length)).sum + 1

/-- uv_spawn, parent side (process.c:986-1110 and 935-980).  `cs`: containers; index 1 is always an
    inherited descriptor of the harness (no ledger effect). -/
def spawnOp (s : St) (inj : Inj) (ok : Bool) (cs : List Cont) : St :=
  let p := s.hs.length
  let s := s.newH { kind := .proc }
  let conts : List (Nat × Cont) := (List.range cs.length).map (fun i => (i, cs.getD i .ignore))
  let pipes : List (Nat × Nat) := conts.filterMap (fun ic => match ic.2 with | .pipe h => some (ic.1, h) | _ => none)
  -- error: label (process.c:1093-1108): close what was created so far ([0] then [1], container order);
  -- UV_INHERIT_FD / UV_INHERIT_STREAM slots are skipped
  let cleanup (s : St) (done : List (Nat × Nat)) : St :=
    s.run (done.reverse.flatMap (fun (j, _) => [Prim.closeOwner (.temp (2 * j)) false, .closeOwner (.temp (2 * j + 1)) false]))
  -- uv__process_init_stdio for each container, in order (process.c:188-239)
  let rec initStdio (s : St) (done : List (Nat × Nat)) : List (Nat × Cont) → St × Bool
    | [] => (s, true)
    | (i, .pipe h) :: rest =>
      (match s.sys inj "socketpair" with
      | (some _, s) => (cleanup s done, false)
      | (none, s) =>
        initStdio (s.run [.create .socketpair .sock (.temp (2 * i)), .create .socketpair .sock (.temp (2 * i + 1))]) ((i, h) :: done) rest)
    | (_, .stream h) :: rest =>
      -- a stream without descriptor: UV_EINVAL
      if s.has (.handle h .io) then initStdio s done rest else (cleanup s done, false)
    | _ :: rest => initStdio s done rest
  match initStdio s [] conts with
  | (s, false) => ret (s.setH p (fun h => { h with st := .closing })) false
  | (s, true) =>
    -- uv__spawn_and_init_child: the exec-error pipe
    let (execOk, s) := match s.sys inj "pipe2" with
      | (some _, s) => (false, s)
      | (none, s) => (ok, s.run [.create .pipe2 .pipe (.temp 100), .create .pipe2 .pipe (.temp 101),
                               .closeOwner (.temp 101) false, .closeOwner (.temp 100) false])
    -- uv__process_open_stream for each container, in order
    let rec openStreams (s : St) (done : List (Nat × Nat)) : List (Nat × Nat) → St × Bool
      | [] => (s, true)
      | (i, h) :: rest =>
        let s := s.run [.closeOwner (.temp (2 * i + 1)) false]
        if s.has (.handle h .io) then
          -- UV_EBUSY: close the streams opened so far (latest first), then everything still in pipes[][]
          let s := done.foldl (fun s (_, hj) => s.run (streamClosePrims s hj)) s
          let s := s.run [.closeOwner (.temp (2 * i)) false]
          let s := s.run (rest.flatMap (fun (j, _) => [Prim.closeOwner (.temp (2 * j)) false, .closeOwner (.temp (2 * j + 1)) false]))
          (s, false)
        else
          openStreams ((s.run [.transfer (.temp (2 * i)) (.handle h .io)]).setH h (fun x => { x with readable := true })) ((i, h) :: done) rest
    match openStreams s [] pipes with
    | (s, false) => ret (s.setH p (fun h => { h with st := .closing })) false
    | (s, true) =>
      if execOk then ret s true else ret (s.setH p (fun h => { h with st := .closing })) false

def userKind : String → Option (List Kind)
  | "tcpsock" => some [.sock] | "udpsock" => some [.sock] | "unixsock" => some [.sock] | "file" => some [.file]
  | "pipe" => some [.pipe, .pipe] | "sockpair" => some [.sock, .sock] | _ => none

def userEntry (s : St) (f : Nat) : Option Entry :=
  match findId? s.l.1.led f with
  | some e => if e.owner = .user then some e else none
  | none => none

def step (s : St) (inj : Inj) (op : Op) : St :=
  let s := { s with cnt := [] }
  match op with
  | .loopInit =>
    if s.loopOk then bad s else
    -- uv__platform_loop_init (linux.c:640-657)
    match s.sys inj "epoll_create1" with
    | (some _, s) => ret s false
    | (none, s) =>
      let s := s.run [.create .epollCreate .epoll (.loop .backend)]
      let s := match s.sys inj "io_uring_setup" with
        | (some _, s) => s
        | (none, s) => s.run [.create .ioUring .ring (.loop .ring)]
      -- uv__signal_global_once_init (signal.c:79-112), once per process
      let s := if s.lockDone then s else
        let (_, s) := s.sys inj "pipe2"
        { s.run [.create .pipe2 .pipe (.glob 0), .create .pipe2 .pipe (.glob 1)] with lockDone := true }
      -- uv__process_init → uv_signal_init → uv__signal_loop_once_init (signal.c:262-280)
      match s.sys inj "pipe2" with
      | (some _, s) =>
        -- fail_signal_init: uv__platform_loop_delete, then backend_fd (loop.c:115-120)
        ret (s.run [.closeOwner (.loop .ring) false, .closeOwner (.loop .backend) false]) false
      | (none, s) =>
        let s := s.run [.create .pipe2 .pipe (.loop .sig0), .create .pipe2 .pipe (.loop .sig1)]
        -- uv_async_init(&loop->wq_async) → uv__async_start (async.c:258-318)
        match s.sys inj "eventfd" with
        | (some _, s) =>
          ret (s.run [.closeOwner (.loop .sig0) false, .closeOwner (.loop .sig1) false,
                      .closeOwner (.loop .ring) false, .closeOwner (.loop .backend) false]) false
        | (none, s) => ret { s.run [.create .eventfd .evfd (.loop .async)] with loopOk := true } true
  | .loopClose =>
    if !s.loopOk then ret s false else
    if s.hs.any (fun h => h.st = .live || h.st = .closing) then ret s false else
    -- uv__loop_close (loop.c:166-200)
    ret { s.run [.closeOwner (.loop .sig0) false, .closeOwner (.loop .sig1) false, .closeOwner (.loop .ring) false,
                 .closeOwner (.loop .inotify) false, .closeOwner (.loop .async) false,
                 .closeOwner (.loop .emfile) false, .closeOwner (.loop .backend) false] with loopOk := false } true
  | .ufd kind at_ =>
    match userKind kind with
    | none => bad s
    | some ks =>
      let stdioClash := match at_ with
        | some n => n > 1 || s.l.1.led.any (fun e => e.stdio)
        | none => false
      if stdioClash then bad s else
      s.run ((List.range ks.length).map (fun i => Prim.userCreate (ks.getD i .sock) (i = 0 && at_.isSome)))
  | .uclose f =>
    match userEntry s f with
    | some _ => s.run [.userClose f]
    | none => bad s
  | .uvPipe =>
    match s.sys inj "pipe2" with
    | (some _, s) => ret s false
    | (none, s) => ret (s.run [.createGive .pipe2 .pipe, .createGive .pipe2 .pipe]) true
  | .uvSocketpair =>
    match s.sys inj "socketpair" with
    | (some _, s) => ret s false
    | (none, s) => ret (s.run [.createGive .socketpair .sock, .createGive .socketpair .sock]) true
  | .end_ => ret (s.run [.userCloseAll]) true
  | op =>
    if !s.loopOk then bad s else
    match op with
    | .tcpInit af =>
      let i := s.hs.length
      let s := emfileInit (s.newH { kind := .tcp }) inj
      if af then
        match s.sys inj "socket" with
        | (some _, s) => ret (s.setH i (fun h => { h with st := .dead })) false
        | (none, s) => ret (s.run [.create .uvSocket .sock (.handle i .io)]) true
      else ret s true
    | .pipeInit ipc => ret (emfileInit (s.newH { kind := .pipe, ipc := ipc }) inj) true
    | .udpInit af =>
      let i := s.hs.length
      let s := s.newH { kind := .udp }
      if af then
        match s.sys inj "socket" with
        | (some _, s) => ret (s.setH i (fun h => { h with st := .dead })) false
        | (none, s) => ret (s.run [.create .uvSocket .sock (.handle i .io)]) true
      else ret s true
    | .ttyInit f =>
      match userEntry s f with
      | none => bad s
      | some e =>
        let i := s.hs.length
        if e.kind = .file then ret (s.newH { kind := .tty, st := .dead }) false
        else
          let s := emfileInit (s.newH { kind := .tty, readable := true }) inj
          ret (s.run [.adopt f (.handle i .io)]) true
    | .pollInit f =>
      match findId? s.l.1.led f with
      | none => bad s
      | some e =>
        if e.kind = .file then ret (s.newH { kind := .poll, st := .dead }) false
        else ret (s.newH { kind := .poll }) true
    | .asyncInit => ret (s.newH { kind := .async }) true
    | .signalStart => ret (s.newH { kind := .signal }) true
    | .fsEventStart ok =>
      let s := s.newH { kind := .fsev }
      if s.has (.loop .inotify) then ret s ok else
      match s.sys inj "inotify_init1" with
      | (some _, s) => ret s false
      | (none, s) => ret (s.run [.create .inotifyInit .inot (.loop .inotify)]) ok
    | .open_ h f =>
      match s.liveH h, userEntry s f with
      | some hh, some e =>
        if !(hh.kind = .tcp || hh.kind = .pipe || hh.kind = .udp) then bad s else
        if s.has (.handle h .io) then ret s false else
        if hh.kind = .udp && e.kind ≠ .sock then ret s false else
        ret ((s.run [.adopt f (.handle h .io)]).setH h (fun x => { x with readable := true })) true
      | _, _ => bad s
    | .bind h variant other =>
      match s.liveH h with
      | none => bad s
      | some hh =>
        if !(variant = "ok" || variant = "bad" || variant = "same") then bad s else
        match hh.kind with
        | .tcp | .udp =>
          -- maybe_new_socket (tcp.c:86-109) / uv__udp_bind (udp.c:375-382): the socket stays in the handle
          let (sockOk, s) := if s.has (.handle h .io) then (true, s) else
            match s.sys inj "socket" with
            | (some _, s) => (false, s)
            | (none, s) => (true, s.run [.create .uvSocket .sock (.handle h .io)])
          if !sockOk then ret s false else
          if hh.bound then ret s false else
          if variant = "bad" then ret s false else
          if variant = "same" then
            if hh.kind = .tcp then ret (s.setH h (fun x => { x with bound := true, delayed := true })) true
            else ret s false
          else ret (s.setH h (fun x => { x with bound := true })) true
        | .pipe =>
          -- uv_pipe_bind2 (pipe.c:61-150)
          if s.has (.handle h .io) then ret s false else
          (match s.sys inj "socket" with
          | (some _, s) => ret s false
          | (none, s) =>
            if variant = "ok" then ret ((s.run [.create .uvSocket .sock (.handle h .io)]).setH h (fun x => { x with bound := true })) true
            else ret (s.run [.create .uvSocket .sock (.temp 0), .closeOwner (.temp 0) false]) false)
        | _ => bad s
    | .listen h =>
      match s.liveH h with
      | none => bad s
      | some hh =>
        match hh.kind with
        | .tcp =>
          if hh.delayed then ret s false else
          let (sockOk, s) := if s.has (.handle h .io) then (true, s) else
            match s.sys inj "socket" with
            | (some _, s) => (false, s)
            | (none, s) => (true, s.run [.create .uvSocket .sock (.handle h .io)])
          if !sockOk then ret s false else
          if hh.connected then ret s false else
          ret (s.setH h (fun x => { x with listening := true, bound := true })) true
        | .pipe =>
          if !s.has (.handle h .io) || hh.ipc || !hh.bound then ret s false
          else ret (s.setH h (fun x => { x with listening := true })) true
        | _ => bad s
    | .policy h p => match s.liveH h with | some _ => s.setH h (fun x => { x with policy := p }) | none => bad s
    | .readStart h =>
      match s.liveH h with
      | none => bad s
      | some hh => if hh.readable then ret (s.setH h (fun x => { x with reading := true })) true else ret s false
    | .connect h target =>
      match s.liveH h with
      | none => bad s
      | some hh =>
        let tgtOk := match target with
          | some t => (match s.liveH t with | some th => th.kind = hh.kind && th.listening | none => false)
          | none => false
        let bump (s : St) : St := match target with
          | some t => if tgtOk then s.setH t (fun x => { x with pending := x.pending + 1 }) else s
          | none => s
        match hh.kind with
        | .tcp =>
          let badTarget : Bool := match target with
            | some t => decide (((s.liveH t).map (·.kind)) ≠ some .tcp)
            | none => false
          if badTarget then bad s else
          if hh.connected then ret s false else
          let (sockOk, s) := if hh.delayed || s.has (.handle h .io) then (true, s) else
            match s.sys inj "socket" with
            | (some _, s) => (false, s)
            | (none, s) => (true, s.run [.create .uvSocket .sock (.handle h .io)])
          if !sockOk then ret s false else
          -- tcp.c:309-310: with a delayed bind error no connect(2) is made at all
          let s := s.setH h (fun x => { x with connected := true, readable := true })
          ret (if hh.delayed then s else bump s) true
        | .pipe =>
          let (sockOk, s) := if s.has (.handle h .io) then (true, s) else
            match s.sys inj "socket" with
            | (some _, s) => (false, s)
            | (none, s) => (true, s.run [.create .uvSocket .sock (.handle h .io)])
          if !sockOk then ret s true else
          if hh.connected || hh.listening then ret s true else
          ret (bump (s.setH h (fun x => { x with connected := tgtOk, readable := x.readable || tgtOk }))) true
        | _ => bad s
    | .accept sv c =>
      match s.liveH sv, s.liveH c with
      | some _, some ch =>
        if !s.has (.handle sv .acc) then ret s false else
        if !(ch.kind = .tcp || ch.kind = .pipe || ch.kind = .udp || ch.kind = .tty) then ret s false else
        let (s, ok) := acceptInto s sv c ch.kind
        ret s ok
      | _, _ => bad s
    | .close h =>
      match s.liveH h with
      | none => bad s
      | some hh =>
        let s := if isStream hh.kind then s.run (streamClosePrims s h)
                 else if hh.kind = .udp then s.run [.closeOwner (.handle h .io) true]   -- uv__udp_close (udp.c:56-66)
                 else s
        ret (s.setH h (fun x => { x with st := .closing, listening := false, reading := false })) true
    | .run =>
      let s := runLoop inj (runFuel s) s
      ret { s with hs := s.hs.map (fun h =>
              if h.st = .closing || (h.kind = .proc && h.st = .live) then { h with st := .closed } else h) } true
    | .fsOpen variant =>
      if !(variant = "ok" || variant = "creat" || variant = "missing") then bad s else
      (match s.sys inj "open" with
      | (some _, s) => ret s false
      | (none, s) => if variant = "missing" then ret s false else (s.run [.createGive .fsOpen .file]).say s!"ret f{s.l.1.next}")
    | .fsMkstemp => (s.run [.createGive .mkostemp .file]).say s!"ret f{s.l.1.next}"
    | .fsClose f =>
      match userEntry s f with
      | some e => if e.stdio then bad s else ret (s.run [.closeUser f]) true
      | none => bad s
    | .fsCopyfile ok =>
      -- uv__fs_copyfile (fs.c:1230-1425): both descriptors are closed on every exit
      (match s.sys inj "open" with
      | (some _, s) => ret s false
      | (none, s) =>
        if !ok then ret s false else
        let s := s.run [.create .fsOpen .file (.temp 0)]
        match s.sys inj "open" with
        | (some _, s) => ret (s.run [.closeOwner (.temp 0) false]) false
        | (none, s) => ret (s.run [.create .fsOpen .file (.temp 1), .closeOwner (.temp 0) false, .closeOwner (.temp 1) false]) true)
    | .ipcSend f h kinds =>
      match userEntry s f with
      | none => bad s
      | some _ =>
        -- the harness sends over the peer of handle h's socketpair end: fails (EPIPE) once h closed its end
        let ok := (s.liveH h).isSome && s.has (.handle h .io)
        ret (if ok then s.setH h (fun x => { x with inflight := x.inflight ++ [kinds] }) else s) ok
    | .spawn ok cs =>
      if cs.any (fun c => match c with
          | .pipe h => ((s.liveH h).map (·.kind)) ≠ some .pipe
          | .stream h => !(((s.liveH h).map (fun x => isStream x.kind)).getD false)
          | .fd f => (findId? s.l.1.led f).isNone
          | .ignore => false) then bad s
      else spawnOp s inj ok cs
    | _ => bad s

def ownerStr : Owner → String
  | .loop _ => "L" | .glob _ => "G" | .user => "U" | .leaked => "-" | .temp _ => "-"
  | .handle h .io => s!"h{h}.io" | .handle h .acc => s!"h{h}.acc" | .handle h .q => s!"h{h}.q"

def ownLine (s : St) : String :=
  "own" ++ String.join (s.l.1.led.map (fun e => s!" f{e.id}:{ownerStr e.owner}"))

end UvModel.FdLedger
