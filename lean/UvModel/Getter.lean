/-! # C19 — string getters into caller-supplied buffers

Executable model of every libuv getter that returns a string into `(char* buffer, size_t* size)`.
A getter is a function of the *true value* (what the OS / the handle holds, as the bytes before the
terminator) and of the capacity `size`; the `Result` records the return code, every store into the
caller's buffer in program order (`writes`, offsets relative to `buffer`), and `*size` after the call.
Syscall outcomes (getcwd's ERANGE, readlink's truncation, the bytes getsockname put into `sun_path`)
are computed from the true value the way the kernel/libc documents them; libc `memcpy`, `strncpy`,
`snprintf("%s"/"%d")` are trusted to have their C semantics.  `size` is a buffer capacity, hence
`≤ SSIZE_MAX` (no object is larger), so `ssize_t n = *size - 1` in uv_exepath does not wrap. -/
namespace UvModel.Getter

abbrev Byte := UInt8
abbrev Writes := List (Nat × Byte)

structure Result where
  rc : Int
  writes : Writes
  size : Nat
deriving Repr, DecidableEq

def EINVAL : Int := -22
def ENOBUFS : Int := -105
def ENOENT : Int := -2
def ERANGE : Int := -34

/-- `memcpy(buffer + off, src, src.length)` as stores in ascending order -/
def memcpyW (off : Nat) : List Byte → Writes
  | [] => []
  | b :: bs => (off, b) :: memcpyW (off + 1) bs

/-- last value stored at offset `i` (`none`: the call never touched that byte) -/
def get : Writes → Nat → Option Byte
  | [], _ => none
  | (o, b) :: ws, i =>
    match get ws i with
    | some x => some x
    | none => if o = i then some b else none

/-- final content of a buffer that held `init` before the call -/
def applyW (init : List Byte) (ws : Writes) : List Byte :=
  (List.range init.length).map fun i => (get ws i).getD (init.getD i 0)

/-- the string is free of terminators (what `strlen` = `length` needs) -/
def NulFree (v : List Byte) : Prop := ∀ x ∈ v, x ≠ 0
instance (v : List Byte) : Decidable (NulFree v) := by unfold NulFree; infer_instance

/-- the call left `s` followed by a terminator at the start of the buffer, all of it written by the call -/
def HoldsString (ws : Writes) (s : List Byte) : Prop :=
  (∀ i, i < s.length → get ws i = s[i]?) ∧ get ws s.length = some 0

/-- the call wrote exactly the bytes `s` at offsets `0..s.length-1` and nothing at `s.length` (no terminator) -/
def HoldsBytes (ws : Writes) (s : List Byte) : Prop :=
  (∀ i, i < s.length → get ws i = s[i]?) ∧ get ws s.length = none

/-! ## the shared check-then-copy shape -/

/-- the comparison each getter uses, kept literally -/
inductive Cmp
  | lenGeSize   -- `if (len >= *size)`            core.c:1197, 1238, 1500, 1553; uv-common.c:674; fs-poll.c:153
  | sizeLeLen   -- `if (*size <= len)`            getaddrinfo.c:236; proctitle.c:137
  | lenSlopGt   -- `if (addrlen + 1 > *size)`     pipe.c:389 (slop = 1)
deriving DecidableEq, Repr

def Cmp.tooSmall : Cmp → Nat → Nat → Bool
  | .lenGeSize, len, size => decide (len ≥ size)
  | .sizeLeLen, len, size => decide (size ≤ len)
  | .lenSlopGt, len, size => decide (len + 1 > size)

/-- how the value and its terminator get into the buffer -/
inductive Copy
  | withNul    -- `memcpy(buffer, v, len + 1)`                       core.c:1203, 1507, 1558
  | thenStore  -- `memcpy(buffer, v, len); buffer[len] = '\0'`       uv-common.c:679-681, fs-poll.c:158-160, getaddrinfo.c:241-242, pipe.c:394-399
deriving DecidableEq, Repr

def Copy.writes : Copy → List Byte → Writes
  | .withNul, v => memcpyW 0 (v ++ [0])
  | .thenStore, v => memcpyW 0 v ++ [(v.length, 0)]

/-- `if (*size == 0) return UV_EINVAL; len = strlen(v); if (<cmp>) { *size = len + 1; return UV_ENOBUFS; } <copy>; *size = len; return 0;` -/
def checkCopy (cmp : Cmp) (copy : Copy) (v : List Byte) (size : Nat) : Result :=
  if size = 0 then ⟨EINVAL, [], size⟩
  else if cmp.tooSmall v.length size then ⟨ENOBUFS, [], v.length + 1⟩
  else ⟨0, copy.writes v, v.length⟩

/-- uv_os_getenv (core.c:1487-1509); `var = none`: `getenv` returned NULL -/
def osGetenv (var : Option (List Byte)) (size : Nat) : Result :=
  if size = 0 then ⟨EINVAL, [], size⟩
  else match var with
    | none => ⟨ENOENT, [], size⟩
    | some v => checkCopy .lenGeSize .withNul v size

/-- uv_os_homedir (core.c:1172-1210): $HOME through uv_os_getenv, else the passwd entry.  The passwd
branch has no `*size == 0` test of its own: it is only reached when uv_os_getenv answered ENOENT. -/
def osHomedir (home : Option (List Byte)) (pw : List Byte) (size : Nat) : Result :=
  let r := osGetenv home size
  if r.rc ≠ ENOENT then r
  else if pw.length ≥ size then ⟨ENOBUFS, [], pw.length + 1⟩
  else ⟨0, memcpyW 0 (pw ++ [0]), pw.length⟩

/-- uv_os_gethostname (core.c:1536-1563): `char buf[65]; gethostname(buf, 65); buf[64] = 0; len = strlen(buf)` -/
def osGethostname (v : List Byte) (size : Nat) : Result :=
  checkCopy .lenGeSize .withNul (v.take 64) size

/-- uv_fs_event_getpath (uv-common.c:663-684), for an active handle -/
def fsEventGetpath (v : List Byte) (size : Nat) : Result := checkCopy .lenGeSize .thenStore v size
/-- uv_fs_poll_getpath (fs-poll.c:138-164), for an active handle -/
def fsPollGetpath (v : List Byte) (size : Nat) : Result := checkCopy .lenGeSize .thenStore v size
/-- uv_if_indextoname / uv_if_indextoiid (getaddrinfo.c:226-251): `len = strnlen(ifname_buf, 16)` -/
def ifIndexToName (v : List Byte) (size : Nat) : Result := checkCopy .sizeLeLen .thenStore (v.take 16) size

/-! ## getters with their own shape -/

def slash : Byte := 47

/-- uv_os_tmpdir (core.c:1213-1257).  The size test uses the length *before* the slash is stripped
(DESIGN §5 interpretation iv); `memcpy(buffer, buf, len + 1)` with the reduced `len` copies the slash,
`buffer[len] = '\0'` then overwrites it. -/
def osTmpdir (v : List Byte) (size : Nat) : Result :=
  if size = 0 then ⟨EINVAL, [], size⟩
  else
    let len := v.length
    if len ≥ size then ⟨ENOBUFS, [], len + 1⟩
    else
      let len' := if len > 1 ∧ v[len - 1]? = some slash then len - 1 else len
      ⟨0, memcpyW 0 ((v ++ [0]).take (len' + 1)) ++ [(len', 0)], len'⟩

/-- capacity of uv_cwd's scratch buffer: `char scratch[1 + UV__PATH_MAX]`, UV__PATH_MAX = 4096 on Linux -/
def scratchCap : Nat := 4097

/-- uv_cwd (core.c:753-789).  `getcwd(buf, n)` succeeds iff `len + 1 ≤ n` and then stores the path and
its terminator.  When it fails with ERANGE the Linux syscall stores nothing, but glibc's fallback for
paths of PATH_MAX bytes and more builds the path backwards from the end of the buffer (and moves it to
the front on success): `residue` is what that left in the caller's buffer besides the result (an OS
outcome; libc contract: inside the buffer; `[]` whenever the kernel answers itself).  Second attempt into `scratch`; if that is too small as well the errno (ERANGE) is returned.
`fixup` strips one trailing slash. -/
def cwdR (v : List Byte) (size : Nat) (residue : Writes) : Result :=
  if size = 0 then ⟨EINVAL, [], size⟩
  else
    let len := v.length
    let strip : Bool := decide (len > 1 ∧ v[len - 1]? = some slash)
    if len + 1 ≤ size then
      if strip then ⟨0, residue ++ memcpyW 0 (v ++ [0]) ++ [(len - 1, 0)], len - 1⟩
      else ⟨0, residue ++ memcpyW 0 (v ++ [0]), len⟩
    else if len + 1 ≤ scratchCap then
      ⟨ENOBUFS, residue, (if strip then len - 1 else len) + 1⟩
    else ⟨ERANGE, residue, size⟩

/-- the common case: `getcwd` stores the result and nothing else -/
def cwd (v : List Byte) (size : Nat) : Result := cwdR v size []

/-- uv_exepath (procfs-exepath.c:28-46): `n = *size - 1; if (n > 0) n = readlink(.., buffer, n);`
readlink stores `min(len, n)` bytes and no terminator; `buffer[n] = 0; *size = n`. -/
def exepath (v : List Byte) (size : Nat) : Result :=
  if size = 0 then ⟨EINVAL, [], size⟩
  else
    let n := size - 1
    if n > 0 then
      let k := min v.length n
      ⟨0, memcpyW 0 (v.take n) ++ [(k, 0)], k⟩
    else ⟨0, [(n, 0)], n⟩

/-- uv_get_process_title (proctitle.c:128-152), after uv_setup_args.  `size` is by value: reported unchanged. -/
def getProcessTitle (v : List Byte) (size : Nat) : Result :=
  if size = 0 then ⟨EINVAL, [], size⟩
  else if size ≤ v.length then ⟨ENOBUFS, [], size⟩
  else ⟨0, (if v.length ≠ 0 then memcpyW 0 (v ++ [0]) else []) ++ [(v.length, 0)], size⟩

/-- `strncpy(d, src, n)` for a terminator-free `src` held in a zero-padded array: `n` stores, zero padded -/
def strncpyW (src : List Byte) (n : Nat) : Writes :=
  memcpyW 0 (src.take n ++ List.replicate (n - src.length) 0)

/-- uv_thread_getname (thread.c:309-313, 964-975): `char thread_name[16]` from pthread_getname_np,
`strncpy(name, thread_name, size - 1); name[size - 1] = '\0'`. -/
def threadGetname (v : List Byte) (size : Nat) : Result :=
  if size = 0 then ⟨EINVAL, [], size⟩
  else ⟨0, strncpyW (v.take 15) (size - 1) ++ [(size - 1, 0)], size⟩

/-- the loop of uv__strscpy (strscpy.c:27-30) over the source array `s` (string plus terminator):
`for (i = 0; i < n; i++) if ('\0' == (d[i] = s[i])) return i;` — result: stores, and whether it returned inside -/
def strscpyLoop : List Byte → Nat → Nat → Writes × Bool
  | [], _, _ => ([], false)
  | c :: cs, i, n =>
    if i < n then
      if c = 0 then ([(i, c)], true)
      else let (w, d) := strscpyLoop cs (i + 1) n; ((i, c) :: w, d)
    else ([], false)

/-- uv__strscpy(d, s, n) (strscpy.c:24-38): after a loop that ran off the end, `if (i == 0) return 0; d[--i] = '\0'` (i = n there) -/
def strscpyW (v : List Byte) (n : Nat) : Writes :=
  let (w, done) := strscpyLoop (v ++ [0]) 0 n
  if done then w else if n = 0 then w else w ++ [(n - 1, 0)]

/-- `snprintf(buf, n, "%s", v)` (C99): at most `n - 1` bytes and a terminator; nothing when `n = 0` -/
def snprintfW (v : List Byte) (n : Nat) : Writes :=
  if n = 0 then [] else memcpyW 0 (v.take (n - 1)) ++ [(min v.length (n - 1), 0)]

/-- decimal digits, most significant first (`%d` of a non-negative value) -/
def decDigits : Nat → Nat → List Byte → List Byte
  | 0, _, acc => acc
  | fuel + 1, n, acc =>
    let acc' := (48 + n % 10).toUInt8 :: acc
    if n / 10 = 0 then acc' else decDigits fuel (n / 10) acc'

def decInt (i : Int) : List Byte :=
  if i < 0 then 45 :: decDigits (i.natAbs + 1) i.natAbs [] else decDigits (i.natAbs + 1) i.natAbs []

def bytesOf (s : String) : List Byte := s.toList.map fun c => c.toNat.toUInt8

/-- `"Unknown system error %d"` (uv-common.c:214, 238) -/
def unknownMsg (code : Int) : List Byte := bytesOf "Unknown system error " ++ decInt code

/-- one `XX(name, msg)` line of UV_ERRNO_MAP with the value of `UV_<name>` -/
structure ErrEntry where
  code : Int
  name : List Byte
  msg : List Byte
deriving Repr, DecidableEq

/-- the `switch`: the (unique) case label equal to `err` -/
def lookup (t : List ErrEntry) (code : Int) : Option ErrEntry := t.find? (·.code = code)

def trueErrName (t : List ErrEntry) (code : Int) : List Byte :=
  match lookup t code with | some e => e.name | none => unknownMsg code
def trueStrerror (t : List ErrEntry) (code : Int) : List Byte :=
  match lookup t code with | some e => e.msg | none => unknownMsg code

/-- uv_err_name_r (uv-common.c:208-217): known code → uv__strscpy, default → snprintf -/
def errNameR (t : List ErrEntry) (code : Int) (size : Nat) : Result :=
  match lookup t code with
  | some e => ⟨0, strscpyW e.name size, size⟩
  | none => ⟨0, snprintfW (unknownMsg code) size, size⟩

/-- uv_strerror_r (uv-common.c:230-241): snprintf("%s") in both branches -/
def strerrorR (t : List ErrEntry) (code : Int) (size : Nat) : Result :=
  match lookup t code with
  | some e => ⟨0, snprintfW e.msg size, size⟩
  | none => ⟨0, snprintfW (unknownMsg code) size, size⟩

/-! ## uv_pipe_getsockname / uv_pipe_getpeername (pipe.c:349-411) -/

def sunPathLen : Nat := 108

/-- `raw`: the `addrlen - offsetof(sun_path)` bytes the kernel stored into the zeroed `sa.sun_path`
(at most 108); `old0`: what `buffer[0]` held before the call (read back by `if (buffer[0] != '\0')`
when nothing was copied: unbound socket).
abstract (`sun_path[0] == 0`, incl. unbound): `slop = 0`, `addrlen` = exact byte count, no terminator;
path: `addrlen = memchr(sun_path, 0, 108) - sun_path` (108 when there is none), `slop = 1`. -/
def pipeCopy (path : List Byte) (abstract : Bool) (addrlen : Nat) (old0 : Byte) (size : Nat) : Result :=
  let slop := if abstract then 0 else 1
  if addrlen + slop > size then ⟨ENOBUFS, [], addrlen + slop⟩
  else
    let w := memcpyW 0 (path.take addrlen)
    let b0 := if addrlen = 0 then old0 else path.getD 0 0
    ⟨0, if b0 ≠ 0 then w ++ [(addrlen, 0)] else w, addrlen⟩

def pipeGetname (raw : List Byte) (old0 : Byte) (size : Nat) : Result :=
  if size = 0 then ⟨EINVAL, [], size⟩
  else
    let path := raw.take sunPathLen
    let abstract : Bool := decide (path.getD 0 0 = 0)
    pipeCopy path abstract (if abstract then path.length else (path.takeWhile (· ≠ 0)).length) old0 size

/-! ## uniform view of the getters with the `*size` protocol (for the property theorems) -/

inductive Sized
  | cwd | getenv | homedirPw | tmpdir | hostname | fsEvent | fsPoll | ifName | pipePath
deriving DecidableEq, Repr

def stripSlash (v : List Byte) : List Byte :=
  if v.length > 1 ∧ v[v.length - 1]? = some slash then v.take (v.length - 1) else v

def Sized.run : Sized → List Byte → Nat → Result
  | .cwd, v, n => Getter.cwd v n
  | .getenv, v, n => osGetenv (some v) n
  | .homedirPw, v, n => osHomedir none v n
  | .tmpdir, v, n => osTmpdir v n
  | .hostname, v, n => osGethostname v n
  | .fsEvent, v, n => fsEventGetpath v n
  | .fsPoll, v, n => fsPollGetpath v n
  | .ifName, v, n => ifIndexToName v n
  | .pipePath, v, n => pipeGetname v 0 n

/-- the string the API is documented to return for the OS value `v` -/
def Sized.expected : Sized → List Byte → List Byte
  | .cwd, v => stripSlash v
  | .tmpdir, v => stripSlash v
  | _, v => v

/-- what the OS guarantees about the value (beyond being a terminator-free string) -/
def Sized.osOk : Sized → List Byte → Prop
  | .hostname, v => v.length ≤ 64            -- HOST_NAME_MAX
  | .ifName, v => v.length ≤ 15              -- IF_NAMESIZE - 1
  | .pipePath, v => v ≠ [] ∧ v.length ≤ 108 ∧ NulFree v  -- a bound path socket (first byte ≠ 0); sizeof(sun_path)
  | _, _ => True

/-- getcwd returns "/" or a path without trailing slash, of at most PATH_MAX bytes *when the kernel can
report it*; both are needed for uv_cwd's ENOBUFS size to work (see `cwd_*_needed` in Props/C19) -/
def CwdCanonical (v : List Byte) : Prop := stripSlash v = v ∧ v.length + 1 ≤ scratchCap

end UvModel.Getter
