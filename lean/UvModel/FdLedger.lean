/-!
# C15 — descriptor ledger (executable model)

The ledger is the list of open descriptors with their owner, as libuv's unix backend leaves them.
Every API operation of the catalogue is described *as the code does it* by a **plan**: the list of
descriptor primitives (`Prim`) it performs on success and on each error exit, given which syscall
was made to fail (`Inj`).  `exec` runs primitives on the ledger and records events.

Field semantics: a loop field (`backend_fd`, `emfile_fd`, …) or a handle field (`io_watcher.fd`,
`accepted_fd`) holds one descriptor; storing a second one **displaces** the first, which becomes
`leaked` (nobody can close it any more) — exactly what overwriting the C field does.

Sources (line numbers of /repo/src/unix at the time of writing):
core.c 506-589 (uv__socket, uv__accept), 626-651 (uv__close*), 719-750 (uv__recvmsg), 1090-1166
(uv__open_cloexec, uv__dup2_cloexec); pipe.c 61-150, 195-344, 488-545; tcp.c 62-140, 143-211,
301-347, 421-451, 626-673; udp.c 56-66, 360-385, 857-912; stream.c 80-110, 402-432, 484-600,
981-1021, 1513-1566; loop.c 30-128, 166-200; linux.c 498-692, 2462-2478; async.c 258-357;
signal.c 79-124, 262-330; process.c 188-262, 935-1110; fs.c 294-390, 1230-1425; tty.c 135-245.
-/
namespace UvModel.FdLedger

/-- what a descriptor is; `sock` = AF_UNIX stream socket, `tcp`/`udp` = AF_INET sockets, `ipc*` = received over an
    IPC pipe (SCM_RIGHTS), by family.  The log prints the coarse class only (`kindStr`). -/
inductive Kind | sock | tcp | udp | pipe | file | epoll | ring | evfd | inot | ipc | ipcTcp | ipcUdp
  deriving DecidableEq, Repr

/-- creation sites in the C code; `siteCloexec` is the close-on-exec flag each of them passes -/
inductive Site
  | uvSocket      -- core.c:511  socket(type | SOCK_NONBLOCK | SOCK_CLOEXEC)
  | uvAccept      -- core.c:566  accept4(SOCK_NONBLOCK | SOCK_CLOEXEC)
  | pipe2         -- pipe.c:497  pipe2(O_CLOEXEC)
  | socketpair    -- tcp.c:632   socketpair(type | SOCK_CLOEXEC)
  | openCloexec   -- core.c:1094 open(flags | O_CLOEXEC)
  | eventfd       -- async.c:269 eventfd(EFD_CLOEXEC | EFD_NONBLOCK)
  | epollCreate   -- linux.c:650 epoll_create1(O_CLOEXEC)
  | ioUring       -- linux.c:540 io_uring_setup: kernel sets O_CLOEXEC
  | inotifyInit   -- linux.c:2468 inotify_init1(IN_NONBLOCK | IN_CLOEXEC)
  | recvCmsg      -- core.c:727  recvmsg(flags | MSG_CMSG_CLOEXEC)
  | fsOpen        -- fs.c:369    open(path, flags | O_CLOEXEC)
  | mkostemp      -- fs.c:325    mkostemp(path, O_CLOEXEC)
  deriving DecidableEq, Repr

def siteCloexec : Site → Bool
  | .uvSocket => true | .uvAccept => true | .pipe2 => true | .socketpair => true
  | .openCloexec => true | .eventfd => true | .epollCreate => true | .ioUring => true
  | .inotifyInit => true | .recvCmsg => true | .fsOpen => true | .mkostemp => true

inductive LField | backend | ring | sig0 | sig1 | async | emfile | inotify
  deriving DecidableEq, Repr

inductive Slot | io | acc | q
  deriving DecidableEq, Repr

inductive Owner
  | loop (f : LField)
  | glob (i : Nat)            -- the once-per-process signal lock pipe (2 ends)
  | user
  | handle (h : Nat) (s : Slot)
  | temp (k : Nat)            -- local variable of the running operation
  | leaked                    -- open, but no field or variable refers to it any more
  deriving DecidableEq, Repr

/-- fields hold one descriptor; `user`, `leaked` and a handle's fd queue hold many -/
def Owner.unique : Owner → Bool
  | .user => false | .leaked => false | .handle _ .q => false | _ => true

def Owner.libuv : Owner → Bool
  | .user => false | _ => true

structure Entry where
  id : Nat
  kind : Kind
  cx : Bool          -- FD_CLOEXEC
  owner : Owner
  stdio : Bool       -- kernel number is 0, 1 or 2
  bylib : Bool       -- created inside a libuv call
  deriving DecidableEq, Repr

inductive Ev
  | create (e : Entry)
  | close (e : Entry) (auth : Bool)    -- close(2) made by libuv; `auth`: the caller asked for it (uv_fs_close)
  deriving Repr

inductive Prim
  | create (site : Site) (kind : Kind) (o : Owner)
  | createGive (site : Site) (kind : Kind)       -- created by libuv and returned to the caller
  | userCreate (kind : Kind) (stdio : Bool)      -- the application creates a descriptor itself
  | closeOwner (o : Owner) (guard : Bool)        -- close what field `o` holds; guard = "if fd > STDERR_FILENO"
  | closeUser (id : Nat)                         -- uv_fs_close(id)
  | userClose (id : Nat)                         -- the application closes its own descriptor
  | userCloseAll
  | closeQ (h : Nat)                             -- close every queued descriptor of handle h (stream.c:1556-1562)
  | transfer (src dst : Owner)
  | adopt (id : Nat) (dst : Owner)               -- uv_*_open: ownership passes to the handle
  | say (line : String)
  deriving Repr

structure Ledger where
  led : List Entry := []
  next : Nat := 0
  evs : List Ev := []          -- newest first
  out : List String := []      -- newest first
  deriving Repr

def kindStr : Kind → String
  | .sock => "sock" | .tcp => "sock" | .udp => "sock" | .pipe => "pipe" | .file => "file" | .epoll => "epoll" | .ring => "ring"
  | .evfd => "evfd" | .inot => "inot" | .ipc => "ipc" | .ipcTcp => "ipc" | .ipcUdp => "ipc"

def Kind.isTcp : Kind → Bool | .tcp => true | .ipcTcp => true | _ => false
def Kind.isSock : Kind → Bool | .sock => true | .tcp => true | .udp => true | .ipc => true | .ipcTcp => true | .ipcUdp => true | _ => false

def find? (led : List Entry) (o : Owner) : Option Entry := led.find? (·.owner = o)
def findId? (led : List Entry) (id : Nat) : Option Entry := led.find? (·.id = id)

/-- storing into a single-valued field orphans what it held -/
def displace (led : List Entry) (o : Owner) : List Entry :=
  if o.unique then led.map (fun e => if e.owner = o then { e with owner := .leaked } else e) else led

def setOwner (led : List Entry) (id : Nat) (o : Owner) : List Entry :=
  led.map (fun e => if e.id = id then { e with owner := o } else e)

def Prim.ok : Prim → Bool
  | .closeOwner o guard => o.libuv && o != .leaked && (match o with | .handle _ .io => guard | _ => true)
  | .adopt _ dst => match dst with | .handle _ .io => true | _ => false
  | .transfer src dst => src.libuv && src != .leaked && dst.libuv && (match src with | .handle _ .io => false | _ => true)
  | _ => true

def exec1raw (l : Ledger) : Prim → Ledger
  | .create site kind o =>
    let e : Entry := { id := l.next, kind, cx := siteCloexec site, owner := o, stdio := false, bylib := true }
    { l with led := displace l.led o ++ [e], next := l.next + 1, evs := .create e :: l.evs,
             out := s!"env fd+ f{l.next} {kindStr kind} cx={if e.cx then 1 else 0}" :: l.out }
  | .createGive site kind =>
    let e : Entry := { id := l.next, kind, cx := siteCloexec site, owner := .user, stdio := false, bylib := true }
    { l with led := l.led ++ [e], next := l.next + 1, evs := .create e :: l.evs,
             out := s!"env fd+ f{l.next} {kindStr kind} cx={if e.cx then 1 else 0}" :: l.out }
  | .userCreate kind stdio =>
    let e : Entry := { id := l.next, kind, cx := false, owner := .user, stdio, bylib := false }
    { l with led := l.led ++ [e], next := l.next + 1, out := s!"env fd+ f{l.next} {kindStr kind} cx=u" :: l.out }
  | .closeOwner o guard =>
    match find? l.led o with
    | none => l
    | some e =>
      if guard && e.stdio then { l with led := setOwner l.led e.id .user }
      else { l with led := l.led.filter (·.id ≠ e.id), evs := .close e false :: l.evs,
                    out := s!"env fd- f{e.id}" :: l.out }
  | .closeUser id =>
    match findId? l.led id with
    | none => l
    | some e =>
      if e.owner = .user && !e.stdio then
        { l with led := l.led.filter (·.id ≠ id), evs := .close e true :: l.evs, out := s!"env fd- f{id}" :: l.out }
      else l
  | .userClose id =>
    match findId? l.led id with
    | none => l
    | some e => if e.owner = .user then { l with led := l.led.filter (·.id ≠ id), out := s!"env fd- f{id}" :: l.out } else l
  | .userCloseAll => { l with led := l.led.filter (·.owner ≠ .user) }
  | .closeQ h =>
    let qs := l.led.filter (·.owner = .handle h .q)
    { l with led := l.led.filter (·.owner ≠ .handle h .q),
             evs := (qs.map (fun e => Ev.close e false)).reverse ++ l.evs,
             out := (qs.map (fun e => s!"env fd- f{e.id}")).reverse ++ l.out }
  | .transfer src dst =>
    match find? l.led src with
    | none => l
    | some e => { l with led := setOwner (displace l.led dst) e.id dst }
  | .adopt id dst =>
    match findId? l.led id with
    | none => l
    | some e => if e.owner = .user then { l with led := setOwner (displace l.led dst) id dst } else l
  | .say line => { l with out := line :: l.out }


/-- the model refuses primitives the code never performs (they would show up as `model-bad-prim`) -/
def exec1 (l : Ledger) (p : Prim) : Ledger := if p.ok then exec1raw l p else { l with out := "model-bad-prim" :: l.out }

def exec (l : Ledger) (ps : List Prim) : Ledger := ps.foldl exec1 l

end UvModel.FdLedger
