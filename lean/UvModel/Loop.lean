import UvModel.HandleKernels
import UvModel.Timer
/-!
  LoopModel, part 1: state and the API operations that run no callback
  (`init/start/stop/ref/unref/close/async_send/queue_work/cancel/udp_send/uv_stop/getters`).

  Sources: src/uv-common.h (macros, through `HandleKernels`), src/unix/core.c
  (uv_close 159-238, uv__make_close_pending 268-273, uv__io_start/stop/close/feed 917-990,
  uv_backend_timeout), src/unix/loop-watcher.c, src/timer.c (through `UvModel.Timer`),
  src/unix/async.c, src/unix/poll.c, src/unix/udp.c (recv_start/stop, send, close),
  src/unix/stream.c (uv_listen, uv__stream_close), src/unix/signal.c, src/unix/linux.c
  (uv_fs_event_start/stop), src/threadpool.c (uv_queue_work, uv_cancel), src/unix/loop.c.

  Handles are records in `handle_queue` order; a record is *deleted* when its close
  callback is delivered, every access is an `Option` lookup.  Handle ids: 0 = the loop's
  `child_watcher`, 1 = `wq_async` (both INTERNAL, created by uv_loop_init), user handle
  `hN` = N + 2.  All flag/counter updates go through `HandleKernels`.
  An operation outside `Legal` (what libuv documents/asserts: unknown or already freed
  handle, start/stop-type call after uv_close, double close, ...) is ignored and counted
  in `nIllegal`; the driver prints `bad-op` for it.
-/
namespace UvModel.Loop
open UvModel.HandleKernels

inductive Kind | timer | idle | prepare | check | async | poll | tcp | udp | pipe | signal | fsEvent
deriving DecidableEq, Repr, Inhabited

structure HFlags where
  active : Bool := false
  ref : Bool := false
  closing : Bool := false
  closed : Bool := false
  internal : Bool := false
deriving DecidableEq, Repr, Inhabited

def toHK (f : HFlags) (ah : Int) : HK := ⟨f.active, f.ref, f.closing, f.closed, f.internal, ah⟩
def ofHK (k : HK) : HFlags := ⟨k.active, k.ref, k.closing, k.closed, k.internal⟩

/-- uv__io_t (events, pevents, fd != -1); `watchers[fd] == w` iff `pevents ≠ 0` -/
structure IoW where
  hasFd : Bool := false
  events : Nat := 0
  pevents : Nat := 0
deriving DecidableEq, Repr, Inhabited

/-- flags of all handles in `handle_queue` order + `loop->active_handles`: the only state the
    four macros of uv-common.h touch.  Written exclusively through `Core.apply`/`add`/`remove`. -/
structure Core where
  fl : List (Nat × HFlags) := []
  ah : Int := 0
deriving Repr, Inhabited

def updF (fl : List (Nat × HFlags)) (id : Nat) (f : HFlags) : List (Nat × HFlags) :=
  match fl with
  | [] => []
  | e :: t => if e.1 == id then (id, f) :: t else e :: updF t id f

def lookF : List (Nat × HFlags) → Nat → Option HFlags
  | [], _ => none
  | e :: t, id => if e.1 == id then some e.2 else lookF t id

def Core.get (c : Core) (id : Nat) : Option HFlags := lookF c.fl id

/-- apply a macro kernel to handle `id` and the loop counter -/
def Core.apply (c : Core) (id : Nat) (k : HK → HK) : Core :=
  match c.get id with
  | none => c
  | some f =>
    let r := k (toHK f c.ah)
    { fl := updF c.fl id (ofHK r), ah := r.ah }

/-- uv__handle_init: append to handle_queue with flags = REF -/
def Core.add (c : Core) (id : Nat) : Core := { c with fl := c.fl ++ [(id, ofHK (handleInit c.ah))] }
def eraseF (fl : List (Nat × HFlags)) (id : Nat) : List (Nat × HFlags) :=
  match fl with
  | [] => []
  | e :: t => if e.1 == id then t else e :: eraseF t id

/-- uv__queue_remove(&handle->handle_queue): unlink that one handle -/
def Core.remove (c : Core) (id : Nat) : Core := { c with fl := eraseF c.fl id }

structure Handle where
  id : Nat
  kind : Kind
  ncb : Nat := 0                 -- invocations of the handle's callback so far (script index)
  pending : Bool := false        -- uv_async_t.pending
  io : IoW := {}                 -- io_watcher (poll, tcp, udp, pipe)
  wq : List Nat := []            -- udp write_queue (request ids)
  wcq : List (Nat × Int) := []   -- udp write_completed_queue (request, status)
  sqc : Int := 0                 -- udp send_queue_count
  processing : Bool := false     -- UV_HANDLE_UDP_PROCESSING
  connReq : Option Nat := none   -- stream connect_req (with delayed_error set)
deriving Repr, Inhabited

/-- uv_fs_* operations of the simulator (each has an io_uring route, linux.c:829-1145) -/
inductive FsOp | open | close | read | write | stat
deriving DecidableEq, Repr, Inhabited

/-- the APIs whose request goes through uv__work_submit (threadpool.c:268-279): uv_queue_work, uv_fs_* (POST,
    fs.c:139-155; `nbufs` of read/write), uv_getaddrinfo (getaddrinfo.c:140-225), uv_getnameinfo, uv_random -/
inductive Api | queueWork | fs (op : FsOp) (nbufs : Nat) | getaddrinfo | getnameinfo | random
deriving DecidableEq, Repr, Inhabited

/-- environment of the simulator: only the work_cb of uv_queue_work blocks until poll time; every other
    kind of work finishes as soon as the (single) worker thread reaches it -/
def Api.gated : Api → Bool
  | .queueWork => true
  | _ => false
/-- UV__WORK_SLOW_IO (separate queue in threadpool.c:57-140) -/
def Api.slow : Api → Bool
  | .getaddrinfo | .getnameinfo => true
  | _ => false
/-- tag printed with the completion callback -/
def Api.code : Api → Int
  | .queueWork => 0 | .fs _ _ => 1 | .getaddrinfo => 2 | .getnameinfo => 3 | .random => 4

/-- `work api`: in the thread pool / loop->wq; `ring api`: an fs request in the io_uring submission ring -/
inductive ReqKind | work (api : Api) | ring (api : Api) | udpSend (h : Nat) | connect (h : Nat)
deriving DecidableEq, Repr, Inhabited
def ReqKind.cancellable : ReqKind → Bool
  | .work _ | .ring _ => true
  | _ => false
def ReqKind.api : ReqKind → Api
  | .work a | .ring a => a
  | _ => .queueWork

/-- `iou->ringfd`: -2 uninitialised, -1 failed, else a ring (linux.c:766-782) -/
inductive Ring | uninit | failed | ok
deriving DecidableEq, Repr, Inhabited
structure Req where
  id : Nat
  kind : ReqKind
deriving DecidableEq, Repr, Inhabited

/-- io watchers: the loop's own three and per-handle ones -/
inductive W | async | signal | inotify | h (id : Nat)
deriving DecidableEq, Repr, Inhabited

/-- `ring cq`: the io_uring ring fd; `cq` = the completion queue entries [head, tail) found by uv__poll_io_uring (input) -/
inductive Owner | async | h (id : Nat) | inotify | signal | other | ring (cq : List Nat)
deriving DecidableEq, Repr, Inhabited

def POLLIN : Nat := 1
def POLLPRI : Nat := 2
def POLLOUT : Nat := 4
def POLLERR : Nat := 8
def POLLHUP : Nat := 16
def POLLRDHUP : Nat := 0x2000
def POLLALL : Nat := POLLIN ||| POLLOUT ||| POLLRDHUP ||| POLLPRI
/-- `a & ~b` -/
def clearBits (a b : Nat) : Nat := a ^^^ (a &&& b)

/-- result of one epoll_pwait call: an *input* (environment) -/
structure PollRes where
  eintr : Bool := false
  deadlock : Bool := false            -- timeout -1 and nothing will ever be ready (harness stops)
  batch : List (Owner × Nat) := []
  full : Bool := false                -- nfds == ARRAY_SIZE(events)
  clock : Nat := 0                    -- virtual clock after the call
  done : Nat := 0                     -- thread-pool completions that arrived before the call
deriving DecidableEq, Repr, Inhabited

inductive Op
  | init (k : Kind)                    -- the new handle gets the next id
  | start (h a b : Nat)
  | stop (h : Nat)
  | again (h : Nat)
  | setRepeat (h v : Nat)
  | ref (h : Nat)
  | unref (h : Nat)
  | close (h : Nat)
  | asyncSend (h : Nat)
  | bind (h : Nat)
  | udpSend (h : Nat)                  -- the new request gets the next id
  | work (api : Api)                   -- uv_queue_work / uv_fs_* / uv_getaddrinfo / uv_getnameinfo / uv_random with a callback
  | useIoUring                         -- uv_loop_configure(loop, UV_LOOP_USE_IO_URING_SQPOLL)
  | workNull                           -- uv_queue_work without work_cb: UV_EINVAL, nothing registered
  | udpSendBad (h : Nat)               -- uv_udp_send without destination: UV_EDESTADDRREQ, nothing registered
  | reject (api : Nat)                 -- getaddrinfo / getnameinfo / random refused synchronously: UV_EINVAL
  | connectBad (h : Nat)               -- uv_pipe_connect(""): error deferred to the next tick
  | cancel (r : Nat)
  | stopLoop
  | updateTime
  | advance (n : Nat)
  | getAlive
  | getBackendTimeout
  | getNow
  | isActive (h : Nat)
  | hasRef (h : Nat)
  | isClosing (h : Nat)
  | dueIn (h : Nat)
  | env (name : String) (h : Nat)      -- make_readable / drain: acts on the environment only
  | bad (text : String)                -- unparsable / main-only op inside a callback
deriving DecidableEq, Repr, Inhabited

inductive CbKind | timer | idle | prepare | check | async | poll | close | work | udpSend | connect
deriving DecidableEq, Repr, Inhabited

inductive Phase | timers0 | pending | idle | prepare | poll | pending2 | check | closing | timers
deriving DecidableEq, Repr, Inhabited

structure Obs where
  alive : Bool
  ah : Int
  ar : Int
  stop : Bool
  nh : Nat
  now : Nat
  pq : List Nat                            -- owners of the watchers in loop->pending_queue
  hs : List (Nat × Bool × Bool × Bool)     -- id, active, has_ref, is_closing
deriving DecidableEq, Repr, Inhabited

inductive Event
  | op (o : Op) (ret : Option Int)
  | cb (ph : Phase) (k : CbKind) (id : Nat) (a b : Int)
  | endcb
  | poll (iter : Nat) (timeout : Int) (r : PollRes)
  | obs (o : Obs)
  | runBegin (m : Mode)
  | runEnd (m : Mode) (r : Bool)
  | iterBegin
  | loopClose (ret : Int)
deriving Repr, Inhabited

structure State where
  c : Core := {}                      -- handle flags (handle_queue order) and loop->active_handles
  handles : List Handle := []         -- per-handle data other than the flags
  nextId : Nat := 0
  ar : Int := 0                       -- loop->active_reqs.count
  reqs : List Req := []               -- requests whose callback is owed
  nextReq : Nat := 0
  closing : List Nat := []            -- loop->closing_handles (head first)
  closingLocal : List Nat := []       -- chain detached by uv__run_closing_handles
  pending : List Nat := []            -- loop->pending_queue (io watchers of handles)
  pendingLocal : List Nat := []       -- `pq` of uv__run_pending
  idle : List Nat := []
  prepare : List Nat := []
  check : List Nat := []
  watcherLocal : List Nat := []       -- `queue` of the running uv__run_idle/prepare/check
  asyncs : List Nat := []             -- loop->async_handles
  asyncLocal : List Nat := []         -- `queue` of uv__async_io
  tm : Timer.S := {}                  -- time, timer heap, per-timer data, ready queue
  stop : Bool := false                -- loop->stop_flag
  clock : Nat := 0                    -- the (virtual) monotonic clock, ms
  metrics : Bool := false             -- UV_METRICS_IDLE_TIME configured
  watcherQ : List W := []             -- loop->watcher_queue
  wAsync : IoW := {}
  wSignal : IoW := {}
  wInotify : IoW := {}
  inotifyInit : Bool := false
  batch : List (Owner × Nat) := []    -- not yet dispatched events of the current epoll batch
  poolQ : List Nat := []              -- thread pool queue (pool size 1)
  running : Option Nat := none        -- work item the worker has dequeued
  doneQ : List (Nat × Bool) := []     -- loop->wq: (request, cancelled)
  doneLocal : List (Nat × Bool) := [] -- `wq` of uv__work_done / the CQ entries uv__poll_io_uring walks
  iouFlag : Bool := false             -- loop->flags & UV_LOOP_ENABLE_IO_URING_SQPOLL
  ringEnv : Bool := true              -- environment: UV_USE_IO_URING > 0, kernel new enough, io_uring_setup succeeds
  ring : Ring := .uninit              -- iou->ringfd
  ringQ : List Nat := []              -- requests in flight in the ring (iou->in_flight of them)
  oracle : List PollRes := []         -- future epoll_pwait results (inputs)
  closed : Bool := false              -- uv_loop_close succeeded
  halted : Bool := false              -- the environment reported a deadlock / ran out of inputs
  nIllegal : Nat := 0
  ncbTotal : Nat := 0
  loopCount : Nat := 0                -- metrics.loop_count (uv__metrics_inc_loop_count)
  trace : List Event := []            -- newest first
deriving Repr, Inhabited

abbrev Ret := Option Int    -- none = the op was not Legal

/-! ### record access -/
def getH (s : State) (id : Nat) : Option Handle := s.handles.find? (·.id == id)

def updH (hs : List Handle) (id : Nat) (g : Handle → Handle) : List Handle :=
  match hs with
  | [] => []
  | h :: t => if h.id == id then g h :: t else h :: updH t id g

def modH (s : State) (id : Nat) (g : Handle → Handle) : State :=
  { s with handles := updH s.handles id g }

def getF (s : State) (id : Nat) : Option HFlags := s.c.get id

/-- the record and the flags of a live handle -/
def getHF (s : State) (id : Nat) : Option (Handle × HFlags) :=
  match getH s id, getF s id with
  | some h, some f => some (h, f)
  | _, _ => none

/-- apply a macro kernel to handle `id` and the loop counter -/
def withKernel (s : State) (id : Nat) (k : HK → HK) : State := { s with c := s.c.apply id k }

def illegal (s : State) : State × Ret := ({ s with nIllegal := s.nIllegal + 1 }, none)

def hClosing (f : HFlags) : Bool := isClosing (toHK f 0)

/-! ### time -/
/-- uv__update_time: loop->time = clock (ms) -/
def updateTime (s : State) : State := { s with tm := Timer.updateTime s.tm s.clock }

def ensureT (tm : Timer.S) (id : Nat) : Timer.S :=
  { tm with ts := tm.ts ++ Array.replicate (id + 1 - tm.ts.size) {} }

/-! ### io watchers (core.c:917-990) -/
def getIo (s : State) : W → IoW
  | .async => s.wAsync
  | .signal => s.wSignal
  | .inotify => s.wInotify
  | .h id => ((getH s id).map (·.io)).getD {}

def setIo (s : State) (w : W) (io : IoW) : State :=
  match w with
  | .async => { s with wAsync := io }
  | .signal => { s with wSignal := io }
  | .inotify => { s with wInotify := io }
  | .h id => modH s id (fun h => { h with io := io })

/-- uv__io_start -/
def ioStart (s : State) (w : W) (ev : Nat) : State :=
  let io := getIo s w
  let io := { io with pevents := io.pevents ||| ev }
  let s := setIo s w io
  if io.events == io.pevents then s
  else if s.watcherQ.contains w then s
  else { s with watcherQ := s.watcherQ ++ [w] }

/-- uv__io_stop -/
def ioStop (s : State) (w : W) (ev : Nat) : State :=
  let io := getIo s w
  if !io.hasFd then s
  else
    let pe := clearBits io.pevents ev
    if pe == 0 then
      let s := setIo s w { io with pevents := 0, events := 0 }
      { s with watcherQ := s.watcherQ.erase w }
    else
      let s := setIo s w { io with pevents := pe }
      if s.watcherQ.contains w then s else { s with watcherQ := s.watcherQ ++ [w] }

/-- uv__platform_invalidate_fd (linux.c:702-732): forget the fd's entries in the running batch -/
def invalidate (s : State) (id : Nat) : State :=
  { s with batch := s.batch.filter (fun e => e.1 != Owner.h id) }

/-- uv__io_close -/
def ioClose (s : State) (id : Nat) : State :=
  let s := ioStop s (.h id) POLLALL
  let s := { s with pending := s.pending.filter (· != id), pendingLocal := s.pendingLocal.filter (· != id) }
  if (getIo s (.h id)).hasFd then invalidate s id else s

/-- uv__io_feed -/
def ioFeed (s : State) (id : Nat) : State :=
  if s.pending.contains id || s.pendingLocal.contains id then s
  else { s with pending := s.pending ++ [id] }

def ioActive (s : State) (w : W) (ev : Nat) : Bool := (getIo s w).pevents &&& ev != 0

/-! ### per-type start / stop (each reduced to ACTIVE + list membership + io watcher) -/
def hStart (s : State) (id : Nat) : State := withKernel s id handleStart
def hStop (s : State) (id : Nat) : State := withKernel s id handleStop

/-- uv_timer_stop -/
def timerStop (s : State) (id : Nat) : State :=
  hStop { s with tm := Timer.stop s.tm id } id

/-- uv_timer_start -/
def timerStart (s : State) (id a b : Nat) : State × Int :=
  -- `if (uv__is_closing(handle) || cb == NULL) return UV_EINVAL;`
  if ((getF s id).map hClosing).getD true then (s, -22) else
  let (tm, rc) := Timer.start s.tm id a b
  if rc != 0 then (s, rc)
  else
    -- uv_timer_stop (uv__handle_stop if active), heap_insert, uv__handle_start
    let s := hStop s id
    (hStart { s with tm := tm } id, 0)

/-- uv_timer_again -/
def timerAgain (s : State) (id : Nat) : State × Int :=
  let t := Timer.getT s.tm id
  if !t.hasCb then (s, -22)
  else if t.rep != 0 then
    let s := timerStop s id
    ((timerStart s id t.rep t.rep).1, 0)
  else (s, 0)

inductive WKind | idle | prepare | check
deriving DecidableEq, Repr, Inhabited

def wList (s : State) : WKind → List Nat
  | .idle => s.idle | .prepare => s.prepare | .check => s.check
def setWList (s : State) (k : WKind) (l : List Nat) : State :=
  match k with
  | .idle => { s with idle := l } | .prepare => { s with prepare := l } | .check => { s with check := l }

/-- uv_idle_start etc. (loop-watcher.c:42-50): insert at the HEAD of the loop list -/
def watcherStart (s : State) (k : WKind) (id : Nat) : State :=
  if ((getF s id).map (·.active)).getD true then s
  else hStart (setWList s k (id :: wList s k)) id

/-- uv_idle_stop etc. (loop-watcher.c:52-57): unlink from whichever list holds it -/
def watcherStop (s : State) (k : WKind) (id : Nat) : State :=
  if !((getF s id).map (·.active)).getD false then s
  else
    let s := setWList s k ((wList s k).filter (· != id))
    hStop { s with watcherLocal := s.watcherLocal.filter (· != id) } id

/-- uv__poll_stop (poll.c:107-113) -/
def pollStop (s : State) (id : Nat) : State :=
  let s := ioStop s (.h id) POLLALL
  let s := hStop s id
  invalidate s id

def pollEvents (mask : Nat) : Nat :=
  (if mask &&& 1 != 0 then POLLIN else 0) ||| (if mask &&& 8 != 0 then POLLPRI else 0) |||
  (if mask &&& 2 != 0 then POLLOUT else 0) ||| (if mask &&& 4 != 0 then POLLRDHUP else 0)

/-- uv_poll_start (poll.c:123-155) -/
def pollStart (s : State) (id mask : Nat) : State :=
  let s := pollStop s id
  if mask == 0 then s
  else hStart (ioStart s (.h id) (pollEvents mask)) id

/-- uv_async_send from the loop thread (async.c:83-106); the eventfd write is environment -/
def asyncSend (s : State) (id : Nat) : State :=
  match getH s id with
  | none => s
  | some h => if h.pending then s else modH s id (fun h => { h with pending := true })

/-- uv__async_close (async.c:141-145): spin sets `pending`, unlink, uv__handle_stop -/
def asyncClose (s : State) (id : Nat) : State :=
  let s := modH s id (fun h => { h with pending := true })
  hStop { s with asyncs := s.asyncs.filter (· != id), asyncLocal := s.asyncLocal.filter (· != id) } id

/-- uv_listen on tcp / pipe (stream.c:601-623, tcp.c:420-451, pipe.c:151-174) -/
def streamListen (s : State) (id : Nat) : State :=
  let s := modH s id (fun h => { h with io := { h.io with hasFd := true } })
  hStart (ioStart s (.h id) POLLIN) id

/-- uv__stream_close for a listening / idle stream (stream.c:1510-1560) -/
def streamClose (s : State) (id : Nat) : State :=
  let s := ioClose s id
  let s := hStop s id
  modH s id (fun h => { h with io := { h.io with hasFd := false } })

/-- uv__udp_recv_start (udp.c:1197-1220) -/
def udpRecvStart (s : State) (id : Nat) : State × Int :=
  if ioActive s (.h id) POLLIN then (s, -114)
  else
    let s := modH s id (fun h => { h with io := { h.io with hasFd := true } })
    (hStart (ioStart s (.h id) POLLIN) id, 0)

/-- uv__udp_recv_stop (udp.c:1223-1233) -/
def udpRecvStop (s : State) (id : Nat) : State :=
  let s := ioStop s (.h id) POLLIN
  if !ioActive s (.h id) POLLOUT then hStop s id else s

/-- uv__udp_sendmsg with every datagram accepted by the kernel (udp.c:1358-1412) -/
def udpSendmsg (s : State) (id : Nat) : State :=
  match getH s id with
  | none => s
  | some h =>
    if h.wq.isEmpty then s
    else
      let s := modH s id (fun h => { h with wcq := h.wcq ++ h.wq.map (fun r => (r, (1 : Int))), wq := [] })
      ioFeed s id

/-- uv__udp_send, first half (udp.c:589-611): uv__req_init, queue the request -/
def udpSendEnqueue (s : State) (id : Nat) : State :=
  let r := s.nextReq
  let s := { s with ar := reqRegister s.ar, reqs := s.reqs ++ [({ id := r, kind := .udpSend id } : Req)], nextReq := r + 1 }
  modH s id (fun h => { h with io := { h.io with hasFd := true }, sqc := h.sqc + 1, wq := h.wq ++ [r] })

/-- uv__udp_send, last part (udp.c:614-626): send now or arm POLLOUT -/
def udpSendKick (s : State) (id : Nat) (emptyQueue processing : Bool) : State :=
  if emptyQueue && !processing then
    let s := udpSendmsg s id
    match getH s id with
    | none => s
    | some h' => if !h'.wq.isEmpty then ioStart s (.h id) POLLOUT else s
  else ioStart s (.h id) POLLOUT

/-- uv__udp_send (udp.c:560-628) -/
def udpSend (s : State) (id : Nat) : State :=
  match getH s id with
  | none => s
  | some h => udpSendKick (hStart (udpSendEnqueue s id) id) id (h.sqc == 0) h.processing

/-- uv_pipe_connect whose uv_pipe_connect2 failed synchronously (pipe.c:229-249): delayed_error,
    connect_req, uv__req_init, uv__io_feed -/
def pipeConnectBad (s : State) (id : Nat) : State :=
  let r := s.nextReq
  let s := { s with ar := reqRegister s.ar, reqs := s.reqs ++ [({ id := r, kind := .connect id } : Req)], nextReq := r + 1 }
  let s := modH s id (fun h => { h with connReq := some r })
  ioFeed s id

/-- uv__udp_close (udp.c:56-64) -/
def udpClose (s : State) (id : Nat) : State :=
  let s := ioClose s id
  let s := hStop s id
  modH s id (fun h => { h with io := { h.io with hasFd := false } })

/-- uv__signal_start on a fixed signum / uv__signal_stop (signal.c:363-432, 535-578).
    `handle->signum != 0` coincides with UV_HANDLE_ACTIVE (set and cleared together, nowhere else),
    so the early returns `signum == handle->signum` / `signum == 0` are the kernels' own ACTIVE tests. -/
def signalStart (s : State) (id : Nat) : State := hStart s id
def signalStop (s : State) (id : Nat) : State := hStop s id
/-- uv_fs_event_stop (linux.c:2700-2720): `if (!uv__is_active(handle)) return 0;` then uv__handle_stop -/
def fsEventStop (s : State) (id : Nat) : State :=
  if !((getF s id).map (·.active)).getD false then s else hStop s id

/-- init_inotify (linux.c:2455-2476) -/
def initInotify (s : State) : State :=
  if s.inotifyInit then s
  else ioStart { s with inotifyInit := true, wInotify := { hasFd := true } } .inotify POLLIN

/-- uv__make_close_pending (core.c:268-273) -/
def makeClosePending (s : State) (id : Nat) : State := { s with closing := id :: s.closing }

/-- the type-specific teardown of uv_close (core.c:165-235) -/
def closeKind (s : State) (k : Kind) (id : Nat) : State :=
  match k with
  | .timer => timerStop { s with tm := Timer.close s.tm id } id   -- uv__timer_close = uv_timer_stop
  | .idle => watcherStop s .idle id
  | .prepare => watcherStop s .prepare id
  | .check => watcherStop s .check id
  | .async => asyncClose s id
  | .poll => pollStop s id
  | .tcp => streamClose s id
  | .pipe => streamClose s id
  | .udp => udpClose s id
  | .signal => signalStop s id
  | .fsEvent => fsEventStop s id

/-- uv_close (core.c:159-238) -/
def closeH (s : State) (k : Kind) (id : Nat) : State :=
  let s := withKernel s id setClosing
  let s := closeKind s k id
  makeClosePending s id

/-! ### handle creation -/
def addHandle (s : State) (k : Kind) : State :=
  let id := s.nextId
  { s with c := s.c.add id, handles := s.handles ++ [{ id := id, kind := k }], nextId := id + 1 }

/-- uv_<kind>_init -/
def initH (s : State) (k : Kind) : State :=
  let id := s.nextId
  let s := addHandle s k
  match k with
  | .timer => { s with tm := ensureT s.tm id }
  | .async => hStart { s with asyncs := s.asyncs ++ [id] } id       -- async.c:70-80
  | .poll => modH s id (fun h => { h with io := { hasFd := true } })  -- uv__io_init(.., fd)
  | _ => s

/-- uv_loop_init (loop.c:30-108): child_watcher (signal, unref'd, INTERNAL), the async and
    signal io watchers are started, wq_async (active, unref'd, INTERNAL) -/
def initLoop (clock0 : Nat) (metrics : Bool) (oracle : List PollRes) : State :=
  let s : State := { clock := clock0, metrics := metrics, oracle := oracle }
  let s := updateTime s
  let s := ioStart { s with wSignal := { hasFd := true } } .signal POLLIN   -- uv__signal_loop_once_init
  let s := addHandle s .signal                                                  -- child_watcher
  let s := withKernel s 0 handleUnref
  let s := withKernel s 0 setInternal
  let s := ioStart { s with wAsync := { hasFd := true } } .async POLLIN       -- uv__async_start
  let s := initH s .async                                                       -- wq_async
  let s := withKernel s 1 handleUnref
  withKernel s 1 setInternal

/-! ### thread pool (pool size 1; completions arrive as inputs at poll time) -/
/-- uv__req_register / uv__req_init + uv__work_submit.  An idle worker takes the item at once; work that is
    not gated (see `Api.gated`) is finished by it at once: loop->wq, uv_async_send (threadpool.c:118-124) -/
def workSubmit (s : State) (api : Api) : State :=
  let r := s.nextReq
  let s := { s with ar := reqRegister s.ar, reqs := s.reqs ++ [({ id := r, kind := .work api } : Req)], nextReq := r + 1 }
  match s.running with
  | none =>
    if api.gated then { s with running := some r }
    else asyncSend { s with doneQ := s.doneQ ++ [(r, false)] } 1
  | some _ => { s with poolQ := s.poolQ ++ [r] }

/-- does the call try the io_uring route before POST?  (fs.c:1831-2245: every simulated fs op does;
    uv__iou_fs_read_or_write, linux.c:1047-1062: a write with more than IOV_MAX = 1024 buffers returns 0
    *before* uv__iou_get_sqe, a read is capped) -/
def ringable : Api → Bool
  | .fs .write n => n ≤ 1024
  | .fs _ _ => true
  | _ => false

/-- uv__iou_get_sqe, first half (linux.c:766-782): the ring is created lazily, once -/
def ringInit (s : State) : State :=
  if s.ring == .uninit then { s with ring := if s.iouFlag && s.ringEnv then .ok else .failed } else s

/-- uv__iou_get_sqe, second half (linux.c:796-806) + uv__iou_submit: uv__req_register, in_flight++ -/
def ringSubmit (s : State) (api : Api) : State :=
  let r := s.nextReq
  { s with ar := reqRegister s.ar, reqs := s.reqs ++ [({ id := r, kind := .ring api } : Req)], nextReq := r + 1,
           ringQ := s.ringQ ++ [r] }

/-- an asynchronous uv_fs_* / uv_getaddrinfo / uv_getnameinfo / uv_random / uv_queue_work call that is accepted -/
def submit (s : State) (api : Api) : State :=
  if ringable api then
    let s := ringInit s
    if s.ring == .ok then ringSubmit s api else workSubmit s api
  else workSubmit s api

/-- uv__work_cancel (threadpool.c:283-308) -/
def workCancel (s : State) (r : Nat) : State × Int :=
  if s.poolQ.contains r then
    (asyncSend { s with poolQ := s.poolQ.filter (· != r), doneQ := s.doneQ ++ [(r, true)] } 1, 0)
  else if s.doneQ.contains (r, true) || s.doneLocal.contains (r, true) then
    (asyncSend { s with doneQ := s.doneQ.filter (· != (r, true)) ++ [(r, true)],
                        doneLocal := s.doneLocal.filter (· != (r, true)) } 1, 0)
  else (s, -16)

/-- `k` work items finish on the pool thread: insert into loop->wq, uv_async_send(wq_async) -/
def completeWorks (s : State) (k : Nat) : State :=
  if k == 0 then s
  else
    let all := s.running.toList ++ s.poolQ
    let rest := all.drop k
    let s := { s with running := rest.head?, poolQ := rest.tail,
                      doneQ := s.doneQ ++ (all.take k).map (fun r => (r, false)) }
    asyncSend s 1

/-! ### observations -/
def pendingEmpty (s : State) : Bool := s.pending.isEmpty
def closingNull (s : State) : Bool := s.closing.isEmpty

/-- uv_loop_alive -/
def alive (s : State) : Bool := loopAlive s.c.ah s.ar (pendingEmpty s) (closingNull s)

/-- uv__backend_timeout; UV_LOOP_REAP_CHILDREN is never set (no processes) -/
def backendTimeoutS (s : State) : Int :=
  backendTimeout s.stop s.c.ah s.ar (pendingEmpty s) s.idle.isEmpty false (closingNull s) (Timer.nextTimeout s.tm)

def obsOf (s : State) : Obs :=
  { alive := alive s, ah := s.c.ah, ar := s.ar, stop := s.stop,
    nh := (s.c.fl.filter (fun e => !e.2.internal)).length, now := s.tm.time, pq := s.pending,
    hs := (s.c.fl.filter (fun e => !e.2.internal)).map
            (fun e => (e.1, isActive (toHK e.2 0), hasRef (toHK e.2 0), isClosing (toHK e.2 0))) }

def emit (s : State) (e : Event) : State :=
  if s.halted then s else { s with trace := e :: s.trace }
def emitObs (s : State) : State := emit s (.obs (obsOf s))

/-! ### one API call -/
def ok (s : State) (r : Int := 0) : State × Ret := (s, some r)

def applyOp (s : State) (o : Op) : State × Ret :=
  if s.closed then illegal s else
  match o with
  | .init k => ok (initH s k)
  | .start id a b =>
    match getHF s id with
    | none => illegal s
    | some (h, f) =>
      if f.internal then illegal s else
      match h.kind with
      | .timer => let (s, rc) := timerStart s id a b; ok s rc
      | .poll => if hClosing f || a > 15 then illegal s else ok (pollStart s id a)
      | .idle => if hClosing f then illegal s else ok (watcherStart s .idle id)
      | .prepare => if hClosing f then illegal s else ok (watcherStart s .prepare id)
      | .check => if hClosing f then illegal s else ok (watcherStart s .check id)
      | .signal => if hClosing f then illegal s else ok (signalStart s id)
      | .fsEvent =>
        if hClosing f then illegal s
        else if f.active then ok s (-22) else ok (hStart (initInotify s) id)
      | .udp => if hClosing f then illegal s else let (s, rc) := udpRecvStart s id; ok s rc
      | .tcp => if hClosing f then illegal s else ok (streamListen s id)
      | .pipe => if hClosing f || h.connReq.isSome then illegal s else ok (streamListen s id)   -- no listen while connecting
      | .async => illegal s
  | .stop id =>
    match getHF s id with
    | none => illegal s
    | some (h, f) =>
      if f.internal || hClosing f then illegal s else
      match h.kind with
      | .timer => ok (timerStop s id)
      | .idle => ok (watcherStop s .idle id)
      | .prepare => ok (watcherStop s .prepare id)
      | .check => ok (watcherStop s .check id)
      | .poll => ok (pollStop s id)
      | .signal => ok (signalStop s id)
      | .fsEvent => ok (fsEventStop s id)
      | .udp => ok (udpRecvStop s id)
      | _ => illegal s
  | .again id =>
    match getHF s id with
    | some (h, f) => if h.kind == .timer && !f.internal then let (s, rc) := timerAgain s id; ok s rc else illegal s
    | none => illegal s
  | .setRepeat id v =>
    match getHF s id with
    | some (h, f) => if h.kind == .timer && !f.internal && !hClosing f then ok { s with tm := Timer.setRepeat s.tm id v } else illegal s
    | none => illegal s
  | .ref id =>
    match getHF s id with
    | some (_, f) => if f.internal then illegal s else ok (withKernel s id handleRef)
    | none => illegal s
  | .unref id =>
    match getHF s id with
    | some (_, f) => if f.internal then illegal s else ok (withKernel s id handleUnref)
    | none => illegal s
  | .close id =>
    match getHF s id with
    | some (h, f) => if f.internal || hClosing f then illegal s else ok (closeH s h.kind id)
    | none => illegal s
  | .asyncSend id =>
    match getHF s id with
    | some (h, f) => if h.kind == .async && !f.internal && !hClosing f then ok (asyncSend s id) else illegal s
    | none => illegal s
  | .bind id =>
    match getHF s id with
    | some (h, f) =>
      if h.kind == .udp && !hClosing f && !h.io.hasFd then
        ok (modH s id (fun h => { h with io := { h.io with hasFd := true } }))
      else illegal s
    | none => illegal s
  | .udpSend id =>
    match getHF s id with
    | some (h, f) => if h.kind == .udp && !hClosing f then ok (udpSend s id) else illegal s
    | none => illegal s
  | .work api =>
    -- slow I/O (getaddrinfo / getnameinfo) is submitted to an idle pool only (Legal): the separate slow-I/O
    -- queue of threadpool.c is not part of this model
    if api.slow && !(s.running.isNone && s.poolQ.isEmpty) then illegal s else ok (submit s api)
  | .useIoUring => ok { s with iouFlag := true }
  | .workNull => ok s (-22)
  | .reject api => if api < 3 then ok s (-22) else illegal s
  | .connectBad id =>
    match getHF s id with
    | some (h, f) =>
      if h.kind == .pipe && !f.internal && !hClosing f && !h.io.hasFd && h.connReq.isNone then ok (pipeConnectBad s id)
      else illegal s
    | none => illegal s
  | .udpSendBad id =>
    match getHF s id with
    | some (h, f) => if h.kind == .udp && !hClosing f then ok s (-89) else illegal s
    | none => illegal s
  | .cancel r =>
    -- uv_cancel (threadpool.c:389-419): UV_FS / UV_GETADDRINFO / UV_GETNAMEINFO / UV_RANDOM / UV_WORK all reach
    -- uv__work_cancel; a request in the ring has an empty `wq` link (uv__iou_get_sqe "pacify uv_cancel"): UV_EBUSY
    if s.reqs.any (fun q => q.id == r && q.kind.cancellable) then let (s, rc) := workCancel s r; ok s rc else illegal s
  | .stopLoop => ok { s with stop := true }
  | .updateTime => ok (updateTime s)
  | .advance n => ok { s with clock := s.clock + n }
  | .getAlive => ok s (if alive s then 1 else 0)
  | .getBackendTimeout => ok s (uvBackendTimeout s.watcherQ.isEmpty (backendTimeoutS s))
  | .getNow => ok s s.tm.time
  | .isActive id =>
    match getHF s id with
    | some (_, f) => if f.internal then illegal s else ok s (if isActive (toHK f 0) then 1 else 0)
    | none => illegal s
  | .hasRef id =>
    match getHF s id with
    | some (_, f) => if f.internal then illegal s else ok s (if hasRef (toHK f 0) then 1 else 0)
    | none => illegal s
  | .isClosing id =>
    match getHF s id with
    | some (_, f) => if f.internal then illegal s else ok s (if isClosing (toHK f 0) then 1 else 0)
    | none => illegal s
  | .dueIn id =>
    match getHF s id with
    | some (h, f) => if h.kind == .timer && !f.internal then ok s (Timer.dueIn s.tm id) else illegal s
    | none => illegal s
  | .env _ id =>
    match getHF s id with
    | some (h, _) => if h.kind == .poll then ok s else illegal s
    | none => illegal s
  | .bad _ => illegal s

/-- an op together with its trace lines -/
def stepOp (s : State) (o : Op) : State :=
  let (s, r) := applyOp s o
  emitObs (emit s (.op o r))

/-- uv_loop_close (uv-common.c:873-905): UV_EBUSY = -16 -/
def loopCloseBusy (s : State) : Bool :=
  hasActiveReqs s.ar || s.c.fl.any (fun e => !e.2.internal)

def loopClose (s : State) : State × Int :=
  if loopCloseBusy s then (s, -16) else ({ s with closed := true }, 0)

end UvModel.Loop
