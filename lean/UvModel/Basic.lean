def hello := "world"
