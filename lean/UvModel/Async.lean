/-! # C09 — uv_async_send / uv__async_io / uv__async_close  (src/unix/async.c)

A sequentially-consistent interleaving transition system.  One *loop thread*, any number of
*sender threads* (a signal-handler send is a sender whose steps run while the interrupted thread
does not step — a subset of the interleavings considered here), any number of async handles.
Every atomic operation / eventfd read / eventfd write of async.c is one transition; a thread is
always parked *before* its next operation (same convention as the serialising scheduler in
harness/baton_sched.h, which drives the real async.c through exactly these steps).

  sender  (uv_async_send, async.c:93-115):   load pending; fetch_add busy +1; xchg pending 1;
                                             [uv__async_send = write eventfd, if the xchg saw 0]; fetch_add busy -1
  loop    (uv__async_io, async.c:160-210):   read eventfd (drain); queue_move; per handle: xchg pending 0 -> callback
  close   (uv__async_close/spin, 120-157):   store pending 1; load busy until 0; queue_remove, handle_stop
  close_cb (core.c uv__run_closing_handles): the user's close callback, after which the handle memory is released

Ghost fields (not in the C code, never read by the transitions that model C): `pub/seen/x01/cbs/stored`
and the senders' `seq/sent`.  -/
namespace UvModel.Async

/-! ## source tokens (Tie A): the instruction sequence extracted from async.c is a `List Tok` -/
inductive Var | pending | busy
  deriving DecidableEq, Repr

inductive Tok
  | load (v : Var)                 -- atomic_load / atomic_load_explicit
  | store (v : Var) (n : Int)      -- atomic_store
  | xchg (v : Var) (n : Int)       -- atomic_exchange
  | fetchAdd (v : Var) (n : Int)   -- atomic_fetch_add
  | ifEq0 | ifNe0                  -- the result of the preceding atomic is compared with 0 in an `if`
  | ret | cont                     -- return / continue
  | wakeup                         -- uv__async_send(loop)
  | writeEfd | readEfd             -- write()/read() on the eventfd (or pipe)
  | doLoop | whileCond             -- `do` / `while (`
  | ifEintr | ifEagain             -- errno == EINTR / errno == EAGAIN tests
  | plainStore (v : Var) (n : Int) -- non-atomic `h->pending = n` / `h->u.fd = n`
  | restart                        -- uv__async_start(loop): new eventfd
  | cbNullCheck                    -- if (h->async_cb == NULL)
  | callback                       -- h->async_cb(h)
  | queueMove | queuePop           -- uv__queue_move(&loop->async_handles,&queue) / head+remove+insert_tail
  | spin | unlink | handleStop     -- uv__async_spin(handle), uv__queue_remove(&handle->queue), uv__handle_stop
  | other (s : String)
  deriving DecidableEq, Repr

/-! ## state -/
structure HS where
  pending : Nat := 0
  busy : Int := 0
  closing : Bool := false     -- uv_close() called (UV_HANDLE_CLOSING)
  stored : Bool := false      -- ghost: uv__async_spin's store executed
  unlinked : Bool := false    -- uv__async_close returned (handle off the loop's list)
  freed : Bool := false       -- close callback ran, memory released
  pub : Nat := 0              -- ghost: number of sends begun on this handle (= last published sequence number)
  seen : Nat := 0             -- ghost: `pub` as observed by the most recent callback when it started
  x01 : Nat := 0              -- ghost: number of sender exchanges that changed pending 0 -> 1
  cbs : Nat := 0              -- ghost: number of callbacks started
  deriving DecidableEq, Repr, Inhabited

inductive SPc | idle | load | inc | xchg | write | dec
  deriving DecidableEq, Repr, Inhabited

structure Sender where
  pc : SPc := .idle
  h : Nat := 0
  seq : Nat := 0        -- ghost: sequence number published by the current/last send
  sent : Bool := false  -- ghost: the last send on `h` returned
  deriving DecidableEq, Repr, Inhabited

inductive LRet | idle | inCb (h : Nat)
  deriving DecidableEq, Repr, Inhabited

inductive LPc
  | idle                          -- in epoll_wait (blocked unless efd > 0)
  | drain                         -- in uv__async_io, before read()
  | scan (h : Nat)                -- before atomic_exchange(&h->pending, 0); h already moved to async_handles
  | inCb (h : Nat)                -- inside h->async_cb(h)
  | closeStore (h : Nat) (r : LRet)  -- in uv__async_spin(h), before atomic_store(pending, 1)
  | closeSpin (h : Nat) (r : LRet)   -- before atomic_load(busy)
  deriving DecidableEq, Repr, Inhabited

def LRet.toPc : LRet → LPc
  | .idle => .idle
  | .inCb h => .inCb h

structure State where
  nh : Nat                 -- handles 0..nh-1 were uv_async_init'ed on the loop
  hs : Nat → HS
  snd : List Sender
  efd : Nat := 0           -- eventfd counter
  capm1 : Nat := 2^64 - 3  -- a write of 1 succeeds iff efd ≤ capm1 (Linux: counter max 2^64-2), else EAGAIN
  lpc : LPc := .idle
  queue : List Nat := []   -- the local `queue` of uv__async_io (handles still to scan)
  handles : List Nat := [] -- loop->async_handles

def init (nh ns : Nat) (capm1 : Nat := 2^64 - 3) : State :=
  { nh := nh, hs := fun _ => {}, snd := List.replicate ns {}, handles := List.range nh, capm1 := capm1 }

def upd (f : Nat → HS) (i : Nat) (v : HS) : Nat → HS := fun j => if j = i then v else f j

inductive Act
  | begin (t h : Nat)   -- thread t calls uv_async_send(handle h)
  | snd (t : Nat)       -- thread t performs its next atomic operation
  | loop                -- the loop thread performs its next step
  | close (h : Nat)     -- the loop thread calls uv_close(h) (between polls or inside an async callback)
  | closeCbs            -- the loop thread runs the pending close callbacks (uv__run_closing_handles)
  | fork                -- fork(): the transitions continue in the CHILD, whose loop thread calls uv_loop_fork ->
                        -- uv__async_fork (360-399): every other thread is gone, pending/busy of the listed handles are
                        -- cleared, a fresh (empty) eventfd replaces the inherited one; sends not yet delivered are dropped
  | eintr (w : Option Nat)  -- environment: the eventfd write of sender t (`some t`) / the loop's eventfd read (`none`)
                            -- is interrupted (-1/EINTR); async.c retries (243-245, 186-187): no state change
  deriving DecidableEq, Repr

/-- top of `while (!uv__queue_empty(&queue))` (async.c:193-198) -/
def nextScan (s : State) : State :=
  match s.queue with
  | [] => { s with lpc := .idle }
  | h :: q => { s with queue := q, handles := s.handles ++ [h], lpc := .scan h }

def setSnd (s : State) (t : Nat) (x : Sender) : State := { s with snd := s.snd.set t x }
def setH (s : State) (h : Nat) (v : HS) : State := { s with hs := upd s.hs h v }

/-- one step of uv_async_send on thread `t` (async.c:93-115, 213-255) -/
def sndStep (s : State) (t : Nat) : Option State :=
  match s.snd[t]? with
  | none => none
  | some x =>
    let hv := s.hs x.h
    match x.pc with
    | .idle => none
    | .load =>    -- 101: cheap read; non-zero -> return 0
      if hv.pending ≠ 0 then some (setSnd s t { x with pc := .idle, sent := true })
      else some (setSnd s t { x with pc := .inc })
    | .inc =>     -- 105
      some (setSnd (setH s x.h { hv with busy := hv.busy + 1 }) t { x with pc := .xchg })
    | .xchg =>    -- 108: exchange; old = 0 -> uv__async_send
      if hv.pending = 0 then
        some (setSnd (setH s x.h { hv with pending := 1, x01 := hv.x01 + 1 }) t { x with pc := .write })
      else
        some (setSnd (setH s x.h { hv with pending := 1 }) t { x with pc := .dec })
    | .write =>   -- 243-252: write(eventfd, 1); EAGAIN (counter saturated, hence non-zero) is treated as success
      some (setSnd { s with efd := if s.efd ≤ s.capm1 then s.efd + 1 else s.efd } t { x with pc := .dec })
    | .dec =>     -- 112
      some (setSnd (setH s x.h { hv with busy := hv.busy - 1 }) t { x with pc := .idle, sent := true })

/-- one step of the loop thread -/
def loopStep (s : State) : Option State :=
  match s.lpc with
  | .idle => if s.efd > 0 then some { s with lpc := .drain } else none   -- epoll reports the eventfd readable
  | .drain =>   -- 175-192: read() resets the eventfd counter; queue_move
    some (nextScan { s with efd := 0, queue := s.handles, handles := [] })
  | .scan h =>  -- 202-208
    let hv := s.hs h
    if hv.pending = 0 then some (nextScan s)
    else some { setH s h { hv with pending := 0, cbs := hv.cbs + 1, seen := hv.pub } with lpc := .inCb h }
  | .inCb _ => some (nextScan s)   -- callback returns
  | .closeStore h r =>   -- 130
    some { setH s h { s.hs h with pending := 1, stored := true } with lpc := .closeSpin h r }
  | .closeSpin h r =>    -- 137, 155-156
    if (s.hs h).busy = 0 then
      some { setH s h { s.hs h with unlinked := true } with
             lpc := r.toPc, queue := s.queue.filter (· != h), handles := s.handles.filter (· != h) }   -- uv__queue_remove: the node leaves whichever list it is on
    else none

def LPc.ret? : LPc → Option LRet
  | .idle => some .idle
  | .inCb h => some (.inCb h)
  | _ => none

def step? (s : State) : Act → Option State
  | .begin t h =>
    match s.snd[t]? with
    | none => none
    | some x =>
      if x.pc = .idle ∧ h < s.nh ∧ (s.hs h).closing = false then
        let hv := s.hs h
        some (setSnd (setH s h { hv with pub := hv.pub + 1 }) t { pc := .load, h := h, seq := hv.pub + 1, sent := false })
      else none
  | .snd t => sndStep s t
  | .loop => loopStep s
  | .close h =>
    match s.lpc.ret? with
    | none => none
    | some r =>
      if h < s.nh ∧ (s.hs h).closing = false then
        some { setH s h { s.hs h with closing := true } with lpc := .closeStore h r }
      else none
  | .fork =>
    if s.lpc = .idle then
      some { s with efd := 0,
                    hs := fun h => if h ∈ s.handles then { s.hs h with pending := 0, busy := 0 } else s.hs h,
                    snd := s.snd.map fun x => { x with pc := .idle, sent := false } }
    else none
  | .eintr none => if s.lpc = .drain then some s else none
  | .eintr (some t) =>
    match s.snd[t]? with
    | some x => if x.pc = .write then some s else none
    | none => none
  | .closeCbs =>
    if s.lpc = .idle then
      some { s with hs := fun h => if (s.hs h).unlinked then { s.hs h with freed := true } else s.hs h }
    else none

def step (s : State) (a : Act) : State := (step? s a).getD s
def run (s : State) (acts : List Act) : State := acts.foldl step s

/-- every state the system can be in: any number of handles and senders, any interleaving -/
def Reachable (s : State) : Prop := ∃ nh ns cap acts, s = run (init nh ns cap) acts

/-! ## the instruction order the model assumes, in source tokens (compared with Generated.AsyncSeq) -/
def SPc.toks : SPc → List Tok
  | .idle => []
  | .load => [.load .pending, .ifNe0, .ret]
  | .inc => [.fetchAdd .busy 1]
  | .xchg => [.xchg .pending 1, .ifEq0]
  | .write => [.wakeup]
  | .dec => [.fetchAdd .busy (-1), .ret]

/-- the pcs a lone sender goes through on the slow path, obtained by *running the model* -/
def soloSender : List SPc :=
  let s0 := step (init 1 1) (.begin 0 0)
  ((List.range 5).foldl (fun (acc : State × List SPc) _ =>
      (step acc.1 (.snd 0), acc.2 ++ [(acc.1.snd[0]?.getD ({} : Sender)).pc])) (s0, [])).2

def senderProgram : List Tok := soloSender.flatMap SPc.toks

def LPc.toks : LPc → List Tok
  | .idle => []
  | .drain => [.readEfd, .cont, .ifEagain, .ifEintr, .cont, .queueMove]   -- read loop: `continue` on a full buffer and on EINTR, leave on EAGAIN
  | .scan _ => [.whileCond, .queuePop, .xchg .pending 0, .ifEq0, .cont, .cbNullCheck, .cont]
  | .inCb _ => [.callback]
  | .closeStore _ _ => [.store .pending 1]
  | .closeSpin _ _ => [.load .busy, .ifEq0, .ret]

/-- loop pcs from wake-up to going back to sleep, one handle with a send pending -/
def soloLoop : List LPc :=
  let s0 := run (init 1 1) [.begin 0 0, .snd 0, .snd 0, .snd 0, .snd 0, .snd 0, .loop]
  ((List.range 3).foldl (fun (acc : State × List LPc) _ => (step acc.1 .loop, acc.2 ++ [acc.1.lpc])) (s0, [])).2

def ioProgram : List Tok := soloLoop.flatMap LPc.toks

def soloClose : List LPc :=
  let s0 := step (init 1 0) (.close 0)
  ((List.range 2).foldl (fun (acc : State × List LPc) _ => (step acc.1 .loop, acc.2 ++ [acc.1.lpc])) (s0, [])).2

def spinProgram : List Tok := soloClose.flatMap LPc.toks
def closeProgram : List Tok := [.spin, .unlink, .handleStop]
/-- uv__async_fork: (never started: return) walk the handle list clearing pending and busy, close the fds, start again -/
def forkProgram : List Tok := [.ret, .queueMove, .whileCond, .queuePop, .plainStore .pending 0, .plainStore .busy 0, .ret, .restart]
/-- uv__async_send: write (retried on EINTR); return when written; return on EAGAIN; else abort -/
def wakeupProgram : List Tok := [.doLoop, .writeEfd, .whileCond, .ifEintr, .ret, .ifEagain, .ret]

/-! ## enabledness (what the scheduler calls runnable) -/
def enabled (s : State) (a : Act) : Bool := (step? s a).isSome

end UvModel.Async
