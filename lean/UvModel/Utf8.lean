/-!
  C18 (text half): executable model of `uv__utf8_decode1` / `uv__utf8_decode1_slow`
  (/repo/src/idna.c:71-149) and the specification it is compared with: the well-formed
  byte sequences of the Unicode Standard, Table 3-7.

  Bytes are `Nat`s (< 256 for every theorem); the input of `decode1` is the byte list
  `[*p, …, pe)`, which the C code asserts to be non-empty.  The result is
  `(value, consumed)`: `value = none` stands for the C return value `UINT_MAX` (-1),
  `consumed` is how far `*p` was advanced (the C code advances it on errors too).
-/
namespace UvModel.Utf8

/-- (decoded value or `none` for `(unsigned) -1`, number of bytes `*p` was advanced) -/
abbrev R := Option Nat × Nat

/-- idna.c:117-134, the code after the `switch`.  `used` = bytes consumed so far. -/
def finish (min a b c d used : Nat) : R :=
  if 0x80 ≠ (0xC0 &&& b) ∨ 0x80 ≠ (0xC0 &&& c) ∨ 0x80 ≠ (0xC0 &&& d) then (none, used)   -- :117 "Invalid sequence"
  else
    let b := b &&& 63
    let c := c &&& 63
    let d := d &&& 63
    let a := (a <<< 18) ||| (b <<< 12) ||| (c <<< 6) ||| d      -- :123
    if a < min then (none, used)                                 -- :125 overlong
    else if a > 0x10FFFF then (none, used)                       -- :128
    else if a ≥ 0xD800 ∧ a ≤ 0xDFFF then (none, used)            -- :131 surrogate
    else (some a, used)

/-- `case 0:` idna.c:113 -/
def case0 : R := (none, 1)

/-- `case 1:` idna.c:103-112; `rest` = bytes `[*p, pe)` after the lead byte `a` -/
def case1 (rest : List Nat) (a : Nat) : R :=
  match rest with
  | d :: _ =>
    if a > 0xBF ∧ a ≤ 0xDF then finish 0x80 0 0x80 (0x80 ||| (a &&& 31)) d 2
    else case0
  | [] => case0

/-- `case 2:` idna.c:93-102 (falls through to `case 1`) -/
def case2 (rest : List Nat) (a : Nat) : R :=
  match rest with
  | c :: d :: _ =>
    if a > 0xDF ∧ a ≤ 0xEF then finish 0x800 0 (0x80 ||| (a &&& 15)) c d 3
    else case1 rest a
  | _ => case1 rest a

/-- `uv__utf8_decode1_slow` idna.c:71-135: `switch (pe - *p)` enters at `default` for
    three or more remaining bytes, at `case 2`, `case 1`, `case 0` otherwise. -/
def decode1Slow (rest : List Nat) (a : Nat) : R :=
  if a > 0xF7 then (none, 1)                                     -- :79
  else
    match rest with
    | b :: c :: d :: _ =>                                        -- default:
      if a > 0xEF then finish 0x10000 (a &&& 7) b c d 4
      else case2 rest a
    | [_, _] => case2 rest a                                     -- case 2:
    | [_] => case1 rest a                                        -- case 1:
    | [] => case0                                                -- case 0:

/-- `uv__utf8_decode1` idna.c:138-149.  (`assert(*p < pe)`: the empty list is outside the
    C precondition; the model answers `(none, 0)` there.) -/
def decode1 : List Nat → R
  | [] => (none, 0)
  | a :: rest => if a < 128 then (some a, 1) else decode1Slow rest a

/-! ### Specification: Unicode Table 3-7 -/

/-- continuation byte 80..BF -/
abbrev isCont (b : Nat) : Prop := 0x80 ≤ b ∧ b ≤ 0xBF

/-- lowest admissible second byte for the lead byte `a` (Table 3-7) -/
def lo2 (a : Nat) : Nat := if a = 0xE0 then 0xA0 else if a = 0xF0 then 0x90 else 0x80
/-- highest admissible second byte for the lead byte `a` (Table 3-7) -/
def hi2 (a : Nat) : Nat := if a = 0xED then 0x9F else if a = 0xF4 then 0x8F else 0xBF

/-- Table 3-7: if the list *starts with* a well-formed UTF-8 byte sequence, its scalar value and
    its length; `none` otherwise (ill-formed, or cut short by the end of the list). -/
def spec : List Nat → Option (Nat × Nat)
  | [] => none
  | a :: rest =>
    if a ≤ 0x7F then some (a, 1)
    else if 0xC2 ≤ a ∧ a ≤ 0xDF then
      match rest with
      | b :: _ => if isCont b then some ((a - 0xC0) * 64 + (b - 0x80), 2) else none
      | _ => none
    else if 0xE0 ≤ a ∧ a ≤ 0xEF then
      match rest with
      | b :: c :: _ =>
        if lo2 a ≤ b ∧ b ≤ hi2 a ∧ isCont c then
          some ((a - 0xE0) * 4096 + (b - 0x80) * 64 + (c - 0x80), 3)
        else none
      | _ => none
    else if 0xF0 ≤ a ∧ a ≤ 0xF4 then
      match rest with
      | b :: c :: d :: _ =>
        if lo2 a ≤ b ∧ b ≤ hi2 a ∧ isCont c ∧ isCont d then
          some ((a - 0xF0) * 262144 + (b - 0x80) * 4096 + (c - 0x80) * 64 + (d - 0x80), 4)
        else none
      | _ => none
    else none

/-- the list starts with a well-formed sequence (decidable) -/
def WellFormedPrefix (l : List Nat) : Prop := (spec l).isSome
instance (l : List Nat) : Decidable (WellFormedPrefix l) := by unfold WellFormedPrefix; infer_instance

/-- number of trailing bytes the lead byte announces (what the decoder tries to read) -/
def need (a : Nat) : Nat := if a > 0xEF then 3 else if a > 0xDF then 2 else if a > 0xBF then 1 else 0

/-- all bytes are bytes -/
def Bytes (l : List Nat) : Prop := ∀ b ∈ l, b < 256

/-! ### Whole strings -/

/-- decode a whole byte string the way the loops of idna.c do (`while (s < se) c = decode1(&s, se)`):
    `none` as soon as one call returns -1 -/
def decodeAll : List Nat → Option (List Nat)
  | [] => some []
  | a :: rest =>
    match decode1 (a :: rest) with
    | (some v, n) => (decodeAll (rest.drop (n - 1))).map (v :: ·)
    | (none, _) => none
termination_by l => l.length
decreasing_by simp only [List.length_drop, List.length_cons]; omega

/-- the same with the specification decoder: a well-formed UTF-8 string and its scalar values -/
def specAll : List Nat → Option (List Nat)
  | [] => some []
  | a :: rest =>
    match spec (a :: rest) with
    | some (v, n) => (specAll (rest.drop (n - 1))).map (v :: ·)
    | none => none
termination_by l => l.length
decreasing_by simp only [List.length_drop, List.length_cons]; omega

end UvModel.Utf8
