import UvModel.Loop
/-!
  LoopModel, part 2: everything that runs user callbacks.

  * `runCb`             — a user callback = the scripted op list of its k-th invocation
  * `runPending`        — uv__run_pending (core.c:842-856)
  * `runWatchers`       — uv__run_idle/prepare/check (loop-watcher.c:59-71)
  * `asyncIo`, `workDone` — uv__async_io (async.c:148-195), uv__work_done (threadpool.c:311-345)
  * `udpIo`, `udpRunCompleted`, `udpFinishClose` — udp.c:67-151
  * `pollIo`            — uv__poll_io (poll.c:30-66)
  * `ioPoll`            — uv__io_poll (linux.c:1350-1620): watcher-queue flush, the timeout loop
                          (metrics zero-timeout first poll, EINTR, `real_timeout -= time - base`,
                          `count = 48` re-poll of full batches), dispatch with invalidation
  * `finishClose`, `runClosing` — core.c:303-380
  * `runTimers`         — uv__run_timers (timer.c:162-195)
  * `uvRun`             — uv_run (core.c:427-492)

  Loops are fuel-bounded; every local queue the C code detaches (`pq`, `queue`, `wq`,
  the closing chain, the epoll batch, the timers' ready queue) is a state component, because
  callbacks can unlink entries from it.
-/
namespace UvModel.Loop
open UvModel.HandleKernels

inductive CbKey | h (id : Nat) | c (id : Nat) | r (id : Nat)
deriving DecidableEq, Repr, Inhabited

/-- what the `occ`-th invocation of callback `key` does (`g` = number of callbacks run before it) -/
abbrev Script := CbKey → Nat → Nat → List Op

/-- run one user callback -/
def runCb (sc : Script) (ph : Phase) (k : CbKind) (key : CbKey) (id : Nat) (a b : Int) (occ : Nat)
    (s : State) : State :=
  let g := s.ncbTotal
  let s := { s with ncbTotal := g + 1 }
  let s := emitObs (emit s (.cb ph k id a b))
  let s := (sc key occ g).foldl stepOp s
  emitObs (emit s .endcb)

/-- callback of a handle: bumps the handle's invocation counter -/
def runHandleCb (sc : Script) (ph : Phase) (k : CbKind) (id : Nat) (a b : Int) (s : State) : State :=
  match getH s id with
  | none => s
  | some h =>
    let s := modH s id (fun h => { h with ncb := h.ncb + 1 })
    runCb sc ph k (.h id) id a b h.ncb s

/-! ### udp completion (udp.c:67-136) -/
def udpRunCompletedLoop (sc : Script) (ph : Phase) (id : Nat) : Nat → State → State
  | 0, s => s
  | fuel + 1, s =>
    match getH s id with
    | none => s
    | some h =>
      match h.wcq with
      | [] => s
      | (r, st) :: rest =>
        let s := modH s id (fun h => { h with wcq := rest, sqc := h.sqc - 1 })
        let s := { s with ar := reqUnregister s.ar, reqs := s.reqs.filter (·.id != r) }
        let s := runCb sc ph .udpSend (.r r) r (if st >= 0 then 0 else st) 0 0 s
        udpRunCompletedLoop sc ph id fuel s

def udpRunCompleted (sc : Script) (ph : Phase) (id : Nat) (s : State) : State :=
  match getH s id with
  | none => s
  | some h =>
    let s := modH s id (fun h => { h with processing := true })
    let s := udpRunCompletedLoop sc ph id (h.wcq.length + 1) s
    match getH s id with
    | none => s
    | some h =>
      let s :=
        if h.wq.isEmpty then
          let s := ioStop s (.h id) POLLOUT
          if !ioActive s (.h id) POLLIN then hStop s id else s
        else s
      modH s id (fun h => { h with processing := false })

/-- uv__udp_io (udp.c:139-151); no datagram ever arrives (POLLIN branch not modelled) -/
def udpIo (sc : Script) (ph : Phase) (id : Nat) (ev : Nat) (s : State) : State :=
  match getF s id with
  | none => s
  | some f =>
    if ev &&& POLLOUT != 0 && !hClosing f then
      udpRunCompleted sc ph id (udpSendmsg s id)
    else s

/-- uv__udp_finish_close (udp.c:67-92) -/
def udpFinishClose (sc : Script) (ph : Phase) (id : Nat) (s : State) : State :=
  let s := modH s id (fun h => { h with wcq := h.wcq ++ h.wq.map (fun r => (r, (-125 : Int))), wq := [] })
  udpRunCompleted sc ph id s

/-- uv__stream_io with a pending connect request whose error was deferred (stream.c:1195-1208, 1256-1306) -/
def streamIo (sc : Script) (ph : Phase) (id : Nat) (s : State) : State :=
  match getH s id with
  | none => s
  | some h =>
    match h.connReq with
    | none => s
    | some r =>
      let s := modH s id (fun h => { h with connReq := none })
      let s := { s with ar := reqUnregister s.ar, reqs := s.reqs.filter (·.id != r) }
      let s := ioStop s (.h id) POLLOUT
      runCb sc ph .connect (.r r) r (-22) 0 0 s

/-- uv__stream_destroy (stream.c:455-470): a pending connect is failed with UV_ECANCELED -/
def streamDestroy (sc : Script) (id : Nat) (s : State) : State :=
  match getH s id with
  | none => s
  | some h =>
    match h.connReq with
    | none => s
    | some r =>
      let s := { s with ar := reqUnregister s.ar, reqs := s.reqs.filter (·.id != r) }
      let s := runCb sc .closing .connect (.r r) r (-125) 0 0 s
      modH s id (fun h => { h with connReq := none })

/-- `w->cb(loop, w, POLLOUT)` for a watcher taken from the pending queue -/
def pendingIo (sc : Script) (ph : Phase) (id : Nat) (s : State) : State :=
  match getH s id with
  | none => s
  | some h => if h.kind == .udp then udpIo sc ph id POLLOUT s else streamIo sc ph id s

/-! ### uv__run_pending (core.c:842-856) -/
def runPendingLoop (sc : Script) (ph : Phase) : Nat → State → State
  | 0, s => s
  | fuel + 1, s =>
    match s.pendingLocal with
    | [] => s
    | id :: rest =>
      let s := { s with pendingLocal := rest }
      runPendingLoop sc ph fuel (pendingIo sc ph id s)

def runPending (sc : Script) (ph : Phase) (s : State) : State :=
  let s := { s with pendingLocal := s.pending, pending := [] }
  runPendingLoop sc ph (s.pendingLocal.length + 1) s

/-! ### uv__run_idle / prepare / check (loop-watcher.c:59-71) -/
def wPhase : WKind → Phase
  | .idle => .idle | .prepare => .prepare | .check => .check
def wCb : WKind → CbKind
  | .idle => .idle | .prepare => .prepare | .check => .check

def runWatchersLoop (sc : Script) (k : WKind) : Nat → State → State
  | 0, s => s
  | fuel + 1, s =>
    match s.watcherLocal with
    | [] => s
    | id :: rest =>
      let s := { s with watcherLocal := rest }
      let s := setWList s k (wList s k ++ [id])
      runWatchersLoop sc k fuel (runHandleCb sc (wPhase k) (wCb k) id 0 0 s)

def runWatchers (sc : Script) (k : WKind) (s : State) : State :=
  let s := { s with watcherLocal := wList s k }
  let s := setWList s k []
  runWatchersLoop sc k (s.watcherLocal.length + 1) s

/-! ### uv__work_done (threadpool.c:311-345) and uv__async_io (async.c:148-195) -/
def reqApi (reqs : List Req) (r : Nat) : Api :=
  match reqs.find? (·.id == r) with
  | some q => q.kind.api
  | none => .queueWork

/-- status handed to the callback: UV_ECANCELED, or UV_EAI_CANCELED (-3003) for getaddrinfo / getnameinfo
    (getaddrinfo.c:110-137, getnameinfo.c:60-80); the result of the operation itself is not modelled (0) -/
def doneStatus (api : Api) (cancelled : Bool) : Int :=
  if cancelled then (if api.slow then -3003 else -125) else 0

def workDoneLoop (sc : Script) : Nat → State → State
  | 0, s => s
  | fuel + 1, s =>
    match s.doneLocal with
    | [] => s
    | (r, cancelled) :: rest =>
      let s := { s with doneLocal := rest }
      -- uv__queue_done / uv__fs_done / uv__getaddrinfo_done / uv__getnameinfo_done / uv__random_done, and the
      -- body of uv__poll_io_uring's loop: uv__req_unregister, then the callback
      let api := reqApi s.reqs r
      let s := { s with ar := reqUnregister s.ar, reqs := s.reqs.filter (·.id != r) }
      workDoneLoop sc fuel (runCb sc .poll .work (.r r) r (doneStatus api cancelled) api.code 0 s)

def workDone (sc : Script) (s : State) : State :=
  let s := { s with doneLocal := s.doneQ, doneQ := [] }
  workDoneLoop sc (s.doneLocal.length + 1) s

def asyncIoLoop (sc : Script) : Nat → State → State
  | 0, s => s
  | fuel + 1, s =>
    match s.asyncLocal with
    | [] => s
    | id :: rest =>
      let s := { s with asyncLocal := rest, asyncs := s.asyncs ++ [id] }
      match getH s id with
      | none => asyncIoLoop sc fuel s
      | some h =>
        if !h.pending then asyncIoLoop sc fuel s
        else
          let s := modH s id (fun h => { h with pending := false })
          let s := if ((getF s id).map (·.internal)).getD false then workDone sc s else runHandleCb sc .poll .async id 0 0 s
          asyncIoLoop sc fuel s

def asyncIo (sc : Script) (s : State) : State :=
  let s := { s with asyncLocal := s.asyncs, asyncs := [] }
  asyncIoLoop sc (s.asyncLocal.length + 1) s

/-! ### uv__poll_io_uring (linux.c:1165-1250) -/
/-- the CQ entries [head, tail): requests that are in flight in the ring, in the order the kernel posted them -/
def ringTake (s : State) (cq : List Nat) : State :=
  cq.foldl (fun s r => if s.ringQ.contains r then
    { s with ringQ := s.ringQ.erase r, doneLocal := s.doneLocal ++ [(r, false)] } else s) s

/-- for every entry: uv__req_unregister, in_flight--, req->cb(req) -/
def ringDone (sc : Script) (cq : List Nat) (s : State) : State :=
  let s := ringTake s cq
  workDoneLoop sc (s.doneLocal.length + 1) s

/-! ### uv__poll_io (poll.c:30-66) -/
def pollIo (sc : Script) (id : Nat) (ev : Nat) (s : State) : State :=
  if ev &&& POLLERR != 0 && ev &&& POLLPRI == 0 then
    let s := ioStop s (.h id) POLLALL
    let s := hStop s id
    runHandleCb sc .poll .poll id (-9) 0 s
  else
    let pe : Nat := (if ev &&& POLLIN != 0 then 1 else 0) ||| (if ev &&& POLLPRI != 0 then 8 else 0) |||
                    (if ev &&& POLLOUT != 0 then 2 else 0) ||| (if ev &&& POLLRDHUP != 0 then 4 else 0)
    runHandleCb sc .poll .poll id 0 pe s

/-! ### uv__io_poll (linux.c:1350-1620) -/
/-- the event mask after filtering (linux.c:1536-1555) -/
def filterEvents (ev pevents : Nat) : Nat :=
  let e := ev &&& (pevents ||| POLLERR ||| POLLHUP)
  if e == POLLERR || e == POLLHUP then e ||| (pevents &&& POLLALL) else e

/-- dispatch of one batch (linux.c:1498-1570); returns (state, nevents, have_signals) -/
def dispatchLoop (sc : Script) : Nat → State → Nat → Bool → State × Nat × Bool
  | 0, s, n, sg => (s, n, sg)
  | fuel + 1, s, n, sg =>
    match s.batch with
    | [] => (s, n, sg)
    | (o, ev) :: rest =>
      let s := { s with batch := rest }
      match o with
      | .other => dispatchLoop sc fuel s n sg
      | .inotify =>
        -- uv__inotify_read: the only events are IN_IGNORED after uv_fs_event_stop; no watcher, no callback
        let e := filterEvents ev s.wInotify.pevents
        if s.wInotify.pevents == 0 || e == 0 then dispatchLoop sc fuel s n sg
        else dispatchLoop sc fuel s (n + 1) sg
      | .signal =>
        let e := filterEvents ev s.wSignal.pevents
        if s.wSignal.pevents == 0 || e == 0 then dispatchLoop sc fuel s n sg
        else dispatchLoop sc fuel s (n + 1) true
      | .async =>
        let e := filterEvents ev s.wAsync.pevents
        if s.wAsync.pevents == 0 || e == 0 then dispatchLoop sc fuel s n sg
        else dispatchLoop sc fuel (asyncIo sc s) (n + 1) sg
      | .h id =>
        match getH s id with
        | none => dispatchLoop sc fuel s n sg
        | some h =>
          let e := filterEvents ev h.io.pevents
          if h.io.pevents == 0 || e == 0 then dispatchLoop sc fuel s n sg
          else
            let s := match h.kind with
              | .poll => pollIo sc id e s
              | .udp => udpIo sc .poll id e s
              | _ => s          -- listening sockets never become ready in the simulator
            dispatchLoop sc fuel s (n + 1) sg
      | .ring cq =>
        -- `if (fd == iou->ringfd) { uv__poll_io_uring(loop, iou); have_iou_events = 1; continue; }`: not counted in
        -- nevents; the loop leaves uv__io_poll after this batch (same exit as have_signals)
        if s.ring == .ok then dispatchLoop sc fuel (ringDone sc cq s) n true else dispatchLoop sc fuel s n sg

/-- flush of the watcher queue (linux.c:1406-1435): `w->events = w->pevents` -/
def flushWatchers (s : State) : State :=
  let s := s.watcherQ.foldl (fun s w => let io := getIo s w; setIo s w { io with events := io.pevents }) s
  { s with watcherQ := [] }

structure PollCtl where
  timeout : Int
  realTimeout : Int
  userTimeout : Int
  reset : Bool
  base : Nat
  count : Nat
deriving Repr, Inhabited

/-- the `update_timeout:` label (linux.c:1601-1614): `none` = leave the loop -/
def updateTimeout (c : PollCtl) (time : Nat) : Option PollCtl :=
  if c.timeout == 0 then none
  else if c.timeout == -1 then some c
  else
    let rt := c.realTimeout - ((time : Int) - (c.base : Int))
    if rt <= 0 then none else some { c with realTimeout := rt, timeout := rt }

def pollLoop (sc : Script) : Nat → State → PollCtl → State
  | 0, s, _ => s
  | fuel + 1, s, c =>
    match s.oracle with
    | [] => { s with halted := true }
    | r :: rest =>
      let s := { s with oracle := rest }
      let s := completeWorks s r.done
      let s := { s with clock := r.clock }
      let s := emit s (.poll s.loopCount c.timeout r)
      if r.deadlock then { s with halted := true } else
      let s := updateTime s
      if r.eintr || r.batch.isEmpty then
        if c.reset then
          match updateTimeout { c with timeout := c.userTimeout, reset := false } s.tm.time with
          | none => s
          | some c => pollLoop sc fuel s c
        else if !r.eintr then s
        else match updateTimeout c s.tm.time with
          | none => s
          | some c => pollLoop sc fuel s c
      else
        let d := dispatchLoop sc (r.batch.length + 1) { s with batch := r.batch } 0 false
        let nevents := d.2.1
        let sg := d.2.2
        let s := { d.1 with batch := [] }
        let c := if c.reset then { c with timeout := c.userTimeout, reset := false } else c
        if sg then s      -- signal watcher callback: no signal is ever raised in the simulator
        else if nevents != 0 then
          if r.full && c.count - 1 != 0 then pollLoop sc fuel s { c with count := c.count - 1, timeout := 0 }
          else s
        else match updateTimeout c s.tm.time with
          | none => s
          | some c => pollLoop sc fuel s c

def ioPoll (sc : Script) (s : State) (timeout : Int) : State :=
  let s := flushWatchers s
  let c : PollCtl :=
    if s.metrics then { timeout := 0, realTimeout := timeout, userTimeout := timeout, reset := true, base := s.tm.time, count := 48 }
    else { timeout := timeout, realTimeout := timeout, userTimeout := 0, reset := false, base := s.tm.time, count := 48 }
  pollLoop sc (s.oracle.length + 1) s c

/-! ### closing (core.c:303-380) -/
def flagBits (f : HFlags) : Int :=
  (if f.active then 1 else 0) + (if f.ref then 2 else 0) + (if f.closing || f.closed then 4 else 0)

def finishClose (sc : Script) (id : Nat) (s : State) : State :=
  match getH s id with
  | none => s
  | some h =>
    let s := withKernel s id setClosed
    let s := if h.kind == .udp then udpFinishClose sc .closing id s
             else if h.kind == .pipe || h.kind == .tcp then streamDestroy sc id s else s
    let s := withKernel s id handleUnref
    match getF s id with
    | none => s
    | some f' =>
      -- uv__queue_remove(&handle->handle_queue); from here on the record does not exist
      let s := { s with c := s.c.remove id, handles := s.handles.filter (·.id != id) }
      runCb sc .closing .close (.c id) id (flagBits f') 0 0 s

def runClosingLoop (sc : Script) : Nat → State → State
  | 0, s => s
  | fuel + 1, s =>
    match s.closingLocal with
    | [] => s
    | id :: rest =>
      let s := { s with closingLocal := rest }
      runClosingLoop sc fuel (finishClose sc id s)

def runClosing (sc : Script) (s : State) : State :=
  let s := { s with closingLocal := s.closing, closing := [] }
  runClosingLoop sc (s.closingLocal.length + 1) s

/-! ### uv__run_timers (timer.c:162-195) -/
def collectTimers : Nat → State → State
  | 0, s => s
  | fuel + 1, s =>
    match Heap.min? s.tm.heap with
    | none => s
    | some e =>
      if e.timeout > s.tm.time then s
      else
        let s := timerStop s e.id
        collectTimers fuel { s with tm := { s.tm with ready := s.tm.ready ++ [e.id] } }

def fireTimers (sc : Script) (ph : Phase) : Nat → State → State
  | 0, s => s
  | fuel + 1, s =>
    match s.tm.ready with
    | [] => s
    | id :: rest =>
      let s := { s with tm := { s.tm with ready := rest } }
      let s := (timerAgain s id).1
      fireTimers sc ph fuel (runHandleCb sc ph .timer id 0 0 s)

def runTimers (sc : Script) (ph : Phase) (s : State) : State :=
  let s := collectTimers (s.tm.heap.size + 1) s
  fireTimers sc ph (s.tm.ready.length + 1) s

/-! ### uv_run (core.c:427-492) -/
def pendingRounds (sc : Script) : Nat → State → State
  | 0, s => s
  | n + 1, s => if s.pending.isEmpty then s else pendingRounds sc n (runPending sc .pending2 s)

/-- the timeout uv_run hands to uv__io_poll -/
def pollTimeout (mode : Mode) (cs : Bool) (s : State) : Int := runTimeout mode cs (backendTimeoutS s)

def iteration (sc : Script) (mode : Mode) (s : State) : State :=
  let s := emit s .iterBegin
  let cs := canSleep (pendingEmpty s) s.idle.isEmpty
  let s := runPending sc .pending s
  let s := runWatchers sc .idle s
  let s := runWatchers sc .prepare s
  let timeout := pollTimeout mode cs s
  let s := { s with loopCount := s.loopCount + 1 }
  let s := ioPoll sc s timeout
  let s := pendingRounds sc 8 s
  let s := runWatchers sc .check s
  let s := runClosing sc s
  let s := updateTime s
  runTimers sc .timers s

def runLoop (sc : Script) (mode : Mode) : Nat → State → Bool → Option (State × Bool)
  | 0, _, _ => none
  | fuel + 1, s, r =>
    if !runCond r s.stop || s.halted then some (s, r)
    else
      let s := iteration sc mode s
      let r := alive s
      if mode == .once || mode == .nowait then some (s, r)
      else runLoop sc mode fuel s r

/-- uv_run; `none` = fuel exhausted (the loop never stops) -/
def uvRun (sc : Script) (mode : Mode) (fuel : Nat) (s : State) : Option (State × Bool) :=
  let r := alive s
  let s := if !r then updateTime s else s
  let s := if initialTimers mode r s.stop then runTimers sc .timers0 (updateTime s) else s
  match runLoop sc mode fuel s r with
  | none => none
  | some (s, r) => some ({ s with stop := false }, r)

/-! ### whole programs -/
inductive MainOp
  | op (o : Op)
  | run (m : Mode)
  | loopClose
deriving Repr, Inhabited

def stepMain (sc : Script) (fuel : Nat) (s : State) : MainOp → State
  | .op o => if s.closed then s else stepOp s o
  | .run m =>
    if s.closed then s else
    let s := emit s (.runBegin m)
    match uvRun sc m fuel s with
    | none => { s with halted := true }
    | some (s, r) => emitObs (emit s (.runEnd m r))
  | .loopClose =>
    if s.closed then s else
    let (s, rc) := loopClose s
    let s := emit s (.loopClose rc)
    if rc == 0 then s else emitObs s

def runMain (sc : Script) (fuel : Nat) (s : State) (prog : List MainOp) : State :=
  prog.foldl (stepMain sc fuel) s

end UvModel.Loop
