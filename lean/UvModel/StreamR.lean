/-! Executable model of the read side of libuv streams (property C06).

  Code modelled (Linux/epoll build):
    src/unix/stream.c:932-939    uv__stream_eof
    src/unix/stream.c:1025-1157  uv__read
    src/unix/stream.c:1189-1238  uv__stream_io (read part; the write part is C05's model)
    src/unix/stream.c:1445-1483  uv__read_start / uv_read_stop
    src/uv-common.c:917-933      uv_read_start argument/state checks
    src/unix/stream.c:1513-1565  uv__stream_close (as far as the read side sees it)
    src/unix/linux.c:1515-1569   uv__io_poll: event filter and bare ERR/HUP merge for one watcher

  Environment (inputs, not modelled code): the kernel receive buffer of the stream's descriptor
  (`kbuf`: bytes the peer wrote and the stream has not read yet, `peerShut`), the outcome of every
  read(2)/recvmsg(2) call (`Outcome`, one list per loop iteration), the events epoll reports, the
  user's alloc_cb (size per call, 0 = refusal) and read_cb (ops performed inside, per call). -/
namespace UvModel.StreamR

abbrev Byte := Nat

/-- what one read(2)/recvmsg(2) call on the stream's descriptor does -/
inductive Outcome
  | ok (k : Nat)     -- hands over at most `k` bytes (a short read when `k` < min(buffer, available))
  | eagain | eintr
  | err (e : Nat)    -- any other errno
  deriving Repr, DecidableEq

inductive RRes
  | data (bytes : List Byte) | eof | eagain | err (e : Nat)
  deriving Repr, DecidableEq

/-- Kernel side of one completed (non-EINTR) call with a buffer of `cap ≥ 1` bytes.  Trusted kernel
    facts built in here: bytes come from the head of the receive buffer, in order, at most `cap`;
    0 (EOF) is returned only when the buffer is empty and the peer has shut down; an empty buffer
    with an open peer is EAGAIN.  `none` = no scripted outcome left: the natural full read. -/
def kfull (kbuf : List Byte) (peerShut : Bool) (cap k : Nat) : RRes × List Byte :=
  let n := min k (min cap kbuf.length)
  if n = 0 then (if kbuf.isEmpty && peerShut then (.eof, kbuf) else (.eagain, kbuf))
  else (.data (kbuf.take n), kbuf.drop n)

def kread (kbuf : List Byte) (peerShut : Bool) (cap : Nat) (o : Option Outcome) : RRes × List Byte :=
  match o with
  | none => kfull kbuf peerShut cap cap
  | some (.ok k) => kfull kbuf peerShut cap k
  | some .eagain => (.eagain, kbuf)
  | some .eintr => (.eagain, kbuf)        -- not reachable through `skipEintr`
  -- `err e`: errno in 1..4094 other than EAGAIN/EINTR (Linux errnos are < 4095 = -UV_EOF); anything
  -- else is not an errno and is read as EAGAIN
  | some (.err e) => if e = 11 ∨ e = 4 ∨ e = 0 ∨ 4095 ≤ e then (.eagain, kbuf) else (.err e, kbuf)

/-- `do nread = read(...) while (nread < 0 && errno == EINTR)` (stream.c:1063-1066, 1078-1081):
    number of calls made, the deciding outcome, the outcomes left -/
def skipEintr : List Outcome → Nat × Option Outcome × List Outcome
  | [] => (1, none, [])
  | .eintr :: rest => let r := skipEintr rest; (r.1 + 1, r.2.1, r.2.2)
  | o :: rest => (1, some o, rest)

inductive CbOp | stop | start | close
  deriving Repr, DecidableEq

/-- events reported for the descriptor by epoll_pwait -/
structure PollEv where
  inn : Bool := false
  out : Bool := false
  err : Bool := false
  hup : Bool := false
  /-- not an event but the other half of the environment at dispatch time: the write side (C05's
      model) has the watcher armed for POLLOUT (`pevents & POLLOUT`, e.g. a queued write) -/
  wantOut : Bool := false
  deriving Repr, DecidableEq

inductive Ev
  | peerW (bytes : List Byte)                         -- the peer wrote these bytes
  | peerShut                                          -- the peer shut down / closed its end
  | alloc (id : Nat) (size : Nat)                     -- alloc_cb call number `id` returned `size` bytes (0: refusal)
  | readCb (nread : Int) (buf : Option Nat) (bytes : List Byte)  -- read_cb(nread, buffer of alloc `id` | {NULL,0})
  | ret (op : CbOp) (code : Int)                      -- uv_read_stop / uv_read_start / uv_close returned
  | closeCb
  deriving Repr, DecidableEq

def UV_EOF : Int := -4095
def UV_ENOBUFS : Int := -105
def UV_EINVAL : Int := -22
def UV_EALREADY : Int := -114
def UV_ENOTCONN : Int := -107

structure St where
  ipc : Bool := false          -- UV_NAMED_PIPE with ipc = 1 (reads use recvmsg)
  reading : Bool := false      -- UV_HANDLE_READING
  readEof : Bool := false      -- UV_HANDLE_READ_EOF
  readPartial : Bool := false  -- UV_HANDLE_READ_PARTIAL
  readable : Bool := true      -- UV_HANDLE_READABLE
  writable : Bool := true      -- UV_HANDLE_WRITABLE
  closing : Bool := false      -- UV_HANDLE_CLOSING
  closed : Bool := false       -- close_cb has run
  fdOpen : Bool := true        -- io_watcher.fd != -1
  hasCb : Bool := false        -- stream->read_cb != NULL
  pollin : Bool := false       -- io_watcher.pevents & POLLIN
  kbuf : List Byte := []       -- kernel receive buffer
  peerShut : Bool := false
  oracle : List Outcome := []  -- outcomes of the read calls of the current loop iteration
  nSys : Nat := 0              -- read(2)/recvmsg(2) calls made
  nAlloc : Nat := 0
  nCb : Nat := 0
  trace : List Ev := []        -- oldest first
  deriving Repr

/-- the user: alloc_cb's answer per call, read_cb's ops per call -/
structure User where
  allocS : Nat → Nat
  cbS : Nat → List CbOp

def emit (s : St) (e : Ev) : St := { s with trace := s.trace ++ [e] }

/-- uv_read_stop, stream.c:1471-1483 -/
def readStop (s : St) : St :=
  if !s.reading then s
  else { s with reading := false, pollin := false, hasCb := false }

/-- uv_read_start, uv-common.c:917-933 + stream.c:1445-1468 -/
def readStart (s : St) : Int × St :=
  if s.closing then (UV_EINVAL, s)
  else if s.reading then (UV_EALREADY, s)
  else if !s.readable then (UV_ENOTCONN, s)
  else (0, { s with reading := true, readEof := false, hasCb := true, pollin := true })

/-- uv_close → uv__stream_close, stream.c:1513-1565 (a second uv_close is a usage error: the
    harness and the model both answer -1 without calling) -/
def closeH (s : St) : Int × St :=
  if s.closing then (-1, s)
  else
    let s := readStop { s with pollin := false }
    (0, { s with closing := true, readable := false, writable := false, fdOpen := false })

def doOp (s : St) : CbOp → St
  | .stop => emit (readStop s) (.ret .stop 0)
  | .start => let r := readStart s; emit r.2 (.ret .start r.1)
  | .close => let r := closeH s; emit r.2 (.ret .close r.1)

def runOps (s : St) (ops : List CbOp) : St := ops.foldl doOp s

/-- `stream->read_cb(stream, nread, &buf)`: the event, then whatever the user does inside -/
def callReadCb (u : User) (s : St) (nread : Int) (buf : Option Nat) (bytes : List Byte) : St :=
  let k := s.nCb
  runOps (emit { s with nCb := k + 1 } (.readCb nread buf bytes)) (u.cbS k)

/-- uv__stream_eof, stream.c:932-939 -/
def streamEof (u : User) (s : St) (buf : Option Nat) : St :=
  callReadCb u { s with readEof := true, reading := false, pollin := false } UV_EOF buf []

/-- uv__read after the read(2)/recvmsg(2) call returned `r` into the buffer of alloc `id` (`sz` bytes),
    stream.c:1084-1155; the Bool says whether control reaches the loop condition again -/
def afterRead (u : User) (s : St) (id sz : Nat) : RRes → St × Bool
  | .eagain =>                                                       -- 1086-1092
    let s := if s.reading then { s with pollin := true } else s
    (callReadCb u s 0 (some id) [], false)
  | .err e =>                                                        -- 1098-1109
    let s := callReadCb u { s with readable := false, writable := false } (-(e : Int)) (some id) []
    (if s.reading then { s with reading := false, pollin := false } else s, false)
  | .eof => (streamEof u s (some id), false)                         -- 1110-1112
  | .data bs =>                                                      -- 1113-1155
    let s := callReadCb u s bs.length (some id) bs
    -- "didn't fill the buffer, there is no more data to read": return (1150-1161).  For IPC pipes that
    -- is only a hint (the kernel ends a read at the boundary of a descriptor-carrying message), so
    -- the partial read is not recorded there and a hang-up is never taken for end-of-stream.
    if bs.length < sz then ((if !s.ipc then { s with readPartial := true } else s), false)
    else (s, true)

/-- one iteration of the `while` loop of uv__read (its condition already checked), stream.c:1049-1155 -/
def readRound (u : User) (s : St) : St × Bool :=
  let id := s.nAlloc
  let sz := u.allocS id
  let s := emit { s with nAlloc := id + 1 } (.alloc id sz)
  if sz = 0 then
    (callReadCb u s UV_ENOBUFS (some id) [], false)                  -- 1053-1057
  else
    let sk := skipEintr s.oracle                                     -- 1062-1082
    let kr := kread s.kbuf s.peerShut sz sk.2.1
    afterRead u { s with oracle := sk.2.2, nSys := s.nSys + sk.1, kbuf := kr.2 } id sz kr.1

/-- the `while` loop of uv__read, stream.c:1046-1156; `count` = iterations left -/
def readLoop (u : User) : Nat → St → St
  | 0, s => s
  | count + 1, s =>
    if !(s.hasCb && s.reading) then s else
    let r := readRound u s
    if r.2 then readLoop u count r.1 else r.1

/-- uv__read, stream.c:1025-1157 -/
def uvRead (u : User) (s : St) : St := readLoop u 32 { s with readPartial := false }

/-- uv__stream_io, stream.c:1189-1242 (no connect_req; the POLLOUT|POLLERR|POLLHUP part runs the write
    side, C05's model: it does not touch the read state and its callbacks perform no read ops here) -/
def streamIo (u : User) (s : St) (ev : PollEv) : St :=
  let s := if ev.inn || ev.err || ev.hup then uvRead u s else s      -- 1207-1208
  if !s.fdOpen then s else                                           -- 1210-1211
  let s := if ev.hup && s.reading && s.readPartial && !s.readEof     -- 1219-1225
           then streamEof u s none else s
  s

/-- one epoll event for the stream's descriptor in uv__io_poll, linux.c:1515-1569 -/
def ioPoll (u : User) (s : St) (raw : PollEv) : St :=
  if !(s.pollin || raw.wantOut) then s else      -- loop->watchers[fd] == NULL: pevents == 0
  let e : PollEv := { inn := raw.inn && s.pollin, out := raw.out && raw.wantOut, err := raw.err, hup := raw.hup,
                      wantOut := raw.wantOut }                                                      -- 1536
  let bare := (e.err && !e.hup && !e.inn && !e.out) || (e.hup && !e.err && !e.inn && !e.out)      -- 1553
  let e := if bare then { e with inn := s.pollin, out := raw.wantOut } else e                       -- 1554-1555
  if e.inn || e.out || e.err || e.hup then streamIo u s e else s

inductive Op
  | start | stop | close
  | poll (ev : PollEv) (reads : List Outcome)   -- one uv_run(NOWAIT): epoll result + outcomes of the read calls
  | peerW (bytes : List Byte)
  | peerShut
  deriving Repr

/-- uv__run_closing_handles after the poll phase -/
def runClosing (s : St) : St :=
  if s.closing && !s.closed then emit { s with closed := true } .closeCb else s

def stepOp (u : User) (s : St) : Op → St
  | .start => doOp s .start
  | .stop => doOp s .stop
  | .close => doOp s .close
  | .poll ev reads => runClosing (ioPoll u { s with oracle := reads } ev)
  | .peerW bytes =>
    -- a peer that has shut down cannot write; writing to a stream that closed its end fails (EPIPE)
    if s.peerShut || !s.fdOpen then s else emit { s with kbuf := s.kbuf ++ bytes } (.peerW bytes)
  | .peerShut => emit { s with peerShut := true } .peerShut

def exec (u : User) (s : St) (ops : List Op) : St := ops.foldl (stepOp u) s

def init : St := {}

/-- a freshly opened stream: plain (`ipc = false`) or IPC pipe -/
def start (ipc : Bool) : St := { ipc := ipc }

/-! trace observers used by the property statements -/

/-- bytes handed to read_cb with nread > 0, concatenated in callback order -/
def delivered : List Ev → List Byte
  | [] => []
  | .readCb n _ bytes :: t => (if n > 0 then bytes else []) ++ delivered t
  | _ :: t => delivered t

/-- bytes the peer wrote, in order -/
def sent : List Ev → List Byte
  | [] => []
  | .peerW bytes :: t => bytes ++ sent t
  | _ :: t => sent t

end UvModel.StreamR
