/-! helpers for the line-protocol drivers (no model content here) -/
namespace UvModel.DriverUtil

def words (line : String) : List String :=
  (line.trimAscii.toString.splitOn " ").filter (· ≠ "")

def nat! (s : String) : Nat := s.toNat?.getD 0
def int! (s : String) : Int := s.toInt?.getD 0

/-- stream stdin through a pure step function -/
partial def foldLines {σ : Type} (h : IO.FS.Stream) (out : IO.FS.Stream) (s : σ)
    (step : σ → List String → σ × List String) : IO Unit := do
  let line ← h.getLine
  if line.isEmpty then
    out.flush
    return ()
  let (s', outs) := step s (words line)
  for o in outs do out.putStrLn o
  foldLines h out s' step

def runLines {σ : Type} (init : σ) (step : σ → List String → σ × List String) : IO Unit := do
  let stdin ← IO.getStdin
  let stdout ← IO.getStdout
  foldLines stdin stdout init step

end UvModel.DriverUtil
