/-!
# C10 — executable model of src/unix/udp.c (send path, completion accounting, receive path)

Kernel outcomes are inputs (`SOut` per sendmsg/sendmmsg call, `RItem` socket receive queue);
user callbacks are scripts (`Script`).  Line references are to /repo/src/unix/udp.c unless
stated otherwise.  Kernel contract assumed (Linux): sendmmsg(vlen ≥ 1) returns 1..vlen or -1;
recvmmsg(vlen ≥ 1) returns 1..vlen or -1; errno of a failed call is ≥ 1.
-/
namespace UvModel.Udp

def EINTR : Nat := 4
def EAGAIN : Nat := 11
def ENOBUFS : Nat := 105
def UV_EAGAIN : Int := -11
def UV_ENOMEM : Int := -12
def UV_EINVAL : Int := -22
def UV_EDESTADDRREQ : Int := -89
def UV_ENOBUFS : Int := -105
def UV_EISCONN : Int := -106
def UV_EALREADY : Int := -114
def UV_ECANCELED : Int := -125

/-- one datagram as submitted: `seq` identifies it (payload carries it), `bufs` = buffer lengths in
order, `dest` = 0 for NULL address (connected), 1 = IPv4 peer, 2 = IPv6 peer, ≥ 3 = unsupported family -/
structure Dgram where
  seq : Nat
  bufs : List Nat
  dest : Nat
  deriving DecidableEq, Repr, Inhabited

/-- uv__count_bufs -/
def Dgram.bytes (d : Dgram) : Nat := d.bufs.sum

/-- scripted result of one sendmsg/sendmmsg call: `sent k` = success (sendmmsg: k messages, clamped to
1..vlen; sendmsg: success), `err e` = -1 with errno e (0 is normalised to 1) -/
inductive SOut
  | sent (k : Nat)
  | err (e : Nat)
  deriving DecidableEq, Repr

/-- log entry: one system call on the sending side -/
structure KCall where
  offered : List Dgram
  res : Int          -- > 0: number of datagrams the kernel took; < 0: -errno
  mmsg : Bool
  deriving DecidableEq, Repr

/-- the datagrams the kernel took in this call -/
def KCall.accepted (c : KCall) : List Dgram := c.offered.take c.res.toNat

/-- datagrams handed to the OS, in order -/
def wireOf (log : List KCall) : List Dgram := log.flatMap KCall.accepted

structure KRes where
  r : Int
  outs : List SOut
  log : List KCall
  deriving Repr

def errnoOf (e : Nat) : Nat := if e = 0 then 1 else e

/-- `do r = sendmmsg(fd, m, n, 0) / sendmsg(fd, &h, 0); while (r == -1 && errno == EINTR);`
(1274-1276, 1318-1324).  Result r > 0: messages taken (sendmsg: 1); r < 0: -errno.  An exhausted
outcome script means "the kernel takes everything". -/
def kRetry (m : List Dgram) (mmsg : Bool) : List SOut → KRes
  | [] => ⟨m.length, [], [⟨m, m.length, mmsg⟩]⟩
  | .sent k :: t =>
    let r : Nat := if mmsg then max 1 (min k m.length) else 1
    ⟨r, t, [⟨m, r, mmsg⟩]⟩
  | .err e :: t =>
    if errnoOf e = EINTR then
      let k := kRetry m mmsg t
      ⟨k.r, k.outs, ⟨m, -(EINTR : Int), mmsg⟩ :: k.log⟩
    else ⟨-(errnoOf e : Int), t, [⟨m, -(errnoOf e : Int), mmsg⟩]⟩

/-- `r = UV__ERR(errno); if (errno == EAGAIN || errno == EWOULDBLOCK || errno == ENOBUFS) r = UV_EAGAIN;`
(1279-1281 and 1348-1352), on r = -errno -/
def mapErr (r : Int) : Int := if r = -(EAGAIN : Int) ∨ r = -(ENOBUFS : Int) then UV_EAGAIN else r

/-- uv__udp_prep_pkt (1236-1261): NULL address, AF_INET, AF_INET6 are accepted (AF_UNIX / AF_UNSPEC do not occur
here); any other family → UV_EINVAL -/
def prepOk (d : Dgram) : Bool := d.dest ≤ 2

/-- uv__udp_sendmsg1: prep failure is returned as it is, without a system call -/
def sendmsg1 (d : Dgram) (outs : List SOut) : KRes :=
  if !prepOk d then ⟨UV_EINVAL, outs, []⟩ else
  let k := kRetry [d] false outs
  if k.r < 0 then ⟨mapErr k.r, k.outs, k.log⟩ else ⟨1, k.outs, k.log⟩

/-- inner fill loop (1311-1316): `for (n = 0; i + n < count && n < ARRAY_SIZE(m); n++) m[n] = pkt[i + n]`;
`f` = ARRAY_SIZE(m) - n -/
def fill (all : List Dgram) (i count : Nat) : Nat → Nat → List Dgram
  | _, 0 => []
  | n, f + 1 => if i + n < count then all[i + n]?.getD default :: fill all i count (n + 1) f else []

structure LoopRes where
  r : Int
  nsent : Nat
  outs : List SOut
  log : List KCall
  sys : Bool := false     -- r is the result of a failed system call (C: r == -1, reason in errno)
  deriving Repr

/-- outer loop of the sendmmsg branch: `for (i = 0; i < count; ) { fill (a uv__udp_prep_pkt failure leaves with
that error code: goto exit); sendmmsg; if (r < 1) goto exit; nsent += r; i += r; }`.  Fuel = count suffices because
r ≥ 1 (`mmsgLoop_fuel`). -/
def mmsgLoop (all : List Dgram) (count : Nat) : Nat → Nat → Nat → Int → List SOut → List KCall → LoopRes
  | 0, _, nsent, r, outs, log => ⟨r, nsent, outs, log, false⟩
  | f + 1, i, nsent, r, outs, log =>
    if i < count then
      if (fill all i count 0 20).all prepOk then
        let k := kRetry (fill all i count 0 20) true outs
        if k.r < 1 then ⟨k.r, nsent, k.outs, log ++ k.log, true⟩
        else mmsgLoop all count f (i + k.r.toNat) (nsent + k.r.toNat) k.r k.outs (log ++ k.log)
      else ⟨UV_EINVAL, nsent, outs, log, false⟩
    else ⟨r, nsent, outs, log, false⟩

/-- fallback loop: `for (i = 0; i < count; i++, nsent++) if ((r = uv__udp_sendmsg1(...))) goto exit;`
— sendmsg1 returns 1 on success, so the first iteration always leaves through `goto exit` with nsent = 0.  Its error
is already the mapped errno (a value of -1 = EPERM is recomputed from the same errno at `exit:`, same value). -/
def msgLoop : List Dgram → Nat → Int → List SOut → List KCall → LoopRes
  | [], nsent, r, outs, log => ⟨r, nsent, outs, log, false⟩
  | d :: rest, nsent, _, outs, log =>
    let k := sendmsg1 d outs
    if k.r ≠ 0 then ⟨k.r, nsent, k.outs, log ++ k.log, false⟩
    else msgLoop rest (nsent + 1) k.r k.outs (log ++ k.log)

/-- `exit:` — only a failed system call (r == -1) takes its reason from errno (EAGAIN/ENOBUFS → UV_EAGAIN); an
error code from uv__udp_prep_pkt / uv__udp_sendmsg1 is returned as it is -/
def vExit (r : Int) (nsent : Nat) (sys : Bool) : Int :=
  if nsent > 0 then nsent else if sys then mapErr r else r

structure VRes where
  ret : Int
  outs : List SOut
  log : List KCall
  deriving Repr

/-- uv__udp_sendmsgv (1292-1355) on Linux: count > 1 → sendmmsg branch, else fallback loop -/
def sendmsgv (all : List Dgram) (outs : List SOut) : VRes :=
  let count := all.length
  if count > 1 then
    let l := mmsgLoop all count count 0 0 0 outs []
    ⟨vExit l.r l.nsent l.sys, l.outs, l.log⟩
  else
    let l := msgLoop all 0 0 outs []
    ⟨vExit l.r l.nsent l.sys, l.outs, l.log⟩

/-! ## handle state -/

inductive CbKind | send | recv
  deriving DecidableEq, Repr

/-- user API calls (also what scripted callbacks may do, on their own handle) -/
inductive Op
  | send (bufs : List Nat) (dest : Nat) (enomem : Bool)   -- uv_udp_send; enomem: the bufs allocation fails
  | trySend (bufs : List Nat) (dest : Nat)                -- uv_udp_try_send
  | trySend2 (count : Nat) (bufs : List Nat) (dest : Nat) -- uv_udp_try_send2, `count` datagrams of shape bufs
  | recvStart | recvStop | close
  deriving DecidableEq, Repr

abbrev Script := CbKind → Nat → List Op

def FLAG_PARTIAL : Nat := 2
def FLAG_CHUNK : Nat := 8
def FLAG_FREE : Nat := 16

/-- buffer passed to recv_cb: (alloc index, offset into it, length) -/
structure BufRef where
  a : Nat
  off : Nat
  len : Nat
  deriving DecidableEq, Repr

inductive Ev
  | ret (r : Int)                     -- return value of an API call
  | skipped                           -- API call on a closing handle: not performed (API misuse, not generated)
  | sendCb (seq : Nat) (status : Int)
  | alloc (k : Nat) (len : Nat)
  | recvCb (nread : Int) (buf : Option BufRef) (peer : Nat) (flags : Nat)
  | closeCb
  deriving DecidableEq, Repr

structure H where
  connected : Bool := false
  mmsg : Bool := false                -- UV_HANDLE_UDP_RECVMMSG
  closing : Bool := false
  closed : Bool := false              -- uv__udp_finish_close ran
  fdOpen : Bool := true               -- io_watcher.fd != -1
  processing : Bool := false          -- UV_HANDLE_UDP_PROCESSING
  pollout : Bool := false
  pollin : Bool := false
  recvSet : Bool := false             -- handle->recv_cb != NULL
  fed : Bool := false                 -- watcher is in loop->pending_queue
  active : Bool := false              -- UV_HANDLE_ACTIVE
  wq : List Dgram := []               -- write_queue
  cq : List (Dgram × Int) := []       -- write_completed_queue with req->status
  sqSize : Int := 0
  sqCount : Int := 0
  activeReqs : Int := 0               -- this handle's share of loop->active_reqs.count
  souts : List SOut := []             -- kernel outcomes still to come on this fd
  allocSizes : List Nat := []         -- alloc_cb script: k-th alloc returns allocSizes[k mod length]
  nseq : Nat := 0
  nSendCb : Nat := 0
  nRecvCb : Nat := 0
  nAlloc : Nat := 0
  -- ghost logs
  submitted : List Dgram := []        -- every datagram passed to send / try_send / try_send2, in call order
  accepted : List Dgram := []         -- datagrams of uv_udp_send calls that returned 0
  klog : List KCall := []             -- system calls on the sending side
  cancelled : List Nat := []          -- seqs of the requests still in the write queue at uv__udp_finish_close
  trace : List Ev := []
  deriving Repr

def H.wire (s : H) : List Dgram := wireOf s.klog
def emit (s : H) (e : Ev) : H := { s with trace := s.trace ++ [e] }

/-- send callbacks so far: (seq, status) -/
def H.cbs (s : H) : List (Nat × Int) :=
  s.trace.filterMap fun | .sendCb q st => some (q, st) | _ => none

/-- uv__udp_check_before_send (uv-common.c:456-484): < 0 = error -/
def checkBeforeSend (s : H) (dest : Nat) : Int :=
  if dest ≠ 0 ∧ s.connected then UV_EISCONN
  else if dest = 0 ∧ ¬ s.connected then UV_EDESTADDRREQ
  else if dest > 2 then UV_EINVAL
  else 0

/-- uv__io_feed -/
def feed (s : H) : H := { s with fed := true }

/-- uv__udp_sendmsg from `again:` (1370-1411).  Fuel = length of write_queue suffices: every round that
continues moved ≥ 1 request. -/
def sendmsgAgain : Nat → H → H
  | 0, s => s
  | f + 1, s =>
    let v := sendmsgv (s.wq.take 20) s.souts
    let s := { s with souts := v.outs, klog := s.klog ++ v.log }
    if v.ret ≥ 0 then
      let n := v.ret.toNat
      let s := { s with cq := s.cq ++ (s.wq.take n).map (fun d => (d, (d.bytes : Int))), wq := s.wq.drop n }
      if s.wq.isEmpty then feed s else sendmsgAgain f s
    else if v.ret = UV_EAGAIN then s
    else
      match s.wq with
      | [] => s
      | d :: rest => feed { s with cq := s.cq ++ [(d, v.ret)], wq := rest }

/-- uv__udp_sendmsg (1358-1412) -/
def uvSendmsg (s : H) : H :=
  if s.wq.isEmpty then s else sendmsgAgain s.wq.length s

/-- uv__udp_send (565-628) after the entry checks -/
def udpSend (s : H) (d : Dgram) (enomem : Bool) : H × Int :=
  let emptyQueue := s.sqCount == 0
  let s := { s with activeReqs := s.activeReqs + 1 }                     -- uv__req_init
  if d.bufs.length > 4 ∧ enomem then
    ({ s with activeReqs := s.activeReqs - 1 }, UV_ENOMEM)               -- uv__req_unregister
  else
    let s := { s with sqSize := s.sqSize + d.bytes, sqCount := s.sqCount + 1,
                      wq := s.wq ++ [d], active := true, accepted := s.accepted ++ [d] }
    if emptyQueue && !s.processing then
      let s := uvSendmsg s
      (if !s.wq.isEmpty then { s with pollout := true } else s, 0)
    else ({ s with pollout := true }, 0)

def mkDgrams (seq0 count : Nat) (bufs : List Nat) (dest : Nat) : List Dgram :=
  (List.range count).map fun i => ⟨seq0 + i, bufs, dest⟩

/-- one API call (uv-common.c:487-533, udp.c:631-658, 1198-1233, 1415-1427, 56-64).  Calls on a closing
handle are not performed. -/
def applyOp (s : H) (op : Op) : H :=
  if s.closing then emit s .skipped else
  match op with
  | .send bufs dest enomem =>
    let d : Dgram := ⟨s.nseq, bufs, dest⟩
    let s := { s with nseq := s.nseq + 1, submitted := s.submitted ++ [d] }
    let c := checkBeforeSend s dest
    if c < 0 then emit s (.ret c) else
    let (s, r) := udpSend s d enomem
    emit s (.ret r)
  | .trySend bufs dest =>
    let d : Dgram := ⟨s.nseq, bufs, dest⟩
    let s := { s with nseq := s.nseq + 1, submitted := s.submitted ++ [d] }
    let c := checkBeforeSend s dest
    if c < 0 then emit s (.ret c)
    else if bufs.length < 1 then emit s (.ret UV_EINVAL)
    else if s.sqCount ≠ 0 then emit s (.ret UV_EAGAIN)
    else
      let k := sendmsg1 d s.souts
      let s := { s with souts := k.outs, klog := s.klog ++ k.log }
      emit s (.ret (if k.r > 0 then (d.bytes : Int) else k.r))
  | .trySend2 count bufs dest =>
    let ds := mkDgrams s.nseq count bufs dest
    let s := { s with nseq := s.nseq + count, submitted := s.submitted ++ ds }
    if count < 1 then emit s (.ret UV_EINVAL)
    else if s.sqCount > 0 then emit s (.ret UV_EAGAIN)
    else if !s.fdOpen then emit s (.ret UV_EINVAL)
    else
      let v := sendmsgv ds s.souts
      let s := { s with souts := v.outs, klog := s.klog ++ v.log }
      emit s (.ret v.ret)
  | .recvStart =>
    if s.pollin then emit s (.ret UV_EALREADY)
    else emit { s with recvSet := true, pollin := true, active := true } (.ret 0)
  | .recvStop =>
    emit { s with pollin := false, recvSet := false, active := if !s.pollout then false else s.active } (.ret 0)
  | .close =>
    { s with closing := true, pollin := false, pollout := false, fed := false, active := false, fdOpen := false }

def applyOps (s : H) (ops : List Op) : H := ops.foldl applyOp s

/-- the `while` of uv__udp_run_completed (102-126) -/
def runCompletedLoop (sc : Script) : Nat → H → H
  | 0, s => s
  | f + 1, s =>
    match s.cq with
    | [] => s
    | (d, st) :: rest =>
      let s := { s with cq := rest, activeReqs := s.activeReqs - 1,
                        sqSize := s.sqSize - d.bytes, sqCount := s.sqCount - 1 }
      let k := s.nSendCb
      let s := emit { s with nSendCb := k + 1 } (.sendCb d.seq (if st ≥ 0 then 0 else st))
      runCompletedLoop sc f (applyOps s (sc .send k))

/-- uv__udp_run_completed (95-136).  Fuel: callbacks run under PROCESSING cannot add to the completed queue. -/
def runCompleted (sc : Script) (s : H) : H :=
  let s := { s with processing := true }
  let s := runCompletedLoop sc s.cq.length s
  let s := if s.wq.isEmpty then { s with pollout := false, active := if !s.pollin then false else s.active } else s
  { s with processing := false }

/-- uv__udp_io with POLLOUT (148-151) -/
def ioOut (sc : Script) (s : H) : H :=
  if !s.closing then runCompleted sc (uvSendmsg s) else s

/-- uv__udp_finish_close (67-92) -/
def finishClose (sc : Script) (s : H) : H :=
  if !s.closing ∨ s.closed then s else
  let s := { s with cq := s.cq ++ s.wq.map (fun d => (d, UV_ECANCELED)), wq := [],
                    cancelled := s.cancelled ++ s.wq.map (·.seq) }
  let s := runCompleted sc s
  emit { s with recvSet := false, closed := true } .closeCb

/-! ## receive path (generic in the user state σ) -/

/-- datagram as the kernel reports it -/
structure RDg where
  len : Nat
  trunc : Bool
  peer : Nat
  deriving DecidableEq, Repr

/-- socket receive queue: datagrams, pending errors (errno), batch boundaries (recvmmsg returns early) -/
inductive RItem
  | dg (d : RDg)
  | err (e : Nat)
  | brk
  deriving DecidableEq, Repr

inductive KRecv
  | ok (ds : List RDg)
  | err (e : Nat)
  deriving Repr

/-- recvmsg with the EINTR retry (265-268) -/
def kRecvmsg : List RItem → KRecv × List RItem
  | [] => (.err EAGAIN, [])
  | .brk :: t => kRecvmsg t
  | .err e :: t => if errnoOf e = EINTR then kRecvmsg t else (.err (errnoOf e), t)
  | .dg d :: t => (.ok [d], t)

def takeDgs : Nat → List RItem → List RDg × List RItem
  | n + 1, .dg d :: t => let r := takeDgs n t; (d :: r.1, r.2)
  | _, q => ([], q)

/-- recvmmsg(fd, msgs, vlen, 0, NULL) with the EINTR retry (188-190); vlen = 0 returns 0 -/
def kRecvmmsg (vlen : Nat) : List RItem → KRecv × List RItem
  | [] => if vlen = 0 then (.ok [], []) else (.err EAGAIN, [])
  | .brk :: t => kRecvmmsg vlen t
  | .err e :: t => if vlen = 0 then (.ok [], .err e :: t) else
                   if errnoOf e = EINTR then kRecvmmsg vlen t else (.err (errnoOf e), t)
  | .dg d :: t => (.ok (takeDgs vlen (.dg d :: t)).1, (takeDgs vlen (.dg d :: t)).2)

structure CbArgs where
  nread : Int
  buf : Option BufRef
  peer : Nat            -- 0 = NULL addr
  flags : Nat
  deriving DecidableEq, Repr

inductive REv
  | alloc (len : Nat)
  | cb (a : CbArgs)
  deriving DecidableEq, Repr

structure RecvUser (σ : Type) where
  alloc : σ → σ × Nat           -- alloc_cb: resulting buf.len; 0 = no buffer (base NULL or len 0)
  cb : σ → CbArgs → σ           -- recv_cb
  recvSet : σ → Bool            -- handle->recv_cb != NULL
  fdOpen : σ → Bool             -- handle->io_watcher.fd != -1
  mmsg : σ → Bool               -- uv_udp_using_recvmmsg

def DGRAM_MAX : Nat := 65536

structure RRes (σ : Type) where
  s : σ
  q : List RItem
  evs : List REv
  spun : Bool := false          -- the iteration budget of the model ran out (never, `recv_progress`)

/-- chunk loop of uv__udp_recvmmsg (200-211): `for (k = 0; k < nread && handle->recv_cb != NULL; k++)` -/
def chunkLoop {σ} (u : RecvUser σ) (a : Nat) : List RDg → Nat → σ → List REv → σ × List REv
  | [], _, s, evs => (s, evs)
  | d :: ds, k, s, evs =>
    if u.recvSet s then
      let args : CbArgs := ⟨min d.len DGRAM_MAX, some ⟨a, k * DGRAM_MAX, DGRAM_MAX⟩, d.peer,
                            FLAG_CHUNK + (if d.trunc then FLAG_PARTIAL else 0)⟩
      chunkLoop u a ds (k + 1) (u.cb s args) (evs ++ [.cb args])
    else (s, evs)

structure MRes (σ : Type) where
  s : σ
  q : List RItem
  evs : List REv
  nread : Int

/-- uv__udp_recvmmsg (154-226) after the recvmmsg call: returns nread (-1 on error) -/
def recvmmsgK {σ} (u : RecvUser σ) (a len : Nat) (s : σ) : KRecv × List RItem → MRes σ
  | (.err e, q') =>
    let args : CbArgs := ⟨if e = EAGAIN then 0 else -(e : Int), some ⟨a, 0, len⟩, 0, 0⟩
    ⟨u.cb s args, q', [.cb args], -1⟩
  | (.ok [], q') =>
    let args : CbArgs := ⟨0, some ⟨a, 0, len⟩, 0, 0⟩
    ⟨u.cb s args, q', [.cb args], 0⟩
  | (.ok (d :: ds), q') =>
    let cl := chunkLoop u a (d :: ds) 0 s []
    -- the final callback goes through the recv_cb saved on entry (161-172, 215-218): also after a stop
    let args : CbArgs := ⟨0, some ⟨a, 0, len⟩, 0, FLAG_FREE⟩
    ⟨u.cb cl.1 args, q', cl.2 ++ [.cb args], (d :: ds).length⟩

/-- uv__udp_recvmmsg (154-221): `chunks = buf->len / UV__UDP_DGRAM_MAXSIZE`, capped at 20 -/
def recvmmsg {σ} (u : RecvUser σ) (a len : Nat) (s : σ) (q : List RItem) : MRes σ :=
  recvmmsgK u a len s (kRecvmmsg (min (len / DGRAM_MAX) 20) q)

def KRecv.isErr : KRecv → Bool
  | .err _ => true
  | .ok _ => false

/-- arguments of the recv_cb call after a plain recvmsg (270-282) -/
def plainArgs (buf : BufRef) : KRecv → CbArgs
  | .err e => ⟨if e = EAGAIN then 0 else -(e : Int), some buf, 0, 0⟩
  | .ok ds =>
    let d := ds.headD ⟨0, false, 0⟩
    ⟨min d.len buf.len, some buf, d.peer, if d.trunc then FLAG_PARTIAL else 0⟩

/-- `if (nread > 0) count -= nread;` (253-254) -/
def mmsgCount (count nread : Int) : Int := if nread > 0 then count - nread else count

/-- the do/while of uv__udp_recvmsg (237-289); `a` = number of alloc_cb calls so far in this invocation;
fuel bounds the iterations (32 suffice, `recv_progress`) -/
def recvLoop {σ} (u : RecvUser σ) : Nat → Nat → Int → σ → List RItem → List REv → RRes σ
  | 0, _, _, s, q, evs => ⟨s, q, evs, true⟩
  | f + 1, a, count, s, q, evs =>
    let al := u.alloc s
    let evs := evs ++ [.alloc al.2]
    if al.2 = 0 then
      let args : CbArgs := ⟨UV_ENOBUFS, none, 0, 0⟩
      ⟨u.cb al.1 args, q, evs ++ [.cb args], false⟩
    else if u.mmsg al.1 ∧ al.2 ≥ DGRAM_MAX then
      let m := recvmmsg u a al.2 al.1 q
      let count := mmsgCount count m.nread
      if m.nread ≠ -1 ∧ count > 0 ∧ u.fdOpen m.s ∧ u.recvSet m.s then
        recvLoop u f (a + 1) count m.s m.q (evs ++ m.evs)
      else ⟨m.s, m.q, evs ++ m.evs, false⟩
    else
      let kr := kRecvmsg q
      let args := plainArgs ⟨a, 0, al.2⟩ kr.1
      let s := u.cb al.1 args
      if kr.1.isErr then ⟨s, kr.2, evs ++ [.cb args], false⟩        -- nread == -1 leaves the loop
      else if count - 1 > 0 ∧ u.fdOpen s ∧ u.recvSet s then
        recvLoop u f (a + 1) (count - 1) s kr.2 (evs ++ [.cb args])
      else ⟨s, kr.2, evs ++ [.cb args], false⟩

/-- uv__udp_recvmsg (223-290) -/
def recvmsg {σ} (u : RecvUser σ) (s : σ) (q : List RItem) : RRes σ :=
  recvLoop u 32 0 32 s q []

/-! ## the handle as receive user -/

def allocSize (s : H) (k : Nat) : Nat := s.allocSizes.getD (k % s.allocSizes.length) 0

def hUser (sc : Script) : RecvUser H where
  alloc s :=
    let k := s.nAlloc
    let len := allocSize s k
    (emit { s with nAlloc := k + 1 } (.alloc k len), len)
  cb s a :=
    let k := s.nRecvCb
    let s := emit { s with nRecvCb := k + 1 }
      (.recvCb a.nread (a.buf.map fun b => { b with a := s.nAlloc - 1 }) a.peer a.flags)
    applyOps s (sc .recv k)
  recvSet s := s.recvSet
  fdOpen s := s.fdOpen
  mmsg s := s.mmsg

/-- uv__udp_io with POLLIN (145-146) -/
def ioIn (sc : Script) (s : H) (q : List RItem) : H × List RItem × Bool :=
  if s.recvSet then
    let r := recvmsg (hUser sc) s q
    (r.s, r.q, r.spun)
  else (s, q, false)

/-- one `uv_run(loop, UV_RUN_NOWAIT)` as far as this handle is concerned (core.c uv_run): pending
watchers, poll (fd readable and writable; events = those armed when the poll starts, POLLIN first),
up to 8 more pending rounds, closing handles -/
def pendingRounds (sc : Script) : Nat → H → H
  | 0, s => s
  | n + 1, s => if s.fed then pendingRounds sc n (ioOut sc { s with fed := false }) else s

def uvRun (sc : Script) (s : H) (q : List RItem) : H × List RItem × Bool :=
  let s := pendingRounds sc 1 s
  let pin := s.pollin
  let pout := s.pollout
  let (s, q, spun) := if pin then ioIn sc s q else (s, q, false)
  let s := if pout then ioOut sc s else s
  let s := pendingRounds sc 8 s
  (finishClose sc s, q, spun)

end UvModel.Udp
