/-!
# C16 — adoption of a descriptor by a TCP handle that remembers options: executable model

`uv_tcp_nodelay(h, 1)` / `uv_tcp_keepalive(h, 1, d)` on a handle without a socket only set a flag
(src/unix/tcp.c:580-615).  The options are applied by `uv__stream_open` (src/unix/stream.c:403-436) when the
handle is given a descriptor: `uv_accept` (stream.c:536-560; from a TCP listener or over an IPC pipe),
`uv_tcp_open` (tcp.c:351-365), lazy socket creation `new_socket` (tcp.c:64-82) under `uv_tcp_bind`,
`uv_listen`, `uv_tcp_connect`.  Each option is a `setsockopt`, which the kernel may refuse with
ENOBUFS / ENOMEM; these answers are inputs (`Fault`).  State: the process's descriptor table and the number
the handle claims (`io_watcher.fd`).  Descriptor numbers are reused by the kernel, so a claimed number that is
not open is a descriptor of somebody else as soon as anything is opened.
-/
namespace UvModel.Adopt

inductive Path where
  | accept | ipc | open_ | bind | listen | connect
  deriving DecidableEq, Repr

/-- the `setsockopt` calls `uv__stream_open` issues for a TCP handle, in source order (stream.c:414-423:
`uv__tcp_nodelay` tcp.c:454-458, then `uv__tcp_keepalive` tcp.c:469-536 on Linux) -/
def optCalls (nodelay keepalive : Bool) : List String :=
  (if nodelay then ["TCP_NODELAY"] else []) ++
  (if keepalive then ["SO_KEEPALIVE", "TCP_KEEPIDLE", "TCP_KEEPINTVL", "TCP_KEEPCNT"] else [])

/-- all `setsockopt` calls of the adopting API call: `uv__tcp_bind` adds SO_REUSEADDR (tcp.c:167) after the socket exists -/
def sockoptCalls (p : Path) (nodelay keepalive : Bool) : List String :=
  optCalls nodelay keepalive ++ (if p = .bind then ["SO_REUSEADDR"] else [])

/-- open descriptor numbers of the process; what the handle claims (`none` = -1) -/
structure W where
  open_ : List Nat
  hfd : Option Nat
  deriving DecidableEq, Repr

/-- `some (k, e)`: the k-th `setsockopt` of the call (0-based) fails with errno `e` -/
abbrev Fault := Option (Nat × Nat)

/-- result of `uv__stream_open`: claimed descriptor, return code, the fault oracle for the calls that follow -/
abbrev SO := Bool → Bool → Nat → Fault → Option Nat × Int × Fault

/-- `uv__stream_open` on a handle without a socket (stream.c:403-436): the remembered options are applied to `fd`;
only when all of them succeeded is `io_watcher.fd` assigned. -/
def streamOpen : SO := fun nd ka fd f =>
  match f with
  | some (k, e) =>
    if k < (optCalls nd ka).length then (none, -(e : Int), none)
    else (some fd, 0, some (k - (optCalls nd ka).length, e))
  | none => (some fd, 0, none)

/-- the same with the assignment moved in front of the option calls (seeded change C16-14) -/
def streamOpenEarly : SO := fun nd ka fd f =>
  match f with
  | some (k, e) =>
    if k < (optCalls nd ka).length then (some fd, -(e : Int), none)
    else (some fd, 0, some (k - (optCalls nd ka).length, e))
  | none => (some fd, 0, none)

def without (l : List Nat) (fd : Nat) : List Nat := l.filter (· != fd)

/-- the adopting API call.  `fd`: for accept / ipc / open_ the (open) descriptor being adopted; for the lazy paths the
number `socket()` returns (not open before). -/
def adopt (so : SO) (p : Path) (nd ka : Bool) (w : W) (fd : Nat) (f : Fault) : W × Int :=
  let r := so nd ka fd f
  match p with
  | .accept | .ipc =>          -- uv_accept: on error `uv__close(server->accepted_fd)` (stream.c:550-553)
    if r.2.1 = 0 then ({ w with hfd := r.1 }, 0) else ({ open_ := without w.open_ fd, hfd := r.1 }, r.2.1)
  | .open_ =>                  -- uv_tcp_open: the caller keeps the socket on error
    ({ w with hfd := r.1 }, r.2.1)
  | .listen | .connect =>      -- new_socket: socket(), uv__stream_open, on error `uv__close(sockfd)` (tcp.c:72-76)
    if r.2.1 = 0 then ({ open_ := fd :: w.open_, hfd := r.1 }, 0) else ({ w with hfd := r.1 }, r.2.1)
  | .bind =>                   -- new_socket, then SO_REUSEADDR: its failure returns the code, the socket stays with the handle
    if r.2.1 = 0 then
      match r.2.2 with
      | some (0, e) => ({ open_ := fd :: w.open_, hfd := r.1 }, -(e : Int))
      | _ => ({ open_ := fd :: w.open_, hfd := r.1 }, 0)
    else ({ w with hfd := r.1 }, r.2.1)

/-- what the caller does after the call returned `rc`: after a failed `uv_tcp_open` it closes its socket -/
def callerCleanup (p : Path) (rc : Int) (w : W) (fd : Nat) : W :=
  if p = .open_ ∧ rc ≠ 0 then { w with open_ := without w.open_ fd } else w

/-- the application opens a descriptor and gets number `x` -/
def appOpens (w : W) (x : Nat) : W := { w with open_ := x :: w.open_ }

/-- `uv_close` of the handle: `uv__stream_close` closes the claimed number (stream.c:1620-1626) -/
def closeHandle (w : W) : W :=
  match w.hfd with
  | some g => { open_ := without w.open_ g, hfd := none }
  | none => w

/-- precondition on `fd` for a path -/
def Pre (p : Path) (w : W) (fd : Nat) : Prop :=
  w.hfd = none ∧ (if p = .accept ∨ p = .ipc ∨ p = .open_ then fd ∈ w.open_ else fd ∉ w.open_)

/-- the whole episode: adopt, caller cleanup, the application opens `x`, the handle is closed -/
def episode (so : SO) (p : Path) (nd ka : Bool) (w : W) (fd : Nat) (f : Fault) (x : Nat) : W × Int :=
  let r := adopt so p nd ka w fd f
  (closeHandle (appOpens (callerCleanup p r.2 r.1 fd) x), r.2)

end UvModel.Adopt
