import UvModel.DriverUtil
import UvModel.FdOps
/-! line-protocol driver for C15: `uvdriver fdledger` reads the same program as harness/c15_sim.c
    (ops + `fail <syscall> <occurrence> <errno>` lines) and prints the model's env/ret/cb/own lines. -/
namespace Drivers.C15
open UvModel.DriverUtil UvModel.FdLedger

def hid? (s : String) : Option Nat := if s.startsWith "h" then (s.drop 1).toNat? else none
def fid? (s : String) : Option Nat := if s.startsWith "f" then (s.drop 1).toNat? else none

def hkind? : String → Option HKind
  | "tcp" => some .tcp | "udp" => some .udp | "unix" => some .pipe | _ => none

def container? (s : String) : Option Cont :=
  if s = "i" || s = "-" then some .ignore
  else if s.startsWith "s" then ((s.drop 1).toNat?).map .stream
  else match hid? s, fid? s with
    | some h, _ => some (.pipe h)
    | _, some f => some (.fd f)
    | _, _ => none

def parseOp : List String → Option Op
  | ["loop_init"] => some .loopInit
  | ["loop_close"] => some .loopClose
  | ["tcp_init", af] => if af = "inet" || af = "inet6" then some (.tcpInit true) else if af = "unspec" then some (.tcpInit false) else none
  | ["pipe_init", n] => n.toNat?.map (fun k => .pipeInit (k != 0))
  | ["udp_init", af] => if af = "inet" then some (.udpInit true) else if af = "unspec" then some (.udpInit false) else none
  | ["tty_init", f] => (fid? f).map .ttyInit
  | ["poll_init", f] => (fid? f).map .pollInit
  | ["async_init"] => some .asyncInit
  | ["signal_start", _] => some .signalStart
  | ["fs_event_start", v] => if v = "ok" then some (.fsEventStart true) else if v = "bad" then some (.fsEventStart false) else none
  | ["ufd", k] => some (.ufd k none)
  | ["ufd", k, at_] => if at_.startsWith "at=" then (at_.drop 3).toNat?.map (fun n => .ufd k (some n)) else none
  | ["uclose", f] => (fid? f).map .uclose
  | ["open", h, f] => do some (.open_ (← hid? h) (← fid? f))
  | ["bind", h, v] => do some (.bind (← hid? h) v 0)
  | ["bind", h, v, o] => do some (.bind (← hid? h) v (← hid? o))
  | ["listen", h] => (hid? h).map .listen
  | ["policy", h, p] => do some (.policy (← hid? h) (if p = "accept" then 1 else 0))
  | ["read_start", h] => (hid? h).map .readStart
  | ["connect", h, t] => do some (.connect (← hid? h) (hid? t))
  | ["accept", s, c] => do some (.accept (← hid? s) (← hid? c))
  | ["close", h] => (hid? h).map .close
  | ["run"] => some .run
  | ["uv_pipe", _, _] => some .uvPipe
  | ["uv_socketpair", _, _] => some .uvSocketpair
  | ["fs_open", v] => some (.fsOpen v)
  | ["fs_mkstemp"] => some .fsMkstemp
  | ["fs_close", f] => (fid? f).map .fsClose
  | ["fs_copyfile", v] => some (.fsCopyfile v)
  | ["fs_copyfile", v, "async"] => some (.fsCopyfile v)
  | ["fs_open", v, "async"] => some (.fsOpen v)
  | ["nodelay", h] => (hid? h).map (fun x => .sockopt x false)
  | ["keepalive", h] => (hid? h).map (fun x => .sockopt x true)
  | ["flood", h, n] => do some (.flood (← hid? h) (← n.toNat?))
  | ["util", u] => if ["cpu_info", "exepath", "memory", "uptime", "ifaddrs", "random", "passwd", "scandir", "readdir", "stat",
                       "realpath", "mkdtemp"].contains u then some .util else none
  | "ipc_send" :: f :: h :: kinds => do
      let ks ← kinds.mapM hkind?
      some (.ipcSend (← fid? f) (← hid? h) ks)
  | ["spawn", prog, c0, c2, c3] => do
      let a ← container? c0
      let b ← container? c2
      let c ← container? c3
      let ok ← if prog = "ok" then some true else if prog = "missing" then some false else none
      some (.spawn ok ([a, .ignore, b] ++ (if c3 = "-" then [] else [c])))
  | ["fork"] => some .fork
  | ["end"] => some .end_
  | _ => none

structure DS where
  s : St := {}
  inj : Inj := []

def stepLine (d : DS) (ws : List String) : DS × List String :=
  match ws with
  | [] => (d, [])
  | "fail" :: name :: k :: e :: [] => ({ d with inj := d.inj ++ [(name, nat! k, nat! e)] }, [])
  | w :: _ =>
    if w.startsWith "#" then (d, []) else
    let hdr := "op " ++ " ".intercalate ws
    match parseOp ws with
    | none => ({ d with inj := [] }, [hdr, "bad-op", ownLine d.s])
    | some op =>
      let s0 : St := d.s.clearOut
      let s1 := step s0 d.inj op
      let lines := s1.l.1.out.reverse
      let quiet := match op with | .policy _ _ => !lines.contains "bad-op" | _ => false
      ({ s := s1, inj := [] }, if quiet then [hdr] else [hdr] ++ lines ++ [ownLine s1])

/-- generator support: after every op also print the control state of every handle -/
def hsLine (s : St) : String :=
  "hs" ++ String.join ((List.range s.hs.length).map (fun i =>
    match s.hs[i]? with
    | none => ""
    | some h =>
      let k := match h.kind with
        | .tcp => "tcp" | .pipe => "pipe" | .udp => "udp" | .tty => "tty" | .poll => "poll" | .async => "async"
        | .signal => "signal" | .fsev => "fsev" | .proc => "proc"
      let st := match h.st with | .dead => "dead" | .live => "live" | .closing => "closing" | .closed => "closed"
      let b (x : Bool) : String := if x then "1" else "0"
      s!" {k},{st},{b h.listening},{b h.bound},{b h.ipc},{b h.readable},{b h.connected},{h.pending},{b h.delayed},{b h.reading},{h.inflight.length},{b (h.nodelay || h.keepalive)}"))
    ++ s!" | loop={if s.loopOk then 1 else 0}"

def stepLineGen (d : DS) (ws : List String) : DS × List String :=
  let (d', out) := stepLine d ws
  (d', if out.isEmpty then [] else out ++ [hsLine d'.s])

def modes : List (String × IO Unit) :=
  [("fdledger", runLines ({} : DS) stepLine), ("fdledger-gen", runLines ({} : DS) stepLineGen)]

end Drivers.C15
