import UvModel.DriverUtil
import UvModel.Signal
/-! line-protocol driver for C13 (signals); other side: harness/c13_sim.c -/
namespace Drivers.C13
open UvModel.DriverUtil UvModel.Signal

structure DS where
  s : S := init (fun _ => 0)
  nl : Nat := 0
  nh : Nat := 0
  script : List (Nat × List Op) := []

def sigs : List Nat := [1, 10, 12, 28]

def parseOp (w : String) : Option Op :=
  match w.splitOn ":" with
  | ["start", h, sig] => some (.start (nat! h) (nat! sig) 0)
  | ["start", h, sig, c] => some (.start (nat! h) (nat! sig) (nat! c))
  | ["oneshot", h, sig] => some (.oneshot (nat! h) (nat! sig) 0)
  | ["oneshot", h, sig, c] => some (.oneshot (nat! h) (nat! sig) (nat! c))
  | ["stop", h] => some (.stop (nat! h))
  | ["stop", h, _] => some (.stop (nat! h))
  | ["close", h] => some (.close (nat! h))
  | ["close", h, _] => some (.close (nat! h))
  | ["ref", h] => some (.ref (nat! h))
  | ["ref", h, _] => some (.ref (nat! h))
  | ["unref", h] => some (.unref (nat! h))
  | ["unref", h, _] => some (.unref (nat! h))
  | _ => none

def obs (d : DS) : List String :=
  let sa := String.join (sigs.map fun g =>
    match d.s.disp g with
    | .dflt => s!" {g}=dfl"
    | .uv true => s!" {g}=uv/reset"
    | .uv false => s!" {g}=uv")
  let hl := String.join ((List.range d.nh).map fun i =>
    let h := d.s.hs i
    if h.closed then s!" {i}:x"
    else s!" {i}:{if h.signum ≠ 0 then 1 else 0}{if h.closing then "c" else ""}:{h.signum}:{h.caught}:{h.dispatched}:{if h.ref then "r" else "u"}")
  ["obs sigaction" ++ sa, "obs handles" ++ hl]

def hid? (d : DS) (w : String) : Option Nat :=
  if w.startsWith "h" then
    match (w.drop 1).toNat? with
    | some i => if i < d.nh then some i else none
    | none => none
  else none

/-- callbacks of one run in chronological order; every signal callback says which user callback ran -/
def showTrace : List Cb → List Nat → List String
  | [], _ => []
  | .signal h sig _ _ _ :: t, c :: cs => s!"cb signal h{h} {sig} c{c}" :: showTrace t cs
  | .signal h sig _ _ _ :: t, [] => s!"cb signal h{h} {sig} c?" :: showTrace t []
  | .close h :: t, cs => s!"cb close h{h}" :: showTrace t cs

def showS (s : S) : List String := showTrace s.trace.reverse s.cbLog.reverse

def showCb : Cb → String
  | .signal h sig _ _ _ => s!"cb signal h{h} {sig}"
  | .close h => s!"cb close h{h}"

def doOp (d : DS) (o : Op) : DS × List String :=
  let r := applyOp d.s o
  let d := { d with s := r.1 }
  (d, [match r.2 with | some rc => s!"ret {rc}" | none => "ret skip"] ++ obs d)

/-- rebuild the function-valued fields from tables (the model updates them by wrapping closures; after
thousands of deliveries every lookup would walk the whole history).  Extensionally the identity on the
handles / loops / signals the protocol can name. -/
def compact (d : DS) : DS :=
  let s := d.s
  let hsA := (Array.range d.nh).map s.hs
  let pA := (Array.range d.nl).map s.pipes
  let qA := (Array.range d.nl).map s.closingQ
  let dA := (Array.range 65).map s.disp
  let dlA := (Array.range 65).map s.delivered
  { d with s := { s with hs := fun i => hsA.getD i (s.hs i), pipes := fun L => pA.getD L [],
                         closingQ := fun L => qA.getD L [], disp := fun g => dA.getD g .dflt,
                         delivered := fun g => dlA.getD g false } }

/-- `burst sig n`: n guarded raises in a row; returns how many were really raised -/
def burstN (g : Nat) : Nat → DS → Nat → DS × Nat
  | 0, d, k => (d, k)
  | n + 1, d, k =>
    match d.s.disp g with
    | .dflt => (d, k)
    | _ => burstN g n (compact { d with s := deliver d.s g }) (k + 1)

def sigStep0 (d : DS) : List String → DS × List String
  | "init" :: nl :: ls =>
    let nl' := nat! nl
    if d.nl ≠ 0 || nl' < 1 || nl' > 8 || ls.length > 32 || ls.any (fun l => l.toNat?.isNone || nat! l ≥ nl') then (d, ["bad-op"]) else
    let lo := ls.map nat!
    let d := { d with s := init (fun i => lo.getD i 0), nl := nl', nh := ls.length }
    (d, obs d)
  | "script" :: k :: ops => ({ d with script := (nat! k, ops.filterMap parseOp) :: d.script }, [])
  | ["raise", g] =>
    if !sigs.contains (nat! g) then (d, ["bad-op"]) else
    match d.s.disp (nat! g) with
    | .dflt => (d, ["raise skipped-default"] ++ obs d)
    | _ => let d := { d with s := deliver d.s (nat! g) }; (d, ["raised"] ++ obs d)
  | ["nestraise", a, b] =>
    if !sigs.contains (nat! a) || !sigs.contains (nat! b) || nat! a = nat! b then (d, ["bad-op"]) else
    match d.s.disp (nat! a), d.s.disp (nat! b) with
    | .dflt, _ => (d, ["raise skipped-default"] ++ obs d)
    | _, .dflt => (d, ["raise skipped-default"] ++ obs d)
    | _, _ =>
      -- B stays pending while A's handler runs with all signals blocked, and is handled right after it
      let d := { d with s := deliver (deliver d.s (nat! a)) (nat! b) }
      (d, ["raised 2"] ++ obs d)
  | ["burst", g, n] =>
    if !sigs.contains (nat! g) || n.toNat?.isNone then (d, ["bad-op"]) else
    let (d, k) := burstN (nat! g) (nat! n) d 0
    (d, [s!"raised {k}"] ++ obs d)
  | ["run", l] =>
    if l.toNat?.isNone || nat! l ≥ d.nl then (d, ["bad-op"]) else
    let sc : Script := fun k => ((d.script.find? (·.1 = k)).map (·.2)).getD []
    let s := runLoop sc { d.s with trace := [], cbLog := [] } (nat! l)
    let d := { d with s := s }
    (d, showS s ++ [s!"ran {nat! l}"] ++ obs d)
  | "runraise" :: l :: g :: cops =>
    if l.toNat?.isNone || nat! l ≥ d.nl || !sigs.contains (nat! g) then (d, ["bad-op"]) else
    let sc : Script := fun k => ((d.script.find? (·.1 = k)).map (·.2)).getD []
    -- the check handle keeps the loop alive: poll phase, check phase (raise), closing phase
    let s1 := dispatch sc { d.s with trace := [], cbLog := [] } (nat! l)
    let (s2, r) := match s1.disp (nat! g) with
      | .dflt => (s1, "raise skipped-default")
      | _ => (deliver s1 (nat! g), "raised")
    let s3 := runClosing { runOps s2 (cops.filterMap parseOp) with trace := [], cbLog := [] } (nat! l)
    let d := { d with s := s3 }
    (d, showS s1 ++ ["check"] ++ obs { d with s := s1 } ++ [r] ++ showS s3 ++ [s!"ran {nat! l}"] ++ obs d)
  | ["start", h, g] => match hid? d h with
    | some i => doOp d (.start i (nat! g) 0)
    | none => (d, ["bad-op"])
  | ["start", h, g, c] => match hid? d h with
    | some i => doOp d (.start i (nat! g) (nat! c))
    | none => (d, ["bad-op"])
  | ["oneshot", h, g] => match hid? d h with
    | some i => doOp d (.oneshot i (nat! g) 0)
    | none => (d, ["bad-op"])
  | ["oneshot", h, g, c] => match hid? d h with
    | some i => doOp d (.oneshot i (nat! g) (nat! c))
    | none => (d, ["bad-op"])
  | ["stop", h] => match hid? d h with
    | some i => doOp d (.stop i)
    | none => (d, ["bad-op"])
  | ["close", h] => match hid? d h with
    | some i => doOp d (.close i)
    | none => (d, ["bad-op"])
  | ["ref", h] => match hid? d h with
    | some i => doOp d (.ref i)
    | none => (d, ["bad-op"])
  | ["unref", h] => match hid? d h with
    | some i => doOp d (.unref i)
    | none => (d, ["bad-op"])
  | [] => (d, [])
  | _ => (d, ["bad-op"])

def sigStep (d : DS) (ws : List String) : DS × List String :=
  let r := sigStep0 d ws
  (compact r.1, r.2)

/-- (mode name, action).  `uvdriver <mode>` runs the action (normally `runLines init step`). -/
def modes : List (String × IO Unit) := [("signal", runLines ({} : DS) sigStep)]

end Drivers.C13
