import UvModel.DriverUtil
import UvModel.ThreadArith
/-! line-protocol driver for C20 (mode `threads`); the other side is harness/c20_threads.c -/
namespace Drivers.C20
open UvModel.DriverUtil UvModel.ThreadArith

def showOut : Out → String
  | .ret rc => s!"ret {rc}"
  | .abort => "abort"

def mustNames : List String :=
  ["cond_signal", "cond_broadcast", "cond_wait", "cond_destroy", "rwlock_rdlock", "rwlock_wrlock",
   "rwlock_rdunlock", "rwlock_wrunlock", "rwlock_destroy", "barrier_destroy", "key_delete",
   "key_set", "sem_post", "sem_destroy", "mutex_destroy"]

def isNat (s : String) : Bool := s.toNat?.isSome
def isInt (s : String) : Bool := s.toInt?.isSome

/-- mode `threads`:
  stack <flags> <req> <pagesize> <stackmin> <rlimok> <rlimcur> <createrc>
        → setstack <n>|none create <0|1> ret <rc>
  trylock mutex|rd|wr <code>          → ret <rc> | abort
  semtry <n_eintr> <r> <errno>        → ret <rc> calls <n> | abort calls <n>
  semwait|sleep <n_eintr> <r> <errno> → ret 0 calls <n> | abort calls <n>   (uv_sem_wait / uv_sleep)
  timedwait <sec> <nsec> <timeout> <rc> → deadline <sec> <nsec> clk 1 condclk 1 ret <rc>|abort
  barrier <rc>                        → ret <rc> | abort
  must <wrapper> <rc>                 → ret 0 | abort -/
def step (_ : Unit) : List String → Unit × List String
  | ["stack", flags, req, ps, smin, rok, rcur, crc] =>
    if !(isNat flags && isNat req && isNat ps && isNat smin && isNat rok && isNat rcur && isInt crc) then ((), ["bad-op"]) else
    let e : Env := { pagesize := nat! ps, stackMin := nat! smin, rlimOk := nat! rok != 0, rlimCur := nat! rcur }
    let (ss, rc) := createEx e (nat! flags) (nat! req) (int! crc)
    let reached := match createExStack e (nat! flags) (nat! req) with | .einval => 0 | .create _ => 1
    let s := match ss with | some n => toString n | none => "none"
    ((), [s!"setstack {s} create {reached} ret {rc}"])
  | ["trylock", which, code] =>
    if !(["mutex", "rd", "wr"].contains which && isInt code) then ((), ["bad-op"]) else
    ((), [showOut (trylockMap (int! code))])
  | ["semtry", n, r, e] =>
    if !(isNat n && isInt r && isInt e) then ((), ["bad-op"]) else
    match semTrywait (List.replicate (nat! n) (-1, EINTR) ++ [(int! r, int! e)]) with
    | some (o, calls) => ((), [s!"{showOut o} calls {calls}"])
    | none => ((), ["bad-op"])   -- (r,e) = (-1,EINTR): the loop would not end
  | ["semwait", n, r, e] =>
    if !(isNat n && isInt r && isInt e) then ((), ["bad-op"]) else
    match semWait (List.replicate (nat! n) (-1, EINTR) ++ [(int! r, int! e)]) with
    | some (o, calls) => ((), [s!"{showOut o} calls {calls}"])
    | none => ((), ["bad-op"])
  | ["sleep", n, r, e] =>
    if !(isNat n && isInt r && isInt e) then ((), ["bad-op"]) else
    match sleepLoop (List.replicate (nat! n) (-1, EINTR) ++ [(int! r, int! e)]) with
    | some (o, calls) => ((), [s!"{showOut o} calls {calls}"])
    | none => ((), ["bad-op"])
  | ["timedwait", sec, nsec, tmo, rc] =>
    if !(isNat sec && isNat nsec && isNat tmo && isInt rc) then ((), ["bad-op"]) else
    let d := deadline (hrtime (nat! sec) (nat! nsec)) (nat! tmo)
    ((), [s!"deadline {d.1} {d.2} clk 1 condclk 1 {showOut (timedwaitMap (int! rc))}"])
  | ["initattr", what] =>
    let sh (o : Option Nat) : String := match o with | some n => toString n | none => "-1"
    match what with
    | "rwlock" => ((), [s!"rwlock-kind {sh rwlockInitKind}"])
    | "mutex" => ((), [s!"mutex-type {sh mutexInitType}"])
    | "rmutex" => ((), [s!"mutex-type {sh rmutexInitType}"])
    | _ => ((), ["bad-op"])
  | ["barrier", rc] =>
    if !isInt rc then ((), ["bad-op"]) else ((), [showOut (barrierWaitMap (int! rc))])
  | ["must", name, rc] =>
    if !(mustNames.contains name && isInt rc) then ((), ["bad-op"]) else
    ((), [showOut (mustZero (int! rc))])
  | [] => ((), [])
  | _ => ((), ["bad-op"])

def modes : List (String × IO Unit) := [("threads", runLines () step)]

end Drivers.C20
