import UvModel.DriverUtil
import UvModel.ThreadArith
import UvModel.CustomSem
/-! line-protocol driver for C20 (mode `threads`); the other side is harness/c20_threads.c -/
namespace Drivers.C20
open UvModel.DriverUtil UvModel.ThreadArith

def showOut : Out → String
  | .ret rc => s!"ret {rc}"
  | .abort => "abort"

def mustNames : List String :=
  ["cond_signal", "cond_broadcast", "cond_wait", "cond_destroy", "rwlock_rdlock", "rwlock_wrlock",
   "rwlock_rdunlock", "rwlock_wrunlock", "rwlock_destroy", "barrier_destroy", "key_delete",
   "key_set", "sem_post", "sem_destroy", "mutex_destroy"]

def isNat (s : String) : Bool := s.toNat?.isSome
def isInt (s : String) : Bool := s.toInt?.isSome

/-- mode `threads`:
  stack <flags> <req> <pagesize> <stackmin> <rlimok> <rlimcur> <createrc>
        → setstack <n>|none create <0|1> ret <rc>
  trylock mutex|rd|wr <code>          → ret <rc> | abort
  semtry <n_eintr> <r> <errno>        → ret <rc> calls <n> | abort calls <n>
  semwait|sleep <n_eintr> <r> <errno> → ret 0 calls <n> | abort calls <n>   (uv_sem_wait / uv_sleep)
  timedwait <sec> <nsec> <timeout> <rc> → deadline <sec> <nsec> clk 1 condclk 1 ret <rc>|abort
  barrier <rc>                        → ret <rc> | abort
  must <wrapper> <rc>                 → ret 0 | abort -/
def stepPure (_ : Unit) : List String → Unit × List String
  | ["stack", flags, req, ps, smin, rok, rcur, crc] =>
    if !(isNat flags && isNat req && isNat ps && isNat smin && isNat rok && isNat rcur && isInt crc) then ((), ["bad-op"]) else
    let e : Env := { pagesize := nat! ps, stackMin := nat! smin, rlimOk := nat! rok != 0, rlimCur := nat! rcur }
    let (ss, rc) := createEx e (nat! flags) (nat! req) (int! crc)
    let reached := match createExStack e (nat! flags) (nat! req) with | .einval => 0 | .create _ => 1
    let s := match ss with | some n => toString n | none => "none"
    ((), [s!"setstack {s} create {reached} ret {rc}"])
  | ["trylock", which, code] =>
    if !(["mutex", "rd", "wr"].contains which && isInt code) then ((), ["bad-op"]) else
    ((), [showOut (trylockMap (int! code))])
  | ["semtry", n, r, e] =>
    if !(isNat n && isInt r && isInt e) then ((), ["bad-op"]) else
    match semTrywait (List.replicate (nat! n) (-1, EINTR) ++ [(int! r, int! e)]) with
    | some (o, calls) => ((), [s!"{showOut o} calls {calls}"])
    | none => ((), ["bad-op"])   -- (r,e) = (-1,EINTR): the loop would not end
  | ["semwait", n, r, e] =>
    if !(isNat n && isInt r && isInt e) then ((), ["bad-op"]) else
    match semWait (List.replicate (nat! n) (-1, EINTR) ++ [(int! r, int! e)]) with
    | some (o, calls) => ((), [s!"{showOut o} calls {calls}"])
    | none => ((), ["bad-op"])
  | ["sleep", n, r, e] =>
    if !(isNat n && isInt r && isInt e) then ((), ["bad-op"]) else
    match sleepLoop (List.replicate (nat! n) (-1, EINTR) ++ [(int! r, int! e)]) with
    | some (o, calls) => ((), [s!"{showOut o} calls {calls}"])
    | none => ((), ["bad-op"])
  | ["timedwait", sec, nsec, tmo, rc] =>
    if !(isNat sec && isNat nsec && isNat tmo && isInt rc) then ((), ["bad-op"]) else
    let d := deadline (hrtime (nat! sec) (nat! nsec)) (nat! tmo)
    ((), [s!"deadline {d.1} {d.2} clk 1 condclk 1 {showOut (timedwaitMap (int! rc))}"])
  | ["initattr", what] =>
    let sh (o : Option Nat) : String := match o with | some n => toString n | none => "-1"
    match what with
    | "rwlock" => ((), [s!"rwlock-kind {sh rwlockInitKind}"])
    | "mutex" => ((), [s!"mutex-type {sh mutexInitType}"])
    | "rmutex" => ((), [s!"mutex-type {sh rmutexInitType}"])
    | _ => ((), ["bad-op"])
  | ["barrier", rc] =>
    if !isInt rc then ((), ["bad-op"]) else ((), [showOut (barrierWaitMap (int! rc))])
  | ["must", name, rc] =>
    if !(mustNames.contains name && isInt rc) then ((), ["bad-op"]) else
    ((), [showOut (mustZero (int! rc))])
  | [] => ((), [])
  | _ => ((), ["bad-op"])

/-- driver state: the process-wide `fast_clock_id` cache of `uv__hrtime` and the scripted
    answers for CLOCK_MONOTONIC_COARSE -/
structure St where
  cache : Int := -1
  res : Option Nat := some 4000000
  lag : Nat := 0

def b01 (b : Bool) : Nat := if b then 1 else 0

/-- answers of the four calls of a wrapper, a fault `rc` injected at `call` -/
def faults (names : List String) (call : String) (rc : Int) : Option (List Int) :=
  if call = "none" then some (names.map fun _ => 0)
  else if names.contains call then some (names.map fun n => if n = call then rc else 0) else none

/-- stateful ops:
  init <wrapper> <call|none> <rc>   → ret <rc>|abort live <n> [cfg <0|1>]   (thread: … created <0|1>)
  condfault <setclock_rc> <timeout> → condfault ret <rc> [timedwait -110 not_early 1]
  coarse <res_ns|fail> <lag_ns>     → ok
  fastclock <sec> <nsec>            → fastclock clk <id> ms <uv_now>
  hrtime <sec> <nsec>               → hrtime <ns> clk <id> -/
def step (st : St) : List String → St × List String
  | ["init", wrapper, call, rc] =>
    if !isInt rc then (st, ["bad-op"]) else
    let r := int! rc
    let out : Option String :=
      match wrapper with
      | "cond" => (faults ["condattr_init", "condattr_setclock", "cond_init", "condattr_destroy"] call r).bind fun
          | [a, b, c, d] => let (o, live, cfg) := condInit a b c d; some s!"{showOut o} live {b01 live} cfg {b01 cfg}"
          | _ => none
      | "rmutex" => (faults ["mutexattr_init", "mutexattr_settype", "mutex_init", "mutexattr_destroy"] call r).bind fun
          | [a, b, c, d] => let (o, live, cfg) := rmutexInit a b c d; some s!"{showOut o} live {b01 live} cfg {b01 cfg}"
          | _ => none
      | "mutex" => (faults ["mutex_init"] call r).bind fun
          | [a] => let (o, live) := simpleInit a; some s!"{showOut o} live {b01 live}" | _ => none
      | "rwlock" => (faults ["rwlock_init"] call r).bind fun
          | [a] => let (o, live) := simpleInit a; some s!"{showOut o} live {b01 live}" | _ => none
      | "barrier" => (faults ["barrier_init"] call r).bind fun
          | [a] => let (o, live) := simpleInit a; some s!"{showOut o} live {b01 live}" | _ => none
      | "sem" => (faults ["sem_init"] call r).bind fun
          | [a] => let (o, live) := if call = "none" then semInit 0 0 else semInit (-1) a
                   some s!"{showOut o} live {b01 live}" | _ => none
      | "thread" => (faults ["attr_init", "attr_setstacksize"] call r).bind fun
          | [a, b] => match attrSetup a b with
            | some o => some s!"{showOut o} created 0"
            | none => some "ret 0 created 1"
          | _ => none
      | _ => none
    (st, [out.getD "bad-op"])
  | ["condfault", rc, tmo] =>
    if !(isInt rc && isNat tmo) then (st, ["bad-op"]) else
    match (condInit 0 (int! rc) 0 0).1 with
    | .ret 0 => (st, [s!"condfault ret 0 {showOut (timedwaitMap ETIMEDOUT) |>.replace "ret" "timedwait"} not_early 1"])
    | .ret e => (st, [s!"condfault ret {e}"])
    | .abort => (st, ["abort"])
  | ["coarse", res, lag] =>
    if !((isNat res || res = "fail") && isNat lag) then (st, ["bad-op"]) else
    ({ st with res := if res = "fail" then none else some (nat! res), lag := nat! lag }, ["ok"])
  | ["fastclock", sec, nsec] =>
    if !(isNat sec && isNat nsec) then (st, ["bad-op"]) else
    let (id, cache) := hrtimeClock true st.cache st.res
    let now := hrtime (nat! sec) (nat! nsec)
    let t := if id = CLOCK_MONOTONIC_COARSE then (if now > st.lag then now - st.lag else 0) else now
    ({ st with cache := cache }, [s!"fastclock clk {id} ms {hrtime (t / NANOSEC) (t % NANOSEC) / 1000000}"])
  | ["hrtime", sec, nsec] =>
    if !(isNat sec && isNat nsec) then (st, ["bad-op"]) else
    let (id, _) := hrtimeClock false st.cache st.res
    (st, [s!"hrtime {hrtime (nat! sec) (nat! nsec)} clk {id}"])
  | ws => (st, (stepPure () ws).2)

/-- mode `csem` (other side: harness/c20_csem.c, the real uv__custom_sem_* under a serialising scheduler):
  csem <init> <prog>/<prog>/... <sched>  → events | left <n> then <rc> stuck <0|1> -/
def parseProg (p : String) : Option (List UvModel.CustomSem.Op) :=
  if p = "-" then some [] else
  p.toList.mapM fun c => match c with
    | 'w' => some UvModel.CustomSem.Op.wait | 't' => some .trywait | 'p' => some .post | _ => none

def parseSched (n : Nat) (s : String) : Option (List UvModel.CustomSem.Choice) :=
  if s = "-" then some [] else
  s.toList.mapM fun c =>
    if '0' ≤ c ∧ c.toNat < '0'.toNat + n then some (UvModel.CustomSem.Choice.thread (c.toNat - '0'.toNat))
    else if 'a' ≤ c ∧ c.toNat < 'a'.toNat + n then some (.wake (c.toNat - 'a'.toNat))
    else none

def csemStep (_ : Unit) : List String → Unit × List String
  | ["csem", ini, progs, sched] =>
    if !(isNat ini && ini.length < 9) then ((), ["bad-op"]) else
    match (progs.splitOn "/").mapM parseProg with
    | none => ((), ["bad-op"])
    | some ps =>
      if ps.length = 0 || ps.length > 8 || ps.any (fun p => p.length ≥ 32) then ((), ["bad-op"]) else
      match parseSched ps.length sched with
      | none => ((), ["bad-op"])
      | some cs =>
        let nops := (ps.map List.length).foldl (· + ·) 0
        let nposts := (ps.map (fun p => (p.filter (· = UvModel.CustomSem.Op.post)).length)).foldl (· + ·) 0
        let (s, evs) := UvModel.CustomSem.run (UvModel.CustomSem.init (nat! ini) ps) cs (64 * (nops + 4) + cs.length)
        let cap := nat! ini + nposts + 3
        let left := min s.value.toNat cap
        let thn : Int := if left < cap then UvModel.CustomSem.UV_EAGAIN else 0
        let line := String.join (evs.map (· ++ " ")) ++ s!"| left {left} then {thn} stuck {b01 (UvModel.CustomSem.stuck s)}"
        ((), [line])
  | [] => ((), [])
  | _ => ((), ["bad-op"])

def modes : List (String × IO Unit) := [("threads", runLines ({} : St) step), ("csem", runLines () csemStep)]

end Drivers.C20
