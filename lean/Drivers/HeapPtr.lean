import UvModel.DriverUtil
import UvModel.HeapPtr
/-! line-protocol driver for `src/heap-inl.h` at pointer level (model side of harness/heapptr_ops.c): the
memory holds nodes `1..n` (`0` is NULL), all cells NULL after `reset n`; `ins i key` stores the key of node
`i` and calls `heap_insert`, `rem i` calls `heap_remove`, `deq` calls `heap_dequeue`; every op line is
answered by the complete memory (`left:right:parent` per node) followed by `min` and `nelts` -/
namespace Drivers.HeapPtr
open UvModel UvModel.DriverUtil UvModel.HeapPtr

structure HS where
  n : Nat := 0
  s : St := ⟨⟨fun _ => 0, fun _ => 0, fun _ => 0⟩, 0, 0⟩
  key : Nat → Nat := fun _ => 0

def dump (h : HS) : String :=
  "mem" ++ String.join ((List.range h.n).map fun i =>
    s!" {h.s.m.left (i + 1)}:{h.s.m.right (i + 1)}:{h.s.m.parent (i + 1)}") ++ s!" | {h.s.min} {h.s.nelts}"

def lessThan (key : Nat → Nat) (a b : Nat) : Bool := key a < key b

def step (h : HS) : List String → HS × List String
  | ["reset", n] =>
    let h : HS := { n := nat! n, s := init ⟨⟨fun _ => 0, fun _ => 0, fun _ => 0⟩, 0, 0⟩ }
    (h, [dump h])
  | ["ins", i, k] =>
    let i := nat! i
    if i = 0 || i > h.n then (h, ["bad-op"]) else
    let key := fun x => if x = i then nat! k else h.key x
    let h := { h with key := key, s := insert (lessThan key) h.s i }
    (h, [dump h])
  | ["rem", i] =>
    let i := nat! i
    if i = 0 || i > h.n then (h, ["bad-op"]) else
    let h := { h with s := remove (lessThan h.key) h.s i }
    (h, [dump h])
  | ["deq"] =>
    let h := { h with s := dequeue (lessThan h.key) h.s }
    (h, [dump h])
  | [] => (h, [])
  | _ => (h, ["bad-op"])

def modes : List (String × IO Unit) := [("heapptr", runLines ({} : HS) step)]

end Drivers.HeapPtr
