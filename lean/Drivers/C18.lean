import UvModel.DriverUtil
import UvModel.Inet
/-! line-protocol driver for the address half of C18; other side: harness/c18_inet.c.
    Byte strings are lower-case hex, `-` = empty.  The memory image of a string argument is cut
    at its first NUL byte (`cstr`) before it is handed to the model, as C does.
    Destination buffers are `size` bytes pre-filled with 0xaa on both sides. -/
namespace Drivers.C18
open UvModel.DriverUtil UvModel.Inet

def hexNib (c : Char) : Option Nat :=
  if '0' ≤ c ∧ c ≤ '9' then some (c.toNat - 48)
  else if 'a' ≤ c ∧ c ≤ 'f' then some (c.toNat - 87)
  else none

def unhexL : List Char → Option (List Nat)
  | [] => some []
  | [_] => none
  | a :: b :: rest =>
    match hexNib a, hexNib b, unhexL rest with
    | some x, some y, some r => some ((x * 16 + y) :: r)
    | _, _, _ => none

def unhex (s : String) : Option (List Nat) := if s = "-" then some [] else unhexL s.toList

def nibHex (n : Nat) : Char := Char.ofNat (if n < 10 then 48 + n else 87 + n)

def hex (bs : List Nat) : String :=
  if bs.isEmpty then "-" else String.ofList (bs.flatMap fun b => [nibHex (b / 16 % 16), nibHex (b % 16)])

def res (r : Int × List Nat) : String := s!"{r.1}:{hex r.2}"
/-- pton results print the bytes only on success (the harness does the same) -/
def resP (r : Int × List Nat) : String := if r.1 = 0 then res r else s!"{r.1}:-"

def fill (n : Nat) : List Nat := List.replicate n 0xaa

def step (_ : Unit) : List String → Unit × List String
  | [] => ((), [])
  | ["pton4", h] =>
    match unhex h with
    | some m =>
      let s := cstr m
      ((), [s!"pton4 {h} uv={resP (uvInetPton AF_INET s)} ip4={resP (uvIp4Addr s)}"])
    | none => ((), ["bad-op"])
  | ["pton6", h] =>
    match unhex h with
    | some m =>
      let s := cstr m
      ((), [s!"pton6 {h} uv={resP (uvInetPton AF_INET6 s)} ip6={resP (uvIp6Addr s)}"])
    | none => ((), ["bad-op"])
  | ["ntop4", a, sz] =>
    match unhex a, sz.toNat? with
    | some addr, some n =>
      if addr.length ≠ 4 then ((), ["bad-op"]) else
      ((), [s!"ntop4 {a} {n} uv={res (uvInetNtop AF_INET addr (fill n) n)} name={res (uvIp4Name addr (fill n) n)} ipname={res (uvIpName AF_INET addr (fill n) n)}"])
    | _, _ => ((), ["bad-op"])
  | ["ntop6", a, sz] =>
    match unhex a, sz.toNat? with
    | some addr, some n =>
      if addr.length ≠ 16 then ((), ["bad-op"]) else
      ((), [s!"ntop6 {a} {n} uv={res (uvInetNtop AF_INET6 addr (fill n) n)} name={res (uvIp6Name addr (fill n) n)} ipname={res (uvIpName AF_INET6 addr (fill n) n)}"])
    | _, _ => ((), ["bad-op"])
  | ["strscpy", h, sz] =>
    match unhex h, sz.toNat? with
    | some m, some n =>
      let r := strscpy (fill n) (cstr m) n
      ((), [s!"strscpy {h} {n} ret={r.1} dst={hex r.2}"])
    | _, _ => ((), ["bad-op"])
  | ["af", a] =>
    match a.toNat? with
    | some af =>
      ((), [s!"af {af} ntop={(uvInetNtop af [1, 2, 3, 4] (fill 64) 64).1} pton={(uvInetPton af [49]).1} ipname={(uvIpName af [1, 2, 3, 4] (fill 64) 64).1}"])
    | none => ((), ["bad-op"])
  | _ => ((), ["bad-op"])

/-- (mode name, action).  `uvdriver <mode>` runs the action. -/
def modes : List (String × IO Unit) := [("c18inet", runLines () step)]
-- NOTE (main): `Drivers.C18Text.modes` (UTF-8/IDNA/WTF-8 half) is appended in Main.lean / may be appended here later.

end Drivers.C18
