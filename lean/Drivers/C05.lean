import UvModel.DriverUtil
import UvModel.StreamW
/-! line-protocol driver for C05 (stream writes); the other side is harness/c05_sim.c and
    harness/c05_requpdate.c.

  mode `c05`:
    open <pipe|ipc|tcp|fifo|tcpconn|tcpfail> [d=<0|1>]   stream kind (d = delayed connect error)
    env <k<n>|e<errno>>...                                more scripted syscall outcomes
    envclear                                              drop the remaining scripted outcomes
    script <k> <op>...                                    ops of the k-th callback invocation
    w|wh|t|th <bufs>      uv_write / uv_write2 with handle / uv_try_write / uv_try_write2
    wm|wmh <bufs>         uv_write / uv_write2 while the allocator refuses the next uv__malloc
    s | c | run | end     uv_shutdown / uv_close / uv_run(NOWAIT) / final peer report
    (in scripts: w:<bufs> wh:<bufs> t:<bufs> th:<bufs> s c)
    <bufs> = comma separated lengths, `LxK` = K buffers of length L
  mode `c05upd`:  upd <n> <bufs> <widx>    uv__write_req_update alone
-/
namespace Drivers.C05
open UvModel UvModel.DriverUtil UvModel.StreamW

def parseBufs (w : String) : Option (List Nat) :=
  (w.splitOn ",").foldr (fun item acc =>
    match acc with
    | none => none
    | some l =>
      match item.splitOn "x" with
      | [a] => a.toNat?.map (· :: l)
      | [a, k] => match a.toNat?, k.toNat? with
        | some a, some k => some (List.replicate k a ++ l)
        | _, _ => none
      | _ => none) (some [])

def parseOpWords : List String → Option Op
  | ["w", b] => (parseBufs b).map (Op.write · false)
  | ["wh", b] => (parseBufs b).map (Op.write · true)
  | ["wm", b] => (parseBufs b).map (Op.writeNoMem · false)
  | ["wmh", b] => (parseBufs b).map (Op.writeNoMem · true)
  | ["t", b] => (parseBufs b).map (Op.tryWrite · false)
  | ["th", b] => (parseBufs b).map (Op.tryWrite · true)
  | ["s"] => some .shutdown
  | ["c"] => some .close
  | _ => none

def parseOutcome (w : String) : Option Outcome :=
  if w.startsWith "k" then (w.drop 1).toString.toNat?.map Outcome.ok
  else if w.startsWith "e" then (w.drop 1).toString.toNat?.map Outcome.fail
  else none

def allSome {α : Type} (l : List (Option α)) : Option (List α) :=
  l.foldr (fun x acc => match x, acc with | some a, some t => some (a :: t) | _, _ => none) (some [])

def kindName : Nat → String
  | 0 => "write" | 1 => "writev" | _ => "sendmsg"

def fmtEv : Ev → String
  | .sys k c t r fd => s!"sys {kindName k} {c} {t} {r}{if fd then " fd" else ""}"
  | .shutsys r => s!"sys shutdown {r}"
  | .ret rc => s!"ret {rc}"
  | .obs w _ => s!"obs wqs={w}"
  | .cb id st => s!"cb {id} {st}"
  | .shutcb st => s!"shutcb {st}"
  | .conncb st => s!"conncb {st}"
  | .closecb => "closecb"

def hex2 (n : Nat) : String :=
  let d := fun (x : Nat) => "0123456789abcdef".toList.getD x '0'
  String.ofList [d (n / 16), d (n % 16)]

def byteOf (p : Nat × Nat) : Nat := (p.1 * 131 + p.2 * 7 + 3) % 251

structure DS where
  s : S := {}
  script : List (Nat × List Op) := []

def newEvents (old new : S) : List String :=
  ((new.trace.take (new.trace.length - old.trace.length)).reverse).map fmtEv

def doOps (st : DS) (ops : List LOp) : DS × List String :=
  let sc : Script := fun k => ((st.script.find? (·.1 = k)).map (·.2)).getD []
  let s' := runOps sc st.s ops
  ({ st with s := s' }, newEvents st.s s')

def openState (kind : String) (delayed : Bool) : Option S :=
  match kind with
  | "pipe" => some {}
  | "tcp" => some {}
  | "ipc" => some { ipc := true }
  | "fifo" => some { shutErr := -88 }
  | "tcpconn" => some { connecting := true, pollout := true }
  | "tcpfail" => some { connecting := true, pollout := true, pending := delayed, connErr := -111 }
  | _ => none

def step (st : DS) : List String → DS × List String
  | [] => (st, [])
  | "open" :: kind :: rest =>
    match openState kind (rest == ["d=1"]) with
    | some s => ({ s := s, script := [] }, ["opened"])
    | none => (st, ["bad-op"])
  | "env" :: outs =>
    match allSome (outs.map parseOutcome) with
    | some l => (doOps st [.feed l]).1 |> fun st' => (st', [])
    | none => (st, ["bad-op"])
  | "script" :: k :: ops =>
    match k.toNat?, allSome (ops.map fun w => parseOpWords (w.splitOn ":")) with
    | some k, some l => ({ st with script := (k, l) :: st.script }, [])
    | _, _ => (st, ["bad-op"])
  | ["envclear"] => ((doOps st [.clearEnv]).1, [])
  | ["run"] => let (st', out) := doOps st loopIter; (st', out ++ [s!"ran wqs={st'.s.wqs}"])
  | ["end"] =>
    let s := st.s
    (st, ["peer " ++ String.join (s.os.map fun p => hex2 (byteOf p)),
          s!"eof {if s.shut || !s.fdOpen then 1 else 0}"])
  | ws =>
    match parseOpWords ws with
    | some o => doOps st [.api o]
    | none => (st, ["bad-op"])

/-- mode c05upd: `upd <n> <bufs> <widx>` → new lens, write_index, return value -/
def updStep (_ : Unit) : List String → Unit × List String
  | [] => ((), [])
  | ["upd", n, b, w] =>
    match n.toNat?, parseBufs b, w.toNat? with
    | some n, some bufs, some w =>
      let r : Req := { id := 0, bufs := bufs, widx := w }
      let u := reqUpdate r n
      ((), [s!"upd idx={u.1.widx} done={if u.2 then 1 else 0} lens={",".intercalate (u.1.bufs.map toString)}"])
    | _, _, _ => ((), ["bad-op"])
  | _ => ((), ["bad-op"])

def modes : List (String × IO Unit) :=
  [("c05", runLines ({} : DS) step), ("c05upd", runLines () updStep)]

end Drivers.C05
