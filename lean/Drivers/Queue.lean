import UvModel.DriverUtil
import UvModel.Queue
/-! line-protocol driver for `src/queue.h` (model side of harness/queue_ops.c): the memory holds `n` nodes,
all self-linked after `reset n`; every op line is answered by the complete memory (`next:prev` per node),
`ring h` by the forward and backward walks from `h`, `drain h` by the nodes the drain idiom visits -/
namespace Drivers.Queue
open UvModel UvModel.DriverUtil UvModel.Queue

structure QS where
  n : Nat := 0
  m : Mem := ⟨id, id⟩

def dumpMem (s : QS) : String :=
  "mem" ++ String.join ((List.range s.n).map fun i => s!" {s.m.next i}:{s.m.prev i}")

def showList (l : List Nat) : String := String.join (l.map fun x => s!" {x}")

def step (s : QS) : List String → QS × List String
  | ["reset", n] => let s : QS := { n := nat! n, m := ⟨id, id⟩ }; (s, [dumpMem s])
  | [op, a] =>
    let a := nat! a
    if a ≥ s.n then (s, ["bad-op"]) else
    match op with
    | "init" => let s := { s with m := init s.m a }; (s, [dumpMem s])
    | "remove" => let s := { s with m := remove s.m a }; (s, [dumpMem s])
    | "empty" => (s, [s!"empty {if empty s.m a then 1 else 0}"])
    | "ring" => (s, [s!"ring {a} fwd{showList (foreach s.m a (s.n + 1))} | bwd{showList (foreachBack s.m a (s.n + 1))}"])
    | "drain" =>
      let (m, vs) := drain s.m a (s.n + 1)
      let s := { s with m := m }
      (s, [s!"drain{showList vs}", dumpMem s])
    | _ => (s, ["bad-op"])
  | [op, a, b] =>
    let a := nat! a; let b := nat! b
    if a ≥ s.n || b ≥ s.n then (s, ["bad-op"]) else
    match op with
    | "ins_tail" => let s := { s with m := insertTail s.m a b }; (s, [dumpMem s])
    | "ins_head" => let s := { s with m := insertHead s.m a b }; (s, [dumpMem s])
    | "move" => let s := { s with m := move s.m a b }; (s, [dumpMem s])
    | "add" => let s := { s with m := add s.m a b }; (s, [dumpMem s])
    | _ => (s, ["bad-op"])
  | ["split", a, b, c] =>
    let a := nat! a; let b := nat! b; let c := nat! c
    if a ≥ s.n || b ≥ s.n || c ≥ s.n then (s, ["bad-op"]) else
    let s := { s with m := split s.m a b c }; (s, [dumpMem s])
  | [] => (s, [])
  | _ => (s, ["bad-op"])

def modes : List (String × IO Unit) := [("queue", runLines ({} : QS) step)]

end Drivers.Queue
