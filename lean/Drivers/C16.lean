import UvModel.DriverUtil
import UvModel.Fault
import UvModel.Adopt
/-! line-protocol driver modes for C16 (model side of the per-operation fault correspondence)

mode `c16ops`, one request per line:
  `points <op> <params…>`                      → `points <label>…`        labels of the fault points in execution order
  `run <op> <params…> fault none|<k> <errno>`  → `rc=<int> reqs=<d> mem=<d> fds=<d> handles=<d> watches=<d>`
                                                 (deltas of the accounting state caused by the call)
  `retry <n>`                                  → `attempts=<n+1> eintr-surfaced=false`   (retry loop after n interruptions)
ops: write2 <nbufs> | udp_send <nbufs> <wasActive 0|1> | fs <async 0|1> <none|path|bufs> | queue_work | getaddrinfo |
     pipe_bind | spawn <npipes> <heap 0|1> | fs_poll_start | fs_event_start <newWd 0|1> | environ <n>

mode `c16adopt` (adoption of a descriptor by a TCP handle with remembered options, lean/UvModel/Adopt.lean):
  `points <path> <nodelay 0|1> <keepalive 0|1>`                     → `points <setsockopt option>…` in execution order
  `run <path> <nodelay> <keepalive> fault none|<k> <errno>`         → `rc=<int> owns=<0|1> fds=<d>`
                                                 (return code, whether the handle claims a descriptor, open-descriptor delta)
paths: accept | ipc | open | bind | listen | connect
-/
namespace Drivers.C16
open UvModel.DriverUtil UvModel.Fault

def parseOp : List String → Option (Op × List String)
  | "write2" :: n :: rest => some (uvWrite2 (nat! n), rest)
  | "udp_send" :: n :: a :: rest => some (udpSend (nat! n) (a == "1"), rest)
  | "fs" :: a :: k :: rest =>
    match k with
    | "none" => some (fsOp (a == "1") .none, rest)
    | "path" => some (fsOp (a == "1") .path, rest)
    | "bufs" => some (fsOp (a == "1") .bufs, rest)
    | _ => none
  | "queue_work" :: rest => some (queueWork, rest)
  | "getaddrinfo" :: rest => some (getaddrinfoAsync, rest)
  | "pipe_bind" :: rest => some (pipeBind, rest)
  | "spawn" :: n :: h :: rest => some (uvSpawn (nat! n) (h == "1"), rest)
  | "fs_poll_start" :: rest => some (fsPollStart, rest)
  | "fs_event_start" :: w :: rest => some (fsEventStart (w == "1"), rest)
  | "environ" :: n :: rest => some (osEnviron (nat! n), rest)
  | _ => none

def showRun (r : D × Int) : String :=
  s!"rc={r.2} reqs={r.1.reqs} mem={r.1.mem} fds={r.1.fds} handles={r.1.handles} watches={r.1.watches}"

def step (_ : Unit) (ws : List String) : Unit × List String :=
  match ws with
  | [] => ((), [])
  | "points" :: rest =>
    match parseOp rest with
    | some (op, []) => ((), [" ".intercalate ("points" :: (op.filter (·.fault.isSome)).map (·.label))])
    | _ => ((), ["bad-op"])
  | "run" :: rest =>
    match parseOp rest with
    | some (op, ["fault", "none"]) => ((), [showRun (runFrom op D.zero none)])
    | some (op, ["fault", k, e]) =>
      match k.toNat?, e.toNat? with
      | some k, some e => ((), [showRun (runFrom op D.zero (some (k, e)))])
      | _, _ => ((), ["bad-op"])
    | _ => ((), ["bad-op"])
  | ["retry", n] =>
    match n.toNat? with
    | some n =>
      match retryEintr (interrupt n (fun _ => .ok 0)) (n + 1) with
      | some (k, o) => ((), [s!"attempts={k + 1} eintr-surfaced={o.isEintr}"])
      | none => ((), ["no-termination"])
    | none => ((), ["bad-op"])
  | _ => ((), ["bad-op"])

open UvModel.Adopt in
def parsePath : String → Option Path
  | "accept" => some .accept | "ipc" => some .ipc | "open" => some .open_
  | "bind" => some .bind | "listen" => some .listen | "connect" => some .connect
  | _ => none

def parseBool : String → Option Bool
  | "0" => some false | "1" => some true | _ => none

open UvModel.Adopt in
def showAdopt (p : Path) (nd ka : Bool) (f : UvModel.Adopt.Fault) : String :=
  -- descriptor 7 is adopted (open before on accept / ipc / open) or is the number socket() returns (lazy paths)
  let pre : List Nat := if p = .accept ∨ p = .ipc ∨ p = .open_ then [0, 1, 2, 7] else [0, 1, 2]
  let r := adopt streamOpen p nd ka ⟨pre, none⟩ 7 f
  s!"rc={r.2} owns={if r.1.hfd.isSome then 1 else 0} fds={(r.1.open_.length : Int) - pre.length}"

open UvModel.Adopt in
def stepAdopt (_ : Unit) (ws : List String) : Unit × List String :=
  match ws with
  | [] => ((), [])
  | ["points", p, nd, ka] =>
    match parsePath p, parseBool nd, parseBool ka with
    | some p, some nd, some ka => ((), [" ".intercalate ("points" :: sockoptCalls p nd ka)])
    | _, _, _ => ((), ["bad-op"])
  | ["run", p, nd, ka, "fault", "none"] =>
    match parsePath p, parseBool nd, parseBool ka with
    | some p, some nd, some ka => ((), [showAdopt p nd ka none])
    | _, _, _ => ((), ["bad-op"])
  | ["run", p, nd, ka, "fault", k, e] =>
    match parsePath p, parseBool nd, parseBool ka, k.toNat?, e.toNat? with
    | some p, some nd, some ka, some k, some e => ((), [showAdopt p nd ka (some (k, e))])
    | _, _, _, _, _ => ((), ["bad-op"])
  | _ => ((), ["bad-op"])

/-- (mode name, action).  `uvdriver <mode>` runs the action (normally `runLines init step`). -/
def modes : List (String × IO Unit) := [("c16ops", runLines () step), ("c16adopt", runLines () stepAdopt)]

end Drivers.C16
