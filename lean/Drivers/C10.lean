import UvModel.DriverUtil
import UvModel.Udp
/-! line-protocol driver modes for C10: `c10v` (unit: uv__udp_sendmsgv; other side harness/c10_unit.c) and
`c10` (whole library; other side harness/c10_sim.c) -/
namespace Drivers.C10
open UvModel.DriverUtil UvModel.Udp

def parseSOut (w : String) : Option SOut :=
  if w.startsWith "k" then (w.drop 1).toNat?.map .sent
  else if w.startsWith "e" then (w.drop 1).toNat?.map .err
  else none

def parseAll {α β} (f : α → Option β) (l : List α) : Option (List β) := l.mapM f

def joinNat (l : List Nat) : String := ",".intercalate (l.map toString)

/-! ### mode c10v -/
def unitDgrams (count shape : Nat) (bad : List Nat) : List Dgram :=
  (List.range count).map fun i =>
    ⟨i, List.replicate (1 + (i + shape) % 3) 1, if bad.contains i then 3 else (i * (shape + 1)) % 3⟩

def showCall (c : KCall) : String :=
  let ds := " ".intercalate (c.offered.map fun d => s!"{d.seq}:{d.bufs.length}:{d.dest}")
  s!"call {if c.mmsg then "mmsg" else "msg"} [{ds}] {c.res}"

def unitStep (_ : Unit) : List String → Unit × List String
  | "v" :: count :: shape :: toks =>
    -- tokens b<idx>: datagram idx carries an unsupported address family
    let bad := toks.filterMap fun w => if w.startsWith "b" then (w.drop 1).toNat? else none
    match parseAll parseSOut (toks.filter fun w => !w.startsWith "b") with
    | some os =>
      let v := sendmsgv (unitDgrams (nat! count) (nat! shape) bad) os
      ((), v.log.map showCall ++ [s!"ret {v.ret} left={v.outs.length}"])
    | none => ((), ["bad-op"])
  | [] => ((), [])
  | _ => ((), ["bad-op"])

/-! ### mode c10 -/
structure Sock where
  h : H := {}
  q : List RItem := []
  fam : Nat := 4
  script : List (CbKind × Nat × List Op) := []

structure St where
  socks : Array Sock := #[]

def parseLens (w : String) : Option (List Nat) :=
  if w = "-" then some [] else (w.splitOn ",").mapM (·.toNat?)

def parseOp (w : String) : Option Op :=
  match w.splitOn ":" with
  | ["send", dest, en, lens] => do some (.send (← parseLens lens) (← dest.toNat?) ((← en.toNat?) != 0))
  | ["try", dest, lens] => do some (.trySend (← parseLens lens) (← dest.toNat?))
  | ["try2", count, dest, lens] => do some (.trySend2 (← count.toNat?) (← parseLens lens) (← dest.toNat?))
  | ["rstart"] => some .recvStart
  | ["rstop"] => some .recvStop
  | ["close"] => some .close
  | _ => none

def parseRItem (w : String) : Option RItem :=
  if w = "b" then some .brk
  else if w.startsWith "e" then (w.drop 1).toNat?.map .err
  else if w.startsWith "d" then
    match (w.drop 1).toString.splitOn ":" with
    | [len, t, p] => do some (.dg ⟨← len.toNat?, (← t.toNat?) != 0, ← p.toNat?⟩)
    | _ => none
  else none

def hid (w : String) : Option Nat := if w.startsWith "h" then (w.drop 1).toNat? else none

def scriptOf (k : Sock) : Script := fun kind n =>
  ((k.script.find? fun e => e.1 = kind ∧ e.2.1 = n).map (·.2.2)).getD []

def showBuf : Option BufRef → String
  | none => "-"
  | some b => s!"a{b.a}+{b.off}/{b.len}"

def showEv (i : Nat) : Ev → String
  | .ret r => s!"h{i} ret {r}"
  | .skipped => s!"h{i} skipped"
  | .sendCb q st => s!"h{i} cb send r{q} {st}"
  | .alloc k len => s!"h{i} alloc a{k} {len}"
  | .recvCb n b p f => s!"h{i} cb recv {n} {showBuf b} {p} {f}"
  | .closeCb => s!"h{i} cb close"

def showWire (i fam : Nat) (ds : List Dgram) : List String :=
  if ds.isEmpty then [] else
  [s!"wire h{i}" ++ String.join (ds.map fun d =>
      let n := d.bytes
      let f := if d.dest = 0 then fam else if d.dest = 1 then 4 else 6
      (if n = 0 then s!" ?/0@{f}" else s!" {d.seq}/{n}@{f}"))]

/-- failed system calls: which datagram was first in the vector, which errno -/
def showErrs (i : Nat) (calls : List KCall) : List String :=
  calls.filterMap fun c =>
    if c.res < 0 then
      match c.offered.head? with
      | some d => some (if d.bytes = 0 then s!"h{i} oserr r? {-c.res}" else s!"h{i} oserr r{d.seq} {-c.res}")
      | none => none
    else none

/-- lines produced by handle i going from state a to state b -/
def delta (i : Nat) (fam : Nat) (a b : H) : List String :=
  (b.trace.drop a.trace.length).map (showEv i) ++ showErrs i (b.klog.drop a.klog.length)
    ++ showWire i fam (b.wire.drop a.wire.length)

def obs (st : St) : String :=
  let reqs := st.socks.foldl (fun acc k => acc + k.h.activeReqs) (0 : Int)
  let per := (List.range st.socks.size).map fun i =>
    let h := (st.socks.getD i {}).h
    s!" h{i}:q={h.sqSize}/{h.sqCount}:a={if h.active then 1 else 0}:s={h.souts.length}"
  s!"obs reqs={reqs}" ++ String.join per

/-- is `dest` usable on a handle of family fam (generator keeps families matched) -/
def destOk (fam dest : Nat) : Bool := dest = 0 || dest ≥ 3 || (dest = 1 && fam = 4) || (dest = 2 && fam = 6)

def totOk (b : List Nat) : Bool := b.length ≤ 64 && (b.sum = 0 || (b.sum ≥ 6 && b.sum ≤ 60000))

def opDestOk (fam : Nat) : Op → Bool
  | .send b d _ => destOk fam d && !b.isEmpty && totOk b
  | .trySend b d => destOk fam d && totOk b
  | .trySend2 c b d => destOk fam d && d ≤ 3 && totOk b && c ≤ 4096
  | _ => true

def simStep (st : St) : List String → St × List String
  | ["new", h, fam, conn, mm] =>
    match hid h with
    | some i =>
      if i ≠ st.socks.size ∨ (fam ≠ "4" ∧ fam ≠ "6") then (st, ["bad-op"]) else
      let k : Sock := { h := { connected := conn = "1", mmsg := mm = "1" }, fam := nat! fam }
      let st := { st with socks := st.socks.push k }
      (st, [s!"new h{i} 0", obs st])
    | none => (st, ["bad-op"])
  | "sout" :: h :: toks =>
    match hid h, parseAll parseSOut toks with
    | some i, some os =>
      if i < st.socks.size then
        ({ st with socks := st.socks.modify i fun k => { k with h := { k.h with souts := k.h.souts ++ os } } }, [])
      else (st, ["bad-op"])
    | _, _ => (st, ["bad-op"])
  | "rin" :: h :: toks =>
    match hid h, parseAll parseRItem toks with
    | some i, some is =>
      if i < st.socks.size then
        ({ st with socks := st.socks.modify i fun k => { k with q := k.q ++ is } }, [])
      else (st, ["bad-op"])
    | _, _ => (st, ["bad-op"])
  | "alloc" :: h :: toks =>
    match hid h, parseAll String.toNat? toks with
    | some i, some sz =>
      if i < st.socks.size then
        ({ st with socks := st.socks.modify i fun k => { k with h := { k.h with allocSizes := sz } } }, [])
      else (st, ["bad-op"])
    | _, _ => (st, ["bad-op"])
  | "script" :: h :: kind :: n :: toks =>
    match hid h, parseAll parseOp toks, n.toNat? with
    | some i, some ops, some n =>
      if i < st.socks.size ∧ (kind = "send" ∨ kind = "recv") then
        let kd := if kind = "send" then CbKind.send else CbKind.recv
        let fam := (st.socks.getD i {}).fam
        if ops.all (opDestOk fam) then
          ({ st with socks := st.socks.modify i fun k => { k with script := (kd, n, ops) :: k.script } }, [])
        else (st, ["bad-op"])
      else (st, ["bad-op"])
    | _, _, _ => (st, ["bad-op"])
  | ["op", h, tok] =>
    match hid h, parseOp tok with
    | some i, some op =>
      if i < st.socks.size then
        let k := st.socks.getD i {}
        if !opDestOk k.fam op then (st, ["bad-op"]) else
        let h' := applyOp k.h op
        let st := { st with socks := st.socks.set! i { k with h := h' } }
        (st, delta i k.fam k.h h' ++ [obs st])
      else (st, ["bad-op"])
    | _, _ => (st, ["bad-op"])
  | ["run"] =>
    let (st, out) := (List.range st.socks.size).foldl (fun (acc : St × List String) i =>
      let k := acc.1.socks.getD i {}
      let (h', q', spun) := uvRun (scriptOf k) k.h k.q
      ({ acc.1 with socks := acc.1.socks.set! i { k with h := h', q := q' } },
       acc.2 ++ delta i k.fam k.h h' ++ (if spun then [s!"h{i} spun"] else []))) (st, [])
    (st, out ++ ["ran", obs st])
  | [] => (st, [])
  | _ => (st, ["bad-op"])

/-- (mode name, action).  `uvdriver <mode>` runs the action (normally `runLines init step`). -/
def modes : List (String × IO Unit) :=
  [("c10v", runLines () unitStep), ("c10", runLines ({} : St) simStep)]

end Drivers.C10
