import UvModel.DriverUtil
/-! line-protocol driver modes for C09 (stub: no modes yet) -/
namespace Drivers.C09
open UvModel.DriverUtil

/-- (mode name, action).  `uvdriver <mode>` runs the action (normally `runLines init step`). -/
def modes : List (String × IO Unit) := []

end Drivers.C09
