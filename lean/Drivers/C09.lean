import UvModel.DriverUtil
import UvModel.Async
/-! line-protocol driver for C09 (`uvdriver async`); the other side is harness/c09_sched.c.

input:  `cfg nh=<n> close=<h,..|-> senders=<h,h;h|-> sig=<t:victim,..|->`   victim = `l` or a sender index
        `run`            back to the initial state of the configuration
        `at <d>`         back to the state after d actions of the current run (stateless DFS backtracking)
        (cfg also: nocb=<h,..|-> handles without a callback; eintr= fork= stop= spin= cap=)
        `a <tok>`        tok = s<t> (sender t: begin its next send, or next atomic op) | l | c<h> | f
output: one line per input line: `a <tok> :: <effect> :: <state>`  -/
namespace Drivers.C09
open UvModel.DriverUtil UvModel.Async

structure Cfg where
  nh : Nat := 0
  closable : List Nat := []
  nocb : List Nat := []   -- handles initialised with async_cb == NULL: their callback is the empty one (scan and return fused)
  progs : List (List Nat) := []
  sig : List (Nat × Option Nat) := []   -- (handler sender, victim: none = loop thread)
  spin : Nat := 0       -- once per run the closing loop thread takes this many uv__async_spin iterations in a row
  stops : Nat := 0      -- how many uv_stop() calls from inside async callbacks may happen in one run
  forks : Nat := 0      -- how many fork + uv_loop_fork (continue in the child) may happen in one run
  eintr : Nat := 0      -- how many EINTR answers the environment may give in one run
  cap : Option Nat := none   -- eventfd counter saturates at this value (none = 2^64-2)

structure DS where
  s : State
  k : List Nat    -- per sender: index of its next send
  ei : Nat := 0   -- EINTR answers left
  fk : Nat := 0   -- forks left
  sp : Nat := 0   -- spin bursts left (0/1)
  st : Nat := 0   -- uv_stop calls left
  sf : Bool := false   -- loop->stop_flag: no effect on the async machinery (not part of the model); uv_run returns when
                       -- uv__async_io is done, resets it, and the application runs the loop again
  dead : List Nat := []   -- senders that were inside uv_async_send at fork time: threads that do not exist in the child

structure D where
  cfg : Cfg := {}
  stack : List DS := []   -- head = current state

def natList (s : String) : List Nat :=
  if s = "-" ∨ s = "" then [] else (s.splitOn ",").map nat!

def parseSig (p : String) : Nat × Option Nat :=
  match p.splitOn ":" with
  | [t, "l"] => (nat! t, none)
  | [t, x] => (nat! t, some (nat! x))
  | _ => (0, none)

def parseCfg (ws : List String) : Cfg :=
  ws.foldl (fun c w =>
    match w.splitOn "=" with
    | ["nh", v] => { c with nh := nat! v }
    | ["close", v] => { c with closable := natList v }
    | ["nocb", v] => { c with nocb := natList v }
    | ["senders", v] => { c with progs := if v = "-" then [] else (v.splitOn ";").map natList }
    | ["eintr", v] => { c with eintr := nat! v }
    | ["fork", v] => { c with forks := nat! v }
    | ["stop", v] => { c with stops := nat! v }
    | ["spin", v] => { c with spin := nat! v }
    | ["cap", v] => { c with cap := if v = "-" then none else some (nat! v) }
    | ["sig", v] => { c with sig := if v = "-" then [] else (v.splitOn ",").map parseSig }
    | _ => c) {}

def initDS (c : Cfg) : DS :=
  { s := match c.cap with | none => init c.nh c.progs.length | some n => init c.nh c.progs.length (n - 1),
    k := c.progs.map fun _ => 0, ei := c.eintr, fk := c.forks, st := c.stops, sp := if c.spin > 0 then 1 else 0 }

def spcName : SPc → String
  | .idle => "idle" | .load => "load" | .inc => "inc" | .xchg => "xchg" | .write => "write" | .dec => "dec"

def retName : LRet → String
  | .idle => "idle" | .inCb h => s!"cb{h}"

def lpcName : LPc → String
  | .idle => "idle" | .drain => "drain" | .scan h => s!"scan{h}" | .inCb h => s!"cb{h}"
  | .closeStore h r => s!"store{h}/{retName r}" | .closeSpin h r => s!"spin{h}/{retName r}"

def listStr (l : List Nat) : String := "[" ++ ",".intercalate (l.map toString) ++ "]"

def busyThreads (d : DS) : List Nat :=   -- senders in the middle of a send
  (List.range d.s.snd.length).filter fun t => (d.s.snd[t]?.getD ({} : Sender)).pc ≠ .idle

/-- thread `v` (none = loop) is interrupted by a signal handler that has not returned yet -/
def interrupted (c : Cfg) (d : DS) (v : Option Nat) : Bool :=
  c.sig.any fun (t, w) => w == v && (busyThreads d).contains t

def enabledToks (c : Cfg) (d : DS) : List String :=
  let s := d.s
  let snds := (List.range s.snd.length).filter fun t =>
    let x := s.snd[t]?.getD ({} : Sender)
    (if x.pc = .idle then d.k.getD t 0 < (c.progs.getD t []).length else true) && !interrupted c d (some t) && !d.dead.contains t
  let lok := !interrupted c d none
  snds.map (fun t => s!"s{t}")
    ++ ((snds.filter fun t => d.ei > 0 && enabled s (.eintr (some t))).map fun t => s!"e{t}")
    ++ (if lok && d.ei > 0 && enabled s (.eintr none) then ["i"] else [])
    ++ (if lok && enabled s .loop then ["l"] else [])
    ++ (if lok && d.fk > 0 && enabled s .fork then ["k"] else [])
    ++ (if lok && d.st > 0 && !d.sf && (match s.lpc with | .inCb _ => true | _ => false) then ["x"] else [])
    ++ (if lok && d.sp > 0 && (match s.lpc with | .closeSpin h _ => (s.hs h).busy ≠ 0 | _ => false) then ["p"] else [])
    ++ ((c.closable.filter fun h => lok && enabled s (.close h)).map fun h => s!"c{h}")
    ++ (if lok && enabled s .closeCbs && (List.range s.nh).any (fun h => (s.hs h).unlinked && !(s.hs h).freed) then ["f"] else [])

def stateStr (c : Cfg) (d : DS) : String :=
  let s := d.s
  let hs := (List.range s.nh).map fun h =>
    let v := s.hs h
    let fl := (if v.closing then "c" else "-") ++ (if v.unlinked then "u" else "-") ++ (if v.freed then "f" else "-")
    if v.freed then s!"h{h}:freed,pub={v.pub},seen={v.seen},cb={v.cbs},x={v.x01}"
    else s!"h{h}:p={v.pending},b={v.busy},{fl},pub={v.pub},seen={v.seen},cb={v.cbs},x={v.x01}"
  let ts := (List.range s.snd.length).map fun t =>
    let x := s.snd[t]?.getD ({} : Sender)
    s!"t{t}:{spcName x.pc},h{x.h},k{d.k.getD t 0},q{x.seq}"
  s!"efd={s.efd} lpc={lpcName s.lpc} q={listStr s.queue} hl={listStr s.handles} | "
    ++ " ".intercalate hs ++ " | " ++ " ".intercalate ts ++ s!" | ei={d.ei} fk={d.fk} st={d.st} sf={if d.sf then 1 else 0} sp={d.sp} en=" ++ ",".intercalate (enabledToks c d)

/-- apply one token; returns the effect text -/
def applyTok (c : Cfg) (d : DS) (tok : String) : Option (DS × String) :=
  if !(enabledToks c d).contains tok then none else
  let s := d.s
  let arg := nat! (tok.drop 1).toString
  if tok = "l" then
    let eff := match s.lpc with
      | .idle => "wake"
      | .drain => "drain"
      | .scan h => if (s.hs h).pending = 0 then s!"scan h{h} =0" else if c.nocb.contains h then s!"scan h{h} =1" else s!"scan h{h} =1 cb"
      | .inCb h => s!"cbret h{h}"
      | .closeStore h _ => s!"store h{h}"
      | .closeSpin h _ => s!"spin h{h} unlink"
    -- async.c:205-206: no callback to call for a handle initialised with NULL — the model's (empty) callback returns at once
    let fused := match s.lpc with | .scan h => (s.hs h).pending ≠ 0 && c.nocb.contains h | _ => false
    ((step? s .loop).bind fun s1 => if fused then step? s1 .loop else some s1).map fun s' =>
      ({ d with s := s', sf := if s'.lpc = .idle then false else d.sf }, eff)
  else if tok = "p" then   -- N spin iterations with busy ≠ 0: the model's closeSpin step is disabled, nothing changes
    some ({ d with sp := d.sp - 1 }, "spinburst")
  else if tok = "x" then
    some ({ d with st := d.st - 1, sf := true }, "stop")
  else if tok = "k" then
    (step? s .fork).map fun s' => ({ d with s := s', fk := d.fk - 1, dead := d.dead ++ busyThreads d }, "fork")
  else if tok = "i" then
    (step? s (.eintr none)).map fun s' => ({ d with s := s', ei := d.ei - 1 }, "drain EINTR")
  else if tok.startsWith "e" then
    (step? s (.eintr (some arg))).map fun s' => ({ d with s := s', ei := d.ei - 1 }, "write EINTR")
  else if tok = "f" then
    let done := (List.range s.nh).filter fun h => (s.hs h).unlinked && !(s.hs h).freed
    (step? s .closeCbs).map fun s' => ({ d with s := s' }, "closecb " ++ " ".intercalate (done.map fun h => s!"h{h}"))
  else if tok.startsWith "c" then
    (step? s (.close arg)).map fun s' => ({ d with s := s' }, s!"close h{arg}")
  else if tok.startsWith "s" then
    let t := arg
    let x := s.snd[t]?.getD ({} : Sender)
    match x.pc with
    | .idle =>
      let k := d.k.getD t 0
      let h := (c.progs.getD t []).getD k 0
      let d' := { d with k := d.k.set t (k + 1) }
      if (s.hs h).closing then some (d', s!"skip h{h}")   -- the user does not start a send on a handle it has closed
      else (step? s (.begin t h)).map fun s' => ({ d' with s := s' }, s!"begin h{h} seq={(s'.snd[t]?.getD ({} : Sender)).seq}")
    | pc =>
      let hv := s.hs x.h
      let eff := match pc with
        | .load => if hv.pending ≠ 0 then "load=1 ret" else "load=0"
        | .inc => "inc"
        | .xchg => s!"xchg={hv.pending}"
        | .write => if s.efd ≤ s.capm1 then "write" else "write EAGAIN"
        | .dec => "dec ret"
        | .idle => ""
      (step? s (.snd t)).map fun s' => ({ d with s := s' }, eff)
  else none

def stepLine (d : D) : List String → D × List String
  | [] => (d, [])
  | "cfg" :: ws =>
    let c := parseCfg ws
    ({ cfg := c, stack := [initDS c] }, ["cfg " ++ " ".intercalate ws])
  | ["run"] =>
    let i := initDS d.cfg
    ({ d with stack := [i] }, ["run :: " ++ stateStr d.cfg i])
  | ["at", n] =>
    let keep := nat! n + 1
    if keep ≤ d.stack.length then ({ d with stack := d.stack.drop (d.stack.length - keep) }, [s!"at {n}"])
    else (d, ["bad-op"])
  | ["a", tok] =>
    match d.stack with
    | [] => (d, ["bad-op"])
    | cur :: _ =>
      match applyTok d.cfg cur tok with
      | none => (d, [s!"a {tok} :: not-enabled"])
      | some (cur', eff) => ({ d with stack := cur' :: d.stack }, [s!"a {tok} :: {eff} :: {stateStr d.cfg cur'}"])
  | _ => (d, ["bad-op"])

/-- (mode name, action).  `uvdriver <mode>` runs the action (normally `runLines init step`). -/
def modes : List (String × IO Unit) := [("async", runLines ({} : D) stepLine)]

end Drivers.C09
