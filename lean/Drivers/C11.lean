import UvModel.DriverUtil
import UvModel.FsBuf
/-! line-protocol driver for C11 (a): mode `fsbuf`; the other side is harness/c11_fsbuf.c -/
namespace Drivers.C11
open UvModel.DriverUtil UvModel.FsBuf

def kv (key : String) (ws : List String) : Option String :=
  ws.findSome? fun w =>
    match w.splitOn "=" with
    | [k, v] => if k = key then some v else none
    | _ => none

/-- `3,0*1024,5` → lengths -/
def parseLens (s : String) : Option (List Nat) :=
  if s = "-" then some [] else
  (s.splitOn ",").foldr (fun tok acc => do
    let acc ← acc
    match tok.splitOn "*" with
    | [v] => let v ← v.toNat?; pure (v :: acc)
    | [v, k] => let v ← v.toNat?; let k ← k.toNat?; pure (List.replicate k v ++ acc)
    | _ => none) (some [])

def parseOutcome (tok : String) : Option Outcome :=
  if tok = "EINTR" then some (.fail EINTR)
  else if tok.startsWith "E" then (tok.drop 1).toString.toNat?.map .fail
  else tok.toNat?.map .ok

def parseOutcomes (s : String) : Option (List Outcome) :=
  if s = "-" then some [] else (s.splitOn ",").mapM parseOutcome

/-- run-length encoding `v*k` of consecutive equal values -/
def rle (l : List Nat) : String :=
  let rec go : List Nat → List (Nat × Nat) → List (Nat × Nat)
    | [], acc => acc.reverse
    | x :: xs, (v, k) :: acc => if x = v then go xs ((v, k + 1) :: acc) else go xs ((x, 1) :: (v, k) :: acc)
    | x :: xs, [] => go xs [(x, 1)]
  let parts := (go l []).map fun (v, k) => if k = 1 then s!"{v}" else s!"{v}*{k}"
  if parts.isEmpty then "-" else ",".intercalate parts

/-- byte ids → `a-b,c-d` (half-open ranges of consecutive ids) -/
def ranges (l : List Nat) : String :=
  let rec go : List Nat → List (Nat × Nat) → List (Nat × Nat)
    | [], acc => acc.reverse
    | x :: xs, (a, b) :: acc => if x = b then go xs ((a, b + 1) :: acc) else go xs ((x, x + 1) :: (a, b) :: acc)
    | x :: xs, [] => go xs [(x, x + 1)]
  let parts := (go l []).map fun (a, b) => s!"{a}-{b}"
  if parts.isEmpty then "-" else ",".intercalate parts

/-- buffers holding consecutive byte ids starting at `start` -/
def mkBufs : List Nat → Nat → List (List Nat)
  | [], _ => []
  | l :: ls, start => List.range' start l :: mkBufs ls (start + l)

def sysName : Sys → String
  | .write => "write" | .writev => "writev" | .pwrite => "pwrite" | .pwritev => "pwritev"
  | .read => "read" | .readv => "readv" | .pread => "pread" | .preadv => "preadv"

def showOutcome : Outcome → String
  | .ok n => s!"{n}"
  | .fail e => s!"E{e}"

def hasOff : Sys → Bool
  | .pwrite | .pwritev | .pread | .preadv => true
  | _ => false

def showCall (c : Call Nat) (withData : Bool) : String :=
  let off := if hasOff c.sys then s!"{c.off}" else "cur"
  let base := s!"call {sysName c.sys} off={off} iov={rle (c.iov.map List.length)} ret={showOutcome c.out}"
  if withData then base ++ s!" data={ranges c.written}" else base

def marker : Nat := 1000000000

def step (iovmax : Nat) : List String → Nat × List String
  | [] => (iovmax, [])
  | ["iovmax", n] => match n.toNat? with
    | some n => (n, [s!"iovmax {n}"])
    | none => (iovmax, ["bad-op"])
  | "write_all" :: args =>
    match (kv "off" args).bind String.toInt?, (kv "bufs" args).bind parseLens, (kv "outcomes" args).bind parseOutcomes with
    | some off, some lens, some os =>
      let r := writeAll iovmax os off (mkBufs lens 0)
      (iovmax, r.calls.map (showCall · true) ++ [s!"result {r.result} off={r.off}"])
    | _, _, _ => (iovmax, ["bad-op"])
  | "read" :: args =>
    match (kv "off" args).bind String.toInt?, (kv "bufs" args).bind parseLens, (kv "outcome" args).bind parseOutcome with
    | some off, some lens, some o =>
      let bufs := lens.map fun l => List.replicate l marker
      let total := lens.foldl (· + ·) 0
      let r := fsRead iovmax off bufs o (List.range total)
      -- per buffer: how many bytes were filled; and whether the filled bytes are 0,1,2,… in order
      let fill := r.bufs.map fun b => (b.filter (· ≠ marker)).length
      let got := r.bufs.flatten.filter (· ≠ marker)
      let inorder := decide (got = List.range got.length) && decide (r.bufs.map (fun b => (b.takeWhile (· ≠ marker)).length) = fill)
      (iovmax, r.calls.map (showCall · false) ++ [s!"result {r.result} fill={rle fill} inorder={if inorder then 1 else 0}"])
    | _, _, _ => (iovmax, ["bad-op"])
  | "buf_offset" :: args =>
    match (kv "size" args).bind String.toNat?, (kv "bufs" args).bind parseLens with
    | some size, some lens =>
      let r := bufOffset (mkBufs lens 0) size
      let descr := (r.2.zip (prefixStarts lens 0)).map fun (b, s0) =>
        -- base moved by (original length − new length); print new base offset and new length
        s!"{b.headD s0}+{b.length}"
      (iovmax, [s!"offset {r.1} bufs={" ".intercalate descr}"])
    | _, _ => (iovmax, ["bad-op"])
  | "work" :: args =>
    match (kv "retry" args).bind String.toNat?, (kv "outcomes" args).bind parseOutcomes with
    | some rt, some os =>
      let r := workLoop (rt ≠ 0) os
      (iovmax, [s!"result {r.1} calls={r.2}"])
    | _, _ => (iovmax, ["bad-op"])
  | _ => (iovmax, ["bad-op"])
where
  prefixStarts : List Nat → Nat → List Nat
    | [], _ => []
    | l :: ls, s => s :: prefixStarts ls (s + l)

/-- (mode name, action).  `uvdriver <mode>` runs the action (normally `runLines init step`). -/
def modes : List (String × IO Unit) := [("fsbuf", runLines 1024 step)]

end Drivers.C11
