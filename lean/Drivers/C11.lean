import UvModel.DriverUtil
import UvModel.FsBuf
import UvModel.FsReq
/-! line-protocol driver for C11 (a): mode `fsbuf`; the other side is harness/c11_fsbuf.c -/
namespace Drivers.C11
open UvModel.DriverUtil UvModel.FsBuf

def kv (key : String) (ws : List String) : Option String :=
  ws.findSome? fun w =>
    match w.splitOn "=" with
    | [k, v] => if k = key then some v else none
    | _ => none

/-- `3,0*1024,5` → lengths -/
def parseLens (s : String) : Option (List Nat) :=
  if s = "-" then some [] else
  (s.splitOn ",").foldr (fun tok acc => do
    let acc ← acc
    match tok.splitOn "*" with
    | [v] => let v ← v.toNat?; pure (v :: acc)
    | [v, k] => let v ← v.toNat?; let k ← k.toNat?; pure (List.replicate k v ++ acc)
    | _ => none) (some [])

def parseOutcome (tok : String) : Option Outcome :=
  if tok = "EINTR" then some (.fail EINTR)
  else if tok.startsWith "E" then (tok.drop 1).toString.toNat?.map .fail
  else tok.toNat?.map .ok

def parseOutcomes (s : String) : Option (List Outcome) :=
  if s = "-" then some [] else (s.splitOn ",").mapM parseOutcome

/-- run-length encoding `v*k` of consecutive equal values -/
def rle (l : List Nat) : String :=
  let rec go : List Nat → List (Nat × Nat) → List (Nat × Nat)
    | [], acc => acc.reverse
    | x :: xs, (v, k) :: acc => if x = v then go xs ((v, k + 1) :: acc) else go xs ((x, 1) :: (v, k) :: acc)
    | x :: xs, [] => go xs [(x, 1)]
  let parts := (go l []).map fun (v, k) => if k = 1 then s!"{v}" else s!"{v}*{k}"
  if parts.isEmpty then "-" else ",".intercalate parts

/-- byte ids → `a-b,c-d` (half-open ranges of consecutive ids) -/
def ranges (l : List Nat) : String :=
  let rec go : List Nat → List (Nat × Nat) → List (Nat × Nat)
    | [], acc => acc.reverse
    | x :: xs, (a, b) :: acc => if x = b then go xs ((a, b + 1) :: acc) else go xs ((x, x + 1) :: (a, b) :: acc)
    | x :: xs, [] => go xs [(x, x + 1)]
  let parts := (go l []).map fun (a, b) => s!"{a}-{b}"
  if parts.isEmpty then "-" else ",".intercalate parts

/-- buffers holding consecutive byte ids starting at `start` -/
def mkBufs : List Nat → Nat → List (List Nat)
  | [], _ => []
  | l :: ls, start => List.range' start l :: mkBufs ls (start + l)

def sysName : Sys → String
  | .write => "write" | .writev => "writev" | .pwrite => "pwrite" | .pwritev => "pwritev"
  | .read => "read" | .readv => "readv" | .pread => "pread" | .preadv => "preadv"

def showOutcome : Outcome → String
  | .ok n => s!"{n}"
  | .fail e => s!"E{e}"

def hasOff : Sys → Bool
  | .pwrite | .pwritev | .pread | .preadv => true
  | _ => false

def showCall (c : Call Nat) (withData : Bool) : String :=
  let off := if hasOff c.sys then s!"{c.off}" else "cur"
  let base := s!"call {sysName c.sys} off={off} iov={rle (c.iov.map List.length)} ret={showOutcome c.out}"
  if withData then base ++ s!" data={ranges c.written}" else base

def marker : Nat := 1000000000

def step (iovmax : Nat) : List String → Nat × List String
  | [] => (iovmax, [])
  | ["iovmax", n] => match n.toNat? with
    | some n => (n, [s!"iovmax {n}"])
    | none => (iovmax, ["bad-op"])
  | "write_all" :: args =>
    match (kv "off" args).bind String.toInt?, (kv "bufs" args).bind parseLens, (kv "outcomes" args).bind parseOutcomes with
    | some off, some lens, some os =>
      let r := writeAll iovmax os off (mkBufs lens 0)
      (iovmax, r.calls.map (showCall · true) ++ [s!"result {r.result} off={r.off}"])
    | _, _, _ => (iovmax, ["bad-op"])
  | "read" :: args =>
    match (kv "off" args).bind String.toInt?, (kv "bufs" args).bind parseLens, (kv "outcome" args).bind parseOutcome with
    | some off, some lens, some o =>
      let bufs := lens.map fun l => List.replicate l marker
      let total := lens.foldl (· + ·) 0
      let r := fsRead iovmax off bufs o (List.range total)
      -- per buffer: how many bytes were filled; and whether the filled bytes are 0,1,2,… in order
      let fill := r.bufs.map fun b => (b.filter (· ≠ marker)).length
      let got := r.bufs.flatten.filter (· ≠ marker)
      let inorder := decide (got = List.range got.length) && decide (r.bufs.map (fun b => (b.takeWhile (· ≠ marker)).length) = fill)
      (iovmax, r.calls.map (showCall · false) ++ [s!"result {r.result} fill={rle fill} inorder={if inorder then 1 else 0}"])
    | _, _, _ => (iovmax, ["bad-op"])
  | "buf_offset" :: args =>
    match (kv "size" args).bind String.toNat?, (kv "bufs" args).bind parseLens with
    | some size, some lens =>
      let r := bufOffset (mkBufs lens 0) size
      let descr := (r.2.zip (prefixStarts lens 0)).map fun (b, s0) =>
        -- base moved by (original length − new length); print new base offset and new length
        s!"{b.headD s0}+{b.length}"
      (iovmax, [s!"offset {r.1} bufs={" ".intercalate descr}"])
    | _, _ => (iovmax, ["bad-op"])
  | "work" :: args =>
    match (kv "retry" args).bind String.toNat?, (kv "outcomes" args).bind parseOutcomes with
    | some rt, some os =>
      let r := workLoop (rt ≠ 0) os
      (iovmax, [s!"result {r.1} calls={r.2}"])
    | _, _ => (iovmax, ["bad-op"])
  | _ => (iovmax, ["bad-op"])
where
  prefixStarts : List Nat → Nat → List Nat
    | [], _ => []
    | l :: ls, s => s :: prefixStarts ls (s + l)

/-! ## mode `fsreq`: request life cycle (UvModel.FsReq); the other side is harness/c11_reqlife.c -/
section FsReqMode
open UvModel.FsReq

def opOfName (n : String) : Option Op :=
  Op.all.find? fun o => (reprStr o).splitOn "." |>.getLast? |>.map (· == n) |>.getD false

def roleName : Role → String
  | .path => "path" | .path2 => "path2" | .bufs => "bufs" | .statx => "statx" | .res => "res"
  | .dents => "dents" | .dent => "dent" | .name => "name" | .dir => "dir" | .dirstream => "dirstream"

def showLive (a : Args) (l : Ledger) : String :=
  let items := l.blocks.map fun r =>
    match r with
    | .path | .path2 | .bufs => s!"{roleName r}[{blockSize a r}]"
    | _ => roleName r
  if items.isEmpty then "-" else ",".intercalate items

def showObs (label : String) (a : Args) (o : Out) (s : St) : String :=
  let ret := match o with
    | .ret v => s!"{v}" | .cb => "-" | .none => "-" | .illegal => "ILLEGAL"
  let route := if label = "submit" then
      " route=" ++ (match s.phase with
        | .rejected => "rejected" | .done => "sync" | .queued => "pool" | .uring => "uring" | _ => "?")
    else ""
  let path := match s.req.path with | .null => "null" | .user => "user" | .heap => "heap"
  let bufs := match s.req.bufs with | .null => "null" | .sml => "sml" | .user => "user" | .heap => "heap"
  let ptr := match s.req.ptr with
    | .null => "null" | .statbuf => "statbuf" | .statx => "statx" | .res => "res" | .dents => "dents" | .dir => "dir"
  let bad := if s.l.badFree = 0 then "" else s!" BADFREE={s.l.badFree}"
  s!"{label} ret={ret}{route} live={showLive a s.l} result={s.req.result} path={path} newpath={if s.req.newPath then 1 else 0} " ++
  s!"bufs={bufs} ptr={ptr} active={s.active} cbs={s.cbs}{bad}"

def parseReqOuts (s : String) : Option (List Outcome) :=
  if s = "-" then some [] else (s.splitOn ",").mapM fun tok =>
    if tok.startsWith "ok" then (tok.drop 2).toString.toNat?.map .ok
    else if tok.startsWith "E" then (tok.drop 1).toString.toNat?.map .fail
    else none

def reqStep (st : Args × St) : List String → (Args × St) × List String
  | [] => (st, [])
  | "case" :: args =>
    match (kv "op" args).bind opOfName, (kv "cb" args).bind String.toNat?, (kv "ring" args).bind String.toNat?,
          (kv "kernel" args).bind String.toNat?, (kv "nbufs" args).bind String.toNat?, (kv "argsok" args).bind String.toNat?,
          (kv "oom" args).bind String.toNat?, (kv "plen" args).bind String.toNat?, (kv "nlen" args).bind String.toNat?,
          (kv "outs" args).bind parseReqOuts with
    | some op, some cb, some ring, some kernel, some nbufs, some argsok, some oom, some plen, some nlen, some outs =>
      -- the route table of FsBuf decides whether the front end gets an SQE
      let cfg : Cfg := ⟨cb ≠ 0, ring ≠ 0, true, true, true, kernel, decide (nbufs ≤ 1024)⟩
      let a : Args := ⟨op, cb ≠ 0, route cfg op == .uring, nbufs, argsok ≠ 0, oom ≠ 0, plen, nlen, outs⟩
      ((a, init a), [])
    | _, _, _, _, _, _, _, _, _, _ => (st, ["bad-op"])
  | [ev] =>
    let e? : Option Ev := match ev with
      | "submit" => some .submit | "cancel" => some .cancel | "done" => some .done
      | "next" => some .next | "cleanup" => some .cleanup | _ => none
    match e? with
    | some e => let r := UvModel.FsReq.step st.1 st.2 e; ((st.1, r.1), [showObs ev st.1 r.2 r.1])
    | none => (st, ["bad-op"])
  | ["work", outs] =>
    match parseReqOuts outs with
    | some os => let r := UvModel.FsReq.step st.1 st.2 (.work os); ((st.1, r.1), [showObs "work" st.1 r.2 r.1])
    | none => (st, ["bad-op"])
  | ["cqe", res] =>
    match res.toInt? with
    | some v => let r := UvModel.FsReq.step st.1 st.2 (.cqe v); ((st.1, r.1), [showObs "cqe" st.1 r.2 r.1])
    | none => (st, ["bad-op"])
  | _ => (st, ["bad-op"])

def reqInit : Args × St :=
  let a : Args := ⟨.access, false, false, 0, true, false, 0, 0, []⟩
  (a, init a)

end FsReqMode

/-- (mode name, action).  `uvdriver <mode>` runs the action (normally `runLines init step`). -/
def modes : List (String × IO Unit) := [("fsbuf", runLines 1024 step), ("fsreq", runLines reqInit reqStep)]

end Drivers.C11
