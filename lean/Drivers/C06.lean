import UvModel.DriverUtil
import UvModel.StreamR
/-! line-protocol driver for C06 (stream reads); the other side is harness/c06_sim.c.

  mode `c06` (input = the program plus the environment lines the harness logged):
    open <pipe|tcp|ipc>            new case
    allocs <n|0>...                alloc_cb answers per call (0 = refusal); afterwards 65536
    script <k> <stop|start|close>...   ops of the k-th read_cb invocation
    start | stop | close           uv_read_start / uv_read_stop / uv_close from the main program
    run <mask> <outcome>...        uv_run(NOWAIT): epoll events for the descriptor (0 = not reported; +65536 = the
                                   watcher is armed for POLLOUT by a queued write),
                                   result of every read/recvmsg call (n ≥ 0 bytes, or -errno)
    peer w <n> | peer fd <n>       the peer writes n pattern bytes (fd: with a descriptor attached)
    peer shut | peer close         the peer half-closes / closes
  output: `op ...` echo, `cb alloc <id> <size> g=<pair>`, `cb read <nread> buf=<id|-> <hex|-> g=<pair>`,
          `ret <op> <code>`, `cb close`, `bad-env ...` when the logged environment was not consumed exactly.
-/
namespace Drivers.C06
open UvModel UvModel.DriverUtil UvModel.StreamR

def hex2 (n : Nat) : String :=
  let d := fun (x : Nat) => "0123456789abcdef".toList.getD x '0'
  String.ofList [d (n / 16), d (n % 16)]

def hex8 (n : Nat) : String :=
  String.join ([n / 16777216 % 256, n / 65536 % 256, n / 256 % 256, n % 256].map hex2)

/-- Adler-32 of a byte list (large reads are reported as `<len>:<adler32>`) -/
def adler (bytes : List Nat) : Nat :=
  let r := bytes.foldl (fun (ab : Nat × Nat) x => let a := (ab.1 + x) % 65521; (a, (ab.2 + a) % 65521)) (1, 0)
  r.2 * 65536 + r.1

def patByte (pos : Nat) : Nat := (pos * 7 + 3) % 251

structure DS where
  s : St := {}
  allocs : List Nat := []
  script : List (Nat × List CbOp) := []
  pos : Nat := 0
  opened : Bool := false

def user (d : DS) : User :=
  { allocS := fun k => d.allocs.getD k 65536
    cbS := fun k => ((d.script.find? (·.1 = k)).map (·.2)).getD [] }

def opName : CbOp → String
  | .stop => "stop" | .start => "start" | .close => "close"

/-- `g` = which callback pair is registered: the harness rotates through four pairs, one per successful
    uv_read_start; the code calls `stream->alloc_cb` / `stream->read_cb` as they are at call time, i.e. the pair of
    the latest successful start = (number of `ret start 0` so far - 1) mod 4 -/
def fmtEv (g : Nat) : Ev → Option String
  | .peerW _ => none
  | .peerShut => none
  | .alloc id sz => some s!"cb alloc {id} {sz} g={(g - 1) % 4}"
  | .readCb n buf bytes =>
    let b := match buf with | some id => toString id | none => "-"
    let h := if bytes.isEmpty then "-"
             else if bytes.length > 256 then s!"{bytes.length}:{hex8 (adler bytes)}"
             else String.join (bytes.map hex2)
    some s!"cb read {n} buf={b} {h} g={(g - 1) % 4}"
  | .ret op c => some s!"ret {opName op} {c}"
  | .closeCb => some "cb close"

def isStart0 : Ev → Bool
  | .ret .start 0 => true
  | _ => false

def newEvents (old new : St) : List String :=
  let g0 := (old.trace.filter isStart0).length
  ((new.trace.drop old.trace.length).foldl (fun (acc : Nat × List String) e =>
    let g := if isStart0 e then acc.1 + 1 else acc.1
    match fmtEv g e with
    | some l => (g, l :: acc.2)
    | none => (g, acc.2)) (g0, [])).2.reverse

def parseCbOp : String → Option CbOp
  | "stop" => some .stop | "start" => some .start | "close" => some .close | _ => none

def allSome {α : Type} (l : List (Option α)) : Option (List α) :=
  l.foldr (fun x acc => match x, acc with | some a, some t => some (a :: t) | _, _ => none) (some [])

def parseOutcome (w : String) : Option Outcome :=
  match w.toInt? with
  | some i =>
    if i ≥ 0 then some (.ok i.toNat)
    else if i = -11 then some .eagain
    else if i = -4 then some .eintr
    else some (.err (-i).toNat)
  | none => none

def parseMask (w : String) : Option PollEv :=
  w.toNat?.map fun m =>
    { inn := m % 2 = 1, out := (m / 4) % 2 = 1, err := (m / 8) % 2 = 1, hup := (m / 16) % 2 = 1,
      wantOut := (m / 65536) % 2 = 1 }

def apply (d : DS) (echo : String) (o : Op) : DS × List String :=
  let s' := stepOp (user d) d.s o
  ({ d with s := s' }, [echo] ++ newEvents d.s s')

def step (d : DS) : List String → DS × List String
  | [] => (d, [])
  | ["open", kind] =>
    if kind = "pipe" ∨ kind = "tcp" ∨ kind = "ipc" then ({ opened := true, s := { ipc := kind = "ipc" } }, ["opened"]) else (d, ["bad-op"])
  | "allocs" :: l =>
    match allSome (l.map String.toNat?) with
    | some a => ({ d with allocs := d.allocs ++ a }, [])
    | none => (d, ["bad-op"])
  | "script" :: k :: ops =>
    match k.toNat?, allSome (ops.map parseCbOp) with
    | some k, some l => ({ d with script := (k, l) :: d.script }, [])
    | _, _ => (d, ["bad-op"])
  | ["start"] => apply d "op start" .start
  | ["stop"] => apply d "op stop" .stop
  | ["close"] => apply d "op close" .close
  | ["wbig"] => (d, ["op wbig"])        -- a large uv_write: write side only (its effect on POLLOUT arrives with `run`)
  | "run" :: mask :: outs =>
    match parseMask mask, allSome (outs.map parseOutcome) with
    | some ev, some reads =>
      let n0 := d.s.nSys
      let (d', out) := apply d "op run" (.poll ev reads)
      let used := d'.s.nSys - n0
      let bad := if d'.s.oracle.isEmpty ∧ used = reads.length then []
                 else [s!"bad-env model made {used} read calls, log has {reads.length}"]
      (d', out ++ bad)
    | _, _ => (d, ["bad-op"])
  | ["peer", kind, n] =>
    match n.toNat? with
    | some n =>
      if kind = "w" ∨ kind = "fd" then
        let bytes := (List.range n).map fun i => patByte (d.pos + i)
        let echo := s!"op peer {kind} {n}"
        if d.s.peerShut || !d.s.fdOpen then (d, [echo])
        else let (d', out) := apply d echo (.peerW bytes); ({ d' with pos := d.pos + n }, out)
      else (d, ["bad-op"])
    | none => (d, ["bad-op"])
  | ["peer", kind] =>
    if kind = "shut" ∨ kind = "close" then apply d s!"op peer {kind}" .peerShut else (d, ["bad-op"])
  | _ => (d, ["bad-op"])

def modes : List (String × IO Unit) := [("c06", runLines ({} : DS) step)]

end Drivers.C06
