import UvModel.DriverUtil
import UvModel.Accept
/-! line-protocol driver modes for C07; the other side is harness/c07_unit.c (mode `accept`),
harness/c07_sim.c (modes `accept`, `connect`, `wcheck`) -/
namespace Drivers.C07
open UvModel UvModel.DriverUtil UvModel.Accept

def kindOf : String → Kind
  | "t" => .tcp | "p" => .pipe | "u" => .udp | _ => .unknown

/-- `12` or `12:t` -/
def fd! (w : String) : Fd :=
  match w.splitOn ":" with
  | [i, k] => ⟨nat! i, kindOf k⟩
  | _ => ⟨nat! w, .unknown⟩

def ids (l : List Fd) : String := ",".intercalate (l.map fun f => toString f.id)

def closedAll (s : St) : List Fd := failedOpen s ++ s.byClose ++ s.dropped ++ s.shed

def kindName : Kind → String
  | .tcp => "t" | .pipe => "p" | .udp => "u" | .unknown => "-"

def showSt (old s : St) (r : Int) : String :=
  let acc := match s.acceptedFd with | none => "-" | some f => toString f.id
  let q := match s.queued with
    | none => "-"
    | some q => s!"{q.size}/{q.offset}:{ids (q.fds.take q.offset)}"
  -- descriptors closed by this op: the new tail of each close list (only one list changes per op)
  let newOf (a b : List Fd) := b.drop a.length
  let cl := newOf (failedOpen old) (failedOpen s) ++ newOf old.byClose s.byClose ++
            newOf old.dropped s.dropped ++ newOf old.shed s.shed
  let b (x : Bool) := if x then "1" else "0"
  s!"r={r} acc={acc} q={q} pollin={b s.pollin} pc={pendingCount s} spare={b s.spare} cl={ids cl}" ++
    (if s.fault then " FAULT" else "")

structure CS where
  c : Conn := {}
  delivered : Option Int := none

structure AS where
  s : Option St := none
  typed : Bool := false      -- also print pendingType (simulator mode)

def out (a : AS) (old s : St) (r : Int) : AS × List String :=
  ({ a with s := some s }, [showSt old s r ++ (if a.typed then s!" ty={kindName (pendingType s)}" else "")])

def acceptStep (a : AS) (ws : List String) : AS × List String :=
  match ws with
  | [] => (a, [])
  | ["init", r, ipc] =>
    let role := if r = "L" then Role.listen else Role.ipc
    let s := init role (ipc = "1") (role == .listen)
    out a s s 0
  | ["typed"] => ({ a with typed := true }, [])
  | _ =>
    match a.s with
    | none => (a, ["bad-op"])
    | some s =>
      match ws with
      | ["io", "ok", i] => out a s (ioBegin s (.ok (fd! i)) {}) 0
      | ["io", "err", e] => out a s (ioBegin s (.err (int! e)) {}) 0
      | "io" :: "trick" :: e :: fin :: re :: shed =>
        out a s (ioBegin s (.err (int! e)) { shedFds := shed.map fd!, final := int! fin, reopen := re = "1" }) 0
      | ["ioend"] => out a s (ioEnd s) 0
      | ["accept", k, e] =>
        let c := if k = "U" then ClientTy.udp else if k = "X" then ClientTy.other else ClientTy.stream
        if k ∈ ["S", "T", "B", "U", "X"] then
          -- the harness initialises a fresh stream client first (uv__stream_init re-opens the spare fd)
          let s1 := if k ∈ ["S", "T", "B"] then streamInit s true else s
          let (s', r) := uvAccept s1 c (int! e)
          let (a', o) := out a s s' r
          let got := if r == 0 && s'.taken.length > s.taken.length then
              match s'.taken.getLast? with | some (f, _) => s!" got={f.id}" | none => "" else ""
          (a', o.map (· ++ got))
        else (a, ["bad-op"])
      | "recv" :: f :: fds =>
        let (s', r) := recv s (fds.map fd!) (if f = "-" then none else some (nat! f))
        out a s s' r
      | ["close"] => out a s (close s) 0
      | _ => (a, ["bad-op"])

/-- mode `wcheck`: `w2|tw2 <fd> <writable> <isPipe> <ipc> <connecting> <wq> <hfd|->` -/
def wcheckStep (u : Unit) (ws : List String) : Unit × List String :=
  match ws with
  | [] => (u, [])
  | [fn, fd, wr, ip, ipc, cn, wq, h] =>
    let s : WStream := { fd := int! fd, writable := wr = "1", isPipe := ip = "1", ipc := ipc = "1",
                         connecting := cn = "1", wqSize := nat! wq }
    let send := if h = "-" then none else some (int! h)
    let r := if fn = "w2" then some (write2Check s send) else if fn = "tw2" then some (tryWrite2Check s send) else none
    match r with
    | none => (u, ["bad-op"])
    | some none => (u, ["pass"])
    | some (some e) => (u, [s!"refuse {e}"])
  | _ => (u, ["bad-op"])

/-- mode `connect`: `bind <r>` | `tcp <sockErr> <r>` | `pipe <argErr> <sockErr> <r>` | `io <soError>` | `close` | `destroy` -/
def connectStep (c : Conn) (ws : List String) : Conn × List String :=
  let cbsOf (old new : Conn) := (new.cbs.drop old.cbs.length).map fun (r, st) => s!"cb {r} {st}"
  match ws with
  | [] => (c, [])
  | ["reset"] => ({}, ["reset"])
  | ["bind", r] => let (c', rc) := tcpBind c (int! r); (c', [s!"bind {rc}"])
  | ["tcp", e, r] => let (c', rc) := tcpConnect c (int! e) (int! r); (c', [s!"ret {rc} connects={c'.connectCalls}"])
  | ["pipe", a, e, r] => let (c', rc) := pipeConnect c (int! a) (int! e) (int! r); (c', [s!"ret {rc} connects={c'.connectCalls}"])
  | ["io", so] => let c' := streamConnect c (int! so); (c', cbsOf c c')
  | ["close"] => (connClose c, [])
  | ["destroy"] => let c' := connDestroy c; (c', cbsOf c c')
  | _ => (c, ["bad-op"])

/-- mode `retry`: like `connect`, with the callback of uv__stream_connect opened up:
`tcp|pipe …` | `iopre <soError>` (up to the callback) | `iopost` (after it) | `st` | `close` | `destroy` -/
def retryStep (s : CS) (ws : List String) : CS × List String :=
  let cbsOf (old new : Conn) := (new.cbs.drop old.cbs.length).map fun (r, st) => s!"cb {r} {st}"
  let b (x : Bool) := if x then "1" else "0"
  match ws with
  | [] => (s, [])
  | ["tcp", e, r] => let (c', rc) := tcpConnect s.c (int! e) (int! r); ({ s with c := c' }, [s!"ret {rc}"])
  | ["pipe", a, e, r] => let (c', rc) := pipeConnect s.c (int! a) (int! e) (int! r); ({ s with c := c' }, [s!"ret {rc}"])
  | ["iopre", so] => let (c', d) := connPre s.c (int! so); ({ c := c', delivered := d }, cbsOf s.c c')
  | ["iopost"] => let c' := connPost s.c s.delivered; ({ c := c', delivered := none }, [])
  | ["st"] => (s, [s!"st pollout={b s.c.pollout} pending={b s.c.connectReq.isSome}"])
  | ["close"] => ({ s with c := connClose s.c }, [])
  | ["destroy"] => let c' := connDestroy s.c; ({ s with c := c' }, cbsOf s.c c')
  | _ => (s, ["bad-op"])

/-- mode `send`: `enq <bytes> <handle id|->` | `sys <result>` (one syscall of uv__write on the head request) -/
def sendStep (s : SSt) (ws : List String) : SSt × List String :=
  match ws with
  | [] => (s, [])
  | ["enq", b, h] => (enq s (nat! b) (if h = "-" then none else some (nat! h)), [])
  | ["sys", r] =>
    match s.queue with
    | [] => (s, ["bad-op"])
    | req :: _ =>
      let h := match req.handle with | some x => toString x | none => "-"
      (attempt s (int! r), [s!"req={req.id} handle={h} asked={req.remaining}"])
  | _ => (s, ["bad-op"])

def modes : List (String × IO Unit) :=
  [("accept", runLines ({} : AS) acceptStep), ("wcheck", runLines () wcheckStep),
   ("connect", runLines ({} : Conn) connectStep), ("send", runLines ({} : SSt) sendStep),
   ("retry", runLines ({} : CS) retryStep)]

end Drivers.C07
