import UvModel.DriverUtil
/-! line-protocol driver modes for C03 (stub: no modes yet) -/
namespace Drivers.C03
open UvModel.DriverUtil

/-- (mode name, action).  `uvdriver <mode>` runs the action (normally `runLines init step`). -/
def modes : List (String × IO Unit) := []

end Drivers.C03
