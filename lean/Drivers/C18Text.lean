import UvModel.DriverUtil
import UvModel.Utf8
import UvModel.Puny
import UvModel.Wtf8
import UvModel.GaiHost
/-! line-protocol driver for the text half of C18; the other side is harness/c18_text.c.
    Ops (one per line; byte strings are hex, `-` = empty; UTF-16 units are 4-digit hex joined by `,`):
      u8 <hex>                 uv__utf8_decode1 on [p, pe)        -> u8 <value|-1> <consumed>
      ta <hex> <cap>           uv__idna_toascii into cap bytes     -> ta <rc> <cap bytes, untouched = aa>
      w8 <hex>                 uv_wtf8_length_as_utf16 / to_utf16  -> w8 <len|-1> <units|->
      u16 <z|n> <units> <alloc|N>  uv_utf16_length_as_wtf8 / uv_utf16_to_wtf8
                                                                   -> u16 <len> <rc> <reported> <target bytes, untouched = aa>
    mode `c18gai` (other side: harness/c18_gai.c, uv_getaddrinfo with the resolver interposed):
      gai <host hex|-|null> <service hex|-|null> <null | flags,family,socktype,protocol> <sync|async|noreq> <ans>
          -> gai rc=<rc> calls=<0|1> node=<hex|-|null> svc=<hex|-|null> hints=<null|f,f,s,p> status=<int|none> res=<0|1>
-/
namespace Drivers.C18Text
open UvModel.DriverUtil

def hexVal (c : Char) : Option Nat :=
  if '0' ≤ c ∧ c ≤ '9' then some (c.toNat - 48)
  else if 'a' ≤ c ∧ c ≤ 'f' then some (c.toNat - 87)
  else if 'A' ≤ c ∧ c ≤ 'F' then some (c.toNat - 55)
  else none

def parseHex2 : List Char → Option (List Nat)
  | [] => some []
  | a :: b :: r =>
    match hexVal a, hexVal b, parseHex2 r with
    | some x, some y, some l => some ((x * 16 + y) :: l)
    | _, _, _ => none
  | _ => none

def parseBytes (s : String) : Option (List Nat) :=
  if s = "-" then some [] else parseHex2 s.toList

def parseUnits (s : String) : Option (List Nat) :=
  if s = "-" then some []
  else (s.splitOn ",").mapM fun w =>
    match parseHex2 w.toList with
    | some [hi, lo] => some (hi * 256 + lo)
    | _ => none

def hexDigit (n : Nat) : Char := if n < 10 then Char.ofNat (48 + n) else Char.ofNat (87 + n)
def hex2 (b : Nat) : String := String.ofList [hexDigit (b / 16 % 16), hexDigit (b % 16)]
def hex4 (u : Nat) : String := hex2 (u / 256) ++ hex2 (u % 256)
def hexBytes (l : List Nat) : String := if l = [] then "-" else String.join (l.map hex2)
def hexUnits (l : List Nat) : String := if l = [] then "-" else ",".intercalate (l.map hex4)

def step (_ : Unit) : List String → Unit × List String
  | [] => ((), [])
  | ["u8", h] =>
    match parseBytes h with
    | some (a :: l) =>
      let r := UvModel.Utf8.decode1 (a :: l)
      ((), [s!"u8 {match r.1 with | some v => toString v | none => "-1"} {r.2}"])
    | _ => ((), ["bad-op"])
  | ["ta", h, cap] =>
    match parseBytes h, cap.toNat? with
    | some l, some cap =>
      let r := UvModel.Puny.toascii l cap
      let buf := r.2.out ++ List.replicate (cap - r.2.out.length) 0xaa
      ((), [s!"ta {r.1} {hexBytes buf}"])
    | _, _ => ((), ["bad-op"])
  | ["w8", h] =>
    match parseBytes h with
    | some l =>
      match UvModel.Wtf8.lengthAsUtf16 l with
      | none => ((), ["w8 -1 -"])
      | some n =>
        match UvModel.Wtf8.toUtf16 l with
        | some us => ((), [s!"w8 {n} {hexUnits us}"])
        | none => ((), [s!"w8 {n} assert"])
    | none => ((), ["bad-op"])
  | ["u16", zs, us, tgt] =>
    let z? : Option Bool := if zs = "z" then some true else if zs = "n" then some false else none
    let t? : Option (Option Nat) := if tgt = "alloc" then some none else tgt.toNat?.map some
    match z?, parseUnits us, t? with
    | some z, some src, some t =>
      let r := UvModel.Wtf8.toWtf8 z src t
      let len := UvModel.Wtf8.lengthAsWtf8 z src
      let size := (match t with | some n => n | none => len) + 1
      let buf := r.out ++ List.replicate (size - r.out.length) 0xaa
      ((), [s!"u16 {len} {r.rc} {r.reported} {hexBytes buf}"])
    | _, _, _ => ((), ["bad-op"])
  | _ => ((), ["bad-op"])

open UvModel.GaiHost in
def parseOptBytes (s : String) : Option (Option (List Nat)) :=
  if s = "null" then some none
  else match parseBytes s with
    | some l => if l.contains 0 then none else some (some l)
    | none => none

open UvModel.GaiHost in
def parseHints (s : String) : Option (Option Hints) :=
  if s = "null" then some none
  else match (s.splitOn ",").mapM String.toInt? with
    | some [f, fa, st, pr] => some (some { flags := f, family := fa, socktype := st, protocol := pr })
    | _ => none

def optHex : Option (List Nat) → String
  | none => "null"
  | some l => hexBytes l

open UvModel.GaiHost in
def gaiStep (_ : Unit) : List String → Unit × List String
  | [] => ((), [])
  | ["gai", h, s, hi, mode, ans] =>
    let m? : Option Nat := if mode = "sync" then some 0 else if mode = "async" then some 1
                           else if mode = "noreq" then some 2 else none
    match parseOptBytes h, parseOptBytes s, parseHints hi, m?, ans.toInt?.bind translate with
    | some host, some svc, some hints, some m, some tr =>
      match prep (m == 2) host svc hints with
      | .err rc => ((), [s!"gai rc={rc} calls=0 node=null svc=null hints=null status=none res=0"])
      | .call node sv hn =>
        let hs := match hn with
          | none => "null"
          | some x => s!"{x.flags},{x.family},{x.socktype},{x.protocol}"
        let rc : Int := if m == 0 then tr else 0
        let st := if m == 0 then "none" else toString tr
        let res := if tr == 0 then 1 else 0
        ((), [s!"gai rc={rc} calls=1 node={optHex node} svc={optHex sv} hints={hs} status={st} res={res}"])
    | _, _, _, _, _ => ((), ["bad-op"])
  | _ => ((), ["bad-op"])

def modes : List (String × IO Unit) := [("c18text", runLines () step), ("c18gai", runLines () gaiStep)]

end Drivers.C18Text
