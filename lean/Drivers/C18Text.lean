import UvModel.DriverUtil
import UvModel.Utf8
import UvModel.Puny
import UvModel.Wtf8
/-! line-protocol driver for the text half of C18; the other side is harness/c18_text.c.
    Ops (one per line; byte strings are hex, `-` = empty; UTF-16 units are 4-digit hex joined by `,`):
      u8 <hex>                 uv__utf8_decode1 on [p, pe)        -> u8 <value|-1> <consumed>
      ta <hex> <cap>           uv__idna_toascii into cap bytes     -> ta <rc> <cap bytes, untouched = aa>
      w8 <hex>                 uv_wtf8_length_as_utf16 / to_utf16  -> w8 <len|-1> <units|->
      u16 <z|n> <units> <alloc|N>  uv_utf16_length_as_wtf8 / uv_utf16_to_wtf8
                                                                   -> u16 <len> <rc> <reported> <target bytes, untouched = aa>
-/
namespace Drivers.C18Text
open UvModel.DriverUtil

def hexVal (c : Char) : Option Nat :=
  if '0' ≤ c ∧ c ≤ '9' then some (c.toNat - 48)
  else if 'a' ≤ c ∧ c ≤ 'f' then some (c.toNat - 87)
  else if 'A' ≤ c ∧ c ≤ 'F' then some (c.toNat - 55)
  else none

def parseHex2 : List Char → Option (List Nat)
  | [] => some []
  | a :: b :: r =>
    match hexVal a, hexVal b, parseHex2 r with
    | some x, some y, some l => some ((x * 16 + y) :: l)
    | _, _, _ => none
  | _ => none

def parseBytes (s : String) : Option (List Nat) :=
  if s = "-" then some [] else parseHex2 s.toList

def parseUnits (s : String) : Option (List Nat) :=
  if s = "-" then some []
  else (s.splitOn ",").mapM fun w =>
    match parseHex2 w.toList with
    | some [hi, lo] => some (hi * 256 + lo)
    | _ => none

def hexDigit (n : Nat) : Char := if n < 10 then Char.ofNat (48 + n) else Char.ofNat (87 + n)
def hex2 (b : Nat) : String := String.ofList [hexDigit (b / 16 % 16), hexDigit (b % 16)]
def hex4 (u : Nat) : String := hex2 (u / 256) ++ hex2 (u % 256)
def hexBytes (l : List Nat) : String := if l = [] then "-" else String.join (l.map hex2)
def hexUnits (l : List Nat) : String := if l = [] then "-" else ",".intercalate (l.map hex4)

def step (_ : Unit) : List String → Unit × List String
  | [] => ((), [])
  | ["u8", h] =>
    match parseBytes h with
    | some (a :: l) =>
      let r := UvModel.Utf8.decode1 (a :: l)
      ((), [s!"u8 {match r.1 with | some v => toString v | none => "-1"} {r.2}"])
    | _ => ((), ["bad-op"])
  | ["ta", h, cap] =>
    match parseBytes h, cap.toNat? with
    | some l, some cap =>
      let r := UvModel.Puny.toascii l cap
      let buf := r.2.out ++ List.replicate (cap - r.2.out.length) 0xaa
      ((), [s!"ta {r.1} {hexBytes buf}"])
    | _, _ => ((), ["bad-op"])
  | ["w8", h] =>
    match parseBytes h with
    | some l =>
      match UvModel.Wtf8.lengthAsUtf16 l with
      | none => ((), ["w8 -1 -"])
      | some n =>
        match UvModel.Wtf8.toUtf16 l with
        | some us => ((), [s!"w8 {n} {hexUnits us}"])
        | none => ((), [s!"w8 {n} assert"])
    | none => ((), ["bad-op"])
  | ["u16", zs, us, tgt] =>
    let z? : Option Bool := if zs = "z" then some true else if zs = "n" then some false else none
    let t? : Option (Option Nat) := if tgt = "alloc" then some none else tgt.toNat?.map some
    match z?, parseUnits us, t? with
    | some z, some src, some t =>
      let r := UvModel.Wtf8.toWtf8 z src t
      let len := UvModel.Wtf8.lengthAsWtf8 z src
      let size := (match t with | some n => n | none => len) + 1
      let buf := r.out ++ List.replicate (size - r.out.length) 0xaa
      ((), [s!"u16 {len} {r.rc} {r.reported} {hexBytes buf}"])
    | _, _, _ => ((), ["bad-op"])
  | _ => ((), ["bad-op"])

def modes : List (String × IO Unit) := [("c18text", runLines () step)]

end Drivers.C18Text
