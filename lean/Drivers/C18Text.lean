import UvModel.DriverUtil
/-! line-protocol driver modes for the text half of C18 (stub: no modes yet) -/
namespace Drivers.C18Text
open UvModel.DriverUtil

def modes : List (String × IO Unit) := []

end Drivers.C18Text
