import UvModel.DriverUtil
import UvModel.ProcFd
/-! line-protocol driver for C12; other side: harness/c12_childinit.c -/
namespace Drivers.C12
open UvModel.DriverUtil UvModel.ProcFd

def fileName : File → String
  | .desc id => s!"f{id}"
  | .devNull false => "nullr"
  | .devNull true => "nullw"

def dumpTab (t : Tab) : String :=
  String.join ((List.range t.bound).filterMap fun fd =>
    (t.get fd).map fun e => s!" {fd}:{fileName e.file}:{if e.cloexec then "c" else "-"}")

/-- `T 3 4n 7` : fd 3 and 7 open close-on-exec, fd 4 open inheritable; fd k refers to file k -/
def parseInit (ws : List String) : Tab :=
  ws.foldl (fun t w =>
    let cx := !w.endsWith "n"
    let fd := nat! (if cx then w else (w.dropEnd 1).toString)
    t.set fd (some ⟨.desc fd, cx⟩)) Tab.empty

/-- mode `childinit`: `ci <errfd> <cnt> <src>*cnt T <fd>[n]*` -/
def ciStep (_ : Unit) : List String → Unit × List String
  | "ci" :: e :: n :: rest =>
    let cnt := nat! n
    let srcs := (rest.take cnt).map (fun s => int! s)
    match rest.drop cnt with
    | "T" :: fds =>
      if srcs.length ≠ cnt then ((), ["bad-op"]) else
      let t := parseInit fds
      match childInit t srcs (nat! e) with
      | .ok t' e' => ((), [s!"ok {e'}", "pre" ++ dumpTab t', "post" ++ dumpTab (execClose t')])
      | .fail t' e' => ((), [s!"fail {e'}", "pre" ++ dumpTab t'])
    | _ => ((), ["bad-op"])
  | [] => ((), [])
  | _ => ((), ["bad-op"])

structure WS where
  n : Nat := 0
  tracked : List Nat := []

def dumpTracked (l : List Nat) : String := "tracked" ++ String.join (l.map fun i => s!" {i}")

def parseRes : String → Option WaitRes
  | "-" => some .running
  | "E" => some .echild
  | s => s.toNat?.map .reaped

def parseStdio (w : String) : Option Stdio :=
  if w == "i" then some .ignore
  else if w == "p" then some .createPipe
  else if w.startsWith "f" then (w.drop 1).toString.toInt?.map .inheritFd
  else none

def showSlot : Slot → String
  | .fd n => s!" {n}"
  | .pipeEnd => " p"

def spawnWith (s : WS) (r : PipeRead) (pre : List String := []) : WS × List String :=
  let o := spawnParent r
  let s' : WS := { n := s.n + 1, tracked := if o.activated then s.tracked ++ [s.n] else s.tracked }
  let line := if o.ret = 0 then s!"ret 0 active {if o.activated then 1 else 0}"
    else s!"ret {o.ret} active {if o.activated then 1 else 0} reaped {if o.reapedSync then 1 else 0}"
  (s', pre ++ [line, dumpTracked s'.tracked])

/-- mode `wait`: `spawn` | `spawnl <i|f<fd>|p>*` | `spawnfail errno` | `forkfail errno` | `round <res per tracked child>` | `close id` | `dec w` | `reset` -/
def waitStep (s : WS) : List String → WS × List String
  | ["reset"] => ({}, [dumpTracked []])
  | ["spawn"] => spawnWith s .eof
  | ["spawnfail", e] => spawnWith s (.errno (nat! e))
  | ["fill", _] => (s, [])   -- harness-only: byte pattern of fresh heap blocks
  | ["forkfail", e] => spawnWith s (.forkFailed (nat! e))
  | "spawnl" :: ws =>
    match ws.mapM parseStdio with
    | none => (s, ["bad-op"])
    | some st => spawnWith s .eof ["pipes" ++ String.join ((parentTable st).map showSlot)]
  | ["close", id] =>
    let s' : WS := { s with tracked := s.tracked.filter (· ≠ nat! id) }; (s', [dumpTracked s'.tracked])
  | "round" :: rs =>
    if rs.length ≠ s.tracked.length then (s, ["bad-op"]) else
    match rs.mapM parseRes with
    | none => (s, ["bad-op"])
    | some rl =>
      let tbl := s.tracked.zip rl
      let res : Nat → WaitRes := fun c => ((tbl.find? (·.1 == c)).map (·.2)).getD .echild
      let (tr, evs) := waitChildren res s.tracked
      ({ s with tracked := tr }, evs.map (fun e => s!"cb {e.id} {e.exitStatus} {e.termSignal}") ++ [dumpTracked tr])
  | ["dec", w] => let d := decode (nat! w); (s, [s!"dec {d.1} {d.2}"])
  | [] => (s, [])
  | _ => (s, ["bad-op"])

def modes : List (String × IO Unit) :=
  [("childinit", runLines () ciStep), ("wait", runLines ({} : WS) waitStep)]

end Drivers.C12
