import UvModel.DriverUtil
import UvModel.Heap
import UvModel.Timer
/-! line-protocol driver for C04 (heap and timers); see harness/c04_*.c for the other side -/
namespace Drivers.C04
open UvModel UvModel.DriverUtil UvModel.Heap UvModel.Timer

def dumpHeap (a : H) : String :=
  "heap" ++ String.join (a.toList.map fun e => s!" {e.timeout}:{e.startId}:{e.id}")

/-- mode `heap`: ins t s id | rem id | reset -/
def heapStep (a : H) : List String → H × List String
  | ["reset"] => (#[], ["heap"])
  | ["ins", t, s, id] =>
    let a := insert a ⟨nat! t, nat! s, nat! id⟩
    (a, [dumpHeap a])
  | ["rem", id] =>
    match indexOf? a (nat! id) with
    | some i => let a := remove a i; (a, [dumpHeap a])
    | none => (a, ["bad-op"])
  | [] => (a, [])
  | _ => (a, ["bad-op"])

structure TS where
  s : S := {}
  script : List (Nat × List Op) := []

def parseOp (w : String) : Option Op :=
  match w.splitOn ":" with
  | ["start", id, t, r] => some (.start (nat! id) (nat! t) (nat! r))
  | ["stop", id] => some (.stop (nat! id))
  | ["again", id] => some (.again (nat! id))
  | ["setrep", id, r] => some (.setRepeat (nat! id) (nat! r))
  | ["close", id] => some (.close (nat! id))
  | _ => none

def obs (s : S) : String :=
  let act := String.join ((List.range s.ts.size).map fun i =>
    let t := getT s i
    s!" {i}:{if t.active then 1 else 0}{if t.closing then "c" else ""}")
  s!"obs time={s.time} act{act} " ++ dumpHeap s.heap

def timerStep (st : TS) : List String → TS × List String
  | ["lag", _] => (st, [])     -- lag of the coarse clock behind the precise one: invisible to correct code
  | ["init", n] => ({ s := { ts := Array.replicate (nat! n) {} }, script := [] },
      ["loopinit time=0", obs { ts := Array.replicate (nat! n) {} }])
  | ["time", t] => let s := updateTime st.s (nat! t); ({ st with s := s }, [obs s])
  | ["start", id, t, r] =>
    let (s, rc) := start st.s (nat! id) (nat! t) (nat! r)
    ({ st with s := s }, [s!"ret {rc}", obs s])
  | ["stop", id] => let s := stop st.s (nat! id); ({ st with s := s }, ["ret 0", obs s])
  | ["again", id] =>
    let (s, rc) := again st.s (nat! id)
    ({ st with s := s }, [s!"ret {rc}", obs s])
  | ["setrep", id, r] => let s := setRepeat st.s (nat! id) (nat! r); ({ st with s := s }, [obs s])
  | ["close", id] => let s := close st.s (nat! id); ({ st with s := s }, [obs s])
  | ["duein", id] => (st, [s!"duein {dueIn st.s (nat! id)}"])
  | ["next"] => (st, [s!"next {nextTimeout st.s}"])
  | "script" :: k :: ops =>
    ({ st with script := (nat! k, ops.filterMap parseOp) :: st.script }, [])
  | ["run"] =>
    let sc : Script := fun k => ((st.script.find? (·.1 = k)).map (·.2)).getD []
    let s0 := { st.s with trace := [] }
    let s := runTimers sc s0
    let cbs := s.trace.reverse.map fun (id, t) => s!"cb {id} {t}"
    ({ st with s := s }, cbs ++ ["ran", obs s])
  | [] => (st, [])
  | _ => (st, ["bad-op"])

def modes : List (String × IO Unit) :=
  [("heap", runLines (#[] : H) heapStep), ("timer", runLines ({} : TS) timerStep)]

end Drivers.C04
