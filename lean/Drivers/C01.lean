import UvModel.DriverUtil
import UvModel.LoopRun
/-! line-protocol driver for the loop model (C01, C02, C03): mode `loop`.
    Input: the program given to harness/sim_loop.c (`config`, `on`, `op` lines) plus the
    harness's `env poll` lines (the environment's answers, consumed in order) and a final `go`.
    Output: every `op … -> ret`, `cb … endcb`, `env poll`, `obs` line the implementation must print. -/
namespace Drivers.C01
open UvModel UvModel.DriverUtil UvModel.Loop UvModel.HandleKernels

def kindOfName : String → Option Kind
  | "timer" => some .timer | "idle" => some .idle | "prepare" => some .prepare | "check" => some .check
  | "async" => some .async | "poll" => some .poll | "tcp" => some .tcp | "udp" => some .udp
  | "pipe" => some .pipe | "signal" => some .signal | "fs_event" => some .fsEvent | _ => none

def kindName : Kind → String
  | .timer => "timer" | .idle => "idle" | .prepare => "prepare" | .check => "check" | .async => "async"
  | .poll => "poll" | .tcp => "tcp" | .udp => "udp" | .pipe => "pipe" | .signal => "signal" | .fsEvent => "fs_event"

/-- `h7` → 9 (ids 0,1 are the loop's internal handles) -/
def hId (w : String) : Option Nat :=
  if w.startsWith "h" then ((w.drop 1).toNat?).map (· + 2) else none
def rId (w : String) : Option Nat :=
  if w.startsWith "r" then (w.drop 1).toNat? else none

def parseOp (ws : List String) : Op :=
  let bad := Op.bad (" ".intercalate ws)
  match ws with
  | ["init", k] => match kindOfName k with | some k => .init k | none => bad
  | ["start", h, a, b] => match hId h, a.toNat?, b.toNat? with | some h, some a, some b => .start h a b | _, _, _ => bad
  | ["stop", h] => match hId h with | some h => .stop h | none => bad
  | ["again", h] => match hId h with | some h => .again h | none => bad
  | ["set_repeat", h, v] => match hId h, v.toNat? with | some h, some v => .setRepeat h v | _, _ => bad
  | ["ref", h] => match hId h with | some h => .ref h | none => bad
  | ["unref", h] => match hId h with | some h => .unref h | none => bad
  | ["close", h] => match hId h with | some h => .close h | none => bad
  | ["async_send", h] => match hId h with | some h => .asyncSend h | none => bad
  | ["bind", h] => match hId h with | some h => .bind h | none => bad
  | ["udp_send", h] => match hId h with | some h => .udpSend h | none => bad
  | ["work"] => .work .queueWork
  | ["fs", "open"] => .work (.fs .open 0)
  | ["fs", "close"] => .work (.fs .close 0)
  | ["fs", "stat"] => .work (.fs .stat 0)
  | ["fs", "open", "missing"] => .work (.fs .open 1)     -- the operation fails (ENOENT / EBADF): same accounting
  | ["fs", "close", "bad"] => .work (.fs .close 1)
  | ["fs", "stat", "missing"] => .work (.fs .stat 1)
  | ["fs", "read", n] => match n.toNat? with | some n => if n == 0 then bad else .work (.fs .read n) | none => bad
  | ["fs", "write", n] => match n.toNat? with | some n => if n == 0 then bad else .work (.fs .write n) | none => bad
  | ["getaddrinfo"] => .work .getaddrinfo
  | ["getnameinfo"] => .work .getnameinfo
  | ["random"] => .work .random
  | ["use_iouring"] => .useIoUring
  | ["work_null"] => .workNull
  | ["reject", "getaddrinfo"] => .reject 0
  | ["reject", "getnameinfo"] => .reject 1
  | ["reject", "random"] => .reject 2
  | ["connect_bad", h] => match hId h with | some h => .connectBad h | none => bad
  | ["udp_send_bad", h] => match hId h with | some h => .udpSendBad h | none => bad
  | ["cancel", r] => match rId r with | some r => .cancel r | none => bad
  | ["stop_loop"] => .stopLoop
  | ["update_time"] => .updateTime
  | ["advance", n] => match n.toNat? with | some n => .advance n | none => bad
  | ["alive"] => .getAlive
  | ["backend_timeout"] => .getBackendTimeout
  | ["now"] => .getNow
  | ["is_active", h] => match hId h with | some h => .isActive h | none => bad
  | ["has_ref", h] => match hId h with | some h => .hasRef h | none => bad
  | ["is_closing", h] => match hId h with | some h => .isClosing h | none => bad
  | ["due_in", h] => match hId h with | some h => .dueIn h | none => bad
  | ["make_readable", h] => match hId h with | some h => .env "make_readable" h | none => bad
  | ["drain", h] => match hId h with | some h => .env "drain" h | none => bad
  | ["peer_reset", h] => match hId h with | some h => .env "peer_reset" h | none => bad
  | _ => bad

def hn (id : Nat) : String := s!"h{id - 2}"

/-- canonical program text of an op (`start` always carries two numeric arguments) -/
def opText : Op → String
  | .init k => s!"init {kindName k}"
  | .start h a b => s!"start {hn h} {a} {b}"
  | .stop h => s!"stop {hn h}"
  | .again h => s!"again {hn h}"
  | .setRepeat h v => s!"set_repeat {hn h} {v}"
  | .ref h => s!"ref {hn h}"
  | .unref h => s!"unref {hn h}"
  | .close h => s!"close {hn h}"
  | .asyncSend h => s!"async_send {hn h}"
  | .bind h => s!"bind {hn h}"
  | .udpSend h => s!"udp_send {hn h}"
  | .work .queueWork => "work"
  | .work (.fs .open n) => if n == 0 then "fs open" else "fs open missing"
  | .work (.fs .close n) => if n == 0 then "fs close" else "fs close bad"
  | .work (.fs .stat n) => if n == 0 then "fs stat" else "fs stat missing"
  | .work (.fs .read n) => s!"fs read {n}"
  | .work (.fs .write n) => s!"fs write {n}"
  | .work .getaddrinfo => "getaddrinfo"
  | .work .getnameinfo => "getnameinfo"
  | .work .random => "random"
  | .useIoUring => "use_iouring"
  | .workNull => "work_null"
  | .reject a => "reject " ++ (if a == 0 then "getaddrinfo" else if a == 1 then "getnameinfo" else "random")
  | .connectBad h => s!"connect_bad {hn h}"
  | .udpSendBad h => s!"udp_send_bad {hn h}"
  | .cancel r => s!"cancel r{r}"
  | .stopLoop => "stop_loop"
  | .updateTime => "update_time"
  | .advance n => s!"advance {n}"
  | .getAlive => "alive"
  | .getBackendTimeout => "backend_timeout"
  | .getNow => "now"
  | .isActive h => s!"is_active {hn h}"
  | .hasRef h => s!"has_ref {hn h}"
  | .isClosing h => s!"is_closing {hn h}"
  | .dueIn h => s!"due_in {hn h}"
  | .env n h => s!"{n} {hn h}"
  | .bad t => t

def modeName : Mode → String
  | .default => "DEFAULT" | .once => "ONCE" | .nowait => "NOWAIT"
def modeOf : String → Option Mode
  | "DEFAULT" => some .default | "ONCE" => some .once | "NOWAIT" => some .nowait | _ => none

def ownerName : Owner → String
  | .async => "async" | .h id => hn id | .inotify => "inotify" | .signal => "signal" | .other => "other"
  | .ring cq => "ring=" ++ (if cq.isEmpty then "-" else ",".intercalate (cq.map fun r => s!"r{r}"))
def ownerOf (w : String) : Owner :=
  if w == "async" then .async else if w == "signal" then .signal else if w == "inotify" then .inotify
  else if w.startsWith "ring=" then
    let t := (w.drop 5).toString
    .ring (if t == "-" then [] else (t.splitOn ",").filterMap rId)
  else match hId w with | some h => .h h | none => .other

def b01 (b : Bool) : String := if b then "1" else "0"
def flagStr (a r c : Bool) : String := (if a then "A" else "-") ++ (if r then "R" else "-") ++ (if c then "C" else "-")

def renderObs (o : Obs) : String :=
  s!"obs alive={b01 o.alive} ah={o.ah} ar={o.ar} stop={b01 o.stop} nh={o.nh} now={o.now} pq={if o.pq.isEmpty then "-" else ",".intercalate (o.pq.map hn)}" ++
  String.join (o.hs.map fun (id, a, r, c) => s!" {hn id}={flagStr a r c}")

def render : Event → List String
  | .op o (some r) => [s!"op {opText o} -> ret {r}"]
  | .op o none => [s!"op {opText o} -> bad-op"]
  | .cb _ k id a b =>
    match k with
    | .timer => [s!"cb timer {hn id}"] | .idle => [s!"cb idle {hn id}"] | .prepare => [s!"cb prepare {hn id}"]
    | .check => [s!"cb check {hn id}"] | .async => [s!"cb async {hn id}"]
    | .poll => [s!"cb poll {hn id} {a} {b}"]
    | .close => [s!"cb close {hn id} {flagStr (a % 2 == 1) (a / 2 % 2 == 1) (a / 4 % 2 == 1)}"]
    | .work =>
      let name := if b == 1 then "fs" else if b == 2 then "getaddrinfo" else if b == 3 then "getnameinfo"
                  else if b == 4 then "random" else "work"
      [s!"cb {name} r{id} {a}"]
    | .udpSend => [s!"cb udp_send r{id} {a}"]
    | .connect => [s!"cb connect r{id} {a}"]
  | .endcb => ["endcb"]
  | .poll it t r =>
    let head := s!"env poll iter={it} timeout={t} clock={r.clock} done={r.done} ->"
    if r.eintr then [head ++ " EINTR"] else if r.deadlock then [head ++ " DEADLOCK"]
    else [head ++ String.join (r.batch.map fun (o, e) => s!" {ownerName o}:{e}") ++ (if r.full then " FULL" else "")]
  | .obs o => [renderObs o]
  | .runBegin m => [s!"run {modeName m}"]
  | .runEnd m r => [s!"op run {modeName m} -> ret {b01 r}"]
  | .iterBegin => []
  | .loopClose rc => if rc == 0 then ["op loop_close -> ret 0", "obs closed fds=restored"] else [s!"op loop_close -> ret {rc}"]

structure Prog where
  metrics : Bool := false
  clock0 : Nat := 1000
  cblimit : Nat := 1000000
  table : List (CbKey × Nat × List Op) := []
  main : List MainOp := []
  oracle : List PollRes := []
  bad : List String := []
  ringEnv : Bool := true

def splitOn (ws : List String) (sep : String) : List (List String) :=
  let (acc, cur) := ws.foldl (fun (acc, cur) w => if w == sep then (acc ++ [cur], []) else (acc, cur ++ [w])) ([], [])
  (acc ++ [cur]).filter (· ≠ [])

def keyOf (w : String) : Option CbKey :=
  if w.startsWith "h" then ((w.drop 1).toNat?).map (fun n => CbKey.h (n + 2))
  else if w.startsWith "c" then ((w.drop 1).toNat?).map (fun n => CbKey.c (n + 2))
  else if w.startsWith "r" then ((w.drop 1).toNat?).map CbKey.r
  else none

def kv (w : String) (k : String) : Option String :=
  if w.startsWith (k ++ "=") then some (w.drop (k.length + 1)).toString else none

def parsePoll (ws : List String) : PollRes :=
  -- ws = ["timeout=..", "clock=..", "done=..", "->", ...]
  let clock := (ws.findSome? (kv · "clock")).bind (·.toNat?) |>.getD 0
  let done := (ws.findSome? (kv · "done")).bind (·.toNat?) |>.getD 0
  let after := (ws.dropWhile (· ≠ "->")).drop 1
  match after with
  | ["EINTR"] => { eintr := true, clock := clock, done := done }
  | ["DEADLOCK"] => { deadlock := true, clock := clock, done := done }
  | evs0 =>
    let evs := evs0.filter (· ≠ "FULL")
    { clock := clock, done := done, full := evs0.contains "FULL",
             batch := evs.map fun w => match w.splitOn ":" with
               | [o, e] => (ownerOf o, e.toNat?.getD 0)
               | _ => (.other, 0) }

def addLine (p : Prog) (ws : List String) : Prog :=
  match ws with
  | ["config", "metrics", v] => { p with metrics := v != "0" }
  | ["config", "clock0", v] => { p with clock0 := nat! v }
  | ["config", "cblimit", v] => { p with cblimit := nat! v }
  | "config" :: "eintr" :: _ => p
  | "config" :: "full" :: _ => p
  | ["config", "default_loop", _] => p      -- which uv_loop_t is under test makes no difference to the model
  | ["config", "sigpipe", _] => p
  | ["config", "polllimit", _] => p
  | "on" :: key :: occ :: rest =>
    match keyOf key with
    | some k => { p with table := p.table ++ [(k, nat! occ, (splitOn rest ";").map parseOp)] }
    | none => { p with bad := p.bad ++ [" ".intercalate ws] }
  | ["op", "run", m] =>
    match modeOf m with
    | some m => { p with main := p.main ++ [.run m] }
    | none => { p with main := p.main ++ [.op (.bad s!"run {m}")] }
  | ["op", "loop_close"] => { p with main := p.main ++ [.loopClose] }
  | "op" :: rest => { p with main := p.main ++ [.op (parseOp rest)] }
  | ["env", "iouring", v] => { p with ringEnv := v != "0" }
  | "env" :: "poll" :: rest => { p with oracle := p.oracle ++ [parsePoll rest] }
  | [] => p
  | _ => { p with bad := p.bad ++ [" ".intercalate ws] }

def scriptOf (p : Prog) : Script := fun key occ g =>
  ((p.table.find? (fun e => e.1 == key && e.2.1 == occ)).map (·.2.2)).getD [] ++
  (if g ≥ p.cblimit then [Op.stopLoop] else [])

def runProg (p : Prog) : List String :=
  let s := emitObs { initLoop p.clock0 p.metrics p.oracle with ringEnv := p.ringEnv }
  let s := runMain (scriptOf p) 1000000 s p.main
  p.bad.map (fun l => s!"bad-line {l}") ++ (s.trace.reverse.flatMap render)

def loopStep (p : Prog) : List String → Prog × List String
  | ["go"] => ({}, runProg p)
  | ws => (addLine p ws, [])

def modes : List (String × IO Unit) := [("loop", runLines ({} : Prog) loopStep)]

end Drivers.C01
