import UvModel.DriverUtil
import UvModel.FsPoll
import UvModel.FsEvent
/-! line-protocol driver modes for C17; the other side is harness/c17_sim.c.

  mode `c17poll` (fs_poll).  Input = the harness's own input-bearing lines:
    script <k> <op>;<op>...            ops of the k-th user callback (start:h:cb:p:iv stop:h close:h)
    op start <h> <cb> <p> <iv> | op stop <h> | op close <h> | op getpath <h>
    op advance <n> | op release ... | op run      (release/run only matter to the real loop)
    ev statdone c<k> <status> [<14 fields>] | ev timerfire c<k> | ev timerclosed c<k> | ev closecb h<k>
    op end
  Output: every line the harness prints that is not a '#' comment.
-/
namespace Drivers.C17
open UvModel.DriverUtil
section PollPart
open UvModel.FsPoll

def parseOp : List String → Option Op
  | ["start", h, cb, p, iv] => do pure (.start (← h.toNat?) (← cb.toNat?) (← p.toNat?) (← iv.toNat?))
  | ["stop", h] => do pure (.stop (← h.toNat?))
  | ["close", h] => do pure (.close (← h.toNat?))
  | _ => none

def fmtOp : Op → String
  | .start h cb p iv => s!"op start {h} {cb} {p} {iv}"
  | .stop h => s!"op stop {h}"
  | .close h => s!"op close {h}"

def fmtStat (s : Stat) : String :=
  ",".intercalate ([s.ctimNs, s.mtimNs, s.btimNs, s.ctimS, s.mtimS, s.btimS, s.size, s.mode, s.uid, s.gid,
                    s.ino, s.dev, s.flags, s.gen].map toString)

def parseStat (w : String) : Option Stat :=
  match (w.splitOn ",").map String.toNat? with
  | [some a, some b, some c, some d, some e, some f, some g, some h, some i, some j, some k, some l, some m, some n] =>
    some { ctimNs := a, mtimNs := b, btimNs := c, ctimS := d, mtimS := e, btimS := f, size := g, mode := h,
           uid := i, gid := j, ino := k, dev := l, flags := m, gen := n }
  | _ => none

def fmtObs : Obs → List String
  | .cb _ h f st p c => [s!"cb h{h} f{f} {st} prev={fmtStat p} curr={fmtStat c}"]
  | .stat c p => [s!"stat c{c} p{p}"]
  | .arm c n => [s!"arm c{c} {n}"]
  | .closeTimer c => [s!"closetimer c{c}"]
  | .res _ _ _ => []
  | .ret rc a => [s!"ret {rc} a={if a then 1 else 0}"]
  | .api o => [fmtOp o]
  | .misuse => ["misuse"]
  | .badEvent => ["bad-event"]

structure DS where
  s : S := {}
  script : List (Nat × List Op) := []

def scriptOf (d : DS) : Script := fun k => ((d.script.find? (·.1 = k)).map (·.2)).getD []

def newLines (old new : S) : List String :=
  ((new.trace.take (new.trace.length - old.trace.length)).reverse).flatMap fmtObs

def NH : Nat := 4

def idOf (pre : String) (w : String) : Option Nat :=
  if w.startsWith pre then (w.drop pre.length).toString.toNat? else none

/-- teardown of `end`: close every handle, then deliver what is pending until nothing changes -/
def teardown (d : DS) : S :=
  let sc := scriptOf d
  let s := (List.range NH).foldl (fun s h => if (s.hs h).closing then s else apiClose s h) d.s
  let round (s : S) : S :=
    let s := (List.range s.nctx).foldl (fun s c =>
      if (s.ctxs c).statInFlight then statDone sc s c (.err 1) else s) s
    let s := (List.range s.nctx).foldl (fun s c =>
      if (s.ctxs c).timerClosing && !(s.ctxs c).freed then timerClosed s c else s) s
    (List.range NH).foldl (fun s h => if (s.hs h).closePending && !(s.hs h).closed then closeCb s h else s) s
  round (round (round s))

def stepPoll (d : DS) (ws : List String) : DS × List String :=
  match ws with
  | [] => (d, [])
  | ["reset"] => ({}, ["=== reset"])
  | "script" :: k :: rest =>
    let line := " ".intercalate ws
    let ops := ((" ".intercalate rest).splitOn ";").map (fun o => parseOp ((o.splitOn ":").filter (· ≠ "")))
    match k.toNat?, ops.all Option.isSome with
    | some k, true => ({ d with script := (k, ops.filterMap id) :: d.script }, [line])
    | _, _ => (d, [line, "bad-op"])
  | "op" :: "getpath" :: [h] =>
    match h.toNat? with
    | some h =>
      if h ≥ NH then (d, [s!"op getpath {h}", "bad-op"])
      else if (d.s.hs h).closed then (d, [s!"op getpath {h}", "misuse"])
      else match getpath d.s h with
        | (rc, some p) => (d, [s!"op getpath {h}", s!"path {rc} p{p}"])
        | (rc, none) => (d, [s!"op getpath {h}", s!"path {rc} -"])
    | none => (d, [" ".intercalate ws, "bad-op"])
  | "op" :: "advance" :: [n] =>
    match n.toNat? with
    | some n => ({ d with s := step (scriptOf d) d.s (.advance n) }, [" ".intercalate ws])
    | none => (d, [" ".intercalate ws, "bad-op"])
  | "op" :: "startfail" :: k :: rest =>
    -- allocation number k (0 = the context, 1 = the request's path copy) fails inside uv_fs_poll_start:
    -- UV_ENOMEM and nothing changes; any other k (or a call that allocates nothing) is the plain start
    match k.toNat?, parseOp ("start" :: rest) with
    | some k, some (.start h cb p iv) =>
      if h ≥ NH || cb ≥ 4 then (d, [" ".intercalate ws, "bad-op"])
      else if k < 2 && !(d.s.hs h).closing && !(d.s.hs h).active then (d, [" ".intercalate ws, "ret -12 a=0"])
      else
        let s' := step (scriptOf d) d.s (.op (.start h cb p iv))
        ({ d with s := s' }, [" ".intercalate ws] ++ (newLines d.s s').drop 1)
    | _, _ => (d, [" ".intercalate ws, "bad-op"])
  | "op" :: "release" :: _ => (d, [" ".intercalate ws])
  | ["op", "run"] => (d, ["op run"])
  | ["op", "end"] =>
    let s := teardown d
    let openH := ((List.range NH).filter (fun h => !(s.hs h).closed)).length
    let allFreed := (List.range s.nctx).all (fun c => (s.ctxs c).freed)
    let rc : Int := if openH = 0 && allFreed && !s.err then 0 else -16
    ({ d with s := s }, ["op end", s!"loopclose {rc} open={openH}"])
  | "op" :: rest =>
    match parseOp rest with
    | some o =>
      let h := match o with | .start h _ _ _ => h | .stop h => h | .close h => h
      let cbOk := match o with | .start _ cb _ _ => cb < 4 | _ => true
      if h ≥ NH || !cbOk then (d, [" ".intercalate ws, "bad-op"])
      else
        let s' := step (scriptOf d) d.s (.op o)
        ({ d with s := s' }, newLines d.s s')
    | none => (d, [" ".intercalate ws, "bad-op"])
  | "ev" :: rest =>
    let line := " ".intercalate ws
    let inp : Option In := match rest with
      | ["statdone", c, "0", st] => do pure (.statDone (← idOf "c" c) (.ok (← parseStat st)))
      | ["statdone", c, st] => do
          let v ← st.toInt?
          if v < 0 then pure (.statDone (← idOf "c" c) (.err ((-v).toNat - 1))) else none
      | ["timerfire", c] => do pure (.timerFire (← idOf "c" c))
      | ["timerclosed", c] => do pure (.timerClosed (← idOf "c" c))
      | ["closecb", h] => do pure (.closeCb (← idOf "h" h))
      | _ => none
    match inp with
    | some i =>
      let s' := step (scriptOf d) d.s i
      ({ d with s := s' }, [line] ++ newLines d.s s' ++ (if s'.err && !d.s.err then ["model-error-state"] else []) ++ ["evend"])
    | none => (d, [line, "bad-op"])
  | _ => (d, [" ".intercalate ws, "bad-op"])

end PollPart

/-! mode `c17event` (fs_event, scripted inotify records):
    script <k> <op>;...      (start:h:cb:wd:alias stop:h close:h)
    op start <h> <cb> <wd> <alias> | op stop <h> | op close <h>
    op dispatch <wd>:<mask>:<name|-> ... [/ ...]      ('/' = next read(2) buffer)
    op run | op end -/
namespace Ev
open UvModel.FsEvent

def parseOp : List String → Option Op
  | ["start", h, cb, wd, a] => do pure (.start (← h.toNat?) (← cb.toNat?) (← wd.toNat?) (← a.toNat?))
  | ["stop", h] => do pure (.stop (← h.toNat?))
  | ["close", h] => do pure (.close (← h.toNat?))
  | _ => none

def fmtOp : Op → String
  | .start h cb wd a => s!"op start {h} {cb} {wd} {a}"
  | .stop h => s!"op stop {h}"
  | .close h => s!"op close {h}"

def fmtObs : Obs → String
  | .api o => fmtOp o
  | .ret rc a => s!"ret {rc} a={if a then 1 else 0}"
  | .misuse => "misuse"
  | .addwatch r => s!"addwatch {r} mask={WATCH_MASK}"
  | .rmwatch wd => s!"rmwatch {wd}"
  | .cb h f name ev => s!"cb h{h} f{f} name={name} ev={ev} st=0"

structure DS where
  s : S := {}
  script : List (Nat × List Op) := []

def scriptOf (d : DS) : Script := fun k => ((d.script.find? (·.1 = k)).map (·.2)).getD []

def newLines (old new : S) : List String :=
  ((new.trace.take (new.trace.length - old.trace.length)).reverse).map fmtObs

def parseRec (w : String) : Option Rec :=
  match w.splitOn ":" with
  | [wd, mask, name] => do
    pure { wd := (← wd.toNat?), mask := (← mask.toNat?), name := if name = "-" then none else some name }
  | _ => none

def stepEv (d : DS) (ws : List String) : DS × List String :=
  let line := " ".intercalate ws
  match ws with
  | [] => (d, [])
  | ["reset"] => ({}, ["=== reset"])
  | "script" :: k :: rest =>
    let ops := ((" ".intercalate rest).splitOn ";").map (fun o => parseOp ((o.splitOn ":").filter (· ≠ "")))
    match k.toNat?, ops.all Option.isSome with
    | some k, true => ({ d with script := (k, ops.filterMap id) :: d.script }, [line])
    | _, _ => (d, [line, "bad-op"])
  | ["op", "run"] => (d, [line])
  | ["op", "end"] => (d, [line, "loopclose 0 open=0"])
  | "op" :: "startfail" :: k :: rest =>
    -- the allocation of a new watcher_list (the only one, index 0, after inotify_add_watch) fails:
    -- the fresh kernel watch is removed again, UV_ENOMEM, nothing else changes
    match k.toNat?, parseOp ("start" :: rest) with
    | some k, some (.start h cb wd a) =>
      if h ≥ 4 || cb ≥ 4 then (d, [line, "bad-op"])
      else if k = 0 && !(d.s.hs h).closing && !(d.s.hs h).active && wd ≠ 0 && (d.s.lists wd).isNone then
        ({ d with s := { d.s with inited := true } },
          [line, s!"addwatch {wd} mask={WATCH_MASK}", s!"rmwatch {wd}", "ret -12 a=0"])
      else
        let s' := step (scriptOf d) d.s (.op (.start h cb wd a))
        ({ d with s := s' }, [line] ++ (newLines d.s s').drop 1)
    | _, _ => (d, [line, "bad-op"])
  | "op" :: "dispatch" :: recs =>
    let rs := (recs.filter (· ≠ "/")).map parseRec
    if rs.all Option.isSome then
      if !d.s.inited then (d, [line, "noinotify"])
      else
        let s' := step (scriptOf d) d.s (.dispatch (rs.filterMap id))
        ({ d with s := s' }, [line] ++ newLines d.s s' ++ (if s'.err && !d.s.err then ["model-error-state"] else []) ++ ["dispatched"])
    else (d, [line, "bad-op"])
  | "op" :: rest =>
    match parseOp rest with
    | some o =>
      let h := match o with | .start h _ _ _ => h | .stop h => h | .close h => h
      let cbOk := match o with | .start _ cb _ _ => cb < 4 | _ => true
      if h ≥ 4 || !cbOk then (d, [line, "bad-op"])
      else
        let s' := step (scriptOf d) d.s (.op o)
        ({ d with s := s' }, newLines d.s s')
    | none => (d, [line, "bad-op"])
  | _ => (d, [line, "bad-op"])

end Ev

/-- (mode name, action).  `uvdriver <mode>` runs the action (normally `runLines init step`). -/
def modes : List (String × IO Unit) :=
  [("c17poll", runLines ({} : DS) stepPoll), ("c17event", runLines ({} : Ev.DS) Ev.stepEv)]

end Drivers.C17
