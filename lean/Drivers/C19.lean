import UvModel.DriverUtil
import UvModel.Getter
import UvModel.Generated.ErrnoTable
/-! line-protocol driver for C19; other side: harness/c19_getters.c.
`sentinel <n>` sets the byte the buffer is pre-filled with.
`getter <name> <size> <args>` → `ret <rc> size <reported> buf <hex of buffer[0..size)>`, followed by
` retry ret .. size .. buf ..` when the first call answered UV_ENOBUFS (second call with the reported size).
Values are hex strings (`-` = empty, `!` = absent). -/
namespace Drivers.C19
open UvModel.DriverUtil UvModel.Getter UvModel.Generated

def hexDigit (c : Char) : Option Nat :=
  if '0' ≤ c ∧ c ≤ '9' then some (c.toNat - 48)
  else if 'a' ≤ c ∧ c ≤ 'f' then some (c.toNat - 87) else none

def unhexAux : List Char → List Byte → Option (List Byte)
  | [], acc => some acc.reverse
  | a :: b :: rest, acc =>
    match hexDigit a, hexDigit b with
    | some x, some y => unhexAux rest ((x * 16 + y).toUInt8 :: acc)
    | _, _ => none
  | _, _ => none

def unhex (s : String) : Option (List Byte) := if s = "-" then some [] else unhexAux s.toList []

def hexChars : Array Char := "0123456789abcdef".toList.toArray
def hexOf (a : Array Byte) : String :=
  if a.size = 0 then "-" else
  String.ofList (a.foldr (fun b acc => hexChars[b.toNat / 16]! :: hexChars[b.toNat % 16]! :: acc) [])

/-- the buffer after the call: stores applied in program order to `size` sentinel bytes -/
def render (sent : Byte) (size : Nat) (ws : Writes) : String :=
  let (a, over) := ws.foldl (fun (st : Array Byte × Bool) p =>
    if p.1 < size then (st.1.set! p.1 p.2, st.2) else (st.1, true)) (Array.replicate size sent, false)
  if over then "MODEL-OVERRUN" else hexOf a

def show1 (sent : Byte) (size : Nat) (r : Result) : String :=
  s!"ret {r.rc} size {r.size} buf {render sent size r.writes}"

/-- `hasSize`: the API has an in/out `*size`, so an ENOBUFS answer is retried with the reported size -/
def showRun (sent : Byte) (hasSize : Bool) (run : Nat → Result) (size : Nat) : String :=
  let r := run size
  if hasSize && r.rc == ENOBUFS then show1 sent size r ++ " retry " ++ show1 sent r.size (run r.size)
  else show1 sent size r

def optVal (s : String) : Option (Option (List Byte)) := if s = "!" then some none else (unhex s).map some

def getterStep (sent : Byte) : List String → Byte × List String
  | ["sentinel", n] => ((nat! n).toUInt8, [])
  | ["getter", name, sz, a] =>
    let size := nat! sz
    let one (hasSize : Bool) (f : List Byte → Nat → Result) : List String :=
      match unhex a with
      | some v => [showRun sent hasSize (f v) size]
      | none => ["bad-op"]
    (sent, match name with
      | "cwd" => one true cwd
      | "getenv" => (match optVal a with
          | some v => [showRun sent true (osGetenv v) size]
          | none => ["bad-op"])
      | "tmpdir" => one true osTmpdir
      | "hostname" => one true osGethostname
      | "exepath" => one false exepath
      | "proctitle" => one false getProcessTitle
      | "sockname" => one true (fun v => pipeGetname v sent)
      | "peername" => one true (fun v => pipeGetname v sent)
      | "csockname" => one true (fun v => pipeGetname v sent)
      | "fsevent" => one true fsEventGetpath
      | "fspoll" => one true fsPollGetpath
      | "ifname" => one true ifIndexToName
      | "ifiid" => one true ifIndexToName
      | "threadname" => one false threadGetname
      | "errname" => (match a.toInt? with
          | some c => [showRun sent false (errNameR errnoTable c) size]
          | none => ["bad-op"])
      | "strerror" => (match a.toInt? with
          | some c => [showRun sent false (strerrorR errnoTable c) size]
          | none => ["bad-op"])
      | _ => ["bad-op"])
  | ["getter", "cwd", sz, a, res] =>
    -- `res`: the buffer as the failed first getcwd left it (glibc fallback for paths ≥ PATH_MAX)
    (sent, match unhex a, unhex res with
      | some v, some r =>
        let residue : Writes := (r.zipIdx.filter (fun p => p.1 ≠ sent)).map fun p => (p.2, p.1)
        [showRun sent true (fun n => if n = nat! sz then cwdR v n residue else cwd v n) (nat! sz)]
      | _, _ => ["bad-op"])
  | ["getter", "homedir", sz, h, pw] =>
    (sent, match optVal h, unhex pw with
      | some hv, some p => [showRun sent true (osHomedir hv p) (nat! sz)]
      | _, _ => ["bad-op"])
  | ["truth", "errname", c] =>
    (sent, match c.toInt? with | some c => [hexOf (trueErrName errnoTable c).toArray] | none => ["bad-op"])
  | ["truth", "strerror", c] =>
    (sent, match c.toInt? with | some c => [hexOf (trueStrerror errnoTable c).toArray] | none => ["bad-op"])
  | [] => (sent, [])
  | _ => (sent, ["bad-op"])

def modes : List (String × IO Unit) := [("getter", runLines (0xAA : Byte) getterStep)]

end Drivers.C19
